/-
  Property C15, power-spaced sequences and the p-norm of the vector model (Ohsl/Model/Vec.lean,
  `Vec.powspace`, `Vec.normP`), class (R): interpreted over ℝ with the instances of
  Ohsl/Lemmas/RealTransc.lean (`powf := Real.rpow`, `fabs := |·|`, `ofNat := Nat.cast`, `divM` is
  the exact division that rejects an exact zero divisor).
  NOT proved here: anything about rounding in f64 (class F; see C15F / C15M).  Places where the real
  interpretation deliberately differs from IEEE arithmetic: `powspace_one_rejects` (f64:
  `0.0 / 0.0 = NaN`, no panic), `normP_zero_rejects` (f64: `1.0 / 0.0 = inf`, no panic), both
  spelled out as theorems, and — for NEGATIVE exponents p — Mathlib's `0 ^ p = 0` where f64 has
  `powf(0, p) = inf` (node 0 of `powspace`, zero entries in `normP`): `powspace_spec_real`,
  `normP_nonneg`, `normP_smul` rest on that convention for p < 0 and say nothing about f64 there
  (the property quantifies over p ∈ [1, 8]).
-/
import Ohsl.Props.C15N
import Mathlib.Analysis.MeanInequalities
import Mathlib.Analysis.MeanInequalitiesPow
import Mathlib.Analysis.SpecialFunctions.Pow.Real
import Mathlib.Analysis.SpecialFunctions.Sqrt
import Mathlib.Tactic.Ring
import Mathlib.Tactic.Linarith
import Mathlib.Tactic.Positivity
import Mathlib.Tactic.FieldSimp
import Mathlib.Tactic.NormNum
set_option linter.unusedSectionVars false
set_option linter.unusedVariables false
namespace Ohsl.Props.C15
open Ohsl Ohsl.Vec Ohsl.RealI

/-! ## `mapM` in the `Except` monad -/

theorem mapM_ok_list {α β : Type} (l : List α) (f : α → Res β) (g : α → β)
    (h : ∀ x ∈ l, f x = .ok (g x)) : l.mapM f = .ok (l.map g) := by
  induction l with
  | nil => rfl
  | cons a l ih =>
    have h1 := h a (by simp)
    have h2 := ih (fun b hb => h b (by simp [hb]))
    simp [List.mapM_cons, h1, h2, bind, Except.bind, pure, Except.pure]

theorem mapM_ok_arr {α β : Type} (a : Array α) (f : α → Res β) (g : α → β)
    (h : ∀ x ∈ a, f x = .ok (g x)) : a.mapM f = .ok (a.map g) := by
  rw [Array.mapM_eq_mapM_toList, mapM_ok_list _ f g (fun x hx => h x (by simpa using hx))]
  simp only [Functor.map, Except.map]
  congr 1
  apply Array.toList_inj.mp
  simp

/-! ## 8. powspace (real interpretation) -/
section Powspace

/-- for `n ≥ 2` the model never fails and returns the array of the nodes
    `a + (b - a) * (i / (n - 1)) ^ p` -/
theorem powspace_ok (a b p : ℝ) (n : Nat) (hn : 2 ≤ n) :
    Vec.powspace a b n p =
      .ok (Array.ofFn (n := n) fun i => a + (b - a) * ((i.val : ℝ) / ((n : ℝ) - 1)) ^ p) := by
  have hn1 : (1 : ℝ) < (n : ℝ) := by exact_mod_cast (by omega : 1 < n)
  have hne : (n : ℝ) - 1 ≠ 0 := by
    have : (0 : ℝ) < (n : ℝ) - 1 := by linarith
    exact this.ne'
  unfold Vec.powspace
  rw [mapM_ok_arr _ _ (fun i : Nat => a + (b - a) * ((i : ℝ) / ((n : ℝ) - 1)) ^ p)]
  · congr 1
    apply Array.ext
    · simp
    · intro i h1 h2
      simp
  · intro i _
    show (do
      let t ← divM ((i : ℕ) : ℝ) ((n : ℝ) - 1)
      pure (a + (b - a) * Transc.powf t p)) = _
    rw [Alg.divM_ne hne]
    rfl

/-- **`powspace(a, b, n, p)`** for `n ≥ 2`: size `n`, node `i` is `a + (b-a) * (i/(n-1)) ^ p`
    (`Real.rpow`), the last node is exactly `b` (for every `p`), and for `p > 0` the first node is
    exactly `a` and the sequence is strictly increasing if `a < b`, strictly decreasing if
    `b < a`. -/
theorem powspace_spec_real (a b p : ℝ) (n : Nat) (hn : 2 ≤ n) :
    ∃ v, Vec.powspace a b n p = .ok v ∧ v.size = n ∧
      (∀ i, i < n → v.getD i 0 = a + (b - a) * ((i : ℝ) / ((n : ℝ) - 1)) ^ p) ∧
      (0 < p → v.getD 0 0 = a) ∧ v.getD (n - 1) 0 = b ∧
      (0 < p → a < b → ∀ i j, i < j → j < n → v.getD i 0 < v.getD j 0) ∧
      (0 < p → b < a → ∀ i j, i < j → j < n → v.getD j 0 < v.getD i 0) := by
  have hn1 : (1 : ℝ) < (n : ℝ) := by exact_mod_cast (by omega : 1 < n)
  have hpos : (0 : ℝ) < (n : ℝ) - 1 := by linarith
  have hel : ∀ i, i < n →
      (Array.ofFn (n := n) fun i => a + (b - a) * ((i.val : ℝ) / ((n : ℝ) - 1)) ^ p).getD i 0
        = a + (b - a) * ((i : ℝ) / ((n : ℝ) - 1)) ^ p := by
    intro i hi
    simp [Array.getD, hi]
  have hmono : 0 < p → ∀ i j : Nat, i < j →
      ((i : ℝ) / ((n : ℝ) - 1)) ^ p < ((j : ℝ) / ((n : ℝ) - 1)) ^ p := by
    intro hp i j hij
    refine Real.rpow_lt_rpow (div_nonneg (Nat.cast_nonneg i) hpos.le) ?_ hp
    have hc : (i : ℝ) < (j : ℝ) := by exact_mod_cast hij
    exact (div_lt_div_iff_of_pos_right hpos).mpr hc
  refine ⟨_, powspace_ok a b p n hn, by simp, hel, ?_, ?_, ?_, ?_⟩
  · intro hp
    rw [hel 0 (by omega)]
    simp [Real.zero_rpow hp.ne']
  · rw [hel (n - 1) (by omega)]
    have : ((n - 1 : ℕ) : ℝ) = (n : ℝ) - 1 := by
      rw [Nat.cast_sub (by omega)]; simp
    rw [this, div_self hpos.ne', Real.one_rpow]
    ring
  · intro hp hab i j hij hj
    rw [hel i (by omega), hel j hj]
    have := mul_lt_mul_of_pos_left (hmono hp i j hij) (sub_pos.mpr hab)
    linarith
  · intro hp hab i j hij hj
    rw [hel i (by omega), hel j hj]
    have := mul_lt_mul_of_neg_left (hmono hp i j hij) (sub_neg.mpr hab)
    linarith

/-- for `p > 0` every node lies between the end points -/
theorem powspace_mem_Icc (a b p : ℝ) (n : Nat) (hn : 2 ≤ n) (hp : 0 < p) (hab : a ≤ b)
    {v : Array ℝ} (hv : Vec.powspace a b n p = .ok v) (i : Nat) (hi : i < n) :
    a ≤ v.getD i 0 ∧ v.getD i 0 ≤ b := by
  obtain ⟨v', hv', _, hel, _⟩ := powspace_spec_real a b p n hn
  rw [hv'] at hv; cases hv
  have hn1 : (1 : ℝ) < (n : ℝ) := by exact_mod_cast (by omega : 1 < n)
  have hpos : (0 : ℝ) < (n : ℝ) - 1 := by linarith
  have ht0 : 0 ≤ (i : ℝ) / ((n : ℝ) - 1) := div_nonneg (Nat.cast_nonneg i) hpos.le
  have ht1 : (i : ℝ) / ((n : ℝ) - 1) ≤ 1 := by
    rw [div_le_one hpos]
    have : (i : ℝ) + 1 ≤ (n : ℝ) := by exact_mod_cast hi
    linarith
  have h0 : 0 ≤ ((i : ℝ) / ((n : ℝ) - 1)) ^ p := Real.rpow_nonneg ht0 p
  have h1 : ((i : ℝ) / ((n : ℝ) - 1)) ^ p ≤ 1 := Real.rpow_le_one ht0 ht1 hp.le
  rw [hel i hi]
  constructor
  · nlinarith [mul_nonneg (sub_nonneg.mpr hab) h0]
  · nlinarith [mul_le_mul_of_nonneg_left h1 (sub_nonneg.mpr hab)]

/-- exponent `1`: the nodes are those of `linspace` -/
theorem powspace_one_eq_linspace (a b : ℝ) (n : Nat) (hn : 2 ≤ n) :
    ∃ v w, Vec.powspace a b n 1 = .ok v ∧ Vec.linspace a b n = .ok w ∧ v.size = w.size ∧
      ∀ i, i < n → v.getD i 0 = w.getD i 0 := by
  obtain ⟨v, hv, hvs, hel, _⟩ := powspace_spec_real a b 1 n hn
  obtain ⟨w, hw, hws, hel', _⟩ := linspace_spec_real a b n hn
  refine ⟨v, w, hv, hw, by rw [hvs, hws], fun i hi => ?_⟩
  rw [hel i hi, hel' i hi, Real.rpow_one]
  ring

/-- exponent `0` (`x ^ 0 = 1`, also at `x = 0`): every node is `b` -/
theorem powspace_zero_exponent (a b : ℝ) (n : Nat) (hn : 2 ≤ n) :
    ∃ v, Vec.powspace a b n 0 = .ok v ∧ v.size = n ∧ ∀ i, i < n → v.getD i 0 = b := by
  obtain ⟨v, hv, hvs, hel, _⟩ := powspace_spec_real a b 0 n hn
  refine ⟨v, hv, hvs, fun i hi => ?_⟩
  rw [hel i hi, Real.rpow_zero]
  ring

/-- size `0`: the closure is never called, the result is the empty vector -/
theorem powspace_zero_size (a b p : ℝ) : Vec.powspace a b 0 p = .ok #[] := by
  unfold Vec.powspace
  rw [mapM_ok_arr _ _ (fun i : Nat => a + (b - a) * ((i : ℝ) / ((0 : ℕ) - 1 : ℝ)) ^ p)]
  · simp
  · intro i hi
    simp at hi

/-- size `1`: `size as f64 - 1.0` is an exact zero, the exact division `0 / 0` is rejected
    (in f64 the single node is `NaN`) -/
theorem powspace_one_rejects (a b p : ℝ) : Vec.powspace a b 1 p = .error .arith := by
  unfold Vec.powspace
  have h0 : (Transc.ofNat 1 : ℝ) - 1 = 0 := by
    show ((1 : ℕ) : ℝ) - 1 = 0
    simp
  rw [Array.mapM_eq_mapM_toList]
  simp only [Array.toList_ofFn, List.ofFn_succ, List.ofFn_zero, List.mapM_cons, h0,
    Alg.divM_zero, bind, Except.bind]
  rfl

end Powspace

/-! ## 9. norm_p (real interpretation) -/
section NormP

/-- the accumulation of `norm_p` -/
theorem normP_acc_eq (a : Array ℝ) (p : ℝ) :
    a.foldl (fun acc x => acc + Transc.powf (Transc.fabs x) p) 0
      = ∑ i ∈ Finset.range a.size, |a.getD i 0| ^ p := by
  have := arr_foldl_add_eq_sum (fun x : ℝ => Transc.powf (Transc.fabs x) p) 0 a 0
  rw [zero_add] at this
  exact this

/-- **`norm_p`** for a non-zero exponent (in particular for `p ≥ 1`):
    `(Σ_i |a_i| ^ p) ^ (1/p)` with `Real.rpow` -/
theorem normP_spec_real (a : Array ℝ) {p : ℝ} (hp : p ≠ 0) :
    Vec.normP a p = .ok ((∑ i ∈ Finset.range a.size, |a.getD i 0| ^ p) ^ (1 / p)) := by
  unfold Vec.normP
  simp only [bind, Except.bind, Alg.divM_ne hp, pure, Except.pure, normP_acc_eq]
  rfl

/-- exponent `0`: the exact division `1 / p` is rejected (in f64: `1/0 = inf`, no panic) -/
theorem normP_zero_rejects (a : Array ℝ) : Vec.normP a 0 = .error .arith := by
  unfold Vec.normP
  simp only [bind, Except.bind, Alg.divM_zero]

/-- inversion: a successful `norm_p` has a non-zero exponent and the value of `normP_spec_real` -/
theorem normP_ok {a : Array ℝ} {p m : ℝ} (h : Vec.normP a p = .ok m) :
    p ≠ 0 ∧ m = (∑ i ∈ Finset.range a.size, |a.getD i 0| ^ p) ^ (1 / p) := by
  by_cases hp : p = 0
  · subst hp
    rw [normP_zero_rejects] at h
    cases h
  · rw [normP_spec_real a hp] at h
    cases h
    exact ⟨hp, rfl⟩

theorem normP_sum_nonneg (a : Array ℝ) (p : ℝ) :
    0 ≤ ∑ i ∈ Finset.range a.size, |a.getD i 0| ^ p :=
  Finset.sum_nonneg fun _ _ => Real.rpow_nonneg (abs_nonneg _) p

/-- non-negativity (every exponent the model accepts) -/
theorem normP_nonneg {a : Array ℝ} {p m : ℝ} (h : Vec.normP a p = .ok m) : 0 ≤ m := by
  obtain ⟨_, rfl⟩ := normP_ok h
  exact Real.rpow_nonneg (normP_sum_nonneg a p) _

/-- absolute homogeneity (every exponent the model accepts) -/
theorem normP_smul {a : Array ℝ} {p m : ℝ} (h : Vec.normP a p = .ok m) (c : ℝ) :
    Vec.normP (Vec.smul a c) p = .ok (|c| * m) := by
  obtain ⟨hp, rfl⟩ := normP_ok h
  rw [normP_spec_real _ hp]
  congr 1
  have hsz : (Vec.smul a c).size = a.size := by simp [Vec.smul]
  have : ∑ i ∈ Finset.range (Vec.smul a c).size, |(Vec.smul a c).getD i 0| ^ p
      = |c| ^ p * ∑ i ∈ Finset.range a.size, |a.getD i 0| ^ p := by
    rw [hsz, Finset.mul_sum]
    refine Finset.sum_congr rfl fun i hi => ?_
    have hi := Finset.mem_range.mp hi
    have : (Vec.smul a c).getD i 0 = a.getD i 0 * c := by simp [Vec.smul, Array.getD, hi]
    rw [this, abs_mul, Real.mul_rpow (abs_nonneg _) (abs_nonneg _), mul_comm]
  rw [this, Real.mul_rpow (Real.rpow_nonneg (abs_nonneg c) p) (normP_sum_nonneg a p),
    ← Real.rpow_mul (abs_nonneg c), mul_one_div_cancel hp, Real.rpow_one]

/-- **Minkowski's inequality**: the triangle inequality of `norm_p` for `p ≥ 1` -/
theorem normP_triangle {a b : Array ℝ} {p ma mb mab : ℝ} (hp : 1 ≤ p) (hs : a.size = b.size)
    (ha : Vec.normP a p = .ok ma) (hb : Vec.normP b p = .ok mb)
    (hab : Vec.normP (Array.zipWith (· + ·) a b) p = .ok mab) : mab ≤ ma + mb := by
  obtain ⟨_, rfl⟩ := normP_ok ha
  obtain ⟨_, rfl⟩ := normP_ok hb
  obtain ⟨_, rfl⟩ := normP_ok hab
  have hsz : (Array.zipWith (· + ·) a b).size = a.size := by simp [← hs]
  rw [hsz, ← hs]
  refine le_of_eq_of_le ?_
    (Real.Lp_add_le (Finset.range a.size) (fun i => a.getD i 0) (fun i => b.getD i 0) hp)
  congr 1
  refine Finset.sum_congr rfl fun i hi => ?_
  have hi : i < a.size := Finset.mem_range.mp hi
  have hi' : i < b.size := hs ▸ hi
  simp [Array.getD, hi, hi']

/-- the triangle inequality phrased on the checked addition `&a + &b` -/
theorem normP_add_le {a b c : Array ℝ} {p ma mb mc : ℝ} (hp : 1 ≤ p) (h : Vec.add a b = .ok c)
    (ha : Vec.normP a p = .ok ma) (hb : Vec.normP b p = .ok mb) (hc : Vec.normP c p = .ok mc) :
    mc ≤ ma + mb := by
  unfold Vec.add at h
  split at h
  · cases h
  · rename_i hs
    cases h
    exact normP_triangle hp (not_not.mp hs) ha hb hc

/-- `‖a‖_∞ ≤ ‖a‖_p` for every `p > 0` (in particular `p ≥ 1`) -/
theorem normInf_le_normP {a : Array ℝ} {p m mp : ℝ} (hp : 0 < p) (hinf : Vec.normInf a = .ok m)
    (hP : Vec.normP a p = .ok mp) : m ≤ mp := by
  obtain ⟨i, hi, rfl⟩ := (normInf_isMaxAbs hinf).2
  obtain ⟨_, rfl⟩ := normP_ok hP
  have h1 : |a.getD i 0| = (|a.getD i 0| ^ p) ^ (1 / p) := by
    rw [← Real.rpow_mul (abs_nonneg _), mul_one_div_cancel hp.ne', Real.rpow_one]
  rw [h1]
  refine Real.rpow_le_rpow (Real.rpow_nonneg (abs_nonneg _) p) ?_ (by positivity)
  exact Finset.single_le_sum (f := fun i => |a.getD i 0| ^ p)
    (fun _ _ => Real.rpow_nonneg (abs_nonneg _) p) (Finset.mem_range.mpr hi)

/-- `Σ f_i ^ r ≤ (Σ f_i) ^ r` for non-negative `f_i` and `r ≥ 1` -/
theorem sum_rpow_le_rpow_sum (s : Finset ℕ) (f : ℕ → ℝ) (hf : ∀ i ∈ s, 0 ≤ f i) {r : ℝ}
    (hr : 1 ≤ r) : ∑ i ∈ s, f i ^ r ≤ (∑ i ∈ s, f i) ^ r := by
  induction s using Finset.induction_on with
  | empty =>
    have : r ≠ 0 := by linarith
    simp [Real.zero_rpow this]
  | insert x s hx ih =>
    rw [Finset.sum_insert hx, Finset.sum_insert hx]
    have h0 : 0 ≤ f x := hf x (Finset.mem_insert_self x s)
    have hs : ∀ i ∈ s, 0 ≤ f i := fun i hi => hf i (Finset.mem_insert_of_mem hi)
    have hS : 0 ≤ ∑ i ∈ s, f i := Finset.sum_nonneg hs
    calc f x ^ r + ∑ i ∈ s, f i ^ r ≤ f x ^ r + (∑ i ∈ s, f i) ^ r := by linarith [ih hs]
      _ ≤ (f x + ∑ i ∈ s, f i) ^ r := Real.add_rpow_le_rpow_add h0 hS hr

/-- the p-norms decrease in `p`: `‖a‖_q ≤ ‖a‖_p` for `0 < p ≤ q` -/
theorem normP_antitone {a : Array ℝ} {p q mp mq : ℝ} (hp : 0 < p) (hpq : p ≤ q)
    (hP : Vec.normP a p = .ok mp) (hQ : Vec.normP a q = .ok mq) : mq ≤ mp := by
  obtain ⟨_, rfl⟩ := normP_ok hP
  obtain ⟨_, rfl⟩ := normP_ok hQ
  have hq : 0 < q := lt_of_lt_of_le hp hpq
  have hr : 1 ≤ q / p := by rwa [one_le_div hp]
  have hterm : ∀ i, |a.getD i 0| ^ q = (|a.getD i 0| ^ p) ^ (q / p) := by
    intro i
    rw [← Real.rpow_mul (abs_nonneg _), mul_div_cancel₀ q hp.ne']
  have hsum : ∑ i ∈ Finset.range a.size, |a.getD i 0| ^ q
      ≤ (∑ i ∈ Finset.range a.size, |a.getD i 0| ^ p) ^ (q / p) := by
    simp only [hterm]
    exact sum_rpow_le_rpow_sum _ (fun i => |a.getD i 0| ^ p)
      (fun _ _ => Real.rpow_nonneg (abs_nonneg _) p) hr
  have h1 : (0 : ℝ) ≤ 1 / q := by positivity
  refine (Real.rpow_le_rpow (normP_sum_nonneg a q) hsum h1).trans (le_of_eq ?_)
  rw [← Real.rpow_mul (normP_sum_nonneg a p)]
  congr 1
  field_simp

/-- `norm_p` with exponent `1` is `norm_1` -/
theorem normP_one (a : Array ℝ) : Vec.normP a 1 = .ok (Vec.norm1 a) := by
  rw [normP_spec_real a one_ne_zero, norm1_eq]
  simp [Real.rpow_one]

/-- `norm_p` with exponent `2` is `norm_2` -/
theorem normP_two (a : Array ℝ) : Vec.normP a 2 = .ok (Vec.norm2 a) := by
  rw [normP_spec_real a two_ne_zero, norm2_eq, Real.sqrt_eq_rpow]
  congr 2
  refine Finset.sum_congr rfl fun i _ => ?_
  rw [Real.rpow_two, sq_abs]

/-- the same with the model's own constant `two = 1 + 1` -/
theorem normP_two' (a : Array ℝ) : Vec.normP a (Vec.two : ℝ) = .ok (Vec.norm2 a) := by
  have : (Vec.two : ℝ) = 2 := by
    show (1 : ℝ) + 1 = 2
    norm_num
  rw [this, normP_two]

/-- `‖a‖_p ≤ ‖a‖_1` for `p ≥ 1` -/
theorem normP_le_norm1 {a : Array ℝ} {p m : ℝ} (hp : 1 ≤ p) (h : Vec.normP a p = .ok m) :
    m ≤ Vec.norm1 a :=
  normP_antitone zero_lt_one hp (normP_one a) h

/-- `‖a‖_p ≤ ‖a‖_2` for `p ≥ 2` and `‖a‖_2 ≤ ‖a‖_p` for `0 < p ≤ 2` -/
theorem normP_vs_norm2 {a : Array ℝ} {p m : ℝ} (h : Vec.normP a p = .ok m) :
    (2 ≤ p → m ≤ Vec.norm2 a) ∧ (0 < p → p ≤ 2 → Vec.norm2 a ≤ m) :=
  ⟨fun hp => normP_antitone two_pos hp (normP_two a) h,
   fun h0 hp => normP_antitone h0 hp h (normP_two a)⟩

/-- definiteness for `p > 0`: `norm_p a = 0` exactly when every element is zero -/
theorem normP_eq_zero_iff {a : Array ℝ} {p : ℝ} (hp : 0 < p) :
    Vec.normP a p = .ok 0 ↔ ∀ i, i < a.size → a.getD i 0 = 0 := by
  rw [normP_spec_real a hp.ne']
  have hne : (1 : ℝ) / p ≠ 0 := by positivity
  constructor
  · intro h i hi
    have h' : (∑ i ∈ Finset.range a.size, |a.getD i 0| ^ p) ^ (1 / p) = 0 := by injection h
    rw [Real.rpow_eq_zero_iff_of_nonneg (normP_sum_nonneg a p)] at h'
    have := (Finset.sum_eq_zero_iff_of_nonneg
      (fun i _ => Real.rpow_nonneg (abs_nonneg (a.getD i 0)) p)).mp h'.1 i (Finset.mem_range.mpr hi)
    rw [Real.rpow_eq_zero_iff_of_nonneg (abs_nonneg _)] at this
    exact abs_eq_zero.mp this.1
  · intro h
    have : ∑ i ∈ Finset.range a.size, |a.getD i 0| ^ p = 0 := by
      refine Finset.sum_eq_zero fun i hi => ?_
      rw [h i (Finset.mem_range.mp hi), abs_zero, Real.zero_rpow hp.ne']
    rw [this, Real.zero_rpow hne]

/-! non-vacuity: the hypotheses `normP _ p = .ok _`, `normInf _ = .ok _` are satisfiable -/
example : ∃ m, Vec.normP (#[3, -4] : Array ℝ) 3 = .ok m := ⟨_, normP_spec_real _ (by norm_num)⟩
example : ∃ m, Vec.normInf (#[3, -4] : Array ℝ) = .ok m := by
  obtain ⟨m, hm, _⟩ := normInf_spec (#[3, -4] : Array ℝ) (by simp)
  exact ⟨m, hm⟩
example : ∃ c, Vec.add (#[3, -4] : Array ℝ) #[1, 2] = .ok c :=
  ⟨#[3 + 1, -4 + 2], by simp [Vec.add]⟩
/-- a concrete value: `‖(3, -4)‖_2 = 5` through `norm_p` -/
example : Vec.normP (#[3, -4] : Array ℝ) 2 = .ok 5 := by
  rw [normP_spec_real _ two_ne_zero]
  congr 1
  have : ∑ i ∈ Finset.range (#[3, -4] : Array ℝ).size, |(#[3, -4] : Array ℝ).getD i 0| ^ (2 : ℝ)
      = 5 ^ (2 : ℝ) := by
    simp [Finset.sum_range_succ]
    norm_num
  rw [this, ← Real.rpow_mul (by norm_num)]
  norm_num

end NormP

end Ohsl.Props.C15
