/-
  Property C09A — the accuracy clause of C09 for all four iterative solvers, exact real arithmetic:
  "… and its answer agrees with the direct dense solution to within the tolerance times the
  condition number."  Model: `solveCG`, `solveBiCG`, `solveBiCGSTAB`, `solveQMR` of
  Ohsl/Model/Krylov.lean.

  Class (R): scalars ℝ with the real interpretation `Ohsl.RealI.transc`, vectors `Fin n → ℝ`,
  `A v = M *ᵥ v` for an INVERTIBLE real matrix `M` (`IsUnit M.det`; not necessarily symmetric),
  `norm2 v = enorm2 v = √(v ⬝ᵥ v)`.  The operations `euclidOps M At dot` are an instance of C08's
  `modOps` with ARBITRARY transposed product `At` and dot product `dot` (the C08/C08B soundness
  theorems need neither); `spdOps M` of C09G is the instance `At = Mᵀ *ᵥ ·`, `dot = ⬝ᵥ`.
  The direct solution is `x* = M⁻¹ *ᵥ b`.  `cinv`, `cM` are any constants with
  `‖M⁻¹ v‖₂ ≤ cinv ‖v‖₂`, `‖M v‖₂ ≤ cM ‖v‖₂` for all `v`; `opNorm_bound` (Mathlib's `ℓ²` operator
  norm, giving the spectral condition number) and `frobenius_bound` provide such constants for
  every matrix.

  Proved (all in full, nothing `_partial`):
  * `forward_error_of_residual`   `‖x − x*‖₂ ≤ cinv·‖b − M x‖₂` for every `x`
  * `forward_error_of_test`, `forward_error_of_test_zero`, `forward_error_of_test_opNorm`
        the model's test on the true residual ⇒ `‖x − x*‖₂ ≤ cinv·tol·‖b‖₂ ≤ (cinv·cM)·tol·‖x*‖₂`
        (`b ≠ 0`; no sign hypothesis on `tol`, `cinv`, `cM` is needed), resp. `‖x‖₂ ≤ cinv·tol`
        (`b = 0`, where `guardNorm` replaces `‖b‖` by `1`)
  * `cg_…`, `bicg_…` (every `itol`), `stab_…`, `qmr_success_forward_error` and `…_zero_rhs`
        a reported success (`ok = true`) of the model's run, for every guess, budget and `tol`,
        returns such an `x`
  * `cg_forward_error_spd`, `cg_forward_error_spd_opNorm`
        SPD `M`, `tol ≥ 0`, budget `≥ n`: CG reports success within `n` iterations AND the returned
        `x` is within `κ·tol` of the direct solution — the full C09 statement for CG
  NOT proved: that BiCG / BiCGSTAB / QMR do report success (they can break down, and no
  finite-termination theory is formalised for them); anything about f64 rounding (class F).
-/
import Ohsl.Props.C09G
import Ohsl.Props.C08B
import Mathlib.LinearAlgebra.Matrix.NonsingularInverse
import Mathlib.LinearAlgebra.Matrix.DotProduct
import Mathlib.Algebra.Order.BigOperators.Ring.Finset
import Mathlib.Analysis.SpecialFunctions.Sqrt
import Mathlib.Analysis.CStarAlgebra.Matrix
import Mathlib.Tactic.Linarith
import Mathlib.Tactic.Positivity

set_option linter.unusedSectionVars false
set_option linter.unusedVariables false

namespace Ohsl.Props.C09
open Ohsl Ohsl.Krylov Ohsl.Props.C08 Ohsl.CGTheory Matrix

section Accuracy
variable {n : ℕ}

/-! ### the Euclidean norm as the model computes it -/

/-- the Euclidean norm as the model computes it: `norm2 v = √(v ⬝ᵥ v)` -/
noncomputable def enorm2 (v : Fin n → ℝ) : ℝ := Real.sqrt (v ⬝ᵥ v)

theorem dot_self_nonneg (v : Fin n → ℝ) : 0 ≤ v ⬝ᵥ v :=
  Finset.sum_nonneg fun i _ => mul_self_nonneg (v i)

theorem enorm2_nonneg (v : Fin n → ℝ) : 0 ≤ enorm2 v := Real.sqrt_nonneg _

theorem enorm2_eq_zero {v : Fin n → ℝ} : enorm2 v = 0 ↔ v = 0 := by
  unfold enorm2
  rw [Real.sqrt_eq_zero', ← dotProduct_self_eq_zero (v := v)]
  exact ⟨fun h => le_antisymm h (dot_self_nonneg v), fun h => h.le⟩

theorem enorm2_pos {v : Fin n → ℝ} (hv : v ≠ 0) : 0 < enorm2 v :=
  lt_of_le_of_ne (enorm2_nonneg v) (fun h => hv (enorm2_eq_zero.mp h.symm))

theorem enorm2_sub_comm (u v : Fin n → ℝ) : enorm2 (u - v) = enorm2 (v - u) := by
  unfold enorm2
  rw [← neg_sub v u, neg_dotProduct_neg]

/-- a bound constant of a matrix that moves some nonzero vector is nonnegative -/
theorem bound_nonneg (N : Matrix (Fin n) (Fin n) ℝ) (c : ℝ)
    (hc : ∀ v, enorm2 (N *ᵥ v) ≤ c * enorm2 v) {v : Fin n → ℝ} (hv : v ≠ 0) : 0 ≤ c := by
  have h := le_trans (enorm2_nonneg _) (hc v)
  by_contra hneg
  push Not at hneg
  have := mul_neg_of_neg_of_pos hneg (enorm2_pos hv)
  linarith

/-! ### 1. forward error from the residual (pure linear algebra) -/

variable (M : Matrix (Fin n) (Fin n) ℝ)

/-- the error of `x` is `M⁻¹` applied to its residual -/
theorem error_eq_inv_residual (hM : IsUnit M.det) (b x : Fin n → ℝ) :
    M⁻¹ *ᵥ b - x = M⁻¹ *ᵥ (b - M *ᵥ x) := by
  rw [mulVec_sub, mulVec_mulVec, nonsing_inv_mul M hM, one_mulVec]

/-- **Forward error ≤ ‖M⁻¹‖ · residual.**  `cinv` is any bound of `M⁻¹` in the Euclidean norm. -/
theorem forward_error_of_residual (hM : IsUnit M.det) (cinv : ℝ)
    (hcinv : ∀ v, enorm2 (M⁻¹ *ᵥ v) ≤ cinv * enorm2 v) (b x : Fin n → ℝ) :
    enorm2 (x - M⁻¹ *ᵥ b) ≤ cinv * enorm2 (b - M *ᵥ x) := by
  rw [enorm2_sub_comm, error_eq_inv_residual M hM]
  exact hcinv _

/-- the right-hand side is bounded by `‖M‖` times the exact solution -/
theorem rhs_le_of_solution (hM : IsUnit M.det) (cM : ℝ)
    (hcM : ∀ v, enorm2 (M *ᵥ v) ≤ cM * enorm2 v) (b : Fin n → ℝ) :
    enorm2 b ≤ cM * enorm2 (M⁻¹ *ᵥ b) := by
  have := hcM (M⁻¹ *ᵥ b)
  rwa [mulVec_mulVec, mul_nonsing_inv M hM, one_mulVec] at this

/-! ### 2. what the model's success test means for the error -/

theorem guardNorm_enorm2_of_ne {b : Fin n → ℝ} (hb : b ≠ 0) : guardNorm (enorm2 b) = enorm2 b := by
  unfold guardNorm
  rw [if_neg]
  simpa using (enorm2_pos hb).ne'

theorem guardNorm_enorm2_zero : guardNorm (enorm2 (0 : Fin n → ℝ)) = 1 := by
  unfold guardNorm
  rw [if_pos]
  simpa using (enorm2_eq_zero (v := (0 : Fin n → ℝ))).mpr rfl

/-- the model's test on the true residual, `b ≠ 0`: relative residual at most `tol` -/
theorem residual_of_test {b x : Fin n → ℝ} {tol : ℝ} (hb : b ≠ 0)
    (ht : Transc.le (enorm2 (b - M *ᵥ x) / guardNorm (enorm2 b)) tol = true) :
    enorm2 (b - M *ᵥ x) ≤ tol * enorm2 b ∧ 0 ≤ tol := by
  rw [le_iff, guardNorm_enorm2_of_ne hb] at ht
  have hpos := enorm2_pos hb
  refine ⟨(div_le_iff₀ hpos).mp ht, le_trans ?_ ht⟩
  exact div_nonneg (enorm2_nonneg _) hpos.le

/-- **Success test ⇒ forward error**, `b ≠ 0`: if the true residual passes the model's test then
    `‖x − x*‖ ≤ ‖M⁻¹‖·tol·‖b‖ ≤ (‖M⁻¹‖·‖M‖)·tol·‖x*‖`, `x* = M⁻¹ b`. -/
theorem forward_error_of_test (hM : IsUnit M.det) (cinv cM : ℝ)
    (hcinv : ∀ v, enorm2 (M⁻¹ *ᵥ v) ≤ cinv * enorm2 v)
    (hcM : ∀ v, enorm2 (M *ᵥ v) ≤ cM * enorm2 v)
    {b x : Fin n → ℝ} {tol : ℝ} (hb : b ≠ 0)
    (ht : Transc.le (enorm2 (b - M *ᵥ x) / guardNorm (enorm2 b)) tol = true) :
    enorm2 (x - M⁻¹ *ᵥ b) ≤ cinv * tol * enorm2 b ∧
    enorm2 (x - M⁻¹ *ᵥ b) ≤ (cinv * cM) * tol * enorm2 (M⁻¹ *ᵥ b) := by
  obtain ⟨hres, htol⟩ := residual_of_test M hb ht
  have hc : 0 ≤ cinv := bound_nonneg M⁻¹ cinv hcinv hb
  have h1 : enorm2 (x - M⁻¹ *ᵥ b) ≤ cinv * tol * enorm2 b := by
    calc enorm2 (x - M⁻¹ *ᵥ b) ≤ cinv * enorm2 (b - M *ᵥ x) :=
          forward_error_of_residual M hM cinv hcinv b x
      _ ≤ cinv * (tol * enorm2 b) := mul_le_mul_of_nonneg_left hres hc
      _ = cinv * tol * enorm2 b := by ring
  refine ⟨h1, le_trans h1 ?_⟩
  calc cinv * tol * enorm2 b ≤ cinv * tol * (cM * enorm2 (M⁻¹ *ᵥ b)) :=
        mul_le_mul_of_nonneg_left (rhs_le_of_solution M hM cM hcM b) (mul_nonneg hc htol)
    _ = (cinv * cM) * tol * enorm2 (M⁻¹ *ᵥ b) := by ring

/-- **Success test ⇒ forward error**, `b = 0` (`guardNorm` replaces `‖b‖` by `1`): the exact
    solution is `0` and `‖x‖ ≤ ‖M⁻¹‖·tol`. -/
theorem forward_error_of_test_zero (hM : IsUnit M.det) (cinv : ℝ) (hc : 0 ≤ cinv)
    (hcinv : ∀ v, enorm2 (M⁻¹ *ᵥ v) ≤ cinv * enorm2 v)
    {x : Fin n → ℝ} {tol : ℝ}
    (ht : Transc.le (enorm2 (0 - M *ᵥ x) / guardNorm (enorm2 (0 : Fin n → ℝ))) tol = true) :
    enorm2 x ≤ cinv * tol := by
  rw [le_iff, guardNorm_enorm2_zero, div_one] at ht
  have h := forward_error_of_residual M hM cinv hcinv 0 x
  rw [mulVec_zero, sub_zero] at h
  exact le_trans h (mul_le_mul_of_nonneg_left ht hc)

/-! ### bounds of a matrix in the Euclidean norm: operator norm -/

open scoped Matrix.Norms.L2Operator in
theorem enorm2_eq_norm (v : Fin n → ℝ) :
    enorm2 v = ‖(WithLp.toLp 2 v : EuclideanSpace ℝ (Fin n))‖ := by
  rw [EuclideanSpace.norm_eq]
  unfold enorm2 dotProduct
  congr 1
  apply Finset.sum_congr rfl
  intro i _
  simp [Real.norm_eq_abs, pow_two]

open scoped Matrix.Norms.L2Operator in
theorem opNorm_bound (N : Matrix (Fin n) (Fin n) ℝ) (v : Fin n → ℝ) :
    enorm2 (N *ᵥ v) ≤ ‖N‖ * enorm2 v := by
  have := Matrix.l2_opNorm_mulVec N (WithLp.toLp 2 v)
  rw [enorm2_eq_norm, enorm2_eq_norm]
  exact this

open scoped Matrix.Norms.L2Operator in
/-- `forward_error_of_test` with the spectral condition number `κ₂ = ‖M⁻¹‖₂·‖M‖₂` (Mathlib's `ℓ²`
    operator norm of matrices); combine with the `…_test_of_success` theorems below for any of the
    four solvers -/
theorem forward_error_of_test_opNorm (hM : IsUnit M.det) {b x : Fin n → ℝ} {tol : ℝ} (hb : b ≠ 0)
    (ht : Transc.le (enorm2 (b - M *ᵥ x) / guardNorm (enorm2 b)) tol = true) :
    enorm2 (x - M⁻¹ *ᵥ b) ≤ ‖M⁻¹‖ * tol * enorm2 b ∧
    enorm2 (x - M⁻¹ *ᵥ b) ≤ (‖M⁻¹‖ * ‖M‖) * tol * enorm2 (M⁻¹ *ᵥ b) :=
  forward_error_of_test M hM ‖M⁻¹‖ ‖M‖ (opNorm_bound M⁻¹) (opNorm_bound M) hb ht

/-! ### bounds of a matrix in the Euclidean norm: the elementary Frobenius bound -/

/-- the Frobenius norm `√(Σᵢⱼ Nᵢⱼ²)` -/
noncomputable def frobenius (N : Matrix (Fin n) (Fin n) ℝ) : ℝ :=
  Real.sqrt (∑ i, ∑ j, N i j ^ 2)

theorem frobenius_nonneg (N : Matrix (Fin n) (Fin n) ℝ) : 0 ≤ frobenius N := Real.sqrt_nonneg _

/-- Cauchy–Schwarz: `‖N v‖₂ ≤ ‖N‖_F ‖v‖₂` -/
theorem frobenius_bound (N : Matrix (Fin n) (Fin n) ℝ) (v : Fin n → ℝ) :
    enorm2 (N *ᵥ v) ≤ frobenius N * enorm2 v := by
  unfold enorm2 frobenius
  have hF : 0 ≤ ∑ i, ∑ j, N i j ^ 2 :=
    Finset.sum_nonneg fun i _ => Finset.sum_nonneg fun j _ => sq_nonneg _
  rw [← Real.sqrt_mul hF]
  apply Real.sqrt_le_sqrt
  have hrow : ∀ i, (N *ᵥ v) i * (N *ᵥ v) i ≤ (∑ j, N i j ^ 2) * (v ⬝ᵥ v) := by
    intro i
    have h := Finset.sum_mul_sq_le_sq_mul_sq Finset.univ (fun j => N i j) v
    have hv : v ⬝ᵥ v = ∑ j, v j ^ 2 := by
      unfold dotProduct
      exact Finset.sum_congr rfl fun j _ => (pow_two _).symm
    rw [hv, ← pow_two]
    exact h
  calc (N *ᵥ v) ⬝ᵥ (N *ᵥ v) = ∑ i, (N *ᵥ v) i * (N *ᵥ v) i := rfl
    _ ≤ ∑ i, (∑ j, N i j ^ 2) * (v ⬝ᵥ v) := Finset.sum_le_sum fun i _ => hrow i
    _ = (∑ i, ∑ j, N i j ^ 2) * (v ⬝ᵥ v) := by rw [Finset.sum_mul]

/-! ### 2. the four solvers: reported success ⇒ forward error ≤ tol · condition number -/

/-- The model's vector operations for a dense real matrix `M` with the Euclidean norm: `A v = M *ᵥ v`,
    `norm2 v = √(v ⬝ᵥ v)`; the transposed product `At` and the dot product `dot` are ARBITRARY
    (the accuracy of a reported success does not depend on them).  An instance of C08's `modOps`. -/
noncomputable def euclidOps (M : Matrix (Fin n) (Fin n) ℝ) (At : (Fin n → ℝ) → (Fin n → ℝ))
    (dot : (Fin n → ℝ) → (Fin n → ℝ) → ℝ) : VOps ℝ (Fin n → ℝ) :=
  modOps (Matrix.mulVecLin M) At dot enorm2

/-- the operations the solvers really use (`At = Mᵀ *ᵥ ·`, `dot = ⬝ᵥ`) are C09G's `spdOps` -/
theorem spdOps_eq_euclidOps :
    spdOps M = euclidOps M (Matrix.mulVecLin Mᵀ) (fun u v => u ⬝ᵥ v) := rfl

variable (At : (Fin n → ℝ) → (Fin n → ℝ)) (dot : (Fin n → ℝ) → (Fin n → ℝ) → ℝ)
variable (cinv cM : ℝ) (b x0 : Fin n → ℝ) (maxIter : ℕ) (tol : ℝ)

/-- the test the solvers apply, on the true residual of the vector they return -/
theorem cg_test_of_success
    (hok : (solveCG (euclidOps M At dot) b x0 maxIter tol).ok = true) :
    Transc.le (enorm2 (b - M *ᵥ (solveCG (euclidOps M At dot) b x0 maxIter tol).x) /
      guardNorm (enorm2 b)) tol = true :=
  cg_success_sound (Matrix.mulVecLin M) At dot enorm2 b x0 maxIter tol hok

theorem bicg_test_of_success (itol : ℕ)
    (hok : (solveBiCG (euclidOps M At dot) b x0 maxIter tol itol).ok = true) :
    Transc.le (enorm2 (b - M *ᵥ (solveBiCG (euclidOps M At dot) b x0 maxIter tol itol).x) /
      guardNorm (enorm2 b)) tol = true := by
  have h := bicg_success_sound (Matrix.mulVecLin M) At dot enorm2 b x0 maxIter tol itol hok
  unfold bicgErr at h
  split at h <;> exact h

theorem stab_test_of_success
    (hok : (solveBiCGSTAB (euclidOps M At dot) b x0 maxIter tol).ok = true) :
    Transc.le (enorm2 (b - M *ᵥ (solveBiCGSTAB (euclidOps M At dot) b x0 maxIter tol).x) /
      guardNorm (enorm2 b)) tol = true := by
  rcases stab_success_sound (Matrix.mulVecLin M) At dot enorm2 b x0 maxIter tol hok with h | h
  · exact h
  · unfold stabLt at h
    rw [Bool.and_eq_true] at h
    exact h.1

theorem qmr_test_of_success
    (hok : (solveQMR (euclidOps M At dot) b x0 maxIter tol).ok = true) :
    Transc.le (enorm2 (b - M *ᵥ (solveQMR (euclidOps M At dot) b x0 maxIter tol).x) /
      guardNorm (enorm2 b)) tol = true :=
  qmr_success_sound (Matrix.mulVecLin M) At dot enorm2 b x0 maxIter tol hok

/-- **CG, accuracy of a reported success.**  `M` invertible, `cinv`/`cM` bounds of `M⁻¹`/`M` in the
    Euclidean norm, `b ≠ 0`: the returned `x` is within `cinv·tol·‖b‖` of the direct solution
    `x* = M⁻¹ b`, hence within `tol` times the condition number `cinv·cM`, relative to `‖x*‖`. -/
theorem cg_success_forward_error (hM : IsUnit M.det)
    (hcinv : ∀ v, enorm2 (M⁻¹ *ᵥ v) ≤ cinv * enorm2 v)
    (hcM : ∀ v, enorm2 (M *ᵥ v) ≤ cM * enorm2 v) (hb : b ≠ 0)
    (hok : (solveCG (euclidOps M At dot) b x0 maxIter tol).ok = true) :
    enorm2 ((solveCG (euclidOps M At dot) b x0 maxIter tol).x - M⁻¹ *ᵥ b) ≤ cinv * tol * enorm2 b ∧
    enorm2 ((solveCG (euclidOps M At dot) b x0 maxIter tol).x - M⁻¹ *ᵥ b) ≤
      (cinv * cM) * tol * enorm2 (M⁻¹ *ᵥ b) :=
  forward_error_of_test M hM cinv cM hcinv hcM hb (cg_test_of_success M At dot b x0 maxIter tol hok)

/-- CG, zero right-hand side (the code divides by `1` instead of `‖b‖`): the exact solution is `0`
    and a reported success means `‖x‖ ≤ cinv·tol`. -/
theorem cg_success_forward_error_zero_rhs (hM : IsUnit M.det) (hc : 0 ≤ cinv)
    (hcinv : ∀ v, enorm2 (M⁻¹ *ᵥ v) ≤ cinv * enorm2 v)
    (hok : (solveCG (euclidOps M At dot) 0 x0 maxIter tol).ok = true) :
    enorm2 (solveCG (euclidOps M At dot) 0 x0 maxIter tol).x ≤ cinv * tol :=
  forward_error_of_test_zero M hM cinv hc hcinv (cg_test_of_success M At dot 0 x0 maxIter tol hok)

/-- **BiCG (any `itol`; the code accepts 1 and 2), accuracy of a reported success.** -/
theorem bicg_success_forward_error (itol : ℕ) (hM : IsUnit M.det)
    (hcinv : ∀ v, enorm2 (M⁻¹ *ᵥ v) ≤ cinv * enorm2 v)
    (hcM : ∀ v, enorm2 (M *ᵥ v) ≤ cM * enorm2 v) (hb : b ≠ 0)
    (hok : (solveBiCG (euclidOps M At dot) b x0 maxIter tol itol).ok = true) :
    enorm2 ((solveBiCG (euclidOps M At dot) b x0 maxIter tol itol).x - M⁻¹ *ᵥ b) ≤
      cinv * tol * enorm2 b ∧
    enorm2 ((solveBiCG (euclidOps M At dot) b x0 maxIter tol itol).x - M⁻¹ *ᵥ b) ≤
      (cinv * cM) * tol * enorm2 (M⁻¹ *ᵥ b) :=
  forward_error_of_test M hM cinv cM hcinv hcM hb
    (bicg_test_of_success M At dot b x0 maxIter tol itol hok)

theorem bicg_success_forward_error_zero_rhs (itol : ℕ) (hM : IsUnit M.det) (hc : 0 ≤ cinv)
    (hcinv : ∀ v, enorm2 (M⁻¹ *ᵥ v) ≤ cinv * enorm2 v)
    (hok : (solveBiCG (euclidOps M At dot) 0 x0 maxIter tol itol).ok = true) :
    enorm2 (solveBiCG (euclidOps M At dot) 0 x0 maxIter tol itol).x ≤ cinv * tol :=
  forward_error_of_test_zero M hM cinv hc hcinv
    (bicg_test_of_success M At dot 0 x0 maxIter tol itol hok)

/-- **BiCGSTAB, accuracy of a reported success** (either exit: `≤ tol` or the strict `< tol`). -/
theorem stab_success_forward_error (hM : IsUnit M.det)
    (hcinv : ∀ v, enorm2 (M⁻¹ *ᵥ v) ≤ cinv * enorm2 v)
    (hcM : ∀ v, enorm2 (M *ᵥ v) ≤ cM * enorm2 v) (hb : b ≠ 0)
    (hok : (solveBiCGSTAB (euclidOps M At dot) b x0 maxIter tol).ok = true) :
    enorm2 ((solveBiCGSTAB (euclidOps M At dot) b x0 maxIter tol).x - M⁻¹ *ᵥ b) ≤
      cinv * tol * enorm2 b ∧
    enorm2 ((solveBiCGSTAB (euclidOps M At dot) b x0 maxIter tol).x - M⁻¹ *ᵥ b) ≤
      (cinv * cM) * tol * enorm2 (M⁻¹ *ᵥ b) :=
  forward_error_of_test M hM cinv cM hcinv hcM hb
    (stab_test_of_success M At dot b x0 maxIter tol hok)

theorem stab_success_forward_error_zero_rhs (hM : IsUnit M.det) (hc : 0 ≤ cinv)
    (hcinv : ∀ v, enorm2 (M⁻¹ *ᵥ v) ≤ cinv * enorm2 v)
    (hok : (solveBiCGSTAB (euclidOps M At dot) 0 x0 maxIter tol).ok = true) :
    enorm2 (solveBiCGSTAB (euclidOps M At dot) 0 x0 maxIter tol).x ≤ cinv * tol :=
  forward_error_of_test_zero M hM cinv hc hcinv
    (stab_test_of_success M At dot 0 x0 maxIter tol hok)

/-- **QMR, accuracy of a reported success.** -/
theorem qmr_success_forward_error (hM : IsUnit M.det)
    (hcinv : ∀ v, enorm2 (M⁻¹ *ᵥ v) ≤ cinv * enorm2 v)
    (hcM : ∀ v, enorm2 (M *ᵥ v) ≤ cM * enorm2 v) (hb : b ≠ 0)
    (hok : (solveQMR (euclidOps M At dot) b x0 maxIter tol).ok = true) :
    enorm2 ((solveQMR (euclidOps M At dot) b x0 maxIter tol).x - M⁻¹ *ᵥ b) ≤
      cinv * tol * enorm2 b ∧
    enorm2 ((solveQMR (euclidOps M At dot) b x0 maxIter tol).x - M⁻¹ *ᵥ b) ≤
      (cinv * cM) * tol * enorm2 (M⁻¹ *ᵥ b) :=
  forward_error_of_test M hM cinv cM hcinv hcM hb
    (qmr_test_of_success M At dot b x0 maxIter tol hok)

theorem qmr_success_forward_error_zero_rhs (hM : IsUnit M.det) (hc : 0 ≤ cinv)
    (hcinv : ∀ v, enorm2 (M⁻¹ *ᵥ v) ≤ cinv * enorm2 v)
    (hok : (solveQMR (euclidOps M At dot) 0 x0 maxIter tol).ok = true) :
    enorm2 (solveQMR (euclidOps M At dot) 0 x0 maxIter tol).x ≤ cinv * tol :=
  forward_error_of_test_zero M hM cinv hc hcinv
    (qmr_test_of_success M At dot 0 x0 maxIter tol hok)

/-! ### 3. CG on symmetric positive-definite systems: the full C09 statement in exact arithmetic -/

theorem isUnit_det_of_posDef (hM : M.PosDef) : IsUnit M.det :=
  (Matrix.isUnit_iff_isUnit_det M).mp hM.isUnit

/-- **C09 for CG, exact arithmetic.**  `M` symmetric positive definite, `tol ≥ 0`, budget `≥ n`:
    for every right-hand side and every initial guess the model's CG reports success after at most
    `n` iterations, and the returned `x` agrees with the direct solution `x* = M⁻¹ b` to within
    `cinv·tol·‖b‖ ≤ (cinv·cM)·tol·‖x*‖` — the tolerance times the condition number (for `b = 0`,
    where the code divides by `1`: `‖x‖ ≤ cinv·tol`). -/
theorem cg_forward_error_spd (hM : M.PosDef)
    (hc : 0 ≤ cinv) (hcinv : ∀ v, enorm2 (M⁻¹ *ᵥ v) ≤ cinv * enorm2 v)
    (hcM : ∀ v, enorm2 (M *ᵥ v) ≤ cM * enorm2 v)
    (hmax : n ≤ maxIter) (htol : 0 ≤ tol) :
    (solveCG (spdOps M) b x0 maxIter tol).ok = true ∧
    (solveCG (spdOps M) b x0 maxIter tol).iters ≤ n ∧
    (b ≠ 0 →
      enorm2 ((solveCG (spdOps M) b x0 maxIter tol).x - M⁻¹ *ᵥ b) ≤ cinv * tol * enorm2 b ∧
      enorm2 ((solveCG (spdOps M) b x0 maxIter tol).x - M⁻¹ *ᵥ b) ≤
        (cinv * cM) * tol * enorm2 (M⁻¹ *ᵥ b)) ∧
    (b = 0 → enorm2 (solveCG (spdOps M) b x0 maxIter tol).x ≤ cinv * tol) := by
  obtain ⟨hok, hit⟩ := cg_finite_termination M b x0 tol hM maxIter hmax htol
  have hdet := isUnit_det_of_posDef M hM
  refine ⟨hok, hit, fun hb => ?_, fun hb => ?_⟩
  · exact cg_success_forward_error M _ _ cinv cM b x0 maxIter tol hdet hcinv hcM hb hok
  · subst hb
    exact cg_success_forward_error_zero_rhs M _ _ cinv x0 maxIter tol hdet hc hcinv hok

open scoped Matrix.Norms.L2Operator in
/-- the same with the spectral condition number `κ₂ = ‖M⁻¹‖₂·‖M‖₂` (Mathlib's `ℓ²` operator norm) -/
theorem cg_forward_error_spd_opNorm (hM : M.PosDef) (hmax : n ≤ maxIter) (htol : 0 ≤ tol) :
    (solveCG (spdOps M) b x0 maxIter tol).ok = true ∧
    (solveCG (spdOps M) b x0 maxIter tol).iters ≤ n ∧
    (b ≠ 0 →
      enorm2 ((solveCG (spdOps M) b x0 maxIter tol).x - M⁻¹ *ᵥ b) ≤
        (‖M⁻¹‖ * ‖M‖) * tol * enorm2 (M⁻¹ *ᵥ b)) ∧
    (b = 0 → enorm2 (solveCG (spdOps M) b x0 maxIter tol).x ≤ ‖M⁻¹‖ * tol) := by
  have h := cg_forward_error_spd M ‖M⁻¹‖ ‖M‖ b x0 maxIter tol hM (norm_nonneg _)
    (opNorm_bound M⁻¹) (opNorm_bound M) hmax htol
  exact ⟨h.1, h.2.1, fun hb => (h.2.2.1 hb).2, h.2.2.2⟩

end Accuracy

/-! ### non-vacuity: a concrete nonsymmetric invertible 2 × 2 system -/
section Example

/-- `[[1, 2], [0, 1]]`: nonsymmetric, determinant `1` -/
noncomputable abbrev M0 : Matrix (Fin 2) (Fin 2) ℝ := !![1, 2; 0, 1]

theorem M0_isUnit_det : IsUnit M0.det := by
  simp [Matrix.det_fin_two]

theorem M0_not_symm : M0ᵀ ≠ M0 := by
  intro h
  have := congrFun (congrFun h 0) 1
  simp at this

/-- the operations the solvers really use on `M0` -/
noncomputable abbrev ops0 : VOps ℝ (Fin 2 → ℝ) :=
  euclidOps M0 (Matrix.mulVecLin M0ᵀ) (fun u v => u ⬝ᵥ v)

/-- on `M0 x = (1, 0)` from the zero guess with `tol = 1/2`, all four solvers fail the initial test
    and report success in iteration 1 of their loop -/
theorem example_runs :
    ((solveCG ops0 ![1, 0] ![0, 0] 1 (1/2)).ok = true ∧
      (solveCG ops0 ![1, 0] ![0, 0] 1 (1/2)).iters = 1) ∧
    ((solveBiCG ops0 ![1, 0] ![0, 0] 1 (1/2) 1).ok = true ∧
      (solveBiCG ops0 ![1, 0] ![0, 0] 1 (1/2) 1).iters = 1) ∧
    ((solveBiCG ops0 ![1, 0] ![0, 0] 1 (1/2) 2).ok = true ∧
      (solveBiCG ops0 ![1, 0] ![0, 0] 1 (1/2) 2).iters = 1) ∧
    ((solveBiCGSTAB ops0 ![1, 0] ![0, 0] 1 (1/2)).ok = true ∧
      (solveBiCGSTAB ops0 ![1, 0] ![0, 0] 1 (1/2)).iters = 1) ∧
    ((solveQMR ops0 ![1, 0] ![0, 0] 1 (1/2)).ok = true ∧
      (solveQMR ops0 ![1, 0] ![0, 0] 1 (1/2)).iters = 1) := by
  refine ⟨?_, ?_, ?_, ?_, ?_⟩
  · norm_num [Transc.le, solveCG, iterate, cgStep, cgDir, guardNorm, euclidOps, modOps,
      enorm2, dotProduct, mulVec, Fin.sum_univ_two, vecHead, vecTail, Function.comp_def]
  · norm_num [Transc.le, solveBiCG, iterate, bicgStep, bicgErr, bicgDir, guardNorm, euclidOps,
      modOps, enorm2, dotProduct, mulVec, Fin.sum_univ_two, vecHead, vecTail, Function.comp_def]
  · norm_num [Transc.le, solveBiCG, iterate, bicgStep, bicgErr, bicgDir, guardNorm, euclidOps,
      modOps, enorm2, dotProduct, mulVec, Fin.sum_univ_two, vecHead, vecTail, Function.comp_def]
  · norm_num [Transc.le, solveBiCGSTAB, iterate, stabStep, stabDir, guardNorm, euclidOps,
      modOps, enorm2, dotProduct, mulVec, Fin.sum_univ_two, vecHead, vecTail, Function.comp_def]
  · norm_num [Transc.le, Transc.sqrt, solveQMR, iterate, qmrStep, qmrDir, qmrUpd, guardNorm,
      euclidOps, modOps, enorm2, dotProduct, mulVec, Fin.sum_univ_two, vecHead, vecTail,
      Function.comp_def]

theorem e1_ne_zero : (![1, 0] : Fin 2 → ℝ) ≠ 0 := by
  intro h
  have := congrFun h 0
  simp at this

/-- every hypothesis of the four `…_success_forward_error` theorems holds on this system (with the
    Frobenius bounds as `cinv`, `cM`), so their conclusions hold of the vectors the solvers return -/
example :
    enorm2 ((solveCG ops0 ![1, 0] ![0, 0] 1 (1/2)).x - M0⁻¹ *ᵥ ![1, 0]) ≤
      (frobenius M0⁻¹ * frobenius M0) * (1/2) * enorm2 (M0⁻¹ *ᵥ ![1, 0]) ∧
    enorm2 ((solveBiCG ops0 ![1, 0] ![0, 0] 1 (1/2) 1).x - M0⁻¹ *ᵥ ![1, 0]) ≤
      (frobenius M0⁻¹ * frobenius M0) * (1/2) * enorm2 (M0⁻¹ *ᵥ ![1, 0]) ∧
    enorm2 ((solveBiCG ops0 ![1, 0] ![0, 0] 1 (1/2) 2).x - M0⁻¹ *ᵥ ![1, 0]) ≤
      (frobenius M0⁻¹ * frobenius M0) * (1/2) * enorm2 (M0⁻¹ *ᵥ ![1, 0]) ∧
    enorm2 ((solveBiCGSTAB ops0 ![1, 0] ![0, 0] 1 (1/2)).x - M0⁻¹ *ᵥ ![1, 0]) ≤
      (frobenius M0⁻¹ * frobenius M0) * (1/2) * enorm2 (M0⁻¹ *ᵥ ![1, 0]) ∧
    enorm2 ((solveQMR ops0 ![1, 0] ![0, 0] 1 (1/2)).x - M0⁻¹ *ᵥ ![1, 0]) ≤
      (frobenius M0⁻¹ * frobenius M0) * (1/2) * enorm2 (M0⁻¹ *ᵥ ![1, 0]) :=
  ⟨(cg_success_forward_error M0 _ _ _ _ _ _ 1 (1/2) M0_isUnit_det (frobenius_bound _)
      (frobenius_bound _) e1_ne_zero example_runs.1.1).2,
   (bicg_success_forward_error M0 _ _ _ _ _ _ 1 (1/2) 1 M0_isUnit_det (frobenius_bound _)
      (frobenius_bound _) e1_ne_zero example_runs.2.1.1).2,
   (bicg_success_forward_error M0 _ _ _ _ _ _ 1 (1/2) 2 M0_isUnit_det (frobenius_bound _)
      (frobenius_bound _) e1_ne_zero example_runs.2.2.1.1).2,
   (stab_success_forward_error M0 _ _ _ _ _ _ 1 (1/2) M0_isUnit_det (frobenius_bound _)
      (frobenius_bound _) e1_ne_zero example_runs.2.2.2.1.1).2,
   (qmr_success_forward_error M0 _ _ _ _ _ _ 1 (1/2) M0_isUnit_det (frobenius_bound _)
      (frobenius_bound _) e1_ne_zero example_runs.2.2.2.2.1).2⟩

/-- zero right-hand side with a nonzero guess that passes the absolute test `‖M x‖ ≤ tol`: the
    hypotheses of the `…_zero_rhs` theorems are satisfiable with a nonzero returned vector -/
example :
    (solveCG ops0 0 ![1/4, 0] 1 (1/2)).ok = true ∧ (solveCG ops0 0 ![1/4, 0] 1 (1/2)).x = ![1/4, 0] ∧
    (solveBiCG ops0 0 ![1/4, 0] 1 (1/2) 1).ok = true ∧
    (solveBiCGSTAB ops0 0 ![1/4, 0] 1 (1/2)).ok = true ∧
    (solveQMR ops0 0 ![1/4, 0] 1 (1/2)).ok = true := by
  have h : Real.sqrt 16 = 4 := by
    rw [show (16 : ℝ) = 4 * 4 by norm_num]
    exact Real.sqrt_mul_self (by norm_num)
  refine ⟨?_, ?_, ?_, ?_, ?_⟩ <;>
  norm_num [Transc.le, solveCG, solveBiCG, solveBiCGSTAB, solveQMR, bicgErr, guardNorm, euclidOps,
    modOps, enorm2, dotProduct, mulVec, Fin.sum_univ_two, vecHead, vecTail, Function.comp_def, h]

end Example
end Ohsl.Props.C09
