/-
  Property C15 (part F) — rounding-error statements for the vector reductions, the norms and the
  generated sequences in the "rounded reals" interpretation `Fl M` of the model
  (Ohsl/Lemmas/Rounding.lean): the SAME definitions `Vec.sum`, `Vec.sumSlice`, `Vec.norm1`,
  `Vec.norm2`, `Vec.normInf`, `Vec.linspace`, `Vec.powspace` instantiated at real numbers whose
  `+ - * /` round with relative error `≤ u` (standard model, no overflow / underflow).  The transfer
  to the Rust `f64` code rests on the ASSUMPTION stated in Rounding.lean; it is not proved here.

  Notation: `n = a.size`, `exactSum a = Σ xᵢ`, `absSum a = Σ|xᵢ|` (exact 1-norm),
  `exactNorm2 a = √Σxᵢ²`, `IsMaxAbsFl a m` (`m = max|xᵢ|`), `M.gam k = (1+u)^k − 1`.
  There is no global `Transc (Fl M)` instance; theorems that need `f64`-only functions take an
  arbitrary instance `T` and state what they need of it (`hfabs`: `abs` exact; `hpow2`, `hsqrt`,
  `hpowf`: one rounding; `ExactCasts M n`: `k as f64` exact for `k ≤ n` and `n as f64 − 1.0` exact —
  true in binary64 for `n ≤ 2⁵³`).  `C03.flTransc M` satisfies them (`exactCasts_flTransc`,
  `exactCasts_roundBits`, `flTransc_sqrt`, `flTransc_powf`, `flTransc_pow2`).

  * `sumSlice_rounding`, `sum_rounding`   `|computed − Σxᵢ| ≤ gam n · Σ|xᵢ|`   (+ `_gamma` forms)
  * `norm1_rounding`                      `|computed − Σ|xᵢ|| ≤ gam n · Σ|xᵢ|` (relative error `gam n`)
  * `normInf_exact`                       `norm_inf` commits no rounding error
  * `norm2_rounding`                      `|computed − √Σxᵢ²| ≤ gam (n+2) · √Σxᵢ²`
  * laws that survive rounding (constants as proved):
      `fl_nonneg` (`u ≤ 1`), `norm1_nonneg_fl` (`u ≤ 1`; fails for `u = 2`, see Examples),
      `normInf_nonneg_fl` (always), `norm2_nonneg_fl` (`u ≤ 1`),
      `norm1_zero_fl`, `norm1_eq_zero_fl` (definiteness, `gam n < 1`),
      `norm1_smul_fl`     `|fl‖xc‖₁ − |c|‖x‖₁| ≤ gam (n+1) |c|‖x‖₁`,
      `normInf_smul_fl`   `|‖xc‖∞ − |c|‖x‖∞| ≤ u |c|‖x‖∞`,
      `norm2_smul_fl`     `|fl‖xc‖₂ − |c|‖x‖₂| ≤ gam (n+3) |c|‖x‖₂`,
      `norm1_triangle_fl` `fl‖a+b‖₁ ≤ (1 + gam (n+1)) (‖a‖₁ + ‖b‖₁)` (+ `_computed`),
      `normInf_triangle_fl` `‖a+b‖∞ ≤ (1+u) (‖a‖∞ + ‖b‖∞)`,
      `norm2_triangle_fl` `fl‖a+b‖₂ ≤ (1 + gam (n+3)) (‖a‖₂ + ‖b‖₂)`,
      `normInf_le_norm1_fl` `‖x‖∞ ≤ fl‖x‖₁ + gam n ‖x‖₁` (`_mul`: `(1 − gam n)‖x‖∞ ≤ fl‖x‖₁`),
      `normInf_le_norm2_fl` `‖x‖∞ ≤ fl‖x‖₂ + gam (n+2) ‖x‖₂`,
      `norm2_le_norm1_fl`   `fl‖x‖₂ ≤ (1 + gam (n+2)) ‖x‖₁` (+ `_computed`),
      `norm1_le_normInf_fl` `fl‖x‖₁ ≤ (1 + gam n) n ‖x‖∞`.
  * `linspace_fl` (`n ≥ 2`, exact casts, `a` representable): first node EXACTLY `a`;
      `|x_{n−1} − b| ≤ u|b| + (1+u) gam 3 |b − a| ≤ gam 4 (|a| + |b|)`;
      `|x_i − (a + (b−a) i/(n−1))| ≤ gam 4 (|a| + |b|)`; `linNode_rounding` is the sharper
      per-node bound; `linspace_fl_gamma`: `gam 4 ≤ 4u/(1 − 4u)`.
    `linspace_monotone_fl`, `linspace_antitone_fl`: under `Monotone M.fl` the computed nodes are
      non-decreasing (`a ≤ b`) / non-increasing (`b ≤ a`).
    `linspace_not_monotone`: for every `0 < u < 1` a model of the standard model with unit roundoff
      `u` in which the computed three-node sequence is NOT monotone (so `Monotone fl` is needed).
    `linspace_one_rejects_fl`: one node is the error `arith`.
  * `powspace_fl`, `powNode_rounding`, `powspace_monotone_fl`: the same for the power spacing
      (the rounded abscissa `τ_i = fl(i/(n−1))` is part of the statement, `powT_err`).
-/
import Ohsl.Props.C15N
import Ohsl.Props.C15P
import Ohsl.Props.C03F
import Ohsl.Lemmas.Rounding
import Mathlib.Algebra.BigOperators.Intervals
import Mathlib.Algebra.Order.BigOperators.Group.Finset
import Mathlib.Algebra.BigOperators.Ring.Finset
import Mathlib.Tactic.Ring
import Mathlib.Tactic.Linarith
import Mathlib.Tactic.Positivity
set_option linter.unusedSectionVars false
set_option linter.unusedVariables false
set_option linter.unusedSimpArgs false
namespace Ohsl.Props.C15
open Ohsl Ohsl.Vec

/-! ### structural: the reductions as folds over index lists (any `K`) -/

section Structural
variable {K : Type} [Add K] [Sub K] [Mul K] [Neg K] [Zero K] [One K] [BEq K] [ScalarExt K]

/-- `sum_slice(s, e)` on a valid range is the left fold from `0` over the indices `s … e` -/
theorem sumSlice_eq_fold (a : Array K) (s e : Nat) (hse : s ≤ e) (he : e < a.size) :
    Vec.sumSlice a s e
      = .ok (((List.range' s (e + 1 - s)).map (fun j => a.getD j 0)).foldl (· + ·) 0) := by
  unfold Vec.sumSlice
  rw [if_neg (by omega), if_neg (by omega), if_neg (by omega), ← Array.foldl_toList,
    C16.extract_toList_eq_map_range' a 0 s (e + 1) (by omega)]

/-- `sum()` of a non-empty vector is the left fold from `0` over all indices -/
theorem sum_eq_fold (a : Array K) (h : 0 < a.size) :
    Vec.sum a = .ok (((List.range a.size).map (fun j => a.getD j 0)).foldl (· + ·) 0) := by
  unfold Vec.sum
  have h1 : usub a.size 1 = .ok (a.size - 1) := by unfold usub; rw [if_pos (by omega)]
  rw [h1]
  simp only [bind, Except.bind]
  rw [sumSlice_eq_fold a 0 (a.size - 1) (Nat.zero_le _) (by omega), List.range_eq_range']
  have : a.size - 1 + 1 - 0 = a.size := by omega
  rw [this]

/-- `sum()` of the empty vector: `size - 1` underflows -/
theorem sum_empty : Vec.sum (#[] : Array K) = .error .arith := rfl

/-- `norm_1` is the left fold from `0` of the magnitudes in index order -/
theorem norm1_eq_fold (a : Array K) :
    Vec.norm1 a
      = ((List.range a.size).map (fun j => ScalarExt.mag (a.getD j 0))).foldl (· + ·) 0 := by
  unfold Vec.norm1
  rw [← Array.foldl_toList]
  conv_lhs => rw [C16.toList_eq_map_range a (0 : K)]
  rw [List.foldl_map, List.foldl_map]

end Structural

/-! ### the rounded-reals interpretation: sums and norms -/

section Rounding
variable {M : FlModel}
open Fl

/-- the exact sum `Σ xᵢ` of the values -/
def exactSum (a : Array (Fl M)) : ℝ := ∑ i ∈ Finset.range a.size, (a.getD i 0).val
/-- `Σ |xᵢ|` — the exact 1-norm -/
def absSum (a : Array (Fl M)) : ℝ := ∑ i ∈ Finset.range a.size, |(a.getD i 0).val|

theorem absSum_nonneg (a : Array (Fl M)) : 0 ≤ absSum a :=
  Finset.sum_nonneg (fun _ _ => abs_nonneg _)

theorem abs_exactSum_le (a : Array (Fl M)) : |exactSum a| ≤ absSum a :=
  Finset.abs_sum_le_sum_abs _ _

/-- a non-negative number is rounded to a non-negative number when `u ≤ 1`.  (For `u > 1` the
standard model allows `fl x = -x`, see the examples.) -/
theorem fl_nonneg (hu : M.u ≤ 1) {x : ℝ} (hx : 0 ≤ x) : 0 ≤ M.fl x := by
  have h := (abs_le.mp (M.fl_err x)).1
  rw [abs_of_nonneg hx] at h
  have : M.u * x ≤ 1 * x := mul_le_mul_of_nonneg_right hu hx
  linarith

/-- `|x| (1 - u) ≤ |fl x|` -/
theorem abs_fl_ge (x : ℝ) : (1 - M.u) * |x| ≤ |M.fl x| := by
  have h := M.fl_err x
  have : |x| ≤ |M.fl x - x| + |M.fl x| := by
    have := abs_sub (M.fl x) (M.fl x - x)
    simpa [abs_sub_comm] using abs_add_le (x - M.fl x) (M.fl x)
  linarith

/-- one more rounding: if `w` approximates `W` with relative error `g`, then `fl w` approximates `W`
with relative error `g (1+u) + u` (`gam k ↦ gam (k+1)`) -/
theorem fl_rel {w W g : ℝ} (hw : |w - W| ≤ g * |W|) :
    |M.fl w - W| ≤ (g * (1 + M.u) + M.u) * |W| := by
  have h1 := M.fl_err w
  have h2 : |w| ≤ |w - W| + |W| := by simpa using abs_add_le (w - W) W
  have h3 : |M.fl w - W| ≤ |M.fl w - w| + |w - W| := by
    have e : M.fl w - W = (M.fl w - w) + (w - W) := by ring
    rw [e]; exact abs_add_le _ _
  have hu := M.u_nonneg
  have : M.u * |w| ≤ M.u * (g * |W| + |W|) := mul_le_mul_of_nonneg_left (by linarith) hu
  nlinarith

theorem fl_rel_gam {w W : ℝ} {k : ℕ} (hw : |w - W| ≤ M.gam k * |W|) :
    |M.fl w - W| ≤ M.gam (k + 1) * |W| := by
  have := fl_rel (M := M) hw
  rwa [show M.gam k * (1 + M.u) + M.u = M.gam (k + 1) by rw [M.gam_succ]; ring] at this

/-- sums over `List.range` of computed values -/
theorem rsum_map_range (n : Nat) (f : Nat → Fl M) :
    rsum ((List.range n).map f) = ∑ i ∈ Finset.range n, (f i).val := by
  rw [rsum_map, sum_map_range]
theorem asum_map_range (n : Nat) (f : Nat → Fl M) :
    asum ((List.range n).map f) = ∑ i ∈ Finset.range n, |(f i).val| := by
  rw [asum_map, sum_map_range]

/-- **`sum_slice(s, e)`** (`s ≤ e < size`): `e + 1 - s` rounded additions (the first one is
`0 + x_s`, which the abstract model rounds, see `Fl.foldl_sum_rounding_sharp`). -/
theorem sumSlice_rounding (a : Array (Fl M)) (s e : Nat) (hse : s ≤ e) (he : e < a.size) :
    ∃ r, Vec.sumSlice a s e = .ok r ∧
      |r.val - ∑ i ∈ Finset.Ico s (e + 1), (a.getD i 0).val|
        ≤ M.gam (e + 1 - s) * ∑ i ∈ Finset.Ico s (e + 1), |(a.getD i 0).val| := by
  refine ⟨_, sumSlice_eq_fold a s e hse he, ?_⟩
  have h := foldl_sum_rounding ((List.range' s (e + 1 - s)).map (fun j => a.getD j 0))
  rw [List.length_map, List.length_range', rsum_map, asum_map, sum_map_range', sum_map_range'] at h
  have e1 : s + (e + 1 - s) = e + 1 := by omega
  rwa [e1] at h

/-- **`sum()`** of a non-empty vector: `|computed − Σ xᵢ| ≤ gam n · Σ |xᵢ|`, `n = size`. -/
theorem sum_rounding (a : Array (Fl M)) (h : 0 < a.size) :
    ∃ r, Vec.sum a = .ok r ∧ |r.val - exactSum a| ≤ M.gam a.size * absSum a := by
  refine ⟨_, sum_eq_fold a h, ?_⟩
  have h := foldl_sum_rounding ((List.range a.size).map (fun j => a.getD j 0))
  rwa [List.length_map, List.length_range, rsum_map_range, asum_map_range] at h

/-- the classical constant `γ_n = n u / (1 - n u)` for `sum_rounding` -/
theorem sum_rounding_gamma (a : Array (Fl M)) (h : 0 < a.size) (hu : (a.size : ℝ) * M.u < 1) :
    ∃ r, Vec.sum a = .ok r ∧
      |r.val - exactSum a| ≤ (a.size : ℝ) * M.u / (1 - (a.size : ℝ) * M.u) * absSum a := by
  obtain ⟨r, hr, hr'⟩ := sum_rounding a h
  exact ⟨r, hr, hr'.trans (mul_le_mul_of_nonneg_right (M.gam_le_gamma _ hu) (absSum_nonneg a))⟩

/-- **`norm_1`**: `|computed − Σ |xᵢ|| ≤ gam n · Σ |xᵢ|` — a RELATIVE error `gam n` (`Signed::abs`
is exact, `n` rounded additions of non-negative terms). -/
theorem norm1_rounding (a : Array (Fl M)) :
    |(Vec.norm1 a).val - absSum a| ≤ M.gam a.size * absSum a := by
  rw [norm1_eq_fold]
  have h := foldl_sum_rounding ((List.range a.size).map (fun j => ScalarExt.mag (a.getD j 0)))
  rw [List.length_map, List.length_range, rsum_map_range, asum_map_range] at h
  simp only [mag_val, abs_abs] at h
  exact h

theorem norm1_rounding_gamma (a : Array (Fl M)) (hu : (a.size : ℝ) * M.u < 1) :
    |(Vec.norm1 a).val - absSum a| ≤ (a.size : ℝ) * M.u / (1 - (a.size : ℝ) * M.u) * absSum a :=
  (norm1_rounding a).trans (mul_le_mul_of_nonneg_right (M.gam_le_gamma _ hu) (absSum_nonneg a))

/-- two-sided form of `norm1_rounding` -/
theorem norm1_bounds (a : Array (Fl M)) :
    (1 - M.gam a.size) * absSum a ≤ (Vec.norm1 a).val ∧
      (Vec.norm1 a).val ≤ (1 + M.gam a.size) * absSum a := by
  have h := abs_le.mp (norm1_rounding a)
  constructor <;> linarith [h.1, h.2]

/-- a left fold of rounded additions of non-negative numbers from a non-negative start is
non-negative when `u ≤ 1` -/
theorem foldl_add_nonneg (hu : M.u ≤ 1) (l : List (Fl M)) (s : Fl M) (hs : 0 ≤ s.val)
    (hl : ∀ x ∈ l, 0 ≤ x.val) : 0 ≤ (l.foldl (· + ·) s).val := by
  induction l generalizing s with
  | nil => simpa using hs
  | cons x l ih =>
    rw [List.foldl_cons]
    apply ih
    · exact fl_nonneg hu (add_nonneg hs (hl x (List.mem_cons_self ..)))
    · intro y hy; exact hl y (List.mem_cons_of_mem _ hy)

/-- **non-negativity of the computed `norm_1`** (`u ≤ 1`) -/
theorem norm1_nonneg_fl (hu : M.u ≤ 1) (a : Array (Fl M)) : 0 ≤ (Vec.norm1 a).val := by
  rw [norm1_eq_fold]
  apply foldl_add_nonneg hu _ _ (le_refl _)
  intro x hx
  obtain ⟨j, _, rfl⟩ := List.mem_map.mp hx
  rw [mag_val]; exact abs_nonneg _

/-- the computed `norm_1` vanishes on the zero vector, and only there when `u < 1`… the first half:
all entries zero ⇒ computed norm zero -/
theorem norm1_zero_fl (a : Array (Fl M)) (h : ∀ i, i < a.size → (a.getD i 0).val = 0) :
    (Vec.norm1 a).val = 0 := by
  have h0 : absSum a = 0 :=
    Finset.sum_eq_zero (fun i hi => by rw [h i (Finset.mem_range.mp hi), abs_zero])
  have := norm1_rounding a
  rw [h0, mul_zero, sub_zero] at this
  exact abs_nonpos_iff.mp this

/-- definiteness survives rounding when `gam n < 1`: computed `norm_1 = 0` ⇒ every entry is zero -/
theorem norm1_eq_zero_fl (a : Array (Fl M)) (hg : M.gam a.size < 1) (h : (Vec.norm1 a).val = 0) :
    ∀ i, i < a.size → (a.getD i 0).val = 0 := by
  have h1 := (norm1_bounds a).1
  rw [h] at h1
  have h0 : absSum a = 0 := by
    have := absSum_nonneg a
    nlinarith
  intro i hi
  have := (Finset.sum_eq_zero_iff_of_nonneg (fun _ _ => abs_nonneg _)).mp h0 i
    (Finset.mem_range.mpr hi)
  exact abs_eq_zero.mp this

/-! #### homogeneity and the triangle inequality for `norm_1`, up to explicit factors -/

theorem smul_getD (a : Array (Fl M)) (c : Fl M) {i : Nat} (hi : i < a.size) :
    (Vec.smul a c).getD i 0 = a.getD i 0 * c := by
  simp [Vec.smul, Array.getD, hi]

theorem zipWith_add_getD (a b : Array (Fl M)) (hs : a.size = b.size) {i : Nat} (hi : i < a.size) :
    (Array.zipWith (· + ·) a b).getD i 0 = a.getD i 0 + b.getD i 0 := by
  have hi' : i < b.size := hs ▸ hi
  simp [Array.getD, hi, hi']

/-- componentwise relative perturbations of size `ε` move `Σ|·|` by at most `ε` relatively -/
theorem sum_abs_perturb (n : Nat) (x y : Nat → ℝ) (ε : ℝ)
    (h : ∀ i, i < n → |x i - y i| ≤ ε * |y i|) :
    |(∑ i ∈ Finset.range n, |x i|) - (∑ i ∈ Finset.range n, |y i|)|
      ≤ ε * ∑ i ∈ Finset.range n, |y i| := by
  rw [← Finset.sum_sub_distrib, Finset.mul_sum]
  refine (Finset.abs_sum_le_sum_abs _ _).trans (Finset.sum_le_sum fun i hi => ?_)
  exact (abs_abs_sub_abs_le_abs_sub _ _).trans (h i (Finset.mem_range.mp hi))

/-- the exact 1-norm of the computed `x * c` -/
theorem absSum_smul (a : Array (Fl M)) (c : Fl M) :
    |absSum (Vec.smul a c) - |c.val| * absSum a| ≤ M.u * (|c.val| * absSum a) := by
  have hsz : (Vec.smul a c).size = a.size := by simp [Vec.smul]
  have h := sum_abs_perturb a.size (fun i => ((Vec.smul a c).getD i 0).val)
    (fun i => (a.getD i 0).val * c.val) M.u (fun i hi => by
      simp only [smul_getD a c hi]; exact Fl.mul_err _ _)
  have e : ∑ i ∈ Finset.range a.size, |(a.getD i 0).val * c.val| = |c.val| * absSum a := by
    rw [absSum, Finset.mul_sum]
    exact Finset.sum_congr rfl fun i _ => by rw [abs_mul, mul_comm]
  rw [e] at h
  rw [absSum, hsz]
  exact h

/-- **homogeneity of `norm_1` up to rounding**: `|fl‖x c‖₁ − |c| ‖x‖₁| ≤ gam (n+1) · |c| ‖x‖₁`
(one rounding per product, `n` rounded additions). -/
theorem norm1_smul_fl (a : Array (Fl M)) (c : Fl M) :
    |(Vec.norm1 (Vec.smul a c)).val - |c.val| * absSum a|
      ≤ M.gam (a.size + 1) * (|c.val| * absSum a) := by
  have hsz : (Vec.smul a c).size = a.size := by simp [Vec.smul]
  have h1 := norm1_rounding (Vec.smul a c)
  rw [hsz] at h1
  have h2 := absSum_smul a c
  have h3 : absSum (Vec.smul a c) ≤ (1 + M.u) * (|c.val| * absSum a) := by
    have := (abs_le.mp h2).2; linarith
  have hg := M.gam_nonneg a.size
  have e : (Vec.norm1 (Vec.smul a c)).val - |c.val| * absSum a
      = ((Vec.norm1 (Vec.smul a c)).val - absSum (Vec.smul a c))
        + (absSum (Vec.smul a c) - |c.val| * absSum a) := by ring
  rw [e, M.gam_succ]
  refine (abs_add_le _ _).trans ?_
  have := mul_le_mul_of_nonneg_left h3 hg
  nlinarith

/-- homogeneity in terms of the two COMPUTED norms -/
theorem norm1_smul_fl_computed (a : Array (Fl M)) (c : Fl M) :
    |(Vec.norm1 (Vec.smul a c)).val - |c.val| * (Vec.norm1 a).val|
      ≤ (M.gam (a.size + 1) + M.gam a.size) * (|c.val| * absSum a) := by
  have h1 := norm1_smul_fl a c
  have h2 := norm1_rounding a
  have e : (Vec.norm1 (Vec.smul a c)).val - |c.val| * (Vec.norm1 a).val
      = ((Vec.norm1 (Vec.smul a c)).val - |c.val| * absSum a)
        - |c.val| * ((Vec.norm1 a).val - absSum a) := by ring
  rw [e]
  refine (abs_sub _ _).trans ?_
  rw [abs_mul, abs_abs]
  have := mul_le_mul_of_nonneg_left h2 (abs_nonneg c.val)
  nlinarith

/-- the exact 1-norm of the computed `a + b` -/
theorem absSum_add_le (a b : Array (Fl M)) (hs : a.size = b.size) :
    absSum (Array.zipWith (· + ·) a b) ≤ (1 + M.u) * (absSum a + absSum b) := by
  have hsz : (Array.zipWith (· + ·) a b).size = a.size := by simp [← hs]
  rw [absSum, absSum, absSum, hsz, ← hs, ← Finset.sum_add_distrib, Finset.mul_sum]
  refine Finset.sum_le_sum fun i hi => ?_
  rw [zipWith_add_getD a b hs (Finset.mem_range.mp hi)]
  exact Fl.abs_add_val_le _ _

/-- **triangle inequality for `norm_1` up to rounding**:
`fl‖a + b‖₁ ≤ (1 + gam (n+1)) (‖a‖₁ + ‖b‖₁)` with the exact norms on the right. -/
theorem norm1_triangle_fl (a b c : Array (Fl M)) (h : Vec.add a b = .ok c) :
    (Vec.norm1 c).val ≤ (1 + M.gam (a.size + 1)) * (absSum a + absSum b) := by
  unfold Vec.add at h
  split at h
  · cases h
  · rename_i hs
    cases h
    have hs := not_not.mp hs
    have hsz : (Array.zipWith (· + ·) a b).size = a.size := by simp [← hs]
    have h1 := (norm1_bounds (Array.zipWith (· + ·) a b)).2
    rw [hsz] at h1
    have h2 := absSum_add_le a b hs
    have hg := M.gam_nonneg a.size
    have := mul_le_mul_of_nonneg_left h2 (by linarith : 0 ≤ 1 + M.gam a.size)
    rw [M.gam_succ]
    have hA := absSum_nonneg a
    have hB := absSum_nonneg b
    nlinarith

/-- the triangle inequality between the three COMPUTED norms (`gam n < 1`):
`(1 - gam n) fl‖a + b‖₁ ≤ (1 + gam (n+1)) (fl‖a‖₁ + fl‖b‖₁)` -/
theorem norm1_triangle_fl_computed (a b c : Array (Fl M)) (h : Vec.add a b = .ok c)
    (hg : M.gam a.size ≤ 1) :
    (1 - M.gam a.size) * (Vec.norm1 c).val
      ≤ (1 + M.gam (a.size + 1)) * ((Vec.norm1 a).val + (Vec.norm1 b).val) := by
  have h0 := norm1_triangle_fl a b c h
  have hs : a.size = b.size := by
    unfold Vec.add at h
    split at h
    · cases h
    · rename_i hs; exact not_not.mp hs
  have ha := (norm1_bounds a).1
  have hb := (norm1_bounds b).1
  rw [← hs] at hb
  have hg1 := M.gam_nonneg (a.size + 1)
  have h1 : (1 - M.gam a.size) * (Vec.norm1 c).val
      ≤ (1 + M.gam (a.size + 1)) * ((1 - M.gam a.size) * (absSum a + absSum b)) := by
    have := mul_le_mul_of_nonneg_left h0 (by linarith : 0 ≤ 1 - M.gam a.size)
    linarith
  refine h1.trans (mul_le_mul_of_nonneg_left ?_ (by linarith))
  linarith

/-! #### `norm_inf`: no rounding at all -/

/-- `m` is the largest element magnitude of the non-empty vector `a` -/
def IsMaxAbsFl (a : Array (Fl M)) (m : ℝ) : Prop :=
  (∀ i, i < a.size → |(a.getD i 0).val| ≤ m) ∧ ∃ i, i < a.size ∧ m = |(a.getD i 0).val|

theorem IsMaxAbsFl.unique {a : Array (Fl M)} {m m' : ℝ} (h : IsMaxAbsFl a m)
    (h' : IsMaxAbsFl a m') : m = m' := by
  obtain ⟨i, hi, rfl⟩ := h.2
  obtain ⟨j, hj, rfl⟩ := h'.2
  exact le_antisymm (h'.1 i hi) (h.1 j hj)

theorem IsMaxAbsFl.nonneg {a : Array (Fl M)} {m : ℝ} (h : IsMaxAbsFl a m) : 0 ≤ m := by
  obtain ⟨i, _, rfl⟩ := h.2
  exact abs_nonneg _

theorem IsMaxAbsFl.le_absSum {a : Array (Fl M)} {m : ℝ} (h : IsMaxAbsFl a m) : m ≤ absSum a := by
  obtain ⟨i, hi, rfl⟩ := h.2
  exact Finset.single_le_sum (f := fun i => |(a.getD i 0).val|) (fun _ _ => abs_nonneg _)
    (Finset.mem_range.mpr hi)

theorem IsMaxAbsFl.absSum_le {a : Array (Fl M)} {m : ℝ} (h : IsMaxAbsFl a m) :
    absSum a ≤ a.size * m := by
  have := Finset.sum_le_sum (s := Finset.range a.size) (f := fun i => |(a.getD i 0).val|)
    (g := fun _ => m) (fun i hi => h.1 i (Finset.mem_range.mp hi))
  simpa [absSum] using this

/-- the running maximum with the exact comparison of `Fl M` -/
theorem foldl_max_spec_fl {α : Type} (f : α → Fl M) (l : List α) (init : Fl M) :
    init.val ≤ (l.foldl (fun r x => if ScalarExt.lt r (f x) then f x else r) init).val ∧
    (∀ x ∈ l, (f x).val ≤ (l.foldl (fun r x => if ScalarExt.lt r (f x) then f x else r) init).val) ∧
    (l.foldl (fun r x => if ScalarExt.lt r (f x) then f x else r) init = init ∨
      ∃ x ∈ l, l.foldl (fun r x => if ScalarExt.lt r (f x) then f x else r) init = f x) := by
  induction l generalizing init with
  | nil => simp
  | cons x l ih =>
    rw [List.foldl_cons]
    obtain ⟨h1, h2, h3⟩ := ih (if ScalarExt.lt init (f x) then f x else init)
    have hc : init.val ≤ (if ScalarExt.lt init (f x) then f x else init).val ∧
        (f x).val ≤ (if ScalarExt.lt init (f x) then f x else init).val ∧
        ((if ScalarExt.lt init (f x) then f x else init) = init ∨
         (if ScalarExt.lt init (f x) then f x else init) = f x) := by
      split
      · rename_i hlt
        have : init.val < (f x).val := by simpa [ScalarExt.lt] using hlt
        exact ⟨this.le, le_refl _, Or.inr rfl⟩
      · rename_i hlt
        have : (f x).val ≤ init.val := by simpa [ScalarExt.lt] using hlt
        exact ⟨le_refl _, this, Or.inl rfl⟩
    refine ⟨hc.1.trans h1, ?_, ?_⟩
    · intro y hy
      rcases List.mem_cons.mp hy with rfl | hy
      · exact hc.2.1.trans h1
      · exact h2 y hy
    · rcases h3 with h3 | ⟨y, hy, h3⟩
      · rcases hc.2.2 with h4 | h4
        · exact Or.inl (h3.trans h4)
        · exact Or.inr ⟨x, List.mem_cons_self, h3.trans h4⟩
      · exact Or.inr ⟨y, List.mem_cons_of_mem _ hy, h3⟩

variable [T : Transc (Fl M)]

/-- **`norm_inf` commits no rounding error**: for a non-empty vector and an exact `f64::abs`
(`hfabs`; the comparison `<` is exact in `Fl M`) the result is exactly `max |xᵢ|`. -/
theorem normInf_exact (hfabs : ∀ x : Fl M, (Transc.fabs x).val = |x.val|) (a : Array (Fl M))
    (h : 0 < a.size) : ∃ m, Vec.normInf a = .ok m ∧ IsMaxAbsFl a m.val := by
  rcases a with ⟨l⟩
  cases l with
  | nil => simp at h
  | cons x0 t =>
    have hex : ((⟨x0 :: t⟩ : Array (Fl M)).extract 1 (⟨x0 :: t⟩ : Array (Fl M)).size) = ⟨t⟩ := by
      simp
    refine ⟨t.foldl (fun r x => if ScalarExt.lt r (Transc.fabs x) then Transc.fabs x else r)
      (Transc.fabs x0), ?_, ?_⟩
    · unfold Vec.normInf Vec.normInfBy
      simp only [List.getElem?_toArray, List.getElem?_cons_zero]
      rw [hex, ← Array.foldl_toList]
      -- (repair D14) the NaN test `|x| != |x|` of `norm_inf` never fires in the standard model (no NaN there)
      have hstep : (fun (r x : Fl M) => if ScalarExt.lt r (Transc.fabs x) || !(Transc.fabs x == Transc.fabs x) then Transc.fabs x else r)
          = (fun r x => if ScalarExt.lt r (Transc.fabs x) then Transc.fabs x else r) := by
        funext r x; simp
      rw [hstep]
    · obtain ⟨h1, h2, h3⟩ := foldl_max_spec_fl (fun x : Fl M => Transc.fabs x) t (Transc.fabs x0)
      constructor
      · intro i hi
        cases i with
        | zero => simpa [Array.getD, hfabs] using h1
        | succ i =>
          have hi' : i < t.length := by simpa using hi
          have := h2 t[i] (List.getElem_mem hi')
          simpa [Array.getD, hi', hfabs] using this
      · rcases h3 with h3 | ⟨y, hy, h3⟩
        · exact ⟨0, by simp, by rw [h3]; simp [Array.getD, hfabs]⟩
        · obtain ⟨i, hi, rfl⟩ := List.mem_iff_getElem.mp hy
          exact ⟨i + 1, by simpa using hi, by rw [h3]; simp [Array.getD, hi, hfabs]⟩

/-- the empty vector is rejected (`self.vec[0]` is out of bounds) -/
theorem normInf_empty_fl : Vec.normInf (#[] : Array (Fl M)) = .error .range := by
  simp [Vec.normInf, Vec.normInfBy]

theorem normInf_isMaxAbsFl (hfabs : ∀ x : Fl M, (Transc.fabs x).val = |x.val|) {a : Array (Fl M)}
    {m : Fl M} (h : Vec.normInf a = .ok m) : 0 < a.size ∧ IsMaxAbsFl a m.val := by
  have hs : 0 < a.size := by
    by_contra hc
    have : a = #[] := by simpa using hc
    subst this
    simp [Vec.normInf, Vec.normInfBy] at h
  obtain ⟨m', hm', hmax⟩ := normInf_exact hfabs a hs
  rw [hm'] at h
  cases h
  exact ⟨hs, hmax⟩

/-- **non-negativity of `norm_inf`** — no hypothesis on `u` (nothing is rounded) -/
theorem normInf_nonneg_fl (hfabs : ∀ x : Fl M, (Transc.fabs x).val = |x.val|) {a : Array (Fl M)}
    {m : Fl M} (h : Vec.normInf a = .ok m) : 0 ≤ m.val :=
  (normInf_isMaxAbsFl hfabs h).2.nonneg

/-- **`‖x‖∞ ≤ ‖x‖₁` up to rounding**: the computed `norm_inf` (exact) is at most the computed
`norm_1` plus the rounding error `gam n · Σ|xᵢ|` of the latter. -/
theorem normInf_le_norm1_fl (hfabs : ∀ x : Fl M, (Transc.fabs x).val = |x.val|) {a : Array (Fl M)}
    {m : Fl M} (h : Vec.normInf a = .ok m) :
    m.val ≤ (Vec.norm1 a).val + M.gam a.size * absSum a := by
  have h1 := (normInf_isMaxAbsFl hfabs h).2.le_absSum
  have h2 := (norm1_bounds a).1
  linarith

/-- the multiplicative form: `(1 - gam n) ‖x‖∞ ≤ fl(‖x‖₁)` when `gam n ≤ 1` -/
theorem normInf_le_norm1_fl_mul (hfabs : ∀ x : Fl M, (Transc.fabs x).val = |x.val|)
    {a : Array (Fl M)} {m : Fl M} (h : Vec.normInf a = .ok m) (hg : M.gam a.size ≤ 1) :
    (1 - M.gam a.size) * m.val ≤ (Vec.norm1 a).val := by
  have h1 := (normInf_isMaxAbsFl hfabs h).2.le_absSum
  have h2 := (norm1_bounds a).1
  have : (1 - M.gam a.size) * m.val ≤ (1 - M.gam a.size) * absSum a :=
    mul_le_mul_of_nonneg_left h1 (by linarith)
  linarith

/-- the reverse comparison `‖x‖₁ ≤ n ‖x‖∞` up to rounding -/
theorem norm1_le_normInf_fl (hfabs : ∀ x : Fl M, (Transc.fabs x).val = |x.val|) {a : Array (Fl M)}
    {m : Fl M} (h : Vec.normInf a = .ok m) :
    (Vec.norm1 a).val ≤ (1 + M.gam a.size) * (a.size * m.val) := by
  have h1 := (normInf_isMaxAbsFl hfabs h).2.absSum_le
  have h2 := (norm1_bounds a).2
  have hg := M.gam_nonneg a.size
  exact h2.trans (mul_le_mul_of_nonneg_left h1 (by linarith))

/-- **homogeneity of `norm_inf` up to one rounding**: `|‖x c‖∞ − |c| ‖x‖∞| ≤ u · |c| ‖x‖∞`
(the only roundings are those of the products `xᵢ c`). -/
theorem normInf_smul_fl (hfabs : ∀ x : Fl M, (Transc.fabs x).val = |x.val|) {a : Array (Fl M)}
    {m m' : Fl M} (c : Fl M) (h : Vec.normInf a = .ok m)
    (h' : Vec.normInf (Vec.smul a c) = .ok m') :
    |m'.val - |c.val| * m.val| ≤ M.u * (|c.val| * m.val) := by
  obtain ⟨_, hm⟩ := normInf_isMaxAbsFl hfabs h
  obtain ⟨_, hm'⟩ := normInf_isMaxAbsFl hfabs h'
  have hsz : (Vec.smul a c).size = a.size := by simp [Vec.smul]
  have hc := abs_nonneg c.val
  rw [abs_le]
  constructor
  · obtain ⟨i, hi, hmi⟩ := hm.2
    have h1 := hm'.1 i (by rw [hsz]; exact hi)
    rw [smul_getD a c hi, Fl.mul_val] at h1
    have h2 := abs_fl_ge (M := M) ((a.getD i 0).val * c.val)
    rw [abs_mul, ← hmi] at h2
    nlinarith
  · obtain ⟨j, hj, hmj⟩ := hm'.2
    rw [hsz] at hj
    rw [smul_getD a c hj] at hmj
    have h1 := Fl.abs_mul_val_le (a.getD j 0) c
    rw [← hmj, abs_mul] at h1
    have h2 := hm.1 j hj
    have h3 : |(a.getD j 0).val| * |c.val| ≤ m.val * |c.val| := mul_le_mul_of_nonneg_right h2 hc
    have := mul_le_mul_of_nonneg_left h3 M.one_add_u_pos.le
    nlinarith

/-- **triangle inequality for `norm_inf` up to one rounding**:
`‖a + b‖∞ ≤ (1+u) (‖a‖∞ + ‖b‖∞)` between the three computed (= exact) norms. -/
theorem normInf_triangle_fl (hfabs : ∀ x : Fl M, (Transc.fabs x).val = |x.val|)
    {a b c : Array (Fl M)} {ma mb mc : Fl M} (hadd : Vec.add a b = .ok c)
    (ha : Vec.normInf a = .ok ma) (hb : Vec.normInf b = .ok mb) (hc : Vec.normInf c = .ok mc) :
    mc.val ≤ (1 + M.u) * (ma.val + mb.val) := by
  unfold Vec.add at hadd
  split at hadd
  · cases hadd
  · rename_i hs
    cases hadd
    have hs := not_not.mp hs
    obtain ⟨_, hma⟩ := normInf_isMaxAbsFl hfabs ha
    obtain ⟨_, hmb⟩ := normInf_isMaxAbsFl hfabs hb
    obtain ⟨_, hmc⟩ := normInf_isMaxAbsFl hfabs hc
    obtain ⟨i, hi, hmi⟩ := hmc.2
    have hia : i < a.size := by simpa [← hs] using hi
    rw [zipWith_add_getD a b hs hia] at hmi
    rw [hmi]
    refine (Fl.abs_add_val_le _ _).trans (mul_le_mul_of_nonneg_left ?_ M.one_add_u_pos.le)
    exact add_le_add (hma.1 i hia) (hmb.1 i (hs ▸ hia))

/-! #### `linspace` -/

/-- scaling by a constant keeps a relative error -/
theorem rel_mul_const {w W g : ℝ} (c : ℝ) (hw : |w - W| ≤ g * |W|) :
    |w * c - W * c| ≤ g * |W * c| := by
  rw [← sub_mul, abs_mul, abs_mul, ← mul_assoc]
  exact mul_le_mul_of_nonneg_right hw (abs_nonneg c)

theorem rel_div_const {w W g : ℝ} (c : ℝ) (hw : |w - W| ≤ g * |W|) :
    |w / c - W / c| ≤ g * |W / c| := by
  simpa only [div_eq_mul_inv] using rel_mul_const c⁻¹ hw

/-- The casts used by `linspace(a, b, n)` are exact: `k as f64` for `k ≤ n`, and `n as f64 - 1.0`
commits no rounding error.  True in IEEE binary64 for `n ≤ 2⁵³`; see `exactCasts_flTransc`,
`exactCasts_roundBits` for models in which it holds. -/
def ExactCasts (M' : FlModel) [T' : Transc (Fl M')] (n : Nat) : Prop :=
  (∀ k, k ≤ n → (Transc.ofNat k : Fl M').val = (k : ℝ)) ∧ M'.Rep ((n : ℝ) - 1)

theorem ExactCasts.den {n : Nat} (hc : ExactCasts M n) :
    (Transc.ofNat n - 1 : Fl M).val = (n : ℝ) - 1 := by
  rw [Fl.sub_val, hc.1 n (le_refl _), Fl.one_val]; exact hc.2

/-- the node `a + h * (i as f64)`, `h = (b - a) / (n as f64 - 1.0)`, as the code computes it -/
noncomputable def linNode (a b : Fl M) (n i : Nat) : Fl M :=
  a + ((b - a) / (Transc.ofNat n - 1)) * Transc.ofNat i

/-- the exact node `a + (b - a)/(n - 1) · i` -/
noncomputable def linX (A B : ℝ) (n i : Nat) : ℝ := A + (B - A) / ((n : ℝ) - 1) * (i : ℝ)

/-- (structural) `linspace` succeeds iff the computed `n as f64 - 1.0` is not an exact zero, and
then lists the computed nodes -/
theorem linspace_ok_fl (a b : Fl M) (n : Nat) (hd : (Transc.ofNat n - 1 : Fl M).val ≠ 0) :
    Vec.linspace a b n = .ok (Array.ofFn (n := n) fun i => linNode a b n i.val) := by
  unfold Vec.linspace
  simp only [divM, hd, if_false, bind, Except.bind, pure, Except.pure]
  rfl

theorem linspace_zero_den_fl (a b : Fl M) (n : Nat) (hd : (Transc.ofNat n - 1 : Fl M).val = 0) :
    Vec.linspace a b n = .error .arith := by
  unfold Vec.linspace
  simp only [divM, hd, if_true, bind, Except.bind]

/-- one node: `1 as f64 - 1.0` is an exact zero, `linspace` is rejected (IEEE: `0/0 = NaN`) -/
theorem linspace_one_rejects_fl (a b : Fl M) (h1 : (Transc.ofNat 1 : Fl M).val = 1) :
    Vec.linspace a b 1 = .error .arith := by
  apply linspace_zero_den_fl
  rw [Fl.sub_val, h1, Fl.one_val, sub_self, M.fl_zero]

theorem linNode_val {n i : Nat} (hc : ExactCasts M n) (hi : i ≤ n) (a b : Fl M) :
    (linNode a b n i).val
      = M.fl (a.val + M.fl (M.fl (M.fl (b.val - a.val) / ((n : ℝ) - 1)) * (i : ℝ))) := by
  have hd := hc.den
  rw [Fl.sub_val] at hd
  simp only [linNode, Fl.add_val, Fl.mul_val, Fl.div_val, Fl.sub_val, hd, hc.1 i hi]

/-- the increment `h * i` is computed with three roundings -/
theorem linIncr_rounding (A B : ℝ) (n i : Nat) :
    |M.fl (M.fl (M.fl (B - A) / ((n : ℝ) - 1)) * (i : ℝ)) - (B - A) / ((n : ℝ) - 1) * (i : ℝ)|
      ≤ M.gam 3 * |(B - A) / ((n : ℝ) - 1) * (i : ℝ)| := by
  have h1 : |M.fl (B - A) - (B - A)| ≤ M.gam 1 * |B - A| := by
    rw [M.gam_one]; exact M.fl_err _
  have h2 := fl_rel_gam (rel_div_const ((n : ℝ) - 1) h1)
  exact fl_rel_gam (rel_mul_const (i : ℝ) h2)

/-- **node `i` of `linspace`** against the exact node `X_i = a + (b-a) i/(n-1)`:
`|x_i − X_i| ≤ u |X_i| + (1+u) gam 3 · |b − a| i/(n−1)` (three roundings in the increment
`h·i`, one in the final addition). -/
theorem linNode_rounding {n i : Nat} (hc : ExactCasts M n) (hi : i ≤ n) (a b : Fl M) :
    |(linNode a b n i).val - linX a.val b.val n i|
      ≤ M.u * |linX a.val b.val n i|
        + (1 + M.u) * M.gam 3 * |(b.val - a.val) / ((n : ℝ) - 1) * (i : ℝ)| := by
  rw [linNode_val hc hi]
  have h3 := linIncr_rounding (M := M) a.val b.val n i
  set p := M.fl (M.fl (M.fl (b.val - a.val) / ((n : ℝ) - 1)) * (i : ℝ))
  set P := (b.val - a.val) / ((n : ℝ) - 1) * (i : ℝ)
  have hX : linX a.val b.val n i = a.val + P := rfl
  rw [hX]
  have h4 := M.fl_err (a.val + p)
  have h5 : |a.val + p| ≤ |a.val + P| + |p - P| := by
    have e : a.val + p = (a.val + P) + (p - P) := by ring
    rw [e]; exact abs_add_le _ _
  have e : M.fl (a.val + p) - (a.val + P) = (M.fl (a.val + p) - (a.val + p)) + (p - P) := by ring
  rw [e]
  refine (abs_add_le _ _).trans ?_
  have hu := M.u_nonneg
  have := mul_le_mul_of_nonneg_left h5 hu
  nlinarith

/-- the exact nodes and increments are bounded by the end points -/
theorem linX_bounds (A B : ℝ) {n i : Nat} (hn : 2 ≤ n) (hi : i < n) :
    |linX A B n i| ≤ |A| + |B| ∧ |(B - A) / ((n : ℝ) - 1) * (i : ℝ)| ≤ |A| + |B| := by
  have hn1 : (0 : ℝ) < (n : ℝ) - 1 := by
    have : (2 : ℝ) ≤ (n : ℝ) := by exact_mod_cast hn
    linarith
  have hi' : (i : ℝ) ≤ (n : ℝ) - 1 := by
    have : ((i + 1 : ℕ) : ℝ) ≤ (n : ℝ) := by exact_mod_cast hi
    push_cast at this; linarith
  have ht0 : 0 ≤ (i : ℝ) / ((n : ℝ) - 1) := div_nonneg (Nat.cast_nonneg i) hn1.le
  have ht1 : (i : ℝ) / ((n : ℝ) - 1) ≤ 1 := (div_le_one hn1).mpr hi'
  set t := (i : ℝ) / ((n : ℝ) - 1)
  have e1 : (B - A) / ((n : ℝ) - 1) * (i : ℝ) = (B - A) * t := by ring
  have e2 : linX A B n i = (1 - t) * A + t * B := by rw [linX, e1]; ring
  have hA := abs_nonneg A
  have hB := abs_nonneg B
  constructor
  · rw [e2]
    refine (abs_add_le _ _).trans ?_
    rw [abs_mul, abs_mul, abs_of_nonneg ht0, abs_of_nonneg (by linarith : 0 ≤ 1 - t)]
    nlinarith
  · rw [e1, abs_mul, abs_of_nonneg ht0]
    have : |B - A| ≤ |A| + |B| := by
      have := abs_sub B A; linarith
    nlinarith [abs_nonneg (B - A)]

/-- **`linspace(a, b, n)` over the rounded reals**, `n ≥ 2`, exact casts, `a` representable
(`fl a = a`: every `f64` is): the call succeeds with `n` nodes,
* the first node is EXACTLY `a`  (`h·0 = 0` and `a + 0 = a` are exact),
* the last node satisfies `|x_{n-1} − b| ≤ u |b| + (1+u) gam 3 |b − a| ≤ gam 4 · (|a| + |b|)`,
* every node satisfies `|x_i − (a + (b−a) i/(n−1))| ≤ gam 4 · (|a| + |b|)`
  (`gam 4 = (1+u)⁴ − 1 ≤ 4u/(1−4u)`: four roundings). -/
theorem linspace_fl {n : Nat} (hc : ExactCasts M n) (hn : 2 ≤ n) (a b : Fl M)
    (ha : M.Rep a.val) :
    ∃ v, Vec.linspace a b n = .ok v ∧ v.size = n ∧
      (v.getD 0 0).val = a.val ∧
      |(v.getD (n - 1) 0).val - b.val| ≤ M.u * |b.val| + (1 + M.u) * M.gam 3 * |b.val - a.val| ∧
      |(v.getD (n - 1) 0).val - b.val| ≤ M.gam 4 * (|a.val| + |b.val|) ∧
      ∀ i, i < n →
        |(v.getD i 0).val - (a.val + (b.val - a.val) / ((n : ℝ) - 1) * (i : ℝ))|
          ≤ M.gam 4 * (|a.val| + |b.val|) := by
  have hn1 : (0 : ℝ) < (n : ℝ) - 1 := by
    have : (2 : ℝ) ≤ (n : ℝ) := by exact_mod_cast hn
    linarith
  have hd : (Transc.ofNat n - 1 : Fl M).val ≠ 0 := by rw [hc.den]; exact hn1.ne'
  have hel : ∀ i, i < n →
      (Array.ofFn (n := n) fun i => linNode a b n i.val).getD i 0 = linNode a b n i := by
    intro i hi
    simp [Array.getD, hi]
  have hg4 : M.u + (1 + M.u) * M.gam 3 = M.gam 4 := by rw [M.gam_succ 3]; ring
  have hnode : ∀ i, i < n →
      |(linNode a b n i).val - linX a.val b.val n i| ≤ M.gam 4 * (|a.val| + |b.val|) := by
    intro i hi
    have h1 := linNode_rounding hc hi.le a b
    obtain ⟨h2, h3⟩ := linX_bounds a.val b.val hn hi
    have hu := M.u_nonneg
    have hg := M.gam_nonneg 3
    have := mul_le_mul_of_nonneg_left h2 hu
    have := mul_le_mul_of_nonneg_left h3 (by positivity : 0 ≤ (1 + M.u) * M.gam 3)
    rw [← hg4]
    linarith
  have hlast : linX a.val b.val n (n - 1) = b.val := by
    have : ((n - 1 : ℕ) : ℝ) = (n : ℝ) - 1 := by
      rw [Nat.cast_sub (by omega)]; simp
    rw [linX, this, div_mul_cancel₀ _ hn1.ne']
    ring
  refine ⟨_, linspace_ok_fl a b n hd, by simp, ?_, ?_, ?_, ?_⟩
  · rw [hel 0 (by omega), linNode_val hc (Nat.zero_le _)]
    simp only [Nat.cast_zero, mul_zero, M.fl_zero, add_zero]
    exact ha
  · rw [hel (n - 1) (by omega)]
    have h1 := linNode_rounding hc (by omega : n - 1 ≤ n) a b
    rw [hlast] at h1
    have : ((n - 1 : ℕ) : ℝ) = (n : ℝ) - 1 := by
      rw [Nat.cast_sub (by omega)]; simp
    rwa [this, div_mul_cancel₀ _ hn1.ne'] at h1
  · rw [hel (n - 1) (by omega)]
    have := hnode (n - 1) (by omega)
    rwa [hlast] at this
  · intro i hi
    rw [hel i hi]
    exact hnode i hi

/-- the classical form of the constant: `gam 4 ≤ 4u / (1 − 4u)` -/
theorem linspace_fl_gamma {n : Nat} (hc : ExactCasts M n) (hn : 2 ≤ n) (a b : Fl M)
    (ha : M.Rep a.val) (hu : 4 * M.u < 1) :
    ∃ v, Vec.linspace a b n = .ok v ∧ v.size = n ∧ (v.getD 0 0).val = a.val ∧
      |(v.getD (n - 1) 0).val - b.val| ≤ 4 * M.u / (1 - 4 * M.u) * (|a.val| + |b.val|) ∧
      ∀ i, i < n →
        |(v.getD i 0).val - (a.val + (b.val - a.val) / ((n : ℝ) - 1) * (i : ℝ))|
          ≤ 4 * M.u / (1 - 4 * M.u) * (|a.val| + |b.val|) := by
  obtain ⟨v, hv, hs, h0, _, hl, hi⟩ := linspace_fl hc hn a b ha
  have hg : M.gam 4 ≤ 4 * M.u / (1 - 4 * M.u) := by
    have := M.gam_le_gamma 4 (by push_cast; linarith)
    simpa using this
  have hab : 0 ≤ |a.val| + |b.val| := by positivity
  exact ⟨v, hv, hs, h0, hl.trans (mul_le_mul_of_nonneg_right hg hab),
    fun i h => (hi i h).trans (mul_le_mul_of_nonneg_right hg hab)⟩

/-- **monotonicity of the computed sequence** needs a monotone rounding function (true of
round-to-nearest, NOT part of the standard model — see `linspace_not_monotone` below): for
`a ≤ b` the computed nodes are non-decreasing.  (Strict monotonicity cannot survive rounding: for
`|b − a| ≪ u |a|` neighbouring nodes round to the same number.) -/
theorem linspace_monotone_fl (hmono : Monotone M.fl) {n : Nat} (hc : ExactCasts M n) (hn : 2 ≤ n)
    (a b : Fl M) (hab : a.val ≤ b.val) :
    ∃ v, Vec.linspace a b n = .ok v ∧ v.size = n ∧
      ∀ i j, i ≤ j → j < n → (v.getD i 0).val ≤ (v.getD j 0).val := by
  have hn1 : (0 : ℝ) < (n : ℝ) - 1 := by
    have : (2 : ℝ) ≤ (n : ℝ) := by exact_mod_cast hn
    linarith
  have hd : (Transc.ofNat n - 1 : Fl M).val ≠ 0 := by rw [hc.den]; exact hn1.ne'
  have hel : ∀ i, i < n →
      (Array.ofFn (n := n) fun i => linNode a b n i.val).getD i 0 = linNode a b n i := by
    intro i hi
    simp [Array.getD, hi]
  refine ⟨_, linspace_ok_fl a b n hd, by simp, ?_⟩
  intro i j hij hj
  rw [hel i (by omega), hel j hj, linNode_val hc (by omega), linNode_val hc (by omega)]
  have h0 : 0 ≤ M.fl (b.val - a.val) := by
    have := hmono (sub_nonneg.mpr hab)
    rwa [M.fl_zero] at this
  have hh : 0 ≤ M.fl (M.fl (b.val - a.val) / ((n : ℝ) - 1)) := by
    have := hmono (div_nonneg h0 hn1.le)
    rwa [M.fl_zero] at this
  have hc' : (i : ℝ) ≤ (j : ℝ) := by exact_mod_cast hij
  apply hmono
  have := hmono (mul_le_mul_of_nonneg_left hc' hh)
  linarith

/-- the mirror image: for `b ≤ a` the computed nodes are non-increasing -/
theorem linspace_antitone_fl (hmono : Monotone M.fl) {n : Nat} (hc : ExactCasts M n) (hn : 2 ≤ n)
    (a b : Fl M) (hab : b.val ≤ a.val) :
    ∃ v, Vec.linspace a b n = .ok v ∧ v.size = n ∧
      ∀ i j, i ≤ j → j < n → (v.getD j 0).val ≤ (v.getD i 0).val := by
  have hn1 : (0 : ℝ) < (n : ℝ) - 1 := by
    have : (2 : ℝ) ≤ (n : ℝ) := by exact_mod_cast hn
    linarith
  have hd : (Transc.ofNat n - 1 : Fl M).val ≠ 0 := by rw [hc.den]; exact hn1.ne'
  have hel : ∀ i, i < n →
      (Array.ofFn (n := n) fun i => linNode a b n i.val).getD i 0 = linNode a b n i := by
    intro i hi
    simp [Array.getD, hi]
  refine ⟨_, linspace_ok_fl a b n hd, by simp, ?_⟩
  intro i j hij hj
  rw [hel i (by omega), hel j hj, linNode_val hc (by omega), linNode_val hc (by omega)]
  have h0 : M.fl (b.val - a.val) ≤ 0 := by
    have := hmono (sub_nonpos.mpr hab)
    rwa [M.fl_zero] at this
  have hh : M.fl (M.fl (b.val - a.val) / ((n : ℝ) - 1)) ≤ 0 := by
    have := hmono (div_nonpos_of_nonpos_of_nonneg h0 hn1.le)
    rwa [M.fl_zero] at this
  have hc' : (i : ℝ) ≤ (j : ℝ) := by exact_mod_cast hij
  apply hmono
  have := hmono (mul_le_mul_of_nonpos_left hc' hh)
  linarith

end Rounding

/-! ### `norm_2` -/

section Rounding
variable {M : FlModel}
open Fl

/-- a relative perturbation `g` of a non-negative number moves its square root by at most `g`
relatively (also when the perturbed number is negative and `Real.sqrt` returns `0`) -/
theorem sqrt_rel {s S g : ℝ} (hS : 0 ≤ S) (h : |s - S| ≤ g * S) :
    |Real.sqrt s - Real.sqrt S| ≤ g * Real.sqrt S := by
  rcases hS.eq_or_lt with rfl | hpos
  · have : s = 0 := by
      have : |s| ≤ 0 := by simpa using h
      exact abs_nonpos_iff.mp this
    simp [this]
  · have hr : 0 < Real.sqrt S := Real.sqrt_pos.mpr hpos
    have hrr : Real.sqrt S * Real.sqrt S = S := Real.mul_self_sqrt hS
    set r := Real.sqrt S
    by_cases hs : 0 ≤ s
    · have hqq : Real.sqrt s * Real.sqrt s = s := Real.mul_self_sqrt hs
      have hq : 0 ≤ Real.sqrt s := Real.sqrt_nonneg s
      set q := Real.sqrt s
      have e : |q - r| * (q + r) = |s - S| := by
        rw [← abs_of_nonneg (by linarith : 0 ≤ q + r), ← abs_mul]
        congr 1
        rw [← hqq, ← hrr]; ring
      by_contra hc
      have hc := not_le.mp hc
      have h1 : g * r * r < |q - r| * (q + r) := by
        have h2 : g * r * r < |q - r| * r := mul_lt_mul_of_pos_right hc hr
        have h3 : |q - r| * r ≤ |q - r| * (q + r) :=
          mul_le_mul_of_nonneg_left (by linarith) (abs_nonneg _)
        linarith
      rw [e, mul_assoc, hrr] at h1
      linarith
    · have hs := not_le.mp hs
      have h0 : Real.sqrt s = 0 := Real.sqrt_eq_zero_of_nonpos hs.le
      rw [h0, zero_sub, abs_neg, abs_of_pos hr]
      have h1 : S - s ≤ g * S := by
        have := neg_abs_le (s - S); linarith
      have hg : 1 ≤ g := by
        by_contra hc
        have hc := not_le.mp hc
        have : g * S < 1 * S := mul_lt_mul_of_pos_right hc hpos
        linarith
      nlinarith

/-- componentwise relative perturbations of size `ε` move the Euclidean norm by at most `ε`
relatively (Minkowski's inequality) -/
theorem sqrt_sum_sq_perturb (n : Nat) (x y : Nat → ℝ) (ε : ℝ) (hε : 0 ≤ ε)
    (h : ∀ i, i < n → |x i - y i| ≤ ε * |y i|) :
    |Real.sqrt (∑ i ∈ Finset.range n, x i ^ 2) - Real.sqrt (∑ i ∈ Finset.range n, y i ^ 2)|
      ≤ ε * Real.sqrt (∑ i ∈ Finset.range n, y i ^ 2) := by
  have hd : ∀ z : Nat → ℝ, (∀ i, i < n → |z i| ≤ ε * |y i|) →
      Real.sqrt (∑ i ∈ Finset.range n, z i ^ 2)
        ≤ ε * Real.sqrt (∑ i ∈ Finset.range n, y i ^ 2) := by
    intro z hz
    have : ∑ i ∈ Finset.range n, z i ^ 2 ≤ ε ^ 2 * ∑ i ∈ Finset.range n, y i ^ 2 := by
      rw [Finset.mul_sum]
      refine Finset.sum_le_sum fun i hi => ?_
      have h1 := hz i (Finset.mem_range.mp hi)
      have h2 : |z i| ^ 2 ≤ (ε * |y i|) ^ 2 := pow_le_pow_left₀ (abs_nonneg _) h1 2
      rw [sq_abs, mul_pow, sq_abs] at h2
      exact h2
    calc Real.sqrt (∑ i ∈ Finset.range n, z i ^ 2)
        ≤ Real.sqrt (ε ^ 2 * ∑ i ∈ Finset.range n, y i ^ 2) := Real.sqrt_le_sqrt this
      _ = ε * Real.sqrt (∑ i ∈ Finset.range n, y i ^ 2) := by
          rw [Real.sqrt_mul (sq_nonneg ε), Real.sqrt_sq hε]
  have h1 := sqrt_sum_add_sq_le (Finset.range n) y (fun i => x i - y i)
  have h2 := sqrt_sum_add_sq_le (Finset.range n) x (fun i => y i - x i)
  have e1 : ∀ i, y i + (x i - y i) = x i := fun i => by ring
  have e2 : ∀ i, x i + (y i - x i) = y i := fun i => by ring
  simp only [e1] at h1
  simp only [e2] at h2
  have h3 := hd (fun i => x i - y i) h
  have h4 := hd (fun i => y i - x i) (fun i hi => by rw [abs_sub_comm]; exact h i hi)
  rw [abs_le]
  constructor <;> linarith

/-- the exact Euclidean norm `√(Σ xᵢ²)` of the values -/
noncomputable def exactNorm2 (a : Array (Fl M)) : ℝ :=
  Real.sqrt (∑ i ∈ Finset.range a.size, (a.getD i 0).val ^ 2)

theorem exactNorm2_nonneg (a : Array (Fl M)) : 0 ≤ exactNorm2 a := Real.sqrt_nonneg _

/-- `‖x‖∞ ≤ ‖x‖₂` for the exact norms -/
theorem IsMaxAbsFl.le_exactNorm2 {a : Array (Fl M)} {m : ℝ} (h : IsMaxAbsFl a m) :
    m ≤ exactNorm2 a := by
  obtain ⟨i, hi, rfl⟩ := h.2
  rw [exactNorm2, ← Real.sqrt_sq_eq_abs]
  apply Real.sqrt_le_sqrt
  exact Finset.single_le_sum (f := fun i => (a.getD i 0).val ^ 2) (fun _ _ => sq_nonneg _)
    (Finset.mem_range.mpr hi)

/-- `‖x‖₂ ≤ ‖x‖₁` for the exact norms -/
theorem exactNorm2_le_absSum (a : Array (Fl M)) : exactNorm2 a ≤ absSum a := by
  rw [exactNorm2, absSum]
  have hS : 0 ≤ ∑ i ∈ Finset.range a.size, |(a.getD i 0).val| :=
    Finset.sum_nonneg fun _ _ => abs_nonneg _
  apply Real.sqrt_le_iff.mpr ⟨hS, ?_⟩
  rw [sq, Finset.sum_mul]
  refine Finset.sum_le_sum fun i hi => ?_
  rw [← sq_abs, sq]
  exact mul_le_mul_of_nonneg_left
    (Finset.single_le_sum (f := fun i => |(a.getD i 0).val|) (fun _ _ => abs_nonneg _) hi)
    (abs_nonneg _)

/-- the exact 2-norm of the computed `x * c` -/
theorem exactNorm2_smul (a : Array (Fl M)) (c : Fl M) :
    |exactNorm2 (Vec.smul a c) - |c.val| * exactNorm2 a| ≤ M.u * (|c.val| * exactNorm2 a) := by
  have hsz : (Vec.smul a c).size = a.size := by simp [Vec.smul]
  have h := sqrt_sum_sq_perturb a.size (fun i => ((Vec.smul a c).getD i 0).val)
    (fun i => (a.getD i 0).val * c.val) M.u M.u_nonneg (fun i hi => by
      simp only [smul_getD a c hi]; exact Fl.mul_err _ _)
  have e : Real.sqrt (∑ i ∈ Finset.range a.size, ((a.getD i 0).val * c.val) ^ 2)
      = |c.val| * exactNorm2 a := by
    have : ∑ i ∈ Finset.range a.size, ((a.getD i 0).val * c.val) ^ 2
        = c.val ^ 2 * ∑ i ∈ Finset.range a.size, (a.getD i 0).val ^ 2 := by
      rw [Finset.mul_sum]
      exact Finset.sum_congr rfl fun i _ => by ring
    rw [this, Real.sqrt_mul (sq_nonneg _), Real.sqrt_sq_eq_abs, exactNorm2]
  rw [e] at h
  rw [exactNorm2, hsz]
  exact h

/-- the exact 2-norm of the computed `a + b` -/
theorem exactNorm2_add_le (a b : Array (Fl M)) (hs : a.size = b.size) :
    exactNorm2 (Array.zipWith (· + ·) a b) ≤ (1 + M.u) * (exactNorm2 a + exactNorm2 b) := by
  have hsz : (Array.zipWith (· + ·) a b).size = a.size := by simp [← hs]
  have h := sqrt_sum_sq_perturb a.size (fun i => ((Array.zipWith (· + ·) a b).getD i 0).val)
    (fun i => (a.getD i 0).val + (b.getD i 0).val) M.u M.u_nonneg (fun i hi => by
      simp only [zipWith_add_getD a b hs hi]; exact Fl.add_err _ _)
  have h2 := sqrt_sum_add_sq_le (Finset.range a.size) (fun i => (a.getD i 0).val)
    (fun i => (b.getD i 0).val)
  have h3 := (abs_le.mp h).2
  rw [exactNorm2, hsz, exactNorm2, exactNorm2, ← hs]
  have hu := M.u_nonneg
  have := mul_le_mul_of_nonneg_left h2 M.one_add_u_pos.le
  linarith

variable [T : Transc (Fl M)]

/-- (structural) `norm_2` is `sqrt` of the left fold from `0` of the terms `powf(|xᵢ|, 2)` -/
theorem norm2_eq_fold (a : Array (Fl M)) :
    Vec.norm2 a = Transc.sqrt (((List.range a.size).map
      (fun j => Transc.powf (Transc.fabs (a.getD j 0)) ((1 : Fl M) + 1))).foldl (· + ·) 0) := by
  unfold Vec.norm2
  rw [← Array.foldl_toList]
  conv_lhs => rw [C16.toList_eq_map_range a (0 : Fl M)]
  rw [List.foldl_map, List.foldl_map]

/-- **`norm_2`**: if `powf(|x|, 2.0)` and `sqrt` are computed with relative error `≤ u` (`hpow2`,
`hsqrt`: one rounding each, as in `C03.flTransc`; no weaker assumption on the libm functions makes
sense in the standard model) then
`|computed − √(Σ xᵢ²)| ≤ gam (n+2) · √(Σ xᵢ²)`
(`gam (n+1)` under the root — one rounding per square, `n` additions — halves to first order but
is bounded by itself; one more rounding for the root). -/
theorem norm2_rounding
    (hpow2 : ∀ x : Fl M,
      |(Transc.powf (Transc.fabs x) ((1 : Fl M) + 1)).val - x.val ^ 2| ≤ M.u * x.val ^ 2)
    (hsqrt : ∀ s : Fl M, |(Transc.sqrt s).val - Real.sqrt s.val| ≤ M.u * Real.sqrt s.val)
    (a : Array (Fl M)) :
    |(Vec.norm2 a).val - exactNorm2 a| ≤ M.gam (a.size + 2) * exactNorm2 a := by
  rw [norm2_eq_fold]
  set f : Nat → Fl M := fun j => Transc.powf (Transc.fabs (a.getD j 0)) ((1 : Fl M) + 1)
  set s : Fl M := ((List.range a.size).map f).foldl (· + ·) 0
  have h1 := foldl_sum_rounding ((List.range a.size).map f)
  rw [List.length_map, List.length_range] at h1
  have h2 := rounded_terms_sum_bound (List.range a.size) f (fun j => (a.getD j 0).val ^ 2)
    a.size s.val (fun j _ => by rw [abs_sq]; exact hpow2 _) h1
  rw [sum_map_range, sum_map_range] at h2
  simp only [abs_sq] at h2
  have hS : 0 ≤ ∑ i ∈ Finset.range a.size, (a.getD i 0).val ^ 2 :=
    Finset.sum_nonneg fun _ _ => sq_nonneg _
  have h3 := sqrt_rel hS h2
  have h4 := hsqrt s
  change |(Transc.sqrt s).val - Real.sqrt _| ≤ M.gam (a.size + 1 + 1) * Real.sqrt _
  set R := Real.sqrt (∑ i ∈ Finset.range a.size, (a.getD i 0).val ^ 2)
  have hR : 0 ≤ R := Real.sqrt_nonneg _
  have h5 : Real.sqrt s.val ≤ (1 + M.gam (a.size + 1)) * R := by
    have := (abs_le.mp h3).2; linarith
  have e : (Transc.sqrt s).val - R = ((Transc.sqrt s).val - Real.sqrt s.val)
      + (Real.sqrt s.val - R) := by ring
  rw [e, M.gam_succ (a.size + 1)]
  refine (abs_add_le _ _).trans ?_
  have := mul_le_mul_of_nonneg_left h5 M.u_nonneg
  nlinarith

/-- two-sided form of `norm2_rounding` -/
theorem norm2_bounds
    (hpow2 : ∀ x : Fl M,
      |(Transc.powf (Transc.fabs x) ((1 : Fl M) + 1)).val - x.val ^ 2| ≤ M.u * x.val ^ 2)
    (hsqrt : ∀ s : Fl M, |(Transc.sqrt s).val - Real.sqrt s.val| ≤ M.u * Real.sqrt s.val)
    (a : Array (Fl M)) :
    (1 - M.gam (a.size + 2)) * exactNorm2 a ≤ (Vec.norm2 a).val ∧
      (Vec.norm2 a).val ≤ (1 + M.gam (a.size + 2)) * exactNorm2 a := by
  have h := abs_le.mp (norm2_rounding hpow2 hsqrt a)
  constructor <;> linarith [h.1, h.2]

/-- **non-negativity of the computed `norm_2`** (`u ≤ 1`; only the final `sqrt` matters) -/
theorem norm2_nonneg_fl (hu : M.u ≤ 1)
    (hsqrt : ∀ s : Fl M, |(Transc.sqrt s).val - Real.sqrt s.val| ≤ M.u * Real.sqrt s.val)
    (a : Array (Fl M)) : 0 ≤ (Vec.norm2 a).val := by
  rw [norm2_eq_fold]
  have h := (abs_le.mp (hsqrt (((List.range a.size).map
      (fun j => Transc.powf (Transc.fabs (a.getD j 0)) ((1 : Fl M) + 1))).foldl (· + ·) 0))).1
  have hq := Real.sqrt_nonneg (((List.range a.size).map
      (fun j => Transc.powf (Transc.fabs (a.getD j 0)) ((1 : Fl M) + 1))).foldl (· + ·) 0).val
  have := mul_le_mul_of_nonneg_right hu hq
  linarith

/-- **`‖x‖∞ ≤ ‖x‖₂` up to rounding** -/
theorem normInf_le_norm2_fl (hfabs : ∀ x : Fl M, (Transc.fabs x).val = |x.val|)
    (hpow2 : ∀ x : Fl M,
      |(Transc.powf (Transc.fabs x) ((1 : Fl M) + 1)).val - x.val ^ 2| ≤ M.u * x.val ^ 2)
    (hsqrt : ∀ s : Fl M, |(Transc.sqrt s).val - Real.sqrt s.val| ≤ M.u * Real.sqrt s.val)
    {a : Array (Fl M)} {m : Fl M} (h : Vec.normInf a = .ok m) :
    m.val ≤ (Vec.norm2 a).val + M.gam (a.size + 2) * exactNorm2 a := by
  have h1 := (normInf_isMaxAbsFl hfabs h).2.le_exactNorm2
  have h2 := (norm2_bounds hpow2 hsqrt a).1
  linarith

/-- **`‖x‖₂ ≤ ‖x‖₁` up to rounding**, exact 1-norm on the right -/
theorem norm2_le_norm1_fl
    (hpow2 : ∀ x : Fl M,
      |(Transc.powf (Transc.fabs x) ((1 : Fl M) + 1)).val - x.val ^ 2| ≤ M.u * x.val ^ 2)
    (hsqrt : ∀ s : Fl M, |(Transc.sqrt s).val - Real.sqrt s.val| ≤ M.u * Real.sqrt s.val)
    (a : Array (Fl M)) :
    (Vec.norm2 a).val ≤ (1 + M.gam (a.size + 2)) * absSum a := by
  have h1 := (norm2_bounds hpow2 hsqrt a).2
  have hg := M.gam_nonneg (a.size + 2)
  exact h1.trans (mul_le_mul_of_nonneg_left (exactNorm2_le_absSum a) (by linarith))

/-- `‖x‖₂ ≤ ‖x‖₁` between the two COMPUTED norms (`gam n ≤ 1`):
`(1 − gam n) fl‖x‖₂ ≤ (1 + gam (n+2)) fl‖x‖₁` -/
theorem norm2_le_norm1_fl_computed
    (hpow2 : ∀ x : Fl M,
      |(Transc.powf (Transc.fabs x) ((1 : Fl M) + 1)).val - x.val ^ 2| ≤ M.u * x.val ^ 2)
    (hsqrt : ∀ s : Fl M, |(Transc.sqrt s).val - Real.sqrt s.val| ≤ M.u * Real.sqrt s.val)
    (a : Array (Fl M)) (hg : M.gam a.size ≤ 1) :
    (1 - M.gam a.size) * (Vec.norm2 a).val ≤ (1 + M.gam (a.size + 2)) * (Vec.norm1 a).val := by
  have h1 := norm2_le_norm1_fl hpow2 hsqrt a
  have h2 := (norm1_bounds a).1
  have hg2 := M.gam_nonneg (a.size + 2)
  have h3 : (1 - M.gam a.size) * (Vec.norm2 a).val
      ≤ (1 + M.gam (a.size + 2)) * ((1 - M.gam a.size) * absSum a) := by
    have := mul_le_mul_of_nonneg_left h1 (by linarith : 0 ≤ 1 - M.gam a.size)
    linarith
  exact h3.trans (mul_le_mul_of_nonneg_left h2 (by linarith))

/-- **homogeneity of `norm_2` up to rounding**:
`|fl‖x c‖₂ − |c| ‖x‖₂| ≤ gam (n+3) · |c| ‖x‖₂` -/
theorem norm2_smul_fl
    (hpow2 : ∀ x : Fl M,
      |(Transc.powf (Transc.fabs x) ((1 : Fl M) + 1)).val - x.val ^ 2| ≤ M.u * x.val ^ 2)
    (hsqrt : ∀ s : Fl M, |(Transc.sqrt s).val - Real.sqrt s.val| ≤ M.u * Real.sqrt s.val)
    (a : Array (Fl M)) (c : Fl M) :
    |(Vec.norm2 (Vec.smul a c)).val - |c.val| * exactNorm2 a|
      ≤ M.gam (a.size + 3) * (|c.val| * exactNorm2 a) := by
  have hsz : (Vec.smul a c).size = a.size := by simp [Vec.smul]
  have h1 := norm2_rounding hpow2 hsqrt (Vec.smul a c)
  rw [hsz] at h1
  have h2 := exactNorm2_smul a c
  have h3 : exactNorm2 (Vec.smul a c) ≤ (1 + M.u) * (|c.val| * exactNorm2 a) := by
    have := (abs_le.mp h2).2; linarith
  have hg := M.gam_nonneg (a.size + 2)
  have e : (Vec.norm2 (Vec.smul a c)).val - |c.val| * exactNorm2 a
      = ((Vec.norm2 (Vec.smul a c)).val - exactNorm2 (Vec.smul a c))
        + (exactNorm2 (Vec.smul a c) - |c.val| * exactNorm2 a) := by ring
  rw [e, show a.size + 3 = a.size + 2 + 1 from rfl, M.gam_succ]
  refine (abs_add_le _ _).trans ?_
  have := mul_le_mul_of_nonneg_left h3 hg
  nlinarith

/-- **triangle inequality for `norm_2` up to rounding**:
`fl‖a + b‖₂ ≤ (1 + gam (n+3)) (‖a‖₂ + ‖b‖₂)` with the exact norms on the right. -/
theorem norm2_triangle_fl
    (hpow2 : ∀ x : Fl M,
      |(Transc.powf (Transc.fabs x) ((1 : Fl M) + 1)).val - x.val ^ 2| ≤ M.u * x.val ^ 2)
    (hsqrt : ∀ s : Fl M, |(Transc.sqrt s).val - Real.sqrt s.val| ≤ M.u * Real.sqrt s.val)
    (a b c : Array (Fl M)) (h : Vec.add a b = .ok c) :
    (Vec.norm2 c).val ≤ (1 + M.gam (a.size + 3)) * (exactNorm2 a + exactNorm2 b) := by
  unfold Vec.add at h
  split at h
  · cases h
  · rename_i hs
    cases h
    have hs := not_not.mp hs
    have hsz : (Array.zipWith (· + ·) a b).size = a.size := by simp [← hs]
    have h1 := (norm2_bounds hpow2 hsqrt (Array.zipWith (· + ·) a b)).2
    rw [hsz] at h1
    have h2 := exactNorm2_add_le a b hs
    have hg := M.gam_nonneg (a.size + 2)
    have := mul_le_mul_of_nonneg_left h2 (by linarith : 0 ≤ 1 + M.gam (a.size + 2))
    rw [show a.size + 3 = a.size + 2 + 1 from rfl, M.gam_succ]
    have hA := exactNorm2_nonneg a
    have hB := exactNorm2_nonneg b
    nlinarith

end Rounding

/-! ### `powspace` -/

section Rounding
variable {M : FlModel}
open Fl

/-- the product of two approximations with relative errors `gam k₁`, `gam k₂` has relative error
`gam (k₁ + k₂)` -/
theorem rel_mul {y₁ Y₁ y₂ Y₂ : ℝ} {k₁ k₂ : ℕ} (h₁ : |y₁ - Y₁| ≤ M.gam k₁ * |Y₁|)
    (h₂ : |y₂ - Y₂| ≤ M.gam k₂ * |Y₂|) :
    |y₁ * y₂ - Y₁ * Y₂| ≤ M.gam (k₁ + k₂) * |Y₁ * Y₂| := by
  have e : y₁ * y₂ - Y₁ * Y₂ = (y₁ - Y₁) * (y₂ - Y₂) + (y₁ - Y₁) * Y₂ + Y₁ * (y₂ - Y₂) := by ring
  have g1 := M.gam_nonneg k₁
  have g2 := M.gam_nonneg k₂
  have a1 := abs_nonneg Y₁
  have a2 := abs_nonneg Y₂
  rw [e, M.gam_add, abs_mul]
  refine (abs_add_le _ _).trans ?_
  refine (add_le_add (abs_add_le _ _) (le_refl _)).trans ?_
  rw [abs_mul, abs_mul, abs_mul]
  have p1 : |y₁ - Y₁| * |y₂ - Y₂| ≤ (M.gam k₁ * |Y₁|) * (M.gam k₂ * |Y₂|) :=
    mul_le_mul h₁ h₂ (abs_nonneg _) (by positivity)
  have p2 : |y₁ - Y₁| * |Y₂| ≤ (M.gam k₁ * |Y₁|) * |Y₂| := mul_le_mul_of_nonneg_right h₁ a2
  have p3 : |Y₁| * |y₂ - Y₂| ≤ |Y₁| * (M.gam k₂ * |Y₂|) := mul_le_mul_of_nonneg_left h₂ a1
  nlinarith

/-- adding a computed increment `p ≈ P` (relative error `g`) to `A`, with one rounding:
`|fl(A + p) − (A + P)| ≤ u |A + P| + (1+u) g |P|` -/
theorem fl_add_rel {A p P g : ℝ} (h : |p - P| ≤ g * |P|) :
    |M.fl (A + p) - (A + P)| ≤ M.u * |A + P| + (1 + M.u) * g * |P| := by
  have h4 := M.fl_err (A + p)
  have h5 : |A + p| ≤ |A + P| + |p - P| := by
    have e : A + p = (A + P) + (p - P) := by ring
    rw [e]; exact abs_add_le _ _
  have e : M.fl (A + p) - (A + P) = (M.fl (A + p) - (A + p)) + (p - P) := by ring
  rw [e]
  refine (abs_add_le _ _).trans ?_
  have hu := M.u_nonneg
  have := mul_le_mul_of_nonneg_left h5 hu
  nlinarith

variable [T : Transc (Fl M)]

/-- node `i` of `powspace(a, b, n, p)` as the code computes it:
`a + (b - a) * powf(i as f64 / (n as f64 - 1.0), p)` -/
noncomputable def powNode (a b : Fl M) (n : Nat) (p : Fl M) (i : Nat) : Fl M :=
  a + (b - a) * Transc.powf (Transc.ofNat i / (Transc.ofNat n - 1)) p

/-- (structural) `powspace` with a non-zero computed `n as f64 - 1.0` lists the computed nodes -/
theorem powspace_ok_fl (a b p : Fl M) (n : Nat) (hd : (Transc.ofNat n - 1 : Fl M).val ≠ 0) :
    Vec.powspace a b n p = .ok (Array.ofFn (n := n) fun i => powNode a b n p i.val) := by
  unfold Vec.powspace
  rw [mapM_ok_arr _ _ (fun i : Nat => powNode a b n p i)]
  · congr 1
    apply Array.ext
    · simp
    · intro i h1 h2
      simp
  · intro i _
    simp only [divM, hd, if_false, bind, Except.bind, pure, Except.pure]
    rfl

/-- size `0`: the closure is never called -/
theorem powspace_zero_size_fl (a b p : Fl M) : Vec.powspace a b 0 p = .ok #[] := by
  unfold Vec.powspace
  rw [mapM_ok_arr _ _ (fun i : Nat => powNode a b 0 p i)]
  · simp
  · intro i hi
    simp at hi

/-- the rounded abscissa `fl(i/(n-1))` of node `i` -/
noncomputable def powT (M' : FlModel) (n i : Nat) : ℝ := M'.fl ((i : ℝ) / ((n : ℝ) - 1))

theorem powT_err (n i : Nat) :
    |powT M n i - (i : ℝ) / ((n : ℝ) - 1)| ≤ M.u * |(i : ℝ) / ((n : ℝ) - 1)| := M.fl_err _

/-- **node `i` of `powspace`**, for a `powf` with relative error `≤ u` (`hpowf`): with the rounded
abscissa `τ_i = fl(i/(n-1))` (`powT_err`: relative error `≤ u`) and `X_i = a + (b-a) τ_i^p`,
`|x_i − X_i| ≤ u |X_i| + (1+u) gam 3 · |(b-a) τ_i^p|`
(three roundings in the increment — `b - a`, `powf`, the product — and one in the addition).
The rounding of the abscissa is NOT propagated through `t ↦ t^p` (its amplification factor is the
exponent `p`), it is part of the statement. -/
theorem powNode_rounding
    (hpowf : ∀ t q : Fl M, |(Transc.powf t q).val - t.val ^ q.val| ≤ M.u * |t.val ^ q.val|)
    {n i : Nat} (hc : ExactCasts M n) (hi : i ≤ n) (a b p : Fl M) :
    |(powNode a b n p i).val - (a.val + (b.val - a.val) * powT M n i ^ p.val)|
      ≤ M.u * |a.val + (b.val - a.val) * powT M n i ^ p.val|
        + (1 + M.u) * M.gam 3 * |(b.val - a.val) * powT M n i ^ p.val| := by
  have hd := hc.den
  have ht : (Transc.ofNat i / (Transc.ofNat n - 1) : Fl M).val = powT M n i := by
    rw [Fl.div_val, hd, hc.1 i hi, powT]
  have hv : (powNode a b n p i).val = M.fl (a.val + M.fl (M.fl (b.val - a.val)
      * (Transc.powf (Transc.ofNat i / (Transc.ofNat n - 1)) p).val)) := rfl
  rw [hv]
  have h1 : |M.fl (b.val - a.val) - (b.val - a.val)| ≤ M.gam 1 * |b.val - a.val| := by
    rw [M.gam_one]; exact M.fl_err _
  have h2 : |(Transc.powf (Transc.ofNat i / (Transc.ofNat n - 1)) p).val - powT M n i ^ p.val|
      ≤ M.gam 1 * |powT M n i ^ p.val| := by
    have := hpowf (Transc.ofNat i / (Transc.ofNat n - 1)) p
    rwa [ht, ← M.gam_one] at this
  have h3 := fl_rel_gam (rel_mul h1 h2)
  exact fl_add_rel (M := M) (A := a.val) h3

/-- **`powspace(a, b, n, p)` over the rounded reals**, `n ≥ 2`, exact casts, `powf` with relative
error `≤ u`, `a` and `1` representable: the call succeeds with `n` nodes,
* for `p ≠ 0` the first node is EXACTLY `a`,
* the last node satisfies `|x_{n-1} − b| ≤ u |b| + (1+u) gam 3 |b − a| ≤ gam 4 · (|a| + |b|)`,
* every node satisfies the bound of `powNode_rounding`. -/
theorem powspace_fl
    (hpowf : ∀ t q : Fl M, |(Transc.powf t q).val - t.val ^ q.val| ≤ M.u * |t.val ^ q.val|)
    {n : Nat} (hc : ExactCasts M n) (hn : 2 ≤ n) (a b p : Fl M) (ha : M.Rep a.val)
    (h1 : M.Rep 1) :
    ∃ v, Vec.powspace a b n p = .ok v ∧ v.size = n ∧
      (p.val ≠ 0 → (v.getD 0 0).val = a.val) ∧
      |(v.getD (n - 1) 0).val - b.val| ≤ M.u * |b.val| + (1 + M.u) * M.gam 3 * |b.val - a.val| ∧
      |(v.getD (n - 1) 0).val - b.val| ≤ M.gam 4 * (|a.val| + |b.val|) ∧
      ∀ i, i < n →
        |(v.getD i 0).val - (a.val + (b.val - a.val) * powT M n i ^ p.val)|
          ≤ M.u * |a.val + (b.val - a.val) * powT M n i ^ p.val|
            + (1 + M.u) * M.gam 3 * |(b.val - a.val) * powT M n i ^ p.val| := by
  have hn1 : (0 : ℝ) < (n : ℝ) - 1 := by
    have : (2 : ℝ) ≤ (n : ℝ) := by exact_mod_cast hn
    linarith
  have hd : (Transc.ofNat n - 1 : Fl M).val ≠ 0 := by rw [hc.den]; exact hn1.ne'
  have hel : ∀ i, i < n →
      (Array.ofFn (n := n) fun i => powNode a b n p i.val).getD i 0 = powNode a b n p i := by
    intro i hi
    simp [Array.getD, hi]
  have hT1 : powT M n (n - 1) = 1 := by
    have : ((n - 1 : ℕ) : ℝ) = (n : ℝ) - 1 := by
      rw [Nat.cast_sub (by omega)]; simp
    rw [powT, this, div_self hn1.ne']
    exact h1
  have hlast : |(powNode a b n p (n - 1)).val - b.val|
      ≤ M.u * |b.val| + (1 + M.u) * M.gam 3 * |b.val - a.val| := by
    have := powNode_rounding hpowf hc (by omega : n - 1 ≤ n) a b p
    rw [hT1, Real.one_rpow, mul_one] at this
    have e : a.val + (b.val - a.val) = b.val := by ring
    rwa [e] at this
  refine ⟨_, powspace_ok_fl a b p n hd, by simp, ?_, ?_, ?_, ?_⟩
  · intro hp
    rw [hel 0 (by omega)]
    have hz : (Transc.ofNat 0 / (Transc.ofNat n - 1) : Fl M).val = 0 := by
      rw [Fl.div_val, hc.1 0 (Nat.zero_le _)]; simp [M.fl_zero]
    have hw : (Transc.powf (Transc.ofNat 0 / (Transc.ofNat n - 1) : Fl M) p).val = 0 := by
      have := hpowf (Transc.ofNat 0 / (Transc.ofNat n - 1)) p
      rw [hz, Real.zero_rpow hp, abs_zero, mul_zero, sub_zero] at this
      exact abs_nonpos_iff.mp this
    have hv : (powNode a b n p 0).val = M.fl (a.val + M.fl (M.fl (b.val - a.val)
        * (Transc.powf (Transc.ofNat 0 / (Transc.ofNat n - 1)) p).val)) := rfl
    rw [hv, hw, mul_zero, M.fl_zero, add_zero]
    exact ha
  · rw [hel (n - 1) (by omega)]; exact hlast
  · rw [hel (n - 1) (by omega)]
    refine hlast.trans ?_
    have hg4 : M.u + (1 + M.u) * M.gam 3 = M.gam 4 := by rw [M.gam_succ 3]; ring
    have hba : |b.val - a.val| ≤ |a.val| + |b.val| := by
      have := abs_sub b.val a.val; linarith
    have hu := M.u_nonneg
    have hg := M.gam_nonneg 3
    have := mul_le_mul_of_nonneg_left hba (by positivity : 0 ≤ (1 + M.u) * M.gam 3)
    have := abs_nonneg a.val
    rw [← hg4]
    nlinarith
  · intro i hi
    rw [hel i hi]
    exact powNode_rounding hpowf hc hi.le a b p

/-- **monotonicity of the computed `powspace`** needs a monotone `fl` AND a `powf` that is
monotone in its first argument on `[0, ∞)` (`hpm`; true of a correctly rounded `powf` with
exponent `p ≥ 0`, see `flTransc_powf_mono`): for `a ≤ b` the computed nodes are non-decreasing. -/
theorem powspace_monotone_fl (hmono : Monotone M.fl) (p : Fl M)
    (hpm : ∀ s t : Fl M, 0 ≤ s.val → s.val ≤ t.val →
      (Transc.powf s p).val ≤ (Transc.powf t p).val)
    {n : Nat} (hc : ExactCasts M n) (hn : 2 ≤ n) (a b : Fl M) (hab : a.val ≤ b.val) :
    ∃ v, Vec.powspace a b n p = .ok v ∧ v.size = n ∧
      ∀ i j, i ≤ j → j < n → (v.getD i 0).val ≤ (v.getD j 0).val := by
  have hn1 : (0 : ℝ) < (n : ℝ) - 1 := by
    have : (2 : ℝ) ≤ (n : ℝ) := by exact_mod_cast hn
    linarith
  have hd : (Transc.ofNat n - 1 : Fl M).val ≠ 0 := by rw [hc.den]; exact hn1.ne'
  have hel : ∀ i, i < n →
      (Array.ofFn (n := n) fun i => powNode a b n p i.val).getD i 0 = powNode a b n p i := by
    intro i hi
    simp [Array.getD, hi]
  refine ⟨_, powspace_ok_fl a b p n hd, by simp, ?_⟩
  intro i j hij hj
  rw [hel i (by omega), hel j hj]
  have hv : ∀ k, (powNode a b n p k).val = M.fl (a.val + M.fl (M.fl (b.val - a.val)
      * (Transc.powf (Transc.ofNat k / (Transc.ofNat n - 1)) p).val)) := fun _ => rfl
  have ht : ∀ k, k ≤ n → (Transc.ofNat k / (Transc.ofNat n - 1) : Fl M).val = powT M n k := by
    intro k hk
    rw [Fl.div_val, hc.den, hc.1 k hk, powT]
  rw [hv, hv]
  have h0 : 0 ≤ M.fl (b.val - a.val) := by
    have := hmono (sub_nonneg.mpr hab)
    rwa [M.fl_zero] at this
  have hc' : (i : ℝ) ≤ (j : ℝ) := by exact_mod_cast hij
  have hti : 0 ≤ powT M n i := by
    have := hmono (div_nonneg (Nat.cast_nonneg i) hn1.le)
    rwa [M.fl_zero] at this
  have htij : powT M n i ≤ powT M n j := hmono (div_le_div_of_nonneg_right hc' hn1.le)
  have hw := hpm (Transc.ofNat i / (Transc.ofNat n - 1)) (Transc.ofNat j / (Transc.ofNat n - 1))
    (by rw [ht i (by omega)]; exact hti) (by rw [ht i (by omega), ht j (by omega)]; exact htij)
  apply hmono
  have := hmono (mul_le_mul_of_nonneg_left hw h0)
  linarith

end Rounding

/-! ### models: where the hypotheses hold, and where monotonicity fails -/

section Rounding
open Fl
attribute [local instance] C03.flTransc

/-- with the instance `C03.flTransc M` (`n as f64` = the integer rounded once) the casts are exact
as soon as the integers `0 … n` are representable -/
theorem exactCasts_flTransc (M : FlModel) {n : Nat} (hn : 1 ≤ n)
    (hrep : ∀ k : ℕ, k ≤ n → M.Rep (k : ℝ)) : ExactCasts M n := by
  refine ⟨fun k hk => hrep k hk, ?_⟩
  have : (n : ℝ) - 1 = ((n - 1 : ℕ) : ℝ) := by rw [Nat.cast_sub hn]; simp
  rw [this]
  exact hrep (n - 1) (by omega)

/-- exact arithmetic -/
theorem exactCasts_exact {n : Nat} (hn : 1 ≤ n) : ExactCasts FlModel.exact n :=
  exactCasts_flTransc _ hn (fun _ _ => rfl)

/-- the binary round-to-nearest format with `p + 1` significant bits: the casts of
`linspace(a, b, n)` are exact for `n < 2^(p+1)` (binary64: `n < 2⁵³`) -/
theorem exactCasts_roundBits (p : Nat) {n : Nat} (hn : 1 ≤ n) (h : n < 2 ^ (p + 1)) :
    ExactCasts (FlModel.roundBits p) n := by
  apply exactCasts_flTransc _ hn
  intro k hk
  have := FlModel.roundBits_rep_int p (k : ℤ) (by
    rw [abs_of_nonneg (by positivity)]
    have : k < 2 ^ (p + 1) := by omega
    exact_mod_cast this)
  simpa using this

/-- `C03.flTransc`: `sqrt` is the real square root rounded once -/
theorem flTransc_sqrt (M : FlModel) (s : Fl M) :
    |(Transc.sqrt s).val - Real.sqrt s.val| ≤ M.u * Real.sqrt s.val := by
  have := M.fl_err (Real.sqrt s.val)
  rwa [abs_of_nonneg (Real.sqrt_nonneg _)] at this

/-- `C03.flTransc`: `powf` is `Real.rpow` rounded once -/
theorem flTransc_powf (M : FlModel) (t q : Fl M) :
    |(Transc.powf t q).val - t.val ^ q.val| ≤ M.u * |t.val ^ q.val| := M.fl_err _

/-- `C03.flTransc`: `powf(|x|, 1.0 + 1.0)` is `x²` rounded once, provided `2` is representable -/
theorem flTransc_pow2 (M : FlModel) (h2 : M.Rep 2) (x : Fl M) :
    |(Transc.powf (Transc.fabs x) ((1 : Fl M) + 1)).val - x.val ^ 2| ≤ M.u * x.val ^ 2 := by
  have e : (Transc.powf (Transc.fabs x) ((1 : Fl M) + 1)).val
      = M.fl (|x.val| ^ (M.fl (1 + 1) : ℝ)) := rfl
  have h11 : M.fl (1 + 1) = 2 := by rw [one_add_one_eq_two]; exact h2
  rw [e, h11, Real.rpow_two, sq_abs]
  have := M.fl_err (x.val ^ 2)
  rwa [abs_sq] at this

/-- `C03.flTransc` with a monotone `fl`: `powf(·, p)` is monotone on `[0, ∞)` for `p ≥ 0` -/
theorem flTransc_powf_mono (M : FlModel) (hmono : Monotone M.fl) (p : Fl M) (hp : 0 ≤ p.val)
    (s t : Fl M) (hs : 0 ≤ s.val) (hst : s.val ≤ t.val) :
    (Transc.powf s p).val ≤ (Transc.powf t p).val :=
  hmono (Real.rpow_le_rpow hs hst hp)

/-- a model with unit roundoff `u` that is exact everywhere except at the single point `5`, which
it rounds DOWN by the full relative error: `fl 5 = 5 (1 - u)`.  It satisfies the standard model
but `fl` is not monotone (`fl (5 - 5u/2) = 5 - 5u/2 > fl 5`). -/
noncomputable def bump (u : ℝ) (hu : 0 ≤ u) : FlModel := by
  classical
  exact
  { u := u
    fl := fun x => if x = 5 then 5 * (1 - u) else x
    u_nonneg := hu
    fl_err := fun x => by
      split
      · rename_i h
        subst h
        have : 5 * (1 - u) - 5 = -(u * 5) := by ring
        rw [this, abs_neg, abs_mul, abs_of_nonneg hu]
      · simp only [sub_self, abs_zero]; positivity }

theorem bump_fl_ne (u : ℝ) (hu : 0 ≤ u) {x : ℝ} (hx : x ≠ 5) : (bump u hu).fl x = x := by
  classical
  simp [bump, hx]

theorem bump_fl_five (u : ℝ) (hu : 0 ≤ u) : (bump u hu).fl 5 = 5 * (1 - u) := by
  classical
  simp [bump]

/-- **monotonicity of the computed `linspace` does NOT follow from the standard model**: for every
`0 < u < 1` the model `bump u` (unit roundoff `u`, exact casts, representable end points
`a = 5(1-u) < b = 5`) computes the three nodes `5 - 5u, 5 - 5u/2, 5 - 5u`: the last node is below
the middle one. -/
theorem linspace_not_monotone (u : ℝ) (h0 : 0 < u) (h1 : u < 1) :
    let M := bump u h0.le
    let a : Fl M := ⟨5 * (1 - u)⟩
    let b : Fl M := ⟨5⟩
    M.u = u ∧ ExactCasts M 3 ∧ M.Rep a.val ∧ a.val < b.val ∧
      ∃ v, Vec.linspace a b 3 = .ok v ∧ (v.getD 2 0).val < (v.getD 1 0).val := by
  intro M a b
  have key : ∀ x : ℝ, x ≠ 5 → M.fl x = x := fun x hx => bump_fl_ne u h0.le hx
  have hc : ExactCasts M 3 := by
    apply exactCasts_flTransc M (by omega)
    intro k hk
    apply key
    have : (k : ℝ) ≤ 3 := by exact_mod_cast hk
    intro h; linarith
  have ha : M.Rep a.val := key _ (by show 5 * (1 - u) ≠ 5; intro h; linarith)
  refine ⟨rfl, hc, ha, by show 5 * (1 - u) < (5 : ℝ); linarith, ?_⟩
  have hd : (Transc.ofNat 3 - 1 : Fl M).val ≠ 0 := by rw [hc.den]; norm_num
  have hel : ∀ i, i < 3 →
      (Array.ofFn (n := 3) fun i => linNode a b 3 i.val).getD i 0 = linNode a b 3 i := by
    intro i hi
    simp [Array.getD, hi]
  refine ⟨_, linspace_ok_fl a b 3 hd, ?_⟩
  rw [hel 2 (by omega), hel 1 (by omega), linNode_val hc (by omega), linNode_val hc (by omega)]
  have e0 : b.val - a.val = 5 * u := by show (5 : ℝ) - 5 * (1 - u) = 5 * u; ring
  have e1 : M.fl (5 * u) = 5 * u := key _ (by intro h; linarith)
  have e2 : 5 * u / (((3 : ℕ) : ℝ) - 1) = 5 * u / 2 := by norm_num
  have e3 : M.fl (5 * u / 2) = 5 * u / 2 := key _ (by intro h; linarith)
  have e4 : 5 * u / 2 * ((2 : ℕ) : ℝ) = 5 * u := by push_cast; ring
  have e5 : 5 * u / 2 * ((1 : ℕ) : ℝ) = 5 * u / 2 := by push_cast; ring
  have e6 : a.val + 5 * u = 5 := by show 5 * (1 - u) + 5 * u = (5 : ℝ); ring
  have e7 : M.fl (a.val + 5 * u / 2) = a.val + 5 * u / 2 :=
    key _ (by show 5 * (1 - u) + 5 * u / 2 ≠ (5 : ℝ); intro h; linarith)
  rw [e0, e1, e2, e3, e4, e5, e1, e3, e6, e7, bump_fl_five]
  show 5 * (1 - u) < 5 * (1 - u) + 5 * u / 2
  linarith

end Rounding

/-! ### non-vacuity -/

section Examples
open Fl
attribute [local instance] C03.flTransc

/-- exact arithmetic is a model: there `sum_rounding` says the computed sum is the exact sum -/
example (a : Array (Fl FlModel.exact)) (h : 0 < a.size) :
    ∃ r, Vec.sum a = .ok r ∧ r.val = exactSum a := by
  obtain ⟨r, hr, hr'⟩ := sum_rounding a h
  refine ⟨r, hr, ?_⟩
  have hg : FlModel.exact.gam a.size = 0 := by simp [FlModel.gam, FlModel.exact]
  rw [hg, zero_mul] at hr'
  exact sub_eq_zero.mp (abs_nonpos_iff.mp hr')

/-- a model that really rounds (`fl x = (1 + 2⁻⁵³) x`): the bound of `norm1_rounding` is ATTAINED
for the one-element vector `[x]`: computed `(1+u)|x|`, error `gam 1 · |x|` -/
example (x : ℝ) :
    let M := FlModel.scale (2 ^ (-53 : ℤ)) (by positivity)
    let a : Array (Fl M) := #[⟨x⟩]
    |(Vec.norm1 a).val - absSum a| = M.gam a.size * absSum a := by
  intro M a
  have hv : (Vec.norm1 a).val = (1 + M.u) * (0 + |x|) := by
    show (1 + M.u) * (0 + (ScalarExt.mag (⟨x⟩ : Fl M)).val) = _
    rw [Fl.mag_val]
  have e2 : absSum a = |x| := by simp [absSum, a]
  have hu : 0 ≤ M.u := M.u_nonneg
  rw [hv, e2]
  show _ = M.gam 1 * |x|
  rw [M.gam_one]
  have : (1 + M.u) * (0 + |x|) - |x| = M.u * |x| := by ring
  rw [this, abs_mul, abs_abs, abs_of_nonneg hu]

/-- the hypothesis `u ≤ 1` of `norm1_nonneg_fl` cannot be dropped: `fl x = -x` satisfies the
standard model with `u = 2`, and there the computed `norm_1` of `[1]` is `-1` -/
example :
    let M : FlModel := ⟨2, fun x => -x, by norm_num, fun x => by
      have : -x - x = -(2 * x) := by ring
      rw [this, abs_neg, abs_mul]; norm_num⟩
    (Vec.norm1 (#[⟨1⟩] : Array (Fl M))).val = -1 := by
  intro M
  show -(0 + (ScalarExt.mag (⟨1⟩ : Fl M)).val) = -1
  rw [Fl.mag_val]; norm_num

/-- `normInf_exact` with the instance `flTransc` (its `fabs` is exact by `rfl`) in an ARBITRARY
model: `‖[3, -7, 2]‖∞ = 7` exactly -/
example (M : FlModel) : ∃ m, Vec.normInf (#[⟨3⟩, ⟨-7⟩, ⟨2⟩] : Array (Fl M)) = .ok m ∧ m.val = 7 := by
  obtain ⟨m, hm, hmax⟩ := normInf_exact (M := M) (fun _ => rfl) #[⟨3⟩, ⟨-7⟩, ⟨2⟩] (by simp)
  refine ⟨m, hm, ?_⟩
  have h7 : IsMaxAbsFl (#[⟨3⟩, ⟨-7⟩, ⟨2⟩] : Array (Fl M)) 7 := by
    constructor
    · intro i hi
      have hi' : i < 3 := by simpa using hi
      rcases (by omega : i = 0 ∨ i = 1 ∨ i = 2) with rfl | rfl | rfl <;>
        simp [Array.getD] <;> norm_num [abs_le]
    · exact ⟨1, by simp, by simp [Array.getD]⟩
  exact hmax.unique h7

/-- `linspace_fl` in the binary64-significand format `FlModel.binary64 = roundBits 52` for
`a = 0, b = 1, n = 11`: all hypotheses hold (`0` is representable, `11 < 2⁵³`); first node exactly
`0`, last node within `gam 4` of `1` -/
example : ∃ v, Vec.linspace (⟨0⟩ : Fl FlModel.binary64) ⟨1⟩ 11 = .ok v ∧ v.size = 11 ∧
    (v.getD 0 0).val = 0 ∧ |(v.getD 10 0).val - 1| ≤ FlModel.binary64.gam 4 := by
  have hc : ExactCasts FlModel.binary64 11 := exactCasts_roundBits 52 (by omega) (by norm_num)
  obtain ⟨v, hv, hs, h0, _, hl, _⟩ := linspace_fl hc (by omega) (⟨0⟩ : Fl FlModel.binary64) ⟨1⟩
    FlModel.binary64.rep_zero
  refine ⟨v, hv, hs, h0, ?_⟩
  simpa using hl

/-- the hypotheses `hpow2`, `hsqrt` of the `norm_2` theorems hold for `flTransc` in the
binary64-significand format (`2` is representable): `fl‖[3, 4]‖₂` is `5` up to `gam 4` -/
example : |(Vec.norm2 (#[⟨3⟩, ⟨4⟩] : Array (Fl FlModel.binary64))).val - 5|
    ≤ FlModel.binary64.gam 4 * 5 := by
  have h2 : FlModel.binary64.Rep 2 := by
    have : (FlModel.roundBits 52).Rep ((2 : ℤ) : ℝ) := FlModel.roundBits_rep_int 52 2 (by norm_num)
    simpa [FlModel.binary64] using this
  have h := norm2_rounding (flTransc_pow2 _ h2) (flTransc_sqrt _)
    (#[⟨3⟩, ⟨4⟩] : Array (Fl FlModel.binary64))
  have e : exactNorm2 (#[⟨3⟩, ⟨4⟩] : Array (Fl FlModel.binary64)) = 5 := by
    have : ∑ i ∈ Finset.range 2, ((#[⟨3⟩, ⟨4⟩] : Array (Fl FlModel.binary64)).getD i 0).val ^ 2
        = 5 ^ 2 := by
      simp [Finset.sum_range_succ, Array.getD]; norm_num
    rw [exactNorm2]
    show Real.sqrt (∑ i ∈ Finset.range 2, _) = 5
    rw [this, Real.sqrt_sq (by norm_num)]
  rw [e] at h
  exact h

/-- `powspace_fl` in the binary64-significand format for `a = 0, b = 1, n = 11`, exponent `2`:
first node exactly `0`, last node within `gam 4` of `1` -/
example : ∃ v, Vec.powspace (⟨0⟩ : Fl FlModel.binary64) ⟨1⟩ 11 ⟨2⟩ = .ok v ∧ v.size = 11 ∧
    (v.getD 0 0).val = 0 ∧ |(v.getD 10 0).val - 1| ≤ FlModel.binary64.gam 4 := by
  have hc : ExactCasts FlModel.binary64 11 := exactCasts_roundBits 52 (by omega) (by norm_num)
  have h1 : FlModel.binary64.Rep 1 := by
    have : (FlModel.roundBits 52).Rep ((1 : ℤ) : ℝ) := FlModel.roundBits_rep_int 52 1 (by norm_num)
    simpa [FlModel.binary64] using this
  obtain ⟨v, hv, hs, h0, _, hl, _⟩ := powspace_fl (flTransc_powf _) hc (by omega)
    (⟨0⟩ : Fl FlModel.binary64) ⟨1⟩ ⟨2⟩ FlModel.binary64.rep_zero h1
  refine ⟨v, hv, hs, h0 (by norm_num), ?_⟩
  simpa using hl

/-- `Monotone fl` is satisfiable by a model that really rounds: `fl x = (1 + u) x` -/
example (u : ℝ) (hu : 0 ≤ u) : Monotone (FlModel.scale u hu).fl := by
  intro x y hxy
  exact mul_le_mul_of_nonneg_left hxy (by linarith)

end Examples

end Ohsl.Props.C15
