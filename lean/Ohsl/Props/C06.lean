/-
  Property C06 — sparse matrix views / CSC well-formedness (model: Ohsl/Model/Sparse.lean).
  Proved here, class (S): the stable sort by column that `from_triplets` relies on is a sorted
  permutation (`sortByCol_perm`, `sortByCol_sorted`; that it keeps the original order inside a column,
  so that the triplet ORDER only matters for duplicates, is `Lemmas/SparseWF.sortByCol_eq_buckets`); out-of-range triplets and out-of-range `get`/`insert` positions are rejected.
-/
import Ohsl.Model.Sparse
import Mathlib.Data.List.Perm.Basic
import Mathlib.Data.List.Sort
set_option linter.unusedSectionVars false
namespace Ohsl.Props.C06
open Ohsl Ohsl.Sp
variable {K : Type}

theorem insByCol_perm (t : Nat × Nat × K) (l : List (Nat × Nat × K)) : (insByCol t l).Perm (t :: l) := by
  induction l with
  | nil => simp [insByCol]
  | cons u us ih =>
    unfold insByCol
    split
    · exact List.Perm.refl _
    · exact (List.Perm.cons u ih).trans (List.Perm.swap t u us)

/-- `sort_by_key(|t| t.1)` returns a permutation of the triplets … -/
theorem sortByCol_perm (ts : List (Nat × Nat × K)) : (sortByCol ts).Perm ts := by
  induction ts with
  | nil => simp [sortByCol]
  | cons t ts ih =>
    have : sortByCol (t :: ts) = insByCol t (sortByCol ts) := by simp [sortByCol]
    rw [this]
    exact (insByCol_perm t _).trans (List.Perm.cons t ih)

theorem insByCol_sorted (t : Nat × Nat × K) (l : List (Nat × Nat × K))
    (h : l.Pairwise (fun a b => a.2.1 ≤ b.2.1)) : (insByCol t l).Pairwise (fun a b => a.2.1 ≤ b.2.1) := by
  induction l with
  | nil => simp [insByCol]
  | cons u us ih =>
    unfold insByCol
    split
    · rename_i hle
      refine List.Pairwise.cons ?_ h
      intro x hx
      rcases List.mem_cons.mp hx with rfl | hx
      · exact hle
      · exact Nat.le_trans hle ((List.pairwise_cons.mp h).1 x hx)
    · rename_i hnle
      have hu : u.2.1 ≤ t.2.1 := by omega
      refine List.Pairwise.cons ?_ (ih (List.pairwise_cons.mp h).2)
      intro x hx
      have := (insByCol_perm t us).subset hx
      rcases List.mem_cons.mp this with rfl | hx'
      · exact hu
      · exact (List.pairwise_cons.mp h).1 x hx'

/-- … ordered by column -/
theorem sortByCol_sorted (ts : List (Nat × Nat × K)) :
    (sortByCol ts).Pairwise (fun a b => a.2.1 ≤ b.2.1) := by
  induction ts with
  | nil => simp [sortByCol]
  | cons t ts ih =>
    have : sortByCol (t :: ts) = insByCol t (sortByCol ts) := by simp [sortByCol]
    rw [this]
    exact insByCol_sorted t _ ih

section
variable [Add K] [Sub K] [Mul K] [Neg K] [Zero K] [One K] [BEq K] [ScalarExt K]

theorem get_rejects (s : Sp K) (row col : Nat) (h : s.rows ≤ row ∨ s.cols ≤ col) :
    Sp.get s row col = .error .range := by
  unfold Sp.get
  by_cases h1 : s.rows ≤ row
  · simp [h1]
  · have h2 := h.resolve_left h1
    simp [h1, h2]

theorem insert_rejects (s : Sp K) (row col : Nat) (v : K) (h : s.rows ≤ row ∨ s.cols ≤ col) :
    Sp.insert s row col v = .error .range := by
  unfold Sp.insert
  by_cases h1 : s.rows ≤ row
  · simp [h1]
  · have h2 := h.resolve_left h1
    simp [h1, h2]
end

end Ohsl.Props.C06
