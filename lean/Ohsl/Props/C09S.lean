/-
  Property C09S — the accuracy clause of C09 for what the driver actually runs: the four iterative
  solvers AS METHODS of the sparse matrix, `Sp.solveIter s m b x0 maxIter tol Vec.norm2`
  (Ohsl/Model/KrylovSp.lean), on arrays, with the model's own `Vec.norm2`.
  C09A proves the clause for an abstract dense matrix and the function-level solver model; this
  file closes the link to the sparse ARRAY layer.

  Class (R): scalars ℝ with the real interpretation `Ohsl.RealI.transc` (`sqrt`, `le`, `fabs`,
  `powf`), `s : Sp ℝ` a well-formed square compressed-sparse-column storage of order `n`
  (`C08.SqWF s n`), `b x0 : Array ℝ`.

  * `spMat s n : Matrix (Fin n) (Fin n) ℝ` — the matrix DENOTED by the storage: entry `(i, j)` is
    `Sp.entry s i j`, the sum of the stored values at position `(i, j)` (duplicates summed; the
    real-scalar analogue of C08G's `sqMat`).  `sqLin_eq_mulVec`: C08C's linear map of the storage is
    `spMat s n *ᵥ ·`; `multiply_toFn`: the CODE's product `Sp.multiply s v` denotes
    `spMat s n *ᵥ toFn n v`; `toFn_trueResid`: C08C's true residual denotes `b − A x`.
  * `norm2_eq_enorm2`: the model's `Vec.norm2` (`sqrt (Σ powf (fabs aᵢ) 2)`, left fold) of an array
    of size `n` IS the Euclidean norm `√(v ⬝ᵥ v)` (= Mathlib's `‖·‖` on `EuclideanSpace`,
    `C09.enorm2_eq_norm`) of the function `toFn n a` it denotes; `guardNorm_norm2_of_ne`,
    `guardNorm_norm2_zero`: the guarded divisor is `‖b‖₂` for `b ≠ 0` and `1` for `b = 0`.
  * `solveIter_success_test`: a reported success of ANY of the four methods certifies the model's
    test `‖b − A x‖₂ / guard ‖b‖₂ ≤ tol` on the denoted vectors (from `C08.solveIter_success_sound`;
    BiCGSTAB's strict exit `< tol` implies `≤ tol`), and `b`, `x0`, `out.x` have size `n`.
  * `solveIter_success_forward_error_of_bounds`, `solveIter_success_forward_error`: `A = spMat s n`
    invertible, any method, any guess, budget and `tol` (no sign hypothesis), if the call returns
    `.ok out` with `out.ok = true` then
      `‖out.x − A⁻¹ b‖₂ ≤ ‖A⁻¹‖₂·tol·‖b‖₂ ≤ (‖A⁻¹‖₂·‖A‖₂)·tol·‖A⁻¹ b‖₂`   for `b ≠ 0`,
      `‖out.x‖₂ ≤ ‖A⁻¹‖₂·tol`                                              for `b = 0`
    (`‖·‖₂` of matrices: Mathlib's `ℓ²` operator norm; `…_of_bounds`: any bound constants).
    The hypotheses `b.size = x0.size = n` are not needed: they follow from the call returning a value.
  * `fnOps_eq_spdOps`: C08C's function-level image of the array operations, at `norm2 = Vec.norm2`,
    IS C09G's `spdOps (spMat s n)` (product, transposed product, dot product, norm), so the array
    run and the dense function-level run are related by C08C's simulation: `solveIter_sim_dense`
    (all four methods: whatever `Sp.solveIter` returns has the flag, count and error of
    `denseRun A m (toFn b) (toFn x0) …`, i.e. of C09A's `solveCG/BiCG/BiCGSTAB/QMR (spdOps A) …`,
    and its array denotes that run's vector), `solveIter_runs_dense` (and it does return a value
    when the sizes are `n` and `itol ∈ {1,2}`), `solveCG_sim_dense`.
  * `solveIter_cg_spd`: `spMat s n` symmetric positive definite, `b`, `x0` of size `n`, `tol ≥ 0`,
    budget `≥ n`: `Sp.solveIter s .cg …` returns a value that reports success after at most `n`
    iterations and satisfies the forward error bound — the full C09 statement for `solve_cg` at the
    array level, exact real arithmetic.
  * examples: `spd2R` (the storage of `[[2,1],[1,2]]` used in C08C / C08G, over ℝ) is well formed,
    denotes `!![2,1;1,2]` (`spd2R_mat`), which is positive definite; `spd2R_runs`: each of the four
    methods (BiCG with `itol` 1 and 2) called on `b = [1,0]`, `x₀ = 0`, `tol = 1/2` returns a value
    reporting success in iteration 1 of its loop, so every hypothesis of
    `solveIter_success_forward_error` / `solveIter_cg_spd` is satisfied by a non-trivial run.
  NOT proved: that BiCG / BiCGSTAB / QMR do report success (as in C09A); anything about f64
  rounding (class F).
-/
import Ohsl.Props.C09A
import Ohsl.Props.C08K
import Ohsl.Props.C15N
import Mathlib.Algebra.BigOperators.Fin

set_option linter.unusedSectionVars false
set_option linter.unusedVariables false
set_option linter.unusedSimpArgs false

namespace Ohsl.Props.C09
open Ohsl Ohsl.Krylov Ohsl.Props.C08 Ohsl.Props.C07 Ohsl.CGTheory Matrix

/-! ### 1. the matrix denoted by a storage -/
section Denote

/-- the real matrix a square storage of order `n` denotes: entry `(i, j)` is the sum of the stored
    values at row `i` in the slots of column `j` (`Sp.entry`; duplicates are summed) -/
def spMat (s : Sp ℝ) (n : ℕ) : Matrix (Fin n) (Fin n) ℝ :=
  Matrix.of fun i j => Sp.entry s i.1 j.1

theorem spMat_apply (s : Sp ℝ) (n : ℕ) (i j : Fin n) : spMat s n i j = Sp.entry s i.1 j.1 := rfl

/-- C08C's linear map of the storage is multiplication by the denoted matrix -/
theorem sqLin_eq_mulVec {s : Sp ℝ} {n : ℕ} (hc : s.cols = n) (v : Fin n → ℝ) :
    sqLin s n v = spMat s n *ᵥ v := by
  funext i
  show Sp.mulF s (fun j => if hj : j < n then v ⟨j, hj⟩ else 0) i.1 = _
  rw [Sp.mulF_eq_entry, hc, Finset.sum_range]
  simp [Matrix.mulVec, dotProduct, spMat]

theorem sqLin_eq_mulVecLin {s : Sp ℝ} {n : ℕ} (hc : s.cols = n) :
    sqLin s n = Matrix.mulVecLin (spMat s n) :=
  LinearMap.ext fun v => by rw [sqLin_eq_mulVec hc]; rfl

/-- the true residual of C08C / C08K denotes `b − A x`, `A` the denoted matrix -/
theorem toFn_trueResid {s : Sp ℝ} {n : ℕ} (h : SqWF s n) (b x : Array ℝ) :
    toFn n (trueResid s n b x) = toFn n b - spMat s n *ᵥ toFn n x := by
  rw [← fn_resid_eq h b x, toFn_ofFn, sqLin_eq_mulVec h.cols]

theorem trueResid_size (s : Sp ℝ) (n : ℕ) (b x : Array ℝ) : (trueResid s n b x).size = n := by
  simp [trueResid]

/-- the CODE's sparse product denotes the dense product with the denoted matrix: on a well-formed
    square storage `Sp.multiply s v` returns an array of size `n` whose function is `A *ᵥ v` -/
theorem multiply_toFn {s : Sp ℝ} {n : ℕ} (h : SqWF s n) (v : Array ℝ) (hv : v.size = n) :
    ∃ r, Sp.multiply s v = .ok r ∧ r.size = n ∧ toFn n r = spMat s n *ᵥ toFn n v := by
  obtain ⟨wf, hr, hc⟩ := h
  refine ⟨_, multiply_eq wf v (hv.trans hc.symm), by simp [hr], ?_⟩
  subst hr
  rw [toFn_ofFn, ← sqLin_eq_mulVec hc]
  funext i
  show Sp.mulF s _ i.1 = Sp.mulF s _ i.1
  apply Sp.mulF_congr
  intro j hj
  have : j < s.rows := by rw [← hc] at *; exact hj
  simp [toFn, this]

/-- an array of size `n` denotes the zero function exactly when it is the array of `n` zeros -/
theorem toFn_eq_zero_iff {n : ℕ} (a : Array ℝ) (ha : a.size = n) :
    toFn n a = 0 ↔ a = Array.replicate n 0 := by
  constructor
  · intro h0
    rw [← ofFn_toFn a ha, h0]
    apply Array.ext_getElem?
    intro i
    rw [Array.getElem?_ofFn, Array.getElem?_replicate]
    split <;> simp
  · intro h0
    subst h0
    funext i
    simp [toFn, i.2]

end Denote

/-! ### 2. the model's `Vec.norm2` is the Euclidean norm -/
section Norm

/-- **the model's `norm_2` on arrays IS the Euclidean norm** of the denoted function (real
    interpretation: `sqrt = Real.sqrt`, `powf (fabs x) 2 = |x| ^ 2 = x²`, left fold = finite sum) -/
theorem norm2_eq_enorm2 {n : ℕ} (a : Array ℝ) (ha : a.size = n) :
    Vec.norm2 a = enorm2 (toFn n a) := by
  rw [Ohsl.Props.C15.norm2_eq, ha, Finset.sum_range]
  unfold enorm2 dotProduct toFn
  congr 1
  refine Finset.sum_congr rfl fun i _ => ?_
  simp [pow_two]

open scoped Matrix.Norms.L2Operator in
/-- … hence Mathlib's norm of the denoted point of Euclidean space -/
theorem norm2_eq_norm {n : ℕ} (a : Array ℝ) (ha : a.size = n) :
    Vec.norm2 a = ‖(WithLp.toLp 2 (toFn n a) : EuclideanSpace ℝ (Fin n))‖ := by
  rw [norm2_eq_enorm2 a ha, enorm2_eq_norm]

/-- the guarded divisor is `‖b‖₂` for a nonzero right-hand side … -/
theorem guardNorm_norm2_of_ne {n : ℕ} (b : Array ℝ) (hb : b.size = n) (hne : toFn n b ≠ 0) :
    guardNorm (Vec.norm2 b) = Vec.norm2 b := by
  rw [norm2_eq_enorm2 b hb]
  exact guardNorm_enorm2_of_ne hne

/-- … and `1` for the zero right-hand side -/
theorem guardNorm_norm2_zero {n : ℕ} (b : Array ℝ) (hb : b.size = n) (h0 : toFn n b = 0) :
    guardNorm (Vec.norm2 b) = 1 := by
  rw [norm2_eq_enorm2 b hb, h0]
  exact guardNorm_enorm2_zero

end Norm

/-! ### 3. reported success of `Sp.solveIter` ⇒ forward error ≤ tol · condition number -/
section Accuracy
variable {s : Sp ℝ} {n : ℕ}

/-- the call returning a value means the guards passed: both arrays have the order of the storage -/
theorem solveIter_sizes (h : SqWF s n) (m : Sp.Method) (b x0 : Array ℝ) (maxIter : ℕ) (tol : ℝ)
    (norm2 : Array ℝ → ℝ) (out : KOut ℝ (Array ℝ))
    (hrun : Sp.solveIter s m b x0 maxIter tol norm2 = .ok out) : b.size = n ∧ x0.size = n := by
  obtain ⟨⟨h1, h2, h3, _⟩, _⟩ := (solveIter_ok_iff s m b x0 maxIter tol norm2).1 ⟨out, hrun⟩
  have hb : b.size = n := by rw [← h1, h.rows]
  exact ⟨hb, by rw [← h3, hb]⟩

/-- **Method level, Euclidean reading.**  Whichever of the four methods is called with the model's
    `Vec.norm2`, a reported success certifies that the denoted vectors pass the model's test
    `‖b − A x‖₂ / guard ‖b‖₂ ≤ tol`, `A = spMat s n` (BiCGSTAB's strict full-step exit `< tol`
    implies it). -/
theorem solveIter_success_test (h : SqWF s n) (m : Sp.Method) (b x0 : Array ℝ) (maxIter : ℕ)
    (tol : ℝ) (out : KOut ℝ (Array ℝ))
    (hrun : Sp.solveIter s m b x0 maxIter tol Vec.norm2 = .ok out) (hok : out.ok = true) :
    b.size = n ∧ x0.size = n ∧ out.x.size = n ∧
    Transc.le (enorm2 (toFn n b - spMat s n *ᵥ toFn n out.x) / guardNorm (enorm2 (toFn n b))) tol
      = true := by
  obtain ⟨hb, hx⟩ := solveIter_sizes h m b x0 maxIter tol Vec.norm2 out hrun
  obtain ⟨hsz, ht⟩ := solveIter_success_sound h Vec.norm2 m b x0 maxIter tol out hrun hok
  have ht' : Transc.le (Vec.norm2 (trueResid s n b out.x) / guardNorm (Vec.norm2 b)) tol = true := by
    rcases ht with t | t
    · exact t
    · unfold stabLt at t
      rw [Bool.and_eq_true] at t
      exact t.1
  rw [norm2_eq_enorm2 _ (trueResid_size s n b out.x), norm2_eq_enorm2 b hb, toFn_trueResid h] at ht'
  exact ⟨hb, hx, hsz, ht'⟩

/-- **C09 accuracy clause at the array level, any bound constants.**  `A = spMat s n` invertible,
    `cinv` / `cM` bounds of `A⁻¹` / `A` in the Euclidean norm: if any of the four methods returns a
    value that reports success, the returned array is within `cinv·tol·‖b‖₂` of the direct solution
    `A⁻¹ b`, hence within `tol` times the condition number `cinv·cM` relative to `‖A⁻¹ b‖₂`
    (`b ≠ 0`); for `b = 0`, where the code divides by `1`, `‖x‖₂ ≤ cinv·tol`. -/
theorem solveIter_success_forward_error_of_bounds (h : SqWF s n) (hA : IsUnit (spMat s n).det)
    (cinv cM : ℝ) (hc : 0 ≤ cinv)
    (hcinv : ∀ v, enorm2 ((spMat s n)⁻¹ *ᵥ v) ≤ cinv * enorm2 v)
    (hcM : ∀ v, enorm2 (spMat s n *ᵥ v) ≤ cM * enorm2 v)
    (m : Sp.Method) (b x0 : Array ℝ) (maxIter : ℕ) (tol : ℝ) (out : KOut ℝ (Array ℝ))
    (hrun : Sp.solveIter s m b x0 maxIter tol Vec.norm2 = .ok out) (hok : out.ok = true) :
    out.x.size = n ∧
    (toFn n b ≠ 0 →
      enorm2 (toFn n out.x - (spMat s n)⁻¹ *ᵥ toFn n b) ≤ cinv * tol * enorm2 (toFn n b) ∧
      enorm2 (toFn n out.x - (spMat s n)⁻¹ *ᵥ toFn n b) ≤
        (cinv * cM) * tol * enorm2 ((spMat s n)⁻¹ *ᵥ toFn n b)) ∧
    (toFn n b = 0 → enorm2 (toFn n out.x) ≤ cinv * tol) := by
  obtain ⟨hb, hx, hsz, ht⟩ := solveIter_success_test h m b x0 maxIter tol out hrun hok
  refine ⟨hsz, fun hne => ?_, fun h0 => ?_⟩
  · exact forward_error_of_test (spMat s n) hA cinv cM hcinv hcM hne ht
  · rw [h0] at ht
    exact forward_error_of_test_zero (spMat s n) hA cinv hc hcinv ht

open scoped Matrix.Norms.L2Operator in
/-- **C09 accuracy clause for what the driver runs.**  `s` a well-formed square storage of order
    `n` whose denoted matrix `A = spMat s n` is invertible; any of the four methods, any guess,
    budget and tolerance: if `Sp.solveIter s m b x0 maxIter tol Vec.norm2 = .ok out` and
    `out.ok = true` then the returned array (of size `n`) agrees with the direct dense solution
    `A⁻¹ b` to within the tolerance times the spectral condition number `κ₂ = ‖A⁻¹‖₂·‖A‖₂`:
      `‖x − A⁻¹ b‖₂ ≤ ‖A⁻¹‖₂·tol·‖b‖₂ ≤ κ₂·tol·‖A⁻¹ b‖₂`  (`b ≠ 0`),  `‖x‖₂ ≤ ‖A⁻¹‖₂·tol` (`b = 0`). -/
theorem solveIter_success_forward_error (h : SqWF s n) (hA : IsUnit (spMat s n).det)
    (m : Sp.Method) (b x0 : Array ℝ) (maxIter : ℕ) (tol : ℝ) (out : KOut ℝ (Array ℝ))
    (hrun : Sp.solveIter s m b x0 maxIter tol Vec.norm2 = .ok out) (hok : out.ok = true) :
    out.x.size = n ∧
    (toFn n b ≠ 0 →
      enorm2 (toFn n out.x - (spMat s n)⁻¹ *ᵥ toFn n b) ≤
        ‖(spMat s n)⁻¹‖ * tol * enorm2 (toFn n b) ∧
      enorm2 (toFn n out.x - (spMat s n)⁻¹ *ᵥ toFn n b) ≤
        (‖(spMat s n)⁻¹‖ * ‖spMat s n‖) * tol * enorm2 ((spMat s n)⁻¹ *ᵥ toFn n b)) ∧
    (toFn n b = 0 → enorm2 (toFn n out.x) ≤ ‖(spMat s n)⁻¹‖ * tol) :=
  solveIter_success_forward_error_of_bounds h hA ‖(spMat s n)⁻¹‖ ‖spMat s n‖ (norm_nonneg _)
    (opNorm_bound _) (opNorm_bound _) m b x0 maxIter tol out hrun hok

/-- the certified residual bound read with the model's own `Vec.norm2` on arrays: for `b ≠ 0` a
    reported success gives `norm_2 (b − s·x) ≤ tol · norm_2 b` (`b − s·x` the true-residual array of
    C08C, which by `C08.code_resid_eq` is what the code's own `sub` / `multiply` compute), and then
    necessarily `0 ≤ tol` -/
theorem solveIter_success_residual (h : SqWF s n) (m : Sp.Method) (b x0 : Array ℝ) (maxIter : ℕ)
    (tol : ℝ) (out : KOut ℝ (Array ℝ))
    (hrun : Sp.solveIter s m b x0 maxIter tol Vec.norm2 = .ok out) (hok : out.ok = true)
    (hne : toFn n b ≠ 0) :
    Vec.norm2 (trueResid s n b out.x) ≤ tol * Vec.norm2 b ∧ 0 ≤ tol := by
  obtain ⟨hb, hx, hsz, ht⟩ := solveIter_success_test h m b x0 maxIter tol out hrun hok
  rw [norm2_eq_enorm2 _ (trueResid_size s n b out.x), norm2_eq_enorm2 b hb, toFn_trueResid h]
  exact residual_of_test (spMat s n) hne ht

end Accuracy

/-! ### 4. CG on a symmetric positive-definite storage: the full C09 statement on arrays -/
section SPD
variable {s : Sp ℝ} {n : ℕ}

/-- C08C's function-level image of the array operations, with the model's `Vec.norm2`, IS the
    record of C09G for the denoted matrix: `multiply` ↦ `A *ᵥ ·`, `transpose_multiply` ↦ `Aᵀ *ᵥ ·`,
    the fold of the products ↦ `⬝ᵥ`, `norm_2` ↦ `√(v ⬝ᵥ v)` -/
theorem fnOps_eq_spdOps (h : SqWF s n) : fnOps s n Vec.norm2 = spdOps (spMat s n) := by
  have hA : sqLin s n = Matrix.mulVecLin (spMat s n) := sqLin_eq_mulVecLin h.cols
  have hAt : (fun f : Fin n → ℝ =>
      toFn n ((C08.arrOps s n Vec.norm2).At (Array.ofFn f))) = ⇑(Matrix.mulVecLin (spMat s n)ᵀ) := by
    funext f
    rw [arrAt_eq h Vec.norm2 _ (by simp), toFn_ofFn]
    funext j
    rw [Sp.tmulF_eq_entry h.wf _ (by rw [h.cols]; exact j.2), h.rows, Finset.sum_range]
    simp only [Matrix.mulVecLin_apply, Matrix.mulVec, dotProduct, Matrix.transpose_apply, spMat_apply]
    refine Finset.sum_congr rfl fun i _ => ?_
    simp [Array.getElem?_ofFn]
  have hdot : (fun f g : Fin n → ℝ =>
      (C08.arrOps s n Vec.norm2).dot (Array.ofFn f) (Array.ofFn g)) = fun u v => u ⬝ᵥ v := by
    funext f g
    show (Array.zipWith (· * ·) (Array.ofFn f) (Array.ofFn g)).foldl (· + ·) 0 = _
    rw [Sp.foldl_zipWith_eq_sum _ _ n (by simp) (by simp), Finset.sum_range]
    simp [dotProduct, Array.getElem?_ofFn]
  have hnorm : (fun f : Fin n → ℝ => Vec.norm2 (Array.ofFn f)) =
      fun v => Real.sqrt (v ⬝ᵥ v) := by
    funext f
    rw [norm2_eq_enorm2 (n := n) _ (by simp), toFn_ofFn]
    rfl
  unfold fnOps spdOps
  rw [hA, hAt, hdot, hnorm]

/-- **array run vs dense function-level run** (CG): the executed `solveCG` on arrays and C09G's
    `solveCG (spdOps A)` on the denoted vectors report the same flag and count, and the returned
    array denotes the returned function -/
theorem solveCG_sim_dense (h : SqWF s n) (b x0 : Array ℝ) (hb : b.size = n) (hx : x0.size = n)
    (maxIter : ℕ) (tol : ℝ) :
    (solveCG (C08.arrOps s n Vec.norm2) b x0 maxIter tol).x.size = n ∧
    (solveCG (spdOps (spMat s n)) (toFn n b) (toFn n x0) maxIter tol).ok =
      (solveCG (C08.arrOps s n Vec.norm2) b x0 maxIter tol).ok ∧
    (solveCG (spdOps (spMat s n)) (toFn n b) (toFn n x0) maxIter tol).iters =
      (solveCG (C08.arrOps s n Vec.norm2) b x0 maxIter tol).iters ∧
    (solveCG (spdOps (spMat s n)) (toFn n b) (toFn n x0) maxIter tol).x =
      toFn n (solveCG (C08.arrOps s n Vec.norm2) b x0 maxIter tol).x := by
  have := cg_sim h Vec.norm2 b x0 hb hx maxIter tol
  rw [fnOps_eq_spdOps h] at this
  exact ⟨this.1, this.2.1, this.2.2.1, this.2.2.2.2⟩

/-- the dense function-level run of C09A / C09G that corresponds to a method of the sparse matrix:
    the solver model over `Fin n → ℝ` with `A v = M *ᵥ v`, `At v = Mᵀ *ᵥ v`, `dot = ⬝ᵥ`,
    `norm2 v = √(v ⬝ᵥ v)` (`spdOps M = euclidOps M (Mᵀ *ᵥ ·) (⬝ᵥ)`, `C09.spdOps_eq_euclidOps`) -/
noncomputable def denseRun (M : Matrix (Fin n) (Fin n) ℝ) (m : Sp.Method) (b x0 : Fin n → ℝ)
    (maxIter : ℕ) (tol : ℝ) : KOut ℝ (Fin n → ℝ) :=
  match m with
  | .cg => solveCG (spdOps M) b x0 maxIter tol
  | .bicg itol => solveBiCG (spdOps M) b x0 maxIter tol itol
  | .bicgstab => solveBiCGSTAB (spdOps M) b x0 maxIter tol
  | .qmr => solveQMR (spdOps M) b x0 maxIter tol

/-- **Simulation, all four methods.**  Whatever `Sp.solveIter` returns on a well-formed square
    storage is the array image of the dense function-level run on the denoted matrix and vectors:
    same flag, iteration count and reported error, and the returned array (of size `n`) denotes the
    returned function.  So every theorem of C09A / C09G about `solveCG (spdOps M) …`,
    `solveBiCG (euclidOps M …) …`, … transfers to the arrays the driver computes. -/
theorem solveIter_sim_dense (h : SqWF s n) (m : Sp.Method) (b x0 : Array ℝ) (maxIter : ℕ) (tol : ℝ)
    (out : KOut ℝ (Array ℝ)) (hrun : Sp.solveIter s m b x0 maxIter tol Vec.norm2 = .ok out) :
    out.x.size = n ∧
    (denseRun (spMat s n) m (toFn n b) (toFn n x0) maxIter tol).ok = out.ok ∧
    (denseRun (spMat s n) m (toFn n b) (toFn n x0) maxIter tol).iters = out.iters ∧
    (denseRun (spMat s n) m (toFn n b) (toFn n x0) maxIter tol).err = out.err ∧
    (denseRun (spMat s n) m (toFn n b) (toFn n x0) maxIter tol).x = toFn n out.x := by
  obtain ⟨hb, hx⟩ := solveIter_sizes h m b x0 maxIter tol Vec.norm2 out hrun
  obtain ⟨g, gm⟩ := (solveIter_ok_iff s m b x0 maxIter tol Vec.norm2).1 ⟨out, hrun⟩
  rw [solveIter_ok s m b x0 maxIter tol Vec.norm2 g gm, h.rows] at hrun
  cases hrun
  cases m with
  | cg =>
    have := cg_sim h Vec.norm2 b x0 hb hx maxIter tol
    rw [fnOps_eq_spdOps h] at this
    exact this
  | bicg itol =>
    have := bicg_sim h Vec.norm2 b x0 hb hx maxIter tol itol
    rw [fnOps_eq_spdOps h] at this
    exact this
  | bicgstab =>
    have := stab_sim h Vec.norm2 b x0 hb hx maxIter tol
    rw [fnOps_eq_spdOps h] at this
    exact this
  | qmr =>
    have := qmr_sim h Vec.norm2 b x0 hb hx maxIter tol
    rw [fnOps_eq_spdOps h] at this
    exact this

/-- on a well-formed square storage, with arrays of the right size (and `itol ∈ {1, 2}` for
    `solve_bicg`) the call does return a value — the one described by `solveIter_sim_dense` -/
theorem solveIter_runs_dense (h : SqWF s n) (m : Sp.Method)
    (hm : ∀ itol, m = .bicg itol → itol = 1 ∨ itol = 2) (b x0 : Array ℝ)
    (hb : b.size = n) (hx : x0.size = n) (maxIter : ℕ) (tol : ℝ) :
    ∃ out, Sp.solveIter s m b x0 maxIter tol Vec.norm2 = .ok out ∧ out.x.size = n ∧
      (denseRun (spMat s n) m (toFn n b) (toFn n x0) maxIter tol).ok = out.ok ∧
      (denseRun (spMat s n) m (toFn n b) (toFn n x0) maxIter tol).iters = out.iters ∧
      (denseRun (spMat s n) m (toFn n b) (toFn n x0) maxIter tol).err = out.err ∧
      (denseRun (spMat s n) m (toFn n b) (toFn n x0) maxIter tol).x = toFn n out.x := by
  have g : Guards s m b x0 :=
    ⟨by rw [h.rows, hb], by rw [h.rows, h.cols], by rw [hb, hx], hm⟩
  obtain ⟨y, hy, _⟩ := multiply_spec h.wf x0 (by rw [hx, h.cols])
  have hrun := solveIter_ok s m b x0 maxIter tol Vec.norm2 g ⟨y, hy⟩
  exact ⟨_, hrun, solveIter_sim_dense h m b x0 maxIter tol _ hrun⟩

open scoped Matrix.Norms.L2Operator in
/-- **C09 for `solve_cg` on arrays, exact arithmetic.**  `s` a well-formed square storage of order
    `n` whose denoted matrix `A` is symmetric positive definite, `b`, `x0` arrays of size `n`,
    `tol ≥ 0`, budget `≥ n`: the call returns a value, it reports success after at most `n`
    iterations, and the returned array agrees with the direct solution `A⁻¹ b` to within the
    tolerance times the spectral condition number. -/
theorem solveIter_cg_spd (h : SqWF s n) (hM : (spMat s n).PosDef) (b x0 : Array ℝ)
    (hb : b.size = n) (hx : x0.size = n) (maxIter : ℕ) (hmax : n ≤ maxIter) (tol : ℝ)
    (htol : 0 ≤ tol) :
    ∃ out, Sp.solveIter s .cg b x0 maxIter tol Vec.norm2 = .ok out ∧
      out.ok = true ∧ out.iters ≤ n ∧ out.x.size = n ∧
      (toFn n b ≠ 0 →
        enorm2 (toFn n out.x - (spMat s n)⁻¹ *ᵥ toFn n b) ≤
          ‖(spMat s n)⁻¹‖ * tol * enorm2 (toFn n b) ∧
        enorm2 (toFn n out.x - (spMat s n)⁻¹ *ᵥ toFn n b) ≤
          (‖(spMat s n)⁻¹‖ * ‖spMat s n‖) * tol * enorm2 ((spMat s n)⁻¹ *ᵥ toFn n b)) ∧
      (toFn n b = 0 → enorm2 (toFn n out.x) ≤ ‖(spMat s n)⁻¹‖ * tol) := by
  have g : Guards s .cg b x0 :=
    ⟨by rw [h.rows, hb], by rw [h.rows, h.cols], by rw [hb, hx], fun itol hm => by cases hm⟩
  obtain ⟨y, hy, _⟩ := multiply_spec h.wf x0 (by rw [hx, h.cols])
  have hrun := solveIter_ok s .cg b x0 maxIter tol Vec.norm2 g ⟨y, hy⟩
  rw [h.rows] at hrun
  obtain ⟨_, e1, e2, _⟩ := solveCG_sim_dense h b x0 hb hx maxIter tol
  obtain ⟨hok, hit⟩ := cg_finite_termination (spMat s n) (toFn n b) (toFn n x0) tol hM maxIter
    hmax htol
  have hok' : (runMethod (C08.arrOps s n Vec.norm2) .cg b x0 maxIter tol).ok = true :=
    e1.symm.trans hok
  have hit' : (runMethod (C08.arrOps s n Vec.norm2) .cg b x0 maxIter tol).iters ≤ n := by
    show (solveCG (C08.arrOps s n Vec.norm2) b x0 maxIter tol).iters ≤ n
    rw [← e2]
    exact hit
  obtain ⟨hsz, hne, h0⟩ := solveIter_success_forward_error h (isUnit_det_of_posDef _ hM) .cg b x0
    maxIter tol _ hrun hok'
  exact ⟨_, hrun, hok', hit', hsz, hne, h0⟩

end SPD

/-! ### non-vacuity: the 2 × 2 SPD storage of C08C / C08G over ℝ -/
section Example

/-- the symmetric positive definite matrix `[[2,1],[1,2]]` in CSC form (C08C's `spd2`, C08G's
    `spd2F`), real scalars -/
def spd2R : Sp ℝ := ⟨2, 2, 4, #[2, 1, 1, 2], #[0, 1, 0, 1], #[0, 2, 4]⟩

theorem spd2R_sqwf : SqWF spd2R 2 := by
  refine ⟨⟨rfl, rfl, ?_, rfl, rfl, rfl, ?_⟩, rfl, rfl⟩
  · intro j hj
    have hj' : j < 2 := hj
    interval_cases j <;> simp [Sp.cs, spd2R]
  · intro k hk
    have hk' : k < 4 := hk
    interval_cases k <;> simp [Sp.ri, spd2R]

/-- the storage denotes `[[2,1],[1,2]]` -/
theorem spd2R_mat : spMat spd2R 2 = !![2, 1; 1, 2] := by
  ext i j
  fin_cases i <;> fin_cases j <;>
    simp [spMat, Sp.entry, Sp.cs, Sp.ri, Sp.vl, spd2R, Finset.sum_Ico_eq_sum_range,
      Finset.sum_range_succ]

theorem spd2R_posDef : (spMat spd2R 2).PosDef := by
  rw [spd2R_mat]
  exact posDef_example

theorem spd2R_isUnit_det : IsUnit (spMat spd2R 2).det := isUnit_det_of_posDef _ spd2R_posDef

open scoped Matrix.Norms.L2Operator in
/-- every hypothesis of `solveIter_cg_spd` — and through it every hypothesis of
    `solveIter_success_forward_error` (a run that returns a value reporting success, on an
    invertible well-formed storage, with a nonzero right-hand side) — holds of `solve_cg` on
    `[[2,1],[1,2]] x = [3,3]` from the zero guess with `tol = 1/2` and a budget of 5 -/
example : ∃ out, Sp.solveIter spd2R .cg #[3, 3] #[0, 0] 5 (1/2) Vec.norm2 = .ok out ∧
    out.ok = true ∧ out.iters ≤ 2 ∧ toFn 2 (#[3, 3] : Array ℝ) ≠ 0 ∧
    enorm2 (toFn 2 out.x - (spMat spd2R 2)⁻¹ *ᵥ toFn 2 #[3, 3]) ≤
      (‖(spMat spd2R 2)⁻¹‖ * ‖spMat spd2R 2‖) * (1/2) *
        enorm2 ((spMat spd2R 2)⁻¹ *ᵥ toFn 2 #[3, 3]) := by
  obtain ⟨out, hrun, hok, hit, _, hne, _⟩ := solveIter_cg_spd spd2R_sqwf spd2R_posDef #[3, 3] #[0, 0]
    rfl rfl 5 (by norm_num) (1/2) (by norm_num)
  have hb : toFn 2 (#[3, 3] : Array ℝ) ≠ 0 := by
    intro h0
    have := congrFun h0 0
    simp [toFn] at this
  exact ⟨out, hrun, hok, hit, hb, (hne hb).2⟩

/-! all four methods on `[[2,1],[1,2]] x = [1,0]` from the zero guess, `tol = 1/2`, budget 2: the
    initial test fails and success is reported in iteration 1 of the loop -/

theorem toFn_e1 : toFn 2 (#[1, 0] : Array ℝ) = ![1, 0] := by
  funext i; fin_cases i <;> simp [toFn]

theorem toFn_z2 : toFn 2 (#[0, 0] : Array ℝ) = ![0, 0] := by
  funext i; fin_cases i <;> simp [toFn]

/-- the dense function-level runs -/
theorem spd2_dense_runs :
    ((solveCG (spdOps !![2, 1; 1, 2]) ![1, 0] ![0, 0] 2 (1/2)).ok = true ∧
      (solveCG (spdOps !![2, 1; 1, 2]) ![1, 0] ![0, 0] 2 (1/2)).iters = 1) ∧
    ((solveBiCG (spdOps !![2, 1; 1, 2]) ![1, 0] ![0, 0] 2 (1/2) 1).ok = true ∧
      (solveBiCG (spdOps !![2, 1; 1, 2]) ![1, 0] ![0, 0] 2 (1/2) 1).iters = 1) ∧
    ((solveBiCG (spdOps !![2, 1; 1, 2]) ![1, 0] ![0, 0] 2 (1/2) 2).ok = true ∧
      (solveBiCG (spdOps !![2, 1; 1, 2]) ![1, 0] ![0, 0] 2 (1/2) 2).iters = 1) ∧
    ((solveBiCGSTAB (spdOps !![2, 1; 1, 2]) ![1, 0] ![0, 0] 2 (1/2)).ok = true ∧
      (solveBiCGSTAB (spdOps !![2, 1; 1, 2]) ![1, 0] ![0, 0] 2 (1/2)).iters = 1) ∧
    ((solveQMR (spdOps !![2, 1; 1, 2]) ![1, 0] ![0, 0] 2 (1/2)).ok = true ∧
      (solveQMR (spdOps !![2, 1; 1, 2]) ![1, 0] ![0, 0] 2 (1/2)).iters = 1) := by
  have h4 : Real.sqrt 4 = 2 := by
    rw [show (4 : ℝ) = 2 * 2 by norm_num]; exact Real.sqrt_mul_self (by norm_num)
  have h5 : (2 : ℝ) / √5 * (2 / √5) = 4 / 5 := by
    rw [div_mul_div_comm, Real.mul_self_sqrt (by norm_num)]; norm_num
  have h6 : (√5 : ℝ)⁻¹ ≤ 1 / 2 := by
    have : (2 : ℝ) ≤ √5 := by
      rw [← h4]; exact Real.sqrt_le_sqrt (by norm_num)
    rw [one_div]
    exact inv_anti₀ (by norm_num) this
  refine ⟨?_, ?_, ?_, ?_, ?_⟩
  · norm_num [Transc.le, solveCG, iterate, cgStep, cgDir, guardNorm, spdOps, modOps,
      dotProduct, mulVec, Fin.sum_univ_two, vecHead, vecTail, Function.comp_def, h4]
  · norm_num [Transc.le, solveBiCG, iterate, bicgStep, bicgErr, bicgDir, guardNorm, spdOps,
      modOps, dotProduct, mulVec, Fin.sum_univ_two, vecHead, vecTail, Function.comp_def, h4]
  · norm_num [Transc.le, solveBiCG, iterate, bicgStep, bicgErr, bicgDir, guardNorm, spdOps,
      modOps, dotProduct, mulVec, Fin.sum_univ_two, vecHead, vecTail, Function.comp_def, h4]
  · norm_num [Transc.le, solveBiCGSTAB, iterate, stabStep, stabDir, guardNorm, spdOps,
      modOps, dotProduct, mulVec, Fin.sum_univ_two, vecHead, vecTail, Function.comp_def, h4]
  · norm_num [Transc.le, Transc.sqrt, solveQMR, iterate, qmrStep, qmrDir, qmrUpd, guardNorm,
      spdOps, modOps, dotProduct, mulVec, Fin.sum_univ_two, vecHead, vecTail,
      Function.comp_def, h4, h5, h6]

/-- … and therefore the ARRAY-level calls of all four methods on the storage `spd2R`: each returns a
    value that reports success in iteration 1 -/
theorem spd2R_runs (m : Sp.Method)
    (hm : m = .cg ∨ m = .bicg 1 ∨ m = .bicg 2 ∨ m = .bicgstab ∨ m = .qmr) :
    ∃ out, Sp.solveIter spd2R m #[1, 0] #[0, 0] 2 (1/2) Vec.norm2 = .ok out ∧
      out.ok = true ∧ out.iters = 1 := by
  have hit : ∀ itol, m = .bicg itol → itol = 1 ∨ itol = 2 := by
    intro itol e
    subst e
    rcases hm with e | e | e | e | e <;> cases e <;> simp
  obtain ⟨out, hrun, _, e1, e2, _⟩ := solveIter_runs_dense spd2R_sqwf m hit #[1, 0] #[0, 0] rfl rfl
    2 (1/2)
  rw [spd2R_mat, toFn_e1, toFn_z2] at e1 e2
  refine ⟨out, hrun, ?_, ?_⟩
  · rw [← e1]
    rcases hm with e | e | e | e | e <;> subst e
    · exact spd2_dense_runs.1.1
    · exact spd2_dense_runs.2.1.1
    · exact spd2_dense_runs.2.2.1.1
    · exact spd2_dense_runs.2.2.2.1.1
    · exact spd2_dense_runs.2.2.2.2.1
  · rw [← e2]
    rcases hm with e | e | e | e | e <;> subst e
    · exact spd2_dense_runs.1.2
    · exact spd2_dense_runs.2.1.2
    · exact spd2_dense_runs.2.2.1.2
    · exact spd2_dense_runs.2.2.2.1.2
    · exact spd2_dense_runs.2.2.2.2.2

open scoped Matrix.Norms.L2Operator in
/-- every hypothesis of `solveIter_success_forward_error` holds for each of the four methods on
    this system (well-formed invertible storage, a call that returns a value reporting success
    through the loop, nonzero right-hand side), so its conclusion holds of the returned arrays -/
example (m : Sp.Method) (hm : m = .cg ∨ m = .bicg 1 ∨ m = .bicg 2 ∨ m = .bicgstab ∨ m = .qmr) :
    ∃ out, Sp.solveIter spd2R m #[1, 0] #[0, 0] 2 (1/2) Vec.norm2 = .ok out ∧ out.iters = 1 ∧
      enorm2 (toFn 2 out.x - (spMat spd2R 2)⁻¹ *ᵥ toFn 2 #[1, 0]) ≤
        (‖(spMat spd2R 2)⁻¹‖ * ‖spMat spd2R 2‖) * (1/2) *
          enorm2 ((spMat spd2R 2)⁻¹ *ᵥ toFn 2 #[1, 0]) := by
  obtain ⟨out, hrun, hok, hit⟩ := spd2R_runs m hm
  have hb : toFn 2 (#[1, 0] : Array ℝ) ≠ 0 := by
    rw [toFn_e1]; exact e1_ne_zero
  exact ⟨out, hrun, hit,
    ((solveIter_success_forward_error spd2R_sqwf spd2R_isUnit_det m _ _ _ _ out hrun hok).2.1 hb).2⟩

end Example
end Ohsl.Props.C09
