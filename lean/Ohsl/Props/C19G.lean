/-
  Property C19 (continued) — reading back the text written by `Fmt.fixed` (model: Ohsl/Model/Fmt.lean,
  `Fmt.parse` on character lists).
  1. `digitsVal_repr`, `digitsVal_zeros_repr`, `repr_isDigit`, `repr_no_dot_minus`
  2. `parse_shape`, `parse_fixed`: `parse (fixed x prec) = ± nearest N (10^prec)` for finite `x`
  3. `parse_fixed_nan`, `parse_fixed_inf`
  4. `roundtrip_value` (+ `_zero`, `_exact`, `_exact_zero`): `parse (fixed x prec)` is
     `± Float.scaleB (Float.ofNat m) e` with `± m·2^e` within `1/(2·10^prec) + 2^e/2` of the exact
     value of `x` (equal to it when `x` has at most `prec` decimals).  Only the meaning of
     `Float.ofNat`, `Float.scaleB` and `Float.neg` is left to the trusted base.
-/
import Ohsl.Props.C19F
set_option linter.unusedSectionVars false
set_option linter.unusedVariables false
set_option linter.unusedSimpArgs false
namespace Ohsl.Props.C19
open Ohsl Ohsl.Fmt

/-! ## 1. `digitsVal` on the digits of a number -/

theorem digitsVal_eq_ofDigitChars (cs : List Char) : digitsVal cs = Nat.ofDigitChars 10 cs 0 := by
  unfold digitsVal Nat.ofDigitChars
  congr 1
  funext acc c
  rw [Nat.mul_comm]

theorem digitsVal_append_zeros_repr (ds : List Char) (k n : Nat) :
    digitsVal (ds ++ (List.replicate k '0' ++ (toString n).toList))
      = digitsVal ds * 10 ^ (k + (toString n).length) + n := by
  simp only [digitsVal_eq_ofDigitChars, Nat.toString_eq_repr, Nat.toList_repr,
    Nat.ofDigitChars_append, Nat.ofDigitChars_replicate_zero]
  rw [Nat.ofDigitChars_eq_ofDigitChars_zero, Nat.ofDigitChars_ten_toDigits]
  have hl : n.repr.length = (Nat.toDigits 10 n).length := by simp [Nat.repr_eq_ofList_toDigits]
  rw [hl, Nat.pow_add]
  congr 1
  ring

/-- leading zeros do not change the value -/
theorem digitsVal_zeros_repr (k n : Nat) :
    digitsVal (List.replicate k '0' ++ (toString n).toList) = n := by
  have := digitsVal_append_zeros_repr [] k n
  simpa [digitsVal] using this

theorem digitsVal_repr (n : Nat) : digitsVal (toString n).toList = n := by
  simpa using digitsVal_zeros_repr 0 n

/-- every character of `toString n` is a decimal digit -/
theorem repr_isDigit (n : Nat) : ∀ c ∈ (toString n).toList, c.isDigit = true := by
  intro c hc
  rw [Nat.toString_eq_repr, Nat.toList_repr] at hc
  exact Nat.isDigit_of_mem_toDigits (by decide) (by decide) hc

theorem isDigit_ne_dot {c : Char} (h : c.isDigit = true) : c ≠ '.' := by
  rintro rfl; simp at h

theorem isDigit_ne_minus {c : Char} (h : c.isDigit = true) : c ≠ '-' := by
  rintro rfl; simp at h

/-- `toString n` contains neither a point nor a minus sign -/
theorem repr_no_dot_minus (n : Nat) : '.' ∉ (toString n).toList ∧ '-' ∉ (toString n).toList :=
  ⟨fun h => isDigit_ne_dot (repr_isDigit n _ h) rfl, fun h => isDigit_ne_minus (repr_isDigit n _ h) rfl⟩

theorem repr_toList_ne_nil (n : Nat) : (toString n).toList ≠ [] := by
  rw [Nat.toString_eq_repr, Nat.toList_repr]; exact Nat.toDigits_ne_nil

/-! ## 2. `parse` on a text of the shape written by `fixed` -/

theorem takeWhile_append_stop {p : Char → Bool} (l tail : List Char) (hl : ∀ c ∈ l, p c = true)
    (ht : tail = [] ∨ ∃ a r, tail = a :: r ∧ p a = false) :
    (l ++ tail).takeWhile p = l ∧ (l ++ tail).dropWhile p = tail := by
  induction l with
  | nil =>
    rcases ht with rfl | ⟨a, r, rfl, ha⟩
    · simp
    · simp [List.takeWhile_cons, List.dropWhile_cons, ha]
  | cons b l ih =>
    have hb := hl b (List.mem_cons_self)
    obtain ⟨i1, i2⟩ := ih (fun c hc => hl c (List.mem_cons_of_mem _ hc))
    simp [List.takeWhile_cons, List.dropWhile_cons, hb, i1, i2]

/-- `parse` on `sign ++ digits ++ tail`, where `tail` is empty (and there is no fraction) or a point
followed by the fraction characters `fs` -/
theorem parse_shape (s : String) (neg : Bool) (ds fs tail : List Char)
    (hne : ds ≠ []) (hds : ∀ c ∈ ds, c.isDigit = true)
    (htail : (tail = [] ∧ fs = []) ∨ tail = '.' :: fs)
    (hs : s.toList = (if neg then ['-'] else []) ++ ds ++ tail) :
    Fmt.parse s = if neg then - Fmt.nearest (digitsVal (ds ++ fs)) (10 ^ fs.length)
      else Fmt.nearest (digitsVal (ds ++ fs)) (10 ^ fs.length) := by
  obtain ⟨d, ds', rfl⟩ := List.exists_cons_of_ne_nil hne
  have hd : d.isDigit = true := hds d List.mem_cons_self
  have hdm : d ≠ '-' := isDigit_ne_minus hd
  -- not one of the non-finite spellings
  have h1 : ¬ (s == "NaN") = true := by
    intro h
    have h := congrArg String.toList (eq_of_beq h)
    rw [hs] at h
    cases neg <;> simp at h
    obtain ⟨rfl, -⟩ := h; simp at hd
  have h2 : ¬ (s == "inf") = true := by
    intro h
    have h := congrArg String.toList (eq_of_beq h)
    rw [hs] at h
    cases neg <;> simp at h
    obtain ⟨rfl, -⟩ := h; simp at hd
  have h3 : ¬ (s == "-inf") = true := by
    intro h
    have h := congrArg String.toList (eq_of_beq h)
    rw [hs] at h
    cases neg <;> simp at h
    · exact hdm h.1
    · obtain ⟨rfl, -⟩ := h; simp at hd
  have hp : ∀ c ∈ d :: ds', (c != '.') = true := fun c hc => by
    simpa using isDigit_ne_dot (hds c hc)
  have htw := takeWhile_append_stop (p := (· != '.')) (d :: ds') tail hp (by
    rcases htail with ⟨rfl, -⟩ | rfl
    · exact Or.inl rfl
    · exact Or.inr ⟨'.', fs, rfl, by simp⟩)
  have hfs : tail.drop 1 = fs := by
    rcases htail with ⟨rfl, rfl⟩ | rfl <;> rfl
  unfold Fmt.parse
  rw [if_neg h1, if_neg h2, if_neg h3]
  simp only [hs]
  cases neg
  · have hh : ((([] : List Char) ++ d :: ds' ++ tail).head? == some '-') = false := by
      simp [hdm]
    simp only [if_false, Bool.false_eq_true, hh]
    simp only [List.nil_append, htw.1, htw.2, hfs]
  · have hh : ((['-'] ++ d :: ds' ++ tail).head? == some '-') = true := by simp
    simp only [if_true, hh]
    have hb : (['-'] ++ d :: ds' ++ tail).drop 1 = d :: ds' ++ tail := by simp
    simp only [hb, htw.1, htw.2, hfs]

theorem fracField_toList (fp prec : Nat) :
    (fracField fp prec).toList
      = List.replicate (prec - (toString fp).length) '0' ++ (toString fp).toList := by
  simp [fracField]

/-- `parse_fixed`: reading the text written for a finite `x` calls `Fmt.nearest` on exactly the
rounded integer `N` and `10^prec`, and restores the sign. -/
theorem parse_fixed (x : Float) (prec : Nat) (hn : x.isNaN = false) (hi : x.isInf = false) :
    Fmt.parse (Fmt.fixed x prec) =
      if (decode x).1 then
        - Fmt.nearest (roundHalfEven ((decode x).2.1 * 10 ^ prec) (decode x).2.2) (10 ^ prec)
      else Fmt.nearest (roundHalfEven ((decode x).2.1 * 10 ^ prec) (decode x).2.2) (10 ^ prec) := by
  show _ = if (decode x).1 then - Fmt.nearest (printedNum (decode x) prec) (10 ^ prec)
      else Fmt.nearest (printedNum (decode x) prec) (10 ^ prec)
  have h10 : 0 < 10 ^ prec := Nat.pow_pos (by decide)
  have hdm : printedNum (decode x) prec / 10 ^ prec * 10 ^ prec + printedNum (decode x) prec % 10 ^ prec
      = printedNum (decode x) prec := by
    rw [Nat.mul_comm]; exact Nat.div_add_mod _ _
  have hlt := Nat.mod_lt (printedNum (decode x) prec) h10
  generalize hip : printedNum (decode x) prec / 10 ^ prec = ip at hdm
  generalize hfp : printedNum (decode x) prec % 10 ^ prec = fp at hdm hlt
  have hfix := fixed_eq x prec hn hi
  rw [hip, hfp] at hfix
  have hsign : (if (decode x).1 = true then "-" else "").toList
      = if (decode x).1 = true then ['-'] else [] := by
    cases (decode x).1 <;> rfl
  rcases Nat.eq_zero_or_pos prec with rfl | hp
  · -- no point is printed
    have hs : (Fmt.fixed x 0).toList
        = (if (decode x).1 = true then ['-'] else []) ++ (toString ip).toList ++ [] := by
      rw [hfix]; simp [hsign]
    rw [parse_shape _ (decode x).1 (toString ip).toList [] [] (repr_toList_ne_nil ip)
      (repr_isDigit ip) (Or.inl ⟨rfl, rfl⟩) hs]
    have hN : ip = printedNum (decode x) 0 := by
      rw [← hip, Nat.pow_zero, Nat.div_one]
    simp only [List.append_nil, digitsVal_repr, List.length_nil, hN]
  · have hlen := (Nat.length_repr_le_iff (n := fp) hp).2 hlt
    have hlen' : (toString fp).length ≤ prec := by simpa using hlen
    have hp0 : (prec == 0) = false := by simp; omega
    have hs : (Fmt.fixed x prec).toList
        = (if (decode x).1 = true then ['-'] else []) ++ (toString ip).toList
          ++ '.' :: (fracField fp prec).toList := by
      rw [hfix]; simp [hsign, hp0]
    have hfd : ∀ c ∈ (fracField fp prec).toList, c.isDigit = true := by
      intro c hc
      rw [fracField_toList, List.mem_append, List.mem_replicate] at hc
      rcases hc with ⟨_, rfl⟩ | hc
      · decide
      · exact repr_isDigit fp c hc
    rw [parse_shape _ (decode x).1 (toString ip).toList (fracField fp prec).toList _
      (repr_toList_ne_nil ip) (repr_isDigit ip) (Or.inr rfl) hs]
    have hL : (fracField fp prec).toList.length = prec := by
      rw [String.length_toList]; exact fracField_length fp prec hp hlt
    have hV : digitsVal ((toString ip).toList ++ (fracField fp prec).toList)
        = printedNum (decode x) prec := by
      rw [fracField_toList, digitsVal_append_zeros_repr, digitsVal_repr,
        Nat.sub_add_cancel hlen', hdm]
    rw [hL, hV]

/-! ## 3. non-finite values -/

theorem parse_NaN : Fmt.parse "NaN" = 0.0 / 0.0 := by
  unfold Fmt.parse
  rw [if_pos (by decide)]

theorem parse_inf : Fmt.parse "inf" = 1.0 / 0.0 := by
  unfold Fmt.parse
  rw [if_neg (by decide), if_pos (by decide)]

theorem parse_neg_inf : Fmt.parse "-inf" = -1.0 / 0.0 := by
  unfold Fmt.parse
  rw [if_neg (by decide), if_neg (by decide), if_pos (by decide)]

/-- a NaN is written as `NaN` and read back as `0.0 / 0.0` (a NaN) -/
theorem parse_fixed_nan (x : Float) (prec : Nat) (h : x.isNaN = true) :
    Fmt.parse (Fmt.fixed x prec) = 0.0 / 0.0 := by
  rw [fixed_nan x prec h, parse_NaN]

/-- an infinity is written as `inf` / `-inf` and read back as `1.0 / 0.0` / `-1.0 / 0.0` -/
theorem parse_fixed_inf (x : Float) (prec : Nat) (hn : x.isNaN = false) (h : x.isInf = true) :
    Fmt.parse (Fmt.fixed x prec) = if x < 0 then -1.0 / 0.0 else 1.0 / 0.0 := by
  rw [fixed_inf x prec hn h]
  split
  · exact parse_neg_inf
  · exact parse_inf

/-! ## 4. the file round trip, with `Float.ofNat` / `Float.scaleB` left opaque -/

/-- apply the sign of a decoded double to a `Float` -/
def withSign (d : Bool × Nat × Nat) (v : Float) : Float := if d.1 then -v else v

theorem parse_fixed' (x : Float) (prec : Nat) (hn : x.isNaN = false) (hi : x.isInf = false) :
    Fmt.parse (Fmt.fixed x prec)
      = withSign (decode x) (Fmt.nearest (printedNum (decode x) prec) (10 ^ prec)) :=
  parse_fixed x prec hn hi

/-- `roundtrip_value`: a finite `x` written with `prec` decimals (`prec ≤ 661`) whose text is not
`±0.00…0` is read back as `± scaleB (ofNat m) e` with a 53-bit mantissa `m`, and the rational
`± m * 2^e` is within half a printed unit plus half an ulp of the exact value of `x`. -/
theorem roundtrip_value (x : Float) (prec : Nat) (hn : x.isNaN = false) (hi : x.isInf = false)
    (hN : printedNum (decode x) prec ≠ 0) (hp : 10 ^ prec ≤ 2 ^ 2198) :
    ∃ (m : Nat) (e : Int), 2 ^ 52 ≤ m ∧ m ≤ 2 ^ 53 ∧
      Fmt.parse (Fmt.fixed x prec) = withSign (decode x) (Float.scaleB (Float.ofNat m) e) ∧
      |sgn (decode x) * ((m : ℚ) * 2 ^ e) - val (decode x)| ≤ 1 / (2 * 10 ^ prec) + 2 ^ e / 2 := by
  obtain ⟨m, e, hme, h1, h2, herr⟩ := roundtrip_error_total x prec hN hp
  refine ⟨m, e, h1, h2, ?_, herr⟩
  rw [parse_fixed' x prec hn hi, nearest_eq, hme]

/-- when the text is `±0.00…0` the value read back is `±0.0`, and the value written was within
half a printed unit of zero -/
theorem roundtrip_value_zero (x : Float) (prec : Nat) (hn : x.isNaN = false) (hi : x.isInf = false)
    (hN : printedNum (decode x) prec = 0) :
    Fmt.parse (Fmt.fixed x prec) = withSign (decode x) 0.0 ∧
      |(0 : ℚ) - val (decode x)| ≤ 1 / (2 * 10 ^ prec) := by
  refine ⟨?_, roundtrip_error_zero x prec hN⟩
  rw [parse_fixed' x prec hn hi, hN]
  rfl

/-- `roundtrip_value_exact`: a finite non-zero `x` whose exact value has at most `prec` decimals
is read back as `± scaleB (ofNat m) e` with `± m * 2^e` equal to the exact value of `x`. -/
theorem roundtrip_value_exact (x : Float) (prec : Nat) (hn : x.isNaN = false) (hi : x.isInf = false)
    (hnz : (decode x).2.1 ≠ 0) (hdiv : (decode x).2.2 ∣ (decode x).2.1 * 10 ^ prec) :
    ∃ (m : Nat) (e : Int), 2 ^ 52 ≤ m ∧ m ≤ 2 ^ 53 ∧
      Fmt.parse (Fmt.fixed x prec) = withSign (decode x) (Float.scaleB (Float.ofNat m) e) ∧
      sgn (decode x) * ((m : ℚ) * 2 ^ e) = val (decode x) := by
  obtain ⟨m, e, hme, hval⟩ := roundtrip_exact_total x prec hnz hdiv
  obtain ⟨h1, h2⟩ := nearestME_mantissa _ _ (Nat.pow_pos (by decide)) m e hme
  refine ⟨m, e, h1, h2, ?_, hval⟩
  rw [parse_fixed' x prec hn hi, nearest_eq, hme]

/-- a zero (`num = 0`, i.e. `±0.0`) is read back as `±0.0` -/
theorem roundtrip_value_exact_zero (x : Float) (prec : Nat) (hn : x.isNaN = false)
    (hi : x.isInf = false) (hz : (decode x).2.1 = 0) :
    Fmt.parse (Fmt.fixed x prec) = withSign (decode x) 0.0 ∧ val (decode x) = 0 := by
  have hN : printedNum (decode x) prec = 0 := by
    rw [printedNum, hz, Nat.zero_mul, roundHalfEven_exact _ _ (decode_den_pos x) (Nat.dvd_zero _),
      Nat.zero_div]
  exact ⟨(roundtrip_value_zero x prec hn hi hN).1, by simp [val, hz]⟩

/-! ## examples -/

example : Fmt.parse "0.38" = Fmt.nearest 38 (10 ^ 2) := by
  have h := parse_shape "0.38" false ['0'] ['3', '8'] ['.', '3', '8'] (by decide) (by decide)
    (Or.inr rfl) (by decide)
  have hv : digitsVal (['0'] ++ ['3', '8']) = 38 := by decide
  rw [hv] at h
  rw [h]; simp
example : Fmt.parse "-12.005" = - Fmt.nearest 12005 (10 ^ 3) := by
  have h := parse_shape "-12.005" true ['1', '2'] ['0', '0', '5'] ['.', '0', '0', '5'] (by decide)
    (by decide) (Or.inr rfl) (by decide)
  have hv : digitsVal (['1', '2'] ++ ['0', '0', '5']) = 12005 := by decide
  rw [hv] at h
  rw [h]; simp
example : Fmt.parse "7" = Fmt.nearest 7 (10 ^ 0) := by
  have h := parse_shape "7" false ['7'] [] [] (by decide) (by decide) (Or.inl ⟨rfl, rfl⟩) (by decide)
  have hv : digitsVal (['7'] ++ []) = 7 := by decide
  rw [hv] at h
  rw [h]; simp
example : digitsVal "00123".toList = 123 := by decide

end Ohsl.Props.C19
