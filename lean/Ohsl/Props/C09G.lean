/-
  Property C09G — conjugate gradients in exact arithmetic: finite termination on symmetric
  positive-definite systems.  Model: `cgDir`, `cgStep`, `solveCG` of Ohsl/Model/Krylov.lean.

  Class (R): scalars ℝ with the real interpretation `Ohsl.RealI.transc` (`Transc.le = (· ≤ ·)`,
  `/` the field division), vectors `Fin n → ℝ`, `A v = M *ᵥ v` for a positive-definite (hence
  symmetric) matrix `M`, `dot = ⬝ᵥ`, `norm2 v = √(v ⬝ᵥ v)`.  The vector operations `spdOps M` are
  an instance of C08's `modOps`, so the C08 theorems (`cgStep_residual`, `cg_success_sound`,
  `cg_iter_bound`) apply to them verbatim.

  The state of the model's loop is observed through `Ohsl.CGTheory.cgRun o b x0 tol k`: the
  `CGState` held after `k` iterations, `none` once `solveCG` has returned; `cgRun_is_loop` shows
  that this is literally the `iterate (cgStep …)` loop of `solveCG`.

  Proved (all in full, nothing `_partial`):
  * `cg_orthogonality`        residuals mutually orthogonal, directions mutually `M`-conjugate,
                              `r_k = b − M x_k`, `⟨r_k, r_k⟩ > 0`, `p_k ≠ 0`, `⟨p_k, M p_k⟩ > 0`
  * `cg_divisors_positive`    no `0/0` in the iteration about to run (divisors of `β` and of `α`)
  * `cg_loop_stops`, `cg_finite_termination`   for `tol ≥ 0`, `maxIter ≥ n`: `ok = true`, `iters ≤ n`
  * `cg_exact_solution`       `tol = 0`, `maxIter ≥ n`: `M *ᵥ x = b`
  * `cg_error_monotone`       every executed iteration strictly decreases the energy of the error
  * `cg_optimal`              `x_k` minimises the energy over `x0 + K_k(M, b − M x0)`
  The general theory (any real vector space with a symmetric positive-definite form `dot` and a
  `dot`-self-adjoint positive-definite `A`) is in Ohsl/Lemmas/CGTheory.lean.
  NOT proved (class F): anything about f64 rounding, where orthogonality is lost and the
  `n`-step termination does not hold.
-/
import Ohsl.Props.C08
import Ohsl.Props.C09
import Ohsl.Lemmas.CGTheory
import Mathlib.LinearAlgebra.Matrix.PosDef
import Mathlib.LinearAlgebra.Matrix.ToLin
import Mathlib.Algebra.Order.Star.Real
import Mathlib.LinearAlgebra.Dimension.Constructions
import Mathlib.Tactic.Linarith

set_option linter.unusedSectionVars false
set_option linter.unusedVariables false

namespace Ohsl.Props.C09
open Ohsl Ohsl.Krylov Ohsl.Props.C08 Ohsl.CGTheory Matrix

/-! ### (S) `cgRun` is the loop of `solveCG` (any scalar type, any operations) -/
section Structural
variable {K V : Type} [Add K] [Sub K] [Mul K] [Neg K] [Div K] [Zero K] [One K] [BEq K] [Transc K]

/-- While `cgRun o b x tol k = some s`, the call `solveCG o b x maxIter tol` (`k ≤ maxIter`) has not
    returned: it is about to execute iteration `k + 1` from state `s`, with `maxIter - k` iterations
    of budget left. -/
theorem cgRun_is_loop (o : VOps K V) (b x : V) (maxIter : Nat) (tol : K) (k : Nat)
    (s : CGState K V) (hs : cgRun o b x tol k = some s) (hk : k ≤ maxIter) :
    solveCG o b x maxIter tol =
      iterate (cgStep o (guardNorm (o.norm2 b)) tol) (fun s => ⟨false, maxIter, s.resid, s.x⟩)
        (maxIter - k) (k + 1) s :=
  cgRun_spec o b x maxIter tol k s hs hk

/-- the state after `k + 1` iterations comes from the state after `k` by one `cgStep` that
    continued -/
theorem cgRun_succ (o : VOps K V) (b x : V) (tol : K) (k : Nat) (s' : CGState K V)
    (hs : cgRun o b x tol (k + 1) = some s') :
    ∃ s, cgRun o b x tol k = some s ∧ cgStep o (guardNorm (o.norm2 b)) tol (k + 1) s = .cont s' := by
  unfold cgRun at hs
  split at hs
  · simp at hs
  · rename_i s hs0
    refine ⟨s, hs0, ?_⟩
    split at hs
    · rename_i s'' hs''
      simp only [Option.some.injEq] at hs
      subst hs
      exact hs''
    · simp at hs

end Structural

/-! ### (R) dense real symmetric positive-definite systems -/
section Real
variable {n : ℕ}

/-- The model's vector operations at the real interpretation: `A v = M *ᵥ v`, `At v = Mᵀ *ᵥ v`,
    `dot u v = u ⬝ᵥ v`, `norm2 v = √(v ⬝ᵥ v)` — an instance of C08's `modOps`. -/
noncomputable def spdOps (M : Matrix (Fin n) (Fin n) ℝ) : VOps ℝ (Fin n → ℝ) :=
  modOps (Matrix.mulVecLin M) (Matrix.mulVecLin Mᵀ) (fun u v => u ⬝ᵥ v)
    (fun v => Real.sqrt (v ⬝ᵥ v))

/-- the energy (squared `M`-norm) `⟨xs − x, M (xs − x)⟩` of the error of `x` -/
noncomputable def errEnergy (M : Matrix (Fin n) (Fin n) ℝ) (xs x : Fin n → ℝ) : ℝ :=
  (xs - x) ⬝ᵥ (M *ᵥ (xs - x))

/-- the Krylov space `span {v, M v, …, M^(k-1) v}` -/
def krylovSpace (M : Matrix (Fin n) (Fin n) ℝ) (v : Fin n → ℝ) (k : ℕ) :
    Submodule ℝ (Fin n → ℝ) :=
  Submodule.span ℝ ((fun j => (M ^ j) *ᵥ v) '' {j | j < k})

variable (M : Matrix (Fin n) (Fin n) ℝ)

/-- a positive-definite real matrix with the standard dot product is an instance of the abstract
    setting of `Ohsl.CGTheory` -/
theorem spd_of_posDef (hM : M.PosDef) : SPD (Matrix.mulVecLin M) (fun u v : Fin n → ℝ => u ⬝ᵥ v) where
  add_left u v w := add_dotProduct u v w
  smul_left c u v := by simp [smul_dotProduct]
  comm u v := dotProduct_comm u v
  pos v hv := by
    have := (dotProduct_star_self_pos_iff (v := v)).mpr hv
    simpa using this
  A_symm u v := by
    have hT : Mᵀ = M := by
      have := hM.isHermitian
      rwa [Matrix.IsHermitian, conjTranspose_eq_transpose_of_trivial] at this
    show (M *ᵥ u) ⬝ᵥ v = u ⬝ᵥ (M *ᵥ v)
    rw [dotProduct_mulVec, ← mulVec_transpose, hT]
  A_pos v hv := by
    have := hM.dotProduct_mulVec_pos hv
    simpa using this

theorem krylovSpace_eq (v : Fin n → ℝ) (k : ℕ) :
    krylovSpace M v k = krylov (Matrix.mulVecLin M) v k := by
  unfold krylovSpace krylov
  congr 2
  funext j
  rw [← Matrix.toLin'_apply', ← Matrix.toLin'_pow, Matrix.toLin'_apply]

variable (b x0 : Fin n → ℝ) (tol : ℝ)

/-- **CG invariant.**  For a positive-definite `M` and `tol ≥ 0`, as long as the model's loop has
    not returned: the residuals held after different numbers of iterations are mutually orthogonal,
    the search directions are mutually `M`-conjugate, each residual is orthogonal to the earlier
    directions; the residual is the true residual `b − M x`, it is nonzero (`⟨r, r⟩ > 0`), it is
    orthogonal to the current direction, and from the first iteration on the direction is nonzero
    with `⟨p, M p⟩ > 0`. -/
theorem cg_orthogonality (hM : M.PosDef) (htol : 0 ≤ tol) :
    (∀ i j si sj, i < j → cgRun (spdOps M) b x0 tol i = some si →
      cgRun (spdOps M) b x0 tol j = some sj →
      si.r ⬝ᵥ sj.r = 0 ∧ (1 ≤ i → si.p ⬝ᵥ (M *ᵥ sj.p) = 0) ∧ sj.r ⬝ᵥ si.p = 0) ∧
    (∀ k sk, cgRun (spdOps M) b x0 tol k = some sk →
      sk.r = b - M *ᵥ sk.x ∧ 0 < sk.r ⬝ᵥ sk.r ∧ sk.r ⬝ᵥ sk.p = 0 ∧
      (1 ≤ k → sk.p ≠ 0 ∧ 0 < sk.p ⬝ᵥ (M *ᵥ sk.p))) :=
  cgRun_orthogonality (Matrix.mulVecLin Mᵀ) b x0 (spd_of_posDef M hM) tol htol

/-- **No `0/0`.**  In the iteration `k + 1` the loop is about to execute, the divisor `rho_1` of
    `β = rho / rho_1` is positive (and it is the `⟨r, r⟩` of the previous iteration), the direction
    `p` computed by `cgDir` is nonzero and the divisor `⟨p, M p⟩` of `α` is positive. -/
theorem cg_divisors_positive (hM : M.PosDef) (htol : 0 ≤ tol) (k : ℕ)
    (sk : CGState ℝ (Fin n → ℝ)) (hk : cgRun (spdOps M) b x0 tol k = some sk) :
    0 < sk.rho1 ∧
    (∀ s', cgRun (spdOps M) b x0 tol (k + 1) = some s' → s'.rho1 = sk.r ⬝ᵥ sk.r) ∧
    cgDir (spdOps M) (k + 1) sk.r sk.p (sk.r ⬝ᵥ sk.r) sk.rho1 ≠ 0 ∧
    0 < cgDir (spdOps M) (k + 1) sk.r sk.p (sk.r ⬝ᵥ sk.r) sk.rho1 ⬝ᵥ
          (M *ᵥ cgDir (spdOps M) (k + 1) sk.r sk.p (sk.r ⬝ᵥ sk.r) sk.rho1) :=
  cgRun_divisors (Matrix.mulVecLin Mᵀ) b x0 (spd_of_posDef M hM) tol htol k sk hk

/-- `n + 1` nonzero mutually orthogonal vectors do not fit into `ℝⁿ`: after `n` iterations the loop
    has returned (the initial test or the test of one of the iterations `1, …, n` has passed) -/
theorem cg_loop_stops (hM : M.PosDef) (htol : 0 ≤ tol) : cgRun (spdOps M) b x0 tol n = none :=
  cgRun_stops (Matrix.mulVecLin Mᵀ) b x0 (spd_of_posDef M hM) n
    (by rw [Module.finrank_fin_fun]) tol htol

/-- **Finite termination.**  For every right-hand side, every initial guess, every `tol ≥ 0` and
    every budget `maxIter ≥ n`, `solveCG` reports success after at most `n` iterations. -/
theorem cg_finite_termination (hM : M.PosDef) (maxIter : ℕ) (hmax : n ≤ maxIter) (htol : 0 ≤ tol) :
    (solveCG (spdOps M) b x0 maxIter tol).ok = true ∧
      (solveCG (spdOps M) b x0 maxIter tol).iters ≤ n :=
  solveCG_terminates (Matrix.mulVecLin Mᵀ) b x0 (spd_of_posDef M hM) n
    (by rw [Module.finrank_fin_fun]) maxIter hmax tol htol

/-- a reported success with `tol ≤ 0` certifies an exact solution (whatever the budget) -/
theorem cg_success_exact (hM : M.PosDef) (maxIter : ℕ) (htol : tol ≤ 0)
    (hok : (solveCG (spdOps M) b x0 maxIter tol).ok = true) :
    M *ᵥ (solveCG (spdOps M) b x0 maxIter tol).x = b :=
  solveCG_exact_of_ok (Matrix.mulVecLin Mᵀ) b x0 (spd_of_posDef M hM) maxIter tol htol hok

/-- **Exact solution.**  With `tol = 0` and `maxIter ≥ n` the returned `x` solves `M x = b`. -/
theorem cg_exact_solution (hM : M.PosDef) (maxIter : ℕ) (hmax : n ≤ maxIter) :
    (solveCG (spdOps M) b x0 maxIter 0).ok = true ∧
      M *ᵥ (solveCG (spdOps M) b x0 maxIter 0).x = b :=
  ⟨(cg_finite_termination M b x0 0 hM maxIter hmax le_rfl).1,
    solveCG_exact (Matrix.mulVecLin Mᵀ) b x0 (spd_of_posDef M hM) n
      (by rw [Module.finrank_fin_fun]) maxIter hmax⟩

/-- **Monotone error.**  Every iteration the loop executes — whether it continues or returns —
    strictly decreases the energy `⟨xs − x, M (xs − x)⟩` of the error. -/
theorem cg_error_monotone (hM : M.PosDef) (htol : 0 ≤ tol) (xs : Fin n → ℝ) (hxs : M *ᵥ xs = b)
    (k : ℕ) (sk : CGState ℝ (Fin n → ℝ)) (hk : cgRun (spdOps M) b x0 tol k = some sk) :
    (∀ s', cgStep (spdOps M) (guardNorm (Real.sqrt (b ⬝ᵥ b))) tol (k + 1) sk = .cont s' →
      errEnergy M xs s'.x < errEnergy M xs sk.x) ∧
    (∀ out, cgStep (spdOps M) (guardNorm (Real.sqrt (b ⬝ᵥ b))) tol (k + 1) sk = .done out →
      errEnergy M xs out.x < errEnergy M xs sk.x) :=
  cgRun_energy_decrease (Matrix.mulVecLin Mᵀ) b x0 (spd_of_posDef M hM) tol htol xs hxs k sk hk

/-- **Optimality.**  The iterate held after `k` iterations lies in `x0 + K_k(M, b − M x0)` and
    minimises the energy of the error over that affine space. -/
theorem cg_optimal (hM : M.PosDef) (htol : 0 ≤ tol) (xs : Fin n → ℝ) (hxs : M *ᵥ xs = b)
    (k : ℕ) (sk : CGState ℝ (Fin n → ℝ)) (hk : cgRun (spdOps M) b x0 tol k = some sk) :
    sk.x - x0 ∈ krylovSpace M (b - M *ᵥ x0) k ∧
      ∀ y, y - x0 ∈ krylovSpace M (b - M *ᵥ x0) k → errEnergy M xs sk.x ≤ errEnergy M xs y := by
  rw [krylovSpace_eq]
  exact cgRun_optimal (Matrix.mulVecLin Mᵀ) b x0 (spd_of_posDef M hM) tol htol xs hxs k sk hk

end Real

/-! ### non-vacuity: a concrete 2 × 2 symmetric positive-definite system -/

/-- `[[2, 1], [1, 2]]` is positive definite: `xᵀ M x = x₀² + x₁² + (x₀ + x₁)²` -/
theorem posDef_example : (!![2, 1; 1, 2] : Matrix (Fin 2) (Fin 2) ℝ).PosDef := by
  apply Matrix.PosDef.of_dotProduct_mulVec_pos
  · ext i j
    fin_cases i <;> fin_cases j <;> simp
  · intro x hx
    have hne : x 0 ≠ 0 ∨ x 1 ≠ 0 := by
      by_contra hcon
      push Not at hcon
      apply hx
      ext i
      fin_cases i
      · exact hcon.1
      · exact hcon.2
    simp only [dotProduct, mulVec, Fin.sum_univ_two, star_trivial, Matrix.of_apply,
      Matrix.cons_val', Matrix.cons_val_zero, Matrix.cons_val_one, Matrix.cons_val_fin_one]
    have h0 : 0 ≤ x 0 ^ 2 := sq_nonneg _
    have h1 : 0 ≤ x 1 ^ 2 := sq_nonneg _
    have h2 : 0 ≤ (x 0 + x 1) ^ 2 := sq_nonneg _
    have h3 : 0 < x 0 ^ 2 + x 1 ^ 2 := by
      rcases hne with h | h
      · have := pow_pos (abs_pos.mpr h) 2
        rw [sq_abs] at this
        linarith
      · have := pow_pos (abs_pos.mpr h) 2
        rw [sq_abs] at this
        linarith
    nlinarith

/-- the hypotheses of the theorems above are satisfiable: the model's CG solves
    `2 x₀ + x₁ = 1, x₀ + 2 x₁ = 0` exactly from the zero guess within a budget of two iterations -/
example :
    (solveCG (spdOps !![2, 1; 1, 2]) ![1, 0] ![0, 0] 2 0).ok = true ∧
    (solveCG (spdOps !![2, 1; 1, 2]) ![1, 0] ![0, 0] 2 0).iters ≤ 2 ∧
    (!![2, 1; 1, 2] : Matrix (Fin 2) (Fin 2) ℝ) *ᵥ
      (solveCG (spdOps !![2, 1; 1, 2]) ![1, 0] ![0, 0] 2 0).x = ![1, 0] :=
  ⟨(cg_finite_termination _ _ _ 0 posDef_example 2 le_rfl le_rfl).1,
   (cg_finite_termination _ _ _ 0 posDef_example 2 le_rfl le_rfl).2,
   (cg_exact_solution _ _ _ posDef_example 2 le_rfl).2⟩

/-- and the loop really runs on this system: the initial residual test fails, so `cgRun … 0` is a
    state (the statements about running states are not vacuous) -/
example : ∃ s, cgRun (spdOps !![2, 1; 1, 2]) ![1, 0] ![0, 0] 0 0 = some s := by
  refine ⟨CGTheory.init (spdOps !![2, 1; 1, 2]) ![1, 0] ![0, 0], ?_⟩
  unfold cgRun
  rw [if_neg]
  intro hle
  rw [CGTheory.le_iff] at hle
  have hnb : 0 < guardNorm ((spdOps (!![2, 1; 1, 2] : Matrix (Fin 2) (Fin 2) ℝ)).norm2 ![1, 0]) :=
    guardNorm_pos (Real.sqrt_nonneg _)
  have h1 := (div_le_iff₀ hnb).mp hle
  rw [zero_mul] at h1
  have h2 : (CGTheory.init (spdOps (!![2, 1; 1, 2] : Matrix (Fin 2) (Fin 2) ℝ)) ![1, 0] ![0, 0]).r
      = ![1, 0] := by
    show ![1, 0] - (!![2, 1; 1, 2] : Matrix (Fin 2) (Fin 2) ℝ) *ᵥ ![0, 0] = ![1, 0]
    ext i; fin_cases i <;> simp
  have h3 : Real.sqrt (![(1 : ℝ), 0] ⬝ᵥ ![1, 0]) ≤ 0 := by
    have : (spdOps (!![2, 1; 1, 2] : Matrix (Fin 2) (Fin 2) ℝ)).norm2
        (CGTheory.init (spdOps (!![2, 1; 1, 2] : Matrix (Fin 2) (Fin 2) ℝ)) ![1, 0] ![0, 0]).r ≤ 0 := h1
    rw [h2] at this
    exact this
  have h4 : (![(1 : ℝ), 0] ⬝ᵥ ![1, 0]) = 1 := by simp [dotProduct]
  rw [h4, Real.sqrt_one] at h3
  linarith

end Ohsl.Props.C09
