/-
  Property C03 (continued) — the remaining dense-matrix operations follow their definitions for
  every shape.  All statements are class (S): ANY scalar type with arbitrary operations, no
  algebraic law, so they also hold of f64.  `Is m r c e` = "`m` is a well-formed `r × c` matrix
  whose entry (i,j) is `e i j`".  Proofs are in Ohsl/Lemmas/MatSpec2.lean.

  Covered: elementwise `+`, `-`, unary `-`, scalar `*`, `/`, `+`, `-`; `set_row`, `swap_rows`,
  `delete_row`, `fill`, `fill_diag`, `fill_row`, `fill_col`, `fill_band`, `fill_tridiag`, `eye`,
  `resize`, `transpose_in_place` (both code paths) / `transpose`; and arbitrary operation
  histories (`history_refines`, `history_wf`).
-/
import Ohsl.Props.C03
import Ohsl.Lemmas.MatSpec2

set_option linter.unusedSectionVars false
set_option linter.unusedVariables false

namespace Ohsl.Props.C03
open Ohsl Ohsl.Mat

section Structural
variable {K : Type} [Add K] [Sub K] [Mul K] [Neg K] [Zero K] [One K] [BEq K] [ScalarExt K]

/-! ### elementwise arithmetic -/

/-- the generic binary elementwise loop: entry (i,j) is `g a_ij b_ij` -/
theorem map2_correct (g : K → K → K) {a b : Mat K} {r c : Nat} {ea eb : Nat → Nat → K}
    (ha : Is a r c ea) (hb : Is b r c eb) :
    ∃ m', map2 g a b = .ok m' ∧ Is m' r c (fun i j => g (ea i j) (eb i j)) :=
  Mat.map2_spec g ha hb

/-- `&a + &b`: entrywise sum for equal shapes -/
theorem add_correct {a b : Mat K} {r c : Nat} {ea eb : Nat → Nat → K}
    (ha : Is a r c ea) (hb : Is b r c eb) :
    ∃ m', add a b = .ok m' ∧ Is m' r c (fun i j => ea i j + eb i j) :=
  Mat.add_spec ha hb

/-- mismatched shapes are a size panic -/
theorem add_guard (a b : Mat K) (h : a.rows ≠ b.rows ∨ a.cols ≠ b.cols) :
    add a b = .error .size := Mat.add_rejects a b h

theorem sub_correct {a b : Mat K} {r c : Nat} {ea eb : Nat → Nat → K}
    (ha : Is a r c ea) (hb : Is b r c eb) :
    ∃ m', sub a b = .ok m' ∧ Is m' r c (fun i j => ea i j - eb i j) :=
  Mat.sub_spec ha hb

theorem sub_guard (a b : Mat K) (h : a.rows ≠ b.rows ∨ a.cols ≠ b.cols) :
    sub a b = .error .size := Mat.sub_rejects a b h

/-- the generic unary elementwise loop with a fallible scalar function that succeeds on every
    entry -/
theorem mapM1_correct (f : K → Res K) (g : K → K) {a : Mat K} {r c : Nat} {e : Nat → Nat → K}
    (ha : Is a r c e) (hf : ∀ i j, i < r → j < c → f (e i j) = .ok (g (e i j))) :
    ∃ m', mapM1 f a = .ok m' ∧ Is m' r c (fun i j => g (e i j)) :=
  Mat.mapM1_spec f g ha hf

/-- a scalar function failing on the first entry makes the whole call fail with that error -/
theorem mapM1_guard (f : K → Res K) {a : Mat K} {r c : Nat} {e : Nat → Nat → K}
    (ha : Is a r c e) (hr : 0 < r) (hc : 0 < c) (err : Err) (hf : f (e 0 0) = .error err) :
    mapM1 f a = .error err := Mat.mapM1_rejects f ha hr hc err hf

theorem neg_correct {a : Mat K} {r c : Nat} {e : Nat → Nat → K} (ha : Is a r c e) :
    ∃ m', neg a = .ok m' ∧ Is m' r c (fun i j => - e i j) := Mat.neg_spec ha

theorem smul_correct {a : Mat K} {r c : Nat} {e : Nat → Nat → K} (ha : Is a r c e) (s : K) :
    ∃ m', smul a s = .ok m' ∧ Is m' r c (fun i j => e i j * s) := Mat.smul_spec ha s

theorem addS_correct {a : Mat K} {r c : Nat} {e : Nat → Nat → K} (ha : Is a r c e) (s : K) :
    ∃ m', addS a s = .ok m' ∧ Is m' r c (fun i j => e i j + s) := Mat.addS_spec ha s

theorem subS_correct {a : Mat K} {r c : Nat} {e : Nat → Nat → K} (ha : Is a r c e) (s : K) :
    ∃ m', subS a s = .ok m' ∧ Is m' r c (fun i j => e i j - s) := Mat.subS_spec ha s

/-- `matrix / scalar`, provided the scalar division succeeds on every entry -/
theorem sdiv_correct {a : Mat K} {r c : Nat} {e : Nat → Nat → K} (ha : Is a r c e) (s : K)
    (q : K → K) (hq : ∀ i j, i < r → j < c → ScalarExt.divM (e i j) s = .ok (q (e i j))) :
    ∃ m', sdiv a s = .ok m' ∧ Is m' r c (fun i j => q (e i j)) := Mat.sdiv_spec ha s q hq

/-! ### row editing -/

/-- `set_row`: writes exactly row `row`; frame condition included -/
theorem setRow_correct {m : Mat K} {r c : Nat} {e : Nat → Nat → K} (h : Is m r c e) {row : Nat}
    (v : Array K) (hv : v.size = c) (hr : row < r) :
    ∃ m', setRow m row v = .ok m' ∧
      Is m' r c (fun i j => if i = row then v[j]?.getD (e i j) else e i j) :=
  Mat.setRow_spec h v hv hr

theorem setRow_guard (m : Mat K) (row : Nat) (v : Array K) (h : v.size ≠ m.cols ∨ m.rows ≤ row) :
    ∃ e, setRow m row v = .error e := Mat.setRow_rejects m row v h

/-- `swap_rows`: the two rows are exchanged, everything else is unchanged -/
theorem swapRows_correct {m : Mat K} {r c : Nat} {e : Nat → Nat → K} (h : Is m r c e) {r1 r2 : Nat}
    (h1 : r1 < r) (h2 : r2 < r) :
    ∃ m', swapRows m r1 r2 = .ok m' ∧
      Is m' r c (fun i j => if i = r1 then e r2 j else if i = r2 then e r1 j else e i j) :=
  Mat.swapRows_spec h h1 h2

theorem swapRows_guard (m : Mat K) (r1 r2 : Nat) (h : m.rows ≤ r1 ∨ m.rows ≤ r2) :
    swapRows m r1 r2 = .error .range := Mat.swapRows_rejects m r1 r2 h

/-- `delete_row`: rows above unchanged, rows below shifted up, one row fewer -/
theorem deleteRow_correct {m : Mat K} {r c : Nat} {e : Nat → Nat → K} (h : Is m r c e) {row : Nat}
    (hr : row < r) :
    ∃ m', deleteRow m row = .ok m' ∧
      Is m' (r - 1) c (fun i j => if i < row then e i j else e (i + 1) j) :=
  Mat.deleteRow_spec h hr

theorem deleteRow_guard (m : Mat K) (row : Nat) (h : m.rows ≤ row) :
    deleteRow m row = .error .range := Mat.deleteRow_rejects m row h

/-! ### fills, identity, resize -/

theorem fill_correct {m : Mat K} {r c : Nat} {e : Nat → Nat → K} (h : Is m r c e) (x : K) :
    ∃ m', fill m x = .ok m' ∧ Is m' r c (fun _ _ => x) := Mat.fill_spec h x

theorem fillDiag_correct {m : Mat K} {r c : Nat} {e : Nat → Nat → K} (h : Is m r c e) (x : K) :
    ∃ m', fillDiag m x = .ok m' ∧ Is m' r c (fun i j => if i = j then x else e i j) :=
  Mat.fillDiag_spec h x

theorem fillRow_correct {m : Mat K} {r c : Nat} {e : Nat → Nat → K} (h : Is m r c e) {row : Nat}
    (hr : row < r) (x : K) :
    ∃ m', fillRow m row x = .ok m' ∧ Is m' r c (fun i j => if i = row then x else e i j) :=
  Mat.fillRow_spec h hr x

theorem fillRow_guard (m : Mat K) (row : Nat) (x : K) (h : m.rows ≤ row) :
    fillRow m row x = .error .range := Mat.fillRow_rejects m row x h

theorem fillCol_correct {m : Mat K} {r c : Nat} {e : Nat → Nat → K} (h : Is m r c e) {col : Nat}
    (hc : col < c) (x : K) :
    ∃ m', fillCol m col x = .ok m' ∧ Is m' r c (fun i j => if j = col then x else e i j) :=
  Mat.fillCol_spec h hc x

theorem fillCol_guard (m : Mat K) (col : Nat) (x : K) (h : m.cols ≤ col) :
    fillCol m col x = .error .range := Mat.fillCol_rejects m col x h

/-- `fill_band(offset, x)` never panics: exactly the in-range entries `(row, row+offset)` are set -/
theorem fillBand_correct {m : Mat K} {r c : Nat} {e : Nat → Nat → K} (h : Is m r c e) (offset : Int)
    (x : K) :
    ∃ m', fillBand m offset x = .ok m' ∧
      Is m' r c (fun i j => if (j : Int) = (i : Int) + offset then x else e i j) :=
  Mat.fillBand_spec h offset x

theorem fillTridiag_correct {m : Mat K} {r c : Nat} {e : Nat → Nat → K} (h : Is m r c e)
    (lower diag upper : K) :
    ∃ m', fillTridiag m lower diag upper = .ok m' ∧
      Is m' r c (fun i j => if j = i + 1 then upper else if i = j then diag
                            else if j + 1 = i then lower else e i j) :=
  Mat.fillTridiag_spec h lower diag upper

/-- `eye(n)`: 1 on the diagonal, 0 elsewhere -/
theorem eye_correct (n : Nat) :
    ∃ m', (eye n : Res (Mat K)) = .ok m' ∧ Is m' n n (fun i j => if i = j then 1 else 0) :=
  Mat.eye_spec n

/-- `resize(nr, nc)` for every old and new shape: overlap copied, zero elsewhere -/
theorem resize_correct {m : Mat K} {r c : Nat} {e : Nat → Nat → K} (h : Is m r c e) (nr nc : Nat) :
    ∃ m', resize m nr nc = .ok m' ∧
      Is m' nr nc (fun i j => if i < r ∧ j < c then e i j else 0) :=
  Mat.resize_spec h nr nc

/-! ### transpose -/

/-- `transpose_in_place` for BOTH code paths (square: pairwise swaps; non-square: column-major
    rebuild): the result is the well-formed `c × r` matrix with entry (i,j) = old entry (j,i) -/
theorem transposeInPlace_correct {m : Mat K} {r c : Nat} {e : Nat → Nat → K} (h : Is m r c e) :
    ∃ m', transposeInPlace m = .ok m' ∧ Is m' c r (fun i j => e j i) :=
  Mat.transposeInPlace_spec h

theorem transpose_correct {m : Mat K} {r c : Nat} {e : Nat → Nat → K} (h : Is m r c e) :
    ∃ m', transpose m = .ok m' ∧ Is m' c r (fun i j => e j i) :=
  Mat.transpose_spec h

/-- transposing twice gives back a matrix with the original description -/
theorem transpose_involutive {m : Mat K} {r c : Nat} {e : Nat → Nat → K} (h : Is m r c e) :
    ∃ m1 m2, transpose m = .ok m1 ∧ transpose m1 = .ok m2 ∧ Is m2 r c e := by
  obtain ⟨m1, h1, hI1⟩ := Mat.transpose_spec h
  obtain ⟨m2, h2, hI2⟩ := Mat.transpose_spec hI1
  exact ⟨m1, m2, h1, h2, hI2⟩

/-! ### histories -/

/-- every well-formed matrix is described by its own buffer -/
theorem wf_is {m : Mat K} (h : m.WF) : Is m m.rows m.cols (entryOf m) := Is.of_wf h

/-- one operation of the representative set `MatOp` refines the reference semantics
    `MatOp.ref` on `(rows, cols, entries)` triples: success with a related state, or both reject -/
theorem step_refines (op : MatOp K) (hv : op.Valid) {m : Mat K} {s : Ref K} (h : Rel m s) :
    Refines (op.apply m) (op.ref s) := Mat.step_refines op hv h

/-- **arbitrary histories**: by induction over the operation list, the model's state after the
    history is `Is`-related to the reference state (and both reject together) -/
theorem history_refines (ops : List (MatOp K)) (hv : ∀ op ∈ ops, op.Valid) {m : Mat K} {s : Ref K}
    (h : Rel m s) : Refines (run ops m) (refRun ops s) := Mat.run_refines ops hv h

/-- unfolded form of `history_refines` -/
theorem history_refines' (ops : List (MatOp K)) (hv : ∀ op ∈ ops, op.Valid) {m : Mat K}
    {r c : Nat} {e : Nat → Nat → K} (h : Is m r c e) :
    (∀ s', refRun ops ⟨r, c, e⟩ = some s' →
        ∃ m', ops.foldlM (fun m op => op.apply m) m = .ok m' ∧ Is m' s'.rows s'.cols s'.entry) ∧
    (refRun ops ⟨r, c, e⟩ = none →
        ∃ err, ops.foldlM (fun m op => op.apply m) m = .error err) := by
  have R := Mat.run_refines ops hv (m := m) (s := ⟨r, c, e⟩) h
  rw [run_eq_foldlM] at R
  constructor
  · intro s' hs'
    rw [hs'] at R
    exact R
  · intro hn
    rw [hn] at R
    exact R

/-- `len == rows * cols` is invariant under every history that does not panic -/
theorem history_wf (ops : List (MatOp K)) (hv : ∀ op ∈ ops, op.Valid) {m m' : Mat K} (h : m.WF)
    (hrun : run ops m = .ok m') : m'.WF := Mat.run_wf ops hv h hrun

end Structural

/-! ### non-vacuity: concrete calls on the 2×3 matrix `A` over ℚ -/
section Examples
attribute [local instance] Alg.scalarExt

example : ∃ t, transpose A = .ok t ∧ t.rows = 3 ∧ t.cols = 2 ∧ t.get 2 1 = .ok 6 := by
  obtain ⟨t, ht, hI⟩ := transpose_correct A_is
  refine ⟨t, ht, hI.rows, hI.cols, ?_⟩
  rw [hI.entry 2 1 (by omega) (by omega)]
  simp [A]

/-- `sdiv_correct`'s hypothesis is satisfiable: division by a non-zero rational -/
example : ∃ p, sdiv A 2 = .ok p ∧ p.rows = 2 ∧ p.cols = 3 := by
  obtain ⟨p, hp, hI⟩ := sdiv_correct A_is (2 : ℚ) (fun x => x / 2)
    (fun i j _ _ => by simp [ScalarExt.divM])
  exact ⟨p, hp, hI.rows, hI.cols⟩

/-- a history mixing shape-changing operations -/
example : ∃ p, run [.transpose, .fillDiag 7, .resize 4 4, .swapRows 0 3, .deleteRow 1, .add (Mat.new 3 4 1)] A
    = .ok p ∧ p.WF ∧ p.rows = 3 ∧ p.cols = 4 ∧ p.get 2 0 = .ok 8 := by
  have hv : ∀ op ∈ ([.transpose, .fillDiag 7, .resize 4 4, .swapRows 0 3, .deleteRow 1,
      .add (Mat.new 3 4 1)] : List (MatOp ℚ)), op.Valid := by
    intro op hop
    simp only [List.mem_cons, List.mem_nil_iff, or_false] at hop
    rcases hop with rfl | rfl | rfl | rfl | rfl | rfl <;> trivial
  have R := history_refines _ hv (s := ⟨2, 3, _⟩) A_is
  simp [refRun, MatOp.ref, Mat.new, Option.bind, Refines] at R
  obtain ⟨p, hp, hI⟩ := R
  refine ⟨p, hp, hI.wf, hI.rows, hI.cols, ?_⟩
  rw [hI.entry 2 0 (show 2 < 3 by omega) (show 0 < 4 by omega)]
  simp [entryOf]
  norm_num

/-- a rejected step makes the whole history panic -/
example : ∃ err, run [.transpose, .swapRows 0 3] A = .error err := by
  have R := history_refines [.transpose, .swapRows 0 3] (fun _ _ => by
    rename_i op hop
    simp only [List.mem_cons, List.mem_nil_iff, or_false] at hop
    rcases hop with rfl | rfl <;> trivial) (s := ⟨2, 3, _⟩) A_is
  simpa [refRun, MatOp.ref, Option.bind, Refines] using R

end Examples

end Ohsl.Props.C03
