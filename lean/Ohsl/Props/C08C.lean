/-
  Property C08 (part C) — from the abstract solver theorems to the array-based solver that is
  executed.  Models: Ohsl/Model/Krylov.lean, Ohsl/Model/Sparse.lean.

  The executable driver instantiates the solver model at `V = Array Float` with the record
  `Ohsl.DrvKrylov.vops`.  `arrOps` below is that record, generic in the scalar
  (`driver_vops_eq_arrOps`).

  (S) `VHom o₁ o₂ φ`: `φ` maps every operation of `o₁` to that of `o₂` and preserves dot products
      and norms.  The four solvers commute with every such homomorphism (`cg_hom`, `bicg_hom`,
      `stab_hom`, `qmr_hom`; loop rule `iterate_hom`) — any scalar type, no algebraic law used.
  (E) over a field, for a well-formed square CSC storage `s` of order `n` (`SqWF s n`): the arrays of
      size `n` (`SqArr`) are closed under the operations of `arrOps` (`subOps`); the inclusion into
      `Array K` (`valHom`) and `a ↦ (i ↦ a[i])` into the `K`-module `Fin n → K` (`fnHom`) are
      homomorphisms, `multiply s` going to the linear map `sqLin s n` (= `C07.linOf s`).  Hence the
      executed solver and the module-level solver report the same flag / count / error and related
      `x` (`cg_sim`, `bicg_sim`, `stab_sim`, `qmr_sim`), and the theorems of C08 / C08B / C09 about
      `modOps` hold of the arrays: `cg_success_sound_sparse`, `bicg_success_sound_sparse`,
      `stab_success_sound_sparse`, `qmr_success_sound_sparse` (success ⇒ the TRUE residual
      `b − s·x_out`, formed with the specification `Sp.mulF` of the product, passed the code's test),
      `exact_guess_sparse`, `exact_guess_sparse_spec`, `zero_rhs_sparse`.
  NOT covered (class F): `Float` is not a field; over f64 the recurrence residual drifts from the
  true residual — measured by the float oracle only.
-/
import Ohsl.Props.C08B
import Ohsl.Props.C07S
import Ohsl.Props.C09
import Ohsl.Lemmas.Alg
import Ohsl.Driver.Krylov

set_option linter.unusedSectionVars false
set_option linter.unusedVariables false
set_option linter.unusedSimpArgs false

namespace Ohsl.Props.C08
open Ohsl Ohsl.Krylov

/-! ### (S) the solvers commute with homomorphisms of operation records -/
section Structural
variable {K V W : Type} [Add K] [Sub K] [Mul K] [Neg K] [Div K] [Zero K] [One K] [BEq K] [Transc K]

/-- `φ : V → W` maps every operation of `o₁` to the operation of `o₂`; scalars are preserved -/
structure VHom (o₁ : VOps K V) (o₂ : VOps K W) (φ : V → W) : Prop where
  add : ∀ a b, φ (o₁.add a b) = o₂.add (φ a) (φ b)
  sub : ∀ a b, φ (o₁.sub a b) = o₂.sub (φ a) (φ b)
  smul : ∀ a k, φ (o₁.smul a k) = o₂.smul (φ a) k
  lsmul : ∀ k a, φ (o₁.lsmul k a) = o₂.lsmul k (φ a)
  sdiv : ∀ a k, φ (o₁.sdiv a k) = o₂.sdiv (φ a) k
  dot : ∀ a b, o₁.dot a b = o₂.dot (φ a) (φ b)
  norm2 : ∀ a, o₁.norm2 a = o₂.norm2 (φ a)
  zero : φ o₁.zero = o₂.zero
  A : ∀ a, φ (o₁.A a) = o₂.A (φ a)
  At : ∀ a, φ (o₁.At a) = o₂.At (φ a)

/-- image of a solver result: flags and scalars unchanged, `x` mapped -/
def mapOut (φ : V → W) (r : KOut K V) : KOut K W := ⟨r.ok, r.iters, r.err, φ r.x⟩

def mapStep {σ₁ σ₂ ρ₁ ρ₂ : Type} (g : σ₁ → σ₂) (h : ρ₁ → ρ₂) : Step σ₁ ρ₁ → Step σ₂ ρ₂
  | .cont s => .cont (g s)
  | .done r => .done (h r)

def mapCG (φ : V → W) (s : CGState K V) : CGState K W := ⟨φ s.x, φ s.r, φ s.p, s.rho1, s.resid⟩

def mapBiCG (φ : V → W) (s : BiCGState K V) : BiCGState K W :=
  ⟨φ s.x, φ s.r, φ s.rr, φ s.z, φ s.p, φ s.pp, s.rho2, s.err⟩

def mapStab (φ : V → W) (s : StabState K V) : StabState K W :=
  ⟨φ s.x, φ s.r, φ s.p, φ s.v, s.rho2, s.alpha, s.omega, s.resid⟩

def mapQMR (φ : V → W) (s : QMRState K V) : QMRState K W :=
  ⟨φ s.x, φ s.r, φ s.vT, φ s.y, φ s.wT, φ s.z, φ s.p, φ s.q, φ s.d, φ s.s,
    s.rho, s.xi, s.gamma, s.eta, s.theta, s.ep, s.resid⟩

/-- simulation rule for `iterate`: if the second loop body/fall-through is the image of the first
    on image states, the second loop's result is the image of the first loop's result -/
theorem iterate_hom {σ₁ σ₂ ρ₁ ρ₂ : Type} (g : σ₁ → σ₂) (h : ρ₁ → ρ₂)
    (f₁ : Nat → σ₁ → Step σ₁ ρ₁) (f₂ : Nat → σ₂ → Step σ₂ ρ₂) (fin₁ : σ₁ → ρ₁) (fin₂ : σ₂ → ρ₂)
    (hstep : ∀ i s, f₂ i (g s) = mapStep g h (f₁ i s))
    (hfin : ∀ s, fin₂ (g s) = h (fin₁ s)) :
    ∀ (rem i : Nat) (s : σ₁), iterate f₂ fin₂ rem i (g s) = h (iterate f₁ fin₁ rem i s)
  | 0, i, s => by simp only [iterate, hfin]
  | rem + 1, i, s => by
    simp only [iterate, hstep]
    cases f₁ i s with
    | done r => rfl
    | cont s' => exact iterate_hom g h f₁ f₂ fin₁ fin₂ hstep hfin rem (i + 1) s'

private theorem mapStep_ite {σ₁ σ₂ ρ₁ ρ₂ : Type} (g : σ₁ → σ₂) (h : ρ₁ → ρ₂) (c : Prop) [Decidable c]
    (a b : Step σ₁ ρ₁) : mapStep g h (if c then a else b) = if c then mapStep g h a else mapStep g h b := by
  split <;> rfl

private theorem mapStep_done {σ₁ σ₂ ρ₁ ρ₂ : Type} (g : σ₁ → σ₂) (h : ρ₁ → ρ₂) (r : ρ₁) :
    mapStep g h (.done r : Step σ₁ ρ₁) = .done (h r) := rfl

private theorem mapStep_cont {σ₁ σ₂ ρ₁ ρ₂ : Type} (g : σ₁ → σ₂) (h : ρ₁ → ρ₂) (s : σ₁) :
    mapStep g h (.cont s : Step σ₁ ρ₁) = .cont (g s) := rfl

variable {o₁ : VOps K V} {o₂ : VOps K W} {φ : V → W}

/-! #### CG -/

theorem cgDir_hom (H : VHom o₁ o₂ φ) (i : Nat) (z p : V) (rho rho1 : K) :
    φ (cgDir o₁ i z p rho rho1) = cgDir o₂ i (φ z) (φ p) rho rho1 := by
  unfold cgDir
  split
  · rfl
  · rw [H.add, H.smul]

theorem cgStep_hom (H : VHom o₁ o₂ φ) (normb tol : K) (i : Nat) (s : CGState K V) :
    cgStep o₂ normb tol i (mapCG φ s) = mapStep (mapCG φ) (mapOut φ) (cgStep o₁ normb tol i s) := by
  unfold cgStep
  simp only [mapCG, mapOut, mapStep_ite, mapStep_done, mapStep_cont, H.dot, H.norm2, H.add, H.sub,
    H.smul, H.A, cgDir_hom H]
  rfl

/-- **CG commutes with homomorphisms** -/
theorem cg_hom (H : VHom o₁ o₂ φ) (b x : V) (maxIter : Nat) (tol : K) :
    solveCG o₂ (φ b) (φ x) maxIter tol = mapOut φ (solveCG o₁ b x maxIter tol) := by
  unfold solveCG
  simp only [H.norm2, H.sub, H.A]
  split
  · rfl
  · have := iterate_hom (mapCG φ) (mapOut φ) (cgStep o₁ (guardNorm (o₂.norm2 (φ b))) tol)
      (cgStep o₂ (guardNorm (o₂.norm2 (φ b))) tol)
      (fun s => ⟨false, maxIter, s.resid, s.x⟩) (fun s => ⟨false, maxIter, s.resid, s.x⟩)
      (cgStep_hom H _ tol) (fun s => rfl) maxIter 1
      ⟨x, o₁.sub b (o₁.A x), o₁.zero, 1, o₂.norm2 (o₂.sub (φ b) (o₂.A (φ x))) / guardNorm (o₂.norm2 (φ b))⟩
    simp only [mapCG, H.sub, H.A, H.zero] at this
    exact this

/-! #### BiCG -/

theorem bicgDir_hom (H : VHom o₁ o₂ φ) (i : Nat) (z p : V) (rho1 rho2 : K) :
    φ (bicgDir o₁ i z p rho1 rho2) = bicgDir o₂ i (φ z) (φ p) rho1 rho2 := by
  unfold bicgDir
  split
  · rfl
  · rw [H.add, H.smul]

theorem bicgErr_hom (H : VHom o₁ o₂ φ) (itol : Nat) (r z : V) (bnrm : K) :
    bicgErr o₁ itol r z bnrm = bicgErr o₂ itol (φ r) (φ z) bnrm := by
  unfold bicgErr
  simp only [H.norm2]

theorem bicgStep_hom (H : VHom o₁ o₂ φ) (bnrm tol : K) (itol i : Nat) (s : BiCGState K V) :
    bicgStep o₂ bnrm tol itol i (mapBiCG φ s) =
      mapStep (mapBiCG φ) (mapOut φ) (bicgStep o₁ bnrm tol itol i s) := by
  unfold bicgStep
  simp only [mapBiCG, mapOut, mapStep_ite, mapStep_done, mapStep_cont, H.dot, H.norm2, H.add, H.sub,
    H.smul, H.A, H.At, bicgDir_hom H, bicgErr_hom H]
  rfl

/-- **BiCG commutes with homomorphisms** -/
theorem bicg_hom (H : VHom o₁ o₂ φ) (b x : V) (maxIter : Nat) (tol : K) (itol : Nat) :
    solveBiCG o₂ (φ b) (φ x) maxIter tol itol = mapOut φ (solveBiCG o₁ b x maxIter tol itol) := by
  unfold solveBiCG
  simp only [H.norm2, bicgErr_hom H, H.sub, H.A]
  split
  · rfl
  · have := iterate_hom (mapBiCG φ) (mapOut φ) (bicgStep o₁ (guardNorm (o₂.norm2 (φ b))) tol itol)
      (bicgStep o₂ (guardNorm (o₂.norm2 (φ b))) tol itol)
      (fun s => ⟨false, maxIter, s.err, s.x⟩) (fun s => ⟨false, maxIter, s.err, s.x⟩)
      (bicgStep_hom H _ tol itol) (fun s => rfl) maxIter 1
      ⟨x, o₁.sub b (o₁.A x), o₁.sub b (o₁.A x), o₁.sub b (o₁.A x), o₁.zero, o₁.zero, 1,
        bicgErr o₂ itol (o₂.sub (φ b) (o₂.A (φ x))) (o₂.sub (φ b) (o₂.A (φ x)))
          (guardNorm (o₂.norm2 (φ b)))⟩
    simp only [mapBiCG, H.sub, H.A, H.zero] at this
    exact this

/-! #### BiCGSTAB -/

theorem stabDir_hom (H : VHom o₁ o₂ φ) (i : Nat) (s : StabState K V) (rho1 : K) :
    φ (stabDir o₁ i s rho1) = stabDir o₂ i (mapStab φ s) rho1 := by
  unfold stabDir
  split
  · rfl
  · simp only [mapStab, H.add, H.lsmul, H.sub]

theorem stabStep_hom (H : VHom o₁ o₂ φ) (rtilde : V) (normb tol : K) (i : Nat) (s : StabState K V) :
    stabStep o₂ (φ rtilde) normb tol i (mapStab φ s) =
      mapStep (mapStab φ) (mapOut φ) (stabStep o₁ rtilde normb tol i s) := by
  unfold stabStep
  simp only [mapStab, mapOut, mapStep_ite, mapStep_done, mapStep_cont, H.dot, H.norm2, H.add, H.sub,
    H.smul, H.lsmul, H.A, stabDir_hom H]
  rfl

/-- **BiCGSTAB commutes with homomorphisms** -/
theorem stab_hom (H : VHom o₁ o₂ φ) (b x : V) (maxIter : Nat) (tol : K) :
    solveBiCGSTAB o₂ (φ b) (φ x) maxIter tol = mapOut φ (solveBiCGSTAB o₁ b x maxIter tol) := by
  unfold solveBiCGSTAB
  simp only [H.norm2, H.sub, H.A]
  split
  · rfl
  · have := iterate_hom (mapStab φ) (mapOut φ)
      (stabStep o₁ (o₁.sub b (o₁.A x)) (guardNorm (o₂.norm2 (φ b))) tol)
      (stabStep o₂ (φ (o₁.sub b (o₁.A x))) (guardNorm (o₂.norm2 (φ b))) tol)
      (fun s => ⟨false, maxIter, s.resid, s.x⟩) (fun s => ⟨false, maxIter, s.resid, s.x⟩)
      (stabStep_hom H _ _ tol) (fun s => rfl) maxIter 1
      ⟨x, o₁.sub b (o₁.A x), o₁.zero, o₁.zero, 1, 1, 1,
        o₂.norm2 (o₂.sub (φ b) (o₂.A (φ x))) / guardNorm (o₂.norm2 (φ b))⟩
    simp only [mapStab, H.sub, H.A, H.zero] at this
    exact this

/-! #### QMR -/

theorem qmrDir_hom (H : VHom o₁ o₂ φ) (i : Nat) (y p : V) (c : K) :
    φ (qmrDir o₁ i y p c) = qmrDir o₂ i (φ y) (φ p) c := by
  unfold qmrDir
  split
  · rw [H.sub, H.lsmul]
  · rfl

theorem qmrUpd_hom (H : VHom o₁ o₂ φ) (i : Nat) (eta : K) (p : V) (c : K) (d : V) :
    φ (qmrUpd o₁ i eta p c d) = qmrUpd o₂ i eta (φ p) c (φ d) := by
  unfold qmrUpd
  split
  · rw [H.add, H.lsmul, H.lsmul]
  · rw [H.lsmul]

theorem qmrStep_hom (H : VHom o₁ o₂ φ) (normb tol : K) (i : Nat) (s : QMRState K V) :
    qmrStep o₂ normb tol i (mapQMR φ s) =
      mapStep (mapQMR φ) (mapOut φ) (qmrStep o₁ normb tol i s) := by
  unfold qmrStep
  simp only [mapQMR, mapOut, mapStep_ite, mapStep_done, mapStep_cont, H.dot, H.norm2, H.add, H.sub,
    H.sdiv, H.lsmul, H.A, H.At, qmrDir_hom H, qmrUpd_hom H]
  rfl

/-- **QMR commutes with homomorphisms** -/
theorem qmr_hom (H : VHom o₁ o₂ φ) (b x : V) (maxIter : Nat) (tol : K) :
    solveQMR o₂ (φ b) (φ x) maxIter tol = mapOut φ (solveQMR o₁ b x maxIter tol) := by
  unfold solveQMR
  simp only [H.norm2, H.sub, H.A]
  split
  · rfl
  · have := iterate_hom (mapQMR φ) (mapOut φ) (qmrStep o₁ (guardNorm (o₂.norm2 (φ b))) tol)
      (qmrStep o₂ (guardNorm (o₂.norm2 (φ b))) tol)
      (fun s => ⟨false, maxIter, s.resid, s.x⟩) (fun s => ⟨false, maxIter, s.resid, s.x⟩)
      (qmrStep_hom H _ tol) (fun s => rfl) maxIter 1
      ⟨x, o₁.sub b (o₁.A x), o₁.sub b (o₁.A x), o₁.sub b (o₁.A x), o₁.sub b (o₁.A x),
        o₁.sub b (o₁.A x), o₁.zero, o₁.zero, o₁.zero, o₁.zero,
        o₂.norm2 (o₂.sub (φ b) (o₂.A (φ x))), o₂.norm2 (o₂.sub (φ b) (o₂.A (φ x))), 1, -1, 0, 1,
        o₂.norm2 (o₂.sub (φ b) (o₂.A (φ x))) / guardNorm (o₂.norm2 (φ b))⟩
    simp only [mapQMR, H.sub, H.A, H.zero] at this
    exact this

end Structural
/-! ### the array-level operations the driver executes -/
section Generic
variable {K : Type} [Add K] [Sub K] [Mul K] [Div K] [Zero K]

/-- The operations of `Vector<K>` over `Array K` in the forms the solvers use them, with the sparse
    products of `s`.  This is `Ohsl.DrvKrylov.vops` (Ohsl/Driver/Krylov.lean) with `Float` replaced
    by an arbitrary scalar and `Vec.norm2` by a parameter. -/
def arrOps (s : Sp K) (n : Nat) (norm2 : Array K → K) : VOps K (Array K) where
  add a b := Array.zipWith (· + ·) a b
  sub a b := Array.zipWith (· - ·) a b
  smul v k := v.map (· * k)
  lsmul k v := v.map (k * ·)
  sdiv v k := v.map (· / k)
  dot a b := (Array.zipWith (· * ·) a b).foldl (· + ·) 0
  norm2 := norm2
  zero := Array.replicate n 0
  A v := match Sp.multiply s v with | .ok r => r | .error _ => #[]
  At v := match Sp.transposeMultiply s v with | .ok r => r | .error _ => #[]

/-- the record the executable driver passes to the solver model IS `arrOps` at `Float` -/
theorem driver_vops_eq_arrOps (s : Sp Float) (n : Nat) :
    Ohsl.DrvKrylov.vops s n = arrOps s n Vec.norm2 := by
  unfold Ohsl.DrvKrylov.vops arrOps
  congr
  · funext v; cases Sp.multiply s v <;> rfl
  · funext v; cases Sp.transposeMultiply s v <;> rfl

end Generic

/-! ### (E) transport between arrays of size `n` and functions `Fin n → K` -/
section Exact
open Ohsl.Sp Ohsl.Props.C07
variable {K : Type} [Field K] [DecidableEq K] [Transc K]
attribute [local instance] Ohsl.Alg.scalarExtField

/-- `s` is a well-formed square storage of order `n` -/
structure SqWF (s : Sp K) (n : Nat) : Prop where
  wf : WF s
  rows : s.rows = n
  cols : s.cols = n

/-- the function a (size-`n`) array denotes -/
def toFn (n : Nat) (a : Array K) : Fin n → K := fun i => a[i.1]?.getD 0

/-- the linear map `Fin n → K → Fin n → K` denoted by the storage (`Sp.mulF`, i.e. the matrix with
    entries `Sp.entry`); for `n = s.rows = s.cols` it is `C07.linOf s` (`sqLin_eq_linOf`) -/
def sqLin (s : Sp K) (n : Nat) : (Fin n → K) →ₗ[K] (Fin n → K) where
  toFun v i := mulF s (fun j => if hj : j < n then v ⟨j, hj⟩ else 0) i
  map_add' v w := by
    funext i
    simp only [Pi.add_apply]
    rw [← mulF_add]
    apply mulF_congr
    intro j hj
    split <;> simp
  map_smul' a v := by
    funext i
    simp only [Pi.smul_apply, smul_eq_mul, RingHom.id_apply]
    rw [mul_comm, ← mulF_smul]
    apply mulF_congr
    intro j hj
    split <;> simp [mul_comm]

theorem sqLin_eq_linOf (s : Sp K) (h : s.rows = s.cols) (v : Fin s.cols → K) (i : Fin s.cols) :
    sqLin s s.cols v i = linOf s v (Fin.cast h.symm i) := rfl

/-- the true residual `b − s·x`, with the product given by its specification `Sp.mulF` -/
def trueResid (s : Sp K) (n : Nat) (b x : Array K) : Array K :=
  Array.ofFn fun i : Fin n => b[i.1]?.getD 0 - mulF s (fun j => x[j]?.getD 0) i

theorem ofFn_toFn {n : Nat} (a : Array K) (h : a.size = n) : Array.ofFn (toFn n a) = a := by
  apply Array.ext_getElem?
  intro i
  rw [Array.getElem?_ofFn]
  by_cases hi : i < n
  · have : i < a.size := by omega
    simp [hi, toFn, this]
  · have : a.size ≤ i := by omega
    simp [hi, this]

theorem toFn_ofFn {n : Nat} (f : Fin n → K) : toFn n (Array.ofFn f) = f := by
  funext i
  simp [toFn, Array.getElem?_ofFn, i.2]

/-- on a well-formed square storage the driver's total wrapper of `multiply` is the specification -/
theorem arrA_eq {s : Sp K} {n : Nat} (h : SqWF s n) (norm2 : Array K → K) (v : Array K)
    (hv : v.size = n) :
    (arrOps s n norm2).A v = Array.ofFn fun i : Fin n => mulF s (fun j => v[j]?.getD 0) i := by
  obtain ⟨wf, hr, hc⟩ := h
  subst hr
  show (match Sp.multiply s v with | .ok r => r | .error _ => #[]) = _
  rw [multiply_eq wf v (hv.trans hc.symm)]

/-- likewise for `transpose_multiply` -/
theorem arrAt_eq {s : Sp K} {n : Nat} (h : SqWF s n) (norm2 : Array K → K) (v : Array K)
    (hv : v.size = n) :
    (arrOps s n norm2).At v = Array.ofFn fun j : Fin n => tmulF s (fun i => v[i]?.getD 0) j := by
  obtain ⟨wf, hr, hc⟩ := h
  subst hc
  show (match Sp.transposeMultiply s v with | .ok r => r | .error _ => #[]) = _
  rw [transposeMultiply_eq wf v (hv.trans hr.symm)]

/-- arrays of size `n` -/
def SqArr (K : Type) (n : Nat) : Type := {a : Array K // a.size = n}

/-- the operations of `arrOps` restricted to arrays of size `n` (they preserve the size) -/
def subOps {s : Sp K} {n : Nat} (h : SqWF s n) (norm2 : Array K → K) : VOps K (SqArr K n) where
  add a b := ⟨(arrOps s n norm2).add a.1 b.1, by simp [arrOps, a.2, b.2]⟩
  sub a b := ⟨(arrOps s n norm2).sub a.1 b.1, by simp [arrOps, a.2, b.2]⟩
  smul v k := ⟨(arrOps s n norm2).smul v.1 k, by simp [arrOps, v.2]⟩
  lsmul k v := ⟨(arrOps s n norm2).lsmul k v.1, by simp [arrOps, v.2]⟩
  sdiv v k := ⟨(arrOps s n norm2).sdiv v.1 k, by simp [arrOps, v.2]⟩
  dot a b := (arrOps s n norm2).dot a.1 b.1
  norm2 a := norm2 a.1
  zero := ⟨(arrOps s n norm2).zero, by simp [arrOps]⟩
  A v := ⟨(arrOps s n norm2).A v.1, by rw [arrA_eq h norm2 v.1 v.2]; simp⟩
  At v := ⟨(arrOps s n norm2).At v.1, by rw [arrAt_eq h norm2 v.1 v.2]; simp⟩

/-- **transport 1**: the inclusion of the size-`n` arrays into all arrays is a homomorphism -/
theorem valHom {s : Sp K} {n : Nat} (h : SqWF s n) (norm2 : Array K → K) :
    VHom (subOps h norm2) (arrOps s n norm2) Subtype.val :=
  ⟨fun _ _ => rfl, fun _ _ => rfl, fun _ _ => rfl, fun _ _ => rfl, fun _ _ => rfl, fun _ _ => rfl,
    fun _ => rfl, rfl, fun _ => rfl, fun _ => rfl⟩

/-- the module-level operations the array operations correspond to: `A` is the linear map of the
    storage; transposed product, dot product and norm are the array ones, conjugated -/
def fnOps (s : Sp K) (n : Nat) (norm2 : Array K → K) : VOps K (Fin n → K) :=
  modOps (sqLin s n)
    (fun f => toFn n ((arrOps s n norm2).At (Array.ofFn f)))
    (fun f g => (arrOps s n norm2).dot (Array.ofFn f) (Array.ofFn g))
    (fun f => norm2 (Array.ofFn f))

/-- **transport 2**: on arrays of size `n`, every operation of `arrOps s` corresponds under
    `a ↦ (i ↦ a[i])` to the operation of the `K`-module `Fin n → K`:
    `zipWith (+)` to `+`, `map (· * k)` to `k • ·`, `map (· / k)` to `k⁻¹ • ·`, the zero array to `0`,
    and `multiply s` to the linear map `sqLin s n` (= `linOf s`). -/
theorem fnHom {s : Sp K} {n : Nat} (h : SqWF s n) (norm2 : Array K → K) :
    VHom (subOps h norm2) (fnOps s n norm2) (fun a => toFn n a.1) where
  add a b := by
    funext i
    have ha : i.1 < a.1.size := by rw [a.2]; exact i.2
    have hb : i.1 < b.1.size := by rw [b.2]; exact i.2
    simp [subOps, arrOps, fnOps, modOps, toFn, Array.getElem?_zipWith, ha, hb]
  sub a b := by
    funext i
    have ha : i.1 < a.1.size := by rw [a.2]; exact i.2
    have hb : i.1 < b.1.size := by rw [b.2]; exact i.2
    simp [subOps, arrOps, fnOps, modOps, toFn, Array.getElem?_zipWith, ha, hb]
  smul a k := by
    funext i
    have ha : i.1 < a.1.size := by rw [a.2]; exact i.2
    simp [subOps, arrOps, fnOps, modOps, toFn, ha, mul_comm]
  lsmul k a := by
    funext i
    have ha : i.1 < a.1.size := by rw [a.2]; exact i.2
    simp [subOps, arrOps, fnOps, modOps, toFn, ha]
  sdiv a k := by
    funext i
    have ha : i.1 < a.1.size := by rw [a.2]; exact i.2
    simp [subOps, arrOps, fnOps, modOps, toFn, ha, div_eq_inv_mul]
  dot a b := by
    show (arrOps s n norm2).dot a.1 b.1 = (arrOps s n norm2).dot (Array.ofFn (toFn n a.1)) (Array.ofFn (toFn n b.1))
    rw [ofFn_toFn a.1 a.2, ofFn_toFn b.1 b.2]
  norm2 a := by
    show norm2 a.1 = norm2 (Array.ofFn (toFn n a.1))
    rw [ofFn_toFn a.1 a.2]
  zero := by
    funext i
    simp [subOps, arrOps, fnOps, modOps, toFn, i.2]
  A a := by
    show toFn n ((arrOps s n norm2).A a.1) = sqLin s n (toFn n a.1)
    rw [arrA_eq h norm2 a.1 a.2, toFn_ofFn]
    funext i
    show mulF s _ i = mulF s _ i
    apply mulF_congr
    intro j hj
    have : j < n := by rw [← h.cols]; exact hj
    simp [toFn, this]
  At a := by
    show toFn n ((arrOps s n norm2).At a.1) = toFn n ((arrOps s n norm2).At (Array.ofFn (toFn n a.1)))
    rw [ofFn_toFn a.1 a.2]

/-! #### consequences for the executed (array) solvers -/

/-- the residual the code computes with its own operations is the specification's residual -/
theorem code_resid_eq {s : Sp K} {n : Nat} (h : SqWF s n) (norm2 : Array K → K) (b x : Array K)
    (hb : b.size = n) (hx : x.size = n) :
    (arrOps s n norm2).sub b ((arrOps s n norm2).A x) = trueResid s n b x := by
  rw [arrA_eq h norm2 x hx]
  apply Array.ext_getElem?
  intro i
  simp only [arrOps, trueResid, Array.getElem?_zipWith, Array.getElem?_ofFn]
  by_cases hi : i < n
  · have : i < b.size := by omega
    simp [hi, this]
  · have : b.size ≤ i := by omega
    simp [hi, this]

/-- the module-level residual, read back as an array, is the specification's residual -/
theorem fn_resid_eq {s : Sp K} {n : Nat} (h : SqWF s n) (b x : Array K) :
    Array.ofFn (toFn n b - sqLin s n (toFn n x)) = trueResid s n b x := by
  unfold trueResid
  congr 1
  funext i
  show b[i.1]?.getD 0 - mulF s _ i = b[i.1]?.getD 0 - mulF s _ i
  congr 1
  apply mulF_congr
  intro j hj
  have : j < n := by rw [← h.cols]; exact hj
  simp [toFn, this]

/-- with the identity preconditioner (`z = r`) both BiCG error measures are `‖r‖ / bnrm` -/
theorem bicgErr_self {V : Type} (o : VOps K V) (itol : Nat) (r : V) (bnrm : K) :
    bicgErr o itol r r bnrm = o.norm2 r / bnrm := by
  unfold bicgErr
  split <;> rfl

variable {s : Sp K} {n : Nat} (h : SqWF s n) (norm2 : Array K → K)
include h

/-- the array solver's result is the image of the size-`n`-array solver's result … -/
private theorem out_val (b x : Array K) (hb : b.size = n) (hx : x.size = n) :
    ∀ (solve : {V : Type} → VOps K V → V → V → KOut K V),
      (∀ {V W : Type} (o₁ : VOps K V) (o₂ : VOps K W) (φ : V → W), VHom o₁ o₂ φ →
        ∀ b x, solve o₂ (φ b) (φ x) = mapOut φ (solve o₁ b x)) →
      ∃ out : KOut K (SqArr K n),
        solve (arrOps s n norm2) b x = mapOut Subtype.val out ∧
        solve (fnOps s n norm2) (toFn n b) (toFn n x) = mapOut (fun a => toFn n a.1) out := by
  intro solve hs
  exact ⟨solve (subOps h norm2) ⟨b, hb⟩ ⟨x, hx⟩,
    hs _ _ _ (valHom h norm2) ⟨b, hb⟩ ⟨x, hx⟩, hs _ _ _ (fnHom h norm2) ⟨b, hb⟩ ⟨x, hx⟩⟩

/-- **Simulation, CG**: on arrays of size `n` the executed solver and the module-level solver (over
    `Fin n → K`, with the linear map of the storage) report the same flag, iteration count and
    error, and the returned array has size `n` and denotes the returned function. -/
theorem cg_sim (b x : Array K) (hb : b.size = n) (hx : x.size = n) (maxIter : Nat) (tol : K) :
    let oa := solveCG (arrOps s n norm2) b x maxIter tol
    let of := solveCG (fnOps s n norm2) (toFn n b) (toFn n x) maxIter tol
    oa.x.size = n ∧ of.ok = oa.ok ∧ of.iters = oa.iters ∧ of.err = oa.err ∧ of.x = toFn n oa.x := by
  obtain ⟨out, e1, e2⟩ := out_val h norm2 b x hb hx (fun o b x => solveCG o b x maxIter tol)
    (fun o₁ o₂ φ H b x => cg_hom H b x maxIter tol)
  simp only [e1, e2, mapOut, and_self, and_true]
  exact out.x.2

/-- **Simulation, BiCG** -/
theorem bicg_sim (b x : Array K) (hb : b.size = n) (hx : x.size = n) (maxIter : Nat) (tol : K)
    (itol : Nat) :
    let oa := solveBiCG (arrOps s n norm2) b x maxIter tol itol
    let of := solveBiCG (fnOps s n norm2) (toFn n b) (toFn n x) maxIter tol itol
    oa.x.size = n ∧ of.ok = oa.ok ∧ of.iters = oa.iters ∧ of.err = oa.err ∧ of.x = toFn n oa.x := by
  obtain ⟨out, e1, e2⟩ := out_val h norm2 b x hb hx (fun o b x => solveBiCG o b x maxIter tol itol)
    (fun o₁ o₂ φ H b x => bicg_hom H b x maxIter tol itol)
  simp only [e1, e2, mapOut, and_self, and_true]
  exact out.x.2

/-- **Simulation, BiCGSTAB** -/
theorem stab_sim (b x : Array K) (hb : b.size = n) (hx : x.size = n) (maxIter : Nat) (tol : K) :
    let oa := solveBiCGSTAB (arrOps s n norm2) b x maxIter tol
    let of := solveBiCGSTAB (fnOps s n norm2) (toFn n b) (toFn n x) maxIter tol
    oa.x.size = n ∧ of.ok = oa.ok ∧ of.iters = oa.iters ∧ of.err = oa.err ∧ of.x = toFn n oa.x := by
  obtain ⟨out, e1, e2⟩ := out_val h norm2 b x hb hx (fun o b x => solveBiCGSTAB o b x maxIter tol)
    (fun o₁ o₂ φ H b x => stab_hom H b x maxIter tol)
  simp only [e1, e2, mapOut, and_self, and_true]
  exact out.x.2

/-- **Simulation, QMR** -/
theorem qmr_sim (b x : Array K) (hb : b.size = n) (hx : x.size = n) (maxIter : Nat) (tol : K) :
    let oa := solveQMR (arrOps s n norm2) b x maxIter tol
    let of := solveQMR (fnOps s n norm2) (toFn n b) (toFn n x) maxIter tol
    oa.x.size = n ∧ of.ok = oa.ok ∧ of.iters = oa.iters ∧ of.err = oa.err ∧ of.x = toFn n oa.x := by
  obtain ⟨out, e1, e2⟩ := out_val h norm2 b x hb hx (fun o b x => solveQMR o b x maxIter tol)
    (fun o₁ o₂ φ H b x => qmr_hom H b x maxIter tol)
  simp only [e1, e2, mapOut, and_self, and_true]
  exact out.x.2

/-- the tested quantity of the module-level theorems, read at the array level -/
private theorem tested_eq (b y : Array K) (f : Fin n → K) (hb : b.size = n) (hf : f = toFn n y) :
    (fnOps s n norm2).norm2 (toFn n b - sqLin s n f) / guardNorm ((fnOps s n norm2).norm2 (toFn n b)) =
      norm2 (trueResid s n b y) / guardNorm (norm2 b) := by
  subst hf
  show norm2 (Array.ofFn (toFn n b - sqLin s n (toFn n y))) / guardNorm (norm2 (Array.ofFn (toFn n b))) = _
  rw [fn_resid_eq h, ofFn_toFn b hb]

/-- **CG on arrays: success ⇒ the true relative residual of the returned array passed the test.**
    `s` a well-formed square CSC storage of order `n`, `b`, `x` arrays of size `n`, `norm2` ANY
    function; the residual `b − s·x_out` is formed with the specification of the sparse product
    (`Sp.mulF`; by `code_resid_eq` it is also what the code's own `sub`/`multiply` compute). -/
theorem cg_success_sound_sparse (b x : Array K) (hb : b.size = n) (hx : x.size = n)
    (maxIter : Nat) (tol : K) :
    (solveCG (arrOps s n norm2) b x maxIter tol).ok = true →
      (solveCG (arrOps s n norm2) b x maxIter tol).x.size = n ∧
      Transc.le (norm2 (trueResid s n b (solveCG (arrOps s n norm2) b x maxIter tol).x) /
        guardNorm (norm2 b)) tol = true := by
  intro hok
  obtain ⟨hsz, e1, _, _, e4⟩ := cg_sim h norm2 b x hb hx maxIter tol
  have := cg_success_sound (sqLin s n) _ _ _ (toFn n b) (toFn n x) maxIter tol (e1.trans hok)
  exact ⟨hsz, (congrArg (fun q => Transc.le q tol) (tested_eq h norm2 b _ _ hb e4)).symm.trans this⟩

/-- **BiCG on arrays: success ⇒ the true relative residual of the returned array passed the test**
    (for `itol` 1 and 2 alike: the model's preconditioner is the identity). -/
theorem bicg_success_sound_sparse (b x : Array K) (hb : b.size = n) (hx : x.size = n)
    (maxIter : Nat) (tol : K) (itol : Nat) :
    (solveBiCG (arrOps s n norm2) b x maxIter tol itol).ok = true →
      (solveBiCG (arrOps s n norm2) b x maxIter tol itol).x.size = n ∧
      Transc.le (norm2 (trueResid s n b (solveBiCG (arrOps s n norm2) b x maxIter tol itol).x) /
        guardNorm (norm2 b)) tol = true := by
  intro hok
  obtain ⟨hsz, e1, _, _, e4⟩ := bicg_sim h norm2 b x hb hx maxIter tol itol
  have := bicg_success_sound (sqLin s n) _ _ _ (toFn n b) (toFn n x) maxIter tol itol (e1.trans hok)
  rw [bicgErr_self] at this
  exact ⟨hsz, (congrArg (fun q => Transc.le q tol) (tested_eq h norm2 b _ _ hb e4)).symm.trans this⟩

/-- **BiCGSTAB on arrays: success ⇒ the true relative residual of the returned array passed the
    test the code applied** (`≤ tol` at the initial check and the half-step exit, strict `< tol`,
    i.e. `stabLt`, at the full-step exit). -/
theorem stab_success_sound_sparse (b x : Array K) (hb : b.size = n) (hx : x.size = n)
    (maxIter : Nat) (tol : K) :
    (solveBiCGSTAB (arrOps s n norm2) b x maxIter tol).ok = true →
      (solveBiCGSTAB (arrOps s n norm2) b x maxIter tol).x.size = n ∧
      (Transc.le (norm2 (trueResid s n b (solveBiCGSTAB (arrOps s n norm2) b x maxIter tol).x) /
          guardNorm (norm2 b)) tol = true ∨
       stabLt (norm2 (trueResid s n b (solveBiCGSTAB (arrOps s n norm2) b x maxIter tol).x) /
          guardNorm (norm2 b)) tol = true) := by
  intro hok
  obtain ⟨hsz, e1, _, _, e4⟩ := stab_sim h norm2 b x hb hx maxIter tol
  have := stab_success_sound (sqLin s n) _ _ _ (toFn n b) (toFn n x) maxIter tol (e1.trans hok)
  have e := tested_eq h norm2 b _ _ hb e4
  rcases this with t | t
  · exact ⟨hsz, Or.inl ((congrArg (fun q => Transc.le q tol) e).symm.trans t)⟩
  · exact ⟨hsz, Or.inr ((congrArg (fun q => stabLt q tol) e).symm.trans t)⟩

/-- **QMR on arrays: success ⇒ the true relative residual of the returned array passed the test.** -/
theorem qmr_success_sound_sparse (b x : Array K) (hb : b.size = n) (hx : x.size = n)
    (maxIter : Nat) (tol : K) :
    (solveQMR (arrOps s n norm2) b x maxIter tol).ok = true →
      (solveQMR (arrOps s n norm2) b x maxIter tol).x.size = n ∧
      Transc.le (norm2 (trueResid s n b (solveQMR (arrOps s n norm2) b x maxIter tol).x) /
        guardNorm (norm2 b)) tol = true := by
  intro hok
  obtain ⟨hsz, e1, _, _, e4⟩ := qmr_sim h norm2 b x hb hx maxIter tol
  have := qmr_success_sound (sqLin s n) _ _ _ (toFn n b) (toFn n x) maxIter tol (e1.trans hok)
  exact ⟨hsz, (congrArg (fun q => Transc.le q tol) (tested_eq h norm2 b _ _ hb e4)).symm.trans this⟩

omit h

/-! #### C09 on arrays: an exact initial guess -/

/-- **exact initial guess, executed solvers**: if the code's own product returns `b` for the guess
    `x` (`multiply s x = Ok b` — ANY storage `s`, no well-formedness needed), every solver answers
    `Ok(0)` and returns the array `x` untouched.  Hypotheses on the arbitrary norm / comparison as in
    `C09.exact_guess`: the norm of the zero array is 0, and `0 ≤ tol`. -/
theorem exact_guess_sparse (s : Sp K) (n : Nat) (norm2 : Array K → K) (b x : Array K)
    (maxIter : Nat) (tol : K) (itol : Nat)
    (hsol : Sp.multiply s x = .ok b) (hn0 : norm2 (Array.replicate b.size 0) = 0)
    (hle : Transc.le (0 : K) tol = true) :
    let o := arrOps s n norm2
    (solveCG o b x maxIter tol).ok = true ∧ (solveCG o b x maxIter tol).iters = 0 ∧ (solveCG o b x maxIter tol).x = x ∧
    (solveBiCG o b x maxIter tol itol).ok = true ∧ (solveBiCG o b x maxIter tol itol).iters = 0 ∧ (solveBiCG o b x maxIter tol itol).x = x ∧
    (solveBiCGSTAB o b x maxIter tol).ok = true ∧ (solveBiCGSTAB o b x maxIter tol).iters = 0 ∧ (solveBiCGSTAB o b x maxIter tol).x = x ∧
    (solveQMR o b x maxIter tol).ok = true ∧ (solveQMR o b x maxIter tol).iters = 0 ∧ (solveQMR o b x maxIter tol).x = x := by
  intro o
  have hA : o.A x = b := by
    show (match Sp.multiply s x with | .ok r => r | .error _ => #[]) = b
    rw [hsol]
  have hr : o.sub b (o.A x) = Array.replicate b.size 0 := by
    rw [hA]
    apply Array.ext_getElem?
    intro i
    simp only [o, arrOps, Array.getElem?_zipWith, Array.getElem?_replicate]
    by_cases hi : i < b.size
    · simp [hi]
    · have : b.size ≤ i := by omega
      simp [hi, this]
  have hres : ∀ d : K, Transc.le (o.norm2 (o.sub b (o.A x)) / d) tol = true := by
    intro d; rw [hr]; show Transc.le (norm2 _ / d) tol = true; rw [hn0, zero_div]; exact hle
  have hbi : Transc.le (bicgErr o itol (o.sub b (o.A x)) (o.sub b (o.A x)) (guardNorm (o.norm2 b))) tol = true := by
    rw [bicgErr_self]; exact hres _
  refine ⟨?_, ?_, ?_, ?_, ?_, ?_, ?_, ?_, ?_, ?_, ?_, ?_⟩ <;>
    first
      | (simp only [solveCG, hres, if_true])
      | (simp only [solveBiCG, hbi, if_true])
      | (simp only [solveBiCGSTAB, hres, if_true])
      | (simp only [solveQMR, hres, if_true])

/-- the same with the hypothesis "`x` solves the system" stated through the specification of the
    product: `Σ_j s_ij x_j = b_i` for every row `i` (well-formed square storage of order `n`) -/
theorem exact_guess_sparse_spec {s : Sp K} {n : Nat} (h : SqWF s n) (norm2 : Array K → K)
    (b x : Array K) (hb : b.size = n) (hx : x.size = n) (maxIter : Nat) (tol : K) (itol : Nat)
    (hsol : ∀ i, i < n → mulF s (fun j => x[j]?.getD 0) i = b[i]?.getD 0)
    (hn0 : norm2 (Array.replicate n 0) = 0) (hle : Transc.le (0 : K) tol = true) :
    let o := arrOps s n norm2
    (solveCG o b x maxIter tol).ok = true ∧ (solveCG o b x maxIter tol).iters = 0 ∧ (solveCG o b x maxIter tol).x = x ∧
    (solveBiCG o b x maxIter tol itol).ok = true ∧ (solveBiCG o b x maxIter tol itol).iters = 0 ∧ (solveBiCG o b x maxIter tol itol).x = x ∧
    (solveBiCGSTAB o b x maxIter tol).ok = true ∧ (solveBiCGSTAB o b x maxIter tol).iters = 0 ∧ (solveBiCGSTAB o b x maxIter tol).x = x ∧
    (solveQMR o b x maxIter tol).ok = true ∧ (solveQMR o b x maxIter tol).iters = 0 ∧ (solveQMR o b x maxIter tol).x = x := by
  refine exact_guess_sparse s n norm2 b x maxIter tol itol ?_ (by rw [hb]; exact hn0) hle
  rw [multiply_eq h.wf x (hx.trans h.cols.symm)]
  congr 1
  apply Array.ext_getElem?
  intro i
  rw [Array.getElem?_ofFn]
  by_cases hi : i < n
  · have h1 : i < s.rows := by rw [h.rows]; exact hi
    have h2 : i < b.size := by omega
    simp only [h1, dif_pos, hsol i hi]
    simp [h2]
  · have h1 : ¬ i < s.rows := by rw [h.rows]; exact hi
    have h2 : b.size ≤ i := by omega
    simp [h1, h2]

/-- zero right-hand side with a zero guess (arrays of `n` zeros): accepted as solved, `x` untouched -/
theorem zero_rhs_sparse {s : Sp K} {n : Nat} (h : SqWF s n) (norm2 : Array K → K)
    (maxIter : Nat) (tol : K) (itol : Nat)
    (hn0 : norm2 (Array.replicate n 0) = 0) (hle : Transc.le (0 : K) tol = true) :
    let o := arrOps s n norm2
    let z : Array K := Array.replicate n 0
    (solveCG o z z maxIter tol).ok = true ∧ (solveCG o z z maxIter tol).x = z ∧
    (solveBiCG o z z maxIter tol itol).ok = true ∧ (solveBiCG o z z maxIter tol itol).x = z ∧
    (solveBiCGSTAB o z z maxIter tol).ok = true ∧ (solveBiCGSTAB o z z maxIter tol).x = z ∧
    (solveQMR o z z maxIter tol).ok = true ∧ (solveQMR o z z maxIter tol).x = z := by
  intro o z
  have hz : ∀ j : Nat, (z[j]?.getD 0 : K) = 0 := by
    intro j
    simp only [z, Array.getElem?_replicate]
    split <;> rfl
  have g := exact_guess_sparse_spec h norm2 z z (by simp [z]) (by simp [z]) maxIter tol itol
    (by
      intro i _
      rw [hz i]
      unfold mulF
      simp only [hz, mul_zero, ite_self, Finset.sum_const_zero])
    hn0 hle
  exact ⟨g.1, g.2.2.1, g.2.2.2.1, g.2.2.2.2.2.1, g.2.2.2.2.2.2.1, g.2.2.2.2.2.2.2.2.1,
    g.2.2.2.2.2.2.2.2.2.1, g.2.2.2.2.2.2.2.2.2.2.2⟩

end Exact

/-! ### Non-vacuity: the hypotheses are satisfiable and success is reached through the loop -/
section Examples
open Ohsl.Sp

/-- a `Transc ℚ` used only by the examples (`le` is `≤`; `sqrt` is only evaluated at 1) -/
@[reducible] private def transcQ' : Transc ℚ where
  sqrt := id
  sin := id
  cos := id
  tan := id
  exp := id
  ln := id
  sinh := id
  cosh := id
  fabs := id
  atan2 := fun a _ => a
  powf := fun a _ => a
  fmax := fun a _ => a
  ofNat := fun n => n
  le := fun a b => decide (a ≤ b)
  half := 1 / 2
  piHalf := 0
  eps := 0
  snap := 0

attribute [local instance] transcQ'

/-- the symmetric positive definite matrix `[[2,1],[1,2]]` in CSC form -/
def spd2 : Sp ℚ := ⟨2, 2, 4, #[2, 1, 1, 2], #[0, 1, 0, 1], #[0, 2, 4]⟩

/-- sum of squares (any function is allowed as the norm) -/
def sumSq (a : Array ℚ) : ℚ := (Array.zipWith (· * ·) a a).foldl (· + ·) 0

theorem spd2_sqwf : SqWF spd2 2 := by
  refine ⟨⟨rfl, rfl, ?_, rfl, rfl, rfl, ?_⟩, rfl, rfl⟩
  · intro j hj
    have hj' : j < 2 := hj
    interval_cases j <;> simp [Sp.cs, spd2]
  · intro k hk
    have hk' : k < 4 := hk
    interval_cases k <;> simp [Sp.ri, spd2]

/-- CG on `[[2,1],[1,2]] x = [3,3]` from `x₀ = 0` with `tol = 0`: not accepted at the initial check,
    success in iteration 1 with `x = [1,1]` -/
example : (solveCG (arrOps spd2 2 sumSq) #[3, 3] #[0, 0] 5 0).ok = true ∧
    (solveCG (arrOps spd2 2 sumSq) #[3, 3] #[0, 0] 5 0).iters = 1 ∧
    (solveCG (arrOps spd2 2 sumSq) #[3, 3] #[0, 0] 5 0).x = #[1, 1] := by
  decide +kernel

/-- the other three solvers on the same system: success through the loop -/
example : (solveBiCG (arrOps spd2 2 sumSq) #[3, 3] #[0, 0] 5 0 1).iters = 1 ∧
    (solveBiCG (arrOps spd2 2 sumSq) #[3, 3] #[0, 0] 5 0 1).x = #[1, 1] ∧
    (solveBiCGSTAB (arrOps spd2 2 sumSq) #[3, 3] #[0, 0] 5 0).iters = 1 ∧
    (solveBiCGSTAB (arrOps spd2 2 sumSq) #[3, 3] #[0, 0] 5 0).x = #[1, 1] := by
  decide +kernel

/-- QMR through the loop, on the 1×1 system `1 · x = 1` with the "norm" `a ↦ a[0]` -/
example : (solveQMR (arrOps (⟨1, 1, 1, #[1], #[0], #[0, 1]⟩ : Sp ℚ) 1 (fun a => a[0]?.getD 0)) #[1] #[0] 5 0).ok = true ∧
    (solveQMR (arrOps (⟨1, 1, 1, #[1], #[0], #[0, 1]⟩ : Sp ℚ) 1 (fun a => a[0]?.getD 0)) #[1] #[0] 5 0).iters = 1 ∧
    (solveQMR (arrOps (⟨1, 1, 1, #[1], #[0], #[0, 1]⟩ : Sp ℚ) 1 (fun a => a[0]?.getD 0)) #[1] #[0] 5 0).x = #[1] := by
  decide +kernel

/-- `exact_guess_sparse`: the hypothesis `multiply s x = Ok b` holds for `x = [1,1]`, `b = [3,3]` -/
example : Sp.multiply spd2 #[1, 1] = .ok #[3, 3] ∧ sumSq (Array.replicate 2 0) = 0 := by
  decide +kernel

end Examples

end Ohsl.Props.C08
