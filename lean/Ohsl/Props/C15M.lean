/-
  Property C15 (part M) — the monotonicity theorems of C15F are JOINTLY non-vacuous for a model that
  really rounds.

  `C15F.linspace_monotone_fl`, `linspace_antitone_fl`, `powspace_monotone_fl` assume `Monotone M.fl`
  AND `ExactCasts M n`.  In C15F the first is exhibited only for `FlModel.scale u` (no exact casts)
  and the second only for `FlModel.roundBits p`, `FlModel.exact`, `bump` (`bump` is not monotone).
  Here both are proved for the SAME model with `u > 0`:

    `FlModel.roundBits p`  — round to nearest (Mathlib's `round`, ties upwards) to `p + 1`
    significant bits, unbounded exponent, `u = 2^(-p-1)`; `p = 52` is `FlModel.binary64`, the
    significand width and unit roundoff `2⁻⁵³` of IEEE binary64 (without exponent limits, ties
    upwards instead of ties-to-even).

  * `roundBits_monotone`           `Monotone (FlModel.roundBits p).fl`  (binade by binade: inside a
      binade the grid is uniform, `gridRound_mono`; across binades the powers of two are grid points
      of both neighbouring binades, `roundBits_pos_bounds`, `roundBits_neg_bounds`)
  * `roundBits_u_pos`, `roundBits_u_lt_one`   `0 < u < 1`
  * `roundBits_rep_two_pow`, `exactCasts_roundBits_le`   `ExactCasts (roundBits p) n` for
      `1 ≤ n ≤ 2^(p+1)` (C15F has `n < 2^(p+1)`; binary64: `n ≤ 2⁵³`), instance `C03.flTransc`
  * `roundBits_rounds`             `fl (2^(p+1) + 1) = 2^(p+1) + 2`: the model is not exact, and
      `2^(p+1)` is the last `n` for which all casts `k ≤ n` are exact (`not_exactCasts_roundBits`)
  * `linspace_monotone_instance`, `linspace_antitone_instance`, `powspace_monotone_instance`
      the C15F theorems with BOTH hypotheses discharged (`2 ≤ n ≤ 2^(p+1)`, any end points
      `a ≤ b` resp. `b ≤ a`, `powf` = `Real.rpow` rounded once, exponent `≥ 0`)
  * `linspace_monotone_binary64`, `powspace_monotone_binary64`   `p = 52`, `u = 2⁻⁵³`
  * examples: `n = 11`, `a = 0`, `b = 1`.

  As everywhere in the class-F files the transfer to the Rust `f64` code rests on the assumption
  stated in Rounding.lean; nothing here is a statement about Lean's `Float`.
-/
import Ohsl.Props.C15F
import Ohsl.Lemmas.Rounding
import Mathlib.Algebra.Order.Round
import Mathlib.Data.Int.Log
import Mathlib.Tactic.Ring
import Mathlib.Tactic.Linarith
import Mathlib.Tactic.Positivity
import Mathlib.Tactic.NormNum
set_option linter.unusedSectionVars false
set_option linter.unusedVariables false
set_option linter.unusedSimpArgs false
namespace Ohsl.Props.C15
open Ohsl Ohsl.Vec

/-! ### rounding to nearest on a uniform grid -/

section Rounding
open Fl

/-- round to nearest (ties upwards) on the uniform grid `q ℤ` -/
noncomputable def gridRound (q x : ℝ) : ℝ := round (x / q) * q

/-- Mathlib's `round` (`⌊x + 1/2⌋`) is monotone -/
theorem round_le_round_of_le {x y : ℝ} (h : x ≤ y) : round x ≤ round y := by
  rw [round_eq, round_eq]
  exact Int.floor_le_floor (by linarith)

/-- rounding on a uniform grid is monotone -/
theorem gridRound_mono {q : ℝ} (hq : 0 < q) : Monotone (gridRound q) := by
  intro x y h
  unfold gridRound
  have h1 : round (x / q) ≤ round (y / q) :=
    round_le_round_of_le (div_le_div_of_nonneg_right h hq.le)
  have h2 : ((round (x / q) : ℤ) : ℝ) ≤ ((round (y / q) : ℤ) : ℝ) := by exact_mod_cast h1
  exact mul_le_mul_of_nonneg_right h2 hq.le

/-- grid points are fixed -/
theorem gridRound_int {q : ℝ} (hq : q ≠ 0) (k : ℤ) : gridRound q ((k : ℝ) * q) = (k : ℝ) * q := by
  unfold gridRound
  rw [mul_div_cancel_right₀ _ hq, round_intCast]

/-- a number between two grid points is rounded to a number between them -/
theorem gridRound_between {q : ℝ} (hq : 0 < q) (k l : ℤ) {x : ℝ} (h1 : (k : ℝ) * q ≤ x)
    (h2 : x ≤ (l : ℝ) * q) :
    (k : ℝ) * q ≤ gridRound q x ∧ gridRound q x ≤ (l : ℝ) * q := by
  have a := gridRound_mono hq h1
  have b := gridRound_mono hq h2
  rw [gridRound_int hq.ne'] at a b
  exact ⟨a, b⟩

/-- `roundBits p` rounds `x` on the grid of its binade, spacing `2^(⌊log₂|x|⌋ - p)` -/
theorem roundBits_fl (p : ℕ) (x : ℝ) :
    (FlModel.roundBits p).fl x = gridRound (2 ^ (Int.log 2 |x| - p)) x := rfl

/-- the binade of `x ≠ 0`: `2^e ≤ |x| < 2^(e+1)`, `e = ⌊log₂|x|⌋` -/
theorem binade_bounds {x : ℝ} (hx : x ≠ 0) :
    (2 : ℝ) ^ Int.log 2 |x| ≤ |x| ∧ |x| < (2 : ℝ) ^ (Int.log 2 |x| + 1) := by
  constructor
  · exact_mod_cast Int.zpow_log_le_self (b := 2) (by norm_num) (abs_pos.mpr hx)
  · exact_mod_cast Int.lt_zpow_succ_log_self (b := 2) (by norm_num) |x|

/-- both ends `2^e`, `2^(e+1)` of a binade are points of its grid `2^(e-p) ℤ` -/
theorem two_zpow_grid (p : ℕ) (e : ℤ) :
    (2 : ℝ) ^ e = (((2 : ℤ) ^ p : ℤ) : ℝ) * 2 ^ (e - p) ∧
      (2 : ℝ) ^ (e + 1) = (((2 : ℤ) ^ (p + 1) : ℤ) : ℝ) * 2 ^ (e - p) := by
  constructor
  · push_cast
    rw [← zpow_natCast, ← zpow_add₀ two_ne_zero]
    congr 1; ring
  · push_cast
    rw [← zpow_natCast, ← zpow_add₀ two_ne_zero]
    congr 1; push_cast; ring

/-- a positive number is rounded inside the closure of its binade -/
theorem roundBits_pos_bounds (p : ℕ) {x : ℝ} (hx : 0 < x) :
    (2 : ℝ) ^ Int.log 2 x ≤ (FlModel.roundBits p).fl x ∧
      (FlModel.roundBits p).fl x ≤ (2 : ℝ) ^ (Int.log 2 x + 1) := by
  have hb := binade_bounds hx.ne'
  rw [roundBits_fl]
  rw [abs_of_pos hx] at hb ⊢
  obtain ⟨g1, g2⟩ := two_zpow_grid p (Int.log 2 x)
  have hq : (0 : ℝ) < 2 ^ (Int.log 2 x - p) := zpow_pos two_pos _
  have := gridRound_between hq ((2 : ℤ) ^ p) ((2 : ℤ) ^ (p + 1)) (x := x)
    (by rw [← g1]; exact hb.1) (by rw [← g2]; exact hb.2.le)
  rw [← g1, ← g2] at this
  exact this

/-- a negative number is rounded inside the closure of its binade -/
theorem roundBits_neg_bounds (p : ℕ) {x : ℝ} (hx : x < 0) :
    -(2 : ℝ) ^ (Int.log 2 (-x) + 1) ≤ (FlModel.roundBits p).fl x ∧
      (FlModel.roundBits p).fl x ≤ -(2 : ℝ) ^ Int.log 2 (-x) := by
  have hb := binade_bounds hx.ne
  rw [roundBits_fl]
  rw [abs_of_neg hx] at hb ⊢
  obtain ⟨g1, g2⟩ := two_zpow_grid p (Int.log 2 (-x))
  have hq : (0 : ℝ) < 2 ^ (Int.log 2 (-x) - p) := zpow_pos two_pos _
  have e1 : ((-((2 : ℤ) ^ (p + 1)) : ℤ) : ℝ) * 2 ^ (Int.log 2 (-x) - p)
      = -(2 : ℝ) ^ (Int.log 2 (-x) + 1) := by rw [g2]; push_cast; ring
  have e2 : ((-((2 : ℤ) ^ p) : ℤ) : ℝ) * 2 ^ (Int.log 2 (-x) - p)
      = -(2 : ℝ) ^ Int.log 2 (-x) := by rw [g1]; push_cast; ring
  have := gridRound_between hq (-((2 : ℤ) ^ (p + 1))) (-((2 : ℤ) ^ p)) (x := x)
    (by rw [e1]; linarith [hb.2]) (by rw [e2]; linarith [hb.1])
  rw [e1, e2] at this
  exact this

/-! ### `roundBits p` is a monotone rounding function -/

theorem roundBits_u (p : ℕ) : (FlModel.roundBits p).u = 2 ^ (-(p : ℤ) - 1) := rfl

/-- the unit roundoff `2^(-p-1)` is positive: the model really rounds (see `roundBits_rounds`) -/
theorem roundBits_u_pos (p : ℕ) : 0 < (FlModel.roundBits p).u := zpow_pos two_pos _

theorem roundBits_u_lt_one (p : ℕ) : (FlModel.roundBits p).u < 1 := by
  rw [roundBits_u]
  exact zpow_lt_one_of_neg₀ (by norm_num) (by omega)

/-- **round-to-nearest with `p + 1` significant bits is monotone.**  Inside a binade the grid is
uniform (`gridRound_mono`); a number of a lower binade is rounded to at most the upper end of that
binade, which is at most the lower end of the binade of the larger number, which is at most the
rounded larger number. -/
theorem roundBits_monotone (p : ℕ) : Monotone (FlModel.roundBits p).fl := by
  intro x y hxy
  by_cases hx : 0 < x
  · -- both positive
    have hy : 0 < y := lt_of_lt_of_le hx hxy
    have hlog : Int.log 2 x ≤ Int.log 2 y := Int.log_mono_right hx hxy
    rcases hlog.eq_or_lt with he | hlt
    · rw [roundBits_fl, roundBits_fl, abs_of_pos hx, abs_of_pos hy, he]
      exact gridRound_mono (zpow_pos two_pos _) hxy
    · have h1 := (roundBits_pos_bounds p hx).2
      have h2 := (roundBits_pos_bounds p hy).1
      have h3 : (2 : ℝ) ^ (Int.log 2 x + 1) ≤ 2 ^ Int.log 2 y :=
        zpow_le_zpow_right₀ one_le_two (by omega)
      linarith
  · have hx0 : x ≤ 0 := not_lt.mp hx
    by_cases hy : y < 0
    · -- both negative
      have hx' : x < 0 := lt_of_le_of_lt hxy hy
      have hlog : Int.log 2 (-y) ≤ Int.log 2 (-x) :=
        Int.log_mono_right (by linarith) (by linarith)
      rcases hlog.eq_or_lt with he | hlt
      · rw [roundBits_fl, roundBits_fl, abs_of_neg hx', abs_of_neg hy, he]
        exact gridRound_mono (zpow_pos two_pos _) hxy
      · have h1 := (roundBits_neg_bounds p hx').2
        have h2 := (roundBits_neg_bounds p hy).1
        have h3 : (2 : ℝ) ^ (Int.log 2 (-y) + 1) ≤ 2 ^ Int.log 2 (-x) :=
          zpow_le_zpow_right₀ one_le_two (by omega)
        linarith
    · -- `x ≤ 0 ≤ y`
      have hy0 : 0 ≤ y := not_lt.mp hy
      have hu := (roundBits_u_lt_one p).le
      have h1 : (FlModel.roundBits p).fl x ≤ 0 := by
        have h := (abs_le.mp ((FlModel.roundBits p).fl_err x)).2
        rw [abs_of_nonpos hx0] at h
        have : (FlModel.roundBits p).u * (-x) ≤ 1 * (-x) :=
          mul_le_mul_of_nonneg_right hu (by linarith)
        linarith
      exact h1.trans (fl_nonneg hu hy0)

/-! ### exact casts up to `2^(p+1)` inclusive, and not beyond -/

/-- the binade of a number between `2^e` and `2^(e+1)` -/
theorem log_eq_of_bounds {x : ℝ} {e : ℤ} (h1 : (2 : ℝ) ^ e ≤ x) (h2 : x < (2 : ℝ) ^ (e + 1)) :
    Int.log 2 x = e := by
  have hx : 0 < x := lt_of_lt_of_le (zpow_pos two_pos _) h1
  have a : e ≤ Int.log 2 x :=
    (Int.zpow_le_iff_le_log (b := 2) (by norm_num) hx).mp (by exact_mod_cast h1)
  have b : Int.log 2 x < e + 1 :=
    (Int.lt_zpow_iff_log_lt (b := 2) (by norm_num) hx).mp (by exact_mod_cast h2)
  omega

/-- powers of two are representable -/
theorem roundBits_rep_zpow (p : ℕ) (e : ℤ) : (FlModel.roundBits p).Rep ((2 : ℝ) ^ e) := by
  have hpos : (0 : ℝ) < 2 ^ e := zpow_pos two_pos _
  have hlog : Int.log 2 ((2 : ℝ) ^ e) = e :=
    log_eq_of_bounds (le_refl _) (zpow_lt_zpow_right₀ one_lt_two (by omega))
  show (FlModel.roundBits p).fl ((2 : ℝ) ^ e) = 2 ^ e
  rw [roundBits_fl, abs_of_pos hpos, hlog]
  conv_lhs => rw [(two_zpow_grid p e).1]
  rw [gridRound_int (zpow_pos two_pos _).ne', ← (two_zpow_grid p e).1]

/-- `2^(p+1)` (binary64: `2⁵³`) is still representable -/
theorem roundBits_rep_two_pow (p : ℕ) : (FlModel.roundBits p).Rep (((2 ^ (p + 1) : ℕ) : ℝ)) := by
  have := roundBits_rep_zpow p ((p : ℤ) + 1)
  have e : (((2 ^ (p + 1) : ℕ) : ℝ)) = (2 : ℝ) ^ ((p : ℤ) + 1) := by
    push_cast
    rw [← zpow_natCast]
    congr 1
  rw [e]; exact this

/-- **the model really rounds**: `2^(p+1) + 1` (binary64: `2⁵³ + 1`) is rounded to
`2^(p+1) + 2` (tie, upwards).  In particular `fl ≠ id`. -/
theorem roundBits_rounds (p : ℕ) :
    (FlModel.roundBits p).fl ((2 : ℝ) ^ (p + 1) + 1) = (2 : ℝ) ^ (p + 1) + 2 := by
  have hp1 : (1 : ℝ) ≤ 2 ^ (p + 1) := one_le_pow₀ one_le_two
  have hpos : (0 : ℝ) < 2 ^ (p + 1) + 1 := by linarith
  have hlog : Int.log 2 ((2 : ℝ) ^ (p + 1) + 1) = (p : ℤ) + 1 := by
    apply log_eq_of_bounds
    · rw [show ((p : ℤ) + 1) = ((p + 1 : ℕ) : ℤ) by push_cast; rfl, zpow_natCast]; linarith
    · rw [show ((p : ℤ) + 1 + 1) = ((p + 1 + 1 : ℕ) : ℤ) by push_cast; rfl, zpow_natCast,
        pow_succ (2 : ℝ) (p + 1)]
      have : (1 : ℝ) < 2 ^ (p + 1) := by
        have : (2 : ℝ) ^ 1 ≤ 2 ^ (p + 1) := pow_le_pow_right₀ one_le_two (by omega)
        linarith
      linarith
  rw [roundBits_fl, abs_of_pos hpos, hlog]
  have hq : (2 : ℝ) ^ ((p : ℤ) + 1 - p) = 2 := by
    rw [show (p : ℤ) + 1 - p = 1 by ring, zpow_one]
  rw [hq]
  unfold gridRound
  have e : ((2 : ℝ) ^ (p + 1) + 1) / 2 = (((2 : ℤ) ^ p : ℤ) : ℝ) + 1 / 2 := by
    push_cast; rw [pow_succ]; ring
  have hr : round ((((2 : ℤ) ^ p : ℤ) : ℝ) + 1 / 2) = (2 : ℤ) ^ p + 1 := by
    rw [round_eq]
    have : (((2 : ℤ) ^ p : ℤ) : ℝ) + 1 / 2 + 1 / 2 = (((2 : ℤ) ^ p + 1 : ℤ) : ℝ) := by
      push_cast; ring
    rw [this, Int.floor_intCast]
  rw [e, hr]
  push_cast
  rw [pow_succ]; ring

end Rounding

section Rounding
open Fl
attribute [local instance] C03.flTransc

/-- the casts of `linspace(a, b, n)` / `powspace` are exact in `roundBits p` for every
`1 ≤ n ≤ 2^(p+1)` — binary64: `n ≤ 2⁵³`, the exact range of `usize as f64`
(`C15F.exactCasts_roundBits` has the strict bound). -/
theorem exactCasts_roundBits_le (p : Nat) {n : Nat} (hn : 1 ≤ n) (h : n ≤ 2 ^ (p + 1)) :
    ExactCasts (FlModel.roundBits p) n := by
  apply exactCasts_flTransc _ hn
  intro k hk
  rcases (by omega : k < 2 ^ (p + 1) ∨ k = 2 ^ (p + 1)) with hlt | rfl
  · have := FlModel.roundBits_rep_int p (k : ℤ) (by
      rw [abs_of_nonneg (by positivity)]
      exact_mod_cast hlt)
    simpa using this
  · exact roundBits_rep_two_pow p

/-- … and `2^(p+1)` is the last such `n`: the cast of `2^(p+1) + 1` is not exact -/
theorem not_exactCasts_roundBits (p : Nat) : ¬ ExactCasts (FlModel.roundBits p) (2 ^ (p + 1) + 1) := by
  intro hc
  have h := hc.1 (2 ^ (p + 1) + 1) (le_refl _)
  have hv : (Transc.ofNat (2 ^ (p + 1) + 1) : Fl (FlModel.roundBits p)).val
      = (FlModel.roundBits p).fl (((2 ^ (p + 1) + 1 : ℕ) : ℝ)) := rfl
  rw [hv] at h
  push_cast at h
  rw [roundBits_rounds] at h
  linarith

/-! ### the C15F monotonicity theorems with both hypotheses discharged -/

/-- **`linspace` is weakly increasing in a genuine round-to-nearest format.**  In
`FlModel.roundBits p` (`p + 1` significant bits, `u = 2^(-p-1) > 0`, casts by `C03.flTransc`),
for every `2 ≤ n ≤ 2^(p+1)` and ALL end points `a ≤ b`, `linspace(a, b, n)` succeeds and its `n`
computed nodes are non-decreasing: `linspace_monotone_fl` with `Monotone fl` (`roundBits_monotone`)
and `ExactCasts` (`exactCasts_roundBits_le`) both discharged. -/
theorem linspace_monotone_instance (p : Nat) {n : Nat} (hn : 2 ≤ n) (h : n ≤ 2 ^ (p + 1))
    (a b : Fl (FlModel.roundBits p)) (hab : a.val ≤ b.val) :
    ∃ v, Vec.linspace a b n = .ok v ∧ v.size = n ∧
      ∀ i j, i ≤ j → j < n → (v.getD i 0).val ≤ (v.getD j 0).val :=
  linspace_monotone_fl (roundBits_monotone p) (exactCasts_roundBits_le p (by omega) h) hn a b hab

/-- the mirror image, `b ≤ a`: the computed nodes are non-increasing -/
theorem linspace_antitone_instance (p : Nat) {n : Nat} (hn : 2 ≤ n) (h : n ≤ 2 ^ (p + 1))
    (a b : Fl (FlModel.roundBits p)) (hab : b.val ≤ a.val) :
    ∃ v, Vec.linspace a b n = .ok v ∧ v.size = n ∧
      ∀ i j, i ≤ j → j < n → (v.getD j 0).val ≤ (v.getD i 0).val :=
  linspace_antitone_fl (roundBits_monotone p) (exactCasts_roundBits_le p (by omega) h) hn a b hab

/-- **`powspace` is weakly increasing in the same format** when `powf` is correctly rounded
(`C03.flTransc`: `powf t q = fl (t ^ q)`, `Real.rpow` rounded once) and the exponent is `≥ 0`:
`powspace_monotone_fl` with its three hypotheses (`Monotone fl`, monotone `powf(·, q)` on `[0, ∞)`
by `flTransc_powf_mono`, `ExactCasts`) discharged. -/
theorem powspace_monotone_instance (p : Nat) (q : Fl (FlModel.roundBits p)) (hq : 0 ≤ q.val)
    {n : Nat} (hn : 2 ≤ n) (h : n ≤ 2 ^ (p + 1))
    (a b : Fl (FlModel.roundBits p)) (hab : a.val ≤ b.val) :
    ∃ v, Vec.powspace a b n q = .ok v ∧ v.size = n ∧
      ∀ i j, i ≤ j → j < n → (v.getD i 0).val ≤ (v.getD j 0).val :=
  powspace_monotone_fl (roundBits_monotone p) q
    (flTransc_powf_mono _ (roundBits_monotone p) q hq)
    (exactCasts_roundBits_le p (by omega) h) hn a b hab

/-- binary64's significand (`FlModel.binary64 = roundBits 52`, `u = 2⁻⁵³`, `binary64_u`):
`linspace(a, b, n)` is weakly increasing for every `2 ≤ n ≤ 2⁵³` and all `a ≤ b` -/
theorem linspace_monotone_binary64 {n : Nat} (hn : 2 ≤ n) (h : n ≤ 2 ^ 53)
    (a b : Fl FlModel.binary64) (hab : a.val ≤ b.val) :
    FlModel.binary64.u = 2 ^ (-53 : ℤ) ∧ Monotone FlModel.binary64.fl ∧
      ExactCasts FlModel.binary64 n ∧
      ∃ v, Vec.linspace a b n = .ok v ∧ v.size = n ∧
        ∀ i j, i ≤ j → j < n → (v.getD i 0).val ≤ (v.getD j 0).val :=
  ⟨FlModel.binary64_u, roundBits_monotone 52, exactCasts_roundBits_le 52 (by omega) h,
    linspace_monotone_instance 52 hn h a b hab⟩

/-- binary64's significand: `powspace(a, b, n, q)` with `q ≥ 0` is weakly increasing for every
`2 ≤ n ≤ 2⁵³` and all `a ≤ b` -/
theorem powspace_monotone_binary64 (q : Fl FlModel.binary64) (hq : 0 ≤ q.val) {n : Nat}
    (hn : 2 ≤ n) (h : n ≤ 2 ^ 53) (a b : Fl FlModel.binary64) (hab : a.val ≤ b.val) :
    ∃ v, Vec.powspace a b n q = .ok v ∧ v.size = n ∧
      ∀ i j, i ≤ j → j < n → (v.getD i 0).val ≤ (v.getD j 0).val :=
  powspace_monotone_instance 52 q hq hn h a b hab

end Rounding

/-! ### concrete numbers -/

section Examples
open Fl
attribute [local instance] C03.flTransc

/-- the two hypotheses of `linspace_monotone_fl` hold TOGETHER in a model with `u = 2⁻⁵³ > 0` that
is not exact -/
example : 0 < FlModel.binary64.u ∧ FlModel.binary64.u = 2 ^ (-53 : ℤ) ∧
    Monotone FlModel.binary64.fl ∧ ExactCasts FlModel.binary64 11 ∧
    FlModel.binary64.fl (2 ^ 53 + 1) = 2 ^ 53 + 2 :=
  ⟨roundBits_u_pos 52, FlModel.binary64_u, roundBits_monotone 52,
    exactCasts_roundBits_le 52 (by omega) (by norm_num), roundBits_rounds 52⟩

/-- `linspace(0, 1, 11)` in the binary64-significand format: eleven non-decreasing nodes -/
example : ∃ v, Vec.linspace (⟨0⟩ : Fl FlModel.binary64) ⟨1⟩ 11 = .ok v ∧ v.size = 11 ∧
    ∀ i j, i ≤ j → j < 11 → (v.getD i 0).val ≤ (v.getD j 0).val :=
  (linspace_monotone_binary64 (by omega) (by norm_num) ⟨0⟩ ⟨1⟩ (by show (0 : ℝ) ≤ 1; norm_num)).2.2.2

/-- `linspace(1, 0, 11)`: eleven non-increasing nodes -/
example : ∃ v, Vec.linspace (⟨1⟩ : Fl FlModel.binary64) ⟨0⟩ 11 = .ok v ∧ v.size = 11 ∧
    ∀ i j, i ≤ j → j < 11 → (v.getD j 0).val ≤ (v.getD i 0).val :=
  linspace_antitone_instance 52 (by omega) (by norm_num) ⟨1⟩ ⟨0⟩ (by show (0 : ℝ) ≤ 1; norm_num)

/-- `powspace(0, 1, 11, 2)`: eleven non-decreasing nodes -/
example : ∃ v, Vec.powspace (⟨0⟩ : Fl FlModel.binary64) ⟨1⟩ 11 ⟨2⟩ = .ok v ∧ v.size = 11 ∧
    ∀ i j, i ≤ j → j < 11 → (v.getD i 0).val ≤ (v.getD j 0).val :=
  powspace_monotone_binary64 ⟨2⟩ (by show (0 : ℝ) ≤ 2; norm_num) (by omega) (by norm_num) ⟨0⟩ ⟨1⟩
    (by show (0 : ℝ) ≤ 1; norm_num)

end Examples

end Ohsl.Props.C15
