/-
  Property C10 (continued) — the low-degree paths of the root finder WITH polishing, the degree-1
  path, the zero-leading-coefficient boundary, and the iteration count of `laguer` stated through
  the model's own recursion (model: Ohsl/Model/Roots.lean).

  Coefficient order of the model (as in the Rust code): `coeffs[i]` is the coefficient of `X^i`, so
  `#[c0, c1]` is `c1 X + c0` and the LAST entry is the leading coefficient.

  (S) any scalar type, arbitrary arithmetic (so also IEEE floats with NaN):
      * `polySolve_deg1_eq`, `polySolve_deg1_refine_eq`, `polySolve_deg2_refine_eq`,
        `polySolve_deg3_refine_eq`: what `polySolve` computes on 2, 3, 4 coefficients, with and
        without polishing: polishing is `laguer coeffs ·` applied to every closed-form value, and
        there is NO snapping of small imaginary parts in the polishing step (the snap
        `|Im x| ≤ 2 eps |Re x| ⇒ Im x := 0` exists only inside the deflation loop, degree ≥ 4);
      * `LaguerTrace`, `laguerLoop_trace`, `laguerTrace_value`, `laguerTrace_unique`,
        `laguerTrace_evals_le`, `laguer_trace`: the value of the model's `laguerLoop` (no copy of
        the recursion, no counter) is the end of a UNIQUE chain `x = x₀ → x₁ → … → x_k` of `k ≤ fuel`
        successful `laguerStep`s with the iteration counter running through `iter, iter+1, …`; the
        chain ends because the fuel is exhausted (`k = fuel`) or because `laguerStep` returned `none`
        at `x_k`.  So `laguerStep` is evaluated at exactly `k + [k < fuel] ≤ fuel` points; for
        `laguer`, at most 79.  The counter `laguerSteps` of C10Q IS this unique `k`.
  (R) real interpretation, transported to Mathlib's ℂ with `toC`:
      * `polySolve_deg1`, `rootsReal_deg1`: for `c1 ≠ 0`, refined or not, the result is the single
        value `−c0/c1`, an exact zero of `c1 X + c0`;
      * `polySolve_deg2_refine`, `polySolve_deg2_roots`, `polySolve_deg3_refine`,
        `polySolve_deg3_roots`: for a non-zero leading coefficient, refined or not, the result IS
        `quadraticSolve` / `cubicSolve`, i.e. all zeros with multiplicity; polishing (Laguerre
        started at an exact zero of the undeflated polynomial) returns every value unchanged;
      * `polySolve_deg1_zero_lead`, `polySolve_deg1_zero_lead_refine`: the boundary `c1 = 0`.  Over ℝ
        (Mathlib's totalised `x / 0 = 0`) the model returns `#[0]`; with polishing and `c0 ≠ 0` the
        Laguerre loop never stops (the polynomial is the non-zero constant `c0`): all 79 fall-back
        updates `x ← x − (1 + |x|) e^{i·iter} φ` are performed.  In `f64` the same input gives
        `NaN + NaN i` (`0/0`); (`±inf` when `c1 ≠ 0` but `|c1|²` underflows to 0).  The value at
        this boundary depends on the division convention: it is outside property C10
        (non-zero leading coefficient) and `roots_length` only says that ONE value is returned.
  NOT proved: anything about rounding (class F); convergence of Laguerre for degree ≥ 4.
-/
import Ohsl.Props.C10D
set_option linter.unusedSectionVars false
set_option linter.unusedVariables false
namespace Ohsl.Props.C10
open Ohsl Ohsl.Roots Ohsl.Cx Ohsl.RealI Ohsl.Props.C14 Polynomial

/-! ## (S) structural facts -/

section Structural
variable {K : Type} [Add K] [Sub K] [Mul K] [Neg K] [Div K] [Zero K] [One K] [BEq K] [ScalarExt K] [Transc K] [OfScientific K]

/-- degree 1 is `−c0 / c1` (complex division with the component type's total `/`) -/
theorem polySolve_deg1_eq (c0 c1 : Cx K) :
    polySolve #[c0, c1] false = .ok #[divT (-c0) c1] := rfl

/-- polishing is one call of `laguer` on the undeflated coefficients per value; the result of
    `laguer` is stored as it is (no snap of the imaginary part) -/
theorem polySolve_deg1_refine_eq (c0 c1 : Cx K) :
    polySolve #[c0, c1] true = .ok #[laguer #[c0, c1] (divT (-c0) c1)] := by
  show Except.ok (#[divT (-c0) c1].map (fun r => laguer #[c0, c1] r)) = _
  simp

theorem polySolve_deg2_refine_eq (c0 c1 c2 : Cx K) :
    polySolve #[c0, c1, c2] true =
      .ok ((quadraticSolve c2 c1 c0).map (fun r => laguer #[c0, c1, c2] r)) := rfl

theorem polySolve_deg3_refine_eq (c0 c1 c2 c3 : Cx K) :
    polySolve #[c0, c1, c2, c3] true =
      .ok ((cubicSolve c3 c2 c1 c0).map (fun r => laguer #[c0, c1, c2, c3] r)) := rfl

/-- **Trace of the model's Laguerre loop.**  `xs 0 = x`; the first `k ≤ fuel` calls
    `laguerStep a m (iter + i) (xs i)` (`i < k`) succeed and produce `xs (i+1)`; if fuel is left
    (`k < fuel`) the next call, at `xs k`, returns `none` (converged / stagnated / non-finite).
    Only `laguerStep` of the model occurs here. -/
def LaguerTrace (a : Array (Cx K)) (m fuel iter : Nat) (x : Cx K) (k : Nat) (xs : Nat → Cx K) : Prop :=
  k ≤ fuel ∧ xs 0 = x ∧
  (∀ i, i < k → laguerStep a m (iter + i) (xs i) = some (xs (i + 1))) ∧
  (k < fuel → laguerStep a m (iter + k) (xs k) = none)

/-- a trace exists for every input … -/
theorem laguerLoop_trace_exists (a : Array (Cx K)) (m fuel iter : Nat) (x : Cx K) :
    ∃ k xs, LaguerTrace a m fuel iter x k xs := by
  induction fuel generalizing iter x with
  | zero =>
    exact ⟨0, fun _ => x, Nat.le_refl _, rfl, fun i hi => absurd hi (Nat.not_lt_zero _),
      fun h => absurd h (Nat.lt_irrefl _)⟩
  | succ f ih =>
    cases hx : laguerStep a m iter x with
    | none =>
      exact ⟨0, fun _ => x, Nat.zero_le _, rfl, fun i hi => absurd hi (Nat.not_lt_zero _),
        fun _ => by simpa using hx⟩
    | some x' =>
      obtain ⟨k, xs, hk, h0, hs, hn⟩ := ih (iter + 1) x'
      refine ⟨k + 1, fun i => match i with | 0 => x | i + 1 => xs i, by omega, rfl, ?_, ?_⟩
      · intro i hi
        cases i with
        | zero => simpa [h0] using hx
        | succ i =>
          have := hs i (by omega)
          rw [show iter + 1 + i = iter + (i + 1) by omega] at this
          simpa using this
      · intro hlt
        have := hn (by omega)
        rw [show iter + 1 + k = iter + (k + 1) by omega] at this
        simpa using this

/-- … and every trace ends at the value returned by the model's `laguerLoop`; its length is the
    update counter `laguerSteps` of C10Q (which is therefore determined by the model alone) -/
theorem laguerTrace_value (a : Array (Cx K)) (m fuel iter : Nat) (x : Cx K) (k : Nat)
    (xs : Nat → Cx K) (h : LaguerTrace a m fuel iter x k xs) :
    laguerLoop a m fuel iter x = xs k ∧ laguerSteps a m fuel iter x = k := by
  induction fuel generalizing iter x k xs with
  | zero =>
    obtain ⟨hk, h0, -, -⟩ := h
    have hk0 : k = 0 := by omega
    subst hk0
    simp [laguerLoop, laguerSteps, h0]
  | succ f ih =>
    obtain ⟨hk, h0, hs, hn⟩ := h
    cases k with
    | zero =>
      have h1 := hn (by omega)
      rw [Nat.add_zero, h0] at h1
      simp [laguerLoop, laguerSteps, h1, h0]
    | succ k' =>
      have h1 := hs 0 (by omega)
      rw [Nat.add_zero, h0] at h1
      have htr : LaguerTrace a m f (iter + 1) (xs 1) k' (fun i => xs (i + 1)) := by
        refine ⟨by omega, rfl, fun i hi => ?_, fun hlt => ?_⟩
        · have := hs (i + 1) (by omega)
          rwa [show iter + (i + 1) = iter + 1 + i by omega] at this
        · have := hn (by omega)
          rwa [show iter + (k' + 1) = iter + 1 + k' by omega] at this
      obtain ⟨e1, e2⟩ := ih (iter + 1) (xs 1) k' (fun i => xs (i + 1)) htr
      simp only [Nat.zero_add] at h1
      simp [laguerLoop, laguerSteps, h1, e1, e2]

/-- **The model's `laguerLoop` as a chain of at most `fuel` steps** (statement about `laguerLoop` and
    `laguerStep` only) -/
theorem laguerLoop_trace (a : Array (Cx K)) (m fuel iter : Nat) (x : Cx K) :
    ∃ k xs, LaguerTrace a m fuel iter x k xs ∧ laguerLoop a m fuel iter x = xs k := by
  obtain ⟨k, xs, h⟩ := laguerLoop_trace_exists a m fuel iter x
  exact ⟨k, xs, h, (laguerTrace_value a m fuel iter x k xs h).1⟩

/-- the trace is unique: its length and all its points `xs 0 … xs k` are determined -/
theorem laguerTrace_unique (a : Array (Cx K)) (m fuel iter : Nat) (x : Cx K) (k k' : Nat)
    (xs xs' : Nat → Cx K) (h : LaguerTrace a m fuel iter x k xs)
    (h' : LaguerTrace a m fuel iter x k' xs') : k = k' ∧ ∀ i, i ≤ k → xs i = xs' i := by
  have hk : k = k' :=
    (laguerTrace_value a m fuel iter x k xs h).2.symm.trans (laguerTrace_value a m fuel iter x k' xs' h').2
  subst hk
  refine ⟨rfl, fun i => ?_⟩
  induction i with
  | zero => intro _; rw [h.2.1, h'.2.1]
  | succ i ih =>
    intro hi
    have e := ih (by omega)
    have s1 := h.2.2.1 i (by omega)
    have s2 := h'.2.2.1 i (by omega)
    rw [e, s2] at s1
    exact (Option.some.inj s1).symm

/-- number of evaluations of `laguerStep` along a trace: the `k` successful ones, plus the final
    stopping one if fuel was left; never more than the fuel -/
theorem laguerTrace_evals_le (a : Array (Cx K)) (m fuel iter : Nat) (x : Cx K) (k : Nat)
    (xs : Nat → Cx K) (h : LaguerTrace a m fuel iter x k xs) :
    k + (if k < fuel then 1 else 0) ≤ fuel := by
  have := h.1
  split <;> omega

/-- **`laguer` evaluates the Laguerre step at most 79 times**: its value is the end `xs k` of the
    unique chain of `k ≤ 79` successful steps from `x`, the iteration counter running through
    `1, 2, …`; the step is evaluated `k + [k < 79] ≤ 79` times -/
theorem laguer_trace (a : Array (Cx K)) (x : Cx K) :
    ∃ k xs, LaguerTrace a (a.size - 1) 79 1 x k xs ∧ laguer a x = xs k ∧
      k + (if k < 79 then 1 else 0) ≤ 79 := by
  obtain ⟨k, xs, h, e⟩ := laguerLoop_trace a (a.size - 1) 79 1 x
  exact ⟨k, xs, h, e, laguerTrace_evals_le _ _ _ _ _ _ _ h⟩

end Structural

/-! ## (R) real interpretation -/

section RealInterp

theorem cpoly1_eval (c0 c1 : Cx ℝ) (z : ℂ) :
    (cpoly #[c0, c1] 1).eval z = toC c1 * z + toC c0 := by
  simp [cpoly, Finset.sum_range_succ, cf]
  ring

theorem cpoly2_eval (c0 c1 c2 : Cx ℝ) (z : ℂ) :
    (cpoly #[c0, c1, c2] 2).eval z = toC c2 * z ^ 2 + toC c1 * z + toC c0 := by
  simp [cpoly, Finset.sum_range_succ, cf]
  ring

theorem cpoly3_eval (c0 c1 c2 c3 : Cx ℝ) (z : ℂ) :
    (cpoly #[c0, c1, c2, c3] 3).eval z =
      toC c3 * z ^ 3 + toC c2 * z ^ 2 + toC c1 * z + toC c0 := by
  simp [cpoly, Finset.sum_range_succ, cf]
  ring

/-- **Degree 1.**  For `c1 X + c0` with `c1 ≠ 0` the model returns the single value `−c0/c1`, which
    is an exact zero — without polishing and with polishing (`laguer` started at an exact zero stops
    at its first test `|P(x)| ≤ eps·err` and returns it). -/
theorem polySolve_deg1 (c0 c1 : Cx ℝ) (refine : Bool) (h : toC c1 ≠ 0) :
    polySolve #[c0, c1] refine = .ok #[divT (-c0) c1] ∧
    toC (divT (-c0) c1) = -toC c0 / toC c1 ∧
    toC c1 * toC (divT (-c0) c1) + toC c0 = 0 := by
  have hr : toC (divT (-c0) c1) = -toC c0 / toC c1 := by rw [divT_eq, toC_neg]
  have hz : toC c1 * toC (divT (-c0) c1) + toC c0 = 0 := by
    rw [hr]; field_simp; ring
  refine ⟨?_, hr, hz⟩
  cases refine
  · rfl
  · rw [polySolve_deg1_refine_eq, laguer_at_root]
    show (cpoly #[c0, c1] 1).eval _ = 0
    rw [cpoly1_eval]; exact hz

/-- the same through `Polynomial<f64>::roots` (real coefficients): `#[c0, c1] ↦ −c0/c1 + 0i` -/
theorem rootsReal_deg1 (c0 c1 : ℝ) (refine : Bool) (h : c1 ≠ 0) :
    rootsReal #[c0, c1] refine = .ok #[⟨-c0 / c1, 0⟩] ∧ c1 * (-c0 / c1) + c0 = 0 := by
  have h1 : toC (⟨c1, 0⟩ : Cx ℝ) ≠ 0 := by
    intro e; apply h; simpa [toC] using congrArg Complex.re e
  have hv : divT (-(⟨c0, 0⟩ : Cx ℝ)) ⟨c1, 0⟩ = ⟨-c0 / c1, 0⟩ := by
    rw [← toC_inj, divT_eq, toC_neg]
    apply Complex.ext <;> simp [toC, Complex.div_re, Complex.div_im, Complex.normSq_apply]
    field_simp
  refine ⟨?_, by field_simp; ring⟩
  have hm : rootsReal #[c0, c1] refine = polySolve #[(⟨c0, 0⟩ : Cx ℝ), ⟨c1, 0⟩] refine := by
    simp [rootsReal]
  rw [hm, (polySolve_deg1 _ _ refine h1).1, hv]

/-- **Degree 2, refined or not.**  For a non-zero leading coefficient the result IS the closed form:
    every value of `quadraticSolve` is an exact zero (`quadratic_roots`), so polishing returns it
    unchanged (`polish_at_roots`); there is no snapping in the polishing step, hence no further
    hypothesis. -/
theorem polySolve_deg2_refine (c0 c1 c2 : Cx ℝ) (refine : Bool) (h : toC c2 ≠ 0) :
    polySolve #[c0, c1, c2] refine = .ok (quadraticSolve c2 c1 c0) := by
  cases refine
  · rfl
  · rw [polySolve_deg2_refine_eq, polish_at_roots]
    intro r hr
    show (cpoly #[c0, c1, c2] 2).eval _ = 0
    rw [cpoly2_eval]; exact quadratic_roots c2 c1 c0 h r hr

/-- degree 2: the two returned values are all the zeros with multiplicity, refined or not -/
theorem polySolve_deg2_roots (c0 c1 c2 : Cx ℝ) (refine : Bool) (h : toC c2 ≠ 0) :
    ∃ r0 r1 : Cx ℝ, polySolve #[c0, c1, c2] refine = .ok #[r0, r1] ∧
      (∀ X : ℂ, toC c2 * (X - toC r0) * (X - toC r1) = toC c2 * X ^ 2 + toC c1 * X + toC c0) ∧
      toC c2 * toC r0 ^ 2 + toC c1 * toC r0 + toC c0 = 0 ∧
      toC c2 * toC r1 ^ 2 + toC c1 * toC r1 + toC c0 = 0 := by
  obtain ⟨r0, r1, hs, hX⟩ := quadratic_factor c2 c1 c0 h
  refine ⟨r0, r1, by rw [polySolve_deg2_refine c0 c1 c2 refine h, hs], hX, ?_, ?_⟩
  · rw [← hX]; ring
  · rw [← hX]; ring

/-- **Degree 3, refined or not.** -/
theorem polySolve_deg3_refine (c0 c1 c2 c3 : Cx ℝ) (refine : Bool) (h : toC c3 ≠ 0) :
    polySolve #[c0, c1, c2, c3] refine = .ok (cubicSolve c3 c2 c1 c0) := by
  cases refine
  · rfl
  · rw [polySolve_deg3_refine_eq, polish_at_roots]
    intro r hr
    show (cpoly #[c0, c1, c2, c3] 3).eval _ = 0
    rw [cpoly3_eval]; exact cubic_roots c3 c2 c1 c0 h r hr

/-- degree 3: the three returned values are all the zeros with multiplicity, refined or not -/
theorem polySolve_deg3_roots (c0 c1 c2 c3 : Cx ℝ) (refine : Bool) (h : toC c3 ≠ 0) :
    ∃ r0 r1 r2 : Cx ℝ, polySolve #[c0, c1, c2, c3] refine = .ok #[r0, r1, r2] ∧
      (∀ X : ℂ, toC c3 * (X - toC r0) * (X - toC r1) * (X - toC r2) =
        toC c3 * X ^ 3 + toC c2 * X ^ 2 + toC c1 * X + toC c0) ∧
      ∀ r ∈ #[r0, r1, r2], toC c3 * toC r ^ 3 + toC c2 * toC r ^ 2 + toC c1 * toC r + toC c0 = 0 := by
  obtain ⟨r0, r1, r2, hs, hX⟩ := cubic_factor c3 c2 c1 c0 h
  refine ⟨r0, r1, r2, by rw [polySolve_deg3_refine c0 c1 c2 c3 refine h, hs], hX, ?_⟩
  intro r hr
  rw [← hs] at hr
  exact cubic_roots c3 c2 c1 c0 h r hr

/-! ### the boundary: zero leading coefficient, degree 1 -/

/-- **Zero leading coefficient (convention-dependent boundary).**  `#[c0, 0]` is the constant `c0`
    presented as a "degree-1" polynomial.  The code computes `−c0 / (0 + 0i)`, i.e. both components
    are divided by `0² + 0² = 0`.  In the real interpretation (Mathlib's totalised `x / 0 = 0`) the
    model therefore returns `#[0]`, whatever `c0` is — which is a zero of the polynomial only if
    `c0 = 0`.  In `f64` the same input returns `NaN + NaN i` (`(∓0)/0`), and `±inf` components arise
    when `c1 ≠ 0` but `|c1|²` underflows.  This input is outside property C10 (which requires a
    non-zero leading coefficient); `roots_length` needs no such hypothesis because it only counts
    the returned values. -/
theorem polySolve_deg1_zero_lead (c0 : Cx ℝ) : polySolve #[c0, 0] false = .ok #[0] := by
  have hv : divT (-c0) (0 : Cx ℝ) = 0 := by
    rw [← toC_inj, divT_eq, toC_zero, div_zero]
  rw [polySolve_deg1_eq, hv]

theorem cpoly_const (c0 : Cx ℝ) : cpoly #[c0, 0] 1 = C (toC c0) := by
  simp [cpoly, Finset.sum_range_succ, cf, toC_zero]

theorem hornerErr_const (c x : ℂ) : hornerErr (C c) 1 x = ‖c‖ := by
  simp [hornerErr, Finset.sum_range_succ, divX_C]

/-- on a constant polynomial both Laguerre denominators vanish: the fall-back step is taken -/
theorem laguerDx_const (c x : ℂ) (iter : ℕ) :
    laguerDx (C c) 1 iter x = ((1 + ‖x‖ : ℝ) : ℂ) * Complex.exp (((iter : ℝ) : ℂ) * Complex.I) := by
  simp [laguerDx]

/-- on a non-zero constant (`a` denotes `C c`, `m = 1`) the step never stops: there is no zero to
    converge to, and the fall-back correction `(1 + |x|) e^{i·iter}` is never `0` -/
theorem laguerStep_const (a : Array (Cx ℝ)) (c : ℂ) (hc : c ≠ 0) (hP : cpoly a 1 = C c)
    (iter : ℕ) (x : Cx ℝ) :
    ∃ y, laguerStep a 1 iter x = some y ∧
      toC y = toC x - ((1 + ‖toC x‖ : ℝ) : ℂ) * Complex.exp (((iter : ℝ) : ℂ) * Complex.I)
        * ((stepFrac iter : ℝ) : ℂ) := by
  cases hs : laguerStep a 1 iter x with
  | none =>
    exfalso
    rcases (laguerStep_none_iff a 1 iter x).mp hs with h | h
    · rw [hP, hornerErr_const, eval_C] at h
      have hpos : 0 < ‖c‖ := norm_pos_iff.mpr hc
      have : (2 : ℝ) ^ (-52 : ℤ) < 1 := by norm_num
      nlinarith
    · rw [hP, laguerDx_const] at h
      have h1 : ((1 + ‖toC x‖ : ℝ) : ℂ) ≠ 0 := by
        have : (0 : ℝ) < 1 + ‖toC x‖ := by positivity
        exact_mod_cast this.ne'
      exact mul_ne_zero h1 (Complex.exp_ne_zero _) h
  | some y =>
    refine ⟨y, rfl, ?_⟩
    rw [(laguerStep_some a 1 iter x y hs).1, hP, laguerDx_const]

theorem laguerSteps_const (a : Array (Cx ℝ)) (c : ℂ) (hc : c ≠ 0) (hP : cpoly a 1 = C c)
    (fuel iter : ℕ) (x : Cx ℝ) : laguerSteps a 1 fuel iter x = fuel := by
  induction fuel generalizing iter x with
  | zero => simp [laguerSteps]
  | succ f ih =>
    obtain ⟨y, hy, -⟩ := laguerStep_const a c hc hP iter x
    simp [laguerSteps, hy, ih]

/-- **Zero leading coefficient with polishing.**  The polished value is `laguer #[c0, 0]` started at
    the unrefined value `0`.  If `c0 = 0` (the zero polynomial) the start value is a zero and is
    returned.  If `c0 ≠ 0` the polynomial has no zero: `laguer` exhausts its 79 iterations, every
    one a fall-back step (`laguerStep_const`), so every trace has length 79; the returned value is an
    artefact of the iteration, not a root.  (In `f64` the start value is already `NaN + NaN i`, the
    first test `|b| ≤ err` is false, `x1` is non-finite and the loop returns the NaN start value.) -/
theorem polySolve_deg1_zero_lead_refine (c0 : Cx ℝ) :
    polySolve #[c0, 0] true = .ok #[laguer #[c0, 0] 0] ∧
    (toC c0 = 0 → laguer #[c0, 0] 0 = 0) ∧
    (toC c0 ≠ 0 → laguerSteps #[c0, 0] 1 79 1 0 = 79 ∧
      ∀ k xs, LaguerTrace #[c0, 0] 1 79 1 (0 : Cx ℝ) k xs → k = 79) := by
  have hv : divT (-c0) (0 : Cx ℝ) = 0 := by
    rw [← toC_inj, divT_eq, toC_zero, div_zero]
  refine ⟨by rw [polySolve_deg1_refine_eq, hv], fun h0 => ?_, fun h0 => ?_⟩
  · apply laguer_at_root
    show (cpoly #[c0, 0] 1).eval _ = 0
    rw [cpoly_const, h0]; simp
  · have hst := laguerSteps_const #[c0, 0] (toC c0) h0 (cpoly_const c0) 79 1 0
    refine ⟨hst, fun k xs htr => ?_⟩
    rw [← (laguerTrace_value _ _ _ _ _ k xs htr).2, hst]

/-! ### the hypotheses are satisfiable -/

/-- `2x + 4` over ℝ: the model returns `−2`, refined or not -/
example (refine : Bool) : rootsReal (#[4, 2] : Array ℝ) refine = .ok #[⟨-2, 0⟩] := by
  rw [(rootsReal_deg1 4 2 refine (by norm_num)).1]
  norm_num

/-- `2x + 4` with complex coefficients: hypothesis and conclusion of `polySolve_deg1` -/
example (refine : Bool) :
    toC (⟨2, 0⟩ : Cx ℝ) ≠ 0 ∧
    polySolve #[(⟨4, 0⟩ : Cx ℝ), ⟨2, 0⟩] refine = .ok #[divT (-⟨4, 0⟩) ⟨2, 0⟩] := by
  have h : toC (⟨2, 0⟩ : Cx ℝ) ≠ 0 := by
    intro e; simpa [toC] using congrArg Complex.re e
  exact ⟨h, (polySolve_deg1 _ _ refine h).1⟩

/-- `x² − 3x + 2` with polishing: the model returns `1` and `2` (in some order) -/
example : ∃ r0 r1 : Cx ℝ,
    polySolve #[(⟨2, 0⟩ : Cx ℝ), ⟨-3, 0⟩, ⟨1, 0⟩] true = .ok #[r0, r1] ∧
    ((toC r0 = 1 ∧ toC r1 = 2) ∨ (toC r0 = 2 ∧ toC r1 = 1)) := by
  have h1 : toC (⟨1, 0⟩ : Cx ℝ) = 1 := by apply Complex.ext <;> simp [toC]
  have h2 : toC (⟨2, 0⟩ : Cx ℝ) = 2 := by apply Complex.ext <;> simp [toC]
  have h3 : toC (⟨-3, 0⟩ : Cx ℝ) = -3 := by apply Complex.ext <;> simp [toC]
  obtain ⟨r0, r1, hs, hX, -, -⟩ := polySolve_deg2_roots ⟨2, 0⟩ ⟨-3, 0⟩ ⟨1, 0⟩ true (by rw [h1]; norm_num)
  refine ⟨r0, r1, hs, ?_⟩
  rw [h1, h2, h3] at hX
  have e0 := hX 0
  have e1 := hX 1
  have hsum : toC r0 + toC r1 = 3 := by linear_combination e0 - e1
  have hprod : (1 - toC r0) * (1 - toC r1) = 0 := by linear_combination e1
  rcases mul_eq_zero.mp hprod with h | h
  · left; exact ⟨by linear_combination -h, by linear_combination hsum + h⟩
  · right; exact ⟨by linear_combination hsum + h, by linear_combination -h⟩

/-- `x³ − 6x² + 11x − 6` with polishing: hypothesis of `polySolve_deg3_roots` -/
example : ∃ r0 r1 r2 : Cx ℝ,
    polySolve #[(⟨-6, 0⟩ : Cx ℝ), ⟨11, 0⟩, ⟨-6, 0⟩, ⟨1, 0⟩] true = .ok #[r0, r1, r2] := by
  have h1 : toC (⟨1, 0⟩ : Cx ℝ) ≠ 0 := by
    intro e; simpa [toC] using congrArg Complex.re e
  obtain ⟨r0, r1, r2, hs, -, -⟩ := polySolve_deg3_roots ⟨-6, 0⟩ ⟨11, 0⟩ ⟨-6, 0⟩ ⟨1, 0⟩ true h1
  exact ⟨r0, r1, r2, hs⟩

/-- the constant `5` presented as `0·x + 5`: the real-interpretation model returns `0` (f64: NaN),
    and with polishing the Laguerre loop runs all its 79 iterations -/
example : polySolve #[(⟨5, 0⟩ : Cx ℝ), 0] false = .ok #[0] ∧
    laguerSteps #[(⟨5, 0⟩ : Cx ℝ), 0] 1 79 1 0 = 79 := by
  refine ⟨polySolve_deg1_zero_lead _, ((polySolve_deg1_zero_lead_refine ⟨5, 0⟩).2.2 ?_).1⟩
  intro e; simpa [toC] using congrArg Complex.re e

end RealInterp
end Ohsl.Props.C10
