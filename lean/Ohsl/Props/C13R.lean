/-
  Property C13, real interpretation — the model's complex numbers over ℝ ARE Mathlib's ℂ:
  `toC : Cx ℝ → ℂ` (Ohsl/Lemmas/RealTransc.lean) is a bijection that commutes with every
  arithmetic operation of `Ohsl.Cx` (Ohsl/Model/Cx.lean), including the fallible division, the
  conjugate, the squared modulus and the mixed complex/real forms; packaged as a ring isomorphism
  from `Cx ℝ` with the ring structure `C13.cx_ring`.  The model's `PartialOrd` is the
  lexicographic order on `(re, im)`.

  The bridges for `+ - * neg 0 1 addR subR mulR` are in Ohsl/Props/C14I.lean
  (`Ohsl.Props.C14.toC_add`, …) and are reused, not restated.
-/
import Ohsl.Props.C13
import Ohsl.Props.C14I
import Mathlib.Data.Complex.Basic
import Mathlib.Algebra.Ring.Equiv
import Mathlib.Order.Lex
import Mathlib.Data.Prod.Lex
import Mathlib.Tactic.Ring
import Mathlib.Tactic.FieldSimp
import Mathlib.Tactic.Linarith

set_option linter.unusedSectionVars false
set_option linter.unusedVariables false

namespace Ohsl.Props.C13
open Ohsl Ohsl.Cx Ohsl.RealI Ohsl.Props.C14

/-! ### the lexicographic order (any linearly ordered field, exact interpretation) -/
section Order
variable {K : Type} [Field K] [LinearOrder K]
attribute [local instance] Alg.scalarExt

/-- `a < b` of the model is the strict lexicographic order on `(re, im)` -/
theorem lt_iff_lex (a b : Cx K) :
    Cx.lt a b = true ↔ a.re < b.re ∨ (a.re = b.re ∧ a.im < b.im) := by
  unfold Cx.lt
  by_cases h : a.re = b.re
  · simp [h]
  · simp [h]

/-- the same, with Mathlib's `Prod.Lex` order -/
theorem lt_iff_toLex (a b : Cx K) :
    Cx.lt a b = true ↔ toLex (a.re, a.im) < toLex (b.re, b.im) := by
  rw [lt_iff_lex, Prod.Lex.toLex_lt_toLex]

/-- `partial_cmp` of the model: `Less` (0) / `Equal` (1) / `Greater` (2) are exactly the three
    cases of the lexicographic order; `None` (3) never occurs -/
theorem cmp_iff_lex (a b : Cx K) :
    (Cx.cmp a b = 0 ↔ a.re < b.re ∨ (a.re = b.re ∧ a.im < b.im)) ∧
    (Cx.cmp a b = 1 ↔ a = b) ∧
    (Cx.cmp a b = 2 ↔ b.re < a.re ∨ (b.re = a.re ∧ b.im < a.im)) ∧
    Cx.cmp a b ≠ 3 := by
  obtain ⟨h3, h1, h0⟩ := cmp_total a b
  refine ⟨h0.trans (lt_iff_lex a b), h1, ?_, h3⟩
  have hs := cmp_swap b a
  obtain ⟨_, _, g0⟩ := cmp_total b a
  rw [← lt_iff_lex b a, ← g0]
  have hs' := cmp_swap a b
  omega

/-- the strict order of the model is irreflexive, transitive and total -/
theorem lt_strict_total (a b c : Cx K) :
    Cx.lt a a = false ∧ (Cx.lt a b = true → Cx.lt b c = true → Cx.lt a c = true) ∧
    (Cx.lt a b = true ∨ a = b ∨ Cx.lt b a = true) := by
  refine ⟨?_, ?_, ?_⟩
  · have := lt_iff_lex a a
    cases h : Cx.lt a a
    · rfl
    · rw [h] at this; have := this.mp rfl; simp at this
  · intro h1 h2
    rw [lt_iff_toLex] at *
    exact lt_trans h1 h2
  · rw [lt_iff_toLex, lt_iff_toLex]
    rcases lt_trichotomy (toLex (a.re, a.im)) (toLex (b.re, b.im)) with h | h | h
    · exact Or.inl h
    · right; left
      have h' : (a.re, a.im) = (b.re, b.im) := toLex.injective h
      exact ext' (congrArg Prod.fst h') (congrArg Prod.snd h')
    · exact Or.inr (Or.inr h)

end Order

/-! ### `toC` commutes with the remaining operations -/
section Real

theorem toC_eq_zero {w : Cx ℝ} : toC w = 0 ↔ w = 0 := by
  rw [← toC_zero, toC_inj]

/-- `abs_sqr` is Mathlib's `Complex.normSq` -/
theorem toC_absSqr (z : Cx ℝ) : Cx.absSqr z = Complex.normSq (toC z) := by
  simp [Cx.absSqr, Complex.normSq_apply, toC]

/-- `conj` is complex conjugation -/
theorem toC_conj (z : Cx ℝ) : toC (Cx.conj z) = (starRingEnd ℂ) (toC z) := by
  apply Complex.ext <;> simp [toC, Cx.conj]

theorem absSqr_ne_zero_iff {w : Cx ℝ} : Cx.absSqr w ≠ 0 ↔ toC w ≠ 0 := by
  rw [toC_absSqr, Ne, Complex.normSq_eq_zero]

/-- division succeeds exactly for a non-zero divisor and is then division in ℂ … -/
theorem toC_div_ok (z w : Cx ℝ) (hw : toC w ≠ 0) :
    ∃ q, Cx.div z w = .ok q ∧ toC q = toC z / toC w := by
  obtain ⟨q, hq, hmul⟩ := cx_div_mul z w (absSqr_ne_zero_iff.mpr hw)
  refine ⟨q, hq, ?_⟩
  rw [eq_div_iff hw, ← toC_mul, hmul]

/-- … in particular every successful division is division in ℂ -/
theorem toC_div {z w q : Cx ℝ} (h : Cx.div z w = .ok q) : toC q = toC z / toC w := by
  by_cases hw : toC w = 0
  · rw [cx_div_rejects z w (by rw [toC_absSqr, hw, map_zero])] at h
    cases h
  · obtain ⟨q', hq', e⟩ := toC_div_ok z w hw
    rw [hq'] at h; cases h; exact e

/-- … and it panics (class `arith`) exactly for the divisor `0` -/
theorem toC_div_error (z w : Cx ℝ) : Cx.div z w = .error .arith ↔ toC w = 0 := by
  constructor
  · intro h
    by_contra hw
    obtain ⟨q, hq, _⟩ := toC_div_ok z w hw
    rw [hq] at h; cases h
  · intro hw
    exact cx_div_rejects z w (by rw [toC_absSqr, hw, map_zero])

/-- the total description of the model's complex division at the real interpretation (the error branch on a
    zero divisor exists only in the exact interpretation: `f64` never rejects) -/
theorem toC_div_total (z w : Cx ℝ) :
    (toC w = 0 ∧ Cx.div z w = .error .arith) ∨
    (toC w ≠ 0 ∧ ∃ q, Cx.div z w = .ok q ∧ toC q = toC z / toC w) := by
  by_cases hw : toC w = 0
  · exact Or.inl ⟨hw, (toC_div_error z w).mpr hw⟩
  · exact Or.inr ⟨hw, toC_div_ok z w hw⟩

/-- `/=` is the same computation -/
theorem toC_divAssign {z w q : Cx ℝ} (h : Cx.divAssign z w = .ok q) : toC q = toC z / toC w :=
  toC_div (by rw [← divAssign_eq]; exact h)

/-- complex / real -/
theorem toC_divR {z q : Cx ℝ} {r : ℝ} (h : Cx.divR z r = .ok q) : toC q = toC z / (r : ℂ) := by
  have h' : Cx.div z ⟨r, 0⟩ = .ok q := by rw [← (mixed_real_forms z r).2.2.2]; exact h
  have := toC_div h'
  rw [this]
  congr 1

theorem toC_divR_error (z : Cx ℝ) (r : ℝ) : Cx.divR z r = .error .arith ↔ r = 0 := by
  rw [(mixed_real_forms z r).2.2.2, toC_div_error]
  constructor
  · intro h; exact congrArg Complex.re h
  · rintro rfl; rfl

theorem toC_divR_ok (z : Cx ℝ) {r : ℝ} (hr : r ≠ 0) :
    ∃ q, Cx.divR z r = .ok q ∧ toC q = toC z / (r : ℂ) := by
  have hw : toC (⟨r, 0⟩ : Cx ℝ) ≠ 0 := fun h => hr (congrArg Complex.re h)
  obtain ⟨q, hq, e⟩ := toC_div_ok z ⟨r, 0⟩ hw
  refine ⟨q, by rw [(mixed_real_forms z r).2.2.2]; exact hq, ?_⟩
  rw [e]; congr 1

/-- all four mixed complex/real forms at once (`addR`, `subR`, `mulR` from C14I) -/
theorem toC_mixed_real (z : Cx ℝ) (r : ℝ) :
    toC (addR z r) = toC z + (r : ℂ) ∧ toC (subR z r) = toC z - (r : ℂ) ∧
    toC (mulR z r) = toC z * (r : ℂ) ∧
    (∀ q, Cx.divR z r = .ok q → toC q = toC z / (r : ℂ)) ∧
    (Cx.divR z r = .error .arith ↔ r = 0) :=
  ⟨toC_addR z r, toC_subR z r, toC_mulR z r, fun q h => toC_divR h, toC_divR_error z r⟩

/-- the compound-assignment forms -/
theorem toC_assign (a b : Cx ℝ) :
    toC (addAssign a b) = toC a + toC b ∧ toC (subAssign a b) = toC a - toC b ∧
    toC (mulAssign a b) = toC a * toC b := by
  refine ⟨toC_add a b, toC_sub a b, ?_⟩
  rw [mulAssign_eq (fun x y : ℝ => add_comm x y), toC_mul]

/-- `==` of the model is equality in ℂ -/
theorem toC_beq (a b : Cx ℝ) : (a == b) = true ↔ toC a = toC b := by
  rw [beq_iff, toC_inj]

theorem toC_surjective : Function.Surjective toC := fun c => ⟨⟨c.re, c.im⟩, rfl⟩
theorem toC_injective : Function.Injective toC := fun _ _ h => toC_inj.mp h
theorem toC_bijective : Function.Bijective toC := ⟨toC_injective, toC_surjective⟩

/-- **`toC` is a field isomorphism** (homomorphism equations on the model's own operators):
    bijective, preserves `0 1 + * - neg`, conjugation, the squared modulus, and division wherever
    the model's division is defined (which is: wherever ℂ's is non-degenerate). -/
theorem toC_ringHom :
    Function.Bijective toC ∧ toC (0 : Cx ℝ) = 0 ∧ toC (1 : Cx ℝ) = 1 ∧
    (∀ a b : Cx ℝ, toC (a + b) = toC a + toC b) ∧ (∀ a b : Cx ℝ, toC (a * b) = toC a * toC b) ∧
    (∀ a b : Cx ℝ, toC (a - b) = toC a - toC b) ∧ (∀ a : Cx ℝ, toC (-a) = -toC a) ∧
    (∀ a b q : Cx ℝ, Cx.div a b = .ok q → toC q = toC a / toC b) ∧
    (∀ a b : Cx ℝ, toC b ≠ 0 → ∃ q, Cx.div a b = .ok q) :=
  ⟨toC_bijective, toC_zero, toC_one, toC_add, toC_mul, toC_sub, toC_neg,
    fun _ _ _ h => toC_div h,
    fun a b hb => (toC_div_ok a b hb).imp fun _ h => h.1⟩

/-- the commutative ring `Cx ℝ` (`cx_ring`) is a field: every non-zero element has the inverse computed by the
    model's division -/
theorem cx_inv_exists (w : Cx ℝ) (hw : w ≠ 0) : ∃ q, Cx.div 1 w = .ok q ∧ q * w = 1 := by
  have hw' : toC w ≠ 0 := fun h => hw (toC_eq_zero.mp h)
  obtain ⟨q, hq, e⟩ := toC_div_ok 1 w hw'
  refine ⟨q, hq, ?_⟩
  apply toC_injective
  have : toC (q * w) = toC q * toC w := toC_mul q w
  rw [this, e, toC_one, div_mul_cancel₀ _ hw']

end Real

/-! ### packaged: a `RingEquiv` out of `Cx ℝ` equipped with `cx_ring` -/
section Ring
set_option warn.classDefReducibility false in
attribute [local instance] cx_ring

/-- `toC` as a ring homomorphism; the ring structure on `Cx ℝ` is `C13.cx_ring` -/
noncomputable def toCRingHom : Cx ℝ →+* ℂ where
  toFun := toC
  map_one' := toC_one
  map_mul' := toC_mul
  map_zero' := toC_zero
  map_add' := toC_add

/-- `toC` as a ring isomorphism `(Cx ℝ, cx_ring) ≃+* ℂ` -/
noncomputable def toCRingEquiv : Cx ℝ ≃+* ℂ :=
  RingEquiv.ofBijective toCRingHom toC_bijective

theorem toCRingHom_apply (z : Cx ℝ) : toCRingHom z = toC z := rfl
theorem toCRingEquiv_apply (z : Cx ℝ) : toCRingEquiv z = toC z := rfl
theorem toCRingEquiv_symm_apply (c : ℂ) : toCRingEquiv.symm c = ⟨c.re, c.im⟩ := by
  apply toCRingEquiv.injective
  rw [RingEquiv.apply_symm_apply]
  rfl

/-- the operations of `cx_ring` are the model's operations (so the packaged isomorphism speaks
    about `Cx.add`, `Cx.mul`, …) -/
theorem cx_ring_ops (a b : Cx ℝ) :
    (cx_ring (K := ℝ)).add a b = Cx.add a b ∧ (cx_ring (K := ℝ)).mul a b = Cx.mul a b ∧
    (cx_ring (K := ℝ)).neg a = Cx.neg a ∧ (cx_ring (K := ℝ)).zero = Cx.zero ∧
    (cx_ring (K := ℝ)).one = Cx.one :=
  ⟨rfl, rfl, rfl, rfl, rfl⟩

end Ring

/-! ### non-vacuity -/
example : toC (⟨3, -4⟩ : Cx ℝ) ≠ 0 := by
  intro h
  have := congrArg Complex.re h
  norm_num [toC] at this

example : Cx.lt (⟨1, 2⟩ : Cx ℝ) ⟨1, 3⟩ = true := by
  rw [lt_iff_lex]; right; norm_num

end Ohsl.Props.C13
