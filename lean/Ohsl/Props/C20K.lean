/-
  Property C20 (part K) — the entry guards of the four iterative solvers
  (`Sparse::solve_cg / solve_bicg / solve_bicgstab / solve_qmr`), now part of the model
  (`Sp.solveIter`, Ohsl/Model/KrylovSp.lean): a failed guard yields an error and no value, for any
  scalar type.
-/
import Ohsl.Props.C08K
set_option linter.unusedSectionVars false
namespace Ohsl.Props.C20
open Ohsl Ohsl.Sp
variable {K : Type}
variable [Add K] [Sub K] [Mul K] [Neg K] [Div K] [Zero K] [One K] [BEq K] [ScalarExt K] [Transc K]

/-- mismatched sizes / a non-square matrix / an unknown error measure are rejected by every
    iterative solver before anything is computed -/
theorem rejects_krylov (s : Sp K) (m : Method) (b x0 : Array K) (maxIter : Nat) (tol : K)
    (norm2 : Array K → K) (h : ¬ Ohsl.Props.C08.Guards s m b x0) :
    ∃ e, solveIter s m b x0 maxIter tol norm2 = .error e := by
  cases hr : solveIter s m b x0 maxIter tol norm2 with
  | error e => exact ⟨e, rfl⟩
  | ok out => exact absurd ((Ohsl.Props.C08.solveIter_ok_iff s m b x0 maxIter tol norm2).1 ⟨out, hr⟩).1 h

/-- the class of the error: `size` for the three shape guards -/
theorem rejects_krylov_size (s : Sp K) (m : Method) (b x0 : Array K) (maxIter : Nat) (tol : K)
    (norm2 : Array K → K) (h : s.rows ≠ b.size ∨ s.rows ≠ s.cols ∨ b.size ≠ x0.size) :
    solveIter s m b x0 maxIter tol norm2 = .error .size :=
  Ohsl.Props.C08.solveIter_rejects_size s m b x0 maxIter tol norm2 h

end Ohsl.Props.C20
