/-
  Property C03 — dense matrix algebra / editing follow their definitions for every shape.
  Theorems about the model `Ohsl.Mat` (Ohsl/Model/Mat.lean); helper lemmas are in
  Ohsl/Lemmas/{Loop,MatIdx,MatSpec}.lean.

  (S) statements hold for ANY scalar type with arbitrary operations (so also for f64);
  (E) statements identify the ordered sums with the textbook definition over a semiring.
  Proved in this file: storage lemmas, set_col (incl. the range check against the number of columns
  and the frame condition), matrix·vector, matrix·matrix for every conformable shape.  The remaining
  operations (transpose, fills, resize, delete_row, swap_rows, elementwise ops) and histories are in
  C03M; norms in C03N; accessors, Σ-forms, sdiv and the extended history refinement in C03G; rounding
  in C03F.
-/
import Ohsl.Lemmas.MatSpec
import Ohsl.Lemmas.Alg
import Mathlib.Algebra.BigOperators.Group.Finset.Basic
import Mathlib.Algebra.BigOperators.Ring.Finset
import Mathlib.Tactic.Ring

set_option linter.unusedSectionVars false
set_option linter.unusedVariables false

namespace Ohsl.Props.C03
open Ohsl Ohsl.Mat

section Structural
variable {K : Type} [Add K] [Sub K] [Mul K] [Neg K] [Zero K] [One K] [BEq K] [ScalarExt K]

/-- element (i,j) lives at `i*cols + j`: in range and injective for `i < rows`, `j < cols` -/
theorem row_major (r c i j i' j' : Nat) (hi : i < r) (hj : j < c) (hj' : j' < c) :
    i * c + j < r * c ∧ (i * c + j = i' * c + j' → i = i' ∧ j = j') :=
  ⟨idx_lt hi hj, idx_inj hj hj'⟩

/-- a write to an in-range entry keeps `len == rows*cols`, is read back, touches nothing else -/
theorem set_frame {m : Mat K} (h : m.WF) {i j : Nat} (hi : i < m.rows) (hj : j < m.cols) (v : K) :
    ∃ m', m.set i j v = .ok m' ∧ m'.WF ∧ m'.rows = m.rows ∧ m'.cols = m.cols ∧
      m'.get i j = .ok v ∧
      ∀ i' j', j' < m.cols → (i' ≠ i ∨ j' ≠ j) → m'.get i' j' = m.get i' j' :=
  set_spec h hi hj v

/-- column setter: succeeds for every `col < cols` (NOT `col < rows`), writes exactly column `col` -/
theorem setCol_correct {m : Mat K} {r c : Nat} {e : Nat → Nat → K} (h : Is m r c e) {col : Nat}
    (v : Array K) (hv : v.size = r) (hc : col < c) :
    ∃ m', setCol m col v = .ok m' ∧
      Is m' r c (fun i j => if j = col then v[i]?.getD (e i j) else e i j) :=
  setCol_spec h v hv hc

theorem setCol_guard (m : Mat K) (col : Nat) (v : Array K) (h : v.size ≠ m.rows ∨ m.cols ≤ col) :
    ∃ e, setCol m col v = .error e := setCol_rejects m col v h

/-- matrix·vector: row dot products; wrong length rejected -/
theorem mulVec_correct {m : Mat K} {r c : Nat} {e : Nat → Nat → K} (h : Is m r c e) (v : Array K) :
    (v.size = c → mulVec m v = .ok ((List.range r).map (fun i =>
      (Array.zipWith (· * ·) ((List.range c).map (fun j => e i j)).toArray v).foldl (· + ·) 0)).toArray) ∧
    (v.size ≠ c → mulVec m v = .error .size) :=
  ⟨mulVec_spec h v, fun hne => mulVec_rejects m v (by rw [h.cols]; exact hne)⟩

/-- matrix·matrix for EVERY conformable shape r×k · k×c — wide, tall, single row/column, empty:
    the result is a well-formed r×c matrix whose (i,j) entry is the ordered sum Σ_t a_it·b_tj;
    non-conformable operands are rejected -/
theorem mul_correct {a b : Mat K} {r k c : Nat} {ea eb : Nat → Nat → K}
    (ha : Is a r k ea) (hb : Is b k c eb) :
    ∃ p, mul a b = .ok p ∧ Is p r c (dotRC ea eb k) := mul_spec ha hb

theorem mul_guard (a b : Mat K) (h : a.cols ≠ b.rows) : mul a b = .error .size := mul_rejects a b h

end Structural

section Exact
variable {K : Type} [CommSemiring K]

theorem foldl_zipWith_eq_sum (f g : Nat → K) (k : Nat) :
    (Array.zipWith (· * ·) ((List.range k).map f).toArray ((List.range k).map g).toArray).foldl (· + ·) 0
      = ∑ t ∈ Finset.range k, f t * g t := by
  rw [← Array.foldl_toList]
  simp only [Array.toList_zipWith, List.toList_toArray]
  induction k with
  | zero => simp
  | succ n ih =>
    rw [List.range_succ, List.map_append, List.map_append, List.zipWith_append (by simp),
      List.foldl_append, ih, Finset.sum_range_succ]
    simp

/-- the product entry the code computes is the textbook Σ_t a_it · b_tj -/
theorem dotRC_eq_sum (ea eb : Nat → Nat → K) (k i j : Nat) :
    dotRC ea eb k i j = ∑ t ∈ Finset.range k, ea i t * eb t j := by
  unfold dotRC
  exact foldl_zipWith_eq_sum (fun t => ea i t) (fun t => eb t j) k

end Exact

/-! ### non-vacuity: a wide product 2×3 · 3×4 over ℚ (the shape the original range check rejected) -/
section Examples
attribute [local instance] Alg.scalarExt
def A : Mat ℚ := ⟨#[1, 2, 3, 4, 5, 6], 2, 3⟩
def B : Mat ℚ := ⟨#[1, 0, 2, 0, 0, 1, 0, 3, 4, 0, 0, 1], 3, 4⟩
theorem A_is : Is A 2 3 (fun i j => A.data[i * 3 + j]?.getD 0) := by
  refine ⟨rfl, rfl, rfl, ?_⟩
  intro i j hi hj
  have : i * 3 + j < 6 := by omega
  simp [Mat.get, aget, A, this]
theorem B_is : Is B 3 4 (fun i j => B.data[i * 4 + j]?.getD 0) := by
  refine ⟨rfl, rfl, rfl, ?_⟩
  intro i j hi hj
  have : i * 4 + j < 12 := by omega
  simp [Mat.get, aget, B, this]
example : ∃ p, mul A B = .ok p ∧ p.rows = 2 ∧ p.cols = 4 := by
  obtain ⟨p, hp, hI⟩ := mul_correct A_is B_is
  exact ⟨p, hp, hI.rows, hI.cols⟩
end Examples

end Ohsl.Props.C03
