/-
  Property C05 (part F) — backward error analysis of the tridiagonal (Thomas) solver `Tri.solve` in
  the "rounded reals" interpretation `Fl M` of the model (Ohsl/Lemmas/Rounding.lean): the clause
  "(and is backward stable for diagonally dominant f64 systems)" of property C05.

  The transfer to the Rust `f64` code rests on the ASSUMPTION stated in Rounding.lean (IEEE binary64
  without overflow/underflow satisfies `FlModel` with `u = 2⁻⁵³`); it is not proved here.

  Notation: `a = sub`, `b = main`, `c = sup`, `u = M.u`; hats are computed quantities (`.val`s of the
  `Fl M` values the code produces): pivots `β̂ⱼ = pivR t j`, multipliers `γ̂ⱼ = mulR t j`, forward
  sweep `ŷⱼ = fwdR t r j`.  The code factors `T = L U` with `L` LOWER bidiagonal carrying the pivots
  (`L j j = βⱼ`, `L (j+1) j = aⱼ`) and `U` UNIT upper bidiagonal (`U j (j+1) = γⱼ₊₁ = cⱼ/βⱼ`);
  `Lhat`, `Uhat` are the computed factors and `absLU t n i j = Σₖ |L̂ i k| |Û k j|`.
  Constants: `ginv M k = (1-u)^(-k) - 1` (`k` factors `(1+δ)^{±1}`; `M.gam k ≤ ginv M k ≤
  M.gam k/(1-u)^k`, `ginv M k ≤ k u/(1-k u)`); quotients `1/(1+δ)` are unavoidable when the
  right-hand side is kept unperturbed and are not covered by `M.gam`, since `FlModel` only gives
  `fl x = x(1+δ)`.

  * `solve_run_char`      (S) the run of `solve` over ANY scalar type whose `/` returns `a / b` on a
                          divisor that passed `== 0`: recurrences in the operations of `K`.
  * `solve_fl_char`       (F) the run in `Fl M`: `.ok x̂` iff no computed pivot is exactly zero
                          (`solve_fl_ok_iff`), with all recurrences in `(1+δ)` form, `|δ| ≤ u`
                          (no hypothesis on `u`).
  * `solve_backward_error`(F) `u < 1`: `(T + ΔT) x̂ = r` (right-hand side unperturbed), `ΔT`
                          tridiagonal, `|ΔT| ≤ bwdConst M · |L̂||Û|` componentwise,
                          `bwdConst M = ginv 3 + ginv 1 = 4u + O(u²) ≤ 4u/(1-3u)`
                          (`bwdConst_le`, `bwdConst_le_gam`).
  * `solve_backward_stable_dd` (F) `u < 1` and strict ROW diagonal dominance with margin
                          (`RowDD`: `(1+u)(|aⱼ₋₁| + |cⱼ|) < (1-u)|bⱼ|`): no computed pivot vanishes,
                          `|γ̂ⱼ| ≤ 1`, the solver returns, `|L̂||Û| ≤ 3(1+u)|T|` and
                          `|ΔT| ≤ ddConst M · |T|`, `ddConst M = 3(1+u) bwdConst M = 12u + O(u²)
                          ≤ 12u(1+u)/(1-3u)` (`ddConst_le`), independently of `n`.
    Row dominance is the natural hypothesis for THIS factorisation: the multipliers `γ̂` live in the
    unit factor `Û` and row dominance keeps them `≤ 1` in modulus under rounding.
-/
import Ohsl.Props.C05T
import Ohsl.Lemmas.Rounding
import Mathlib.Algebra.Order.BigOperators.Group.Finset
import Mathlib.Tactic.Ring
import Mathlib.Tactic.Linarith
import Mathlib.Tactic.Positivity
import Mathlib.Tactic.FieldSimp
import Mathlib.Tactic.LinearCombination
set_option linter.unusedSectionVars false
set_option linter.unusedVariables false
set_option linter.unusedSimpArgs false
namespace Ohsl.Props.C05
open Ohsl Ohsl.Tri

/-! ### structural: the run of `solve` over any scalar type with a total-on-non-zero `/` -/

section Structural
variable {K : Type} [Add K] [Sub K] [Mul K] [Div K] [Neg K] [Zero K] [One K] [BEq K] [ScalarExt K]

/-- computed pivots, with the operations of `K` in the order of the code:
`β₀ = main[0]`, `βⱼ₊₁ = main[j+1] − sub[j] * (sup[j] / βⱼ)` -/
def cPivot (t : Tri K) : Nat → K
  | 0 => t.main[0]?.getD 0
  | j + 1 => t.main[j + 1]?.getD 0 - t.sub[j]?.getD 0 * (t.sup[j]?.getD 0 / cPivot t j)

/-- computed multipliers `γⱼ₊₁ = sup[j] / βⱼ` (`γ₀ = 0` is never used) -/
def cMult (t : Tri K) : Nat → K
  | 0 => 0
  | j + 1 => t.sup[j]?.getD 0 / cPivot t j

/-- computed forward sweep `y₀ = r₀ / β₀`, `yⱼ₊₁ = (rⱼ₊₁ − sub[j] * yⱼ) / βⱼ₊₁` -/
def cFwd (t : Tri K) (r : Array K) : Nat → K
  | 0 => r[0]?.getD 0 / cPivot t 0
  | j + 1 => (r[j + 1]?.getD 0 - t.sub[j]?.getD 0 * cFwd t r j) / cPivot t (j + 1)

theorem cPivot_succ (t : Tri K) (j : Nat) :
    cPivot t (j + 1) = t.main[j + 1]?.getD 0 - t.sub[j]?.getD 0 * cMult t (j + 1) := rfl

/-- forward-sweep invariant (computed quantities) -/
structure CSweepInv (t : Tri K) (r : Array K) (k : Nat) (s : Sweep K) : Prop where
  gsize : s.gamma.size = t.n
  usize : s.u.size = t.n
  beta : s.beta = cPivot t (k - 1)
  piv : ∀ j, j < k → (cPivot t j == 0) = false
  gam : ∀ j, j < k → s.gamma[j]?.getD 0 = cMult t j
  fw : ∀ j, j < k → s.u[j]?.getD 0 = cFwd t r j

/-- back-substitution invariant (computed quantities) -/
structure CBackInv (t : Tri K) (r : Array K) (m : Nat) (u : Array K) : Prop where
  usize : u.size = t.n
  low : ∀ j, j < m → u[j]?.getD 0 = cFwd t r j
  last : u[t.n - 1]?.getD 0 = cFwd t r (t.n - 1)
  rel : ∀ j, m ≤ j → j + 1 < t.n → u[j]?.getD 0 = cFwd t r j - cMult t (j + 1) * u[j + 1]?.getD 0

/-- (S) **the run of `solve` in any scalar type** whose `/` returns the quotient `a / b` on every
divisor that passed the `== 0` test: either no computed pivot tests equal to zero and the call
returns `x` with `xₙ₋₁ = yₙ₋₁`, `xⱼ = yⱼ − γⱼ₊₁ * xⱼ₊₁` (operations of `K`, in this order), or some
computed pivot tests equal to zero and the call refuses with `zeroPivot`. -/
theorem solve_run_char (t : Tri K) (h : WF t) (r : Array K) (hr : t.n = r.size)
    (hdiv : ∀ a b : K, (b == 0) = false → divM a b = .ok (a / b)) :
    ((∀ j, j < t.n → (cPivot t j == 0) = false) ∧ ∃ x, solve t r = .ok x ∧ x.size = t.n ∧
        x[t.n - 1]?.getD 0 = cFwd t r (t.n - 1) ∧
        ∀ j, j + 1 < t.n → x[j]?.getD 0 = cFwd t r j - cMult t (j + 1) * x[j + 1]?.getD 0) ∨
    ((∃ j, j < t.n ∧ (cPivot t j == 0) = true) ∧ solve t r = .error .zeroPivot) := by
  have hpos := h.pos
  have hm := h.main
  have hsb := h.sub
  have hsp := h.sup
  have hne : ¬ t.n ≠ r.size := by omega
  unfold solve
  simp only [hne, if_false]
  rw [aget_getD (by omega : 0 < t.main.size)]
  simp only [bind, Except.bind]
  cases hb0 : (t.main[0]?.getD 0 == 0)
  swap
  · right
    refine ⟨⟨0, by omega, hb0⟩, ?_⟩
    simp only [if_true]
  · simp only [Bool.false_eq_true, if_false]
    rw [aget_getD (by omega : 0 < r.size)]
    simp only []
    rw [hdiv _ _ hb0]
    simp only []
    rw [Mat.aset_ok _ (by simp; omega)]
    simp only []
    have hus : usub t.n 1 = .ok (t.n - 1) := by simp [usub, hpos]
    rcases Mat.forM'_inv_err (CSweepInv t r)
      (fun e => e = .zeroPivot ∧ ∃ j, j < t.n ∧ (cPivot t j == 0) = true) 1 t.n
      (⟨t.main[0]?.getD 0, Array.replicate t.n 0,
        (Array.replicate t.n (0 : K)).setIfInBounds 0 (r[0]?.getD 0 / t.main[0]?.getD 0)⟩ : Sweep K)
      (fun s j => do
        let c ← aget (t.sup.push 0) (j - 1)
        let g ← divM c s.beta
        let gamma ← aset s.gamma j g
        let mj ← aget t.main j
        let aj ← aget (#[(0 : K)] ++ t.sub) j
        let beta := mj - aj * g
        if beta == 0 then .error .zeroPivot
        else do
          let rj ← aget r j
          let ujm1 ← aget s.u (j - 1)
          let q ← divM (rj - aj * ujm1) beta
          let u ← aset s.u j q
          pure ⟨beta, gamma, u⟩)
      hpos
      (by
        refine ⟨by simp, by simp, rfl, ?_, ?_, ?_⟩
        · intro j hj
          have : j = 0 := by omega
          subst this; exact hb0
        · intro j hj
          have : j = 0 := by omega
          subst this
          have : 0 < t.n := by omega
          simp [this, cMult]
        · intro j hj
          have : j = 0 := by omega
          subst this
          have : 0 < t.n := by omega
          simp [this, cFwd, cPivot])
      (by
        rintro i ⟨beta, gamma, u⟩ hi1 hi2 ⟨hgs, hus', hbeta, hpiv, hgam, hfw⟩
        obtain ⟨m, rfl⟩ : ∃ m, i = m + 1 := ⟨i - 1, by omega⟩
        simp only [Nat.add_sub_cancel] at hbeta ⊢
        simp only at hgs hus' hbeta hgam hfw
        subst hbeta
        have hpm : (cPivot t m == 0) = false := hpiv m (by omega)
        simp only [aget_push_lt _ _ (by omega : m < t.sup.size), hdiv _ _ hpm,
          Mat.aset_ok _ (by omega : m + 1 < gamma.size),
          aget_getD (by omega : m + 1 < t.main.size),
          aget_singleton_append_succ _ _ (by omega : m < t.sub.size), bind, Except.bind]
        have hps : t.main[m + 1]?.getD 0 - t.sub[m]?.getD 0 * (t.sup[m]?.getD 0 / cPivot t m)
            = cPivot t (m + 1) := rfl
        rw [hps]
        cases hz : (cPivot t (m + 1) == 0)
        swap
        · right
          simp only [if_true]
          exact ⟨_, rfl, rfl, m + 1, hi2, hz⟩
        · left
          simp only [Bool.false_eq_true, if_false,
            aget_getD (by omega : m + 1 < r.size), aget_getD (by omega : m < u.size),
            hdiv _ _ hz, Mat.aset_ok _ (by omega : m + 1 < u.size), pure, Except.pure]
          refine ⟨_, rfl, ?_⟩
          refine ⟨by simpa using hgs, by simpa using hus', rfl, ?_, ?_, ?_⟩
          · intro j hj
            by_cases hjm : j = m + 1
            · subst hjm; exact hz
            · exact hpiv j (by omega)
          · intro j hj
            simp only
            rw [getD_setIfInBounds _ _ _ _ (by omega)]
            by_cases hjm : j = m + 1
            · subst hjm; simp [cMult]
            · simp only [hjm, if_false]; exact hgam j (by omega)
          · intro j hj
            simp only
            rw [getD_setIfInBounds _ _ _ _ (by omega)]
            by_cases hjm : j = m + 1
            · subst hjm
              simp only [if_true]
              rw [hfw m (by omega)]
              rfl
            · simp only [hjm, if_false]; exact hfw j (by omega))
      with ⟨s, hs, hP⟩ | ⟨e, he, rfl, hE⟩
    · left
      refine ⟨hP.piv, ?_⟩
      have hs' := hs
      simp only [bind, Except.bind, pure, Except.pure] at hs' ⊢
      rw [hs']
      simp only [hus]
      obtain ⟨u, hu, hQ⟩ := foldlM_range_reverse_inv (CBackInv t r)
        (fun u j => do
          let g ← aget s.gamma (j + 1)
          let uj1 ← aget u (j + 1)
          let uj ← aget u j
          aset u j (uj - g * uj1))
        (t.n - 1) s.u
        ⟨hP.usize, fun j hj => hP.fw j (by omega), hP.fw _ (by omega), fun j h1 h2 => by omega⟩
        (by
          intro j u hj ⟨hsz, hlow, hlast, hrel⟩
          rw [aget_getD (by rw [hP.gsize]; omega : j + 1 < s.gamma.size),
            aget_getD (by omega : j + 1 < u.size), aget_getD (by omega : j < u.size)]
          simp only [bind, Except.bind]
          rw [Mat.aset_ok _ (by omega : j < u.size)]
          refine ⟨_, rfl, ?_⟩
          refine ⟨by simpa using hsz, ?_, ?_, ?_⟩
          · intro i hi
            rw [getD_setIfInBounds _ _ _ _ (by omega)]
            have : ¬ i = j := by omega
            simp only [this, if_false]; exact hlow i (by omega)
          · rw [getD_setIfInBounds _ _ _ _ (by omega)]
            have : ¬ t.n - 1 = j := by omega
            simp only [this, if_false]; exact hlast
          · intro i hi1 hi2
            rw [getD_setIfInBounds _ _ _ _ (by omega), getD_setIfInBounds _ _ _ _ (by omega)]
            have e1 : ¬ i + 1 = j := by omega
            simp only [e1, if_false]
            by_cases hij : i = j
            · subst hij
              simp only [if_true]
              rw [hlow i (by omega), hP.gam (i + 1) (by omega)]
            · simp only [hij, if_false]
              exact hrel i (by omega) hi2)
      have hu' := hu
      simp only [bind, Except.bind, pure, Except.pure] at hu' ⊢
      exact ⟨u, hu', hQ.usize, hQ.last, fun j hj => hQ.rel j (Nat.zero_le _) hj⟩
    · right
      refine ⟨hE, ?_⟩
      have he' := he
      simp only [bind, Except.bind, pure, Except.pure] at he' ⊢
      rw [he']

end Structural

/-! ### the rounded-reals interpretation -/

section Rounding
variable {M : FlModel}
open Fl Finset

/-! #### error constants with quotients: `(1-u)^(-k) - 1` -/

/-- accumulated relative error of `k` factors `(1+δ)^{±1}`, `|δ| ≤ u`: `(1-u)^(-k) - 1`
(`≥ M.gam k`, `≤ gam k / (1-u)^k`, `≤ γ_k = k u / (1 - k u)`; quotients `1/(1+δ)` are not covered by
`M.gam`, because `FlModel` only gives `fl x = x (1+δ)` and not `fl x = x / (1+δ)`) -/
noncomputable def ginv (M : FlModel) (k : ℕ) : ℝ := ((1 - M.u)⁻¹) ^ k - 1

theorem one_add_u_le_inv (hu : M.u < 1) : 1 + M.u ≤ (1 - M.u)⁻¹ := by
  have h0 := M.u_nonneg
  have hp : 0 < 1 - M.u := by linarith
  rw [← one_div, le_div_iff₀ hp]
  nlinarith

theorem one_le_inv_sub (hu : M.u < 1) : 1 ≤ (1 - M.u)⁻¹ := by
  have := one_add_u_le_inv hu
  have h0 := M.u_nonneg
  linarith

theorem ginv_nonneg (hu : M.u < 1) (k : ℕ) : 0 ≤ ginv M k := by
  have := one_le_pow₀ (n := k) (one_le_inv_sub hu)
  simp only [ginv]; linarith

theorem ginv_mono (hu : M.u < 1) {m n : ℕ} (h : m ≤ n) : ginv M m ≤ ginv M n := by
  have := pow_le_pow_right₀ (one_le_inv_sub hu) h
  simp only [ginv]; linarith

theorem ginv_one (M : FlModel) (hu : M.u < 1) : ginv M 1 = M.u / (1 - M.u) := by
  have hp : 1 - M.u ≠ 0 := by linarith
  simp only [ginv, pow_one]
  field_simp
  ring

theorem gam_le_ginv (hu : M.u < 1) (k : ℕ) : M.gam k ≤ ginv M k := by
  have := pow_le_pow_left₀ M.one_add_u_pos.le (one_add_u_le_inv hu) k
  simp only [ginv, FlModel.gam]; linarith

theorem u_le_ginv_one (hu : M.u < 1) : M.u ≤ ginv M 1 := by
  have := gam_le_ginv hu 1
  simpa using this

/-- `ginv k ≤ gam k / (1-u)^k` : the form `(k u + O(u²)) / (1-u)^k` -/
theorem ginv_le_gam_div (hu : M.u < 1) (k : ℕ) : ginv M k ≤ M.gam k / (1 - M.u) ^ k := by
  have hp : 0 < 1 - M.u := by linarith
  have hpk : 0 < (1 - M.u) ^ k := pow_pos hp k
  have h := prod_one_add_delta M (List.replicate k (-M.u)) (by
    intro d hd
    rw [List.eq_of_mem_replicate hd, abs_neg, abs_of_nonneg M.u_nonneg])
  simp only [List.map_replicate, List.prod_replicate, List.length_replicate] at h
  have h2 : 1 - (1 + -M.u) ^ k ≤ M.gam k := by
    have := neg_abs_le ((1 + -M.u) ^ k - 1)
    linarith
  have e : (1 + -M.u) = 1 - M.u := by ring
  rw [e] at h2
  rw [ginv, inv_pow, le_div_iff₀ hpk]
  have : ((1 - M.u) ^ k)⁻¹ * (1 - M.u) ^ k = 1 := inv_mul_cancel₀ hpk.ne'
  nlinarith

/-- the classical constant: `ginv k ≤ γ_k = k u / (1 - k u)` when `k u < 1` -/
theorem ginv_le_gamma (k : ℕ) (h : k * M.u < 1) : ginv M k ≤ k * M.u / (1 - k * M.u) := by
  have h0 := M.u_nonneg
  have hpos : 0 < 1 - k * M.u := by linarith
  rcases Nat.eq_zero_or_pos k with rfl | hk
  · simp [ginv]
  have hu1 : M.u < 1 := by
    have : (1 : ℝ) ≤ k := by exact_mod_cast hk
    nlinarith
  have hb : 1 - k * M.u ≤ (1 - M.u) ^ k := by
    have := one_add_mul_le_pow (a := -M.u) (by linarith) k
    have e : (1 + -M.u) = 1 - M.u := by ring
    rw [e] at this
    linarith
  have hpk : 0 < (1 - M.u) ^ k := lt_of_lt_of_le hpos hb
  have h1 : ((1 - M.u) ^ k)⁻¹ ≤ (1 - k * M.u)⁻¹ := inv_anti₀ hpos hb
  have e : k * M.u / (1 - k * M.u) = (1 - k * M.u)⁻¹ - 1 := by
    field_simp
    ring
  rw [ginv, inv_pow, e]
  linarith

/-- the model with unit roundoff `u/(1-u)`; only used to borrow `prod_one_add_delta` -/
noncomputable def relaxed (M : FlModel) (hu : M.u < 1) : FlModel :=
  ⟨M.u / (1 - M.u), id, div_nonneg M.u_nonneg (by linarith), fun x => by
    have : 0 ≤ M.u / (1 - M.u) := div_nonneg M.u_nonneg (by linarith)
    simpa using mul_nonneg this (abs_nonneg x)⟩

theorem relaxed_gam (M : FlModel) (hu : M.u < 1) (k : ℕ) : (relaxed M hu).gam k = ginv M k := by
  have hp : 1 - M.u ≠ 0 := by linarith
  have : 1 + M.u / (1 - M.u) = (1 - M.u)⁻¹ := by field_simp; ring
  simp only [FlModel.gam, ginv, relaxed, this]

theorem le_relaxed (hu : M.u < 1) {d : ℝ} (hd : |d| ≤ M.u) : |d| ≤ M.u / (1 - M.u) := by
  have h0 := M.u_nonneg
  have hp : 0 < 1 - M.u := by linarith
  refine hd.trans ?_
  rw [le_div_iff₀ hp]
  nlinarith

theorem one_add_pos (hu : M.u < 1) {d : ℝ} (hd : |d| ≤ M.u) : 0 < 1 + d := by
  have := neg_abs_le d
  linarith

theorem inv_relaxed (hu : M.u < 1) {d : ℝ} (hd : |d| ≤ M.u) :
    |(1 + d)⁻¹ - 1| ≤ M.u / (1 - M.u) := by
  have h0 := M.u_nonneg
  have hp : 0 < 1 - M.u := by linarith
  have hd1 : 0 < 1 + d := one_add_pos hu hd
  have e : (1 + d)⁻¹ - 1 = -d / (1 + d) := by field_simp; ring
  rw [e, abs_div, abs_neg, abs_of_pos hd1, div_le_div_iff₀ hd1 hp]
  have h1 := neg_abs_le d
  have h2 : 0 ≤ |d| := abs_nonneg d
  nlinarith

/-- three factors, each `1 + e` with `|e| ≤ u/(1-u)` -/
theorem theta3 (hu : M.u < 1) (e1 e2 e3 : ℝ) (h1 : |e1| ≤ M.u / (1 - M.u))
    (h2 : |e2| ≤ M.u / (1 - M.u)) (h3 : |e3| ≤ M.u / (1 - M.u)) :
    |(1 + e1) * (1 + e2) * (1 + e3) - 1| ≤ ginv M 3 := by
  have h := prod_one_add_delta (relaxed M hu) [e1, e2, e3] (by
    intro d hd
    simp only [List.mem_cons, List.not_mem_nil, or_false] at hd
    rcases hd with rfl | rfl | rfl
    · exact h1
    · exact h2
    · exact h3)
  rw [relaxed_gam] at h
  simp only [List.map_cons, List.map_nil, List.prod_cons, List.prod_nil, List.length_cons,
    List.length_nil] at h
  have e : (1 + e1) * ((1 + e2) * ((1 + e3) * 1)) = (1 + e1) * (1 + e2) * (1 + e3) := by ring
  rw [e] at h
  exact h

theorem theta2 (hu : M.u < 1) (e1 e2 : ℝ) (h1 : |e1| ≤ M.u / (1 - M.u))
    (h2 : |e2| ≤ M.u / (1 - M.u)) : |(1 + e1) * (1 + e2) - 1| ≤ ginv M 2 := by
  have h := prod_one_add_delta (relaxed M hu) [e1, e2] (by
    intro d hd
    simp only [List.mem_cons, List.not_mem_nil, or_false] at hd
    rcases hd with rfl | rfl
    · exact h1
    · exact h2)
  rw [relaxed_gam] at h
  simp only [List.map_cons, List.map_nil, List.prod_cons, List.prod_nil, List.length_cons,
    List.length_nil] at h
  have e : (1 + e1) * ((1 + e2) * 1) = (1 + e1) * (1 + e2) := by ring
  rw [e] at h
  exact h

theorem theta1 (hu : M.u < 1) (e1 : ℝ) (h1 : |e1| ≤ M.u / (1 - M.u)) : |e1| ≤ ginv M 1 := by
  rw [ginv_one M hu]; exact h1

/-- the constant of `solve_backward_error`: `(1-u)⁻³ - 1 + (1-u)⁻¹ - 1 = 4u + O(u²)` -/
noncomputable def bwdConst (M : FlModel) : ℝ := ginv M 3 + ginv M 1

theorem bwdConst_nonneg (hu : M.u < 1) : 0 ≤ bwdConst M :=
  add_nonneg (ginv_nonneg hu 3) (ginv_nonneg hu 1)

/-- `bwdConst ≤ 4u / (1 - 3u)` -/
theorem bwdConst_le (h : 3 * M.u < 1) : bwdConst M ≤ 4 * M.u / (1 - 3 * M.u) := by
  have h0 := M.u_nonneg
  have h3 := ginv_le_gamma (M := M) 3 (by push_cast; linarith)
  have h1 := ginv_le_gamma (M := M) 1 (by push_cast; linarith)
  push_cast at h3 h1
  have hp3 : 0 < 1 - 3 * M.u := by linarith
  have hp1 : 0 < 1 - 1 * M.u := by linarith
  have h1' : 1 * M.u / (1 - 1 * M.u) ≤ M.u / (1 - 3 * M.u) := by
    rw [div_le_div_iff₀ hp1 hp3]; nlinarith
  have e : 4 * M.u / (1 - 3 * M.u) = 3 * M.u / (1 - 3 * M.u) + M.u / (1 - 3 * M.u) := by ring
  rw [bwdConst, e]
  linarith

/-- `bwdConst ≤ (gam 3 + gam 1) / (1-u)³ = (4u + 3u² + u³)/(1-u)³` -/
theorem bwdConst_le_gam (hu : M.u < 1) : bwdConst M ≤ (M.gam 3 + M.gam 1) / (1 - M.u) ^ 3 := by
  have h0 := M.u_nonneg
  have hp : 0 < 1 - M.u := by linarith
  have h3 := ginv_le_gam_div hu 3
  have h1 := ginv_le_gam_div hu 1
  have hg := M.gam_nonneg 1
  have hle : (1 - M.u) ^ 3 ≤ (1 - M.u) ^ 1 :=
    pow_le_pow_of_le_one hp.le (by linarith) (by omega)
  have h1' : M.gam 1 / (1 - M.u) ^ 1 ≤ M.gam 1 / (1 - M.u) ^ 3 :=
    div_le_div_of_nonneg_left hg (pow_pos hp 3) hle
  rw [bwdConst, add_div]
  linarith

/-- the constant of `solve_backward_stable_dd`: `3 (1+u) bwdConst = 12u + O(u²)` -/
noncomputable def ddConst (M : FlModel) : ℝ := 3 * (1 + M.u) * bwdConst M

/-! #### the algebra of one row (pure real arithmetic) -/

/-- one row of the perturbed system, from the four computed relations that involve it -/
theorem row_identity (al g β r y ym x xm xp gp c d1 d4 d5 d6 d7 d8 d7m d8m : ℝ)
    (p5 : 1 + d5 ≠ 0) (p6 : 1 + d6 ≠ 0) (p8 : 1 + d8 ≠ 0) (p8m : 1 + d8m ≠ 0)
    (h2 : y * β = (r - al * ym * (1 + d4)) * (1 + d5) * (1 + d6))
    (h3 : al * xm = al * ((ym - g * x * (1 + d7m)) * (1 + d8m)))
    (h4 : x = (y - gp * xp * (1 + d7)) * (1 + d8))
    (h5 : gp * β = c * (1 + d1)) :
    al * ((1 + d4) / (1 + d8m)) * xm
      + (β / ((1 + d8) * (1 + d5) * (1 + d6)) + al * g * ((1 + d4) * (1 + d7m))) * x
      + c * ((1 + d1) * (1 + d7) / ((1 + d5) * (1 + d6))) * xp = r := by
  have hy : y = x / (1 + d8) + gp * xp * (1 + d7) := by
    rw [h4]; field_simp; ring
  have hym : al * ym = al * xm / (1 + d8m) + al * g * x * (1 + d7m) := by
    rw [h3]; field_simp; ring
  have hr : r = y * β / ((1 + d5) * (1 + d6)) + al * ym * (1 + d4) := by
    rw [h2]; field_simp; ring
  rw [hr, hym, hy]
  have h5' : c * (1 + d1) = gp * β := h5.symm
  have : c * ((1 + d1) * (1 + d7) / ((1 + d5) * (1 + d6))) * xp
      = gp * β * ((1 + d7) / ((1 + d5) * (1 + d6))) * xp := by
    rw [← h5']; ring
  rw [this]
  field_simp
  ring

theorem abs_two_terms (p q A B C D e1 e2 : ℝ) (hA : |A - 1| ≤ e1) (hB : |B - 1| ≤ e2)
    (hC : |C - 1| ≤ e1) (hD : |D - 1| ≤ e2) :
    |p * (A - B) + q * (C - D)| ≤ (e1 + e2) * (|p| + |q|) := by
  have h1 : |A - B| ≤ e1 + e2 := by
    have : A - B = (A - 1) - (B - 1) := by ring
    rw [this]; exact (abs_sub _ _).trans (by linarith)
  have h2 : |C - D| ≤ e1 + e2 := by
    have : C - D = (C - 1) - (D - 1) := by ring
    rw [this]; exact (abs_sub _ _).trans (by linarith)
  calc |p * (A - B) + q * (C - D)| ≤ |p * (A - B)| + |q * (C - D)| := abs_add_le _ _
    _ = |p| * |A - B| + |q| * |C - D| := by rw [abs_mul, abs_mul]
    _ ≤ |p| * (e1 + e2) + |q| * (e1 + e2) :=
        add_le_add (mul_le_mul_of_nonneg_left h1 (abs_nonneg _))
          (mul_le_mul_of_nonneg_left h2 (abs_nonneg _))
    _ = _ := by ring

/-- bounds for the three perturbed entries of a row -/
theorem row_bounds (hu : M.u < 1) (al g β b gp c d1 d2 d3 d4 d5 d6 d7 d8 d7m d8m : ℝ)
    (q1 : |d1| ≤ M.u) (q2 : |d2| ≤ M.u) (q3 : |d3| ≤ M.u) (q4 : |d4| ≤ M.u) (q5 : |d5| ≤ M.u)
    (q6 : |d6| ≤ M.u) (q7 : |d7| ≤ M.u) (q8 : |d8| ≤ M.u) (q7m : |d7m| ≤ M.u) (q8m : |d8m| ≤ M.u)
    (h1 : β = (b - al * g * (1 + d2)) * (1 + d3))
    (h5 : gp * β = c * (1 + d1)) :
    |al * ((1 + d4) / (1 + d8m)) - al| ≤ ginv M 2 * |al| ∧
    |β / ((1 + d8) * (1 + d5) * (1 + d6)) + al * g * ((1 + d4) * (1 + d7m)) - b|
        ≤ bwdConst M * (|β| + |al * g|) ∧
    |c * ((1 + d1) * (1 + d7) / ((1 + d5) * (1 + d6))) - c| ≤ bwdConst M * |β * gp| := by
  have p1 := (one_add_pos hu q1).ne'
  have p3 := (one_add_pos hu q3).ne'
  have p5 := (one_add_pos hu q5).ne'
  have p6 := (one_add_pos hu q6).ne'
  have p8 := (one_add_pos hu q8).ne'
  have p8m := (one_add_pos hu q8m).ne'
  have G12 := ginv_mono hu (show 1 ≤ 2 by omega)
  have G23 := ginv_mono hu (show 2 ≤ 3 by omega)
  refine ⟨?_, ?_, ?_⟩
  · have e : al * ((1 + d4) / (1 + d8m)) - al
        = al * ((1 + d4) * (1 + ((1 + d8m)⁻¹ - 1)) - 1) := by
      field_simp; ring
    rw [e, abs_mul, mul_comm]
    exact mul_le_mul_of_nonneg_right
      (theta2 hu _ _ (le_relaxed hu q4) (inv_relaxed hu q8m)) (abs_nonneg _)
  · have hb : b = β / (1 + d3) + al * g * (1 + d2) := by
      rw [h1]; field_simp; ring
    have e : β / ((1 + d8) * (1 + d5) * (1 + d6)) + al * g * ((1 + d4) * (1 + d7m)) - b
        = β * ((1 + ((1 + d8)⁻¹ - 1)) * (1 + ((1 + d5)⁻¹ - 1)) * (1 + ((1 + d6)⁻¹ - 1))
              - (1 + ((1 + d3)⁻¹ - 1)))
          + (al * g) * ((1 + d4) * (1 + d7m) - (1 + d2)) := by
      rw [hb]; field_simp; ring
    rw [e]
    refine abs_two_terms _ _ _ _ _ _ _ _
      (theta3 hu _ _ _ (inv_relaxed hu q8) (inv_relaxed hu q5) (inv_relaxed hu q6)) ?_
      ((theta2 hu _ _ (le_relaxed hu q4) (le_relaxed hu q7m)).trans G23) ?_
    · have : (1 + ((1 + d3)⁻¹ - 1)) - 1 = (1 + d3)⁻¹ - 1 := by ring
      rw [this]; exact theta1 hu _ (inv_relaxed hu q3)
    · have : (1 + d2) - 1 = d2 := by ring
      rw [this]; exact theta1 hu _ (le_relaxed hu q2)
  · have hc : c = β * gp / (1 + d1) := by
      rw [mul_comm β gp, h5]; field_simp
    have e : c * ((1 + d1) * (1 + d7) / ((1 + d5) * (1 + d6))) - c
        = (β * gp) * ((1 + d7) * (1 + ((1 + d5)⁻¹ - 1)) * (1 + ((1 + d6)⁻¹ - 1))
              - (1 + ((1 + d1)⁻¹ - 1))) + 0 * ((1 : ℝ) - 1) := by
      rw [hc]; field_simp; ring
    rw [e]
    have := abs_two_terms (β * gp) 0 _ _ 1 1 _ _
      (theta3 hu _ _ _ (le_relaxed hu q7) (inv_relaxed hu q5) (inv_relaxed hu q6))
      (show |(1 + ((1 + d1)⁻¹ - 1)) - 1| ≤ ginv M 1 by
        have : (1 + ((1 + d1)⁻¹ - 1)) - 1 = (1 + d1)⁻¹ - 1 := by ring
        rw [this]; exact theta1 hu _ (inv_relaxed hu q1))
      (by simpa using ginv_nonneg hu 3) (by simpa using ginv_nonneg hu 1)
    simpa [bwdConst] using this

/-! #### the instance `K := Fl M` -/

theorem fl_beq_zero_false (a : Fl M) : (a == 0) = false ↔ a.val ≠ 0 := by
  rw [beq_eq_false_iff_ne, ne_eq, Fl.ext_iff]
  rfl

theorem fl_beq_zero_true (a : Fl M) : (a == 0) = true ↔ a.val = 0 := by
  rw [beq_iff_eq, Fl.ext_iff]
  rfl

theorem fl_divM (a b : Fl M) (hb : (b == 0) = false) : divM a b = .ok (a / b) := by
  have : b.val ≠ 0 := (fl_beq_zero_false b).mp hb
  show (if b.val = 0 then Except.error Err.arith else Except.ok (a / b)) = _
  simp [this]

/-- exact real values of the data -/
def subR (t : Tri (Fl M)) (j : ℕ) : ℝ := (t.sub[j]?.getD 0).val
def mainR (t : Tri (Fl M)) (j : ℕ) : ℝ := (t.main[j]?.getD 0).val
def supR (t : Tri (Fl M)) (j : ℕ) : ℝ := (t.sup[j]?.getD 0).val
def vecR (r : Array (Fl M)) (j : ℕ) : ℝ := (r[j]?.getD 0).val
/-- the sub-diagonal entry of ROW `j`: `sub[j-1]`, and `0` in row `0` -/
def lowR (t : Tri (Fl M)) (j : ℕ) : ℝ := if 0 < j then subR t (j - 1) else 0
/-- values of the computed pivots `β̂ⱼ`, multipliers `γ̂ⱼ` and forward sweep `ŷⱼ` -/
noncomputable def pivR (t : Tri (Fl M)) (j : ℕ) : ℝ := (cPivot t j).val
noncomputable def mulR (t : Tri (Fl M)) (j : ℕ) : ℝ := (cMult t j).val
noncomputable def fwdR (t : Tri (Fl M)) (r : Array (Fl M)) (j : ℕ) : ℝ := (cFwd t r j).val
/-- the dense twin over the reals -/
def denseR (t : Tri (Fl M)) (i j : ℕ) : ℝ := (dense t i j).val

theorem denseR_eq (t : Tri (Fl M)) : denseR t = triEntry (subR t) (mainR t) (supR t) := by
  funext i j
  unfold denseR dense triEntry subR mainR supR
  split_ifs <;> rfl

theorem lowR_succ (t : Tri (Fl M)) (j : ℕ) : lowR t (j + 1) = subR t j := by simp [lowR]
theorem lowR_zero (t : Tri (Fl M)) : lowR t 0 = 0 := by simp [lowR]
theorem mulR_zero (t : Tri (Fl M)) : mulR t 0 = 0 := rfl

theorem fl_sub_mul (a b c : Fl M) : ∃ d d' : ℝ, |d| ≤ M.u ∧ |d'| ≤ M.u ∧
    (a - b * c).val = (a.val - b.val * c.val * (1 + d)) * (1 + d') := by
  obtain ⟨d, hd, e⟩ := M.exists_delta (b.val * c.val)
  obtain ⟨d', hd', e'⟩ := M.exists_delta (a.val - M.fl (b.val * c.val))
  refine ⟨d, d', hd, hd', ?_⟩
  simp only [sub_val, mul_val]
  rw [e', e]

theorem fl_div (a b : Fl M) : ∃ d : ℝ, |d| ≤ M.u ∧ (a / b).val = a.val / b.val * (1 + d) := by
  obtain ⟨d, hd, e⟩ := M.exists_delta (a.val / b.val)
  exact ⟨d, hd, by simp only [div_val]; rw [e]⟩

theorem zero_le_u : |(0 : ℝ)| ≤ M.u := by simpa using M.u_nonneg

/-- `γ̂ⱼ₊₁ = (sup[j] / β̂ⱼ)(1+δ₁)` -/
theorem mulR_delta (t : Tri (Fl M)) (j : ℕ) (hp : pivR t j ≠ 0) :
    ∃ d1 : ℝ, |d1| ≤ M.u ∧ mulR t (j + 1) = supR t j / pivR t j * (1 + d1) ∧
      mulR t (j + 1) * pivR t j = supR t j * (1 + d1) := by
  obtain ⟨d, hd, e⟩ := fl_div (t.sup[j]?.getD 0) (cPivot t j)
  refine ⟨d, hd, e, ?_⟩
  have e' : mulR t (j + 1) = supR t j / pivR t j * (1 + d) := e
  rw [e']; field_simp

/-- `β̂ⱼ = (main[j] − lowⱼ γ̂ⱼ (1+δ₂))(1+δ₃)` (`δ₂ = δ₃ = 0` for `j = 0`) -/
theorem pivR_delta (t : Tri (Fl M)) (j : ℕ) : ∃ d2 d3 : ℝ, |d2| ≤ M.u ∧ |d3| ≤ M.u ∧
    pivR t j = (mainR t j - lowR t j * mulR t j * (1 + d2)) * (1 + d3) := by
  cases j with
  | zero =>
    refine ⟨0, 0, zero_le_u, zero_le_u, ?_⟩
    simp [pivR, cPivot, lowR, mainR]
  | succ j =>
    obtain ⟨d, d', hd, hd', e⟩ := fl_sub_mul (t.main[j + 1]?.getD 0) (t.sub[j]?.getD 0)
      (cMult t (j + 1))
    refine ⟨d, d', hd, hd', ?_⟩
    rw [lowR_succ]
    exact e

/-- `ŷⱼ β̂ⱼ = (rⱼ − lowⱼ ŷⱼ₋₁ (1+δ₄))(1+δ₅)(1+δ₆)` (`δ₄ = δ₅ = 0` for `j = 0`) -/
theorem fwdR_delta (t : Tri (Fl M)) (r : Array (Fl M)) (j : ℕ) (hp : pivR t j ≠ 0) :
    ∃ d4 d5 d6 : ℝ, |d4| ≤ M.u ∧ |d5| ≤ M.u ∧ |d6| ≤ M.u ∧
      fwdR t r j * pivR t j
        = (vecR r j - lowR t j * fwdR t r (j - 1) * (1 + d4)) * (1 + d5) * (1 + d6) := by
  cases j with
  | zero =>
    obtain ⟨d, hd, e⟩ := fl_div (r[0]?.getD 0) (cPivot t 0)
    refine ⟨0, 0, d, zero_le_u, zero_le_u, hd, ?_⟩
    have e' : fwdR t r 0 = vecR r 0 / pivR t 0 * (1 + d) := e
    rw [e', lowR_zero]; field_simp; ring
  | succ j =>
    obtain ⟨d, hd, e⟩ := fl_div (r[j + 1]?.getD 0 - t.sub[j]?.getD 0 * cFwd t r j)
      (cPivot t (j + 1))
    obtain ⟨d4, d5, hd4, hd5, e2⟩ := fl_sub_mul (r[j + 1]?.getD 0) (t.sub[j]?.getD 0) (cFwd t r j)
    refine ⟨d4, d5, d, hd4, hd5, hd, ?_⟩
    have e' : fwdR t r (j + 1)
        = (r[j + 1]?.getD 0 - t.sub[j]?.getD 0 * cFwd t r j).val / pivR t (j + 1) * (1 + d) := e
    rw [e', e2, lowR_succ, Nat.add_sub_cancel]
    simp only [fwdR, vecR, subR]
    field_simp

/-- one row of the perturbed system satisfied by the computed solution -/
theorem row_perturbed (t : Tri (Fl M)) (r x : Array (Fl M)) (hu : M.u < 1)
    (hpiv : ∀ j, j < t.n → pivR t j ≠ 0)
    (hlast : x[t.n - 1]?.getD 0 = cFwd t r (t.n - 1))
    (hrel : ∀ j, j + 1 < t.n → x[j]?.getD 0 = cFwd t r j - cMult t (j + 1) * x[j + 1]?.getD 0)
    (hxn : x.size = t.n) (i : ℕ) (hi : i < t.n) :
    ∃ lo di up : ℝ,
      (if 0 < i then lo * vecR x (i - 1) else 0) + di * vecR x i
          + (if i + 1 < t.n then up * vecR x (i + 1) else 0) = vecR r i ∧
      |lo - lowR t i| ≤ ginv M 2 * |lowR t i| ∧
      |di - mainR t i| ≤ bwdConst M * (|pivR t i| + |lowR t i * mulR t i|) ∧
      |up - supR t i| ≤ bwdConst M * |pivR t i * mulR t (i + 1)| := by
  obtain ⟨d1, q1, -, h5⟩ := mulR_delta t i (hpiv i hi)
  obtain ⟨d2, d3, q2, q3, h1⟩ := pivR_delta t i
  obtain ⟨d4, d5, d6, q4, q5, q6, h2⟩ := fwdR_delta t r i (hpiv i hi)
  -- the back-substitution step that produced `x[i-1]`
  obtain ⟨d7m, d8m, q7m, q8m, h3⟩ : ∃ d7m d8m : ℝ, |d7m| ≤ M.u ∧ |d8m| ≤ M.u ∧
      lowR t i * vecR x (i - 1)
        = lowR t i * ((fwdR t r (i - 1) - mulR t i * vecR x i * (1 + d7m)) * (1 + d8m)) := by
    cases i with
    | zero => exact ⟨0, 0, zero_le_u, zero_le_u, by simp [lowR_zero]⟩
    | succ m =>
      obtain ⟨d, d', hd, hd', e⟩ := fl_sub_mul (cFwd t r m) (cMult t (m + 1)) (x[m + 1]?.getD 0)
      refine ⟨d, d', hd, hd', ?_⟩
      have : vecR x m = (cFwd t r m - cMult t (m + 1) * x[m + 1]?.getD 0).val := by
        rw [← hrel m hi]; rfl
      rw [Nat.add_sub_cancel, this, e]
      rfl
  -- the back-substitution step that produced `x[i]`
  obtain ⟨d7, d8, q7, q8, h4⟩ : ∃ d7 d8 : ℝ, |d7| ≤ M.u ∧ |d8| ≤ M.u ∧
      vecR x i = (fwdR t r i - mulR t (i + 1) * vecR x (i + 1) * (1 + d7)) * (1 + d8) := by
    by_cases hn : i + 1 < t.n
    · obtain ⟨d, d', hd, hd', e⟩ := fl_sub_mul (cFwd t r i) (cMult t (i + 1)) (x[i + 1]?.getD 0)
      refine ⟨d, d', hd, hd', ?_⟩
      have : vecR x i = (cFwd t r i - cMult t (i + 1) * x[i + 1]?.getD 0).val := by
        rw [← hrel i hn]; rfl
      rw [this, e]
      rfl
    · have hin : i = t.n - 1 := by omega
      refine ⟨0, 0, zero_le_u, zero_le_u, ?_⟩
      have h0 : vecR x (i + 1) = 0 := by
        have : ¬ i + 1 < x.size := by omega
        simp [vecR, this]
      have h1 : vecR x i = fwdR t r i := by
        rw [hin]; simp only [vecR, fwdR]; rw [hlast]
      rw [h0, h1]; ring
  have p5 := (one_add_pos hu q5).ne'
  have p6 := (one_add_pos hu q6).ne'
  have p8 := (one_add_pos hu q8).ne'
  have p8m := (one_add_pos hu q8m).ne'
  have hrow := row_identity (lowR t i) (mulR t i) (pivR t i) (vecR r i) (fwdR t r i)
    (fwdR t r (i - 1)) (vecR x i) (vecR x (i - 1)) (vecR x (i + 1)) (mulR t (i + 1)) (supR t i)
    d1 d4 d5 d6 d7 d8 d7m d8m p5 p6 p8 p8m h2 h3 h4 h5
  obtain ⟨b1, b2, b3⟩ := row_bounds hu (lowR t i) (mulR t i) (pivR t i) (mainR t i)
    (mulR t (i + 1)) (supR t i) d1 d2 d3 d4 d5 d6 d7 d8 d7m d8m q1 q2 q3 q4 q5 q6 q7 q8 q7m q8m h1 h5
  refine ⟨_, _, _, ?_, b1, b2, b3⟩
  rw [← hrow]
  congr 1
  · congr 1
    by_cases h0 : 0 < i
    · simp [h0]
    · have : lowR t i = 0 := by simp [lowR, h0]
      simp [h0, this]
  · by_cases hn : i + 1 < t.n
    · simp [hn]
    · have h0 : vecR x (i + 1) = 0 := by
        have : ¬ i + 1 < x.size := by omega
        simp [vecR, this]
      simp [hn, h0]

/-! #### the computed factors and `|L̂||Û|` -/

/-- the computed lower bidiagonal factor `L̂`: the computed pivots `β̂` on the diagonal, `sub`
below it (the model factors `T = L U` with the pivots in `L` and a UNIT upper bidiagonal `U`) -/
noncomputable def Lhat (t : Tri (Fl M)) (i k : ℕ) : ℝ :=
  triEntry (subR t) (pivR t) (fun _ => 0) i k
/-- the computed unit upper bidiagonal factor `Û`: `1` on the diagonal, the computed multipliers
`γ̂ₖ₊₁ = fl(sup[k] / β̂ₖ)` above it -/
noncomputable def Uhat (t : Tri (Fl M)) (k j : ℕ) : ℝ :=
  triEntry (fun _ => 0) (fun _ => 1) (fun k => mulR t (k + 1)) k j
/-- entry `(i,j)` of `|L̂| |Û|` (factors of size `n × n`) -/
noncomputable def absLU (t : Tri (Fl M)) (n i j : ℕ) : ℝ :=
  ∑ k ∈ range n, |Lhat t i k| * |Uhat t k j|

theorem abs_triEntry (a b c : ℕ → ℝ) (i j : ℕ) :
    |triEntry a b c i j| = triEntry (fun k => |a k|) (fun k => |b k|) (fun k => |c k|) i j := by
  unfold triEntry
  split_ifs <;> simp

theorem triEntry_add (a b c a' b' c' : ℕ → ℝ) (i j : ℕ) :
    triEntry a b c i j + triEntry a' b' c' i j
      = triEntry (fun k => a k + a' k) (fun k => b k + b' k) (fun k => c k + c' k) i j := by
  unfold triEntry
  split_ifs <;> simp

theorem absLU_nonneg (t : Tri (Fl M)) (n i j : ℕ) : 0 ≤ absLU t n i j :=
  Finset.sum_nonneg (fun _ _ => mul_nonneg (abs_nonneg _) (abs_nonneg _))

theorem absLU_row (t : Tri (Fl M)) (n i j : ℕ) (hi : i < n) :
    absLU t n i j = (if 0 < i then |subR t (i - 1)| * |Uhat t (i - 1) j| else 0)
      + |pivR t i| * |Uhat t i j| := by
  unfold absLU Lhat
  simp only [abs_triEntry]
  rw [triEntry_row_sum _ _ _ (fun k => |Uhat t k j|) n i hi]
  simp

theorem absLU_diag (t : Tri (Fl M)) (n i : ℕ) (hi : i < n) :
    absLU t n i i = |pivR t i| + |lowR t i * mulR t i| := by
  rw [absLU_row t n i i hi]
  have h1 : Uhat t i i = 1 := by simp [Uhat, triEntry]
  rw [h1]
  by_cases h0 : 0 < i
  · obtain ⟨m, rfl⟩ : ∃ m, i = m + 1 := ⟨i - 1, by omega⟩
    have h2 : Uhat t m (m + 1) = mulR t (m + 1) := by
      have e1 : ¬ m = m + 1 + 1 := by omega
      simp [Uhat, triEntry, e1]
    simp [lowR, h2, abs_mul]
    ring
  · have : i = 0 := by omega
    subst this
    simp [lowR]

theorem absLU_low (t : Tri (Fl M)) (n j : ℕ) (hj : j + 1 < n) :
    absLU t n (j + 1) j = |subR t j| := by
  rw [absLU_row t n (j + 1) j hj]
  have h1 : Uhat t j j = 1 := by simp [Uhat, triEntry]
  have h2 : Uhat t (j + 1) j = 0 := by
    have : ¬ j + 1 + 1 = j := by omega
    simp [Uhat, triEntry, this]
  simp [h1, h2]

theorem absLU_up (t : Tri (Fl M)) (n i : ℕ) (hi : i < n) :
    absLU t n i (i + 1) = |pivR t i * mulR t (i + 1)| := by
  rw [absLU_row t n i (i + 1) hi]
  have h1 : Uhat t i (i + 1) = mulR t (i + 1) := by
    have e1 : ¬ i = i + 1 + 1 := by omega
    simp [Uhat, triEntry, e1]
  rw [h1, abs_mul]
  by_cases h0 : 0 < i
  · obtain ⟨m, rfl⟩ : ∃ m, i = m + 1 := ⟨i - 1, by omega⟩
    have h2 : Uhat t m (m + 1 + 1) = 0 := by
      have e1 : ¬ m = m + 1 + 1 := by omega
      have e2 : ¬ m + 1 = m + 1 + 1 := by omega
      simp [Uhat, triEntry, e1, e2]
    simp [h2]
  · simp [h0]

/-! #### the theorems -/

/-- (F) **the run of `solve` in rounded arithmetic.**  For a well-formed matrix and a right-hand
side of the right length, either no computed pivot `β̂ⱼ` is exactly zero and the call returns `x̂`,
or some computed pivot is exactly zero and the call refuses with `zeroPivot`.  The computed
quantities obey the recurrences of the code with one factor `(1+δ)`, `|δ| ≤ u`, per rounded
operation (`+ − * /`):
`β̂₀ = main₀`, `ŷ₀ = (r₀/β̂₀)(1+δ)`,
`γ̂ⱼ₊₁ = (supⱼ/β̂ⱼ)(1+δ₁)`, `β̂ⱼ₊₁ = (mainⱼ₊₁ − subⱼ γ̂ⱼ₊₁ (1+δ₂))(1+δ₃)`,
`ŷⱼ₊₁ = ((rⱼ₊₁ − subⱼ ŷⱼ (1+δ₄))(1+δ₅) / β̂ⱼ₊₁)(1+δ₆)`,
`x̂ₙ₋₁ = ŷₙ₋₁`, `x̂ⱼ = (ŷⱼ − γ̂ⱼ₊₁ x̂ⱼ₊₁ (1+δ₇))(1+δ₈)`.
No hypothesis on `u`. -/
theorem solve_fl_char (t : Tri (Fl M)) (h : WF t) (r : Array (Fl M)) (hr : t.n = r.size) :
    (pivR t 0 = mainR t 0 ∧
      (∃ d : ℝ, |d| ≤ M.u ∧ fwdR t r 0 = vecR r 0 / pivR t 0 * (1 + d)) ∧
      ∀ j, ∃ d1 d2 d3 d4 d5 d6 : ℝ, |d1| ≤ M.u ∧ |d2| ≤ M.u ∧ |d3| ≤ M.u ∧ |d4| ≤ M.u ∧
        |d5| ≤ M.u ∧ |d6| ≤ M.u ∧
        mulR t (j + 1) = supR t j / pivR t j * (1 + d1) ∧
        pivR t (j + 1) = (mainR t (j + 1) - subR t j * mulR t (j + 1) * (1 + d2)) * (1 + d3) ∧
        fwdR t r (j + 1)
          = (vecR r (j + 1) - subR t j * fwdR t r j * (1 + d4)) * (1 + d5) / pivR t (j + 1)
              * (1 + d6)) ∧
    (((∀ j, j < t.n → pivR t j ≠ 0) ∧ ∃ x, solve t r = .ok x ∧ x.size = t.n ∧
        vecR x (t.n - 1) = fwdR t r (t.n - 1) ∧
        ∀ j, j + 1 < t.n → ∃ d7 d8 : ℝ, |d7| ≤ M.u ∧ |d8| ≤ M.u ∧
          vecR x j = (fwdR t r j - mulR t (j + 1) * vecR x (j + 1) * (1 + d7)) * (1 + d8)) ∨
     ((∃ j, j < t.n ∧ pivR t j = 0) ∧ solve t r = .error .zeroPivot)) := by
  refine ⟨⟨rfl, ?_, ?_⟩, ?_⟩
  · exact fl_div (r[0]?.getD 0) (cPivot t 0)
  · intro j
    obtain ⟨d1, q1, e1⟩ := fl_div (t.sup[j]?.getD 0) (cPivot t j)
    obtain ⟨d2, d3, q2, q3, e2⟩ := fl_sub_mul (t.main[j + 1]?.getD 0) (t.sub[j]?.getD 0)
      (cMult t (j + 1))
    obtain ⟨d6, q6, e6⟩ := fl_div (r[j + 1]?.getD 0 - t.sub[j]?.getD 0 * cFwd t r j)
      (cPivot t (j + 1))
    obtain ⟨d4, d5, q4, q5, e4⟩ := fl_sub_mul (r[j + 1]?.getD 0) (t.sub[j]?.getD 0) (cFwd t r j)
    refine ⟨d1, d2, d3, d4, d5, d6, q1, q2, q3, q4, q5, q6, e1, e2, ?_⟩
    have e' : fwdR t r (j + 1)
        = (r[j + 1]?.getD 0 - t.sub[j]?.getD 0 * cFwd t r j).val / pivR t (j + 1) * (1 + d6) := e6
    rw [e', e4]
    rfl
  · rcases solve_run_char t h r hr fl_divM with ⟨hp, x, hx, hsz, hlast, hrel⟩ | ⟨⟨j, hj, hz⟩, he⟩
    · left
      refine ⟨fun j hj => (fl_beq_zero_false _).mp (hp j hj), x, hx, hsz, ?_, ?_⟩
      · simp only [vecR, fwdR]; rw [hlast]
      · intro j hj
        obtain ⟨d, d', hd, hd', e⟩ := fl_sub_mul (cFwd t r j) (cMult t (j + 1)) (x[j + 1]?.getD 0)
        refine ⟨d, d', hd, hd', ?_⟩
        have : vecR x j = (cFwd t r j - cMult t (j + 1) * x[j + 1]?.getD 0).val := by
          rw [← hrel j hj]; rfl
        rw [this, e]
        rfl
    · right
      exact ⟨⟨j, hj, (fl_beq_zero_true _).mp hz⟩, he⟩

/-- (F) `solve` returns a value exactly when the lengths agree and no COMPUTED pivot is zero -/
theorem solve_fl_ok_iff (t : Tri (Fl M)) (h : WF t) (r : Array (Fl M)) :
    (∃ x, solve t r = .ok x) ↔ t.n = r.size ∧ ∀ j, j < t.n → pivR t j ≠ 0 := by
  constructor
  · rintro ⟨x, hx⟩
    by_cases hr : t.n = r.size
    · rcases (solve_fl_char t h r hr).2 with ⟨hp, _⟩ | ⟨_, he⟩
      · exact ⟨hr, hp⟩
      · rw [he] at hx; cases hx
    · rw [solve_rejects_size t r hr] at hx; cases hx
  · rintro ⟨hr, hp⟩
    rcases (solve_fl_char t h r hr).2 with ⟨_, x, hx, _⟩ | ⟨⟨j, hj, hz⟩, _⟩
    · exact ⟨x, hx⟩
    · exact absurd hz (hp j hj)

/-- (F) **componentwise backward error of the tridiagonal solver** (Higham, *Accuracy and
Stability of Numerical Algorithms*, §9.6, for the factorisation the code computes).  Assume only
`u < 1`.  Whenever `solve` returns `x̂`, it is the EXACT solution of a perturbed tridiagonal system
with the SAME right-hand side,
`(T + ΔT) x̂ = r`,  `ΔT` tridiagonal,  `|ΔT| ≤ bwdConst M · |L̂||Û|` componentwise,
`bwdConst M = ((1-u)⁻³ − 1) + ((1-u)⁻¹ − 1) = 4u + O(u²)` (`≤ 4u/(1−3u)`, `bwdConst_le`;
`≤ gam 3/(1-u)³ + gam 1/(1-u)`, `ginv_le_gam_div`), where `L̂` (computed pivots on the diagonal,
`sub` below) and `Û` (unit diagonal, computed multipliers above) are the computed factors.
The sub-diagonal entries satisfy the sharper `|ΔT (j+1) j| ≤ ginv M 2 · |sub j|`. -/
theorem solve_backward_error (t : Tri (Fl M)) (h : WF t) (r x : Array (Fl M)) (hu : M.u < 1)
    (hx : solve t r = .ok x) :
    x.size = t.n ∧ ∃ ΔT : ℕ → ℕ → ℝ,
      (∀ i, i < t.n → ∑ j ∈ range t.n, (denseR t i j + ΔT i j) * vecR x j = vecR r i) ∧
      (∀ i j, i < t.n → j < t.n → |ΔT i j| ≤ bwdConst M * absLU t t.n i j) ∧
      (∀ i j, ¬ (i = j ∨ i = j + 1 ∨ i + 1 = j) → ΔT i j = 0) ∧
      (∀ j, j + 1 < t.n → |ΔT (j + 1) j| ≤ ginv M 2 * |subR t j|) := by
  by_cases hr : t.n = r.size
  swap
  · rw [solve_rejects_size t r hr] at hx; cases hx
  rcases solve_run_char t h r hr fl_divM with ⟨hp, x', hx', hsz, hlast, hrel⟩ | ⟨_, he⟩
  swap
  · rw [he] at hx; cases hx
  rw [hx] at hx'
  cases hx'
  refine ⟨hsz, ?_⟩
  have hpiv : ∀ j, j < t.n → pivR t j ≠ 0 := fun j hj => (fl_beq_zero_false _).mp (hp j hj)
  have rows : ∀ i, ∃ lo di up : ℝ, i < t.n →
      ((if 0 < i then lo * vecR x (i - 1) else 0) + di * vecR x i
          + (if i + 1 < t.n then up * vecR x (i + 1) else 0) = vecR r i ∧
      |lo - lowR t i| ≤ ginv M 2 * |lowR t i| ∧
      |di - mainR t i| ≤ bwdConst M * (|pivR t i| + |lowR t i * mulR t i|) ∧
      |up - supR t i| ≤ bwdConst M * |pivR t i * mulR t (i + 1)|) := by
    intro i
    by_cases hi : i < t.n
    · obtain ⟨lo, di, up, hrow⟩ := row_perturbed t r x hu hpiv hlast hrel hsz i hi
      exact ⟨lo, di, up, fun _ => hrow⟩
    · exact ⟨0, 0, 0, fun h => absurd h hi⟩
  choose lo di up hrows using rows
  have hF := bwdConst_nonneg hu
  have hG2 : ginv M 2 ≤ bwdConst M := by
    have := ginv_mono hu (show 2 ≤ 3 by omega)
    have := ginv_nonneg hu 1
    unfold bwdConst; linarith
  refine ⟨triEntry (fun k => lo (k + 1) - subR t k) (fun k => di k - mainR t k)
    (fun k => up k - supR t k), ?_, ?_, ?_, ?_⟩
  · intro i hi
    obtain ⟨hrow, -, -, -⟩ := hrows i hi
    rw [denseR_eq]
    simp only [triEntry_add, add_sub_cancel]
    rw [triEntry_row_sum _ _ _ (fun j => vecR x j) t.n i hi, ← hrow]
    congr 2
    by_cases h0 : 0 < i
    · simp only [h0, if_true, Nat.sub_add_cancel h0]
    · simp only [h0, if_false]
  · intro i j hi hj
    by_cases e1 : i = j
    · subst e1
      obtain ⟨-, -, b2, -⟩ := hrows i hi
      rw [absLU_diag t t.n i hi]
      simpa [triEntry] using b2
    · by_cases e2 : i = j + 1
      · subst e2
        obtain ⟨-, b1, -, -⟩ := hrows (j + 1) hi
        rw [absLU_low t t.n j hi]
        rw [lowR_succ] at b1
        have : triEntry (fun k => lo (k + 1) - subR t k) (fun k => di k - mainR t k)
            (fun k => up k - supR t k) (j + 1) j = lo (j + 1) - subR t j := by
          simp [triEntry]
        rw [this]
        exact b1.trans (mul_le_mul_of_nonneg_right hG2 (abs_nonneg _))
      · by_cases e3 : i + 1 = j
        · subst e3
          obtain ⟨-, -, -, b3⟩ := hrows i hi
          rw [absLU_up t t.n i hi]
          have : triEntry (fun k => lo (k + 1) - subR t k) (fun k => di k - mainR t k)
              (fun k => up k - supR t k) i (i + 1) = up i - supR t i := by
            simp [triEntry, e2]
          rw [this]
          exact b3
        · have : triEntry (fun k => lo (k + 1) - subR t k) (fun k => di k - mainR t k)
              (fun k => up k - supR t k) i j = 0 := by
            simp [triEntry, e1, e2, e3]
          rw [this, abs_zero]
          exact mul_nonneg hF (absLU_nonneg _ _ _ _)
  · intro i j hb
    have e1 : ¬ i = j := fun e => hb (Or.inl e)
    have e2 : ¬ i = j + 1 := fun e => hb (Or.inr (Or.inl e))
    have e3 : ¬ i + 1 = j := fun e => hb (Or.inr (Or.inr e))
    simp [triEntry, e1, e2, e3]
  · intro j hj
    obtain ⟨-, b1, -, -⟩ := hrows (j + 1) hj
    rw [lowR_succ] at b1
    have : triEntry (fun k => lo (k + 1) - subR t k) (fun k => di k - mainR t k)
        (fun k => up k - supR t k) (j + 1) j = lo (j + 1) - subR t j := by
      simp [triEntry]
    rw [this]
    exact b1

/-! #### diagonally dominant systems -/

/-- strict diagonal dominance by ROWS with the margin rounding requires:
`(1+u)(|T j (j-1)| + |T j (j+1)|) < (1-u) |T j j|` in every row (for `u = 0`: strict row diagonal
dominance; for binary64 the margin factor is `(1+u)/(1-u) ≈ 1 + 2.2·10⁻¹⁶`) -/
def RowDD (t : Tri (Fl M)) : Prop :=
  ∀ j, j < t.n → (1 + M.u) * (|lowR t j| + |supR t j|) < (1 - M.u) * |mainR t j|

theorem abs_one_add_le {d : ℝ} (hd : |d| ≤ M.u) : |1 + d| ≤ 1 + M.u :=
  (abs_add_le _ _).trans (by simpa using hd)

theorem le_abs_one_add {d : ℝ} (hd : |d| ≤ M.u) : 1 - M.u ≤ |1 + d| := by
  have h1 := neg_abs_le d
  have h2 := le_abs_self (1 + d)
  linarith

/-- one elimination step under row dominance: the computed pivot stays away from zero and is not
much larger than the diagonal entry -/
theorem dd_step (t : Tri (Fl M)) (hu : M.u < 1) (j : ℕ) (hg : |mulR t j| ≤ 1)
    (hdd : (1 + M.u) * (|lowR t j| + |supR t j|) < (1 - M.u) * |mainR t j|) :
    (1 + M.u) * |supR t j| < |pivR t j| ∧
      |pivR t j| ≤ (1 + M.u) * (|mainR t j| + (1 + M.u) * |lowR t j|) := by
  have h0 := M.u_nonneg
  obtain ⟨d2, d3, q2, q3, e⟩ := pivR_delta t j
  set A := mainR t j - lowR t j * mulR t j * (1 + d2) with hA
  have hP : |lowR t j * mulR t j * (1 + d2)| ≤ (1 + M.u) * |lowR t j| := by
    rw [abs_mul, abs_mul]
    have h1 : |lowR t j| * |mulR t j| ≤ |lowR t j| := by
      simpa using mul_le_mul_of_nonneg_left hg (abs_nonneg (lowR t j))
    have := mul_le_mul h1 (abs_one_add_le q2) (abs_nonneg _) (abs_nonneg _)
    linarith
  have hAlo : |mainR t j| - (1 + M.u) * |lowR t j| ≤ |A| := by
    have := abs_sub_abs_le_abs_sub (mainR t j) (lowR t j * mulR t j * (1 + d2))
    linarith
  have hAhi : |A| ≤ |mainR t j| + (1 + M.u) * |lowR t j| := by
    have := abs_sub (mainR t j) (lowR t j * mulR t j * (1 + d2))
    linarith
  have hal := abs_nonneg (lowR t j)
  have hsp := abs_nonneg (supR t j)
  have hAn := abs_nonneg A
  rw [e, abs_mul]
  constructor
  · have h1 : |A| * (1 - M.u) ≤ |A| * |1 + d3| :=
      mul_le_mul_of_nonneg_left (le_abs_one_add q3) hAn
    have h2 : (|mainR t j| - (1 + M.u) * |lowR t j|) * (1 - M.u) ≤ |A| * (1 - M.u) :=
      mul_le_mul_of_nonneg_right hAlo (by linarith)
    have h3 : 0 ≤ M.u * (1 + M.u) * |lowR t j| := by positivity
    nlinarith
  · have h1 : |A| * |1 + d3| ≤ |A| * (1 + M.u) :=
      mul_le_mul_of_nonneg_left (abs_one_add_le q3) hAn
    have h2 : |A| * (1 + M.u) ≤ (|mainR t j| + (1 + M.u) * |lowR t j|) * (1 + M.u) :=
      mul_le_mul_of_nonneg_right hAhi (by linarith)
    linarith

/-- under row dominance every computed multiplier has modulus at most one -/
theorem dd_mult (t : Tri (Fl M)) (hu : M.u < 1) (hdd : RowDD t) :
    ∀ j, j < t.n → |mulR t j| ≤ 1 := by
  intro j
  induction j with
  | zero => intro _; simp [mulR_zero]
  | succ j ih =>
    intro hj
    have hg := ih (by omega)
    obtain ⟨hlo, -⟩ := dd_step t hu j hg (hdd j (by omega))
    have hpos : 0 < |pivR t j| := lt_of_le_of_lt (by have := M.u_nonneg; positivity) hlo
    obtain ⟨d1, q1, -, e⟩ := mulR_delta t j (abs_pos.mp hpos)
    have h1 : |mulR t (j + 1)| * |pivR t j| = |supR t j| * |1 + d1| := by
      rw [← abs_mul, ← abs_mul, e]
    have h2 : |supR t j| * |1 + d1| ≤ |supR t j| * (1 + M.u) :=
      mul_le_mul_of_nonneg_left (abs_one_add_le q1) (abs_nonneg _)
    by_contra hc
    have hc := not_le.mp hc
    have : |pivR t j| < |mulR t (j + 1)| * |pivR t j| := by nlinarith
    linarith

/-- (F) **the tridiagonal solver is componentwise backward stable on diagonally dominant
systems, independently of `n`.**  Assume `u < 1` and strict row diagonal dominance with margin
(`RowDD`: `(1+u)(|T j (j-1)| + |T j (j+1)|) < (1-u)|T j j|` in every row).  Then no computed pivot
vanishes, `solve` returns `x̂`, every computed multiplier satisfies `|γ̂ⱼ| ≤ 1`,
`|L̂||Û| ≤ 3(1+u)|T|`, and `x̂` is the exact solution of `(T + ΔT) x̂ = r` with the same right-hand
side and
`|ΔT| ≤ ddConst M · |T|` componentwise,  `ddConst M = 3 (1+u) bwdConst M = 12u + O(u²)`
(`≤ 12u(1+u)/(1−3u)`, `ddConst_le`).  The constant does not depend on `n`. -/
theorem solve_backward_stable_dd (t : Tri (Fl M)) (h : WF t) (r : Array (Fl M))
    (hr : t.n = r.size) (hu : M.u < 1) (hdd : RowDD t) :
    (∀ j, j < t.n → pivR t j ≠ 0) ∧ (∀ j, j < t.n → |mulR t j| ≤ 1) ∧
    ∃ x, solve t r = .ok x ∧ x.size = t.n ∧ ∃ ΔT : ℕ → ℕ → ℝ,
      (∀ i, i < t.n → ∑ j ∈ range t.n, (denseR t i j + ΔT i j) * vecR x j = vecR r i) ∧
      (∀ i j, i < t.n → j < t.n → |ΔT i j| ≤ ddConst M * |denseR t i j|) ∧
      (∀ i j, ¬ (i = j ∨ i = j + 1 ∨ i + 1 = j) → ΔT i j = 0) := by
  have h0 := M.u_nonneg
  have hg := dd_mult t hu hdd
  have hpiv : ∀ j, j < t.n → pivR t j ≠ 0 := by
    intro j hj
    obtain ⟨hlo, -⟩ := dd_step t hu j (hg j hj) (hdd j hj)
    have hpos : 0 < |pivR t j| := lt_of_le_of_lt (by positivity) hlo
    exact abs_pos.mp hpos
  refine ⟨hpiv, hg, ?_⟩
  obtain ⟨x, hx⟩ := (solve_fl_ok_iff t h r).mpr ⟨hr, hpiv⟩
  obtain ⟨hsz, ΔT, hrow, hb, hoff, -⟩ := solve_backward_error t h r x hu hx
  refine ⟨x, hx, hsz, ΔT, hrow, ?_, hoff⟩
  have hF := bwdConst_nonneg hu
  intro i j hi hj
  by_cases hband : i = j ∨ i = j + 1 ∨ i + 1 = j
  swap
  · rw [hoff i j hband, abs_zero]
    exact mul_nonneg (by unfold ddConst; positivity) (abs_nonneg _)
  have key : absLU t t.n i j ≤ 3 * (1 + M.u) * |denseR t i j| := by
    rcases hband with rfl | rfl | rfl
    · rw [absLU_diag t t.n i hi]
      have hd : denseR t i i = mainR t i := by rw [denseR_eq]; simp [triEntry]
      rw [hd]
      obtain ⟨-, hhi⟩ := dd_step t hu i (hg i hi) (hdd i hi)
      have hdi := hdd i hi
      have hal := abs_nonneg (lowR t i)
      have hsp := abs_nonneg (supR t i)
      have hmn := abs_nonneg (mainR t i)
      have h1 : |lowR t i * mulR t i| ≤ |lowR t i| := by
        rw [abs_mul]
        simpa using mul_le_mul_of_nonneg_left (hg i hi) hal
      have h2 : (1 + M.u) * |lowR t i| ≤ |mainR t i| := by nlinarith
      nlinarith
    · rw [absLU_low t t.n j hi]
      have hd : denseR t (j + 1) j = subR t j := by rw [denseR_eq]; simp [triEntry]
      rw [hd]
      have := abs_nonneg (subR t j)
      nlinarith
    · rw [absLU_up t t.n i hi]
      have hd : denseR t i (i + 1) = supR t i := by
        have e1 : ¬ i = i + 1 + 1 := by omega
        rw [denseR_eq]; simp [triEntry, e1]
      rw [hd]
      obtain ⟨d1, q1, -, e⟩ := mulR_delta t i (hpiv i hi)
      rw [mul_comm (pivR t i), e, abs_mul]
      have h2 : |supR t i| * |1 + d1| ≤ |supR t i| * (1 + M.u) :=
        mul_le_mul_of_nonneg_left (abs_one_add_le q1) (abs_nonneg _)
      have := abs_nonneg (supR t i)
      nlinarith
  calc |ΔT i j| ≤ bwdConst M * absLU t t.n i j := hb i j hi hj
    _ ≤ bwdConst M * (3 * (1 + M.u) * |denseR t i j|) := mul_le_mul_of_nonneg_left key hF
    _ = ddConst M * |denseR t i j| := by unfold ddConst; ring

/-- `ddConst ≤ 12 u (1+u) / (1 - 3u)` -/
theorem ddConst_le (h : 3 * M.u < 1) : ddConst M ≤ 12 * M.u * (1 + M.u) / (1 - 3 * M.u) := by
  have h0 := M.u_nonneg
  have hb := bwdConst_le h
  have e : 12 * M.u * (1 + M.u) / (1 - 3 * M.u) = 3 * (1 + M.u) * (4 * M.u / (1 - 3 * M.u)) := by
    ring
  rw [ddConst, e]
  exact mul_le_mul_of_nonneg_left hb (by positivity)

end Rounding

/-! ### non-vacuity -/

section Examples
open Finset

/-- `[[4,1,0],[1,4,1],[0,1,4]]` in the rounded reals of any model -/
def T3F (M : FlModel) : Tri (Fl M) := ⟨#[⟨1⟩, ⟨1⟩], #[⟨4⟩, ⟨4⟩, ⟨4⟩], #[⟨1⟩, ⟨1⟩], 3⟩

theorem T3F_wf (M : FlModel) : WF (T3F M) := ⟨by show 1 ≤ 3; omega, rfl, rfl, rfl⟩

/-- the dominance hypothesis holds in every model with `u < 1/3` (binary64: `u = 2⁻⁵³`) -/
theorem T3F_dd (M : FlModel) (hu : M.u < 1 / 3) : RowDD (T3F M) := by
  have h0 := M.u_nonneg
  intro j hj
  have hj' : j < 3 := hj
  obtain rfl | rfl | rfl : j = 0 ∨ j = 1 ∨ j = 2 := by omega
  · simp [lowR, supR, mainR, subR, T3F]; linarith
  · simp [lowR, supR, mainR, subR, T3F]; linarith
  · simp [lowR, supR, mainR, subR, T3F]; linarith

/-- the hypotheses of `solve_backward_stable_dd` are satisfiable in every model with `u < 1/3`,
in particular in a format that really rounds (`FlModel.binary64`) -/
example (r : Array (Fl FlModel.binary64)) (hr : r.size = 3) :
    ∃ x, solve (T3F FlModel.binary64) r = .ok x := by
  have hu : FlModel.binary64.u < 1 / 3 := by
    rw [FlModel.binary64_u]
    have : (2 : ℝ) ^ (-53 : ℤ) ≤ 2 ^ (-2 : ℤ) := zpow_le_zpow_right₀ (by norm_num) (by norm_num)
    have e : (2 : ℝ) ^ (-2 : ℤ) = 1 / 4 := by norm_num
    linarith
  obtain ⟨-, -, x, hx, -⟩ := solve_backward_stable_dd (T3F _) (T3F_wf _) r hr.symm
    (by linarith) (T3F_dd _ hu)
  exact ⟨x, hx⟩

/-- in exact arithmetic (`FlModel.exact`, `u = 0`) the perturbation vanishes: the returned vector
solves the system exactly -/
example : ∃ x, solve (T3F FlModel.exact) #[⟨1⟩, ⟨2⟩, ⟨3⟩] = .ok x ∧
    ∀ i, i < 3 → ∑ j ∈ range 3, denseR (T3F FlModel.exact) i j * vecR x j
      = vecR (#[⟨1⟩, ⟨2⟩, ⟨3⟩] : Array (Fl FlModel.exact)) i := by
  have hu0 : FlModel.exact.u = 0 := rfl
  obtain ⟨-, -, x, hx, -, ΔT, hrow, hb, -⟩ := solve_backward_stable_dd (T3F FlModel.exact)
    (T3F_wf _) #[⟨1⟩, ⟨2⟩, ⟨3⟩] rfl (by rw [hu0]; norm_num) (T3F_dd _ (by rw [hu0]; norm_num))
  have hc : ddConst FlModel.exact = 0 := by
    simp [ddConst, bwdConst, ginv, hu0]
  refine ⟨x, hx, fun i hi => ?_⟩
  have hi' : i < (T3F FlModel.exact).n := hi
  rw [← hrow i hi']
  apply Finset.sum_congr rfl
  intro j hj
  have hj' : j < (T3F FlModel.exact).n := Finset.mem_range.mp hj
  have := hb i j hi' hj'
  rw [hc, zero_mul] at this
  rw [abs_nonpos_iff.mp this, add_zero]

end Examples

end Ohsl.Props.C05
