/-
  Property C01 (continued) — exact-arithmetic soundness of the dense direct solvers.
  Model: Ohsl/Model/Solve.lean; helper lemmas: Ohsl/Lemmas/SolveSound.lean.

  Class (E): `K` a linearly ordered field, `/` fails on an exact zero divisor
  (`Ohsl.Alg.scalarExt`).  No pivot hypothesis is needed: a vanishing pivot makes a division
  fail, which is the error branch, so nothing is returned.

  * `solveBasic_sound`      `solve_basic` returned `x`  ⇒  `x.size = n` and `A x = b`
  * `solveBasic_sound_get`  the same with bounded indices `x[j]`, `b[i]`
-/
import Ohsl.Props.C01
import Ohsl.Lemmas.SolveSound
import Mathlib.Algebra.BigOperators.Fin
set_option linter.unusedSectionVars false
set_option linter.unusedVariables false
namespace Ohsl.Props.C01
open Ohsl Ohsl.Mat

section Exact
variable {K : Type} [Field K] [LinearOrder K]
attribute [local instance] Ohsl.Alg.scalarExt

/-- **Soundness of `solve_basic`** (Gaussian elimination with partial pivoting, then back
    substitution): for a well-formed `n × n` matrix (`n ≥ 1`) with entries `a i j` and a
    right-hand side of length `n`, any returned vector has length `n` and satisfies every
    equation `Σ_j a i j · x_j = b_i` exactly. -/
theorem solveBasic_sound {n : Nat} (hn : 1 ≤ n) {A : Mat K} {a : Nat → Nat → K}
    (hA : Mat.Is A n n a) {b x : Array K} (hb : b.size = n)
    (h : Mat.solveBasic A b = .ok x) :
    x.size = n ∧
      ∀ i, i < n → ∑ j ∈ Finset.range n, a i j * (x[j]?.getD 0) = b[i]?.getD 0 := by
  obtain ⟨hs, hsol⟩ := solveBasic_sound_ent hn hA.wfn hb h
  refine ⟨hs, ?_⟩
  intro i hi
  have := hsol i hi
  simp only [vf] at this
  rw [← this]
  apply Finset.sum_congr rfl
  intro j hj
  rw [hA.ent_eq hi (Finset.mem_range.1 hj)]

/-- the same statement with bounded indices -/
theorem solveBasic_sound_get {n : Nat} (hn : 1 ≤ n) {A : Mat K} {a : Nat → Nat → K}
    (hA : Mat.Is A n n a) {b x : Array K} (hb : b.size = n)
    (h : Mat.solveBasic A b = .ok x) :
    ∃ hs : x.size = n, ∀ (i : Nat) (hi : i < n),
      ∑ j : Fin n, a i j * x[j.1]'(by rw [hs]; exact j.2) = b[i]'(by rw [hb]; exact hi) := by
  obtain ⟨hs, hsol⟩ := solveBasic_sound hn hA hb h
  refine ⟨hs, ?_⟩
  intro i hi
  have := hsol i hi
  have hbi : i < b.size := by omega
  simp only [hbi, Array.getElem?_eq_getElem, Option.getD_some] at this
  rw [← this, Finset.sum_range]
  apply Finset.sum_congr rfl
  intro j _
  have hj : j.1 < x.size := by rw [hs]; exact j.2
  simp [hj]

end Exact
end Ohsl.Props.C01
