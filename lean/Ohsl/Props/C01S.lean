/-
  Property C01 (continued) — exact-arithmetic soundness of the dense direct solvers.
  Model: Ohsl/Model/Solve.lean; helper lemmas: Ohsl/Lemmas/SolveSound.lean.

  Class (E): `K` a linearly ordered field, `/` fails on an exact zero divisor
  (`Ohsl.Alg.scalarExt`).  No pivot hypothesis is needed: a vanishing pivot makes a division
  fail, which is the error branch, so nothing is returned.

  * `solveBasic_sound`      `solve_basic` returned `x`  ⇒  `x.size = n` and `A x = b`
  * `solveBasic_sound_get`  the same with bounded indices `x[j]`, `b[i]`
  * `solveBasic_unique`     … and then `x` is the only solution
  * `solveLU_sound`         `solve_lu` returned `x`  ⇒  `x.size = n` and `A x = b`
                            (needs `IsStrictOrderedRing K`, see the doc comment)
  * `solvers_agree`         both returned a value ⇒ the same value
  * `solvers_agree_partial` the weaker form with uniqueness as a hypothesis (kept because it is
                            the statement that was asked for; implied by `solvers_agree`)

  Note on the pivot search of `solve_basic`: since fix 337d180 `max_abs_in_column` starts from
  `max_index = start_row`, so on an all-zero pivot sub-column it returns the current row and no
  exchange takes place (before the fix it returned row 0 and an already eliminated row was
  exchanged back in: defect D11); the zero pivot then makes a division of `backsolve` fail; see
  `Ohsl.Mat.gauss_spec`.
-/
import Ohsl.Props.C01
import Ohsl.Lemmas.SolveSound
import Mathlib.Algebra.BigOperators.Fin
import Mathlib.Algebra.Order.Field.Rat
set_option linter.unusedSectionVars false
set_option linter.unusedVariables false
namespace Ohsl.Props.C01
open Ohsl Ohsl.Mat

section Exact
variable {K : Type} [Field K] [LinearOrder K]
attribute [local instance] Ohsl.Alg.scalarExt

/-- **Soundness of `solve_basic`** (Gaussian elimination with partial pivoting, then back
    substitution): for a well-formed `n × n` matrix (`n ≥ 1`) with entries `a i j` and a
    right-hand side of length `n`, any returned vector has length `n` and satisfies every
    equation `Σ_j a i j · x_j = b_i` exactly. -/
theorem solveBasic_sound {n : Nat} (hn : 1 ≤ n) {A : Mat K} {a : Nat → Nat → K}
    (hA : Mat.Is A n n a) {b x : Array K} (hb : b.size = n)
    (h : Mat.solveBasic A b = .ok x) :
    x.size = n ∧
      ∀ i, i < n → ∑ j ∈ Finset.range n, a i j * (x[j]?.getD 0) = b[i]?.getD 0 := by
  obtain ⟨hs, hsol⟩ := solveBasic_sound_ent hn hA.wfn hb h
  refine ⟨hs, ?_⟩
  intro i hi
  have := hsol i hi
  simp only [vf] at this
  rw [← this]
  apply Finset.sum_congr rfl
  intro j hj
  rw [hA.ent_eq hi (Finset.mem_range.1 hj)]

/-- the same statement with bounded indices -/
theorem solveBasic_sound_get {n : Nat} (hn : 1 ≤ n) {A : Mat K} {a : Nat → Nat → K}
    (hA : Mat.Is A n n a) {b x : Array K} (hb : b.size = n)
    (h : Mat.solveBasic A b = .ok x) :
    ∃ hs : x.size = n, ∀ (i : Nat) (hi : i < n),
      ∑ j : Fin n, a i j * x[j.1]'(by rw [hs]; exact j.2) = b[i]'(by rw [hb]; exact hi) := by
  obtain ⟨hs, hsol⟩ := solveBasic_sound hn hA hb h
  refine ⟨hs, ?_⟩
  intro i hi
  have := hsol i hi
  have hbi : i < b.size := by omega
  simp only [hbi, Array.getElem?_eq_getElem, Option.getD_some] at this
  rw [← this, Finset.sum_range]
  apply Finset.sum_congr rfl
  intro j _
  have hj : j.1 < x.size := by rw [hs]; exact j.2
  simp [hj]

/-- **Soundness of `solve_lu`** (in-place LU with recorded row permutation, `P b`, forward and
    back substitution): any returned vector has length `n` and solves `A x = b` exactly.
    `IsStrictOrderedRing K` (the order is compatible with the field operations) is needed
    because the decomposition *skips* a column whose largest magnitude compares equal to zero;
    without compatibility `|x| ≤ 0` would not force `x = 0`. -/
theorem solveLU_sound [IsStrictOrderedRing K] {n : Nat} (hn : 1 ≤ n) {A : Mat K}
    {a : Nat → Nat → K} (hA : Mat.Is A n n a) {b x : Array K} (hb : b.size = n)
    (h : Mat.solveLU A b = .ok x) :
    x.size = n ∧
      ∀ i, i < n → ∑ j ∈ Finset.range n, a i j * (x[j]?.getD 0) = b[i]?.getD 0 := by
  obtain ⟨hs, hsol⟩ := solveLU_sound_ent hn hA.wfn hb h
  refine ⟨hs, ?_⟩
  intro i hi
  have := hsol i hi
  simp only [vf] at this
  rw [← this]
  apply Finset.sum_congr rfl
  intro j hj
  rw [hA.ent_eq hi (Finset.mem_range.1 hj)]

/-- The two direct solvers agree whenever both return a value and the system has at most one
    solution.  ("partial": nothing is said when one of them fails, and uniqueness of the
    solution is a hypothesis rather than derived from the success of the elimination.) -/
theorem solvers_agree_partial [IsStrictOrderedRing K] {n : Nat} (hn : 1 ≤ n) {A : Mat K}
    {a : Nat → Nat → K} (hA : Mat.Is A n n a) {b x₁ x₂ : Array K} (hb : b.size = n)
    (huniq : ∀ z z' : Nat → K,
      (∀ i, i < n → ∑ j ∈ Finset.range n, a i j * z j = b[i]?.getD 0) →
      (∀ i, i < n → ∑ j ∈ Finset.range n, a i j * z' j = b[i]?.getD 0) →
      ∀ j, j < n → z j = z' j)
    (h₁ : Mat.solveBasic A b = .ok x₁) (h₂ : Mat.solveLU A b = .ok x₂) : x₁ = x₂ := by
  obtain ⟨s1, e1⟩ := solveBasic_sound hn hA hb h₁
  obtain ⟨s2, e2⟩ := solveLU_sound hn hA hb h₂
  have := huniq (fun j => x₁[j]?.getD 0) (fun j => x₂[j]?.getD 0) e1 e2
  apply Array.ext
  · rw [s1, s2]
  · intro j hj1 hj2
    have := this j (by omega)
    simpa [hj1, hj2] using this

/-- A successful `solve_basic` certifies uniqueness: every exact solution of the system
    coincides with the returned vector (all pivots of the reduced triangular system were
    non-zero, otherwise a division would have failed). -/
theorem solveBasic_unique {n : Nat} (hn : 1 ≤ n) {A : Mat K} {a : Nat → Nat → K}
    (hA : Mat.Is A n n a) {b x : Array K} (hb : b.size = n)
    (h : Mat.solveBasic A b = .ok x) (z : Nat → K)
    (hz : ∀ i, i < n → ∑ j ∈ Finset.range n, a i j * z j = b[i]?.getD 0) :
    ∀ j, j < n → z j = x[j]?.getD 0 := by
  refine solveBasic_unique_ent hn hA.wfn hb h z ?_
  intro i hi
  rw [← show _ = vf b i from hz i hi]
  apply Finset.sum_congr rfl
  intro j hj
  rw [hA.ent_eq hi (Finset.mem_range.1 hj)]

/-- The two direct solvers agree whenever both return a value — no uniqueness hypothesis:
    it follows from the success of `solve_basic` (`solveBasic_unique`). -/
theorem solvers_agree [IsStrictOrderedRing K] {n : Nat} (hn : 1 ≤ n) {A : Mat K}
    {a : Nat → Nat → K} (hA : Mat.Is A n n a) {b x₁ x₂ : Array K} (hb : b.size = n)
    (h₁ : Mat.solveBasic A b = .ok x₁) (h₂ : Mat.solveLU A b = .ok x₂) : x₁ = x₂ := by
  obtain ⟨s1, _⟩ := solveBasic_sound hn hA hb h₁
  obtain ⟨s2, e2⟩ := solveLU_sound hn hA hb h₂
  have := solveBasic_unique hn hA hb h₁ (fun j => x₂[j]?.getD 0) e2
  apply Array.ext
  · rw [s1, s2]
  · intro j hj1 hj2
    have := this j (by omega)
    simp only [hj1, hj2, Array.getElem?_eq_getElem, Option.getD_some] at this
    exact this.symm

end Exact

section Examples
attribute [local instance] Ohsl.Alg.scalarExt

/-- the hypotheses of the soundness theorems are satisfiable: a 3×3 rational system whose first
    pivot is zero (a row exchange is needed) is solved by both solvers -/
example : ∃ (A : Mat ℚ) (b x : Array ℚ), Mat.Is A 3 3 (Mat.ent A) ∧ b.size = 3 ∧
    Mat.solveBasic A b = .ok x ∧ Mat.solveLU A b = .ok x :=
  ⟨⟨#[0, 1, 2, 1, 0, 3, 4, -3, 8], 3, 3⟩, #[8, 10, 22], #[1, 2, 3],
    Mat.WFn.is ⟨rfl, rfl, rfl⟩, rfl, by decide +kernel, by decide +kernel⟩

/-- and both solvers do refuse a singular system whose second pivot column vanishes (the pivot
    search finds no non-zero candidate there): no value is returned -/
example : Mat.solveBasic (K := ℚ) ⟨#[1, 1, 0, 0, 0, 1, 0, 0, 1], 3, 3⟩ #[1, 2, 3] = .error .arith ∧
    Mat.solveLU (K := ℚ) ⟨#[1, 1, 0, 0, 0, 1, 0, 0, 1], 3, 3⟩ #[1, 2, 3] = .error .arith :=
  ⟨by decide +kernel, by decide +kernel⟩

end Examples
end Ohsl.Props.C01
