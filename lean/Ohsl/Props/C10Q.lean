/-
  Property C10 (continued) — root finder (model: Ohsl/Model/Roots.lean).

  (S) any scalar type, arbitrary arithmetic (so also IEEE floats with NaN):
      * `roots_length`, `rootsReal_length`: for `n + 1 ≥ 2` coefficients `polySolve` / `rootsReal`
        never fail and return exactly `n` values, for EVERY degree (closed forms and the
        Laguerre + deflation path), refined or not;
      * `polySolve_deg2`, `polySolve_deg3`: degrees 2 and 3 ARE the closed-form solvers;
      * `laguerSteps_le_fuel`, `laguerLoop_eq_iter`, `laguerLoop_stop`, `laguer_steps_le`:
        `laguer` is total by construction (structural recursion on the fuel); it performs at most
        79 updates, returns the corresponding iterate of `laguerStep`, and if it used fewer than
        79 updates it stopped at a point where `laguerStep` returned `none`
        (converged / stagnated / non-finite update).
  (E) any field with `3 ≠ 0` (`2 ≠ 0` is not needed):
      * `cardano_core`, `cubic_roots_alg`: Cardano's formula yields zeros of the cubic;
      * `cardano_product`, `cubic_factor_alg`: the three values are all the zeros with multiplicity
        (`a (X−x₀)(X−x₁)(X−x₂) = a X³ + b X² + c X + d`);
      * `cubic_triple_root_alg`: the `d₀ = d₁ = 0` branch (`a (X + b/(3a))³` is the cubic).
  (R) real interpretation, transported to Mathlib's ℂ with `toC`, for `a ≠ 0` and NO other
      hypothesis:
      * `quadratic_roots`, `quadratic_factor`, `quadratic_q_zero`: both values of `quadraticSolve`
        are zeros, they are all the zeros with multiplicity, and the `q == 0` branch is taken only
        for `b = c = 0` (sign rule: no cancellation in `b + sgn·s`);
      * `cubic_roots`, `cubic_factor`: likewise for `cubicSolve`, all three branches (the `base == 0` guard of fix D12 is dead over ℂ); `cBase_ne_zero`
        shows that the sign rule `if Re(conj d1 · sq) < 0 {d1 - sq} else {d1 + sq}` (no
        cancellation: `|d1 ± sq|² = |d1|² + |sq|² ± 2 Re(conj d1 · sq)`) makes `base ≠ 0` outside
        the triple-root branch, so the division `d0 / k` is never a division by zero there.
  NOT proved: convergence / accuracy of Laguerre + deflation (degree ≥ 4), anything about rounding
  (class F).  In `f64` the closed forms are of course only approximately zeros.
-/
import Ohsl.Props.C10
import Ohsl.Props.C14I
set_option linter.unusedSectionVars false
set_option linter.unusedVariables false
namespace Ohsl.Props.C10
open Ohsl Ohsl.Roots

/-! ## (S) structural facts -/

section Structural
variable {K : Type} [Add K] [Sub K] [Mul K] [Neg K] [Div K] [Zero K] [One K] [BEq K] [ScalarExt K] [Transc K] [OfScientific K]

/-- a left fold whose step rewrites the second component only through `setIfInBounds`
    keeps the size of that component -/
theorem foldl_setIfInBounds_size {α β : Type} (l : List Nat) (g : α → Array β → Nat → α)
    (v : α → Array β → Nat → β) (st : α × Array β) :
    (l.foldl (fun (st : α × Array β) j => (g st.1 st.2 j, st.2.setIfInBounds j (v st.1 st.2 j))) st).2.size
      = st.2.size := by
  induction l generalizing st with
  | nil => rfl
  | cons j l ih => rw [List.foldl_cons, ih]; simp

theorem roots_length (c : Array (Cx K)) (refine : Bool) (h : 2 ≤ c.size) :
    ∃ rs, polySolve c refine = .ok rs ∧ rs.size = c.size - 1 := by
  have h1 : 1 ≤ c.size := by omega
  have hd : c.size - 1 ≠ 0 := by omega
  unfold polySolve usub
  simp only [h1, if_true, bind, Except.bind, hd, if_false, pure, Except.pure]
  refine ⟨_, rfl, ?_⟩
  have key : ∀ (r : Array (Cx K)), r.size = c.size - 1 →
      (if refine = true then r.map (fun r => laguer c r) else r).size = c.size - 1 := by
    intro r hr; cases refine <;> simp [hr]
  apply key
  split
  · rename_i e; simp [e]
  split
  · rename_i e; simp [e, quadraticSolve_size]
  split
  · rename_i e; simp [e, cubicSolve_size]
  · exact (foldl_setIfInBounds_size (List.range (c.size - 1)).reverse
      (fun ad _ j =>
        let x := laguer (ad.extract 0 (j + 2)) 0
        let x : Cx K := if Transc.le (Transc.fabs x.im) ((1 + 1) * Transc.eps * Transc.fabs x.re) then ⟨x.re, 0⟩ else x
        deflate ad j x)
      (fun ad _ j =>
        let x := laguer (ad.extract 0 (j + 2)) 0
        if Transc.le (Transc.fabs x.im) ((1 + 1) * Transc.eps * Transc.fabs x.re) then ⟨x.re, 0⟩ else x)
      (c, Array.replicate (c.size - 1) (0 : Cx K))).trans (by simp)
/-- degree 2 is the quadratic formula, degree 3 is Cardano -/
theorem polySolve_deg2 (c0 c1 c2 : Cx K) :
    polySolve #[c0, c1, c2] false = .ok (quadraticSolve c2 c1 c0) := rfl
theorem polySolve_deg3 (c0 c1 c2 c3 : Cx K) :
    polySolve #[c0, c1, c2, c3] false = .ok (cubicSolve c3 c2 c1 c0) := rfl

theorem rootsReal_length (c : Array K) (refine : Bool) (h : 2 ≤ c.size) :
    ∃ rs, rootsReal c refine = .ok rs ∧ rs.size = c.size - 1 := by
  have := roots_length (c.map (fun x => (⟨x, 0⟩ : Cx K))) refine (by simpa using h)
  simpa [rootsReal] using this

/-- number of successful Laguerre updates performed by `laguerLoop` -/
def laguerSteps (a : Array (Cx K)) (m : Nat) : Nat → Nat → Cx K → Nat
  | 0, _, _ => 0
  | fuel + 1, iter, x =>
    match laguerStep a m iter x with
    | none => 0
    | some x' => laguerSteps a m fuel (iter + 1) x' + 1

theorem laguerSteps_le_fuel (a : Array (Cx K)) (m fuel iter : Nat) (x : Cx K) :
    laguerSteps a m fuel iter x ≤ fuel := by
  induction fuel generalizing iter x with
  | zero => simp [laguerSteps]
  | succ f ih =>
    simp only [laguerSteps]
    split
    · omega
    · have := ih (iter + 1) ‹_›; omega

/-- `k`-fold iteration of the step from iteration counter `iter` -/
def laguerIter (a : Array (Cx K)) (m : Nat) : Nat → Nat → Cx K → Option (Cx K)
  | 0, _, x => some x
  | k + 1, iter, x => (laguerStep a m iter x).bind (laguerIter a m k (iter + 1))

/-- the loop returns the `steps`-th iterate, every one of the `steps` updates being a `some` -/
theorem laguerLoop_eq_iter (a : Array (Cx K)) (m fuel iter : Nat) (x : Cx K) :
    laguerIter a m (laguerSteps a m fuel iter x) iter x = some (laguerLoop a m fuel iter x) := by
  induction fuel generalizing iter x with
  | zero => simp [laguerSteps, laguerIter, laguerLoop]
  | succ f ih =>
    cases hx : laguerStep a m iter x with
    | none => simp [laguerSteps, laguerLoop, hx, laguerIter]
    | some x' => simp [laguerSteps, laguerLoop, hx, laguerIter, ih]

/-- if the loop stopped before exhausting its fuel, it stopped because the step returned `none`
    (converged / stagnated / non-finite update) at the returned point -/
theorem laguerLoop_stop (a : Array (Cx K)) (m fuel iter : Nat) (x : Cx K)
    (h : laguerSteps a m fuel iter x < fuel) :
    laguerStep a m (iter + laguerSteps a m fuel iter x) (laguerLoop a m fuel iter x) = none := by
  induction fuel generalizing iter x with
  | zero => omega
  | succ f ih =>
    cases hx : laguerStep a m iter x with
    | none => simp [laguerSteps, laguerLoop, hx]
    | some x' =>
      simp only [laguerSteps, laguerLoop, hx] at h ⊢
      have := ih (iter + 1) x' (by omega)
      rw [show iter + (laguerSteps a m f (iter + 1) x' + 1) = iter + 1 + laguerSteps a m f (iter + 1) x' by omega]
      exact this

/-- `laguer` performs at most 79 updates, the counter running through `1 ..= 79` -/
theorem laguer_steps_le (a : Array (Cx K)) (x : Cx K) :
    laguerSteps a (a.size - 1) 79 1 x ≤ 79 ∧
    laguerIter a (a.size - 1) (laguerSteps a (a.size - 1) 79 1 x) 1 x = some (laguer a x) :=
  ⟨laguerSteps_le_fuel _ _ _ _ _, laguerLoop_eq_iter _ _ _ _ _⟩
end Structural

/-! ## (E) Cardano's formula, algebraically -/

section Exact
variable {F : Type} [Field F]

/-- Cardano, core step: if `C ≠ 0` solves the resolvent `C⁶ − d₁ C³ + d₀³ = 0` then
    `x = −(b + C + d₀/C)/(3a)` is a zero of the cubic. -/
theorem cardano_core (a b c d C : F) (h3 : (3 : F) ≠ 0) (ha : a ≠ 0) (hC : C ≠ 0)
    (hres : C ^ 6 - (2 * b ^ 3 - 9 * a * b * c + 27 * a ^ 2 * d) * C ^ 3 + (b ^ 2 - 3 * a * c) ^ 3 = 0) :
    a * (-(b + C + (b ^ 2 - 3 * a * c) / C) / (3 * a)) ^ 3
      + b * (-(b + C + (b ^ 2 - 3 * a * c) / C) / (3 * a)) ^ 2
      + c * (-(b + C + (b ^ 2 - 3 * a * c) / C) / (3 * a)) + d = 0 := by
  field_simp
  linear_combination (-1 : F) * hres

theorem cube_root_unity {u : F} (hu : u ^ 2 + u + 1 = 0) : u ^ 3 = 1 := by
  linear_combination (u - 1) * hu

theorem cubic_roots_alg (a b c d k base u : F) (m : Nat) (h3 : (3 : F) ≠ 0) (ha : a ≠ 0)
    (hk : k ≠ 0) (hk3 : k ^ 3 = base)
    (hbase : base ^ 2 - (2 * b ^ 3 - 9 * a * b * c + 27 * a ^ 2 * d) * base + (b ^ 2 - 3 * a * c) ^ 3 = 0)
    (hu : u ^ 2 + u + 1 = 0) :
    let x := -(b + u ^ m * k + (b ^ 2 - 3 * a * c) / (u ^ m * k)) / (3 * a)
    a * x ^ 3 + b * x ^ 2 + c * x + d = 0 := by
  intro x
  have hu3 := cube_root_unity hu
  have hw : (u ^ m) ^ 3 = 1 := by rw [← pow_mul, mul_comm, pow_mul, hu3, one_pow]
  have hu0 : u ^ m ≠ 0 := by
    intro h; rw [h] at hw; simp at hw
  have hC3 : (u ^ m * k) ^ 3 = base := by rw [mul_pow, hw, one_mul, hk3]
  apply cardano_core a b c d (u ^ m * k) h3 ha (mul_ne_zero hu0 hk)
  have : (u ^ m * k) ^ 6 = base ^ 2 := by rw [← hC3]; ring
  rw [this, hC3]; exact hbase

/-- triple-root branch -/
theorem cubic_triple_root_alg (a b c d : F) (h3 : (3 : F) ≠ 0) (ha : a ≠ 0)
    (hd0 : b ^ 2 - 3 * a * c = 0) (hd1 : 2 * b ^ 3 - 9 * a * b * c + 27 * a ^ 2 * d = 0) (X : F) :
    a * (X - (-b / (3 * a))) ^ 3 = a * X ^ 3 + b * X ^ 2 + c * X + d := by
  field_simp
  linear_combination (9 * a * X + 3 * b) * hd0 - hd1

/-- the classical resolvent identity behind Cardano's formula (any commutative ring) -/
theorem cardano_product {R : Type} [CommRing R] (Y p q u : R) (hu : u ^ 2 + u + 1 = 0) :
    (Y + (p + q)) * (Y + (u * p + u ^ 2 * q)) * (Y + (u ^ 2 * p + u * q)) =
      Y ^ 3 - 3 * (p * q) * Y + (p ^ 3 + q ^ 3) := by
  have h12 : (Y + (u * p + u ^ 2 * q)) * (Y + (u ^ 2 * p + u * q)) =
      Y ^ 2 - (p + q) * Y + (p ^ 2 - p * q + q ^ 2) := by
    linear_combination (Y * (p + q) + (u - 1) * (p ^ 2 + q ^ 2) + (u ^ 2 - u + 1) * (p * q)) * hu
  rw [mul_assoc, h12]; ring

theorem cubic_factor_alg (a b c d k base u X : F) (h3 : (3 : F) ≠ 0) (ha : a ≠ 0)
    (hk : k ≠ 0) (hk3 : k ^ 3 = base)
    (hbase : base ^ 2 - (2 * b ^ 3 - 9 * a * b * c + 27 * a ^ 2 * d) * base + (b ^ 2 - 3 * a * c) ^ 3 = 0)
    (hu : u ^ 2 + u + 1 = 0) :
    a * (X - -(b + k + (b ^ 2 - 3 * a * c) / k) / (3 * a))
      * (X - -(b + u * k + (b ^ 2 - 3 * a * c) / (u * k)) / (3 * a))
      * (X - -(b + u ^ 2 * k + (b ^ 2 - 3 * a * c) / (u ^ 2 * k)) / (3 * a))
      = a * X ^ 3 + b * X ^ 2 + c * X + d := by
  have hu3 : u * u ^ 2 = 1 := by linear_combination (u - 1) * hu
  have hu0 : u ≠ 0 := left_ne_zero_of_mul_eq_one hu3
  obtain ⟨q, hq⟩ : ∃ q, q = (b ^ 2 - 3 * a * c) / k := ⟨_, rfl⟩
  have hpq : k * q = b ^ 2 - 3 * a * c := by rw [hq]; field_simp
  have e1 : (b ^ 2 - 3 * a * c) / (u * k) = u ^ 2 * q := by
    rw [← hpq]; field_simp; linear_combination (-q) * hu3
  have e2 : (b ^ 2 - 3 * a * c) / (u ^ 2 * k) = u * q := by
    rw [← hpq]; field_simp; linear_combination (-q) * hu3
  have hsum : k ^ 3 + q ^ 3 = 2 * b ^ 3 - 9 * a * b * c + 27 * a ^ 2 * d := by
    have h : k ^ 3 * (k ^ 3 + q ^ 3 - (2 * b ^ 3 - 9 * a * b * c + 27 * a ^ 2 * d)) = 0 := by
      rw [← hk3, ← hpq] at hbase; linear_combination hbase
    rcases mul_eq_zero.mp h with h | h
    · exact absurd (pow_eq_zero_iff (by norm_num) |>.mp h) hk
    · linear_combination h
  have hid := cardano_product (3 * a * X + b) k q u hu
  rw [e1, e2, ← hq]
  field_simp
  linear_combination hid - 3 * (3 * a * X + b) * hpq + hsum
end Exact

/-! ## (R) the closed forms of the model, real interpretation -/

section RealInterp
open Ohsl.Cx Ohsl.RealI Ohsl.Props.C14

theorem toC_nmul (n : Nat) (z : Cx ℝ) : toC (nmul n z) = (n : ℂ) * toC z := by
  rw [nmul, toC_mulR, mul_comm]; rfl

theorem beq_zero_iff (q : Cx ℝ) : (q == (0 : Cx ℝ)) = true ↔ toC q = 0 := by
  rw [← toC_zero, toC_inj]
  cases q with
  | mk x y =>
    show ((x == (0 : ℝ)) && (y == (0 : ℝ))) = true ↔ (⟨x, y⟩ : Cx ℝ) = ⟨0, 0⟩
    simp

/-- the shape of the quadratic formula as coded, transported to ℂ -/
theorem quadraticSolve_shape (a b c : Cx ℝ) :
    ∃ (s q : Cx ℝ) (σ : ℝ),
      toC s * toC s = toC b * toC b - 4 * toC a * toC c ∧ (σ = 1 ∨ σ = -1) ∧
      0 ≤ σ * (toC s * (starRingEnd ℂ) (toC b)).re ∧
      toC q = -(toC b + (σ : ℂ) * toC s) / 2 ∧
      quadraticSolve a b c = #[divT q a, if q == 0 then divT q a else divT c q] := by
  refine ⟨csqrt (b * b - nmul 4 a * c), _, 
    (if Transc.le 0 (conj b * csqrt (b * b - nmul 4 a * c)).re then 1 else -1), ?_, ?_, ?_, ?_, rfl⟩
  · rw [csqrt_sq, toC_sub, toC_mul, toC_mul, toC_nmul]; push_cast; ring
  · split <;> simp
  · have hre : (toC (csqrt (b * b - nmul 4 a * c)) * (starRingEnd ℂ) (toC b)).re =
        (conj b * csqrt (b * b - nmul 4 a * c)).re := by
      rw [← toC_re, toC_mul]
      simp [toC, conj, Complex.mul_re]; ring
    rw [hre]
    show 0 ≤ (if decide ((0:ℝ) ≤ _) = true then (1:ℝ) else -1) * _
    split
    · rename_i h; simpa using h
    · rename_i h; simp at h; nlinarith
  · rw [toC_mulR, toC_add, toC_mulR]
    show _ * (((-(1 / 2 : ℝ)) : ℝ) : ℂ) = _
    push_cast; ring

/-- `q² + b q + a c = 0` for `q = −(b ± √(b² − 4ac))/2` -/
theorem quad_q_eq {A B C S Q : ℂ} {σ : ℝ} (hS : S * S = B * B - 4 * A * C) (hσ : σ = 1 ∨ σ = -1)
    (hQ : Q = -(B + (σ : ℂ) * S) / 2) : Q * Q + B * Q + A * C = 0 := by
  have hσ2 : (σ : ℂ) * σ = 1 := by rcases hσ with h | h <;> simp [h]
  rw [hQ]
  linear_combination (1 / 4 : ℂ) * hS + (S * S / 4) * hσ2

/-- with the sign chosen so that `Re (conj b · σ s) ≥ 0` there is no cancellation in `b + σ s`:
    `q = 0` only when `b = 0` (and then `s = 0`) -/
theorem quad_q_zero {B S Q : ℂ} {σ : ℝ} (hσ : σ = 1 ∨ σ = -1)
    (hsign : 0 ≤ σ * (S * (starRingEnd ℂ) B).re)
    (hQ : Q = -(B + (σ : ℂ) * S) / 2) (h0 : Q = 0) : B = 0 ∧ S = 0 := by
  have hσ2 : σ * σ = 1 := by rcases hσ with h | h <;> simp [h]
  have hB : B = -((σ : ℂ) * S) := by rw [h0] at hQ; linear_combination (2 : ℂ) * hQ
  have hS : S = 0 := by
    rw [hB] at hsign
    simp only [map_neg, map_mul, Complex.conj_ofReal, Complex.mul_re, Complex.neg_re, Complex.neg_im,
      Complex.ofReal_re, Complex.ofReal_im, Complex.mul_im, Complex.conj_re, Complex.conj_im] at hsign
    have h1 : S.re = 0 := by nlinarith [mul_self_nonneg S.re, mul_self_nonneg S.im]
    have h2 : S.im = 0 := by nlinarith [mul_self_nonneg S.re, mul_self_nonneg S.im]
    exact Complex.ext h1 h2
  exact ⟨by rw [hB, hS]; simp, hS⟩

/-- both values returned by `quadraticSolve` are zeros of `a x² + b x + c` (`a ≠ 0`) -/
theorem quadratic_roots (a b c : Cx ℝ) (ha : toC a ≠ 0) :
    ∀ r ∈ quadraticSolve a b c, toC a * toC r ^ 2 + toC b * toC r + toC c = 0 := by
  obtain ⟨s, q, σ, hS, hσ, hsign, hQ, hshape⟩ := quadraticSolve_shape a b c
  have hq := quad_q_eq hS hσ hQ
  have h0 : toC a * toC (divT q a) ^ 2 + toC b * toC (divT q a) + toC c = 0 := by
    rw [divT_eq]; field_simp; linear_combination hq
  intro r hr
  rw [hshape] at hr
  simp only [List.mem_toArray, List.mem_cons, List.not_mem_nil, or_false] at hr
  rcases hr with rfl | rfl
  · exact h0
  · split
    · exact h0
    · rename_i hq0
      have hq0' : toC q ≠ 0 := fun h => hq0 ((beq_zero_iff q).mpr h)
      rw [divT_eq]; field_simp; linear_combination (toC c) * hq

/-- the `q == 0` branch (double root returned twice) is taken only for `b = c = 0` -/
theorem quadratic_q_zero (a b c : Cx ℝ) (ha : toC a ≠ 0) :
    ∃ (q : Cx ℝ), quadraticSolve a b c = #[divT q a, if q == 0 then divT q a else divT c q] ∧
      ((q == 0) = true → toC b = 0 ∧ toC c = 0) := by
  obtain ⟨s, q, σ, hS, hσ, hsign, hQ, hshape⟩ := quadraticSolve_shape a b c
  refine ⟨q, hshape, fun h => ?_⟩
  obtain ⟨hb, hs⟩ := quad_q_zero hσ hsign hQ ((beq_zero_iff q).mp h)
  refine ⟨hb, ?_⟩
  rw [hb, hs] at hS
  have : toC a * toC c = 0 := by linear_combination (1 / 4 : ℂ) * hS
  exact (mul_eq_zero.mp this).resolve_left ha

/-- the two returned values are ALL the zeros, with multiplicity:
    `a (X − r₀)(X − r₁) = a X² + b X + c` -/
theorem quadratic_factor (a b c : Cx ℝ) (ha : toC a ≠ 0) :
    ∃ r0 r1 : Cx ℝ, quadraticSolve a b c = #[r0, r1] ∧
      ∀ X : ℂ, toC a * (X - toC r0) * (X - toC r1) = toC a * X ^ 2 + toC b * X + toC c := by
  obtain ⟨s, q, σ, hS, hσ, hsign, hQ, hshape⟩ := quadraticSolve_shape a b c
  have hq := quad_q_eq hS hσ hQ
  refine ⟨_, _, hshape, fun X => ?_⟩
  split
  · rename_i h
    have hq0 := (beq_zero_iff q).mp h
    obtain ⟨hb, hs⟩ := quad_q_zero hσ hsign hQ hq0
    rw [hb, hs] at hS
    have hac : toC a * toC c = 0 := by linear_combination (1 / 4 : ℂ) * hS
    have hc : toC c = 0 := (mul_eq_zero.mp hac).resolve_left ha
    rw [divT_eq, hq0, hb, hc]; simp; ring
  · rename_i hq0
    have hq0' : toC q ≠ 0 := fun h => hq0 ((beq_zero_iff q).mpr h)
    rw [divT_eq, divT_eq]; field_simp; linear_combination (-X) * hq

theorem toC_divRT (z : Cx ℝ) (r : ℝ) : toC (divRT z r) = toC z / (r : ℂ) := by
  apply Complex.ext <;> simp [toC, divRT, Complex.div_ofReal_re, Complex.div_ofReal_im]

/-! the intermediate quantities of `cubicSolve`, named -/
noncomputable def cD0 (a b c : Cx ℝ) : Cx ℝ := b * b - nmul 3 a * c
noncomputable def cD1 (a b c d : Cx ℝ) : Cx ℝ :=
  nmul 2 (b * b) * b - nmul 9 a * b * c + nmul 27 (a * a) * d
noncomputable def cDis (a b c d : Cx ℝ) : Cx ℝ :=
  nmul 18 a * b * c * d - nmul 4 b * (b * b) * d + (b * b) * (c * c) - nmul 4 a * (c * c) * c
    - nmul 27 (a * a) * (d * d)
noncomputable def cSq (a b c d : Cx ℝ) : Cx ℝ :=
  csqrt (mulR a (-(Transc.ofNat 27 : ℝ)) * a * cDis a b c d)
noncomputable def cBase (a b c d : Cx ℝ) : Cx ℝ :=
  divRT (if ScalarExt.lt (conj (cD1 a b c d) * cSq a b c d).re 0 then cD1 a b c d - cSq a b c d
    else cD1 a b c d + cSq a b c d)
    (Transc.ofNat 2)
noncomputable def cK (a b c d : Cx ℝ) : Cx ℝ :=
  cpow (cBase a b c d) ⟨Transc.ofNat 1 / Transc.ofNat 3, 0⟩
noncomputable def cU : Cx ℝ := ⟨-Transc.half, Transc.sqrt (Transc.ofNat 3) / Transc.ofNat 2⟩

theorem cubicSolve_eq (a b c d : Cx ℝ) :
    cubicSolve a b c d =
      if cD0 a b c == 0 && cD1 a b c d == 0 then
        #[divT (-b) (nmul 3 a), divT (-b) (nmul 3 a), divT (-b) (nmul 3 a)]
      else if cBase a b c d == 0 then
        #[divT (-b) (nmul 3 a), divT (-b) (nmul 3 a), divT (-b) (nmul 3 a)]
      else
        #[divT (-(b + cK a b c d + divT (cD0 a b c) (cK a b c d))) (nmul 3 a),
          divT (-(b + cU * cK a b c d + divT (cD0 a b c) (cU * cK a b c d))) (nmul 3 a),
          divT (-(b + cU * cU * cK a b c d + divT (cD0 a b c) (cU * cU * cK a b c d))) (nmul 3 a)] := rfl

theorem toC_cD0 (a b c : Cx ℝ) : toC (cD0 a b c) = toC b ^ 2 - 3 * toC a * toC c := by
  simp only [cD0, toC_sub, toC_mul, toC_nmul]; push_cast; ring
theorem toC_cD1 (a b c d : Cx ℝ) :
    toC (cD1 a b c d) = 2 * toC b ^ 3 - 9 * toC a * toC b * toC c + 27 * toC a ^ 2 * toC d := by
  simp only [cD1, toC_sub, toC_add, toC_mul, toC_nmul]; push_cast; ring
theorem toC_cDis (a b c d : Cx ℝ) :
    toC (cDis a b c d) = 18 * toC a * toC b * toC c * toC d - 4 * toC b ^ 3 * toC d
      + toC b ^ 2 * toC c ^ 2 - 4 * toC a * toC c ^ 3 - 27 * toC a ^ 2 * toC d ^ 2 := by
  simp only [cDis, toC_sub, toC_add, toC_mul, toC_nmul]; push_cast; ring

/-- `sq² = d₁² − 4 d₀³` (`= −27 a² Δ`) -/
theorem cSq_sq (a b c d : Cx ℝ) :
    toC (cSq a b c d) * toC (cSq a b c d) = toC (cD1 a b c d) ^ 2 - 4 * toC (cD0 a b c) ^ 3 := by
  rw [cSq, csqrt_sq, toC_mul, toC_mul, toC_mulR, toC_cDis, toC_cD1, toC_cD0]
  show toC a * (((-((27 : ℕ) : ℝ) : ℝ)) : ℂ) * toC a * _ = _
  push_cast; ring

/-- `base = (d₁ + σ·sq)/2` with the sign `σ = ±1` for which `σ · Re (conj d₁ · sq) ≥ 0` -/
theorem toC_cBase (a b c d : Cx ℝ) :
    ∃ σ : ℝ, (σ = 1 ∨ σ = -1) ∧
      0 ≤ σ * (toC (cSq a b c d) * (starRingEnd ℂ) (toC (cD1 a b c d))).re ∧
      toC (cBase a b c d) = (toC (cD1 a b c d) + (σ : ℂ) * toC (cSq a b c d)) / 2 := by
  have hre : (toC (cSq a b c d) * (starRingEnd ℂ) (toC (cD1 a b c d))).re =
      (conj (cD1 a b c d) * cSq a b c d).re := by
    rw [← toC_re, toC_mul]
    simp [toC, conj, Complex.mul_re]; ring
  rw [hre]
  unfold cBase
  split
  · rename_i hlt
    have hlt' : (conj (cD1 a b c d) * cSq a b c d).re < 0 :=
      of_decide_eq_true (show decide ((conj (cD1 a b c d) * cSq a b c d).re < 0) = true from hlt)
    refine ⟨-1, Or.inr rfl, by linarith, ?_⟩
    rw [toC_divRT, toC_sub]
    show _ / (((2 : ℕ) : ℝ) : ℂ) = _
    push_cast; ring
  · rename_i hlt
    have hlt' : ¬ (conj (cD1 a b c d) * cSq a b c d).re < 0 := fun h =>
      hlt (show decide ((conj (cD1 a b c d) * cSq a b c d).re < 0) = true from decide_eq_true h)
    refine ⟨1, Or.inl rfl, by linarith, ?_⟩
    rw [toC_divRT, toC_add]
    show _ / (((2 : ℕ) : ℝ) : ℂ) = _
    push_cast; ring

/-- `base` solves the resolvent quadratic `z² − d₁ z + d₀³ = 0` -/
theorem cBase_resolvent (a b c d : Cx ℝ) :
    toC (cBase a b c d) ^ 2 - toC (cD1 a b c d) * toC (cBase a b c d) + toC (cD0 a b c) ^ 3 = 0 := by
  obtain ⟨σ, hσ, _, hb⟩ := toC_cBase a b c d
  have hσ2 : (σ : ℂ) * σ = 1 := by rcases hσ with h | h <;> simp [h]
  rw [hb]
  linear_combination (1 / 4 : ℂ) * cSq_sq a b c d + (toC (cSq a b c d) ^ 2 / 4) * hσ2

/-- the sign in `base = (d₁ ± sq)/2` is the one without cancellation
    (`|d₁ + σ sq|² = |d₁|² + |sq|² + 2 |Re (conj d₁ · sq)|`): `base = 0` forces `d₁ = sq = 0`, hence
    `d₀³ = 0`; so outside the triple-root branch `base ≠ 0` -/
theorem cBase_ne_zero (a b c d : Cx ℝ) (h : ¬ (toC (cD0 a b c) = 0 ∧ toC (cD1 a b c d) = 0)) :
    toC (cBase a b c d) ≠ 0 := by
  intro hb
  obtain ⟨σ, hσ, hsign, hbase⟩ := toC_cBase a b c d
  obtain ⟨hd1, hs⟩ := quad_q_zero (Q := -toC (cBase a b c d)) hσ hsign
    (by rw [hbase]; ring) (by rw [hb]; simp)
  have hsq := cSq_sq a b c d
  rw [hs, hd1] at hsq
  have : toC (cD0 a b c) ^ 3 = 0 := by linear_combination (1 / 4 : ℂ) * hsq
  exact h ⟨pow_eq_zero_iff (by norm_num) |>.mp this, hd1⟩

/-- the principal cube root: `k³ = base`, `k ≠ 0` -/
theorem cK_cube (a b c d : Cx ℝ) (h : toC (cBase a b c d) ≠ 0) :
    toC (cK a b c d) ^ 3 = toC (cBase a b c d) ∧ toC (cK a b c d) ≠ 0 := by
  have hw : toC (⟨Transc.ofNat 1 / Transc.ofNat 3, 0⟩ : Cx ℝ) = (1 / 3 : ℂ) := by
    apply Complex.ext <;> simp [toC, Transc.ofNat]
  rw [cK, cpow_spec _ _ h, hw]
  refine ⟨?_, Complex.exp_ne_zero _⟩
  rw [← Complex.exp_nat_mul]
  conv_rhs => rw [← Complex.exp_log h]
  congr 1; push_cast; ring

/-- `u = −1/2 + (√3/2) i` is a primitive cube root of unity -/
theorem cU_spec : toC cU ^ 2 + toC cU + 1 = 0 := by
  have h3 : Real.sqrt 3 * Real.sqrt 3 = 3 := Real.mul_self_sqrt (by norm_num)
  have : toC cU = ⟨-(1 / 2), Real.sqrt ((3 : ℕ) : ℝ) / ((2 : ℕ) : ℝ)⟩ := rfl
  rw [this]
  apply Complex.ext
  · simp [sq, Complex.mul_re]; nlinarith
  · simp [sq, Complex.mul_im]; ring

/-- The three values returned by `cubicSolve` are ALL the zeros of `a x³ + b x² + c x + d`, with
    multiplicity (`a ≠ 0`; real interpretation, all three branches of the model). -/
theorem cubic_factor (a b c d : Cx ℝ) (ha : toC a ≠ 0) :
    ∃ r0 r1 r2 : Cx ℝ, cubicSolve a b c d = #[r0, r1, r2] ∧
      ∀ X : ℂ, toC a * (X - toC r0) * (X - toC r1) * (X - toC r2) =
        toC a * X ^ 3 + toC b * X ^ 2 + toC c * X + toC d := by
  have h3 : (3 : ℂ) ≠ 0 := by norm_num
  have hden : toC (nmul 3 a) = 3 * toC a := by rw [toC_nmul]; push_cast; ring
  rw [cubicSolve_eq]
  split
  · rename_i hz
    rw [Bool.and_eq_true, beq_zero_iff, beq_zero_iff, toC_cD0, toC_cD1] at hz
    refine ⟨_, _, _, rfl, fun X => ?_⟩
    rw [← cubic_triple_root_alg (toC a) (toC b) (toC c) (toC d) h3 ha hz.1 hz.2 X,
      divT_eq, hden, toC_neg]
    ring
  · rename_i hz
    rw [Bool.and_eq_true, beq_zero_iff, beq_zero_iff] at hz
    have hb0 := cBase_ne_zero a b c d hz
    -- the guard `base == 0` of fix D12 is dead in exact arithmetic: outside the triple-root branch `base ≠ 0`
    have hbne : (cBase a b c d == 0) = false := by
      cases hbb : (cBase a b c d == 0)
      · rfl
      · exact absurd ((beq_zero_iff _).mp hbb) hb0
    rw [if_neg (by rw [hbne]; exact Bool.false_ne_true)]
    obtain ⟨hk3, hk0⟩ := cK_cube a b c d hb0
    have hres := cBase_resolvent a b c d
    rw [toC_cD0, toC_cD1] at hres
    refine ⟨_, _, _, rfl, fun X => ?_⟩
    rw [← cubic_factor_alg (toC a) (toC b) (toC c) (toC d) (toC (cK a b c d)) (toC (cBase a b c d))
      (toC cU) X h3 ha hk0 hk3 hres cU_spec]
    simp only [divT_eq, hden, toC_neg, toC_add, toC_mul, toC_cD0, sq]

/-- every value returned by `cubicSolve` is a zero of the cubic -/
theorem cubic_roots (a b c d : Cx ℝ) (ha : toC a ≠ 0) :
    ∀ r ∈ cubicSolve a b c d,
      toC a * toC r ^ 3 + toC b * toC r ^ 2 + toC c * toC r + toC d = 0 := by
  obtain ⟨r0, r1, r2, hs, hX⟩ := cubic_factor a b c d ha
  intro r hr
  rw [hs] at hr
  simp only [List.mem_toArray, List.mem_cons, List.not_mem_nil, or_false] at hr
  rw [← hX (toC r)]
  rcases hr with rfl | rfl | rfl <;> simp

/-- the hypotheses of `cubic_roots_alg` / `cubic_factor_alg` are satisfiable: `x³ − 3x + 2` over ℂ
    (`d₀ = 9`, `d₁ = 54`, `base = 27`, `k = 3`); `cubic_factor` instantiates them for every cubic. -/
example : ∃ k base u : ℂ, k ≠ 0 ∧ k ^ 3 = base ∧
    base ^ 2 - (2 * (0 : ℂ) ^ 3 - 9 * 1 * 0 * (-3) + 27 * 1 ^ 2 * 2) * base
      + ((0 : ℂ) ^ 2 - 3 * 1 * (-3)) ^ 3 = 0 ∧ u ^ 2 + u + 1 = 0 :=
  ⟨3, 27, toC cU, by norm_num, by norm_num, by norm_num, cU_spec⟩

end RealInterp
end Ohsl.Props.C10
