/-
  Property C05 (continued) — the exact-arithmetic theorems over ANY field, in particular ℂ.

  The tridiagonal model (Ohsl/Model/Tridiag.lean: Thomas algorithm, determinant recurrence,
  products, arithmetic) never compares magnitudes: of the scalar interface it uses only
  `+ - * 0 1`, the test `== 0` and the fallible `/` (`divM`).  The theorems of section `Exact` of
  Props/C05T.lean and the `_exact` theorems of Props/C05A.lean assume `[LinearOrder K]` only
  because of the instance `Alg.scalarExt`; they therefore do not cover `Complex`.  Here they are
  restated and proved for every field with decidable equality, with the order-free instance
  `Alg.scalarExtField` (`divM a b = if b = 0 then .error .arith else .ok (a / b)`).

  * section `Field`    : `mulVec_spec_field`, `solve_char_field`, `solve_sound_field`,
                         `solve_refuses_field`, `solve_ok_iff_field`, `solve_error_class_field`,
                         `det_spec_field`, `det_correct_field`, and the C05A arithmetic /
                         conversion theorems `add_field … sdiv_convert_field`
  * section `Complex`  : the instances at Mathlib's `ℂ` (`solve_sound_complex`, …)
  * section `ModelCx`  : the model's own complex type `Cx ℝ` with the model's complex division
                         (`Cx.instScalarExt`, `divM := Cx.div`): `toC : Cx ℝ → ℂ` commutes with
                         `solve`, `det` and `&T * &v`, errors included (`solve_toC`, `det_toC`,
                         `mulVec_toC`); consequences `solve_sound_cx`, `solve_refuses_cx`, …
  The definitions `dense`, `pivot`, `mult`, `fwd`, `denseMatrix` are those of Props/C05T.lean
  (they only need `[Field K]`).
-/
import Ohsl.Props.C05A
import Ohsl.Props.C13R
import Ohsl.Lemmas.C05G
import Mathlib.Data.Complex.Basic
import Mathlib.Tactic.Ring
import Mathlib.Tactic.FieldSimp
import Mathlib.Tactic.NormNum
set_option linter.unusedSectionVars false
set_option linter.unusedVariables false
set_option linter.unusedSimpArgs false
namespace Ohsl.Props.C05
open Ohsl Ohsl.Tri

section Field
variable {K : Type} [Field K] [DecidableEq K]
attribute [local instance] Alg.scalarExtField
open Finset

/-- the band expression is the row of the dense twin times the vector -/
theorem rowExpr_eq_sum_field (t : Tri K) (h : WF t) (v : Array K) (i : Nat) (hi : i < t.n) :
    rowExpr t v i = ∑ j ∈ range t.n, dense t i j * v[j]?.getD 0 := by
  rw [dense_eq_triEntry, triEntry_row_sum _ _ _ (fun j => v[j]?.getD 0) t.n i hi]
  unfold rowExpr
  by_cases h1 : t.n = 1
  · have : i = 0 := by omega
    subst this
    simp [h1]
  · by_cases h0 : i = 0
    · subst h0
      have : 0 + 1 < t.n := by omega
      simp [h1, this]
    · by_cases hl : i = t.n - 1
      · have e1 : 0 < i := by omega
        have e2 : ¬ i + 1 < t.n := by omega
        have e3 : i - 1 = t.n - 2 := by omega
        subst hl
        simp [h1, h0, e1, e2, e3]
      · have e1 : 0 < i := by omega
        have e2 : i + 1 < t.n := by omega
        simp [h1, h0, hl, e1, e2]

/-- (E) **matrix–vector product = dense twin times vector**, for every n ≥ 1 (n = 1 and n = 2
    included): the call succeeds, the result has length n and `w[i] = Σ_{j<n} dense t i j · v[j]`. -/
theorem mulVec_spec_field (t : Tri K) (h : WF t) (v : Array K) (hv : v.size = t.n) :
    ∃ w, mulVec t v = .ok w ∧ w.size = t.n ∧
      ∀ i, i < t.n → w[i]? = some (∑ j ∈ range t.n, dense t i j * v[j]?.getD 0) := by
  obtain ⟨w, hw, hs, hr⟩ := mulVec_rows t h v hv
  refine ⟨w, hw, hs, fun i hi => ?_⟩
  rw [hr i hi, rowExpr_eq_sum_field t h v i hi]

/-! ### `solve` : Thomas algorithm -/

theorem pivot_zero_field (t : Tri K) : pivot t 0 = t.main[0]?.getD 0 := rfl
theorem pivot_succ_field (t : Tri K) (j : Nat) :
    pivot t (j + 1) = t.main[j + 1]?.getD 0 - t.sub[j]?.getD 0 * (t.sup[j]?.getD 0 / pivot t j) := rfl
theorem mult_succ_field (t : Tri K) (j : Nat) : mult t (j + 1) = t.sup[j]?.getD 0 / pivot t j := rfl
theorem fwd_zero_field (t : Tri K) (r : Array K) : fwd t r 0 = r[0]?.getD 0 / pivot t 0 := rfl
theorem fwd_succ_field (t : Tri K) (r : Array K) (j : Nat) :
    fwd t r (j + 1) = (r[j + 1]?.getD 0 - t.sub[j]?.getD 0 * fwd t r j) / pivot t (j + 1) := rfl

/-- (E) **complete description of `solve`** for a well-formed matrix and a right-hand side of the
    right length: either every pivot is non-zero and the call returns `u` of length n with
    `dense t · u = r` exactly, or some pivot vanishes and the call refuses with `zeroPivot`. -/
theorem solve_char_field (t : Tri K) (h : WF t) (r : Array K) (hr : t.n = r.size) :
    ((∀ j, j < t.n → pivot t j ≠ 0) ∧ ∃ u, solve t r = .ok u ∧ u.size = t.n ∧
        ∀ i, i < t.n → ∑ j ∈ range t.n, dense t i j * u[j]?.getD 0 = r[i]?.getD 0) ∨
    ((∃ j, j < t.n ∧ pivot t j = 0) ∧ solve t r = .error .zeroPivot) := by
  have hpos := h.pos
  have hm := h.main
  have hsb := h.sub
  have hsp := h.sup
  have hne : ¬ t.n ≠ r.size := by omega
  unfold solve
  simp only [hne, if_false]
  rw [aget_getD (by omega : 0 < t.main.size)]
  simp only [bind, Except.bind]
  by_cases hb0 : t.main[0]?.getD 0 = 0
  · right
    refine ⟨⟨0, by omega, hb0⟩, ?_⟩
    have : (t.main[0]?.getD 0 == 0) = true := by simpa using hb0
    simp only [this, if_true]
  · have hbeq : (t.main[0]?.getD 0 == 0) = false := by simpa using hb0
    simp only [hbeq, Bool.false_eq_true, if_false]
    rw [aget_getD (by omega : 0 < r.size)]
    simp only []
    rw [AlgF.divM_ne hb0]
    simp only []
    rw [Mat.aset_ok _ (by simp; omega)]
    simp only []
    have hus : usub t.n 1 = .ok (t.n - 1) := by simp [usub, hpos]
    rcases Mat.forM'_inv_err (SweepInv t r)
      (fun e => e = .zeroPivot ∧ ∃ j, j < t.n ∧ pivot t j = 0) 1 t.n
      (⟨t.main[0]?.getD 0, Array.replicate t.n 0,
        (Array.replicate t.n (0 : K)).setIfInBounds 0 (r[0]?.getD 0 / t.main[0]?.getD 0)⟩ : Sweep K)
      (fun s j => do
        let c ← aget (t.sup.push 0) (j - 1)
        let g ← divM c s.beta
        let gamma ← aset s.gamma j g
        let mj ← aget t.main j
        let aj ← aget (#[(0 : K)] ++ t.sub) j
        let beta := mj - aj * g
        if beta == 0 then .error .zeroPivot
        else do
          let rj ← aget r j
          let ujm1 ← aget s.u (j - 1)
          let q ← divM (rj - aj * ujm1) beta
          let u ← aset s.u j q
          pure ⟨beta, gamma, u⟩)
      hpos
      (by
        refine ⟨by simp, by simp, rfl, ?_, ?_, ?_⟩
        · intro j hj
          have : j = 0 := by omega
          subst this; exact hb0
        · intro j hj
          have : j = 0 := by omega
          subst this
          have : 0 < t.n := by omega
          simp [this, mult, thGamma]
        · intro j hj
          have : j = 0 := by omega
          subst this
          have : 0 < t.n := by omega
          simp [this, fwd_zero_field, pivot_zero_field])
      (by
        rintro i ⟨beta, gamma, u⟩ hi1 hi2 ⟨hgs, hus', hbeta, hpiv, hgam, hfw⟩
        obtain ⟨m, rfl⟩ : ∃ m, i = m + 1 := ⟨i - 1, by omega⟩
        simp only [Nat.add_sub_cancel] at hbeta ⊢
        simp only at hgs hus' hbeta hgam hfw
        subst hbeta
        have hpm : pivot t m ≠ 0 := hpiv m (by omega)
        simp only [aget_push_lt _ _ (by omega : m < t.sup.size), AlgF.divM_ne hpm,
          Mat.aset_ok _ (by omega : m + 1 < gamma.size),
          aget_getD (by omega : m + 1 < t.main.size),
          aget_singleton_append_succ _ _ (by omega : m < t.sub.size), bind, Except.bind]
        rw [← pivot_succ_field t m]
        by_cases hz : pivot t (m + 1) = 0
        · right
          have : (pivot t (m + 1) == 0) = true := by simpa using hz
          simp only [this, if_true]
          exact ⟨_, rfl, rfl, m + 1, hi2, hz⟩
        · left
          have hbq : (pivot t (m + 1) == 0) = false := by simpa using hz
          simp only [hbq, Bool.false_eq_true, if_false,
            aget_getD (by omega : m + 1 < r.size), aget_getD (by omega : m < u.size),
            AlgF.divM_ne hz, Mat.aset_ok _ (by omega : m + 1 < u.size), pure, Except.pure]
          refine ⟨_, rfl, ?_⟩
          refine ⟨by simpa using hgs, by simpa using hus', rfl, ?_, ?_, ?_⟩
          · intro j hj
            by_cases hjm : j = m + 1
            · subst hjm; exact hz
            · exact hpiv j (by omega)
          · intro j hj
            simp only
            rw [getD_setIfInBounds _ _ _ _ (by omega)]
            by_cases hjm : j = m + 1
            · subst hjm; simp [mult_succ_field]
            · simp only [hjm, if_false]; exact hgam j (by omega)
          · intro j hj
            simp only
            rw [getD_setIfInBounds _ _ _ _ (by omega)]
            by_cases hjm : j = m + 1
            · subst hjm
              simp only [if_true]
              rw [hfw m (by omega), fwd_succ_field]
            · simp only [hjm, if_false]; exact hfw j (by omega))
      with ⟨s, hs, hP⟩ | ⟨e, he, rfl, hE⟩
    · -- forward sweep succeeded: back substitution
      left
      refine ⟨hP.piv, ?_⟩
      have hs' := hs
      simp only [bind, Except.bind, pure, Except.pure] at hs' ⊢
      rw [hs']
      simp only [hus]
      obtain ⟨u, hu, hQ⟩ := foldlM_range_reverse_inv (BackInv t r)
        (fun u j => do
          let g ← aget s.gamma (j + 1)
          let uj1 ← aget u (j + 1)
          let uj ← aget u j
          aset u j (uj - g * uj1))
        (t.n - 1) s.u
        ⟨hP.usize, fun j hj => hP.fw j (by omega), hP.fw _ (by omega), fun j h1 h2 => by omega⟩
        (by
          intro j u hj ⟨hsz, hlow, hlast, hrel⟩
          rw [aget_getD (by rw [hP.gsize]; omega : j + 1 < s.gamma.size),
            aget_getD (by omega : j + 1 < u.size), aget_getD (by omega : j < u.size)]
          simp only [bind, Except.bind]
          rw [Mat.aset_ok _ (by omega : j < u.size)]
          refine ⟨_, rfl, ?_⟩
          refine ⟨by simpa using hsz, ?_, ?_, ?_⟩
          · intro i hi
            rw [getD_setIfInBounds _ _ _ _ (by omega)]
            have : ¬ i = j := by omega
            simp only [this, if_false]; exact hlow i (by omega)
          · rw [getD_setIfInBounds _ _ _ _ (by omega)]
            have : ¬ t.n - 1 = j := by omega
            simp only [this, if_false]; exact hlast
          · intro i hi1 hi2
            rw [getD_setIfInBounds _ _ _ _ (by omega), getD_setIfInBounds _ _ _ _ (by omega)]
            have e1 : ¬ i + 1 = j := by omega
            simp only [e1, if_false]
            by_cases hij : i = j
            · subst hij
              simp only [if_true]
              rw [hlow i (by omega), hP.gam (i + 1) (by omega)]
            · simp only [hij, if_false]
              exact hrel i (by omega) hi2)
      have hu' := hu
      simp only [bind, Except.bind, pure, Except.pure] at hu' ⊢
      refine ⟨u, hu', hQ.usize, ?_⟩
      intro i hi
      rw [dense_eq_triEntry, triEntry_row_sum _ _ _ (fun j => u[j]?.getD 0) t.n i hi]
      exact thomas_row _ _ _ (fun k => r[k]?.getD 0) (fun j => u[j]?.getD 0) t.n hP.piv hQ.last
        (fun j hj => hQ.rel j (Nat.zero_le _) hj) i hi
    · right
      refine ⟨hE, ?_⟩
      have he' := he
      simp only [bind, Except.bind, pure, Except.pure] at he' ⊢
      rw [he']

/-- (E) over an exact field `/` fails only on an exact zero divisor -/
theorem divM_ok_of_beq_false_field (a b : K) (hb : (b == 0) = false) : ∃ q, divM a b = .ok q := by
  have : b ≠ 0 := by simpa using hb
  exact ⟨a / b, AlgF.divM_ne this⟩

/-- (E) **soundness of `solve`**: whenever the call returns a vector `u`, it has length n and
    `dense t · u = r` holds exactly (row by row). -/
theorem solve_sound_field (t : Tri K) (h : WF t) (r u : Array K) (hu : solve t r = .ok u) :
    u.size = t.n ∧ ∀ i, i < t.n → ∑ j ∈ range t.n, dense t i j * u[j]?.getD 0 = r[i]?.getD 0 := by
  by_cases hr : t.n = r.size
  · rcases solve_char_field t h r hr with ⟨_, u', hu', hs, hrow⟩ | ⟨_, hz⟩
    · rw [hu] at hu'
      cases hu'
      exact ⟨hs, hrow⟩
    · rw [hu] at hz; cases hz
  · rw [solve_rejects_size t r hr] at hu; cases hu

/-- (E) **`solve` refuses rather than lies**: for a right-hand side of the right length it returns
    `zeroPivot` exactly when `main[0] = 0` or a later pivot `βⱼ` vanishes, and in that case it
    never returns a value. -/
theorem solve_refuses_field (t : Tri K) (h : WF t) (r : Array K) (hr : t.n = r.size) :
    (solve t r = .error .zeroPivot ↔ ∃ j, j < t.n ∧ pivot t j = 0) ∧
    ((∃ j, j < t.n ∧ pivot t j = 0) → ∀ u, solve t r ≠ .ok u) := by
  rcases solve_char_field t h r hr with ⟨hp, u, hu, _⟩ | ⟨hz, he⟩
  · refine ⟨⟨fun he => ?_, fun ⟨j, hj, hz⟩ => absurd hz (hp j hj)⟩,
      fun ⟨j, hj, hz⟩ => absurd hz (hp j hj)⟩
    rw [hu] at he; cases he
  · refine ⟨⟨fun _ => hz, fun _ => he⟩, fun _ u hu => ?_⟩
    rw [he] at hu; cases hu

/-- (E) `solve` returns a value exactly when the lengths agree and no pivot vanishes -/
theorem solve_ok_iff_field (t : Tri K) (h : WF t) (r : Array K) :
    (∃ u, solve t r = .ok u) ↔ t.n = r.size ∧ ∀ j, j < t.n → pivot t j ≠ 0 := by
  constructor
  · rintro ⟨u, hu⟩
    by_cases hr : t.n = r.size
    · rcases solve_char_field t h r hr with ⟨hp, _⟩ | ⟨_, he⟩
      · exact ⟨hr, hp⟩
      · rw [he] at hu; cases hu
    · rw [solve_rejects_size t r hr] at hu; cases hu
  · rintro ⟨hr, hp⟩
    rcases solve_char_field t h r hr with ⟨_, u, hu, _⟩ | ⟨⟨j, hj, hz⟩, _⟩
    · exact ⟨u, hu⟩
    · exact absurd hz (hp j hj)

/-- (E) no other panic class can arise from `solve` on a well-formed matrix -/
theorem solve_error_class_field (t : Tri K) (h : WF t) (r : Array K) (e : Err)
    (he : solve t r = .error e) : e = .zeroPivot ∨ e = .size :=
  solve_error_class_structural t h r divM_ok_of_beq_false_field e he

/-! ### `det` : three-term recurrence = determinant of the dense twin -/

theorem denseMatrix_apply_field (t : Tri K) (i j : Fin t.n) : denseMatrix t i j = dense t i.val j.val := rfl

/-- (E) `det` succeeds on every well-formed matrix and returns the determinant of the dense twin
    (Laplace expansion along the last row gives the three-term recurrence the code runs). -/
theorem det_spec_field (t : Tri K) (h : WF t) : Tri.det t = .ok (Matrix.det (denseMatrix t)) := by
  have hpos := h.pos
  have hm := h.main
  have hsb := h.sub
  have hsp := h.sup
  have hD : Matrix.det (denseMatrix t) = triDet (fun k => t.sub[k]?.getD 0)
      (fun k => t.main[k]?.getD 0) (fun k => t.sup[k]?.getD 0) t.n := by
    have e : denseMatrix t = triMatrix (fun k => t.sub[k]?.getD 0)
      (fun k => t.main[k]?.getD 0) (fun k => t.sup[k]?.getD 0) t.n := rfl
    rw [e]; exact triMatrix_det _ _ _ t.n
  rw [hD]
  unfold Tri.det
  rw [aget_getD (by omega : 0 < t.main.size)]
  have hlt : ¬ t.n + 1 < 2 := by omega
  simp only [bind, Except.bind, hlt, if_false]
  obtain ⟨s, hs, hP1, hP2⟩ := Mat.forM'_inv
    (fun j (s : K × K) =>
      s.1 = triDet (fun k => t.sub[k]?.getD 0) (fun k => t.main[k]?.getD 0)
        (fun k => t.sup[k]?.getD 0) (j - 2) ∧
      s.2 = triDet (fun k => t.sub[k]?.getD 0) (fun k => t.main[k]?.getD 0)
        (fun k => t.sup[k]?.getD 0) (j - 1))
    2 (t.n + 1) ((1 : K), t.main[0]?.getD 0 * 1)
    (fun (fjm2, fjm1) j => do
      let mj ← aget t.main (j - 1)
      let sb ← aget t.sub (j - 2)
      let sp ← aget t.sup (j - 2)
      pure (fjm1, mj * fjm1 - sb * sp * fjm2))
    (by omega)
    ⟨rfl, by simp [triDet]⟩
    (by
      rintro j ⟨p, q⟩ hj1 hj2 ⟨hp, hq⟩
      obtain ⟨m, rfl⟩ : ∃ m, j = m + 2 := ⟨j - 2, by omega⟩
      simp only [Nat.add_sub_cancel] at hp hq ⊢
      have e1 : m + 2 - 1 = m + 1 := by omega
      have e2 : m + 2 + 1 - 2 = m + 1 := by omega
      have e3 : m + 2 + 1 - 1 = m + 2 := by omega
      rw [e1] at hq
      simp only [e1, e2, e3]
      subst hp hq
      simp only [aget_getD (by omega : m + 1 < t.main.size),
        aget_getD (by omega : m < t.sub.size), aget_getD (by omega : m < t.sup.size),
        bind, Except.bind, pure, Except.pure]
      exact ⟨_, rfl, rfl, rfl⟩)
  have hs' := hs
  simp only [bind, Except.bind, pure, Except.pure] at hs' ⊢
  rw [hs']
  simp only [Nat.add_sub_cancel] at hP2
  simp only [hP2]

/-- (E) **`det` is the determinant of the dense twin** -/
theorem det_correct_field (t : Tri K) (h : WF t) (d : K) (hd : Tri.det t = .ok d) :
    d = Matrix.det (denseMatrix t) := by
  rw [det_spec_field t h] at hd
  cases hd; rfl


/-! ### arithmetic and conversion: the absent entries are exact zeros (C05A, any field) -/

/-- (E) `dense (T₁ + T₂) = dense T₁ + dense T₂` for ALL (i, j) -/
theorem add_field (a b : Tri K) (ha : WF a) (hb : WF b) (hn : a.n = b.n) :
    ∃ c, Tri.add a b = .ok c ∧ WF c ∧ c.n = a.n ∧
      ∀ i j, dense c i j = dense a i j + dense b i j :=
  ⟨_, add_eq a b ha hb hn, zip3_wf _ a b ha hb hn, rfl,
    zip3_dense_all (· + ·) (add_zero 0) a b ha hb hn⟩

theorem sub_field (a b : Tri K) (ha : WF a) (hb : WF b) (hn : a.n = b.n) :
    ∃ c, Tri.sub' a b = .ok c ∧ WF c ∧ c.n = a.n ∧
      ∀ i j, dense c i j = dense a i j - dense b i j :=
  ⟨_, sub_eq a b ha hb hn, zip3_wf _ a b ha hb hn, rfl,
    zip3_dense_all (· - ·) (sub_zero 0) a b ha hb hn⟩

theorem neg_field (t : Tri K) (i j : Nat) : dense (Tri.neg t) i j = - dense t i j :=
  map3_dense_all (fun x => -x) neg_zero t i j

theorem smul_field (t : Tri K) (s : K) (i j : Nat) : dense (Tri.smul t s) i j = dense t i j * s :=
  map3_dense_all (· * s) (zero_mul s) t i j

theorem lsmul_field (s : K) (t : Tri K) (i j : Nat) : dense (Tri.lsmul s t) i j = s * dense t i j :=
  map3_dense_all (s * ·) (mul_zero s) t i j

/-- (E) division by a non-zero scalar divides the whole dense twin -/
theorem sdiv_field (t : Tri K) (h : WF t) (s : K) (hs : s ≠ 0) :
    ∃ c, Tri.sdiv t s = .ok c ∧ WF c ∧ c.n = t.n ∧ ∀ i j, dense c i j = dense t i j / s :=
  ⟨_, sdiv_eq t h s (· / s) (fun _ _ _ _ _ => AlgF.divM_ne hs), map3_wf _ t h, rfl,
    map3_dense_all (· / s) (zero_div s) t⟩

/-- (E) division by an exact zero is rejected (class `arith`) for every n ≥ 1 -/
theorem sdiv_zero_field (t : Tri K) (h : WF t) : Tri.sdiv t 0 = .error .arith :=
  sdiv_guard t h 0 .arith (fun x => AlgF.divM_zero x)

/-- (E) the four ring operations commute with the dense conversion -/
theorem add_convert_field (a b : Tri K) (ha : WF a) (hb : WF b) (hn : a.n = b.n) :
    ∃ c ma mb mc, Tri.add a b = .ok c ∧ Tri.convert a = .ok ma ∧ Tri.convert b = .ok mb ∧
      Tri.convert c = .ok mc ∧ Mat.add ma mb = .ok mc :=
  add_convert (add_zero 0) a b ha hb hn

theorem sub_convert_field (a b : Tri K) (ha : WF a) (hb : WF b) (hn : a.n = b.n) :
    ∃ c ma mb mc, Tri.sub' a b = .ok c ∧ Tri.convert a = .ok ma ∧ Tri.convert b = .ok mb ∧
      Tri.convert c = .ok mc ∧ Mat.sub ma mb = .ok mc :=
  sub_convert (sub_zero 0) a b ha hb hn

theorem neg_convert_field (t : Tri K) (h : WF t) :
    ∃ m mc, Tri.convert t = .ok m ∧ Tri.convert (Tri.neg t) = .ok mc ∧ Mat.neg m = .ok mc :=
  neg_convert neg_zero t h

theorem smul_convert_field (t : Tri K) (h : WF t) (s : K) :
    ∃ m mc, Tri.convert t = .ok m ∧ Tri.convert (Tri.smul t s) = .ok mc ∧
      Mat.smul m s = .ok mc :=
  smul_convert t h s (zero_mul s)

theorem sdiv_convert_field (t : Tri K) (h : WF t) (s : K) (hs : s ≠ 0) :
    ∃ c m mc, Tri.sdiv t s = .ok c ∧ Tri.convert t = .ok m ∧ Tri.convert c = .ok mc ∧
      Mat.sdiv m s = .ok mc :=
  sdiv_convert t h s (· / s) (fun _ => AlgF.divM_ne hs) (zero_div s)


end Field

/-! ### instance: Mathlib's complex numbers -/

/-- the exact interpretation of the scalar interface at `ℂ`: `/` panics on an exact zero divisor
    and is field division otherwise (`Alg.scalarExtField ℂ`; `lt`, `mag` are never used by the
    tridiagonal model) -/
@[reducible] noncomputable def complexScalarExt : ScalarExt ℂ := Alg.scalarExtField ℂ

section Complex
attribute [local instance] complexScalarExt
open Finset

theorem complex_divM (a b : ℂ) : divM a b = if b = 0 then .error .arith else .ok (a / b) := rfl

/-- (E, ℂ) `&T * &v` is the dense twin times the vector -/
theorem mulVec_spec_complex (t : Tri ℂ) (h : WF t) (v : Array ℂ) (hv : v.size = t.n) :
    ∃ w, mulVec t v = .ok w ∧ w.size = t.n ∧
      ∀ i, i < t.n → w[i]? = some (∑ j ∈ range t.n, dense t i j * v[j]?.getD 0) :=
  mulVec_spec_field t h v hv

/-- (E, ℂ) complete description of `solve` over the complex numbers -/
theorem solve_char_complex (t : Tri ℂ) (h : WF t) (r : Array ℂ) (hr : t.n = r.size) :
    ((∀ j, j < t.n → pivot t j ≠ 0) ∧ ∃ u, solve t r = .ok u ∧ u.size = t.n ∧
        ∀ i, i < t.n → ∑ j ∈ range t.n, dense t i j * u[j]?.getD 0 = r[i]?.getD 0) ∨
    ((∃ j, j < t.n ∧ pivot t j = 0) ∧ solve t r = .error .zeroPivot) :=
  solve_char_field t h r hr

/-- (E, ℂ) **soundness of `solve` over ℂ**: a returned vector solves `dense t · u = r` exactly -/
theorem solve_sound_complex (t : Tri ℂ) (h : WF t) (r u : Array ℂ) (hu : solve t r = .ok u) :
    u.size = t.n ∧ ∀ i, i < t.n → ∑ j ∈ range t.n, dense t i j * u[j]?.getD 0 = r[i]?.getD 0 :=
  solve_sound_field t h r u hu

/-- (E, ℂ) **`solve` refuses rather than lies over ℂ** -/
theorem solve_refuses_complex (t : Tri ℂ) (h : WF t) (r : Array ℂ) (hr : t.n = r.size) :
    (solve t r = .error .zeroPivot ↔ ∃ j, j < t.n ∧ pivot t j = 0) ∧
    ((∃ j, j < t.n ∧ pivot t j = 0) → ∀ u, solve t r ≠ .ok u) :=
  solve_refuses_field t h r hr

theorem solve_ok_iff_complex (t : Tri ℂ) (h : WF t) (r : Array ℂ) :
    (∃ u, solve t r = .ok u) ↔ t.n = r.size ∧ ∀ j, j < t.n → pivot t j ≠ 0 :=
  solve_ok_iff_field t h r

theorem solve_error_class_complex (t : Tri ℂ) (h : WF t) (r : Array ℂ) (e : Err)
    (he : solve t r = .error e) : e = .zeroPivot ∨ e = .size :=
  solve_error_class_field t h r e he

/-- (E, ℂ) `det` is Mathlib's determinant of the dense twin -/
theorem det_spec_complex (t : Tri ℂ) (h : WF t) : Tri.det t = .ok (Matrix.det (denseMatrix t)) :=
  det_spec_field t h

theorem det_correct_complex (t : Tri ℂ) (h : WF t) (d : ℂ) (hd : Tri.det t = .ok d) :
    d = Matrix.det (denseMatrix t) :=
  det_correct_field t h d hd

/-! #### non-vacuity over ℂ -/

/-- [[i,1,0],[1,2,1],[0,1,1]] : the leading pivot `i` is not real -/
noncomputable def T3c : Tri ℂ := ⟨#[1, 1], #[Complex.I, 2, 1], #[1, 1], 3⟩
/-- [[i,1,0],[1,-i,1],[0,1,1]] : the second pivot `-i - 1/i` vanishes -/
noncomputable def Z3c : Tri ℂ := ⟨#[1, 1], #[Complex.I, -Complex.I, 1], #[1, 1], 3⟩

theorem T3c_wf : WF T3c := ⟨by decide, rfl, rfl, rfl⟩
theorem Z3c_wf : WF Z3c := ⟨by decide, rfl, rfl, rfl⟩

theorem T3c_pivots : ∀ j, j < T3c.n → pivot T3c j ≠ 0 := by
  intro j hj
  have hj' : j < 3 := hj
  have h0 : pivot T3c 0 = Complex.I := by simp [pivot, thBeta, T3c]
  have h1 : pivot T3c 1 = 2 + Complex.I := by
    rw [pivot_succ_field, h0]; simp [T3c]
  have h2 : pivot T3c 2 = 1 - 1 / (2 + Complex.I) := by
    rw [pivot_succ_field, h1]; simp [T3c]
  have hne : (2 : ℂ) + Complex.I ≠ 0 := by
    intro h; have := congrArg Complex.re h; simp at this
  obtain rfl | rfl | rfl : j = 0 ∨ j = 1 ∨ j = 2 := by omega
  · rw [h0]; exact Complex.I_ne_zero
  · rw [h1]; exact hne
  · rw [h2]
    intro h
    have h' : (2 : ℂ) + Complex.I = 1 := by
      field_simp at h
      linear_combination h
    have := congrArg Complex.im h'
    simp at this

/-- the hypotheses of `solve_sound_complex` are satisfiable with a non-real pivot -/
example : ∃ u, solve T3c #[1, Complex.I, 3] = .ok u :=
  (solve_ok_iff_complex T3c T3c_wf #[1, Complex.I, 3]).mpr ⟨rfl, T3c_pivots⟩

/-- a planted zero pivot at step 1 (the leading pivot `i` is non-zero) is refused -/
example : solve Z3c #[1, 2, 3] = .error .zeroPivot :=
  ((solve_refuses_complex Z3c Z3c_wf #[1, 2, 3] rfl).1).mpr ⟨1, by decide, by
    rw [pivot_succ_field, pivot_zero_field]; simp [Z3c]⟩

example : Tri.det T3c = .ok (Complex.I - 1) := by
  rw [det_spec_complex T3c T3c_wf]
  congr 1
  have e : denseMatrix T3c = triMatrix (fun k => T3c.sub[k]?.getD 0)
      (fun k => T3c.main[k]?.getD 0) (fun k => T3c.sup[k]?.getD 0) T3c.n := rfl
  rw [e, triMatrix_det]
  show triDet _ _ _ 3 = _
  simp [triDet, T3c]; ring

end Complex

/-! ### the model's own complex type `Cx ℝ`

  What the driver executes for the element tag `c` is the tridiagonal model over `Cx K` with the
  model's complex operations (`Cx.add`, `Cx.mul`, …, `==` componentwise) and the model's complex
  division `Cx.div` (`Cx.instScalarExt`), which divides the two components by `c² + d²` with the
  division of `K`.  At `K = ℝ` (exact reals) this run is mapped by `toC : Cx ℝ → ℂ` onto the run
  over Mathlib's `ℂ`, errors included, so the theorems of section `Complex` describe it. -/
section ModelCx
attribute [local instance] complexScalarExt
open Finset Ohsl.RealI Ohsl.Sim Ohsl.Props.C14 Ohsl.Props.C13

/-- `toC` commutes with every scalar operation the tridiagonal model uses: `+ - * 0 1`, the test
    `== 0`, and the fallible division (`Cx.div` on the left, guarded field division on the right) -/
theorem toC_scalarHom : ScalarHom (toC : Cx ℝ → ℂ) where
  add := toC_add
  sub := toC_sub
  mul := toC_mul
  zero := toC_zero
  one := toC_one
  beq0 a := by
    rw [Bool.eq_iff_iff, beq_iff_eq, toC_beq a 0, toC_zero]
  div a b := by
    show divM (toC a) (toC b) = Except.map toC (Cx.div a b)
    rcases toC_div_total a b with ⟨hb, he⟩ | ⟨hb, q, hq, e⟩
    · rw [he, complex_divM, if_pos hb]; rfl
    · rw [hq, complex_divM, if_neg hb, ← e]; rfl

/-- **simulation of `solve`**: the run of the Thomas algorithm over the model's complex numbers
    `Cx ℝ` is mapped by `toC` onto the run over `ℂ` on the mapped data — same returned vector
    (entry by entry under `toC`), same panic class. No hypothesis on `t`, `r`. -/
theorem solve_toC (t : Tri (Cx ℝ)) (r : Array (Cx ℝ)) :
    solve (mapTri toC t) (r.map toC) = Except.map (Array.map toC) (solve t r) :=
  solve_map toC_scalarHom t r

theorem solve_toC_ok (t : Tri (Cx ℝ)) (r x : Array (Cx ℝ)) (h : solve t r = .ok x) :
    solve (mapTri toC t) (r.map toC) = .ok (x.map toC) := by
  rw [solve_toC, h]; rfl

theorem solve_toC_error (t : Tri (Cx ℝ)) (r : Array (Cx ℝ)) (e : Err) :
    solve t r = .error e ↔ solve (mapTri toC t) (r.map toC) = .error e := by
  rw [solve_toC]
  cases solve t r with
  | error e' => simp [Except.map]
  | ok x => simp [Except.map]

/-- conversely, a value returned over `ℂ` is the image of the value returned over `Cx ℝ` -/
theorem solve_toC_ok_iff (t : Tri (Cx ℝ)) (r : Array (Cx ℝ)) :
    (∃ x, solve t r = .ok x) ↔ ∃ y, solve (mapTri toC t) (r.map toC) = .ok y := by
  rw [solve_toC]
  cases solve t r with
  | error e' => simp [Except.map]
  | ok x => simp [Except.map]

/-- **simulation of `det`** -/
theorem det_toC (t : Tri (Cx ℝ)) : Tri.det (mapTri toC t) = Except.map toC (Tri.det t) :=
  det_map toC_scalarHom t

/-- **simulation of `&T * &v`** -/
theorem mulVec_toC (t : Tri (Cx ℝ)) (v : Array (Cx ℝ)) :
    mulVec (mapTri toC t) (v.map toC) = Except.map (Array.map toC) (mulVec t v) :=
  mulVec_map toC_scalarHom t v

theorem mapTri_wf (t : Tri (Cx ℝ)) (h : WF t) : WF (mapTri toC t) :=
  ⟨h.pos, by simp [mapTri, h.main], by simp [mapTri, h.sub], by simp [mapTri, h.sup]⟩

theorem getD_map_toC (a : Array (Cx ℝ)) (k : Nat) : (a.map toC)[k]?.getD 0 = toC (a[k]?.getD 0) := by
  by_cases h : k < a.size
  · simp [h]
  · have : a.size ≤ k := by omega
    simp [this, toC_zero]

/-- the dense twin of the mapped matrix is the mapped dense twin -/
theorem dense_mapTri (t : Tri (Cx ℝ)) (i j : Nat) : dense (mapTri toC t) i j = toC (dense t i j) := by
  unfold dense
  have hm : (mapTri toC t).main = t.main.map toC := rfl
  have hsb : (mapTri toC t).sub = t.sub.map toC := rfl
  have hsp : (mapTri toC t).sup = t.sup.map toC := rfl
  rw [hm, hsb, hsp]
  simp only [getD_map_toC]
  split_ifs <;> rfl

/-- the pivots of the run over `Cx ℝ`, read in `ℂ` -/
noncomputable def pivotC (t : Tri (Cx ℝ)) (j : Nat) : ℂ := pivot (mapTri toC t) j

theorem pivotC_zero (t : Tri (Cx ℝ)) : pivotC t 0 = toC (t.main[0]?.getD 0) := by
  unfold pivotC
  rw [pivot_zero_field]
  exact getD_map_toC _ _

theorem pivotC_succ (t : Tri (Cx ℝ)) (j : Nat) :
    pivotC t (j + 1) = toC (t.main[j + 1]?.getD 0)
      - toC (t.sub[j]?.getD 0) * (toC (t.sup[j]?.getD 0) / pivotC t j) := by
  unfold pivotC
  rw [pivot_succ_field]
  have hm : (mapTri toC t).main = t.main.map toC := rfl
  have hsb : (mapTri toC t).sub = t.sub.map toC := rfl
  have hsp : (mapTri toC t).sup = t.sup.map toC := rfl
  rw [hm, hsb, hsp]
  simp only [getD_map_toC]

/-- (E, `Cx ℝ`) **soundness of `solve` as the driver runs it for complex entries**: whenever the
    call over the model's complex numbers returns `u`, it has length n and `dense t · u = r`
    holds exactly in `ℂ`, row by row. -/
theorem solve_sound_cx (t : Tri (Cx ℝ)) (h : WF t) (r u : Array (Cx ℝ)) (hu : solve t r = .ok u) :
    u.size = t.n ∧ ∀ i, i < t.n →
      ∑ j ∈ range t.n, toC (dense t i j) * toC (u[j]?.getD 0) = toC (r[i]?.getD 0) := by
  obtain ⟨hs, hrow⟩ := solve_sound_complex _ (mapTri_wf t h) _ _ (solve_toC_ok t r u hu)
  refine ⟨by simpa using hs, fun i hi => ?_⟩
  have := hrow i hi
  simp only [getD_map_toC, dense_mapTri] at this
  exact this

/-- (E, `Cx ℝ`) **`solve` refuses rather than lies** over the model's complex numbers: for a
    right-hand side of the right length, `zeroPivot` is returned exactly when a pivot vanishes,
    and then no value is returned. -/
theorem solve_refuses_cx (t : Tri (Cx ℝ)) (h : WF t) (r : Array (Cx ℝ)) (hr : t.n = r.size) :
    (solve t r = .error .zeroPivot ↔ ∃ j, j < t.n ∧ pivotC t j = 0) ∧
    ((∃ j, j < t.n ∧ pivotC t j = 0) → ∀ u, solve t r ≠ .ok u) := by
  obtain ⟨h1, h2⟩ := solve_refuses_complex _ (mapTri_wf t h) (r.map toC) (by simpa using hr)
  refine ⟨(solve_toC_error t r _).trans h1, fun hz u hu => ?_⟩
  exact h2 hz _ (solve_toC_ok t r u hu)

/-- (E, `Cx ℝ`) a value is returned exactly when the lengths agree and no pivot vanishes -/
theorem solve_ok_iff_cx (t : Tri (Cx ℝ)) (h : WF t) (r : Array (Cx ℝ)) :
    (∃ u, solve t r = .ok u) ↔ t.n = r.size ∧ ∀ j, j < t.n → pivotC t j ≠ 0 := by
  rw [solve_toC_ok_iff, solve_ok_iff_complex _ (mapTri_wf t h)]
  simp [mapTri, pivotC]

/-- (E, `Cx ℝ`) the only panic classes are the two explicit refusals -/
theorem solve_error_class_cx (t : Tri (Cx ℝ)) (h : WF t) (r : Array (Cx ℝ)) (e : Err)
    (he : solve t r = .error e) : e = .zeroPivot ∨ e = .size :=
  solve_error_class_complex _ (mapTri_wf t h) _ e ((solve_toC_error t r e).mp he)

/-- (E, `Cx ℝ`) `det` succeeds and is the determinant (in `ℂ`) of the dense twin -/
theorem det_spec_cx (t : Tri (Cx ℝ)) (h : WF t) :
    ∃ d, Tri.det t = .ok d ∧ toC d = Matrix.det (denseMatrix (mapTri toC t)) := by
  have h1 := det_spec_complex _ (mapTri_wf t h)
  rw [det_toC] at h1
  cases hd : Tri.det t with
  | error e => rw [hd] at h1; cases h1
  | ok d =>
    rw [hd] at h1
    refine ⟨d, rfl, ?_⟩
    simpa [Except.map] using h1

/-- (E, `Cx ℝ`) `&T * &v` succeeds and is the dense twin times the vector (in `ℂ`) -/
theorem mulVec_spec_cx (t : Tri (Cx ℝ)) (h : WF t) (v : Array (Cx ℝ)) (hv : v.size = t.n) :
    ∃ w, mulVec t v = .ok w ∧ w.size = t.n ∧ ∀ i, i < t.n →
      toC (w[i]?.getD 0) = ∑ j ∈ range t.n, toC (dense t i j) * toC (v[j]?.getD 0) := by
  obtain ⟨w', hw', hs', hr'⟩ := mulVec_spec_complex _ (mapTri_wf t h) (v.map toC) (by simpa using hv)
  rw [mulVec_toC] at hw'
  cases hw : mulVec t v with
  | error e => rw [hw] at hw'; cases hw'
  | ok w =>
    rw [hw] at hw'
    have e : w' = w.map toC := by simpa [Except.map] using hw'.symm
    subst e
    refine ⟨w, rfl, by simpa using hs', fun i hi => ?_⟩
    have := hr' i hi
    simp only [getD_map_toC, dense_mapTri] at this
    rw [← getD_map_toC, this]; rfl

/-! #### non-vacuity over `Cx ℝ` -/

/-- [[i,1,0],[1,2,1],[0,1,1]] in the model's complex numbers -/
noncomputable def T3x : Tri (Cx ℝ) :=
  ⟨#[⟨1, 0⟩, ⟨1, 0⟩], #[⟨0, 1⟩, ⟨2, 0⟩, ⟨1, 0⟩], #[⟨1, 0⟩, ⟨1, 0⟩], 3⟩
/-- [[i,1,0],[1,-i,1],[0,1,1]] in the model's complex numbers -/
noncomputable def Z3x : Tri (Cx ℝ) :=
  ⟨#[⟨1, 0⟩, ⟨1, 0⟩], #[⟨0, 1⟩, ⟨0, -1⟩, ⟨1, 0⟩], #[⟨1, 0⟩, ⟨1, 0⟩], 3⟩

theorem T3x_wf : WF T3x := ⟨by decide, rfl, rfl, rfl⟩
theorem Z3x_wf : WF Z3x := ⟨by decide, rfl, rfl, rfl⟩

theorem T3x_toC : mapTri toC T3x = T3c := by
  have e1 : toC ⟨1, 0⟩ = 1 := by apply Complex.ext <;> simp [toC]
  have e2 : toC ⟨0, 1⟩ = Complex.I := by apply Complex.ext <;> simp [toC]
  have e3 : toC ⟨2, 0⟩ = 2 := by apply Complex.ext <;> simp [toC]
  simp [mapTri, T3x, T3c, e1, e2, e3]

theorem Z3x_toC : mapTri toC Z3x = Z3c := by
  have e1 : toC ⟨1, 0⟩ = 1 := by apply Complex.ext <;> simp [toC]
  have e2 : toC ⟨0, 1⟩ = Complex.I := by apply Complex.ext <;> simp [toC]
  have e3 : toC ⟨0, -1⟩ = -Complex.I := by apply Complex.ext <;> simp [toC]
  simp [mapTri, Z3x, Z3c, e1, e2, e3]

/-- the run over the model's complex numbers returns a value on a system with a non-real pivot
    (so the hypothesis of `solve_sound_cx` is satisfiable) -/
example : ∃ u, solve T3x #[⟨1, 0⟩, ⟨0, 1⟩, ⟨3, 0⟩] = .ok u :=
  (solve_ok_iff_cx T3x T3x_wf _).mpr ⟨rfl, by
    intro j hj
    unfold pivotC
    rw [T3x_toC]
    exact T3c_pivots j hj⟩

/-- … and refuses the planted zero pivot -/
example : solve Z3x #[⟨1, 0⟩, ⟨2, 0⟩, ⟨3, 0⟩] = .error .zeroPivot :=
  ((solve_refuses_cx Z3x Z3x_wf _ rfl).1).mpr ⟨1, by decide, by
    unfold pivotC
    rw [Z3x_toC, pivot_succ_field, pivot_zero_field]; simp [Z3c]⟩

end ModelCx

end Ohsl.Props.C05

