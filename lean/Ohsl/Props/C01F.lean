/-
  Property C01 (part F) — backward error analysis of the dense LU solver in the "rounded reals"
  interpretation `Fl M` of the model (Ohsl/Lemmas/Rounding.lean): the SAME model definitions
  `Mat.luDecomp`, `Mat.forwardSub`, `Mat.backsolve`, `Mat.solveLU` instantiated at real numbers whose
  `+ - * /` round with relative error `≤ u` (standard model of floating-point arithmetic, no overflow
  / underflow).  Clause "backward error of the order of machine epsilon over floats" of C01.  These
  are the classical theorems (Higham, *Accuracy and Stability of Numerical Algorithms*, Thm 8.5, 9.3,
  9.4) proved for the recurrences the code executes, in its order of evaluation, WITH the partial
  pivoting (row exchanges) and the skipped zero columns of `lu_decomp_in_place`.
  Helper file: Ohsl/Lemmas/LURounding.lean.

  The transfer to the Rust `f64` code rests on the ASSUMPTION stated in Rounding.lean (IEEE binary64
  without overflow/underflow satisfies `FlModel` with `u = 2⁻⁵³`); it is not proved here.

  THE CONSTANTS.  A backward error statement `(T + ΔT) x̂ = b` with an UNPERTURBED right-hand side
  needs quotients of rounding factors `(1+δ)`: already for `n = 1`, `x̂ = fl(b/t) = (b/t)(1+δ)` gives
  `ΔT = t·(1/(1+δ) − 1)`, and `|1/(1+δ) − 1|` can be `u/(1−u) > u = gam 1`.  So `M.gam k = (1+u)^k − 1`
  is NOT a valid constant here; the constants are
        `M.gq k = (1−u)^{−k} − 1`      (needs `u < 1`, the only smallness hypothesis),
  with `gam k ≤ gq k ≤ γ_k = k u / (1 − k u)` (`FlModel.gam_le_gq`, `FlModel.gq_le_gamma`; Higham's
  Lemma 3.1), `(1 + gq a)(1 + gq b) = 1 + gq (a+b)` (`FlModel.gq_add`) and `gq k = 0` in exact
  arithmetic.  `M.Th k t` (`(1−u)^k ≤ t ≤ (1−u)^{−k}`) says that `t` is a product of at most `k`
  factors `(1+δ)^{±1}`.

  Notation: `Is A n n a` = "`A` is a well-formed `n × n` matrix with entries `a i j`",
  `vf x j = x[j]?.getD 0`, `ent m i j` the canonical entry function.  For a returned state `s` of
  `luDecomp`: `Lhat s` (unit lower: the stored multipliers) and `Uhat n s` (upper) are the REAL
  values of the computed factors, `absLU n s = |L̂||Û|`, `permFn π` is the 0/1 matrix of the row
  permutation `π` (`(P A)_{rc} = a (π r) c`), `PermOK n π σ`: `π`, `σ` are mutually inverse
  bijections of `{0..n-1}`.

  Layer A — triangular solves (Higham, Thm 8.5)
  * `backsolve_backward`    `backsolve U b = .ok x̂` ⇒ pivots non-zero and `(U + ΔU) x̂ = b` EXACTLY
                            (upper triangle only), `|ΔU_ij| ≤ gq (n−i) |u_ij| ≤ gq n |u_ij|`; the
                            diagonal is perturbed, `b` is not.
  * `forwardSub_backward`   `forwardSub L c` never fails and `(L + ΔL) ŷ = c` EXACTLY (unit lower
                            triangle), `|ΔL_rk| ≤ gq r |l_rk| ≤ gq (n−1) |l_rk|` below the diagonal and the
                            unit diagonal is PERTURBED too: it becomes `1 + ΔL_rr`, `|ΔL_rr| ≤ gq r`
                            (there is no division; `c` is not perturbed).
  Layer B — factorisation (Higham, Thm 9.3)
  * `luDecomp_backward`     `luDecomp A = .ok s` ⇒ `s.perm` is the matrix of a permutation `π` and
                            `|L̂Û − PA| ≤ gq (n−1) · |L̂||Û|` componentwise; moreover
                            `|l̂_rc| ≤ 1 + u` (partial pivoting; NOT `≤ 1`: the multiplier is a ROUNDED
                            quotient of magnitudes `≤ 1`, and the standard model allows rounding it
                            upwards past 1 — `Fl.abs_div_le`).
  Layer C — the solver (Higham, Thm 9.4)
  * `solveLU_backward`      `solveLU A b = .ok x̂` ⇒ `(A + ΔA) x̂ = b` EXACTLY with
                            `|ΔA| ≤ (gq n + gq (3n)) · Pᵀ|L̂||Û|` componentwise.
      Why `3n` and not `2n`: `solve_lu` forms `P·b` with the generic matrix–vector product, i.e. with
      `fl(1·b_j)`, `fl(0·b_j)` and `n` rounded additions of zeros.  IEEE arithmetic commits no error
      there, but the abstract standard model (no `fl (fl x) = fl x`, no exactness of `1·x`, `x+0`)
      cannot know: `(P b)_r = b_{π r}·τ_r` with up to `n+1` rounding factors
      (`Mat.mulVec_perm_fl`), which are moved into `ΔL`.
  * `solveLU_backward_rep`  the same for a REPRESENTABLE right-hand side (`fl b_j = b_j`, as every
                            `f64` input is): then `P·b` is exact and the constant is
                            `gq n + gq (2n − 1)`  (`≤ γ_n + γ_{2n}`; Higham: `3γ_n + γ_n² ≈ γ_n + γ_{2n}`).
  * `solveLU_backward_normwise`   `‖ΔA‖_∞ ≤ (gq n + gq (3n)) · ‖ |L̂||Û| ‖_∞`
  * `absLU_rowNorm_le`, `solveLU_backward_normwise_U`:  `‖ |L̂||Û| ‖_∞ ≤ n (1+u) ‖Û‖_∞`, hence
                            `‖ΔA‖_∞ ≤ (gq n + gq (3n)) · n (1+u) · ‖Û‖_∞`  (the growth of `Û` is not
                            bounded here).
  * `solveLU_backward_gamma`      the classical constants: `|ΔA| ≤ (γ_n + γ_{3n}) Pᵀ|L̂||Û|` when `3 n u < 1`.
  Nothing is `_partial`.

  Examples (section `Examples`): exact arithmetic (`u = 0`): `ΔA = 0`, `A x = b` is recovered;
  binary64: `u = 2⁻⁵³ < 1`; a concrete `2 × 2` system with a row exchange evaluated in the exact
  model (`Ex.solveLU_A2_b2`); a `1 × 1` system in the model `fl x = (1+u) x`, where `x̂ = 3(1+u)³`
  (`Ex.solveLU_scale`) and `fl(x/x) = 1 + u`; and, in the model `fl x = (1−u) x`, a `1 × 1` back
  substitution whose unique backward error is `gq 1 |u₁₁| > gam 1 |u₁₁|`.
-/
import Ohsl.Props.C01S
import Ohsl.Lemmas.Rounding
import Ohsl.Lemmas.LURounding
import Mathlib.Algebra.BigOperators.Intervals
import Mathlib.Algebra.Order.BigOperators.Group.Finset
import Mathlib.Algebra.BigOperators.Ring.Finset
import Mathlib.Tactic.Ring
import Mathlib.Tactic.Linarith
import Mathlib.Tactic.Positivity
import Mathlib.Tactic.NormNum
set_option linter.unusedSectionVars false
set_option linter.unusedVariables false
namespace Ohsl.Props.C01
open Ohsl Ohsl.Mat

section Rounding
variable {M : FlModel}

/-- the computed unit lower factor (real values): stored multipliers below the diagonal, `1` on it -/
noncomputable def Lhat (s : LU (Fl M)) : Nat → Nat → ℝ := Lfn (valEnt s.lu)
/-- the computed upper factor (real values): the upper triangle of the in-place result -/
noncomputable def Uhat (n : Nat) (s : LU (Fl M)) : Nat → Nat → ℝ := Ufn n (valEnt s.lu)
/-- `(|L̂||Û|)_{rc}` -/
noncomputable def absLU (n : Nat) (s : LU (Fl M)) : Nat → Nat → ℝ := fun r c =>
  ∑ k ∈ Finset.range n, |Lhat s r k| * |Uhat n s k c|
/-- the 0/1 matrix of the row permutation `π`: row `r` of `P·A` is row `π r` of `A` -/
def permFn (π : Nat → Nat) : Nat → Nat → Fl M := fun r c => if c = π r then 1 else 0

theorem Lhat_apply (s : LU (Fl M)) (r k : Nat) :
    Lhat s r k = if k < r then (ent s.lu r k).val else if k = r then 1 else 0 := rfl
theorem Uhat_apply (n : Nat) (s : LU (Fl M)) {k c : Nat} (hc : c < n) :
    Uhat n s k c = if c < k then 0 else (ent s.lu k c).val := by
  simp [Uhat, Ufn, valEnt, hc]
theorem absLU_nonneg (n : Nat) (s : LU (Fl M)) (r c : Nat) : 0 ≤ absLU n s r c :=
  Finset.sum_nonneg (fun _ _ => mul_nonneg (abs_nonneg _) (abs_nonneg _))

/-! ### layer A: the triangular solves -/

/-- **Back substitution, backward error** (Higham, Thm 8.5, for the model's order of operations
`x_k ← x_k − u_kj x_j` (`j = k+1, …, n−1`), then `/ u_kk`): whenever `backsolve U b` returns `x̂` in
`Fl M`, all pivots are non-zero and `(U + ΔU) x̂ = b` holds EXACTLY, where only the upper triangle
of `U` enters and `|ΔU_ij| ≤ gq (n−i) |u_ij|` (`n−i−1` multiply–subtract steps and one division in
row `i`; uniformly `≤ gq n |u_ij|`).  The diagonal is perturbed, the right-hand side is not. -/
theorem backsolve_backward (hu : M.u < 1) {n : Nat} (hn : 1 ≤ n) {U : Mat (Fl M)}
    {uu : Nat → Nat → Fl M} (hU : Mat.Is U n n uu) {b x : Array (Fl M)} (hb : b.size = n)
    (h : Mat.backsolve U b = .ok x) :
    x.size = n ∧ (∀ i, i < n → (uu i i).val ≠ 0) ∧
    ∃ ΔU : Nat → Nat → ℝ,
      (∀ i j, i < n → j < n → |ΔU i j| ≤ M.gq (n - i) * |(uu i j).val|) ∧
      ∀ i, i < n →
        ∑ j ∈ Finset.Ico i n, ((uu i j).val + ΔU i j) * (vf x j).val = (vf b i).val := by
  obtain ⟨hsz, μ, hμ, hrows⟩ := backsolve_backward_ent hu hU.wfn hb hn h
  refine ⟨hsz, fun i hi => ?_, fun i j => (uu i j).val * (μ i j - 1), ?_, ?_⟩
  · rw [← hU.ent_eq hi hi]; exact (hrows i hi).1
  · intro i j hi hj
    rw [abs_mul, mul_comm]
    exact mul_le_mul_of_nonneg_right ((hμ i j hi).abs_sub_one_le hu) (abs_nonneg _)
  · intro i hi
    rw [← (hrows i hi).2, Usum (valEnt U) _ hi, Finset.sum_eq_sum_Ico_succ_bot hi]
    congr 1
    · simp only [valEnt, hU.ent_eq hi hi]; ring
    · apply Finset.sum_congr rfl
      intro j hj
      have hjn : j < n := (Finset.mem_Ico.mp hj).2
      simp only [valEnt, hU.ent_eq hi hjn]; ring

/-- the uniform constant `gq n` for `backsolve_backward` -/
theorem backsolve_backward_uniform (hu : M.u < 1) {n : Nat} (hn : 1 ≤ n) {U : Mat (Fl M)}
    {uu : Nat → Nat → Fl M} (hU : Mat.Is U n n uu) {b x : Array (Fl M)} (hb : b.size = n)
    (h : Mat.backsolve U b = .ok x) :
    ∃ ΔU : Nat → Nat → ℝ,
      (∀ i j, i < n → j < n → |ΔU i j| ≤ M.gq n * |(uu i j).val|) ∧
      ∀ i, i < n →
        ∑ j ∈ Finset.Ico i n, ((uu i j).val + ΔU i j) * (vf x j).val = (vf b i).val := by
  obtain ⟨_, _, ΔU, h1, h2⟩ := backsolve_backward hu hn hU hb h
  refine ⟨ΔU, fun i j hi hj => (h1 i j hi hj).trans ?_, h2⟩
  exact mul_le_mul_of_nonneg_right (FlModel.gq_mono hu (by omega)) (abs_nonneg _)

/-- **Forward substitution with the unit lower triangle, backward error** (the model's order
`x_r ← x_r − l_rk x_k`, `k = 0, …, r−1`; no division): `forwardSub L c` never fails on conformable
data and `(L + ΔL) ŷ = c` holds EXACTLY, where only the strictly lower triangle of `L` enters
(unit diagonal), `|ΔL_rk| ≤ gq r |l_rk|` for `k < r`, and the unit diagonal is PERTURBED as well: it
becomes `1 + ΔL_rr` with `|ΔL_rr| ≤ gq r` (`r ≤ n−1`).  The right-hand side is not perturbed. -/
theorem forwardSub_backward (hu : M.u < 1) {n : Nat} {L : Mat (Fl M)} {ll : Nat → Nat → Fl M}
    (hL : Mat.Is L n n ll) {c : Array (Fl M)} (hc : c.size = n) :
    ∃ y, Mat.forwardSub L c = .ok y ∧ y.size = n ∧
    ∃ ΔL : Nat → Nat → ℝ,
      (∀ r k, r < n → k < r → |ΔL r k| ≤ M.gq r * |(ll r k).val|) ∧
      (∀ r, r < n → |ΔL r r| ≤ M.gq r) ∧
      ∀ r, r < n →
        (1 + ΔL r r) * (vf y r).val
          + ∑ k ∈ Finset.range r, ((ll r k).val + ΔL r k) * (vf y k).val = (vf c r).val := by
  obtain ⟨y, hy, hsz, lam, hlam, hrows⟩ := forwardSub_backward_ent hu hL.wfn hc
  refine ⟨y, hy, hsz,
    fun r k => if k = r then lam r r - 1 else (ll r k).val * (lam r k - 1), ?_, ?_, ?_⟩
  · intro r k hr hk
    have : ¬ k = r := by omega
    simp only [this, if_false]
    rw [abs_mul, mul_comm]
    exact mul_le_mul_of_nonneg_right ((hlam r k).abs_sub_one_le hu) (abs_nonneg _)
  · intro r hr
    simp only [if_true]
    exact (hlam r r).abs_sub_one_le hu
  · intro r hr
    rw [← hrows r hr, Lsum (valEnt L) _ hr]
    simp only [if_true]
    congr 1
    · ring
    · apply Finset.sum_congr rfl
      intro k hk
      have hkr : k < r := Finset.mem_range.mp hk
      have : ¬ k = r := by omega
      simp only [this, if_false, valEnt, hL.ent_eq hr (show k < n by omega)]; ring

/-! ### layer B: the factorisation -/

/-- **LU factorisation with partial pivoting, backward error** (Higham, Thm 9.3, for the in-place
`kij` elimination of the model: multipliers `l̂_jk = fl(a_jk / a_kk)` stored in place, updates
`a_jc ← fl(a_jc − fl(l̂_jk a_kc))`, row exchanges applied to the stored multipliers as well, columns
whose candidates are all exact zeros skipped).  Whenever `luDecomp A` returns the state `s`:
`s.perm` is the 0/1 matrix of a permutation `π` of the rows, and the computed factors satisfy
`|(L̂Û)_{rc} − a_{π r, c}| ≤ gq (n−1) · (|L̂||Û|)_{rc}` for all `r, c < n`; every multiplier is at most
`1 + u` in magnitude (see the header for why not `1`). -/
theorem luDecomp_backward (hu : M.u < 1) {n : Nat} {A : Mat (Fl M)} {a : Nat → Nat → Fl M}
    (hA : Mat.Is A n n a) {s : LU (Fl M)} (h : Mat.luDecomp A = .ok s) :
    ∃ π σ : Nat → Nat, PermOK n π σ ∧ Mat.Is s.perm n n (permFn π) ∧ WFn s.lu n ∧
      (∀ r c, r < n → c < n →
        |∑ k ∈ Finset.range n, Lhat s r k * Uhat n s k c - (a (π r) c).val|
          ≤ M.gq (n - 1) * absLU n s r c) ∧
      (∀ r c, r < n → c < r → |Lhat s r c| ≤ 1 + M.u) := by
  obtain ⟨π, σ, hs⟩ := luDecomp_fl hu hA.wfn h
  refine ⟨π, σ, hs.permok, hs.perm, hs.lu, ?_, ?_⟩
  · intro r c hr hc
    have := hs.backward hu r c hr hc
    rw [hA.ent_eq (hs.permok.1 r hr).1 hc] at this
    exact this
  · intro r c hr hc
    rw [Lhat_apply, if_pos hc]
    exact hs.mult r c hr (by omega)

/-! ### layer C: the solver -/

/-- **`solve_lu`, backward error** (Higham, Thm 9.4).  Whenever `solveLU A b` returns `x̂` in `Fl M`
(`A` is `n × n`, `n ≥ 1`, `u < 1`): with `s` the state returned by `luDecomp A` and `π` its row
permutation, `(A + ΔA) x̂ = b` holds EXACTLY and
`|ΔA_{π r, c}| ≤ (gq n + gq (3n)) · (|L̂||Û|)_{rc}`, i.e. `|ΔA| ≤ (gq n + gq (3n)) · Pᵀ|L̂||Û|`.
(`gq n`: factorisation; `gq (3n) = (1+gq (2n))(1+gq n) − 1`: forward substitution including the
rounded product `P·b`, and back substitution.) -/
theorem solveLU_backward (hu : M.u < 1) {n : Nat} (hn : 1 ≤ n) {A : Mat (Fl M)}
    {a : Nat → Nat → Fl M} (hA : Mat.Is A n n a) {b x : Array (Fl M)} (hb : b.size = n)
    (h : Mat.solveLU A b = .ok x) :
    ∃ (s : LU (Fl M)) (π σ : Nat → Nat), Mat.luDecomp A = .ok s ∧ PermOK n π σ ∧
      Mat.Is s.perm n n (permFn π) ∧ x.size = n ∧
      ∃ ΔA : Nat → Nat → ℝ,
        (∀ i, i < n →
          ∑ j ∈ Finset.range n, ((a i j).val + ΔA i j) * (vf x j).val = (vf b i).val) ∧
        ∀ r c, r < n → c < n → |ΔA (π r) c| ≤ (M.gq n + M.gq (3 * n)) * absLU n s r c := by
  obtain ⟨s, π, σ, hd, hs, hxs, ΔA', hrow, hbd⟩ := solveLU_backward_core hu hn hA.wfn hb (n + 1)
    (fun p π hp hπ => mulVec_perm_fl hu hp hπ hb) h
  have e3 : 2 * n + (n + 1) - 1 = 3 * n := by omega
  rw [e3] at hbd
  refine ⟨s, π, σ, hd, hs.permok, hs.perm, hxs, fun i j => ΔA' (σ i) j, ?_, ?_⟩
  · intro i hi
    obtain ⟨hσ, hπσ⟩ := hs.permok.2 i hi
    have := hrow (σ i) hσ
    rw [hπσ] at this
    rw [← this]
    apply Finset.sum_congr rfl
    intro j hj
    rw [hA.ent_eq hi (Finset.mem_range.mp hj)]
  · intro r c hr hc
    show |ΔA' (σ (π r)) c| ≤ _
    rw [(hs.permok.1 r hr).2]
    exact hbd r c hr hc

/-- **`solve_lu`, backward error, representable right-hand side**: if every `b_j` is a
representable number (`fl b_j = b_j`; every `f64` input is), the product `P·b` is exact and the
constant improves to `gq n + gq (2n − 1)`. -/
theorem solveLU_backward_rep (hu : M.u < 1) {n : Nat} (hn : 1 ≤ n) {A : Mat (Fl M)}
    {a : Nat → Nat → Fl M} (hA : Mat.Is A n n a) {b x : Array (Fl M)} (hb : b.size = n)
    (hrep : ∀ j, j < n → M.Rep (vf b j).val) (h : Mat.solveLU A b = .ok x) :
    ∃ (s : LU (Fl M)) (π σ : Nat → Nat), Mat.luDecomp A = .ok s ∧ PermOK n π σ ∧
      Mat.Is s.perm n n (permFn π) ∧ x.size = n ∧
      ∃ ΔA : Nat → Nat → ℝ,
        (∀ i, i < n →
          ∑ j ∈ Finset.range n, ((a i j).val + ΔA i j) * (vf x j).val = (vf b i).val) ∧
        ∀ r c, r < n → c < n → |ΔA (π r) c| ≤ (M.gq n + M.gq (2 * n - 1)) * absLU n s r c := by
  obtain ⟨s, π, σ, hd, hs, hxs, ΔA', hrow, hbd⟩ := solveLU_backward_core hu hn hA.wfn hb 0
    (fun p π hp hπ => by
      obtain ⟨w, hw, hwn, hwv⟩ := mulVec_perm_rep hp hπ hb hrep
      exact ⟨w, hw, hwn, fun r hr => ⟨1, FlModel.Th.one, by rw [hwv r hr, mul_one]⟩⟩) h
  refine ⟨s, π, σ, hd, hs.permok, hs.perm, hxs, fun i j => ΔA' (σ i) j, ?_, ?_⟩
  · intro i hi
    obtain ⟨hσ, hπσ⟩ := hs.permok.2 i hi
    have := hrow (σ i) hσ
    rw [hπσ] at this
    rw [← this]
    apply Finset.sum_congr rfl
    intro j hj
    rw [hA.ent_eq hi (Finset.mem_range.mp hj)]
  · intro r c hr hc
    show |ΔA' (σ (π r)) c| ≤ _
    rw [(hs.permok.1 r hr).2]
    exact hbd r c hr hc

/-- **normwise form**: `‖ΔA‖_∞ ≤ (gq n + gq (3n)) · ‖ |L̂||Û| ‖_∞` (`rowNorm n F` is the largest
absolute row sum of the `n × n` array `F`; a row permutation does not change it). -/
theorem solveLU_backward_normwise (hu : M.u < 1) {n : Nat} (hn : 1 ≤ n) {A : Mat (Fl M)}
    {a : Nat → Nat → Fl M} (hA : Mat.Is A n n a) {b x : Array (Fl M)} (hb : b.size = n)
    (h : Mat.solveLU A b = .ok x) :
    ∃ (s : LU (Fl M)), Mat.luDecomp A = .ok s ∧
      ∃ ΔA : Nat → Nat → ℝ,
        (∀ i, i < n →
          ∑ j ∈ Finset.range n, ((a i j).val + ΔA i j) * (vf x j).val = (vf b i).val) ∧
        rowNorm n ΔA ≤ (M.gq n + M.gq (3 * n)) * rowNorm n (absLU n s) := by
  obtain ⟨s, π, σ, hd, hperm, _, _, ΔA, hsol, hbd⟩ := solveLU_backward hu hn hA hb h
  refine ⟨s, hd, ΔA, hsol, ?_⟩
  have hc0 : 0 ≤ M.gq n + M.gq (3 * n) :=
    add_nonneg (FlModel.gq_nonneg hu _) (FlModel.gq_nonneg hu _)
  refine rowNorm_le _ (mul_nonneg hc0 (rowNorm_nonneg _ _)) ?_
  intro i hi
  obtain ⟨hσ, hπσ⟩ := hperm.2 i hi
  have h1 : ∑ c ∈ Finset.range n, |ΔA i c|
      ≤ ∑ c ∈ Finset.range n, (M.gq n + M.gq (3 * n)) * |absLU n s (σ i) c| := by
    apply Finset.sum_le_sum
    intro c hc
    have := hbd (σ i) c hσ (Finset.mem_range.mp hc)
    rw [hπσ] at this
    rwa [abs_of_nonneg (absLU_nonneg n s _ _)]
  rw [← Finset.mul_sum] at h1
  exact h1.trans (mul_le_mul_of_nonneg_left (row_le_rowNorm _ hσ) hc0)

/-- with partial pivoting `|l̂| ≤ 1 + u`, so `‖ |L̂||Û| ‖_∞ ≤ n (1+u) ‖Û‖_∞` -/
theorem absLU_rowNorm_le (hu : M.u < 1) {n : Nat} {A : Mat (Fl M)} {a : Nat → Nat → Fl M}
    (hA : Mat.Is A n n a) {s : LU (Fl M)} (h : Mat.luDecomp A = .ok s) :
    rowNorm n (absLU n s) ≤ n * (1 + M.u) * rowNorm n (Uhat n s) := by
  obtain ⟨π, σ, _, _, _, _, hmult⟩ := luDecomp_backward hu hA h
  have hu0 := M.u_nonneg
  have hL : ∀ r k, r < n → |Lhat s r k| ≤ 1 + M.u := by
    intro r k hr
    by_cases hk : k < r
    · exact hmult r k hr hk
    · rw [Lhat_apply, if_neg hk]
      split_ifs
      · rw [abs_one]; linarith
      · rw [abs_zero]; linarith
  have hN := rowNorm_nonneg n (Uhat n s)
  refine rowNorm_le _ (by positivity) ?_
  intro r hr
  have e : ∑ c ∈ Finset.range n, |absLU n s r c|
      = ∑ k ∈ Finset.range n, |Lhat s r k| * ∑ c ∈ Finset.range n, |Uhat n s k c| := by
    rw [Finset.sum_congr rfl (fun c _ => abs_of_nonneg (absLU_nonneg n s r c))]
    unfold absLU
    rw [Finset.sum_comm]
    apply Finset.sum_congr rfl
    intro k _
    rw [Finset.mul_sum]
  rw [e]
  calc ∑ k ∈ Finset.range n, |Lhat s r k| * ∑ c ∈ Finset.range n, |Uhat n s k c|
      ≤ ∑ k ∈ Finset.range n, (1 + M.u) * rowNorm n (Uhat n s) := by
        apply Finset.sum_le_sum
        intro k hk
        exact mul_le_mul (hL r k hr) (row_le_rowNorm _ (Finset.mem_range.mp hk))
          (Finset.sum_nonneg (fun _ _ => abs_nonneg _)) (by linarith)
    _ = n * (1 + M.u) * rowNorm n (Uhat n s) := by
        rw [Finset.sum_const, Finset.card_range, nsmul_eq_mul]; ring

/-- **normwise form with partial pivoting**:
`‖ΔA‖_∞ ≤ (gq n + gq (3n)) · n (1+u) · ‖Û‖_∞` -/
theorem solveLU_backward_normwise_U (hu : M.u < 1) {n : Nat} (hn : 1 ≤ n) {A : Mat (Fl M)}
    {a : Nat → Nat → Fl M} (hA : Mat.Is A n n a) {b x : Array (Fl M)} (hb : b.size = n)
    (h : Mat.solveLU A b = .ok x) :
    ∃ (s : LU (Fl M)), Mat.luDecomp A = .ok s ∧
      ∃ ΔA : Nat → Nat → ℝ,
        (∀ i, i < n →
          ∑ j ∈ Finset.range n, ((a i j).val + ΔA i j) * (vf x j).val = (vf b i).val) ∧
        rowNorm n ΔA ≤ (M.gq n + M.gq (3 * n)) * (n * (1 + M.u) * rowNorm n (Uhat n s)) := by
  obtain ⟨s, hd, ΔA, hsol, hbd⟩ := solveLU_backward_normwise hu hn hA hb h
  refine ⟨s, hd, ΔA, hsol, hbd.trans ?_⟩
  exact mul_le_mul_of_nonneg_left (absLU_rowNorm_le hu hA hd)
    (add_nonneg (FlModel.gq_nonneg hu _) (FlModel.gq_nonneg hu _))

/-- **the classical constants**: `|ΔA| ≤ (γ_n + γ_{3n}) · Pᵀ|L̂||Û|`, `γ_k = k u / (1 − k u)`, when
`3 n u < 1` -/
theorem solveLU_backward_gamma {n : Nat} (hn : 1 ≤ n) (hnu : ((3 * n : ℕ) : ℝ) * M.u < 1)
    {A : Mat (Fl M)} {a : Nat → Nat → Fl M} (hA : Mat.Is A n n a) {b x : Array (Fl M)}
    (hb : b.size = n) (h : Mat.solveLU A b = .ok x) :
    ∃ (s : LU (Fl M)) (π σ : Nat → Nat), Mat.luDecomp A = .ok s ∧ PermOK n π σ ∧
      Mat.Is s.perm n n (permFn π) ∧ x.size = n ∧
      ∃ ΔA : Nat → Nat → ℝ,
        (∀ i, i < n →
          ∑ j ∈ Finset.range n, ((a i j).val + ΔA i j) * (vf x j).val = (vf b i).val) ∧
        ∀ r c, r < n → c < n → |ΔA (π r) c|
          ≤ ((n : ℝ) * M.u / (1 - n * M.u)
              + ((3 * n : ℕ) : ℝ) * M.u / (1 - ((3 * n : ℕ) : ℝ) * M.u)) * absLU n s r c := by
  have hu0 := M.u_nonneg
  have hn1 : (1 : ℝ) ≤ n := by exact_mod_cast hn
  have h3 : ((3 * n : ℕ) : ℝ) = 3 * n := by push_cast; ring
  have hu : M.u < 1 := by rw [h3] at hnu; nlinarith
  have hnu1 : (n : ℝ) * M.u < 1 := by rw [h3] at hnu; nlinarith
  obtain ⟨s, π, σ, hd, hp, hpm, hxs, ΔA, hsol, hbd⟩ := solveLU_backward hu hn hA hb h
  refine ⟨s, π, σ, hd, hp, hpm, hxs, ΔA, hsol, fun r c hr hc => (hbd r c hr hc).trans ?_⟩
  exact mul_le_mul_of_nonneg_right
    (add_le_add (FlModel.gq_le_gamma n hnu1) (FlModel.gq_le_gamma (3 * n) hnu))
    (absLU_nonneg n s r c)

end Rounding

/-! ### non-vacuity -/

section Examples

/-- exact arithmetic is a model (`u = 0 < 1`); there all the constants vanish, `ΔA = 0`, and the
exact soundness theorem (`solveLU_sound` of C01S) is recovered: `A x = b` -/
example {n : Nat} (hn : 1 ≤ n) {A : Mat (Fl FlModel.exact)} {a : Nat → Nat → Fl FlModel.exact}
    (hA : Mat.Is A n n a) {b x : Array (Fl FlModel.exact)} (hb : b.size = n)
    (h : Mat.solveLU A b = .ok x) :
    x.size = n ∧ ∀ i, i < n →
      ∑ j ∈ Finset.range n, (a i j).val * (vf x j).val = (vf b i).val := by
  have hu : FlModel.exact.u < 1 := by simp [FlModel.exact]
  obtain ⟨s, π, σ, _, hperm, _, hxs, ΔA, hsol, hbd⟩ := solveLU_backward hu hn hA hb h
  refine ⟨hxs, fun i hi => ?_⟩
  rw [← hsol i hi]
  apply Finset.sum_congr rfl
  intro j hj
  obtain ⟨hσ, hπσ⟩ := hperm.2 i hi
  have := hbd (σ i) j hσ (Finset.mem_range.mp hj)
  rw [hπσ, FlModel.gq_exact, FlModel.gq_exact, add_zero, zero_mul] at this
  rw [abs_nonpos_iff.mp this, add_zero]

/-- the theorems apply to the binary64 significand format of Rounding.lean: `u = 2⁻⁵³ < 1`, and
`3 n u < 1` for every order up to `10¹⁵` -/
example : FlModel.binary64.u < 1 ∧ ((3 * 10 ^ 15 : ℕ) : ℝ) * FlModel.binary64.u < 1 := by
  rw [FlModel.binary64_u]
  constructor <;> norm_num

/-! a concrete `2 × 2` system whose first column needs a row exchange, evaluated in the exact
model: `[[1,2],[3,4]] x = [5,11]`, `x = [1,2]`, `P = [[0,1],[1,0]]`, `L̂ = [[1,0],[1/3,1]]`,
`Û = [[3,4],[0,2/3]]` -/

namespace Ex

abbrev E := Fl FlModel.exact
noncomputable def A2 : Mat E := ⟨#[⟨1⟩, ⟨2⟩, ⟨3⟩, ⟨4⟩], 2, 2⟩
noncomputable def b2 : Array E := #[⟨5⟩, ⟨11⟩]

theorem E.add_eq (a b : E) : a + b = ⟨a.val + b.val⟩ := rfl
theorem E.sub_eq (a b : E) : a - b = ⟨a.val - b.val⟩ := rfl
theorem E.mul_eq (a b : E) : a * b = ⟨a.val * b.val⟩ := rfl
theorem E.lt_eq (a b : E) : ScalarExt.lt a b = decide (a.val < b.val) := rfl
theorem E.mag_eq (a : E) : ScalarExt.mag a = if a.val < 0 then -a else a := by
  simp only [ScalarExt.mag]
theorem E.divM_eq (a b : E) :
    divM a b = if b.val = 0 then .error .arith else .ok ⟨a.val / b.val⟩ := rfl

theorem dot2 {K : Type} [Add K] [Sub K] [Mul K] [Neg K] [Zero K] [One K] [BEq K] [ScalarExt K]
    (a0 a1 b0 b1 : K) : Vec.dot #[a0, a1] #[b0, b1] = .ok (0 + a0 * b0 + a1 * b1) := by
  unfold Vec.dot
  rw [← Array.foldl_toList]
  simp

theorem luDecomp_A2 :
    Mat.luDecomp A2 = .ok ⟨⟨#[⟨3⟩, ⟨4⟩, ⟨1/3⟩, ⟨2/3⟩], 2, 2⟩, ⟨#[0, 1, 1, 0], 2, 2⟩, 1⟩ := by
  norm_num [luDecomp, A2, eye, forM', Mat.new, Mat.set, aset, List.range', luStep, luPivot,
    Mat.get, aget, bind, Except.bind, pure, Except.pure, E.add_eq, E.sub_eq, E.mul_eq, E.lt_eq,
    E.mag_eq, E.divM_eq, swapRows, swapElem, luElimRow, Fl.ext_iff]
  rfl

theorem mulVec_P_b2 : Mat.mulVec (⟨#[0, 1, 1, 0], 2, 2⟩ : Mat E) b2 = .ok #[⟨11⟩, ⟨5⟩] := by
  norm_num [b2, mulVec, getRow, dot2, aget, List.range_succ, List.mapM_toArray, List.mapM_cons,
    bind, Except.bind, pure, Except.pure, E.add_eq, E.mul_eq, Fl.ext_iff]

theorem solveLU_A2_b2 : Mat.solveLU A2 b2 = .ok #[⟨1⟩, ⟨2⟩] := by
  have h1 : ¬ A2.rows ≠ b2.size := by simp [A2, b2]
  have h2 : ¬ A2.rows ≠ A2.cols := by simp [A2]
  simp only [solveLU, h1, h2, if_false, luDecomp_A2, mulVec_P_b2, bind, Except.bind]
  norm_num [forM', List.range', Mat.get, aget, aset, bind, Except.bind, pure, Except.pure,
    E.add_eq, E.sub_eq, E.mul_eq, E.divM_eq, Fl.ext_iff, forwardSub, backsolve, usub]

/-- the hypotheses of `solveLU_backward` are satisfiable for a concrete non-trivial system (with a
genuine row exchange), and its conclusion holds there with the permutation `π = (0 1)` -/
example : ∃ (A : Mat E) (b x : Array E), Mat.Is A 2 2 (Mat.ent A) ∧ b.size = 2 ∧
    FlModel.exact.u < 1 ∧ Mat.solveLU A b = .ok x ∧
    ∃ (s : LU E), Mat.luDecomp A = .ok s ∧ s.pivots = 1 ∧
      ∃ ΔA : Nat → Nat → ℝ,
        (∀ i, i < 2 →
          ∑ j ∈ Finset.range 2, ((Mat.ent A i j).val + ΔA i j) * (vf x j).val = (vf b i).val) ∧
        rowNorm 2 ΔA ≤ (FlModel.exact.gq 2 + FlModel.exact.gq (3 * 2)) * rowNorm 2 (absLU 2 s) := by
  have hu : FlModel.exact.u < 1 := by simp [FlModel.exact]
  have hA : Mat.Is A2 2 2 (Mat.ent A2) := Mat.WFn.is ⟨rfl, rfl, rfl⟩
  refine ⟨A2, b2, _, hA, rfl, hu, solveLU_A2_b2, ?_⟩
  obtain ⟨s, hd, ΔA, h1, h2⟩ := solveLU_backward_normwise hu (by omega) hA rfl solveLU_A2_b2
  refine ⟨s, hd, ?_, ΔA, h1, h2⟩
  rw [luDecomp_A2] at hd
  injection hd with hd
  rw [← hd]

/-! a model that really rounds, `fl x = (1+u) x` (`FlModel.scale`), and the `1 × 1` system `2 x = 6`:
the computed solution is `3 (1+u)³ ≠ 3` (one rounding in `1·b`, one in `0 + ·`, one in the
division), so `ΔA ≠ 0`; the hypotheses of `solveLU_backward` are satisfiable there for every
`0 ≤ u < 1` -/

section Scale
variable (u : ℝ) (hu0 : 0 ≤ u)

abbrev S := Fl (FlModel.scale u hu0)

theorem S.add_eq (a b : S u hu0) : a + b = ⟨(1 + u) * (a.val + b.val)⟩ := rfl
theorem S.mul_eq (a b : S u hu0) : a * b = ⟨(1 + u) * (a.val * b.val)⟩ := rfl
theorem S.lt_eq (a b : S u hu0) : ScalarExt.lt a b = decide (a.val < b.val) := rfl
theorem S.mag_eq (a : S u hu0) : ScalarExt.mag a = if a.val < 0 then -a else a := by
  simp only [ScalarExt.mag]
theorem S.divM_eq (a b : S u hu0) :
    divM a b = if b.val = 0 then .error .arith else .ok ⟨(1 + u) * (a.val / b.val)⟩ := rfl

theorem dot1 {K : Type} [Add K] [Sub K] [Mul K] [Neg K] [Zero K] [One K] [BEq K] [ScalarExt K]
    (a0 b0 : K) : Vec.dot #[a0] #[b0] = .ok (0 + a0 * b0) := by
  unfold Vec.dot
  rw [← Array.foldl_toList]
  simp

theorem solveLU_scale :
    Mat.solveLU (⟨#[⟨2⟩], 1, 1⟩ : Mat (S u hu0)) #[⟨6⟩] = .ok #[⟨3 * (1 + u) ^ 3⟩] := by
  norm_num [solveLU, luDecomp, eye, forM', Mat.new, Mat.set, aset, List.range', luStep, luPivot,
    Mat.get, aget, bind, Except.bind, pure, Except.pure, S.add_eq, S.mul_eq, S.lt_eq,
    S.mag_eq, S.divM_eq, Fl.ext_iff, mulVec, getRow, dot1, List.range_succ, List.mapM_toArray,
    List.mapM_cons, forwardSub, backsolve, usub]
  ring

example (hu1 : u < 1) :
    ∃ (A : Mat (S u hu0)) (b x : Array (S u hu0)), Mat.Is A 1 1 (Mat.ent A) ∧ b.size = 1 ∧
      Mat.solveLU A b = .ok x ∧ (vf x 0).val = 3 * (1 + u) ^ 3 ∧
      ∃ (s : LU (S u hu0)) (ΔA : Nat → Nat → ℝ), Mat.luDecomp A = .ok s ∧
        ((Mat.ent A 0 0).val + ΔA 0 0) * (vf x 0).val = (vf b 0).val ∧
        |ΔA 0 0| ≤ ((FlModel.scale u hu0).gq 1 + (FlModel.scale u hu0).gq 3) * absLU 1 s 0 0 := by
  have hA : Mat.Is (⟨#[⟨2⟩], 1, 1⟩ : Mat (S u hu0)) 1 1 (Mat.ent _) := Mat.WFn.is ⟨rfl, rfl, rfl⟩
  have hu : (FlModel.scale u hu0).u < 1 := hu1
  obtain ⟨s, π, σ, hd, hperm, _, _, ΔA, hsol, hbd⟩ :=
    solveLU_backward hu (Nat.le_refl 1) hA rfl (solveLU_scale u hu0)
  refine ⟨_, _, _, hA, rfl, solveLU_scale u hu0, rfl, s, ΔA, hd, ?_, ?_⟩
  · have := hsol 0 (by omega)
    simpa using this
  · have hπ : π 0 = 0 := by have := (hperm.1 0 (by omega)).1; omega
    have := hbd 0 0 (by omega) (by omega)
    rwa [hπ] at this

/-- the multiplier bound `1 + u` of `luDecomp_backward` cannot be replaced by `1` in the standard
model: here the rounded quotient of two equal numbers is `1 + u` -/
example (x : ℝ) (hx : x ≠ 0) : (((⟨x⟩ : S u hu0) / ⟨x⟩)).val = 1 + u := by
  show (1 + u) * (x / x) = 1 + u
  rw [div_self hx, mul_one]

end Scale

/-! `gam` is not a valid constant for a backward error with unperturbed right-hand side: in the
model `fl x = (1−u) x` the `1 × 1` back substitution `1·x = 1` returns `x̂ = 1 − u`, and the ONLY
`ΔU` with `(1 + ΔU) x̂ = 1` is `u/(1−u) = gq 1 > u = gam 1`. -/

section Down
variable (u : ℝ) (hu0 : 0 ≤ u)

/-- rounding always downwards in magnitude by the full relative error -/
def down : FlModel :=
  ⟨u, fun x => (1 - u) * x, hu0, fun x => by
    have : (1 - u) * x - x = -(u * x) := by ring
    rw [this, abs_neg, abs_mul, abs_of_nonneg hu0]⟩

theorem D.divM_eq (a b : Fl (down u hu0)) :
    divM a b = if b.val = 0 then .error .arith else .ok ⟨(1 - u) * (a.val / b.val)⟩ := rfl

theorem backsolve_down :
    Mat.backsolve (⟨#[⟨1⟩], 1, 1⟩ : Mat (Fl (down u hu0))) #[⟨1⟩] = .ok #[⟨1 - u⟩] := by
  norm_num [backsolve, forM', List.range', Mat.get, aget, aset, bind, Except.bind, pure,
    Except.pure, D.divM_eq, Fl.ext_iff, usub]

example (hu : 0 < u) (hu1 : u < 1) :
    ∃ (U : Mat (Fl (down u hu0))) (b x : Array (Fl (down u hu0))),
      Mat.Is U 1 1 (Mat.ent U) ∧ Mat.backsolve U b = .ok x ∧
      ∀ ΔU : ℝ, ((Mat.ent U 0 0).val + ΔU) * (vf x 0).val = (vf b 0).val →
        (down u hu0).gam 1 * |(Mat.ent U 0 0).val| < |ΔU| ∧
        |ΔU| = (down u hu0).gq 1 * |(Mat.ent U 0 0).val| := by
  refine ⟨(⟨#[⟨1⟩], 1, 1⟩ : Mat (Fl (down u hu0))), #[⟨1⟩], #[⟨1 - u⟩],
    Mat.WFn.is ⟨rfl, rfl, rfl⟩, backsolve_down u hu0, ?_⟩
  intro ΔU h
  have h' : (1 + ΔU) * (1 - u) = 1 := h
  have hpos : 0 < 1 - u := by linarith
  have hΔ : ΔU = u / (1 - u) := by
    field_simp
    nlinarith
  have e1 : (down u hu0).gam 1 = u := by simp [down]
  have e2 : (down u hu0).gq 1 = u / (1 - u) := by
    simp only [FlModel.gq, down, pow_one]
    field_simp
    ring
  have e3 : |(Mat.ent (⟨#[⟨1⟩], 1, 1⟩ : Mat (Fl (down u hu0))) 0 0).val| = 1 := by
    show |(1 : ℝ)| = 1
    exact abs_one
  have hq : 0 < u / (1 - u) := div_pos hu hpos
  rw [e1, e2, e3, hΔ, abs_of_pos hq, mul_one, mul_one]
  refine ⟨?_, rfl⟩
  rw [lt_div_iff₀ hpos]
  nlinarith

end Down

end Ex

end Examples

end Ohsl.Props.C01
