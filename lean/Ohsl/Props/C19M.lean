/-
  Property C19 (continued) — 2-D mesh storage, cross sections, `var_as_matrix`, the trapezium
  rules and 1-D interpolation (model: Ohsl/Model/Mesh.lean).
  (S) any element type: `WF2`, `set_get2`, rejections, `crossSectionX_spec`, `crossSectionY_spec`,
      `varAsMatrix_spec`.
  (E) linearly ordered field with an arbitrary `Transc K`: `trapezium_cells`, `trapezium_linear`,
      `trapezium2D_cells`, `trapezium2D_bilinear`, `interp_between`, `interp_at_node`.
-/
import Ohsl.Props.C19
import Ohsl.Lemmas.MatSpec
import Ohsl.Lemmas.Alg
import Ohsl.Lemmas.RealTransc
import Mathlib.Algebra.BigOperators.Group.Finset.Basic
import Mathlib.Algebra.Order.Ring.Abs
import Mathlib.Tactic.Ring
import Mathlib.Tactic.FieldSimp
import Mathlib.Tactic.Linarith
set_option linter.unusedSectionVars false
set_option linter.unusedVariables false
set_option linter.unusedSimpArgs false
namespace Ohsl.Props.C19
open Ohsl

/-! ## (S) storage of the 2-D mesh -/
section Storage
variable {T X : Type} [Zero T]

/-- invariant of `Mesh2D`: one variable vector per grid node, node arrays of the recorded lengths -/
def WF2 (m : Mesh2 T X) : Prop :=
  m.vars.size = m.nx * m.ny ∧ m.xnodes.size = m.nx ∧ m.ynodes.size = m.ny

theorem new_wf2 (xn yn : Array X) (nvars : Nat) : WF2 (Mesh2.new xn yn nvars : Mesh2 T X) := by
  simp [WF2, Mesh2.new]

theorem usub_one_ok {n : Nat} (h : 1 ≤ n) : usub n 1 = .ok (n - 1) := by
  unfold usub; rw [if_pos h]

theorem usub_one_err : usub 0 1 = .error .arith := rfl

/-- the guard accepts exactly the grid nodes -/
theorem guard_ok (m : Mesh2 T X) {i j : Nat} (hi : i < m.nx) (hj : j < m.ny) :
    Mesh2.guard m i j = .ok () := by
  have h1 : ¬ i > m.nx - 1 := by omega
  have h2 : ¬ j > m.ny - 1 := by omega
  simp [Mesh2.guard, usub_one_ok (show 1 ≤ m.nx by omega), usub_one_ok (show 1 ≤ m.ny by omega),
    h1, h2, bind, Except.bind, pure, Except.pure]

/-- what the guard does outside the grid: `nx - 1` / `ny - 1` are computed in `usize`, so an empty
    direction is an arithmetic panic, otherwise a range panic; the x test comes first -/
theorem guard_err (m : Mesh2 T X) (i j : Nat) (h : m.nx ≤ i ∨ m.ny ≤ j) :
    Mesh2.guard m i j =
      .error (if m.nx = 0 then .arith else if m.nx ≤ i then .range
              else if m.ny = 0 then .arith else .range) := by
  unfold Mesh2.guard
  by_cases h0 : m.nx = 0
  · simp [h0, usub_one_err, bind, Except.bind]
  · rw [usub_one_ok (show 1 ≤ m.nx by omega)]
    by_cases h1 : m.nx ≤ i
    · have : i > m.nx - 1 := by omega
      simp [h0, h1, this, bind, Except.bind]
    · have h1' : ¬ i > m.nx - 1 := by omega
      have h2 : m.ny ≤ j := h.resolve_left h1
      by_cases h3 : m.ny = 0
      · simp [h0, h1, h1', h3, usub_one_err, bind, Except.bind]
      · have : j > m.ny - 1 := by omega
        simp [h0, h1, h1', h3, usub_one_ok (show 1 ≤ m.ny by omega), this, bind, Except.bind]

theorem guard_rejects (m : Mesh2 T X) (i j : Nat) (h : m.nx ≤ i ∨ m.ny ≤ j) :
    ∃ e, Mesh2.guard m i j = .error e := ⟨_, guard_err m i j h⟩

/-- **2-D set/get**: storing at a grid node succeeds, keeps the invariant and the grid, is read
    back exactly, and leaves every other node unchanged -/
theorem set_get2 (m : Mesh2 T X) (h : WF2 m) (i j : Nat) (v : Array T) (hi : i < m.nx)
    (hj : j < m.ny) (hv : v.size = m.nvars) :
    ∃ m', Mesh2.setNodesVars m i j v = .ok m' ∧ WF2 m' ∧ m'.nx = m.nx ∧ m'.ny = m.ny ∧
      m'.nvars = m.nvars ∧ m'.xnodes = m.xnodes ∧ m'.ynodes = m.ynodes ∧
      Mesh2.getNodesVars m' i j = .ok v ∧
      ∀ i' j', j' < m.ny → (i' ≠ i ∨ j' ≠ j) →
        Mesh2.getNodesVars m' i' j' = Mesh2.getNodesVars m i' j' := by
  have hlt : i * m.ny + j < m.vars.size := by rw [h.1]; exact Mat.idx_lt hi hj
  have h2 : ¬ v.size ≠ m.nvars := by omega
  refine ⟨{ m with vars := m.vars.setIfInBounds (i * m.ny + j) v }, ?_, ?_, rfl, rfl, rfl, rfl, rfl,
    ?_, ?_⟩
  · simp [Mesh2.setNodesVars, guard_ok m hi hj, h2, Mat.aset_ok v hlt, bind, Except.bind, pure,
      Except.pure]
  · simpa [WF2] using h
  · have hg : Mesh2.guard { m with vars := m.vars.setIfInBounds (i * m.ny + j) v } i j = .ok () :=
      guard_ok _ hi hj
    simp [Mesh2.getNodesVars, hg, aget, hlt, bind, Except.bind]
  · intro i' j' hj' hne
    have hg : Mesh2.guard { m with vars := m.vars.setIfInBounds (i * m.ny + j) v } i' j'
        = Mesh2.guard m i' j' := rfl
    have hidx : i * m.ny + j ≠ i' * m.ny + j' := by
      intro e
      have := Mat.idx_inj hj hj' e
      omega
    simp only [Mesh2.getNodesVars, hg, aget]
    simp [Array.getElem?_setIfInBounds, hidx]

/-- a node outside the grid or a vector of the wrong length is rejected -/
theorem set_rejects2 (m : Mesh2 T X) (i j : Nat) (v : Array T)
    (h : m.nx ≤ i ∨ m.ny ≤ j ∨ v.size ≠ m.nvars) : ∃ e, Mesh2.setNodesVars m i j v = .error e := by
  unfold Mesh2.setNodesVars
  by_cases hg : m.nx ≤ i ∨ m.ny ≤ j
  · exact ⟨_, by rw [guard_err m i j hg]; rfl⟩
  · have hi : i < m.nx := by omega
    have hj : j < m.ny := by omega
    have hv : v.size ≠ m.nvars := by
      rcases h with h | h | h
      · omega
      · omega
      · exact h
    exact ⟨.size, by simp [guard_ok m hi hj, hv, bind, Except.bind]⟩

/-- an empty direction makes every `set_nodes_vars` an arithmetic (usize underflow) panic -/
theorem set_empty_arith (m : Mesh2 T X) (i j : Nat) (v : Array T) (h : m.nx = 0) :
    Mesh2.setNodesVars m i j v = .error .arith := by
  simp [Mesh2.setNodesVars, guard_err m i j (Or.inl (by omega)), h, bind, Except.bind]

theorem get_rejects2 (m : Mesh2 T X) (i j : Nat) (h : m.nx ≤ i ∨ m.ny ≤ j) :
    ∃ e, Mesh2.getNodesVars m i j = .error e :=
  ⟨_, by unfold Mesh2.getNodesVars; rw [guard_err m i j h]; rfl⟩

/-- reading a grid node of a well-formed mesh returns the stored vector -/
theorem get_ok2 (m : Mesh2 T X) (h : WF2 m) {i j : Nat} (hi : i < m.nx) (hj : j < m.ny) :
    ∃ hlt : i * m.ny + j < m.vars.size, Mesh2.getNodesVars m i j = .ok m.vars[i * m.ny + j] := by
  have hlt : i * m.ny + j < m.vars.size := by rw [h.1]; exact Mat.idx_lt hi hj
  exact ⟨hlt, by simp [Mesh2.getNodesVars, guard_ok m hi hj, Mat.aget_ok hlt, bind, Except.bind]⟩

/-- every stored node vector has the declared number of variables (true of every mesh built by
    `new` and modified through `set_nodes_vars`) -/
def Sized2 (m : Mesh2 T X) : Prop := ∀ k (hk : k < m.vars.size), m.vars[k].size = m.nvars

theorem new_sized2 (xn yn : Array X) (nvars : Nat) : Sized2 (Mesh2.new xn yn nvars : Mesh2 T X) := by
  intro k hk; simp [Mesh2.new]

/-- **cross section at x-node `i`**: a 1-D mesh over the y nodes whose node `j` holds exactly the
    vector stored at grid node `(i, j)`, i.e. `vars[i*ny + j]` -/
theorem crossSectionX_spec (m : Mesh2 T X) (h : WF2 m) (hs : Sized2 m) {i : Nat} (hi : i < m.nx) :
    ∃ s, Mesh2.crossSectionX m i = .ok s ∧ WF1 s ∧ s.nvars = m.nvars ∧ s.nodes = m.ynodes ∧
      ∀ j, j < m.ny → s.vars[j]? = m.vars[i * m.ny + j]? ∧
        Mesh1.getNodesVars s j = Mesh2.getNodesVars m i j := by
  unfold Mesh2.crossSectionX
  obtain ⟨s, hs1, p1, p2, p3, p4⟩ := Mat.forM'_inv
    (fun k (s : Mesh1 T X) => s.nvars = m.nvars ∧ s.nodes = m.ynodes ∧ s.vars.size = m.ny ∧
       ∀ j, j < k → s.vars[j]? = m.vars[i * m.ny + j]?)
    0 m.ny (Mesh1.new m.ynodes m.nvars)
    (fun s j => do let v ← Mesh2.getNodesVars m i j; Mesh1.setNodesVars s j v)
    (Nat.zero_le _) ⟨rfl, rfl, by simp [Mesh1.new, h.2.2], by intro j hj; omega⟩ (by
      rintro k s _ hk ⟨p1, p2, p3, p4⟩
      obtain ⟨hlt, hget⟩ := get_ok2 m h hi hk
      have hn1 : ¬ k ≥ s.nodes.size := by rw [p2, h.2.2]; omega
      have hn2 : ¬ m.vars[i * m.ny + k].size ≠ s.nvars := by rw [p1, hs _ hlt]; simp
      have hks : k < s.vars.size := by omega
      refine ⟨{ s with vars := s.vars.setIfInBounds k m.vars[i * m.ny + k] }, ?_, p1, p2,
        by simpa using p3, ?_⟩
      · simp [hget, Mesh1.setNodesVars, hn1, hn2, Mat.aset_ok _ hks, bind, Except.bind, pure,
          Except.pure]
      · intro j hj
        by_cases hjk : j = k
        · subst hjk; simp [hks, hlt]
        · have : k ≠ j := fun e => hjk e.symm
          simp only [Array.getElem?_setIfInBounds, this, if_false]
          exact p4 j (by omega))
  refine ⟨s, hs1, by rw [WF1, p3, p2, h.2.2], p1, p2, ?_⟩
  intro j hj
  refine ⟨p4 j hj, ?_⟩
  obtain ⟨hlt, hget⟩ := get_ok2 m h hi hj
  have hn1 : ¬ j ≥ s.nodes.size := by rw [p2, h.2.2]; omega
  rw [hget]
  simp only [Mesh1.getNodesVars, hn1, if_false]
  rw [Mat.aget_eq_ok, p4 j hj]; simp [hlt]

/-- **cross section at y-node `j`**: a 1-D mesh over the x nodes whose node `i` holds exactly the
    vector stored at grid node `(i, j)`, i.e. `vars[i*ny + j]` (orientation: the FIRST index runs) -/
theorem crossSectionY_spec (m : Mesh2 T X) (h : WF2 m) (hs : Sized2 m) {j : Nat} (hj : j < m.ny) :
    ∃ s, Mesh2.crossSectionY m j = .ok s ∧ WF1 s ∧ s.nvars = m.nvars ∧ s.nodes = m.xnodes ∧
      ∀ i, i < m.nx → s.vars[i]? = m.vars[i * m.ny + j]? ∧
        Mesh1.getNodesVars s i = Mesh2.getNodesVars m i j := by
  unfold Mesh2.crossSectionY
  obtain ⟨s, hs1, p1, p2, p3, p4⟩ := Mat.forM'_inv
    (fun k (s : Mesh1 T X) => s.nvars = m.nvars ∧ s.nodes = m.xnodes ∧ s.vars.size = m.nx ∧
       ∀ i, i < k → s.vars[i]? = m.vars[i * m.ny + j]?)
    0 m.nx (Mesh1.new m.xnodes m.nvars)
    (fun s i => do let v ← Mesh2.getNodesVars m i j; Mesh1.setNodesVars s i v)
    (Nat.zero_le _) ⟨rfl, rfl, by simp [Mesh1.new, h.2.1], by intro j hj; omega⟩ (by
      rintro k s _ hk ⟨p1, p2, p3, p4⟩
      obtain ⟨hlt, hget⟩ := get_ok2 m h hk hj
      have hn1 : ¬ k ≥ s.nodes.size := by rw [p2, h.2.1]; omega
      have hn2 : ¬ m.vars[k * m.ny + j].size ≠ s.nvars := by rw [p1, hs _ hlt]; simp
      have hks : k < s.vars.size := by omega
      refine ⟨{ s with vars := s.vars.setIfInBounds k m.vars[k * m.ny + j] }, ?_, p1, p2,
        by simpa using p3, ?_⟩
      · simp [hget, Mesh1.setNodesVars, hn1, hn2, Mat.aset_ok _ hks, bind, Except.bind, pure,
          Except.pure]
      · intro i hi
        by_cases hik : i = k
        · subst hik; simp [hks, hlt]
        · have : k ≠ i := fun e => hik e.symm
          simp only [Array.getElem?_setIfInBounds, this, if_false]
          exact p4 i (by omega))
  refine ⟨s, hs1, by rw [WF1, p3, p2, h.2.1], p1, p2, ?_⟩
  intro i hi
  refine ⟨p4 i hi, ?_⟩
  obtain ⟨hlt, hget⟩ := get_ok2 m h hi hj
  have hn1 : ¬ i ≥ s.nodes.size := by rw [p2, h.2.1]; omega
  rw [hget]
  simp only [Mesh1.getNodesVars, hn1, if_false]
  rw [Mat.aget_eq_ok, p4 i hi]; simp [hlt]

/-- cross sections outside the grid are rejected (when the other direction is non-empty, so that
    the loop runs at all) -/
theorem crossSectionX_rejects (m : Mesh2 T X) {i : Nat} (hi : m.nx ≤ i) (hy : 0 < m.ny) :
    ∃ e, Mesh2.crossSectionX m i = .error e := by
  refine ⟨(if m.nx = 0 then .arith else if m.nx ≤ i then .range
              else if m.ny = 0 then .arith else .range),
    Mat.forM'_first_error 0 m.ny _ _ _ hy ?_⟩
  show (do let v ← Mesh2.getNodesVars m i 0; Mesh1.setNodesVars _ 0 v) = _
  unfold Mesh2.getNodesVars
  rw [guard_err m i 0 (Or.inl hi)]; rfl

/-- value of variable `var` at grid node `(i, j)` (total accessor used in the statements) -/
def val2 (m : Mesh2 T X) (i j var : Nat) : T := (m.vars.getD (i * m.ny + j) #[]).getD var 0

/-- **`var_as_matrix`**: the `nx × ny` matrix whose entry `(i, j)` is variable `var` at grid
    node `(i, j)` -/
theorem varAsMatrix_spec (m : Mesh2 T X) (h : WF2 m) (hs : Sized2 m) {var : Nat}
    (hv : var < m.nvars) :
    ∃ M, Mesh2.varAsMatrix m var = .ok M ∧ Mat.Is M m.nx m.ny (fun i j => val2 m i j var) := by
  have hv' : ¬ var ≥ m.nvars := by omega
  simp only [Mesh2.varAsMatrix, hv', if_false]
  obtain ⟨M, hM, hP⟩ := Mat.forM'_inv
    (fun k (s : Mat T) => Mat.Is s m.nx m.ny (fun a b => if a < k then val2 m a b var else 0))
    0 m.nx (Mat.new m.nx m.ny (0 : T))
    (fun mat i => Mat.forM' 0 m.ny mat (fun mat j => do
      let row ← aget m.vars (i * m.ny + j)
      let x ← aget row var
      mat.set i j x))
    (Nat.zero_le _) (by simpa using Mat.Is.of_new m.nx m.ny (0 : T)) (by
      intro i s _ hi hI
      obtain ⟨s', hs', hP⟩ := Mat.forM'_inv
        (fun k (s : Mat T) => Mat.Is s m.nx m.ny
          (fun a b => if a < i ∨ (a = i ∧ b < k) then val2 m a b var else 0))
        0 m.ny s
        (fun mat j => do
          let row ← aget m.vars (i * m.ny + j)
          let x ← aget row var
          mat.set i j x)
        (Nat.zero_le _) (by simpa using hI) (by
          intro j t _ hj hT
          have hlt : i * m.ny + j < m.vars.size := by rw [h.1]; exact Mat.idx_lt hi hj
          have hvar : var < m.vars[i * m.ny + j].size := by rw [hs _ hlt]; exact hv
          obtain ⟨t', ht', hI'⟩ := hT.set hi hj (m.vars[i * m.ny + j][var])
          refine ⟨t', by simp [Mat.aget_ok hlt, Mat.aget_ok hvar, ht', bind, Except.bind], ?_⟩
          refine ⟨hI'.wf, hI'.rows, hI'.cols, ?_⟩
          intro a b ha hb
          rw [hI'.entry a b ha hb]
          congr 1
          by_cases hab : a = i ∧ b = j
          · obtain ⟨rfl, rfl⟩ := hab
            simp [val2, hlt, hvar]
          · have e1 : (a < i ∨ a = i ∧ b < j + 1) = (a < i ∨ a = i ∧ b < j) := by
              apply propext; omega
            simp only [hab, if_false, e1])
      refine ⟨s', hs', ⟨hP.wf, hP.rows, hP.cols, ?_⟩⟩
      intro a b ha hb
      rw [hP.entry a b ha hb]
      congr 1
      have e1 : (a < i ∨ a = i ∧ b < m.ny) = (a < i + 1) := by apply propext; omega
      simp only [e1])
  refine ⟨M, hM, ⟨hP.wf, hP.rows, hP.cols, ?_⟩⟩
  intro a b ha hb
  rw [hP.entry a b ha hb]; simp [ha]

theorem varAsMatrix_rejects (m : Mesh2 T X) {var : Nat} (hv : m.nvars ≤ var) :
    Mesh2.varAsMatrix m var = .error .range := by simp [Mesh2.varAsMatrix, hv]

/-- `val2` really is the stored entry -/
theorem val2_eq (m : Mesh2 T X) (h : WF2 m) (hs : Sized2 m) {i j var : Nat} (hi : i < m.nx)
    (hj : j < m.ny) (hv : var < m.nvars) :
    ∃ (h1 : i * m.ny + j < m.vars.size) (h2 : var < m.vars[i * m.ny + j].size),
      val2 m i j var = m.vars[i * m.ny + j][var] := by
  have hlt : i * m.ny + j < m.vars.size := by rw [h.1]; exact Mat.idx_lt hi hj
  have hvar : var < m.vars[i * m.ny + j].size := by rw [hs _ hlt]; exact hv
  exact ⟨hlt, hvar, by simp [val2, hlt, hvar]⟩

end Storage
/-! ## (E) quadrature and interpolation over a linearly ordered field -/
section Exact
variable {K : Type} [Field K] [LinearOrder K] [Transc K]
attribute [local instance] Ohsl.Alg.scalarExt
open Transc

/-- coordinate of node `k` (total accessor) -/
def nodeX (m : Mesh1 K K) (k : Nat) : K := m.nodes.getD k 0
/-- value of variable `var` at node `k` (total accessor) -/
def val1 (m : Mesh1 K K) (k var : Nat) : K := (m.vars.getD k #[]).getD var 0
/-- every stored node vector has `nvars` entries -/
def Sized1 (m : Mesh1 K K) : Prop := ∀ k (hk : k < m.vars.size), m.vars[k].size = m.nvars

theorem aget_nodeX (m : Mesh1 K K) {k : Nat} (hk : k < m.nodes.size) :
    aget m.nodes k = .ok (nodeX m k) := by
  rw [Mat.aget_ok hk]; simp [nodeX, hk]

theorem aget_val1 (m : Mesh1 K K) (hs : Sized1 m) {k var : Nat} (hk : k < m.vars.size)
    (hv : var < m.nvars) : aget m.vars[k] var = .ok (val1 m k var) := by
  have hvar : var < m.vars[k].size := by rw [hs _ hk]; exact hv
  rw [Mat.aget_ok hvar]; simp [val1, hk, hvar]

/-- **1-D trapezium rule, cell by cell**: the value is the sum over the `n - 1` cells of
    `half · (x_{k+1} − x_k) · (f_k + f_{k+1})` -/
theorem trapezium_cells (m : Mesh1 K K) (h : WF1 m) (hs : Sized1 m) (hn : 1 ≤ m.nodes.size)
    {var : Nat} (hv : var < m.nvars) :
    Mesh1.trapezium m var = .ok (∑ k ∈ Finset.range (m.nodes.size - 1),
      half * (nodeX m (k + 1) - nodeX m k) * (val1 m k var + val1 m (k + 1) var)) := by
  unfold Mesh1.trapezium
  rw [usub_one_ok hn]
  simp only [bind, Except.bind]
  obtain ⟨s, hs1, rfl⟩ := Mat.forM'_inv
    (fun k (s : K) => s = ∑ k ∈ Finset.range k,
      half * (nodeX m (k + 1) - nodeX m k) * (val1 m k var + val1 m (k + 1) var))
    0 (m.nodes.size - 1) (0 : K)
    (fun sum node => do
      let xl ← aget m.nodes node
      let xr ← aget m.nodes (node + 1)
      let dx := xr - xl
      let a ← aget m.vars node
      let fa ← aget a var
      let b ← aget m.vars (node + 1)
      let fb ← aget b var
      pure (sum + half * dx * (fa + fb)))
    (Nat.zero_le _) (by simp) (by
      intro k s _ hk hs'
      have hk0 : k < m.nodes.size := by omega
      have hk1 : k + 1 < m.nodes.size := by omega
      have hv0 : k < m.vars.size := by rw [h]; exact hk0
      have hv1 : k + 1 < m.vars.size := by rw [h]; exact hk1
      refine ⟨s + half * (nodeX m (k + 1) - nodeX m k) * (val1 m k var + val1 m (k + 1) var), by
        simp only [aget_nodeX m hk0, aget_nodeX m hk1, Mat.aget_ok hv0, Mat.aget_ok hv1,
          aget_val1 m hs hv0 hv, aget_val1 m hs hv1 hv, bind, Except.bind, pure, Except.pure], ?_⟩
      rw [Finset.sum_range_succ, hs'])
  exact hs1

/-- telescoping sum -/
theorem sum_range_tele (g : Nat → K) (n : Nat) :
    ∑ k ∈ Finset.range n, (g (k + 1) - g k) = g n - g 0 := by
  induction n with
  | zero => simp
  | succ n ih => rw [Finset.sum_range_succ, ih]; ring

/-- **exactness for linear data**: if `f_k = α x_k + β` at every node, the composite rule
    collapses to the single-cell rule on the whole interval (for ANY value of the constant
    `half`; the sum telescopes) -/
theorem trapezium_linear (m : Mesh1 K K) (h : WF1 m) (hs : Sized1 m) (hn : 1 ≤ m.nodes.size)
    {var : Nat} (hv : var < m.nvars) (α β : K)
    (hf : ∀ k, k < m.nodes.size → val1 m k var = α * nodeX m k + β) :
    Mesh1.trapezium m var = .ok (half * (nodeX m (m.nodes.size - 1) - nodeX m 0) *
      (val1 m 0 var + val1 m (m.nodes.size - 1) var)) := by
  rw [trapezium_cells m h hs hn hv]
  congr 1
  obtain ⟨g, hg⟩ : ∃ g : Nat → K, g = fun k => (half : K) * (α * nodeX m k ^ 2 + 2 * β * nodeX m k) :=
    ⟨_, rfl⟩
  have e : ∀ k ∈ Finset.range (m.nodes.size - 1),
      half * (nodeX m (k + 1) - nodeX m k) * (val1 m k var + val1 m (k + 1) var) =
      g (k + 1) - g k := by
    intro k hk
    have hk' : k < m.nodes.size - 1 := Finset.mem_range.mp hk
    rw [hf k (by omega), hf (k + 1) (by omega), hg]
    ring
  rw [Finset.sum_congr rfl e, sum_range_tele, hf 0 (by omega), hf (m.nodes.size - 1) (by omega), hg]
  ring

/-- with `half = 1/2` (stated as `half + half = 1`) the rule returns the exact integral
    `∫_a^b (α x + β) dx = α (b² − a²)/2 + β (b − a)` of linear data, `a = x_0`, `b = x_{n-1}` -/
theorem trapezium_linear_exact (m : Mesh1 K K) (h : WF1 m) (hs : Sized1 m)
    (hn : 1 ≤ m.nodes.size) {var : Nat} (hv : var < m.nvars) (α β : K)
    (hhalf : (half : K) + half = 1)
    (hf : ∀ k, k < m.nodes.size → val1 m k var = α * nodeX m k + β) :
    Mesh1.trapezium m var = .ok (α * (nodeX m (m.nodes.size - 1) ^ 2 - nodeX m 0 ^ 2) / 2 +
      β * (nodeX m (m.nodes.size - 1) - nodeX m 0)) := by
  rw [trapezium_linear m h hs hn hv α β hf, hf 0 (by omega), hf (m.nodes.size - 1) (by omega)]
  congr 1
  have h2 : (2 : K) ≠ 0 := by
    intro h2
    have : (half : K) + half = 0 := by
      have : (half : K) + half = 2 * half := by ring
      rw [this, h2, zero_mul]
    rw [this] at hhalf; exact zero_ne_one hhalf
  have hh : (half : K) = 1 / 2 := by
    field_simp
    rw [← hhalf]; ring
  rw [hh]; field_simp; ring

/-! ### 2-D trapezium rule -/

/-- x / y coordinate of a grid line (total accessors) -/
def nodeX2 (m : Mesh2 K K) (i : Nat) : K := m.xnodes.getD i 0
def nodeY2 (m : Mesh2 K K) (j : Nat) : K := m.ynodes.getD j 0

theorem aget_nodeX2 (m : Mesh2 K K) {k : Nat} (hk : k < m.xnodes.size) :
    aget m.xnodes k = .ok (nodeX2 m k) := by
  rw [Mat.aget_ok hk]; simp [nodeX2, hk]

theorem aget_nodeY2 (m : Mesh2 K K) {k : Nat} (hk : k < m.ynodes.size) :
    aget m.ynodes k = .ok (nodeY2 m k) := by
  rw [Mat.aget_ok hk]; simp [nodeY2, hk]

theorem aget_val2 (m : Mesh2 K K) (hs : Sized2 m) {i j var : Nat}
    (hk : i * m.ny + j < m.vars.size) (hv : var < m.nvars) :
    aget m.vars[i * m.ny + j] var = .ok (val2 m i j var) := by
  have hvar : var < m.vars[i * m.ny + j].size := by rw [hs _ hk]; exact hv
  rw [Mat.aget_ok hvar]; simp [val2, hk, hvar]

/-- contribution of cell `(i, j)`: `quarter · dx · dy · (g f00 + g f10 + g f01 + g f11)` -/
def cell2 (g : K → K) (m : Mesh2 K K) (var i j : Nat) : K :=
  (Mesh2.quarter : K) * (nodeX2 m (i + 1) - nodeX2 m i) * (nodeY2 m (j + 1) - nodeY2 m j) *
    (g (val2 m i j var) + g (val2 m (i + 1) j var) + g (val2 m i (j + 1) var)
      + g (val2 m (i + 1) (j + 1) var))

/-- **2-D trapezium rule, cell by cell** (shared loop of `trapezium` and `square_trapezium`):
    the value is the double sum over the `(nx-1)·(ny-1)` cells of `cell2`.
    (`ny ≥ 1` is only needed when there is at least one cell column, as in the code, where
    `ny - 1` is evaluated inside the x loop.) -/
theorem trapWith_cells (g : K → K) (m : Mesh2 K K) (h : WF2 m) (hs : Sized2 m) (hx : 1 ≤ m.nx)
    (hy : 2 ≤ m.nx → 1 ≤ m.ny) {var : Nat} (hv : var < m.nvars) :
    Mesh2.trapWith g m var = .ok (∑ i ∈ Finset.range (m.nx - 1), ∑ j ∈ Finset.range (m.ny - 1),
      cell2 g m var i j) := by
  unfold Mesh2.trapWith
  rw [usub_one_ok hx]
  obtain ⟨s, hs1, rfl⟩ := Mat.forM'_inv
    (fun k (s : K) => s = ∑ i ∈ Finset.range k, ∑ j ∈ Finset.range (m.ny - 1), cell2 g m var i j)
    0 (m.nx - 1) (0 : K)
    (fun sum i => do
      let xl ← aget m.xnodes i
      let xr ← aget m.xnodes (i + 1)
      let dx := xr - xl
      let ny1 ← usub m.ny 1
      Mat.forM' 0 ny1 sum (fun sum j => do
        let yl ← aget m.ynodes j
        let yr ← aget m.ynodes (j + 1)
        let dy := yr - yl
        let v (a b : Nat) : Res K := do
          let row ← aget m.vars (a * m.ny + b)
          aget row var
        let f00 ← v i j
        let f10 ← v (i + 1) j
        let f01 ← v i (j + 1)
        let f11 ← v (i + 1) (j + 1)
        pure (sum + Mesh2.quarter * dx * dy * (g f00 + g f10 + g f01 + g f11))))
    (Nat.zero_le _) (by simp) (by
      intro i s0 _ hi hs0
      have hi0 : i < m.xnodes.size := by rw [h.2.1]; omega
      have hi1 : i + 1 < m.xnodes.size := by rw [h.2.1]; omega
      have hny : 1 ≤ m.ny := hy (by omega)
      obtain ⟨s, hs1, hs2⟩ := Mat.forM'_inv
        (fun k (s : K) => s = s0 + ∑ j ∈ Finset.range k, cell2 g m var i j)
        0 (m.ny - 1) s0
        (fun sum j => do
          let yl ← aget m.ynodes j
          let yr ← aget m.ynodes (j + 1)
          let dy := yr - yl
          let v (a b : Nat) : Res K := do
            let row ← aget m.vars (a * m.ny + b)
            aget row var
          let f00 ← v i j
          let f10 ← v (i + 1) j
          let f01 ← v i (j + 1)
          let f11 ← v (i + 1) (j + 1)
          pure (sum + Mesh2.quarter * (nodeX2 m (i + 1) - nodeX2 m i) * dy
            * (g f00 + g f10 + g f01 + g f11)))
        (Nat.zero_le _) (by simp) (by
          intro j s _ hj hsj
          have hj0 : j < m.ynodes.size := by rw [h.2.2]; omega
          have hj1 : j + 1 < m.ynodes.size := by rw [h.2.2]; omega
          have h00 : i * m.ny + j < m.vars.size := by
            rw [h.1]; exact Mat.idx_lt (by omega) (by omega)
          have h10 : (i + 1) * m.ny + j < m.vars.size := by
            rw [h.1]; exact Mat.idx_lt (by omega) (by omega)
          have h01 : i * m.ny + (j + 1) < m.vars.size := by
            rw [h.1]; exact Mat.idx_lt (by omega) (by omega)
          have h11 : (i + 1) * m.ny + (j + 1) < m.vars.size := by
            rw [h.1]; exact Mat.idx_lt (by omega) (by omega)
          refine ⟨s + cell2 g m var i j, ?_, ?_⟩
          · simp only [aget_nodeY2 m hj0, aget_nodeY2 m hj1, Mat.aget_ok h00, Mat.aget_ok h10,
              Mat.aget_ok h01, Mat.aget_ok h11, aget_val2 m hs h00 hv, aget_val2 m hs h10 hv,
              aget_val2 m hs h01 hv, aget_val2 m hs h11 hv, bind, Except.bind, pure, Except.pure,
              cell2]
          · rw [Finset.sum_range_succ, hsj, add_assoc])
      refine ⟨s, ?_, ?_⟩
      · simp only [aget_nodeX2 m hi0, aget_nodeX2 m hi1, usub_one_ok hny, bind, Except.bind]
        exact hs1
      · rw [Finset.sum_range_succ, hs2, hs0])
  exact hs1

/-- `trapezium(var)` on the 2-D mesh: the ordered double sum of
    `quarter · dx · dy · (f00 + f10 + f01 + f11)` -/
theorem trapezium2D_cells (m : Mesh2 K K) (h : WF2 m) (hs : Sized2 m) (hx : 1 ≤ m.nx)
    (hy : 2 ≤ m.nx → 1 ≤ m.ny) {var : Nat} (hv : var < m.nvars) :
    Mesh2.trapezium m var = .ok (∑ i ∈ Finset.range (m.nx - 1), ∑ j ∈ Finset.range (m.ny - 1),
      (Mesh2.quarter : K) * (nodeX2 m (i + 1) - nodeX2 m i) * (nodeY2 m (j + 1) - nodeY2 m j) *
        (val2 m i j var + val2 m (i + 1) j var + val2 m i (j + 1) var
          + val2 m (i + 1) (j + 1) var)) :=
  trapWith_cells id m h hs hx hy hv

/-- `square_trapezium(var)`: the same double sum with `|f|²` (as `powf (fabs f) 2`) at the corners -/
theorem squareTrapezium_cells (m : Mesh2 K K) (h : WF2 m) (hs : Sized2 m) (hx : 1 ≤ m.nx)
    (hy : 2 ≤ m.nx → 1 ≤ m.ny) {var : Nat} (hv : var < m.nvars) :
    Mesh2.squareTrapezium m var = .ok (∑ i ∈ Finset.range (m.nx - 1),
      ∑ j ∈ Finset.range (m.ny - 1), cell2 (fun x => powf (fabs x) (1 + 1)) m var i j) :=
  trapWith_cells _ m h hs hx hy hv

/-- an empty x direction, or an empty y direction with at least one cell column, is a usize
    underflow -/
theorem trapWith_empty (g : K → K) (m : Mesh2 K K) {var : Nat}
    (h : m.nx = 0 ∨ (2 ≤ m.nx ∧ 2 ≤ m.xnodes.size ∧ m.ny = 0)) :
    Mesh2.trapWith g m var = .error .arith := by
  unfold Mesh2.trapWith
  rcases h with h | ⟨h1, h2, h3⟩
  · rw [h]; rfl
  · rw [usub_one_ok (by omega)]
    show Mat.forM' 0 (m.nx - 1) (0 : K) _ = _
    apply Mat.forM'_first_error 0 (m.nx - 1) _ _ _ (by omega)
    simp only [Mat.aget_ok (show 0 < m.xnodes.size by omega),
      Mat.aget_ok (show 0 + 1 < m.xnodes.size by omega), h3, usub_one_err, bind, Except.bind]

/-- **exactness for bilinear data**: if `f_ij = a + b x_i + c y_j + d x_i y_j` at every grid node,
    the composite rule collapses to the single-cell rule on the whole rectangle (for ANY value of
    `quarter`; the double sum telescopes) -/
theorem trapezium2D_bilinear (m : Mesh2 K K) (h : WF2 m) (hs : Sized2 m) (hx : 1 ≤ m.nx)
    (hy : 1 ≤ m.ny) {var : Nat} (hv : var < m.nvars) (a b c d : K)
    (hf : ∀ i j, i < m.nx → j < m.ny →
      val2 m i j var = a + b * nodeX2 m i + c * nodeY2 m j + d * nodeX2 m i * nodeY2 m j) :
    Mesh2.trapezium m var = .ok ((Mesh2.quarter : K) * (nodeX2 m (m.nx - 1) - nodeX2 m 0) *
      (nodeY2 m (m.ny - 1) - nodeY2 m 0) *
      (val2 m 0 0 var + val2 m (m.nx - 1) 0 var + val2 m 0 (m.ny - 1) var
        + val2 m (m.nx - 1) (m.ny - 1) var)) := by
  rw [trapezium2D_cells m h hs hx (fun _ => hy) hv]
  congr 1
  obtain ⟨G, hG⟩ : ∃ G : Nat → Nat → K, G = fun i j => (Mesh2.quarter : K) *
      (4 * a * nodeX2 m i * nodeY2 m j + 2 * b * nodeX2 m i ^ 2 * nodeY2 m j
        + 2 * c * nodeX2 m i * nodeY2 m j ^ 2 + d * nodeX2 m i ^ 2 * nodeY2 m j ^ 2) := ⟨_, rfl⟩
  obtain ⟨L, hL⟩ : ∃ L : Nat → K, L = fun i => G i (m.ny - 1) - G i 0 := ⟨_, rfl⟩
  have inner : ∀ i ∈ Finset.range (m.nx - 1),
      (∑ j ∈ Finset.range (m.ny - 1),
        (Mesh2.quarter : K) * (nodeX2 m (i + 1) - nodeX2 m i) * (nodeY2 m (j + 1) - nodeY2 m j) *
          (val2 m i j var + val2 m (i + 1) j var + val2 m i (j + 1) var
            + val2 m (i + 1) (j + 1) var)) = L (i + 1) - L i := by
    intro i hi
    have hi' : i < m.nx - 1 := Finset.mem_range.mp hi
    obtain ⟨H, hH⟩ : ∃ H : Nat → K, H = fun j => G (i + 1) j - G i j := ⟨_, rfl⟩
    have e : ∀ j ∈ Finset.range (m.ny - 1),
        (Mesh2.quarter : K) * (nodeX2 m (i + 1) - nodeX2 m i) * (nodeY2 m (j + 1) - nodeY2 m j) *
          (val2 m i j var + val2 m (i + 1) j var + val2 m i (j + 1) var
            + val2 m (i + 1) (j + 1) var) = H (j + 1) - H j := by
      intro j hj
      have hj' : j < m.ny - 1 := Finset.mem_range.mp hj
      rw [hf i j (by omega) (by omega), hf (i + 1) j (by omega) (by omega),
        hf i (j + 1) (by omega) (by omega), hf (i + 1) (j + 1) (by omega) (by omega), hH, hG]
      ring
    rw [Finset.sum_congr rfl e, sum_range_tele, hH, hL]
    ring
  rw [Finset.sum_congr rfl inner, sum_range_tele, hL, hG, hf 0 0 (by omega) (by omega),
    hf (m.nx - 1) 0 (by omega) (by omega), hf 0 (m.ny - 1) (by omega) (by omega),
    hf (m.nx - 1) (m.ny - 1) (by omega) (by omega)]
  ring

/-- with `half = 1/2` the rule returns the exact integral of the bilinear function
    `a + b x + c y + d x y` over `[x_0, x_{nx-1}] × [y_0, y_{ny-1}]` -/
theorem trapezium2D_bilinear_exact (m : Mesh2 K K) (h : WF2 m) (hs : Sized2 m) (hx : 1 ≤ m.nx)
    (hy : 1 ≤ m.ny) {var : Nat} (hv : var < m.nvars) (a b c d : K)
    (hhalf : (half : K) + half = 1)
    (hf : ∀ i j, i < m.nx → j < m.ny →
      val2 m i j var = a + b * nodeX2 m i + c * nodeY2 m j + d * nodeX2 m i * nodeY2 m j) :
    Mesh2.trapezium m var = .ok (
      a * (nodeX2 m (m.nx - 1) - nodeX2 m 0) * (nodeY2 m (m.ny - 1) - nodeY2 m 0)
      + b * (nodeX2 m (m.nx - 1) ^ 2 - nodeX2 m 0 ^ 2) / 2 * (nodeY2 m (m.ny - 1) - nodeY2 m 0)
      + c * (nodeX2 m (m.nx - 1) - nodeX2 m 0) * (nodeY2 m (m.ny - 1) ^ 2 - nodeY2 m 0 ^ 2) / 2
      + d * (nodeX2 m (m.nx - 1) ^ 2 - nodeX2 m 0 ^ 2) / 2
          * (nodeY2 m (m.ny - 1) ^ 2 - nodeY2 m 0 ^ 2) / 2) := by
  rw [trapezium2D_bilinear m h hs hx hy hv a b c d hf, hf 0 0 (by omega) (by omega),
    hf (m.nx - 1) 0 (by omega) (by omega), hf 0 (m.ny - 1) (by omega) (by omega),
    hf (m.nx - 1) (m.ny - 1) (by omega) (by omega)]
  congr 1
  have h2 : (2 : K) ≠ 0 := by
    intro h2
    have : (half : K) + half = 0 := by
      have : (half : K) + half = 2 * half := by ring
      rw [this, h2, zero_mul]
    rw [this] at hhalf; exact zero_ne_one hhalf
  have hh : (half : K) = 1 / 2 := by
    field_simp
    rw [← hhalf]; ring
  simp only [Mesh2.quarter]
  rw [hh]; field_simp; ring

/-! ### 1-D interpolation -/
section Interp
variable [IsStrictOrderedRing K]

/-- stored vector of node `k` (total accessor) -/
def nodeV (m : Mesh1 K K) (k : Nat) : Array K := m.vars.getD k #[]

/-- the vector a matching cell writes: `left + ((right − left) / (xr − xl)) · (x − xl)` -/
def lerp (L R : Array K) (xl xr x : K) : Array K :=
  Array.zipWith (· + ·) L (((Array.zipWith (· - ·) R L).map (· / (xr - xl))).map (· * (x - xl)))

/-- the condition under which cell `c` overwrites the result -/
def hit (m : Mesh1 K K) (x : K) (c : Nat) : Prop :=
  (nodeX m c < x ∧ x < nodeX m (c + 1)) ∨ |nodeX m c - x| < snap ∨ |nodeX m (c + 1) - x| < snap

/-- loop body of `get_interpolated_vars` -/
def interpBody (m : Mesh1 K K) (x : K) : Array K → Nat → Res (Array K) := fun result node => do
  let xl ← aget m.nodes node
  let xr ← aget m.nodes (node + 1)
  if (ScalarExt.lt xl x && ScalarExt.lt x xr) || ScalarExt.lt (fabs (xl - x)) snap
      || ScalarExt.lt (fabs (xr - x)) snap then do
    let dx := x - xl
    let left ← Mesh1.getNodesVars m node
    let right ← Mesh1.getNodesVars m (node + 1)
    let diff ← Vec.sub right left
    let deriv := diff.map (· / (xr - xl))
    Vec.add left (deriv.map (· * dx))
  else pure result

theorem interpolate_eq (m : Mesh1 K K) (x : K) :
    Mesh1.interpolate m x = (do
      let n1 ← usub m.nodes.size 1
      Mat.forM' 0 n1 (Array.replicate m.nvars (0 : K)) (interpBody m x)) := rfl

theorem nodeV_eq (m : Mesh1 K K) {k : Nat} (hk : k < m.vars.size) : nodeV m k = m.vars[k] := by
  simp [nodeV, hk]

theorem nodeV_size (m : Mesh1 K K) (hs : Sized1 m) {k : Nat} (hk : k < m.vars.size) :
    (nodeV m k).size = m.nvars := by rw [nodeV_eq m hk]; exact hs k hk

theorem hit_iff (m : Mesh1 K K) (hfabs : ∀ a : K, fabs a = |a|) (x : K) (c : Nat) :
    (((ScalarExt.lt (nodeX m c) x && ScalarExt.lt x (nodeX m (c + 1)))
      || ScalarExt.lt (fabs (nodeX m c - x)) snap
      || ScalarExt.lt (fabs (nodeX m (c + 1) - x)) snap) = true) ↔ hit m x c := by
  simp [hit, hfabs, or_assoc]

theorem interpBody_hit (m : Mesh1 K K) (h : WF1 m) (hs : Sized1 m) (hfabs : ∀ a : K, fabs a = |a|)
    (x : K) (r : Array K) {c : Nat} (hc : c + 1 < m.nodes.size) (hh : hit m x c) :
    interpBody m x r c =
      .ok (lerp (nodeV m c) (nodeV m (c + 1)) (nodeX m c) (nodeX m (c + 1)) x) := by
  have hc0 : c < m.nodes.size := by omega
  have hv0 : c < m.vars.size := by rw [h]; omega
  have hv1 : c + 1 < m.vars.size := by rw [h]; omega
  have hn0 : ¬ c ≥ m.nodes.size := by omega
  have hn1 : ¬ c + 1 ≥ m.nodes.size := by omega
  unfold interpBody
  simp only [aget_nodeX m hc0, aget_nodeX m hc, bind, Except.bind]
  rw [if_pos ((hit_iff m hfabs x c).mpr hh)]
  have e0 : Mesh1.getNodesVars m c = .ok (nodeV m c) := by
    simp only [Mesh1.getNodesVars, hn0, if_false]; rw [Mat.aget_ok hv0, nodeV_eq m hv0]
  have e1 : Mesh1.getNodesVars m (c + 1) = .ok (nodeV m (c + 1)) := by
    simp only [Mesh1.getNodesVars, hn1, if_false]; rw [Mat.aget_ok hv1, nodeV_eq m hv1]
  have s0 := nodeV_size m hs hv0
  have s1 := nodeV_size m hs hv1
  rw [e0, e1]
  simp [Vec.sub, Vec.add, s0, s1, lerp]

theorem interpBody_miss (m : Mesh1 K K) (hfabs : ∀ a : K, fabs a = |a|)
    (x : K) (r : Array K) {c : Nat} (hc : c + 1 < m.nodes.size) (hh : ¬ hit m x c) :
    interpBody m x r c = .ok r := by
  have hc0 : c < m.nodes.size := by omega
  unfold interpBody
  simp only [aget_nodeX m hc0, aget_nodeX m hc, bind, Except.bind]
  rw [if_neg (fun hb => hh ((hit_iff m hfabs x c).mp hb))]
  rfl

theorem lerp_size (L R : Array K) (xl xr x : K) (hsz : L.size = R.size) :
    (lerp L R xl xr x).size = L.size := by simp [lerp, hsz]

theorem lerp_getD (L R : Array K) (xl xr x : K) (hsz : L.size = R.size) {v : Nat}
    (hv : v < L.size) :
    (lerp L R xl xr x)[v]? = some (L.getD v 0 + (R.getD v 0 - L.getD v 0) / (xr - xl) * (x - xl)) := by
  have hv' : v < R.size := by omega
  simp [lerp, hv, hv']

/-- at the right end of the cell the formula returns the right node's vector (needs `xr ≠ xl`) -/
theorem lerp_right (L R : Array K) (xl xr : K) (hsz : L.size = R.size) (hne : xr ≠ xl) :
    lerp L R xl xr xr = R := by
  apply Array.ext
  · simp [lerp, hsz]
  · intro i h1 h2
    have hd : xr - xl ≠ 0 := sub_ne_zero.mpr hne
    simp only [lerp, Array.getElem_zipWith, Array.getElem_map]
    field_simp
    ring

/-- at the left end of the cell the formula returns the left node's vector -/
theorem lerp_left (L R : Array K) (xl xr : K) (hsz : L.size = R.size) :
    lerp L R xl xr xl = L := by
  apply Array.ext
  · simp [lerp, hsz]
  · intro i h1 h2
    simp [lerp]

/-- a mesh with one node has no cell: interpolation returns the zero vector whatever `x` is -/
theorem interp_single_node (m : Mesh1 K K) (hn : m.nodes.size = 1) (x : K) :
    Mesh1.interpolate m x = .ok (Array.replicate m.nvars (0 : K)) := by
  rw [interpolate_eq, hn]
  exact Mat.forM'_empty 0 0 _ (interpBody m x) (Nat.le_refl _)

/-- an empty mesh: `nodes.len() - 1` underflows -/
theorem interp_empty (m : Mesh1 K K) (hn : m.nodes.size = 0) (x : K) :
    Mesh1.interpolate m x = .error .arith := by
  rw [interpolate_eq, hn]; rfl

/-- **interpolation strictly inside a cell** (at distance at least `snap` from both ends):
    for sorted nodes only cell `k` matches and the result is, component by component,
    `left + ((right − left) / (x_{k+1} − x_k)) · (x − x_k)` -/
theorem interp_between (m : Mesh1 K K) (h : WF1 m) (hs : Sized1 m)
    (hfabs : ∀ a : K, fabs a = |a|) (hsnap : (0 : K) < snap)
    (hmono : ∀ a b, a ≤ b → b < m.nodes.size → nodeX m a ≤ nodeX m b)
    {k : Nat} (hk : k + 1 < m.nodes.size) (x : K)
    (hx1 : nodeX m k + snap ≤ x) (hx2 : x ≤ nodeX m (k + 1) - snap) :
    ∃ r, Mesh1.interpolate m x = .ok r ∧ r.size = m.nvars ∧
      ∀ v, v < m.nvars → r[v]? = some (val1 m k v +
        (val1 m (k + 1) v - val1 m k v) / (nodeX m (k + 1) - nodeX m k) * (x - nodeX m k)) := by
  rw [interpolate_eq, usub_one_ok (by omega)]
  obtain ⟨r, hr, hP1, hP2⟩ := Mat.forM'_inv
    (fun c (r : Array K) => (c ≤ k → r = Array.replicate m.nvars (0 : K)) ∧
      (k < c → r = lerp (nodeV m k) (nodeV m (k + 1)) (nodeX m k) (nodeX m (k + 1)) x))
    0 (m.nodes.size - 1) (Array.replicate m.nvars (0 : K)) (interpBody m x)
    (Nat.zero_le _) ⟨fun _ => rfl, fun hc => by omega⟩ (by
      intro c r _ hc ⟨p1, p2⟩
      have hc1 : c + 1 < m.nodes.size := by omega
      rcases Nat.lt_trichotomy c k with hck | hck | hck
      · -- cells to the left of `x`
        have m1 := hmono (c + 1) k (by omega) (by omega)
        have m0 := hmono c k (by omega) (by omega)
        have hmiss : ¬ hit m x c := by
          rintro (⟨_, q⟩ | q | q)
          · linarith
          · rw [abs_lt] at q; linarith [q.1]
          · rw [abs_lt] at q; linarith [q.1]
        exact ⟨r, interpBody_miss m hfabs x r hc1 hmiss,
          fun _ => p1 (by omega), fun hh => by omega⟩
      · subst hck
        have hhit : hit m x c := Or.inl ⟨by linarith, by linarith⟩
        exact ⟨_, interpBody_hit m h hs hfabs x r hc1 hhit, fun hh => by omega, fun _ => rfl⟩
      · -- cells to the right of `x`
        have m0 := hmono (k + 1) c (by omega) (by omega)
        have m1 := hmono (k + 1) (c + 1) (by omega) (by omega)
        have hmiss : ¬ hit m x c := by
          rintro (⟨q, _⟩ | q | q)
          · linarith
          · rw [abs_lt] at q; linarith [q.2]
          · rw [abs_lt] at q; linarith [q.2]
        exact ⟨r, interpBody_miss m hfabs x r hc1 hmiss,
          fun hh => by omega, fun _ => p2 hck⟩)
  have hv0 : k < m.vars.size := by rw [h]; omega
  have hv1 : k + 1 < m.vars.size := by rw [h]; omega
  have s0 := nodeV_size m hs hv0
  have s1 := nodeV_size m hs hv1
  refine ⟨r, hr, ?_, ?_⟩
  · rw [hP2 (by omega), lerp_size _ _ _ _ _ (by rw [s0, s1]), s0]
  · intro v hv
    rw [hP2 (by omega), lerp_getD _ _ _ _ _ (by rw [s0, s1]) (by rw [s0]; exact hv)]
    rfl

/-- sortedness from non-negative consecutive gaps -/
theorem mono_of_gaps (m : Mesh1 K K)
    (hgap : ∀ a, a + 1 < m.nodes.size → nodeX m a ≤ nodeX m (a + 1)) :
    ∀ a b, a ≤ b → b < m.nodes.size → nodeX m a ≤ nodeX m b := by
  intro a b hab
  induction b, hab using Nat.le_induction with
  | base => intro _; exact le_refl _
  | succ b hb ih => intro hlt; exact le_trans (ih (by omega)) (hgap b hlt)

/-- **interpolation at a node** (any node, end nodes included, of a mesh with at least one cell):
    if every gap between consecutive nodes is at least the snapping window `snap > 0`, then
    interpolating at `x = x_k` returns exactly the vector stored at node `k`.
    (Cells `k-1` and `k` both match; the first gives `left + ((right-left)/d)·d = right`, which
    is exact in a field, the second `left + …·0 = left`.) -/
theorem interp_at_node (m : Mesh1 K K) (h : WF1 m) (hs : Sized1 m)
    (hfabs : ∀ a : K, fabs a = |a|) (hsnap : (0 : K) < snap)
    (hgap : ∀ a, a + 1 < m.nodes.size → snap ≤ nodeX m (a + 1) - nodeX m a)
    (hn : 2 ≤ m.nodes.size) {k : Nat} (hk : k < m.nodes.size) :
    Mesh1.interpolate m (nodeX m k) = Mesh1.getNodesVars m k := by
  have hmono := mono_of_gaps m (fun a ha => by linarith [hgap a ha])
  have hvk : k < m.vars.size := by rw [h]; exact hk
  have hget : Mesh1.getNodesVars m k = .ok (nodeV m k) := by
    have : ¬ k ≥ m.nodes.size := by omega
    simp only [Mesh1.getNodesVars, this, if_false]; rw [Mat.aget_ok hvk, nodeV_eq m hvk]
  rw [hget, interpolate_eq, usub_one_ok (by omega)]
  obtain ⟨r, hr, hP1, hP2⟩ := Mat.forM'_inv
    (fun c (r : Array K) => ((c + 1 ≤ k ∨ c = 0) → r = Array.replicate m.nvars (0 : K)) ∧
      ((k ≤ c ∧ 1 ≤ c) → r = nodeV m k))
    0 (m.nodes.size - 1) (Array.replicate m.nvars (0 : K)) (interpBody m (nodeX m k))
    (Nat.zero_le _) ⟨fun _ => rfl, fun hc => by omega⟩ (by
      intro c r _ hc ⟨p1, p2⟩
      have hc1 : c + 1 < m.nodes.size := by omega
      have hv0 : c < m.vars.size := by rw [h]; omega
      have hv1 : c + 1 < m.vars.size := by rw [h]; omega
      have s0 := nodeV_size m hs hv0
      have s1 := nodeV_size m hs hv1
      by_cases hck1 : c + 1 < k
      · -- cells strictly to the left of cell k-1
        have m1 := hmono (c + 1) (k - 1) (by omega) (by omega)
        have m0 := hmono c (k - 1) (by omega) (by omega)
        have g := hgap (k - 1) (by omega)
        have ek : k - 1 + 1 = k := by omega
        rw [ek] at g
        have hmiss : ¬ hit m (nodeX m k) c := by
          rintro (⟨_, q⟩ | q | q)
          · linarith
          · rw [abs_lt] at q; linarith [q.1]
          · rw [abs_lt] at q; linarith [q.1]
        exact ⟨r, interpBody_miss m hfabs _ r hc1 hmiss,
          fun _ => p1 (by omega), fun hh => by omega⟩
      · by_cases hck2 : c + 1 = k
        · -- cell k-1 : snaps to its right end
          subst hck2
          have hhit : hit m (nodeX m (c + 1)) c := Or.inr (Or.inr (by simpa using hsnap))
          have g := hgap c hc1
          have hne : nodeX m (c + 1) ≠ nodeX m c := by
            intro e; rw [e] at g; linarith
          refine ⟨_, interpBody_hit m h hs hfabs _ r hc1 hhit, fun hh => by omega, fun _ => ?_⟩
          exact lerp_right _ _ _ _ (by rw [s0, s1]) hne
        · by_cases hck3 : c = k
          · -- cell k : snaps to its left end
            subst hck3
            have hhit : hit m (nodeX m c) c := Or.inr (Or.inl (by simpa using hsnap))
            refine ⟨_, interpBody_hit m h hs hfabs _ r hc1 hhit, fun hh => by omega, fun _ => ?_⟩
            exact lerp_left _ _ _ _ (by rw [s0, s1])
          · -- cells to the right
            have m0 := hmono (k + 1) c (by omega) (by omega)
            have m1 := hmono (k + 1) (c + 1) (by omega) (by omega)
            have g := hgap k (by omega)
            have hmiss : ¬ hit m (nodeX m k) c := by
              rintro (⟨q, _⟩ | q | q)
              · linarith
              · rw [abs_lt] at q; linarith [q.2]
              · rw [abs_lt] at q; linarith [q.2]
            exact ⟨r, interpBody_miss m hfabs _ r hc1 hmiss,
              fun hh => by omega, fun _ => p2 (by omega)⟩)
  rw [← hP2 (by omega)]
  exact hr

end Interp

end Exact

/-! ## (R) the same statements at `ℝ` with the real interpretation of the `f64`-only constants
    (`half = 1/2`, `snap = 10⁻⁷`, `fabs = |·|`): the hypotheses about the `Transc` instance are
    satisfiable, and the quadrature rules are exact for (bi)linear data -/
section Real
open Ohsl.RealI Transc

theorem real_half : (half : ℝ) + half = 1 := by
  show (1 / 2 : ℝ) + 1 / 2 = 1
  norm_num

theorem real_snap_pos : (0 : ℝ) < snap := by
  show (0 : ℝ) < 1 / 10 ^ 7
  positivity

theorem real_fabs (a : ℝ) : fabs a = |a| := rfl

theorem trapezium_linear_exact_real (m : Mesh1 ℝ ℝ) (h : WF1 m) (hs : Sized1 m)
    (hn : 1 ≤ m.nodes.size) {var : Nat} (hv : var < m.nvars) (α β : ℝ)
    (hf : ∀ k, k < m.nodes.size → val1 m k var = α * nodeX m k + β) :
    Mesh1.trapezium m var = .ok (α * (nodeX m (m.nodes.size - 1) ^ 2 - nodeX m 0 ^ 2) / 2 +
      β * (nodeX m (m.nodes.size - 1) - nodeX m 0)) :=
  trapezium_linear_exact m h hs hn hv α β real_half hf

theorem trapezium2D_bilinear_exact_real (m : Mesh2 ℝ ℝ) (h : WF2 m) (hs : Sized2 m)
    (hx : 1 ≤ m.nx) (hy : 1 ≤ m.ny) {var : Nat} (hv : var < m.nvars) (a b c d : ℝ)
    (hf : ∀ i j, i < m.nx → j < m.ny →
      val2 m i j var = a + b * nodeX2 m i + c * nodeY2 m j + d * nodeX2 m i * nodeY2 m j) :
    Mesh2.trapezium m var = .ok (
      a * (nodeX2 m (m.nx - 1) - nodeX2 m 0) * (nodeY2 m (m.ny - 1) - nodeY2 m 0)
      + b * (nodeX2 m (m.nx - 1) ^ 2 - nodeX2 m 0 ^ 2) / 2 * (nodeY2 m (m.ny - 1) - nodeY2 m 0)
      + c * (nodeX2 m (m.nx - 1) - nodeX2 m 0) * (nodeY2 m (m.ny - 1) ^ 2 - nodeY2 m 0 ^ 2) / 2
      + d * (nodeX2 m (m.nx - 1) ^ 2 - nodeX2 m 0 ^ 2) / 2
          * (nodeY2 m (m.ny - 1) ^ 2 - nodeY2 m 0 ^ 2) / 2) :=
  trapezium2D_bilinear_exact m h hs hx hy hv a b c d real_half hf

theorem interp_between_real (m : Mesh1 ℝ ℝ) (h : WF1 m) (hs : Sized1 m)
    (hmono : ∀ a b, a ≤ b → b < m.nodes.size → nodeX m a ≤ nodeX m b)
    {k : Nat} (hk : k + 1 < m.nodes.size) (x : ℝ)
    (hx1 : nodeX m k + 1 / 10 ^ 7 ≤ x) (hx2 : x ≤ nodeX m (k + 1) - 1 / 10 ^ 7) :
    ∃ r, Mesh1.interpolate m x = .ok r ∧ r.size = m.nvars ∧
      ∀ v, v < m.nvars → r[v]? = some (val1 m k v +
        (val1 m (k + 1) v - val1 m k v) / (nodeX m (k + 1) - nodeX m k) * (x - nodeX m k)) :=
  interp_between m h hs real_fabs real_snap_pos hmono hk x hx1 hx2

theorem interp_at_node_real (m : Mesh1 ℝ ℝ) (h : WF1 m) (hs : Sized1 m)
    (hgap : ∀ a, a + 1 < m.nodes.size → (1 / 10 ^ 7 : ℝ) ≤ nodeX m (a + 1) - nodeX m a)
    (hn : 2 ≤ m.nodes.size) {k : Nat} (hk : k < m.nodes.size) :
    Mesh1.interpolate m (nodeX m k) = Mesh1.getNodesVars m k :=
  interp_at_node m h hs real_fabs real_snap_pos hgap hn hk

/-- the hypotheses of the interpolation theorems are satisfiable: the three-node mesh
    `x = 0, 1, 3` carrying one variable -/
example : ∃ m : Mesh1 ℝ ℝ, WF1 m ∧ Sized1 m ∧ 2 ≤ m.nodes.size ∧
    (∀ a, a + 1 < m.nodes.size → (1 / 10 ^ 7 : ℝ) ≤ nodeX m (a + 1) - nodeX m a) ∧
    nodeX m 1 + 1 / 10 ^ 7 ≤ 2 ∧ (2 : ℝ) ≤ nodeX m 2 - 1 / 10 ^ 7 := by
  refine ⟨⟨1, #[0, 1, 3], #[#[5], #[7], #[2]]⟩, rfl, ?_, by simp, ?_, ?_, ?_⟩
  · intro k hk
    have hk' : k < 3 := by simpa using hk
    rcases (by omega : k = 0 ∨ k = 1 ∨ k = 2) with rfl | rfl | rfl <;> rfl
  · intro a ha
    have ha' : a + 1 < 3 := by simpa using ha
    rcases (by omega : a = 0 ∨ a = 1) with rfl | rfl <;> simp [nodeX] <;> norm_num
  · simp [nodeX]; norm_num
  · simp [nodeX]; norm_num

end Real

end Ohsl.Props.C19
