/-
  Property C17 — convergence of the SCALAR Newton iteration from inside the basin of a simple root
  (class R: exact real arithmetic).  The theorems are proved in Ohsl/Props/C18R.lean (section Newton,
  next to the accuracy of the difference quotients they rest on); they are re-exported here under the
  property they decide, so that the C17 check audits them.
-/
import Ohsl.Props.C18R
namespace Ohsl.Props.C17
section Real

alias centraldiff_error := Ohsl.Props.C18.centraldiff_error
alias newton_step_general := Ohsl.Props.C18.newton_step_general
alias newton_scalar_fd_step := Ohsl.Props.C18.newton_scalar_fd_step
alias newton_scalar_model_step := Ohsl.Props.C18.newton_scalar_model_step
alias solveScalar_real_char := Ohsl.Props.C18.solveScalar_real_char
alias newton_scalar_fd_converges := Ohsl.Props.C18.newton_scalar_fd_converges
alias newton_scalar_fd_tendsto := Ohsl.Props.C18.newton_scalar_fd_tendsto
alias newton_scalar_model_converges := Ohsl.Props.C18.newton_scalar_model_converges
alias newton_scalar_model_success_within_tol := Ohsl.Props.C18.newton_scalar_model_success_within_tol

end Real
end Ohsl.Props.C17
