/-
  Property C14 — complex functions (model: Ohsl/Model/CxFun.lean), interpreted over ℝ with
  Mathlib's real functions (Ohsl/Lemmas/RealTransc.lean) and transported to Mathlib's ℂ by `toC`.
  Proved here, class (R): the model's exp, sin, cos, sinh, cosh ARE Mathlib's complex functions;
  ln has real part log|z| and imaginary part arg z ∈ (−π, π]; |z| is the complex norm; polar form
  round-trips; tan/sec/csc/cot/tanh/sech/csch/coth are by definition the quotients / reciprocals;
  on the real axis the functions reduce to the real ones.
  NOT proved: agreement to a few ulps in f64, and the behaviour of signed zeros on the cuts
  (class F; ℝ has one zero) — bit-exact correspondence + sampled oracle only.
-/
import Ohsl.Lemmas.RealTransc
set_option linter.unusedSectionVars false
namespace Ohsl.Props.C14
open Ohsl Ohsl.Cx Ohsl.RealI Real

theorem toC_mk (a b : ℝ) : toC ⟨a, b⟩ = ⟨a, b⟩ := rfl

/-- exp -/
theorem cexp_eq (z : Cx ℝ) : toC (cexp z) = Complex.exp (toC z) := by
  apply Complex.ext
  · simp [toC, cexp, Transc.exp, Transc.cos, Complex.exp_re]
  · simp [toC, cexp, Transc.exp, Transc.sin, Complex.exp_im]

/-- sin, cos -/
theorem csin_eq (z : Cx ℝ) : toC (csin z) = Complex.sin (toC z) := by
  rw [Complex.sin_eq]
  apply Complex.ext <;>
    simp [toC, csin, Transc.sin, Transc.cos, Transc.sinh, Transc.cosh, ← Complex.ofReal_sin, ← Complex.ofReal_cos,
      ← Complex.ofReal_sinh, ← Complex.ofReal_cosh]
theorem ccos_eq (z : Cx ℝ) : toC (ccos z) = Complex.cos (toC z) := by
  rw [Complex.cos_eq]
  apply Complex.ext <;>
    simp [toC, ccos, Transc.sin, Transc.cos, Transc.sinh, Transc.cosh, ← Complex.ofReal_sin, ← Complex.ofReal_cos,
      ← Complex.ofReal_sinh, ← Complex.ofReal_cosh]

/-- sinh, cosh -/
theorem csinh_eq (z : Cx ℝ) : toC (csinh z) = Complex.sinh (toC z) := by
  have hz : toC z = (z.re : ℂ) + (z.im : ℂ) * Complex.I := by
    apply Complex.ext <;> simp [toC]
  rw [hz, Complex.sinh_add, Complex.cosh_mul_I, Complex.sinh_mul_I]
  apply Complex.ext <;>
    simp [toC, csinh, Transc.sin, Transc.cos, Transc.sinh, Transc.cosh, ← Complex.ofReal_sin, ← Complex.ofReal_cos,
      ← Complex.ofReal_sinh, ← Complex.ofReal_cosh]
theorem ccosh_eq (z : Cx ℝ) : toC (ccosh z) = Complex.cosh (toC z) := by
  have hz : toC z = (z.re : ℂ) + (z.im : ℂ) * Complex.I := by
    apply Complex.ext <;> simp [toC]
  rw [hz, Complex.cosh_add, Complex.cosh_mul_I, Complex.sinh_mul_I]
  apply Complex.ext <;>
    simp [toC, ccosh, Transc.sin, Transc.cos, Transc.sinh, Transc.cosh, ← Complex.ofReal_sin, ← Complex.ofReal_cos,
      ← Complex.ofReal_sinh, ← Complex.ofReal_cosh]

/-- modulus and argument -/
theorem abs_eq (z : Cx ℝ) : Cx.abs z = ‖toC z‖ := by
  simp [Cx.abs, absSqr, Transc.sqrt, toC, Complex.norm_def, Complex.normSq_apply]
theorem arg_eq (z : Cx ℝ) : Cx.arg z = Complex.arg (toC z) := rfl

/-- principal branch of the logarithm: Im ln z = arg z ∈ (−π, π], Re ln z = log |z| -/
theorem cln_eq (z : Cx ℝ) : toC (cln z) = Complex.log (toC z) := by
  apply Complex.ext
  · simp [toC, cln, Transc.ln, Complex.log_re, abs_eq]
  · simp [toC, cln, Complex.log_im, arg_eq]
theorem cln_im_range (z : Cx ℝ) : -π < (cln z).im ∧ (cln z).im ≤ π := by
  show -π < Complex.arg (toC z) ∧ Complex.arg (toC z) ≤ π
  exact ⟨Complex.neg_pi_lt_arg _, Complex.arg_le_pi _⟩

/-- exp (ln z) = z for z ≠ 0 -/
theorem cexp_cln (z : Cx ℝ) (hz : toC z ≠ 0) : toC (cexp (cln z)) = toC z := by
  rw [cexp_eq, cln_eq, Complex.exp_log hz]

/-- polar form round trip -/
theorem polar_abs_arg (z : Cx ℝ) : toC (polar (Cx.abs z) (Cx.arg z)) = toC z := by
  have h := Complex.norm_mul_exp_arg_mul_I (toC z)
  rw [abs_eq, arg_eq]
  apply Complex.ext
  · have := congrArg Complex.re h
    simpa [toC, polar, Transc.cos, Complex.exp_re, Complex.mul_re] using this
  · have := congrArg Complex.im h
    simpa [toC, polar, Transc.sin, Complex.exp_im, Complex.mul_im] using this

/-- quotient / reciprocal functions are what their names say (definitional) -/
theorem quotient_defs (z : Cx ℝ) :
    ctan z = divT (csin z) (ccos z) ∧ csec z = divT 1 (ccos z) ∧ ccsc z = divT 1 (csin z) ∧
    ccot z = divT 1 (ctan z) ∧ ctanh z = divT (csinh z) (ccosh z) ∧ csech z = divT 1 (ccosh z) ∧
    ccsch z = divT 1 (csinh z) ∧ ccoth z = divT 1 (ctanh z) := ⟨rfl, rfl, rfl, rfl, rfl, rfl, rfl, rfl⟩

/-- the total complex quotient of the model is Mathlib's complex division -/
theorem divT_eq (a b : Cx ℝ) : toC (divT a b) = toC a / toC b := by
  by_cases hb : toC b = 0
  · have h1 : b.re = 0 := by simpa [toC] using congrArg Complex.re hb
    have h2 : b.im = 0 := by simpa [toC] using congrArg Complex.im hb
    simp [hb]
    apply Complex.ext <;> simp [toC, divT, h1, h2]
  · have hn : b.re * b.re + b.im * b.im ≠ 0 := by
      intro h
      apply hb
      have h1 : b.re = 0 := by nlinarith [mul_self_nonneg b.re, mul_self_nonneg b.im]
      have h2 : b.im = 0 := by nlinarith [mul_self_nonneg b.re, mul_self_nonneg b.im]
      apply Complex.ext <;> simp [toC, h1, h2]
    have hn' : b.re ^ 2 + b.im ^ 2 ≠ 0 := by simpa [sq] using hn
    rw [eq_div_iff hb]
    apply Complex.ext
    · simp [toC, divT, Complex.mul_re]; field_simp; ring
    · simp [toC, divT, Complex.mul_im]; field_simp; ring

/-- tan is Mathlib's complex tangent -/
theorem ctan_eq (z : Cx ℝ) : toC (ctan z) = Complex.tan (toC z) := by
  rw [(quotient_defs z).1, divT_eq, csin_eq, ccos_eq, Complex.tan_eq_sin_div_cos]

/-- real-axis reduction -/
theorem real_axis (x : ℝ) :
    cexp ⟨x, 0⟩ = ⟨Real.exp x, 0⟩ ∧ csin ⟨x, 0⟩ = ⟨Real.sin x, 0⟩ ∧ ccos ⟨x, 0⟩ = ⟨Real.cos x, 0⟩ ∧
    csinh ⟨x, 0⟩ = ⟨Real.sinh x, 0⟩ ∧ ccosh ⟨x, 0⟩ = ⟨Real.cosh x, 0⟩ := by
  refine ⟨?_, ?_, ?_, ?_, ?_⟩ <;>
    simp [cexp, csin, ccos, csinh, ccosh, Transc.exp, Transc.sin, Transc.cos, Transc.sinh, Transc.cosh]

end Ohsl.Props.C14
