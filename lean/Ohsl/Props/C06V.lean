/-
  Property C06 (sparse matrix views / CSC well-formedness), part V — the RAW constructor
  `Sparse::from_vecs` (model `Sp.fromVecs`, Ohsl/Model/Sparse.lean).  Class (S): any scalar type
  (`Zero` for the fill value, `Mul` for `scale`); no algebraic law is used except in
  `fromVecs_entry_sum` (the denoted entry `Sp.entry` is a finite sum: commutative semiring).

  `from_vecs` validates NOTHING: it only reads `col_start[col_start.len() - 1]` into `nonzero`.  The
  theorems of C06W / C06H start from a storage satisfying `WF` and `C07.NoDup`; here these two
  hypotheses are replaced by explicit, decidable conditions on the five ARGUMENTS of `from_vecs`:
  * `ArraysOk rows cols val rowIndex colStart`  (shape of the arrays, exactly `WF` of the result:
    `fromVecs_wf_iff`) and `ArraysNoDup cols rowIndex colStart` (inside every column the row indices
    are pairwise distinct, in ANY order; exactly `C07.NoDup` of the result: `fromVecs_noDup`);
  * `fromVecs_ok`, `fromVecs_wf`, `fromVecs_noDup`: the call succeeds, the fields are the
    arguments, `nonzero = val.len()`, the result is well formed / duplicate free;
  * `slotOf`, `refOfArrays`: the entry function read off the arrays (first slot `k` of column `j`
    with `rowIndex[k] = i`, value `val[k]`); `fromVecs_refOf`, `fromVecs_entry`, `fromVecs_get`,
    `fromVecs_entry_sum`: it is what `refOf` / `firstSlot` / `get` / `Sp.entry` of the result give;
  * `fromVecs_rejects`, `fromVecs_total`: the only failure of the call is the empty `col_start`
    (`len() - 1` underflows: arithmetic panic); every other input is ACCEPTED, in particular inputs
    that violate `ArraysOk` (`fromVecs_unchecked`, `fromVecs_unchecked_len`): the hypothesis
    `ArraysOk` is not implied by success of the call;
  * `fromVecs_history`, `fromVecs_history_views`, `fromVecs_history_nonzero`: the history theorems
    of C06H instantiated at `from_vecs` of arrays satisfying `ArraysOk ∧ ArraysNoDup`.
-/
import Ohsl.Props.C06H
import Ohsl.Lemmas.Alg
set_option linter.unusedSectionVars false
set_option linter.unusedVariables false
set_option linter.unusedSimpArgs false
open Ohsl.Mat (forM' forM'_inv aget_ok aset_ok)
namespace Ohsl.Props.C06
open Ohsl Ohsl.Sp
variable {K : Type}

/-! ### 1. the conditions on the arrays -/

/-- the five arguments of `from_vecs` describe a compressed-column matrix: `col_start` has
    `cols + 1` entries, starts at 0, is non-decreasing and ends at `val.len()`; there is one row
    index per value and every row index is a row.  (Out-of-buffer reads are `0`, as in `Sp.cs` /
    `Sp.ri`; under the size conditions no read is out of the buffer.) -/
def ArraysOk (rows cols : Nat) (val : Array K) (rowIndex colStart : Array Nat) : Prop :=
  colStart.size = cols + 1 ∧
  colStart[0]? = some 0 ∧
  (∀ j, j < cols → colStart[j]?.getD 0 ≤ colStart[j + 1]?.getD 0) ∧
  colStart[cols]? = some val.size ∧
  rowIndex.size = val.size ∧
  (∀ k, k < val.size → rowIndex[k]?.getD 0 < rows)

/-- inside every column `j` (slots `colStart[j] ≤ k < colStart[j+1]`) the row indices are pairwise
    distinct; nothing is said about their ORDER -/
def ArraysNoDup (cols : Nat) (rowIndex colStart : Array Nat) : Prop :=
  ∀ j, j < cols → ∀ k, k < colStart[j + 1]?.getD 0 → ∀ k', k' < colStart[j + 1]?.getD 0 →
    colStart[j]?.getD 0 ≤ k → colStart[j]?.getD 0 ≤ k' →
    rowIndex[k]?.getD 0 = rowIndex[k']?.getD 0 → k = k'

instance (rows cols : Nat) (val : Array K) (rowIndex colStart : Array Nat) :
    Decidable (ArraysOk rows cols val rowIndex colStart) := by
  unfold ArraysOk; infer_instance

instance (cols : Nat) (rowIndex colStart : Array Nat) :
    Decidable (ArraysNoDup cols rowIndex colStart) := by
  unfold ArraysNoDup; exact Nat.decidableBallLT _ _

/-- the first slot of column `j` whose row index is `i` (read off the arrays alone) -/
def slotOf (rowIndex colStart : Array Nat) (i j : Nat) : Option Nat :=
  firstHit (fun k => decide (colStart[j]?.getD 0 ≤ k) && rowIndex[k]?.getD 0 == i)
    (colStart[j + 1]?.getD 0)

theorem slotOf_eq_some {rowIndex colStart : Array Nat} {i j k : Nat} :
    slotOf rowIndex colStart i j = some k ↔
      colStart[j]?.getD 0 ≤ k ∧ k < colStart[j + 1]?.getD 0 ∧ rowIndex[k]?.getD 0 = i ∧
      ∀ k', colStart[j]?.getD 0 ≤ k' → k' < k → rowIndex[k']?.getD 0 ≠ i := by
  unfold slotOf
  rw [firstHit_eq_some]
  simp only [Bool.and_eq_true, decide_eq_true_eq, beq_iff_eq, Bool.and_eq_false_imp, ne_eq,
    beq_eq_false_iff_ne]
  constructor
  · intro ⟨a, ⟨b, c⟩, d⟩
    exact ⟨b, a, c, fun k' h1 h2 => d k' h2 h1⟩
  · intro ⟨a, b, c, d⟩
    exact ⟨b, ⟨a, c⟩, fun k' h1 h2 => d k' h2 h1⟩

theorem slotOf_eq_none {rowIndex colStart : Array Nat} {i j : Nat} :
    slotOf rowIndex colStart i j = none ↔
      ∀ k, colStart[j]?.getD 0 ≤ k → k < colStart[j + 1]?.getD 0 → rowIndex[k]?.getD 0 ≠ i := by
  unfold slotOf
  rw [firstHit_eq_none]
  simp only [Bool.and_eq_false_imp, decide_eq_true_eq, ne_eq, beq_eq_false_iff_ne]
  constructor
  · intro h k a b; exact h k b a
  · intro h k a b; exact h k b a

/-- with duplicate-free columns the slot of a position is THE slot of the column holding the row -/
theorem slotOf_eq_some_of_noDup {cols : Nat} {rowIndex colStart : Array Nat}
    (hnd : ArraysNoDup cols rowIndex colStart) {i j k : Nat} (hj : j < cols) :
    slotOf rowIndex colStart i j = some k ↔
      colStart[j]?.getD 0 ≤ k ∧ k < colStart[j + 1]?.getD 0 ∧ rowIndex[k]?.getD 0 = i := by
  rw [slotOf_eq_some]
  constructor
  · intro ⟨a, b, c, _⟩; exact ⟨a, b, c⟩
  · intro ⟨a, b, c⟩
    refine ⟨a, b, c, ?_⟩
    intro k' h1 h2 e
    have := hnd j hj k b k' (by omega) a h1 (by rw [c, e])
    omega

/-- the reference matrix of the arrays: shape `rows × cols`, at `(i, j)` the value of the slot of
    column `j` holding row `i`, nothing if there is none -/
def refOfArrays [Zero K] (rows cols : Nat) (val : Array K) (rowIndex colStart : Array Nat) :
    Ref K :=
  ⟨rows, cols, fun i j => (slotOf rowIndex colStart i j).map (fun k => val[k]?.getD 0)⟩

/-! ### 2. `from_vecs` on good arrays -/

/-- under `ArraysOk` the call succeeds; the six fields are the arguments, `nonzero = val.len()` -/
theorem fromVecs_ok {rows cols : Nat} {val : Array K} {rowIndex colStart : Array Nat}
    (hok : ArraysOk rows cols val rowIndex colStart) :
    fromVecs rows cols val rowIndex colStart =
      .ok ⟨rows, cols, val.size, val, rowIndex, colStart⟩ := by
  obtain ⟨h1, _, _, h4, _, _⟩ := hok
  unfold fromVecs usub
  have e : (1 : Nat) ≤ colStart.size := by omega
  have e' : colStart.size - 1 = cols := by omega
  simp only [e, if_true, e', bind, Except.bind, Mat.aget_eq_ok.mpr h4, pure, Except.pure]

/-- the same, field by field -/
theorem fromVecs_fields {rows cols : Nat} {val : Array K} {rowIndex colStart : Array Nat}
    (hok : ArraysOk rows cols val rowIndex colStart) :
    ∃ s, fromVecs rows cols val rowIndex colStart = .ok s ∧ s.rows = rows ∧ s.cols = cols ∧
      s.nonzero = val.size ∧ s.val = val ∧ s.rowIndex = rowIndex ∧ s.colStart = colStart :=
  ⟨_, fromVecs_ok hok, rfl, rfl, rfl, rfl, rfl, rfl⟩

/-- `ArraysOk` is literally `WF` of the structure with `nonzero = val.len()` -/
theorem wf_mk_iff (rows cols : Nat) (val : Array K) (rowIndex colStart : Array Nat) :
    WF (⟨rows, cols, val.size, val, rowIndex, colStart⟩ : Sp K) ↔
      ArraysOk rows cols val rowIndex colStart := by
  constructor
  · intro h
    exact ⟨h.csSize, h.cs0, h.mono, h.csLast, h.riSize, h.riLt⟩
  · intro ⟨a, b, c, d, e, f⟩
    exact ⟨a, b, c, d, rfl, e, f⟩

/-- under `ArraysOk` the result of `from_vecs` is well formed -/
theorem fromVecs_wf {rows cols : Nat} {val : Array K} {rowIndex colStart : Array Nat}
    (hok : ArraysOk rows cols val rowIndex colStart) :
    ∃ s, fromVecs rows cols val rowIndex colStart = .ok s ∧ WF s :=
  ⟨_, fromVecs_ok hok, (wf_mk_iff _ _ _ _ _).mpr hok⟩

/-- `ArraysOk` is exactly what `WF` needs: `from_vecs` returns a well-formed storage IFF the arrays
    satisfy `ArraysOk` -/
theorem fromVecs_wf_iff (rows cols : Nat) (val : Array K) (rowIndex colStart : Array Nat) :
    (∃ s, fromVecs rows cols val rowIndex colStart = .ok s ∧ WF s) ↔
      ArraysOk rows cols val rowIndex colStart := by
  constructor
  · intro ⟨s, hs, h⟩
    unfold fromVecs usub at hs
    by_cases e : (1 : Nat) ≤ colStart.size
    · simp only [e, if_true, bind, Except.bind] at hs
      cases ha : aget colStart (colStart.size - 1) with
      | error x => rw [ha] at hs; cases hs
      | ok nz =>
        rw [ha] at hs
        simp only [pure, Except.pure] at hs
        injection hs with hs
        subst hs
        have hv : val.size = nz := h.valSize
        exact ⟨h.csSize, h.cs0, h.mono, by rw [hv]; exact h.csLast,
          by rw [hv]; exact h.riSize, by rw [hv]; exact h.riLt⟩
    · simp only [e, if_false, bind, Except.bind] at hs
      cases hs
  · exact fromVecs_wf

/-- `ArraysNoDup` is literally `C07.NoDup` of the structure -/
theorem noDup_mk_iff (rows cols nz : Nat) (val : Array K) (rowIndex colStart : Array Nat) :
    C07.NoDup (⟨rows, cols, nz, val, rowIndex, colStart⟩ : Sp K) ↔
      ArraysNoDup cols rowIndex colStart := by
  constructor
  · intro h j hj k b k' d a c e
    exact h j hj k k' a b c d e
  · intro h j hj k k' a b c d e
    exact h j hj k b k' d a c e

/-- under `ArraysOk`: the result of `from_vecs` is duplicate free IFF the arrays satisfy
    `ArraysNoDup` (rows in any order inside a column) -/
theorem fromVecs_noDup {rows cols : Nat} {val : Array K} {rowIndex colStart : Array Nat}
    (hok : ArraysOk rows cols val rowIndex colStart) :
    ∃ s, fromVecs rows cols val rowIndex colStart = .ok s ∧ WF s ∧
      (C07.NoDup s ↔ ArraysNoDup cols rowIndex colStart) :=
  ⟨_, fromVecs_ok hok, (wf_mk_iff _ _ _ _ _).mpr hok, noDup_mk_iff _ _ _ _ _ _⟩

/-- the two array conditions give a well-formed duplicate-free storage -/
theorem fromVecs_wf_noDup {rows cols : Nat} {val : Array K} {rowIndex colStart : Array Nat}
    (hok : ArraysOk rows cols val rowIndex colStart)
    (hnd : ArraysNoDup cols rowIndex colStart) :
    ∃ s, fromVecs rows cols val rowIndex colStart = .ok s ∧ WF s ∧ C07.NoDup s :=
  ⟨_, fromVecs_ok hok, (wf_mk_iff _ _ _ _ _).mpr hok, (noDup_mk_iff _ _ _ _ _ _).mpr hnd⟩

section Zero
variable [Zero K]

/-- the first slot of a position in the result (`firstSlot`: the slot `get` finds) is the first
    slot of the column holding the row, computed from the arrays (no duplicate-freeness needed) -/
theorem firstSlot_mk {rows cols : Nat} {val : Array K} {rowIndex colStart : Array Nat}
    (hok : ArraysOk rows cols val rowIndex colStart) (i j : Nat) :
    firstSlot (⟨rows, cols, val.size, val, rowIndex, colStart⟩ : Sp K) i j =
      slotOf rowIndex colStart i j := by
  have h := (wf_mk_iff _ _ _ _ _).mpr hok
  generalize hs : (⟨rows, cols, val.size, val, rowIndex, colStart⟩ : Sp K) = s at h
  have ecs : ∀ c, colStart[c]?.getD 0 = s.cs c := by intro c; subst hs; rfl
  have eri : ∀ k, rowIndex[k]?.getD 0 = s.ri k := by intro k; subst hs; rfl
  have ecols : s.cols = cols := by subst hs; rfl
  by_cases hj : j < s.cols
  · apply Option.ext
    intro k
    rw [firstSlot_eq_some, slotOf_eq_some]
    simp only [ecs, eri]
    constructor
    · intro ⟨a, ⟨b1, b2⟩, c⟩
      obtain ⟨d1, d2⟩ := (h.colOf_iff hj a).mp b2
      refine ⟨d1, d2, b1, ?_⟩
      intro k' h1 h2 e
      have hk' : k' < s.nonzero := by omega
      exact c k' h2 ⟨e, (h.colOf_iff hj hk').mpr ⟨h1, by omega⟩⟩
    · intro ⟨a, b, c, d⟩
      have hk := h.slot_lt hj b
      refine ⟨hk, ⟨c, h.colOf_eq hj a b⟩, ?_⟩
      intro k' h2 ⟨e1, e2⟩
      have hk' : k' < s.nonzero := by omega
      exact d k' ((h.colOf_iff hj hk').mp e2).1 h2 e1
  · have e1 : firstSlot s i j = none := by
      apply firstSlot_eq_none.mpr
      intro k hk ⟨_, e⟩
      have := h.colOf_lt hk
      omega
    have e2 : slotOf rowIndex colStart i j = none := by
      apply slotOf_eq_none.mpr
      intro k _ hb
      have hsz : colStart.size = s.cols + 1 := by rw [ecols]; exact hok.1
      have : colStart[j + 1]? = none := by
        apply Array.getElem?_eq_none; omega
      rw [this] at hb
      simp at hb
    rw [e1, e2]

/-- `refOf_outside` of C06H without the `Mul K` of its section -/
theorem refOf_outside_zero {s : Sp K} (h : WF s) {i j : Nat} (ho : s.rows ≤ i ∨ s.cols ≤ j) :
    (refOf s).ent i j = none := by
  show (firstSlot s i j).map s.vl = none
  have : firstSlot s i j = none := by
    apply firstSlot_eq_none.mpr
    intro k hk ⟨e1, e2⟩
    have := h.riLt k hk
    have := h.colOf_lt hk
    omega
  rw [this]; rfl

/-- **the reference matrix of the result is the one read off the arrays** -/
theorem fromVecs_refOf {rows cols : Nat} {val : Array K} {rowIndex colStart : Array Nat}
    (hok : ArraysOk rows cols val rowIndex colStart) :
    ∃ s, fromVecs rows cols val rowIndex colStart = .ok s ∧ WF s ∧
      refOf s = refOfArrays rows cols val rowIndex colStart := by
  refine ⟨_, fromVecs_ok hok, (wf_mk_iff _ _ _ _ _).mpr hok, ?_⟩
  refine Ref.ext_ent rfl rfl ?_
  intro i j
  show (firstSlot _ i j).map _ = (slotOf rowIndex colStart i j).map _
  rw [firstSlot_mk hok]
  rfl

/-- **the entry function of the result**, for arrays satisfying `ArraysOk` and `ArraysNoDup`.  At
    every position `(i, j)`:
    (a) if slot `k` of column `j < cols` holds row `i`, it is the only such slot, it is the slot
        `firstSlot` finds, it is a valid index of `val`, and the entry is `val[k]`;
    (b) if no slot of column `j` holds row `i` (in particular if `j ≥ cols`, or `i ≥ rows`) the
        entry is absent. -/
theorem fromVecs_entry {rows cols : Nat} {val : Array K} {rowIndex colStart : Array Nat}
    (hok : ArraysOk rows cols val rowIndex colStart)
    (hnd : ArraysNoDup cols rowIndex colStart) :
    ∃ s, fromVecs rows cols val rowIndex colStart = .ok s ∧ ∀ i j,
      (∀ k, j < cols → colStart[j]?.getD 0 ≤ k → k < colStart[j + 1]?.getD 0 →
        rowIndex[k]?.getD 0 = i →
          (∀ k', colStart[j]?.getD 0 ≤ k' → k' < colStart[j + 1]?.getD 0 →
            rowIndex[k']?.getD 0 = i → k' = k) ∧
          firstSlot s i j = some k ∧ i < rows ∧
          ∃ hk : k < val.size, (refOf s).ent i j = some val[k]) ∧
      ((∀ k, j < cols → colStart[j]?.getD 0 ≤ k → k < colStart[j + 1]?.getD 0 →
        rowIndex[k]?.getD 0 ≠ i) → firstSlot s i j = none ∧ (refOf s).ent i j = none) ∧
      (rows ≤ i ∨ cols ≤ j → (refOf s).ent i j = none) := by
  have hwf := (wf_mk_iff _ _ _ _ _).mpr hok
  refine ⟨_, fromVecs_ok hok, ?_⟩
  intro i j
  refine ⟨?_, ?_, fun ho => refOf_outside_zero hwf ho⟩
  · intro k hj a b c
    have hf : firstSlot (⟨rows, cols, val.size, val, rowIndex, colStart⟩ : Sp K) i j = some k := by
      rw [firstSlot_mk hok]
      exact (slotOf_eq_some_of_noDup hnd hj).mpr ⟨a, b, c⟩
    have hk : k < val.size := hwf.slot_lt (j := j) hj b
    refine ⟨?_, hf, ?_, hk, ?_⟩
    · intro k' a' b' c'
      exact hnd j hj k' b' k b a' a (by rw [c, c'])
    · rw [← c]; exact hok.2.2.2.2.2 k hk
    · show (firstSlot _ i j).map _ = _
      rw [hf]
      simp [Sp.vl, hk]
  · intro hno
    have hf : firstSlot (⟨rows, cols, val.size, val, rowIndex, colStart⟩ : Sp K) i j = none := by
      rw [firstSlot_mk hok]
      apply slotOf_eq_none.mpr
      intro k a b
      by_cases hj : j < cols
      · exact hno k hj a b
      · have : colStart[j + 1]? = none := by
          apply Array.getElem?_eq_none; have := hok.1; omega
        rw [this] at b
        simp at b
    refine ⟨hf, ?_⟩
    show (firstSlot _ i j).map _ = none
    rw [hf]; rfl

/-- `get` on the result of `from_vecs` (arrays satisfying `ArraysOk`; with duplicates inside a
    column `get` still returns the FIRST slot, which is what `slotOf` is): inside the shape the
    entry read off the arrays, outside an index panic -/
theorem fromVecs_get {rows cols : Nat} {val : Array K} {rowIndex colStart : Array Nat}
    (hok : ArraysOk rows cols val rowIndex colStart) :
    ∃ s, fromVecs rows cols val rowIndex colStart = .ok s ∧
      (∀ i j, i < rows → j < cols →
        get s i j = .ok ((refOfArrays rows cols val rowIndex colStart).ent i j)) ∧
      (∀ i j, rows ≤ i ∨ cols ≤ j → get s i j = .error .range ∧
        (refOfArrays rows cols val rowIndex colStart).ent i j = none) := by
  have hwf := (wf_mk_iff _ _ _ _ _).mpr hok
  obtain ⟨s, h1, _, h3⟩ := fromVecs_refOf hok
  rw [fromVecs_ok hok] at h1
  injection h1 with h1
  subst h1
  refine ⟨_, fromVecs_ok hok, ?_, ?_⟩
  · intro i j hi hj
    rw [← h3]
    exact hwf.get_spec hi hj
  · intro i j ho
    rw [← h3]
    refine ⟨?_, refOf_outside_zero hwf ho⟩
    unfold Sp.get
    by_cases h1 : rows ≤ i
    · simp [h1]
    · have h2 : cols ≤ j := by omega
      simp [h1, h2]

end Zero

/-- the denoted entry `Sp.entry` (a sum over the slots of the column; commutative semiring) of the
    result is the value of the slot holding the position, `0` if there is none -/
theorem fromVecs_entry_sum [CommSemiring K] {rows cols : Nat} {val : Array K}
    {rowIndex colStart : Array Nat} (hok : ArraysOk rows cols val rowIndex colStart)
    (hnd : ArraysNoDup cols rowIndex colStart) :
    ∃ s, fromVecs rows cols val rowIndex colStart = .ok s ∧ ∀ i j, i < rows → j < cols →
      s.entry i j = ((refOfArrays rows cols val rowIndex colStart).ent i j).getD 0 := by
  have hwf := (wf_mk_iff _ _ _ _ _).mpr hok
  have hnd' := (noDup_mk_iff rows cols val.size val rowIndex colStart).mpr hnd
  obtain ⟨s, h1, _, h3⟩ := fromVecs_refOf hok
  rw [fromVecs_ok hok] at h1
  injection h1 with h1
  subst h1
  refine ⟨_, fromVecs_ok hok, ?_⟩
  intro i j hi hj
  obtain ⟨o, g1, g2⟩ := entry_eq_get hwf hnd' (row := i) (col := j) hi hj
  rw [hwf.get_spec hi hj] at g1
  injection g1 with g1
  rw [g2, ← g1, ← h3]
  rfl

/-! ### 3. `from_vecs` validates nothing -/

/-- the only input `from_vecs` rejects: an empty `col_start`; `col_start.len() - 1` underflows, an
    ARITHMETIC panic (`attempt to subtract with overflow`, dev profile), before any indexing -/
theorem fromVecs_rejects (rows cols : Nat) (val : Array K) (rowIndex : Array Nat) :
    fromVecs rows cols val rowIndex #[] = .error .arith := rfl

/-- every other input is accepted, whatever the arrays contain: the fields are the arguments and
    `nonzero` is the last entry of `col_start` -/
theorem fromVecs_total (rows cols : Nat) (val : Array K) (rowIndex colStart : Array Nat)
    (hne : colStart.size ≠ 0) :
    ∃ nz, colStart[colStart.size - 1]? = some nz ∧
      fromVecs rows cols val rowIndex colStart = .ok ⟨rows, cols, nz, val, rowIndex, colStart⟩ := by
  have hlt : colStart.size - 1 < colStart.size := by omega
  refine ⟨colStart[colStart.size - 1], Array.getElem?_eq_getElem hlt, ?_⟩
  unfold fromVecs usub
  have e : (1 : Nat) ≤ colStart.size := by omega
  simp only [e, if_true, bind, Except.bind, aget_ok hlt, pure, Except.pure]

/-- success or failure of `from_vecs` depends on `col_start.len()` alone -/
theorem fromVecs_ok_iff (rows cols : Nat) (val : Array K) (rowIndex colStart : Array Nat) :
    ((∃ s, fromVecs rows cols val rowIndex colStart = .ok s) ↔ colStart.size ≠ 0) ∧
    (colStart.size = 0 → fromVecs rows cols val rowIndex colStart = .error .arith) := by
  have hz : colStart.size = 0 → fromVecs rows cols val rowIndex colStart = .error .arith := by
    intro h0
    have : colStart = #[] := Array.eq_empty_of_size_eq_zero h0
    subst this; rfl
  refine ⟨⟨?_, ?_⟩, hz⟩
  · intro ⟨s, hs⟩ h0
    rw [hz h0] at hs
    cases hs
  · intro hne
    obtain ⟨nz, _, h⟩ := fromVecs_total rows cols val rowIndex colStart hne
    exact ⟨_, h⟩

/-- **`from_vecs` accepts arrays violating `ArraysOk`**: a 1×1 matrix whose only row index is 7.
    The call succeeds, the result is not well formed, and the views disagree: `get` answers, the
    dense conversion is an index panic.  So `ArraysOk` is a genuine hypothesis of the theorems of
    this file (and `WF` of C06W / C06H), not a consequence of a successful construction. -/
theorem fromVecs_unchecked :
    ¬ ArraysOk 1 1 (#[1] : Array ℤ) #[7] #[0, 1] ∧
    ∃ s : Sp ℤ, fromVecs 1 1 #[1] #[7] #[0, 1] = .ok s ∧ ¬ WF s ∧
      get s 0 0 = .ok none ∧ toDense s = .error .range := by
  refine ⟨by decide, ⟨1, 1, 1, #[1], #[7], #[0, 1]⟩, rfl, ?_, rfl, rfl⟩
  intro h
  have := h.riLt 0 (by decide)
  revert this
  decide

/-- a second violation that is accepted: two values and two row indices but `col_start` announces
    one entry; `nonzero` (1) then differs from `val.len()` (2) -/
theorem fromVecs_unchecked_len :
    ¬ ArraysOk 2 1 (#[1, 2] : Array ℤ) #[0, 1] #[0, 1] ∧
    ∃ s : Sp ℤ, fromVecs 2 1 #[1, 2] #[0, 1] #[0, 1] = .ok s ∧ ¬ WF s ∧
      s.nonzero = 1 ∧ s.val.size = 2 := by
  refine ⟨by decide, ⟨2, 1, 1, #[1, 2], #[0, 1], #[0, 1]⟩, rfl, ?_, rfl, rfl⟩
  intro h
  have := h.valSize
  revert this
  decide

/-! ### 4. histories that start with `from_vecs` -/

section S
variable [Zero K] [Mul K]

/-- **arbitrary histories starting from `from_vecs`**: for arrays satisfying `ArraysOk` and
    `ArraysNoDup` (rows in any order inside a column), any finite history of insert / overwrite /
    scale / transpose refines the reference partial function started at the matrix read off the
    arrays: the run succeeds with a well-formed duplicate-free storage that abstracts to the
    reference result, or the reference rejects the history and the run is an index panic -/
theorem fromVecs_history {rows cols : Nat} {val : Array K} {rowIndex colStart : Array Nat}
    (hok : ArraysOk rows cols val rowIndex colStart) (hnd : ArraysNoDup cols rowIndex colStart)
    (ops : List (SpOp K)) :
    Refines (fromVecs rows cols val rowIndex colStart >>= fun s => runC ops s)
      (runR ops (refOfArrays rows cols val rowIndex colStart)) := by
  obtain ⟨s, h1, h2, h3⟩ := fromVecs_refOf hok
  have hnd' : C07.NoDup s := by
    rw [fromVecs_ok hok] at h1
    injection h1 with h1
    subst h1
    exact (noDup_mk_iff _ _ _ _ _ _).mpr hnd
  rw [h1, ← h3]
  exact history_refines ops h2 hnd'

/-- the packaged history theorem (`history_views`) for histories that start with `from_vecs`: if
    the reference accepts the history (result `r`), the model run succeeds with a well-formed
    duplicate-free storage of the reference shape on which `get`, `to_triplets`, `col_index` and
    `to_dense` all describe `r`; otherwise the model run is an index panic -/
theorem fromVecs_history_views {rows cols : Nat} {val : Array K} {rowIndex colStart : Array Nat}
    (hok : ArraysOk rows cols val rowIndex colStart) (hnd : ArraysNoDup cols rowIndex colStart)
    (ops : List (SpOp K)) :
    (∀ r, runR ops (refOfArrays rows cols val rowIndex colStart) = some r →
      ∃ s', (fromVecs rows cols val rowIndex colStart >>= fun s => runC ops s) = .ok s' ∧ WF s' ∧
        C07.NoDup s' ∧ s'.rows = r.rows ∧ s'.cols = r.cols ∧
        (∀ i j, i < r.rows → j < r.cols → get s' i j = .ok (r.ent i j)) ∧
        (∀ i j, r.rows ≤ i ∨ r.cols ≤ j → get s' i j = .error .range ∧ r.ent i j = none) ∧
        (∃ l, toTriplets s' = .ok l ∧ l.length = s'.nonzero ∧ PosNodup l ∧
          (∀ i j v, (i, j, v) ∈ l ↔ r.ent i j = some v) ∧
          ∃ ci, colIndex s' = .ok ci ∧ ci.size = s'.nonzero ∧
            ∀ k, k < s'.nonzero → ∃ c, ci[k]? = some c ∧ c < r.cols ∧ s'.ri k < r.rows ∧
              l[k]? = some (s'.ri k, c, s'.vl k) ∧ r.ent (s'.ri k) c = some (s'.vl k)) ∧
        (∃ d, toDense s' = .ok d ∧ Mat.Is d r.rows r.cols (fun i j => (r.ent i j).getD 0))) ∧
    (runR ops (refOfArrays rows cols val rowIndex colStart) = none →
      (fromVecs rows cols val rowIndex colStart >>= fun s => runC ops s) = .error .range) := by
  obtain ⟨s, h1, h2, h3⟩ := fromVecs_refOf hok
  have hnd' : C07.NoDup s := by
    rw [fromVecs_ok hok] at h1
    injection h1 with h1
    subst h1
    exact (noDup_mk_iff _ _ _ _ _ _).mpr hnd
  rw [h1, ← h3]
  exact history_views ops h2 hnd'

/-- after any accepted history that starts with `from_vecs`, `nonzero` is the number of stored
    positions of the reference -/
theorem fromVecs_history_nonzero {rows cols : Nat} {val : Array K} {rowIndex colStart : Array Nat}
    (hok : ArraysOk rows cols val rowIndex colStart) (hnd : ArraysNoDup cols rowIndex colStart)
    (ops : List (SpOp K)) {r : Ref K}
    (hrun : runR ops (refOfArrays rows cols val rowIndex colStart) = some r) :
    ∃ s', (fromVecs rows cols val rowIndex colStart >>= fun s => runC ops s) = .ok s' ∧
      s'.nonzero = r.nnz := by
  obtain ⟨s, h1, h2, h3⟩ := fromVecs_refOf hok
  have hnd' : C07.NoDup s := by
    rw [fromVecs_ok hok] at h1
    injection h1 with h1
    subst h1
    exact (noDup_mk_iff _ _ _ _ _ _).mpr hnd
  rw [h1]
  rw [← h3] at hrun
  exact history_nonzero ops h2 hnd' hrun

end S

/-! ### non-vacuity: rows deliberately UNSORTED inside a column -/

/-- the 3×2 matrix `[[7,0],[0,0],[5,0]]` over ℚ: column 0 stores row 2 BEFORE row 0, column 1 is
    empty.  The array conditions are checked by evaluation. -/
example : ArraysOk 3 2 (#[5, 7] : Array ℚ) #[2, 0] #[0, 2, 2] := by decide

example : ArraysNoDup 2 #[2, 0] #[0, 2, 2] := by decide

/-- a duplicate inside a column is detected -/
example : ¬ ArraysNoDup 2 #[2, 2] #[0, 2, 2] := by decide

/-- … but the same row in two different columns is fine -/
example : ArraysNoDup 2 #[2, 2] #[0, 1, 2] := by decide

/-- the entries read off the arrays -/
theorem demoV_ref :
    (refOfArrays 3 2 (#[5, 7] : Array ℚ) #[2, 0] #[0, 2, 2]).ent 2 0 = some 5 ∧
    (refOfArrays 3 2 (#[5, 7] : Array ℚ) #[2, 0] #[0, 2, 2]).ent 0 0 = some 7 ∧
    (refOfArrays 3 2 (#[5, 7] : Array ℚ) #[2, 0] #[0, 2, 2]).ent 1 0 = none ∧
    (refOfArrays 3 2 (#[5, 7] : Array ℚ) #[2, 0] #[0, 2, 2]).ent 0 1 = none ∧
    (refOfArrays 3 2 (#[5, 7] : Array ℚ) #[2, 0] #[0, 2, 2]).ent 2 1 = none := by
  refine ⟨?_, ?_, ?_, ?_, ?_⟩ <;> simp [refOfArrays, slotOf, firstHit]

/-- `from_vecs` of the unsorted arrays: accepted, well formed, duplicate free, and `get` returns
    the values of the arrays (an index panic outside the 3×2 shape) -/
example : ∃ s : Sp ℚ, fromVecs 3 2 #[5, 7] #[2, 0] #[0, 2, 2] = .ok s ∧ WF s ∧ C07.NoDup s ∧
    s.nonzero = 2 ∧ get s 2 0 = .ok (some 5) ∧ get s 0 0 = .ok (some 7) ∧ get s 1 0 = .ok none ∧
    get s 0 1 = .ok none ∧ get s 2 1 = .ok none ∧ get s 3 0 = .error .range ∧
    get s 0 2 = .error .range := by
  have hok : ArraysOk 3 2 (#[5, 7] : Array ℚ) #[2, 0] #[0, 2, 2] := by decide
  have hnd : ArraysNoDup 2 #[2, 0] #[0, 2, 2] := by decide
  obtain ⟨e1, e2, e3, e4, e5⟩ := demoV_ref
  obtain ⟨s, h1, h2, h3⟩ := fromVecs_wf_noDup hok hnd
  obtain ⟨s', g1, g2, g3⟩ := fromVecs_get hok
  rw [h1] at g1
  injection g1 with g1
  subst g1
  obtain ⟨s'', f1, _, _, f4, _⟩ := fromVecs_fields hok
  rw [h1] at f1
  injection f1 with f1
  subst f1
  refine ⟨s, h1, h2, h3, f4, ?_, ?_, ?_, ?_, ?_, (g3 3 0 (Or.inl (by omega))).1,
    (g3 0 2 (Or.inr (by omega))).1⟩
  · rw [g2 2 0 (by omega) (by omega), e1]
  · rw [g2 0 0 (by omega) (by omega), e2]
  · rw [g2 1 0 (by omega) (by omega), e3]
  · rw [g2 0 1 (by omega) (by omega), e4]
  · rw [g2 2 1 (by omega) (by omega), e5]

/-- a history from the unsorted arrays: overwrite (0,0), transpose, scale by 2, insert a new entry;
    the reference result (read off the arrays, then the abstract steps) is what `get` returns -/
example : ∃ s' : Sp ℚ, (fromVecs 3 2 #[5, 7] #[2, 0] #[0, 2, 2] >>= fun s =>
      runC [.insert 0 0 9, .transpose, .scale 2, .insert 1 1 4] s) = .ok s' ∧ WF s' ∧
    C07.NoDup s' ∧ s'.rows = 2 ∧ s'.cols = 3 ∧ get s' 0 0 = .ok (some 18) ∧
    get s' 0 2 = .ok (some 10) ∧ get s' 1 1 = .ok (some 4) ∧ get s' 1 0 = .ok none := by
  have hok : ArraysOk 3 2 (#[5, 7] : Array ℚ) #[2, 0] #[0, 2, 2] := by decide
  have hnd : ArraysNoDup 2 #[2, 0] #[0, 2, 2] := by decide
  have hR : ∃ r, runR [.insert 0 0 9, .transpose, .scale 2, .insert 1 1 4]
      (refOfArrays 3 2 (#[5, 7] : Array ℚ) #[2, 0] #[0, 2, 2]) = some r ∧ r.rows = 2 ∧ r.cols = 3 ∧
      r.ent 0 0 = some 18 ∧ r.ent 0 2 = some 10 ∧ r.ent 1 1 = some 4 ∧ r.ent 1 0 = none := by
    refine ⟨_, rfl, rfl, rfl, ?_, ?_, ?_, ?_⟩ <;>
      norm_num [refOfArrays, slotOf, firstHit]
  obtain ⟨r, hr, r1, r2, e1, e2, e3, e4⟩ := hR
  obtain ⟨s', g1, g2, g3, g4, g5, g6, _⟩ := (fromVecs_history_views hok hnd _).1 r hr
  rw [r1] at g4 g6
  rw [r2] at g5 g6
  refine ⟨s', g1, g2, g3, g4, g5, ?_, ?_, ?_, ?_⟩
  · rw [g6 0 0 (by omega) (by omega), e1]
  · rw [g6 0 2 (by omega) (by omega), e2]
  · rw [g6 1 1 (by omega) (by omega), e3]
  · rw [g6 1 0 (by omega) (by omega), e4]

/-- the same start, a history with an out-of-range `insert`: an index panic -/
example : (fromVecs 3 2 (#[5, 7] : Array ℚ) #[2, 0] #[0, 2, 2] >>= fun s =>
    runC [.transpose, .insert 2 0 1] s) = .error .range :=
  (fromVecs_history_views (by decide) (by decide) _).2 rfl

end Ohsl.Props.C06
