/-
  Property C04 — banded matrix (model: Ohsl/Model/Banded.lean).
  Proved here, class (S): the index operator reads `compact[(i, m1 + j - i)]` exactly for in-band
  (i, j) and rejects everything outside the band; arithmetic between matrices of different
  (n, m1, m2) is rejected; `solve` / the product reject vectors of the wrong length; `fill_band`
  rejects bands outside [-m1, m2].
-/
import Ohsl.Model.Banded
set_option linter.unusedSectionVars false
namespace Ohsl.Props.C04
open Ohsl Ohsl.Band
variable {K : Type} [Add K] [Sub K] [Mul K] [Neg K] [Zero K] [One K] [BEq K] [ScalarExt K]

theorem get_inband (b : Band K) (i j : Nat) (h : j ≤ i + b.m2 ∧ i ≤ j + b.m1) :
    Band.get b i j = b.compact.get i (b.m1 + j - i) := by
  have : ¬ (j > i + b.m2 ∨ i > j + b.m1) := by omega
  simp [Band.get, this]

theorem get_rejects (b : Band K) (i j : Nat) (h : j > i + b.m2 ∨ i > j + b.m1) :
    Band.get b i j = .error .range := by simp [Band.get, h]

theorem set_rejects (b : Band K) (i j : Nat) (v : K) (h : j > i + b.m2 ∨ i > j + b.m1) :
    Band.set b i j v = .error .range := by simp [Band.set, h]

theorem add_rejects (a b : Band K) (h : a.n ≠ b.n ∨ a.m1 ≠ b.m1 ∨ a.m2 ≠ b.m2) :
    Band.add a b = .error .size ∧ Band.sub' a b = .error .size := by
  have : sameShape a b = false := by
    simp only [sameShape, Bool.and_eq_false_iff, beq_eq_false_iff_ne]
    rcases h with h | h | h
    · exact Or.inl (Or.inl h)
    · exact Or.inl (Or.inr h)
    · exact Or.inr h
  simp [Band.add, Band.sub', this]

theorem solve_rejects (b : Band K) (rhs : Array K) (h : b.n ≠ rhs.size) : Band.solve b rhs = .error .size := by
  simp [Band.solve, h]

theorem mulVec_rejects (b : Band K) (v : Array K) (h : b.n ≠ v.size) : Band.mulVec b v = .error .size := by
  simp [Band.mulVec, h]

theorem fillBand_rejects (b : Band K) (band : Int) (x : K) (h : band < -(b.m1 : Int) ∨ band > (b.m2 : Int)) :
    Band.fillBand b band x = .error .range := by simp [Band.fillBand, h]

end Ohsl.Props.C04
