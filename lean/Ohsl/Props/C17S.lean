/-
  Property C17 (continued) — the SYSTEM Newton iteration `Jac.solveSys` (model of
  `Newton<Vec64>::solve`, `Newton<Vector<Cmplx>>::solve` and the `solve_jacobian` variants) and an
  exact convergence statement for the scalar iteration on affine maps.

  Class (S) — every user function, any element type, arbitrary arithmetic:
  * `sys_bounded`            : a run that returns performs `k ≤ maxIter` iterations, `k = maxIter`
                               when it reports failure, and appends exactly `k * (1 + L)` evaluation
                               points when every Jacobian call at a point of that size evaluates `f`
                               `L` times;
  * `jacobian_trace_length`  : an (unconditionally) successful finite-difference Jacobian at a point
                               of size d has evaluated `f` exactly d + 1 times;
  * `sys_bounded_fd`         : with the finite-difference Jacobian: `k * (d + 2)` evaluations;
  * `sys_bounded_supplied`   : with a user supplied Jacobian: `k` evaluations;
  * `sys_budget_zero`, `sys_failure_carries_last`, `sys_success_char`.
  Class (E) — linearly ordered field:
  * `newton_affine_scalar`   : on `x ↦ a x + b` the scalar iteration lands exactly on `-b / a`
                               after one step and reports success after at most two.
-/
import Ohsl.Props.C17
import Ohsl.Lemmas.Loop
import Ohsl.Lemmas.MatIdx
import Ohsl.Lemmas.Alg
import Mathlib.Algebra.Order.Ring.Abs
set_option linter.unusedSectionVars false
set_option linter.unusedVariables false
set_option linter.unusedSimpArgs false
namespace Ohsl.Props.C17
open Ohsl Ohsl.Newton Ohsl.Jac Ohsl.Mat

section Sys
variable {E : Type} [Add E] [Sub E] [Mul E] [Neg E] [Zero E] [One E] [BEq E] [ScalarExt E]

/-- `Vec.sub` keeps the size of its first argument -/
theorem vecSub_size {a b c : Array E} (h : Vec.sub a b = .ok c) : c.size = a.size := by
  unfold Vec.sub at h
  split at h
  · cases h
  · rename_i hs
    cases h
    have : a.size = b.size := by simpa using hs
    simp [this]

/-- one unfolding of `solveSys` on a returning run -/
theorem sys_step {R : Type} (f : Array E → Array E) (jacF : Array E → Res (Mat E × List (Array E)))
    (normInf : Array E → Res R) (leTol : R → Bool) (n : Nat) (cur : Array E) (tr : List (Array E))
    (res : Newton.Out (Array E) × List (Array E))
    (h : solveSys f jacF normInf leTol (n + 1) cur tr = .ok res) :
    ∃ r J jtr dx cur', normInf (f cur) = .ok r ∧ jacF cur = .ok (J, jtr) ∧
      Mat.solveBasic J (f cur) = .ok dx ∧ Vec.sub cur dx = .ok cur' ∧
      ((leTol r = true ∧ res = (⟨true, cur'⟩, tr ++ [cur] ++ jtr)) ∨
       (leTol r = false ∧ solveSys f jacF normInf leTol n cur' (tr ++ [cur] ++ jtr) = .ok res)) := by
  unfold solveSys at h
  cases h1 : normInf (f cur) with
  | error e => simp [h1, bind, Except.bind] at h
  | ok r =>
    cases h2 : jacF cur with
    | error e => simp [h1, h2, bind, Except.bind] at h
    | ok p =>
      obtain ⟨J, jtr⟩ := p
      cases h3 : Mat.solveBasic J (f cur) with
      | error e => simp [h1, h2, h3, bind, Except.bind] at h
      | ok dx =>
        cases h4 : Vec.sub cur dx with
        | error e => simp [h1, h2, h3, h4, bind, Except.bind] at h
        | ok cur' =>
          simp only [h1, h2, h3, h4, bind, Except.bind, pure, Except.pure] at h
          refine ⟨r, J, jtr, dx, cur', rfl, rfl, h3, h4, ?_⟩
          cases h5 : leTol r with
          | true =>
            left
            simp only [h5, if_true] at h
            exact ⟨rfl, (Except.ok.inj h).symm⟩
          | false =>
            right
            simpa [h5] using h

/-- **iteration / evaluation budget of the system iteration.**  Assume every successful Jacobian
    call at a point of size `d` reports `L` evaluation points.  Then a run from a point of size `d`
    that returns has performed `k ≤ n` iterations (`k = n` if it reports failure) and has appended
    exactly `k * (1 + L)` points to the trace. -/
theorem sys_bounded {R : Type} (f : Array E → Array E)
    (jacF : Array E → Res (Mat E × List (Array E)))
    (normInf : Array E → Res R) (leTol : R → Bool) (d L : Nat)
    (hL : ∀ x J jtr, x.size = d → jacF x = .ok (J, jtr) → jtr.length = L) :
    ∀ (n : Nat) (cur : Array E) (tr : List (Array E)) (out : Newton.Out (Array E))
      (tr' : List (Array E)), cur.size = d →
      solveSys f jacF normInf leTol n cur tr = .ok (out, tr') →
      ∃ k, k ≤ n ∧ tr'.length = tr.length + k * (1 + L) ∧ (out.ok = false → k = n)
  | 0, cur, tr, out, tr', _, h => by
    simp only [solveSys] at h
    cases h
    exact ⟨0, Nat.le_refl _, by simp, fun _ => rfl⟩
  | n + 1, cur, tr, out, tr', hd, h => by
    obtain ⟨r, J, jtr, dx, cur', h1, h2, h3, h4, h5⟩ := sys_step f jacF normInf leTol n cur tr _ h
    have hl := hL cur J jtr hd h2
    rcases h5 with ⟨_, h5⟩ | ⟨_, h5⟩
    · cases h5
      exact ⟨1, by omega, by simp [hl]; omega, by simp⟩
    · have hd' : cur'.size = d := by rw [vecSub_size h4]; exact hd
      obtain ⟨k, hk, hlen, hf⟩ := sys_bounded f jacF normInf leTol d L hL n cur' _ out tr' hd' h5
      refine ⟨k + 1, by omega, ?_, fun ho => by rw [hf ho]⟩
      rw [hlen]
      simp [hl, Nat.add_mul]
      omega

/-- partial-correctness loop rule: if the loop returns, an invariant preserved by every
    successful iteration holds of the final state -/
theorem forM'_inv_of_ok {σ : Type} (P : Nat → σ → Prop) (f : σ → Nat → Res σ) :
    ∀ (cnt lo : Nat) (s s' : σ), P lo s →
      (∀ i s s', lo ≤ i → i < lo + cnt → P i s → f s i = .ok s' → P (i + 1) s') →
      (List.range' lo cnt).foldlM f s = .ok s' → P (lo + cnt) s'
  | 0, lo, s, s', h0, _, h => by
    simp [List.range', pure, Except.pure] at h
    cases h
    simpa using h0
  | cnt + 1, lo, s, s', h0, hstep, h => by
    simp only [List.range', List.foldlM_cons, bind, Except.bind] at h
    cases h1 : f s lo with
    | error e => simp [h1] at h
    | ok s1 =>
      simp only [h1] at h
      have p1 := hstep lo s s1 (Nat.le_refl _) (by omega) h0 h1
      have := forM'_inv_of_ok P f cnt (lo + 1) s1 s' p1
        (fun i s s' a b c d => hstep i s s' (by omega) (by omega) c d) h
      have e : lo + 1 + cnt = lo + (cnt + 1) := by omega
      rw [← e]; exact this

/-- **evaluation count of the finite-difference Jacobian, unconditionally**: whenever
    `jacobian f point delta` returns (no hypothesis on `f`, on the element type or on `delta`),
    `f` has been called exactly `point.size + 1` times. -/
theorem jacobian_trace_length (f : Array E → Array E) (point : Array E) (delta : E)
    (J : Mat E) (tr : List (Array E)) (h : jacobian f point delta = .ok (J, tr)) :
    tr.length = point.size + 1 := by
  unfold jacobian at h
  simp only [bind, Except.bind, pure, Except.pure] at h
  split at h
  · cases h
  · rename_i r hr
    obtain ⟨jac, state, tr0⟩ := r
    simp only at h
    cases h
    have := forM'_inv_of_ok
      (fun k (s : Mat E × Array E × List (Array E)) => s.2.2.length = k + 1)
      _ (point.size - 0) 0 _ _ rfl (by
        rintro i ⟨jac, state, tr⟩ ⟨jac', state', tr'⟩ _ _ hP hs
        simp only at hP
        simp only [bind, Except.bind, pure, Except.pure] at hs
        repeat (split at hs; · cases hs)
        cases hs
        simp [hP]) hr
    simpa using this

/-- **finite-difference system Newton**: `k ≤ n` iterations, `k * (d + 2)` evaluations of `f`
    (one residual and `d + 1` Jacobian evaluations per iteration) -/
theorem sys_bounded_fd {R : Type} (f : Array E → Array E) (delta : E)
    (normInf : Array E → Res R) (leTol : R → Bool)
    (n : Nat) (cur : Array E) (tr : List (Array E)) (out : Newton.Out (Array E))
    (tr' : List (Array E))
    (h : solveSys f (fun x => jacobian f x delta) normInf leTol n cur tr = .ok (out, tr')) :
    ∃ k, k ≤ n ∧ tr'.length = tr.length + k * (cur.size + 2) ∧ (out.ok = false → k = n) := by
  obtain ⟨k, hk, hl, hf⟩ := sys_bounded f (fun x => jacobian f x delta) normInf leTol cur.size
    (cur.size + 1) (fun x J jtr hx hj => by rw [jacobian_trace_length f x delta J jtr hj, hx])
    n cur tr out tr' rfl h
  exact ⟨k, hk, by rw [hl]; congr 2; omega, hf⟩

/-- **system Newton with a supplied Jacobian** (`solve_jacobian`): one evaluation of `f` per
    iteration -/
theorem sys_bounded_supplied {R : Type} (f : Array E → Array E)
    (jacF : Array E → Res (Mat E × List (Array E)))
    (hJ : ∀ x J jtr, jacF x = .ok (J, jtr) → jtr = [])
    (normInf : Array E → Res R) (leTol : R → Bool)
    (n : Nat) (cur : Array E) (tr : List (Array E)) (out : Newton.Out (Array E))
    (tr' : List (Array E))
    (h : solveSys f jacF normInf leTol n cur tr = .ok (out, tr')) :
    ∃ k, k ≤ n ∧ tr'.length = tr.length + k ∧ (out.ok = false → k = n) := by
  obtain ⟨k, hk, hl, hf⟩ := sys_bounded f jacF normInf leTol cur.size 0
    (fun x J jtr _ hj => by rw [hJ x J jtr hj]; rfl) n cur tr out tr' rfl h
  exact ⟨k, hk, by rw [hl]; omega, hf⟩

/-- with a budget of zero nothing is evaluated and the failure carries the guess -/
theorem sys_budget_zero {R : Type} (f : Array E → Array E)
    (jacF : Array E → Res (Mat E × List (Array E)))
    (normInf : Array E → Res R) (leTol : R → Bool) (guess : Array E) (tr : List (Array E)) :
    solveSys f jacF normInf leTol 0 guess tr = .ok (⟨false, guess⟩, tr) := rfl

/-- one full Newton step `x ↦ x'` as the code computes it, whose stopping test evaluated to `met` -/
def IsStep {R : Type} (f : Array E → Array E) (jacF : Array E → Res (Mat E × List (Array E)))
    (normInf : Array E → Res R) (leTol : R → Bool) (met : Bool) (x x' : Array E) : Prop :=
  ∃ r J jtr dx, normInf (f x) = .ok r ∧ leTol r = met ∧ jacF x = .ok (J, jtr) ∧
    Mat.solveBasic J (f x) = .ok dx ∧ Vec.sub x dx = .ok x'

/-- `Chain … k x y`: `y` is reached from `x` by `k` Newton steps none of which met the tolerance -/
inductive Chain {R : Type} (f : Array E → Array E) (jacF : Array E → Res (Mat E × List (Array E)))
    (normInf : Array E → Res R) (leTol : R → Bool) : Nat → Array E → Array E → Prop
  | refl (x : Array E) : Chain f jacF normInf leTol 0 x x
  | step {k : Nat} {x x' y : Array E} : IsStep f jacF normInf leTol false x x' →
      Chain f jacF normInf leTol k x' y → Chain f jacF normInf leTol (k + 1) x y

/-- **failure carries the last iterate**: a run that reports failure returns the point reached
    from the guess by exactly `n` (= maxIter) full Newton steps, none of which met the tolerance -/
theorem sys_failure_carries_last {R : Type} (f : Array E → Array E)
    (jacF : Array E → Res (Mat E × List (Array E)))
    (normInf : Array E → Res R) (leTol : R → Bool) :
    ∀ (n : Nat) (cur : Array E) (tr : List (Array E)) (out : Newton.Out (Array E))
      (tr' : List (Array E)),
      solveSys f jacF normInf leTol n cur tr = .ok (out, tr') → out.ok = false →
      Chain f jacF normInf leTol n cur out.x
  | 0, cur, tr, out, tr', h, _ => by
    simp only [solveSys] at h
    cases h
    exact Chain.refl _
  | n + 1, cur, tr, out, tr', h, ho => by
    obtain ⟨r, J, jtr, dx, cur', h1, h2, h3, h4, h5⟩ := sys_step f jacF normInf leTol n cur tr _ h
    rcases h5 with ⟨_, h5⟩ | ⟨hr, h5⟩
    · cases h5
      simp at ho
    · exact Chain.step ⟨r, J, jtr, dx, h1, hr, h2, h3, h4⟩
        (sys_failure_carries_last f jacF normInf leTol n cur' _ out tr' h5 ho)

/-- **success characterisation**: a run that reports success has made `k < n` steps that did not
    meet the tolerance followed by one step whose residual norm did; the returned point is the
    result of that last step -/
theorem sys_success_char {R : Type} (f : Array E → Array E)
    (jacF : Array E → Res (Mat E × List (Array E)))
    (normInf : Array E → Res R) (leTol : R → Bool) :
    ∀ (n : Nat) (cur : Array E) (tr : List (Array E)) (out : Newton.Out (Array E))
      (tr' : List (Array E)),
      solveSys f jacF normInf leTol n cur tr = .ok (out, tr') → out.ok = true →
      ∃ k c, k < n ∧ Chain f jacF normInf leTol k cur c ∧ IsStep f jacF normInf leTol true c out.x
  | 0, cur, tr, out, tr', h, ho => by
    simp only [solveSys] at h
    cases h
    simp at ho
  | n + 1, cur, tr, out, tr', h, ho => by
    obtain ⟨r, J, jtr, dx, cur', h1, h2, h3, h4, h5⟩ := sys_step f jacF normInf leTol n cur tr _ h
    rcases h5 with ⟨hr, h5⟩ | ⟨hr, h5⟩
    · cases h5
      exact ⟨0, cur, by omega, Chain.refl _, ⟨r, J, jtr, dx, h1, hr, h2, h3, h4⟩⟩
    · obtain ⟨k, c, hk, hc, hs⟩ :=
        sys_success_char f jacF normInf leTol n cur' _ out tr' h5 ho
      exact ⟨k + 1, c, by omega, Chain.step ⟨r, J, jtr, dx, h1, hr, h2, h3, h4⟩ hc, hs⟩

end Sys

/-! ### scalar Newton on an affine map, exact arithmetic -/
section Affine
variable {K : Type} [Field K] [LinearOrder K] [IsStrictOrderedRing K] [Transc K]
attribute [local instance] Ohsl.Alg.scalarExt

/-- **exact convergence on affine maps**: over a linearly ordered field, with `<=` and `f64::abs`
    read as `≤` and `|·|`, the iteration applied to `x ↦ a x + b` (`a ≠ 0`, `delta ≠ 0`, `0 ≤ tol`,
    at least two iterations allowed) reports success at the exact root `-b / a`, after at most
    two iterations (≤ 6 evaluations): the central difference of an affine map is exact, so the
    first step lands on the root, and the second step has `dx = 0 ≤ tol`. -/
theorem newton_affine_scalar
    (hle : ∀ x y : K, Transc.le x y = decide (x ≤ y)) (habs : ∀ x : K, Transc.fabs x = |x|)
    (a b tol delta guess : K) (ha : a ≠ 0) (hd : delta ≠ 0) (htol : 0 ≤ tol)
    (n : Nat) (hn : 2 ≤ n) :
    (solveScalar (fun x => a * x + b) tol delta n guess []).1 = ⟨true, -b / a⟩ ∧
    (solveScalar (fun x => a * x + b) tol delta n guess []).2.length ≤ 6 := by
  have h2 : ((1 : K) + 1) * delta ≠ 0 := by
    have : (1 : K) + 1 ≠ 0 := by
      have : (0 : K) < 1 + 1 := by positivity
      exact ne_of_gt this
    exact mul_ne_zero this hd
  have hderiv : ∀ c : K, (a * (c + delta) + b - (a * (c - delta) + b)) / ((1 + 1) * delta) = a := by
    intro c
    rw [div_eq_iff h2]; ring
  have hroot : ∀ c : K, c - (a * c + b) / a = -b / a := by
    intro c; field_simp; ring
  obtain ⟨n1, rfl⟩ : ∃ n1, n = n1 + 2 := ⟨n - 2, by omega⟩
  unfold solveScalar
  simp only [hderiv, hroot]
  split
  · exact ⟨rfl, by simp⟩
  · unfold solveScalar
    simp only [hderiv, hroot]
    have hz : a * (-b / a) + b = 0 := by field_simp; ring
    have : Transc.le (Transc.fabs ((a * (-b / a) + b) / a)) tol = true := by
      rw [hz, habs, hle]; simpa using htol
    rw [if_pos this]
    exact ⟨rfl, by simp⟩

end Affine

/-- the hypotheses of `newton_affine_scalar` are satisfiable: ℚ with `le := decide (· ≤ ·)`,
    `fabs := |·|` (the other operations are irrelevant) -/
example : ∃ (_ : Transc ℚ), (∀ x y : ℚ, Transc.le x y = decide (x ≤ y)) ∧
    (∀ x : ℚ, Transc.fabs x = |x|) :=
  ⟨{ sqrt := id, sin := id, cos := id, tan := id, exp := id, ln := id, sinh := id, cosh := id,
     fabs := fun x => |x|, atan2 := fun x _ => x, powf := fun x _ => x, fmax := max,
     ofNat := fun n => (n : ℚ), le := fun x y => decide (x ≤ y), half := 1 / 2, piHalf := 0,
     eps := 0, snap := 0 }, fun _ _ => rfl, fun _ => rfl⟩

end Ohsl.Props.C17
