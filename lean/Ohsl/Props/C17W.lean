/-
  Property C17 (continued), class (R) — LOCAL CONVERGENCE of the COMPLEX SYSTEM Newton iteration
  (`Newton<Vector<Cmplx>>::solve_jacobian` / `::solve`; model `Ohsl.Jac.solveSys` at element type
  `Cx ℝ`, norm `Vec.normInfC` = largest modulus of the residual, real test `r <= tol`) from inside
  the basin of a simple root, in exact arithmetic.  Complex companion of Ohsl/Props/C17K.lean.
  Space: `ℂⁿ = Fin n → ℂ` with the sup norm (the model's `norm_inf` of a complex vector); arrays over
  the model's `Cx ℝ` are read as vectors of `ℂⁿ` through `vecC n a = fun j => toC a[j]`.

  The user closure `f : Array (Cx ℝ) → Array (Cx ℝ)` DENOTES `G : ℂⁿ → ℂⁿ` (`Denotes n f G`: on
  arrays of length `n` it returns an array of length `n` whose `toC`-image is `G` of the
  `toC`-image of the argument).

  Analysis (any complex normed space; the abstract real theorems of C17K are reused through
  `restrictScalars ℝ`: a complex Fréchet derivative is a real one with the same operator norm):
  * `cx_sys_taylor`            `‖G y − G x − G'(x)(y − x)‖ ≤ L/2 ‖y − x‖²`;
  * `cx_sys_newton_step_core`  (quasi-)Newton step `J (x − x⁺) = G x`, `‖v‖ ≤ β ‖J v‖`,
                               `‖J − G' x‖ ≤ ε`: `‖x⁺ − r‖ ≤ β (L/2 ‖x − r‖² + ε ‖x − r‖)`;
  * `cx_sys_newton_step`       exact step `x⁺ = x − G'(x)⁻¹ G(x)`: `‖x⁺ − r‖ ≤ βL/2 ‖x − r‖²`;
  * `SysBallC`, `SysBallC.toReal`   the hypotheses on `G` (complex derivative, `L`-Lipschitz on the
                               closed ball) and their real form `SysBall` of C17K.
  Model:
  * `normInfC_vecC`, `vecC_sub`, `matCLMc`, `detC_ne_zero_of_bddBelow`   bridges;
  * `model_step_gen_cx`        one iteration of the model over `Cx ℝ` IS the abstract step: norm,
                               linear solve (C01X: complete iff `det ≠ 0` over ℂ, sound) and update
                               all return and `J (x − x⁺) = G x` in ℂⁿ;
  * `solveSys_run_cx`          the loop along a contracting invariant;
  * `solveSys_converges_gen_cx`       any Jacobian routine within `ε` of `G'` on the ball;
  * `solveSys_converges_supplied_cx`  user-supplied exact Jacobian (`ε = 0`, QUADRATIC);
  * `model_step_supplied_cx`   the bridge for ONE iteration with the supplied Jacobian:
                               `G'(x) (x − x⁺) = G(x)`, i.e. `x⁺ = x − G'(x)⁻¹ G(x)`;
  * `cx_fd_column_error`, `jacobian_cmplx_denotes`, `solveSys_converges_fd_cx`   `jacobian_cmplx`
        (real step `δ ≠ 0`, `G'` Lipschitz on `B(r, ρ + |δ|)`): `ε = n γ |δ| / 2`, invertibility of
        the computed matrix DERIVED from `β₀ ε < 1`.
  Example (both variants): `G(z, w) = (z² + w, z + w² − (1 + i))`, NON-REAL simple root `(i, 1)`,
  Jacobian `[[2z, 1], [1, 2w]]` (`det = 4i − 1` at the root), `ρ = 1/8`, `γ = 2`, `β = 1`, `q = 1/8`,
  closure written with the model's complex operations, guess `(1/10 + i, 1 − i/10)`.
  NOT proved here: `O(δ²)`-type refinements for holomorphic `G`; rounding (class F).
  As in C17K the stopping test is on the residual `‖G(x_k)‖∞ ≤ tol` of the point the step STARTS
  from and the UPDATED point is returned.  Rounding (class F) is not modelled.
-/
import Ohsl.Props.C17K
import Ohsl.Props.C17X
import Ohsl.Props.C15V
import Mathlib.Analysis.Complex.Basic
import Mathlib.Analysis.Calculus.FDeriv.RestrictScalars
set_option linter.unusedSectionVars false
set_option linter.unusedVariables false
set_option linter.unusedSimpArgs false
namespace Ohsl.Props.C17
open Ohsl Ohsl.Mat Ohsl.Jac Set
open Ohsl.RealI Ohsl.CxField Ohsl.Props.C13 Ohsl.Props.C14

/-! ### analysis in a complex normed space -/
section AbstractC
variable {E : Type*} [NormedAddCommGroup E] [NormedSpace ℂ E] [NormedSpace ℝ E]
  [IsScalarTower ℝ ℂ E]

/-- the complex derivative read as a real-linear map -/
noncomputable def realD (G' : E → E →L[ℂ] E) : E → E →L[ℝ] E :=
  fun x => (G' x).restrictScalars ℝ

theorem realD_apply (G' : E → E →L[ℂ] E) (x v : E) : realD G' x v = G' x v := rfl

theorem norm_restrict_sub (A B : E →L[ℂ] E) :
    ‖A.restrictScalars ℝ - B.restrictScalars ℝ‖ = ‖A - B‖ := by
  have : A.restrictScalars ℝ - B.restrictScalars ℝ = (A - B).restrictScalars ℝ := rfl
  rw [this, ContinuousLinearMap.norm_restrictScalars]

/-- **first-order Taylor remainder in a complex normed space, Lipschitz derivative**: `G` complex
    differentiable within the convex set `B ∋ x, y`, `‖G' z − G' x‖ ≤ L ‖z − x‖` on `B`; then
    `‖G y − G x − G' x (y − x)‖ ≤ L/2 ‖y − x‖²`. -/
theorem cx_sys_taylor (G : E → E) (G' : E → E →L[ℂ] E) (B : Set E) (hB : Convex ℝ B)
    (x y : E) (L : ℝ) (hx : x ∈ B) (hy : y ∈ B)
    (hG : ∀ z ∈ B, HasFDerivWithinAt G (G' z) B z)
    (hL : ∀ z ∈ B, ‖G' z - G' x‖ ≤ L * ‖z - x‖) :
    ‖G y - G x - G' x (y - x)‖ ≤ L / 2 * ‖y - x‖ ^ 2 :=
  taylor1_lipschitz G (realD G') B hB x y L hx hy (fun z hz => (hG z hz).restrictScalars ℝ)
    (fun z hz => by rw [realD, realD, norm_restrict_sub]; exact hL z hz)

/-- **one (quasi-)Newton step in a complex normed space, core form**: `G r = 0`, `J` a complex
    linear map bounded below by `1/β` with `‖J − G' x‖ ≤ ε`, `x'` a point with `J (x − x') = G x`:
    `‖x' − r‖ ≤ β (L/2 ‖x − r‖² + ε ‖x − r‖)`. -/
theorem cx_sys_newton_step_core (G : E → E) (G' : E → E →L[ℂ] E) (B : Set E) (hB : Convex ℝ B)
    (x r : E) (L β ε : ℝ) (hx : x ∈ B) (hr : r ∈ B)
    (hG : ∀ z ∈ B, HasFDerivWithinAt G (G' z) B z)
    (hL : ∀ z ∈ B, ‖G' z - G' x‖ ≤ L * ‖z - x‖) (hroot : G r = 0) (hβ : 0 ≤ β)
    (J : E →L[ℂ] E) (hJ : ∀ v, ‖v‖ ≤ β * ‖J v‖) (hε : ‖J - G' x‖ ≤ ε)
    (x' : E) (hstep : J (x - x') = G x) :
    ‖x' - r‖ ≤ β * (L / 2 * ‖x - r‖ ^ 2 + ε * ‖x - r‖) :=
  newton_sys_step_core G (realD G') B hB x r L β ε hx hr (fun z hz => (hG z hz).restrictScalars ℝ)
    (fun z hz => by rw [realD, realD, norm_restrict_sub]; exact hL z hz) hroot hβ
    (J.restrictScalars ℝ) hJ (by rw [realD, norm_restrict_sub]; exact hε) x' hstep

/-- **one exact Newton step contracts quadratically**: `G'(x)` invertible (`A`) with
    `‖G'(x)⁻¹‖ ≤ β`; `x⁺ = x − G'(x)⁻¹ G(x)` satisfies `‖x⁺ − r‖ ≤ (βL/2) ‖x − r‖²`. -/
theorem cx_sys_newton_step (G : E → E) (G' : E → E →L[ℂ] E) (B : Set E) (hB : Convex ℝ B)
    (x r : E) (L β : ℝ) (hx : x ∈ B) (hr : r ∈ B)
    (hG : ∀ z ∈ B, HasFDerivWithinAt G (G' z) B z)
    (hL : ∀ z ∈ B, ‖G' z - G' x‖ ≤ L * ‖z - x‖) (hroot : G r = 0)
    (A : E ≃L[ℂ] E) (hA : (A : E →L[ℂ] E) = G' x) (hAβ : ‖(A.symm : E →L[ℂ] E)‖ ≤ β) :
    ‖x - A.symm (G x) - r‖ ≤ β * L / 2 * ‖x - r‖ ^ 2 := by
  have hβ : 0 ≤ β := le_trans (norm_nonneg _) hAβ
  have h := cx_sys_newton_step_core G G' B hB x r L β 0 hx hr hG hL hroot hβ (A : E →L[ℂ] E)
    (fun v => by
      have := (A.symm : E →L[ℂ] E).le_of_opNorm_le hAβ (A v)
      simpa using this)
    (by rw [hA]; simp) (x - A.symm (G x)) (by simp)
  refine le_trans h (le_of_eq ?_)
  ring

/-- hypotheses on `G` around the root `r`: COMPLEX differentiable within the closed ball of radius
    `ρ`, derivative `G'` `γ`-Lipschitz there -/
structure SysBallC (G : E → E) (G' : E → E →L[ℂ] E) (r : E) (ρ γ : ℝ) : Prop where
  hroot : G r = 0
  hγ : 0 ≤ γ
  hF : ∀ z ∈ Metric.closedBall r ρ, HasFDerivWithinAt G (G' z) (Metric.closedBall r ρ) z
  hL : ∀ x ∈ Metric.closedBall r ρ, ∀ z ∈ Metric.closedBall r ρ, ‖G' z - G' x‖ ≤ γ * ‖z - x‖

/-- … in the real form of C17K -/
theorem SysBallC.toReal {G : E → E} {G' : E → E →L[ℂ] E} {r : E} {ρ γ : ℝ}
    (H : SysBallC G G' r ρ γ) : SysBall G (realD G') r ρ γ where
  hroot := H.hroot
  hγ := H.hγ
  hF := fun z hz => (H.hF z hz).restrictScalars ℝ
  hL := fun x hx z hz => by rw [realD, realD, norm_restrict_sub]; exact H.hL x hx z hz

/-- the hypotheses restrict to smaller balls -/
theorem SysBallC.mono {G : E → E} {G' : E → E →L[ℂ] E} {r : E} {ρ ρ' γ : ℝ}
    (H : SysBallC G G' r ρ' γ) (h : ρ ≤ ρ') : SysBallC G G' r ρ γ where
  hroot := H.hroot
  hγ := H.hγ
  hF := fun z hz => (H.hF z (Metric.closedBall_subset_closedBall h hz)).mono
    (Metric.closedBall_subset_closedBall h)
  hL := fun x hx z hz => H.hL x (Metric.closedBall_subset_closedBall h hx) z
    (Metric.closedBall_subset_closedBall h hz)

theorem norm_realD (G' : E → E →L[ℂ] E) (x : E) : ‖realD G' x‖ = ‖G' x‖ :=
  ContinuousLinearMap.norm_restrictScalars _

/-- perturbation lemma for complex-linear maps: `‖v‖ ≤ β₀ ‖A v‖`, `‖J − A‖ ≤ ε`, `β₀ ε < 1` ⇒
    `‖v‖ ≤ β₀ / (1 − β₀ ε) ‖J v‖` -/
theorem bddBelow_perturb_cx (A J : E →L[ℂ] E) (β₀ ε : ℝ) (hβ : 0 ≤ β₀)
    (hA : ∀ v, ‖v‖ ≤ β₀ * ‖A v‖) (hε : ‖J - A‖ ≤ ε) (hsmall : β₀ * ε < 1) :
    ∀ v, ‖v‖ ≤ β₀ / (1 - β₀ * ε) * ‖J v‖ :=
  bddBelow_perturb (A.restrictScalars ℝ) (J.restrictScalars ℝ) β₀ ε hβ hA
    (by rw [norm_restrict_sub]; exact hε) hsmall

end AbstractC

/-! ### the model over `Cx ℝ` -/
section ModelC

/-- the vector of `ℂⁿ` of an array over `Cx ℝ` (coordinates beyond its size read as 0) -/
noncomputable def vecC (n : ℕ) (a : Array (Cx ℝ)) : Fin n → ℂ := fun j => toC (a.getD j 0)

/-- the closure `f` on arrays over `Cx ℝ` denotes `G : ℂⁿ → ℂⁿ` -/
def Denotes (n : ℕ) (f : Array (Cx ℝ) → Array (Cx ℝ)) (G : (Fin n → ℂ) → (Fin n → ℂ)) : Prop :=
  ∀ x : Array (Cx ℝ), x.size = n → (f x).size = n ∧ vecC n (f x) = G (vecC n x)

/-- the array over `Cx ℝ` of a vector of `ℂⁿ` -/
noncomputable def arrC {n : ℕ} (w : Fin n → ℂ) : Array (Cx ℝ) := Array.ofFn fun j => ofC (w j)

theorem vecC_arrC {n : ℕ} (w : Fin n → ℂ) : vecC n (arrC w) = w := by
  funext j
  simp [vecC, arrC, Array.getD]

theorem arrC_vecC {n : ℕ} {a : Array (Cx ℝ)} (h : a.size = n) : arrC (vecC n a) = a := by
  apply Array.ext
  · simp [arrC, h]
  · intro i h1 h2
    simp [arrC, vecC, Array.getD, h2]

/-- every `G` is denoted by some closure -/
theorem denotes_arrC {n : ℕ} (G : (Fin n → ℂ) → (Fin n → ℂ)) :
    Denotes n (fun a => arrC (G (vecC n a))) G := by
  intro x _
  exact ⟨by simp [arrC], vecC_arrC _⟩

theorem vecC_sub {n : ℕ} {a b : Array (Cx ℝ)} (ha : a.size = n) (hb : b.size = n) :
    Vec.sub a b = .ok (Array.zipWith (· - ·) a b) ∧ (Array.zipWith (· - ·) a b).size = n ∧
    vecC n (Array.zipWith (· - ·) a b) = vecC n a - vecC n b := by
  refine ⟨by simp [Vec.sub, ha, hb], by simp [ha, hb], ?_⟩
  funext j
  have h1 : (j : ℕ) < a.size := by rw [ha]; exact j.2
  have h2 : (j : ℕ) < b.size := by rw [hb]; exact j.2
  simp [vecC, Array.getD, h1, h2, toC_sub]

/-- the model's `norm_inf` of a complex array of length `n ≥ 1` is the sup norm of its vector -/
theorem normInfC_vecC {n : ℕ} (hn : 1 ≤ n) {a : Array (Cx ℝ)} (ha : a.size = n) :
    Vec.normInfC a = .ok ‖vecC n a‖ := by
  rw [C15.normInfC_ok_iff]
  have hne : (Finset.univ : Finset (Fin n)).Nonempty := ⟨⟨0, hn⟩, Finset.mem_univ _⟩
  obtain ⟨i, _, hi⟩ := Finset.exists_max_image Finset.univ (fun i => ‖vecC n a i‖) hne
  constructor
  · intro k hk
    have hk' : k < n := by rw [← ha]; exact hk
    have := norm_le_pi_norm (vecC n a) ⟨k, hk'⟩
    simpa [vecC, Array.getD, hk] using this
  · have hi' : (i : ℕ) < a.size := by rw [ha]; exact i.2
    refine ⟨i, hi', ?_⟩
    have h1 : ‖vecC n a‖ ≤ ‖vecC n a i‖ :=
      (pi_norm_le_iff_of_nonneg (norm_nonneg _)).2 (fun j => hi j (Finset.mem_univ _))
    have h2 := norm_le_pi_norm (vecC n a) i
    have : ‖vecC n a‖ = ‖vecC n a i‖ := le_antisymm h1 h2
    simpa [vecC, Array.getD, hi'] using this

/-- the complex-linear map of the `n × n` matrix with entries `e i j` -/
noncomputable def matCLMc (n : ℕ) (e : ℕ → ℕ → ℂ) : (Fin n → ℂ) →L[ℂ] (Fin n → ℂ) :=
  LinearMap.toContinuousLinearMap (Matrix.toLin' (Matrix.of fun i j : Fin n => e i j))

theorem matCLMc_apply (n : ℕ) (e : ℕ → ℕ → ℂ) (v : Fin n → ℂ) (i : Fin n) :
    matCLMc n e v i = ∑ j : Fin n, e i j * v j := by
  simp [matCLMc, Matrix.toLin'_apply, Matrix.mulVec, dotProduct]

theorem clmc_apply_eq_sum {n : ℕ} (A : (Fin n → ℂ) →L[ℂ] (Fin n → ℂ)) (v : Fin n → ℂ)
    (i : Fin n) : A v i = ∑ j : Fin n, A (Pi.single j 1) i * v j := by
  have h : v = ∑ j : Fin n, v j • (Pi.single j (1 : ℂ) : Fin n → ℂ) := by
    funext k
    simp [Finset.sum_apply, Pi.single_apply]
  conv_lhs => rw [h]
  rw [map_sum, Finset.sum_apply]
  apply Finset.sum_congr rfl
  intro j _
  rw [map_smul, Pi.smul_apply, smul_eq_mul, mul_comm]

/-- a matrix whose entries are those of `A` is `A` -/
theorem matCLMc_eq {n : ℕ} (e : ℕ → ℕ → ℂ) (A : (Fin n → ℂ) →L[ℂ] (Fin n → ℂ))
    (h : ∀ i j : Fin n, e i j = A (Pi.single j 1) i) : matCLMc n e = A := by
  ext v i
  rw [matCLMc_apply, clmc_apply_eq_sum A v i]
  exact Finset.sum_congr rfl (fun j _ => by rw [h i j])

/-- a complex matrix that is bounded below is nonsingular (`det ≠ 0` over ℂ) -/
theorem detC_ne_zero_of_bddBelow {n : ℕ} (e : ℕ → ℕ → Cx ℝ) (β : ℝ)
    (hb : ∀ v, ‖v‖ ≤ β * ‖matCLMc n (fun i j => toC (e i j)) v‖) : C01.detC n e ≠ 0 := by
  intro hdet
  unfold C01.detC at hdet
  obtain ⟨v, hv, hz⟩ := Matrix.exists_mulVec_eq_zero_iff.mpr hdet
  have : matCLMc n (fun i j => toC (e i j)) v = 0 := by
    funext i
    rw [matCLMc_apply]
    have := congrFun hz i
    simpa [Matrix.mulVec, dotProduct] using this
  have h := hb v
  rw [this, norm_zero, mul_zero] at h
  exact hv (norm_le_zero_iff.mp h)

/-- **one iteration of the model over `Cx ℝ` is a (quasi-)Newton step in ℂⁿ**: at a point `cur` of
    length `n ≥ 1` whose residual has length `n`, if the Jacobian call returned a well-formed
    `n × n` matrix `J` with entries `e` whose `toC`-image is bounded below (`‖v‖ ≤ β ‖J v‖`, i.e.
    nonsingular over ℂ with `‖J⁻¹‖∞ ≤ β`), then the norm, the complex linear solve (completeness of
    `solve_basic` over complex scalars, C01X) and the update all return, the norm is the sup norm of
    the residual in ℂⁿ, and the new point satisfies `J (cur − cur') = f(cur)` exactly in ℂⁿ
    (soundness, C01X). -/
theorem model_step_gen_cx {n : ℕ} (hn : 1 ≤ n) (f : Array (Cx ℝ) → Array (Cx ℝ))
    (cur : Array (Cx ℝ)) (hc : cur.size = n) (hfs : (f cur).size = n)
    {J : Mat (Cx ℝ)} {e : ℕ → ℕ → Cx ℝ} (hJ : Mat.Is J n n e) {β : ℝ}
    (hb : ∀ v, ‖v‖ ≤ β * ‖matCLMc n (fun i j => toC (e i j)) v‖) :
    ∃ dx cur', Vec.normInfC (f cur) = .ok ‖vecC n (f cur)‖ ∧
      Mat.solveBasic J (f cur) = .ok dx ∧ Vec.sub cur dx = .ok cur' ∧ cur'.size = n ∧
      matCLMc n (fun i j => toC (e i j)) (vecC n cur - vecC n cur') = vecC n (f cur) := by
  obtain ⟨dx, hdx⟩ := (C01.solveBasic_ok_iff_cx hn hJ hfs).2 (detC_ne_zero_of_bddBelow e β hb)
  obtain ⟨hs, hsol⟩ := C01.solveBasic_sound_cx hn hJ hfs hdx
  obtain ⟨s1, s2, s3⟩ := vecC_sub hc hs
  refine ⟨dx, _, normInfC_vecC hn hfs, hdx, s1, s2, ?_⟩
  rw [s3, sub_sub_cancel]
  funext i
  rw [matCLMc_apply]
  have := hsol i i.2
  rw [Finset.sum_range] at this
  simpa [vecC, Array.getD_eq_getD_getElem?] using this

/-- **the model's loop over `Cx ℝ` along a contracting invariant** (the complex copy of
    `solveSys_run`): `P` is an invariant of the iteration such that from every `P`-point the four
    sub-computations of one iteration return, the residual norm is `‖G(cur)‖` in ℂⁿ, the new point
    satisfies `P` again, its error is at most `q` times the old one (`0 ≤ q ≤ 1`) and the pair is
    related by `Q`.  Conclusions as in `solveSys_run`. -/
theorem solveSys_run_cx {n : ℕ} (f : Array (Cx ℝ) → Array (Cx ℝ))
    (G : (Fin n → ℂ) → (Fin n → ℂ)) (r : Fin n → ℂ)
    (jacF : Array (Cx ℝ) → Res (Mat (Cx ℝ) × List (Array (Cx ℝ)))) (tol q : ℝ)
    (P : Array (Cx ℝ) → Prop) (Q : Array (Cx ℝ) → Array (Cx ℝ) → Prop)
    (hq0 : 0 ≤ q) (hq1 : q ≤ 1)
    (hstep : ∀ cur, P cur → ∃ J jtr dx cur',
      Vec.normInfC (f cur) = .ok ‖G (vecC n cur)‖ ∧ jacF cur = .ok (J, jtr) ∧
      Mat.solveBasic J (f cur) = .ok dx ∧ Vec.sub cur dx = .ok cur' ∧ P cur' ∧
      ‖vecC n cur' - r‖ ≤ q * ‖vecC n cur - r‖ ∧ Q cur cur') :
    ∀ (m : ℕ) (cur : Array (Cx ℝ)) (tr : List (Array (Cx ℝ))), P cur → ∃ out tr',
      solveSys f jacF Vec.normInfC (fun s => Transc.le s tol) m cur tr = .ok (out, tr') ∧
      P out.x ∧ ‖vecC n out.x - r‖ ≤ ‖vecC n cur - r‖ ∧
      (out.ok = false → ‖vecC n out.x - r‖ ≤ q ^ m * ‖vecC n cur - r‖ ∧
        ∀ k, k < m → ∃ c, P c ∧ ‖vecC n c - r‖ ≤ q ^ k * ‖vecC n cur - r‖ ∧
          tol < ‖G (vecC n c)‖) ∧
      (out.ok = true → ∃ k c, k < m ∧ P c ∧ ‖vecC n c - r‖ ≤ q ^ k * ‖vecC n cur - r‖ ∧
        ‖G (vecC n c)‖ ≤ tol ∧ Q c out.x ∧ ‖vecC n out.x - r‖ ≤ q * ‖vecC n c - r‖)
  | 0, cur, tr, hP => by
    refine ⟨⟨false, cur⟩, tr, rfl, hP, le_refl _, fun _ => ⟨by simp, fun k hk => by omega⟩,
      fun h => by simp at h⟩
  | m + 1, cur, tr, hP => by
    obtain ⟨J, jtr, dx, cur', h1, h2, h3, h4, hP', hc, hQ⟩ := hstep cur hP
    have he : 0 ≤ ‖vecC n cur - r‖ := norm_nonneg _
    have hle : ‖vecC n cur' - r‖ ≤ ‖vecC n cur - r‖ :=
      le_trans hc (by nlinarith)
    rw [sys_unfold _ _ _ _ m cur tr h1 h2 h3 h4]
    by_cases ht : ‖G (vecC n cur)‖ ≤ tol
    · have : (fun s => Transc.le s tol) ‖G (vecC n cur)‖ = true := by
        simpa [Transc.le] using ht
      rw [if_pos this]
      refine ⟨⟨true, cur'⟩, _, rfl, hP', hle, fun h => by simp at h, fun _ => ?_⟩
      exact ⟨0, cur, Nat.succ_pos m, hP, by simp, ht, hQ, hc⟩
    · have : ¬ (fun s => Transc.le s tol) ‖G (vecC n cur)‖ = true := by
        simpa [Transc.le] using ht
      rw [if_neg this]
      obtain ⟨out, tr', e, o1, o2, o3, o4⟩ :=
        solveSys_run_cx f G r jacF tol q P Q hq0 hq1 hstep m cur' (tr ++ [cur] ++ jtr) hP'
      have hpow : ∀ k, q ^ k * ‖vecC n cur' - r‖ ≤ q ^ (k + 1) * ‖vecC n cur - r‖ := by
        intro k
        calc q ^ k * ‖vecC n cur' - r‖ ≤ q ^ k * (q * ‖vecC n cur - r‖) :=
              mul_le_mul_of_nonneg_left hc (pow_nonneg hq0 k)
          _ = q ^ (k + 1) * ‖vecC n cur - r‖ := by ring
      refine ⟨out, tr', e, o1, le_trans o2 hle, fun ho => ?_, fun ho => ?_⟩
      · obtain ⟨f1, f2⟩ := o3 ho
        refine ⟨le_trans f1 (hpow m), fun k hk => ?_⟩
        cases k with
        | zero => exact ⟨cur, hP, by simp, lt_of_not_ge ht⟩
        | succ k =>
          obtain ⟨c, c1, c2, c3⟩ := f2 k (by omega)
          exact ⟨c, c1, le_trans c2 (hpow k), c3⟩
      · obtain ⟨k, c, c0, c1, c2, c3, c4, c5⟩ := o4 ho
        exact ⟨k + 1, c, by omega, c1, le_trans c2 (hpow k), c3, c4, c5⟩

section ConvC
variable {n : ℕ}

/-- **one iteration of the complex model with a Jacobian within `ε` of `G'`** is a quasi-Newton
    step (`QStep` of C17K, for the real form of the data) with `β = β₀ / (1 − β₀ ε)` -/
theorem model_step_qstep_cx (hn : 1 ≤ n) (f : Array (Cx ℝ) → Array (Cx ℝ))
    (G : (Fin n → ℂ) → (Fin n → ℂ)) (hf : Denotes n f G)
    (G' : (Fin n → ℂ) → (Fin n → ℂ) →L[ℂ] (Fin n → ℂ)) (β₀ ε : ℝ) (hβ : 0 ≤ β₀)
    (hsmall : β₀ * ε < 1) (cur : Array (Cx ℝ)) (hc : cur.size = n)
    (hinv : ∀ v, ‖v‖ ≤ β₀ * ‖G' (vecC n cur) v‖)
    {J : Mat (Cx ℝ)} {e : ℕ → ℕ → Cx ℝ} (hJ : Mat.Is J n n e)
    (hε : ‖matCLMc n (fun i j => toC (e i j)) - G' (vecC n cur)‖ ≤ ε) :
    ∃ dx cur', Vec.normInfC (f cur) = .ok ‖G (vecC n cur)‖ ∧
      Mat.solveBasic J (f cur) = .ok dx ∧ Vec.sub cur dx = .ok cur' ∧ cur'.size = n ∧
      QStep G (realD G') (pertB β₀ ε) ε (vecC n cur) (vecC n cur') := by
  obtain ⟨hfs, hfG⟩ := hf cur hc
  have hε' : ‖(matCLMc n (fun i j => toC (e i j))).restrictScalars ℝ - realD G' (vecC n cur)‖ ≤ ε := by
    rw [realD, norm_restrict_sub]; exact hε
  have hb := bddBelow_perturb (realD G' (vecC n cur))
    ((matCLMc n (fun i j => toC (e i j))).restrictScalars ℝ) β₀ ε hβ hinv hε' hsmall
  obtain ⟨dx, cur', h1, h2, h3, h4, h5⟩ := model_step_gen_cx hn f cur hc hfs hJ hb
  rw [hfG] at h1 h5
  exact ⟨dx, cur', h1, h2, h3, h4, _, hb, hε', h5⟩

/-- **the model's complex system Newton iteration near a simple root, any Jacobian
    approximation** (exact arithmetic, sup norm on `ℂⁿ`, `n ≥ 1`).  The closure `f` denotes `G`;
    `G` is complex differentiable with a `γ`-Lipschitz derivative `G'` on the ball `B(r, ρ)` around
    a root `r` (`SysBallC`), `‖G'(x)⁻¹‖ ≤ β₀` there (`hinv`), the Jacobian routine returns at every
    point of the ball a well-formed `n × n` matrix over `Cx ℝ` whose `toC`-image is within `ε` of
    `G'` in operator norm, `β₀ ε < 1`, and `q = β (γ ρ / 2 + ε) < 1` with `β = β₀ / (1 − β₀ ε)`.
    Then from any guess in the ball, for every `tol` and budget `m`, the run returns (no panic) and
    * the returned point has length `n` and is never farther from `r` than the guess;
    * failure ⇒ error `≤ q^m ‖x₀ − r‖`;
    * success ⇒ the returned point is the Newton update of an iterate `c`, `‖c − r‖ ≤ q^k ‖x₀ − r‖`
      (`k < m`), whose residual met the tolerance, `‖G c‖∞ ≤ tol`; the one-step estimate
      `‖x − r‖ ≤ β (γ/2 ‖c − r‖² + ε ‖c − r‖) ≤ q ‖c − r‖` holds, and
      `(1 − β₀γρ/2) ‖c − r‖ ≤ β₀ tol`, `(1 − β₀γρ/2) ‖x − r‖ ≤ q β₀ tol`;
    * success IS reported once `(‖G' r‖ + γρ/2) q^(m−1) ‖x₀ − r‖ ≤ tol` (`m ≥ 1`). -/
theorem solveSys_converges_gen_cx (hn : 1 ≤ n) (f : Array (Cx ℝ) → Array (Cx ℝ))
    (G : (Fin n → ℂ) → (Fin n → ℂ)) (hf : Denotes n f G)
    (G' : (Fin n → ℂ) → (Fin n → ℂ) →L[ℂ] (Fin n → ℂ)) (r : Fin n → ℂ) (ρ γ β₀ ε : ℝ)
    (H : SysBallC G G' r ρ γ) (hβ : 0 ≤ β₀) (hε : 0 ≤ ε) (hsmall : β₀ * ε < 1)
    (hinv : ∀ x, ‖x - r‖ ≤ ρ → ∀ v, ‖v‖ ≤ β₀ * ‖G' x v‖)
    (hq : sysQ (pertB β₀ ε) γ ρ ε < 1)
    (jacF : Array (Cx ℝ) → Res (Mat (Cx ℝ) × List (Array (Cx ℝ))))
    (hJac : ∀ cur : Array (Cx ℝ), cur.size = n → ‖vecC n cur - r‖ ≤ ρ → ∃ J jtr e,
      jacF cur = .ok (J, jtr) ∧ Mat.Is J n n e ∧
      ‖matCLMc n (fun i j => toC (e i j)) - G' (vecC n cur)‖ ≤ ε)
    (tol : ℝ) (m : ℕ) (guess : Array (Cx ℝ)) (hg : guess.size = n)
    (hg' : ‖vecC n guess - r‖ ≤ ρ) (tr : List (Array (Cx ℝ))) :
    ∃ out tr', solveSys f jacF Vec.normInfC (fun s => Transc.le s tol) m guess tr
        = .ok (out, tr') ∧
      out.x.size = n ∧ ‖vecC n out.x - r‖ ≤ ‖vecC n guess - r‖ ∧
      (out.ok = false →
        ‖vecC n out.x - r‖ ≤ sysQ (pertB β₀ ε) γ ρ ε ^ m * ‖vecC n guess - r‖) ∧
      (out.ok = true → ∃ k c, k < m ∧ c.size = n ∧
        ‖vecC n c - r‖ ≤ sysQ (pertB β₀ ε) γ ρ ε ^ k * ‖vecC n guess - r‖ ∧
        ‖G (vecC n c)‖ ≤ tol ∧
        ‖vecC n out.x - r‖ ≤ pertB β₀ ε * (γ / 2 * ‖vecC n c - r‖ ^ 2 + ε * ‖vecC n c - r‖) ∧
        ‖vecC n out.x - r‖ ≤ sysQ (pertB β₀ ε) γ ρ ε * ‖vecC n c - r‖ ∧
        (1 - β₀ * γ * ρ / 2) * ‖vecC n c - r‖ ≤ β₀ * tol ∧
        (1 - β₀ * γ * ρ / 2) * ‖vecC n out.x - r‖ ≤ sysQ (pertB β₀ ε) γ ρ ε * (β₀ * tol)) ∧
      (1 ≤ m → (‖G' r‖ + γ * ρ / 2) * sysQ (pertB β₀ ε) γ ρ ε ^ (m - 1) * ‖vecC n guess - r‖ ≤ tol →
        out.ok = true) := by
  have HR := H.toReal
  have hρ : 0 ≤ ρ := le_trans (norm_nonneg _) hg'
  have hB := pertB_nonneg hβ hsmall
  have hq0 := sysQ_nonneg hB H.hγ hρ hε
  have hlow : β₀ * γ * ρ / 2 ≤ sysQ (pertB β₀ ε) γ ρ ε := by
    have h1 := le_pertB hβ hε hsmall
    have h2 : 0 ≤ γ * ρ / 2 := by have := H.hγ; positivity
    rw [sysQ]
    nlinarith [mul_le_mul_of_nonneg_right h1 h2, mul_nonneg hB hε]
  obtain ⟨out, tr', e, ⟨o1, o1'⟩, o2, o3, o4⟩ := solveSys_run_cx f G r jacF tol
    (sysQ (pertB β₀ ε) γ ρ ε)
    (fun c => c.size = n ∧ ‖vecC n c - r‖ ≤ ρ)
    (fun c c' => ‖vecC n c' - r‖ ≤ pertB β₀ ε * (γ / 2 * ‖vecC n c - r‖ ^ 2 + ε * ‖vecC n c - r‖))
    hq0 hq.le
    (by
      rintro cur ⟨hc, hcb⟩
      obtain ⟨J, jtr, e, j1, j2, j3⟩ := hJac cur hc hcb
      obtain ⟨dx, cur', s1, s2, s3, s4, s5⟩ := model_step_qstep_cx hn f G hf G' β₀ ε hβ hsmall
        cur hc (hinv _ hcb) j2 j3
      obtain ⟨t1, t2, t3⟩ := HR.step hB hq.le hcb s5
      exact ⟨J, jtr, dx, cur', s1, j1, s2, s3, ⟨s4, t3⟩, t2, t1⟩)
    m guess tr ⟨hg, hg'⟩
  refine ⟨out, tr', e, o1, o2, fun ho => (o3 ho).1, fun ho => ?_, fun hm htol => ?_⟩
  · obtain ⟨k, c, c0, ⟨c1, c1'⟩, c2, c3, c4, c5⟩ := o4 ho
    have hres := HR.residual_lower hβ c1' (hinv _ c1')
    have hpos : 0 ≤ 1 - β₀ * γ * ρ / 2 := by linarith
    have hc : (1 - β₀ * γ * ρ / 2) * ‖vecC n c - r‖ ≤ β₀ * tol :=
      le_trans hres (mul_le_mul_of_nonneg_left c3 hβ)
    refine ⟨k, c, c0, c1, c2, c3, c4, c5, hc, ?_⟩
    calc (1 - β₀ * γ * ρ / 2) * ‖vecC n out.x - r‖
        ≤ (1 - β₀ * γ * ρ / 2) * (sysQ (pertB β₀ ε) γ ρ ε * ‖vecC n c - r‖) :=
          mul_le_mul_of_nonneg_left c5 hpos
      _ = sysQ (pertB β₀ ε) γ ρ ε * ((1 - β₀ * γ * ρ / 2) * ‖vecC n c - r‖) := by ring
      _ ≤ sysQ (pertB β₀ ε) γ ρ ε * (β₀ * tol) := mul_le_mul_of_nonneg_left hc hq0
  · by_contra hne
    have ho : out.ok = false := by simpa using hne
    obtain ⟨c, ⟨_, c1'⟩, c2, c3⟩ := (o3 ho).2 (m - 1) (by omega)
    have hL0 : 0 ≤ ‖G' r‖ + γ * ρ / 2 := by have := H.hγ; positivity
    have := HR.residual_upper c1'
    rw [norm_realD] at this
    have h2 : (‖G' r‖ + γ * ρ / 2) * ‖vecC n c - r‖
        ≤ (‖G' r‖ + γ * ρ / 2) * (sysQ (pertB β₀ ε) γ ρ ε ^ (m - 1) * ‖vecC n guess - r‖) :=
      mul_le_mul_of_nonneg_left c2 hL0
    have h3 : (‖G' r‖ + γ * ρ / 2) * (sysQ (pertB β₀ ε) γ ρ ε ^ (m - 1) * ‖vecC n guess - r‖)
        = (‖G' r‖ + γ * ρ / 2) * sysQ (pertB β₀ ε) γ ρ ε ^ (m - 1) * ‖vecC n guess - r‖ := by ring
    linarith

/-! #### supplied Jacobian -/

/-- **the model bridge for ONE iteration, supplied Jacobian**: if the supplied routine returned a
    well-formed `n × n` matrix over `Cx ℝ` whose `toC`-image is the matrix of `G'(cur)` and
    `G'(cur)` is bounded below by `1/β`, all four sub-computations of the iteration return, the
    tested number is `‖G(cur)‖∞`, and the new point `cur'` satisfies
    `G'(cur) (cur − cur') = G(cur)` in ℂⁿ: it IS the exact Newton update `cur − G'(cur)⁻¹ G(cur)`. -/
theorem model_step_supplied_cx (hn : 1 ≤ n) (f : Array (Cx ℝ) → Array (Cx ℝ))
    (G : (Fin n → ℂ) → (Fin n → ℂ)) (hf : Denotes n f G)
    (G' : (Fin n → ℂ) → (Fin n → ℂ) →L[ℂ] (Fin n → ℂ)) (β : ℝ) (cur : Array (Cx ℝ))
    (hc : cur.size = n) (hinv : ∀ v, ‖v‖ ≤ β * ‖G' (vecC n cur) v‖)
    {J : Mat (Cx ℝ)} {e : ℕ → ℕ → Cx ℝ} (hJ : Mat.Is J n n e)
    (he : ∀ i j : Fin n, toC (e i j) = G' (vecC n cur) (Pi.single j 1) i) :
    ∃ dx cur', Vec.normInfC (f cur) = .ok ‖G (vecC n cur)‖ ∧
      Mat.solveBasic J (f cur) = .ok dx ∧ Vec.sub cur dx = .ok cur' ∧ cur'.size = n ∧
      G' (vecC n cur) (vecC n cur - vecC n cur') = G (vecC n cur) := by
  obtain ⟨hfs, hfG⟩ := hf cur hc
  have hm := matCLMc_eq (fun i j => toC (e i j)) _ he
  obtain ⟨dx, cur', h1, h2, h3, h4, h5⟩ := model_step_gen_cx hn f cur hc hfs hJ (β := β)
    (by rw [hm]; exact hinv)
  rw [hm, hfG] at h5
  rw [hfG] at h1
  exact ⟨dx, cur', h1, h2, h3, h4, h5⟩

/-- **local convergence of the model's COMPLEX system Newton iteration, SUPPLIED Jacobian**
    (`Newton<Vector<Cmplx>>::solve_jacobian`; exact arithmetic, sup norm on `ℂⁿ`, `n ≥ 1`).  The
    closure `f` denotes `G : ℂⁿ → ℂⁿ`; `G` is complex differentiable with a `γ`-Lipschitz
    derivative on the ball `B(r, ρ)` around the root `r`, `‖G'(x)⁻¹‖∞ ≤ β` there (so `r` is a simple
    root and the complex `solve_basic` never refuses), the supplied routine returns at every point
    of the ball a well-formed matrix whose `toC`-image is the matrix of `G'`, and
    `q = β γ ρ / 2 < 1`.  From any guess in the ball, any `tol`, any budget `m`: the run returns;
    the returned point is never farther from `r` than the guess; a failure has error
    `≤ q^m ‖x₀ − r‖`; a success returns the Newton update `x` of an iterate `c` with
    `‖G c‖∞ ≤ tol`, `‖c − r‖ ≤ q^k ‖x₀ − r‖`, and `‖x − r‖ ≤ (βγ/2) ‖c − r‖² ≤ q ‖c − r‖`
    (QUADRATIC convergence), `(1 − q) ‖c − r‖ ≤ β tol`, `(1 − q) ‖x − r‖ ≤ q β tol` — a distance of
    the order of the tolerance; and success IS reported once
    `(‖G' r‖ + γρ/2) q^(m−1) ‖x₀ − r‖ ≤ tol`. -/
theorem solveSys_converges_supplied_cx (hn : 1 ≤ n) (f : Array (Cx ℝ) → Array (Cx ℝ))
    (G : (Fin n → ℂ) → (Fin n → ℂ)) (hf : Denotes n f G)
    (G' : (Fin n → ℂ) → (Fin n → ℂ) →L[ℂ] (Fin n → ℂ)) (r : Fin n → ℂ) (ρ γ β : ℝ)
    (H : SysBallC G G' r ρ γ) (hβ : 0 ≤ β)
    (hinv : ∀ x, ‖x - r‖ ≤ ρ → ∀ v, ‖v‖ ≤ β * ‖G' x v‖)
    (hq : β * γ * ρ / 2 < 1)
    (jacF : Array (Cx ℝ) → Res (Mat (Cx ℝ) × List (Array (Cx ℝ))))
    (hJac : ∀ cur : Array (Cx ℝ), cur.size = n → ‖vecC n cur - r‖ ≤ ρ → ∃ J jtr e,
      jacF cur = .ok (J, jtr) ∧ Mat.Is J n n e ∧
      ∀ i j : Fin n, toC (e i j) = G' (vecC n cur) (Pi.single j 1) i)
    (tol : ℝ) (m : ℕ) (guess : Array (Cx ℝ)) (hg : guess.size = n)
    (hg' : ‖vecC n guess - r‖ ≤ ρ) (tr : List (Array (Cx ℝ))) :
    ∃ out tr', solveSys f jacF Vec.normInfC (fun s => Transc.le s tol) m guess tr
        = .ok (out, tr') ∧
      out.x.size = n ∧ ‖vecC n out.x - r‖ ≤ ‖vecC n guess - r‖ ∧
      (out.ok = false → ‖vecC n out.x - r‖ ≤ (β * γ * ρ / 2) ^ m * ‖vecC n guess - r‖) ∧
      (out.ok = true → ∃ k c, k < m ∧ c.size = n ∧
        ‖vecC n c - r‖ ≤ (β * γ * ρ / 2) ^ k * ‖vecC n guess - r‖ ∧
        ‖G (vecC n c)‖ ≤ tol ∧
        ‖vecC n out.x - r‖ ≤ β * γ / 2 * ‖vecC n c - r‖ ^ 2 ∧
        ‖vecC n out.x - r‖ ≤ β * γ * ρ / 2 * ‖vecC n c - r‖ ∧
        (1 - β * γ * ρ / 2) * ‖vecC n c - r‖ ≤ β * tol ∧
        (1 - β * γ * ρ / 2) * ‖vecC n out.x - r‖ ≤ β * γ * ρ / 2 * (β * tol)) ∧
      (1 ≤ m → (‖G' r‖ + γ * ρ / 2) * (β * γ * ρ / 2) ^ (m - 1) * ‖vecC n guess - r‖ ≤ tol →
        out.ok = true) := by
  have hB : pertB β 0 = β := by simp [pertB]
  have hQ : sysQ β γ ρ 0 = β * γ * ρ / 2 := by rw [sysQ]; ring
  obtain ⟨out, tr', e, o1, o2, o3, o4, o5⟩ := solveSys_converges_gen_cx hn f G hf G' r ρ γ β 0 H hβ
    (le_refl _) (by simp) hinv (by rw [hB, hQ]; exact hq) jacF
    (by
      intro cur hc hcb
      obtain ⟨J, jtr, e, j1, j2, j3⟩ := hJac cur hc hcb
      exact ⟨J, jtr, e, j1, j2, by rw [matCLMc_eq _ _ j3]; simp⟩)
    tol m guess hg hg' tr
  rw [hB, hQ] at o3 o4 o5
  refine ⟨out, tr', e, o1, o2, o3, fun ho => ?_, o5⟩
  obtain ⟨k, c, c0, c1, c2, c3, c4, c5, c6, c7⟩ := o4 ho
  refine ⟨k, c, c0, c1, c2, c3, le_trans c4 (le_of_eq ?_), c5, c6, c7⟩
  ring

/-! #### finite-difference Jacobian (`jacobian_cmplx`, real step) -/

/-- sup-norm operator distance of a complex matrix from a linear map with entrywise error `η`:
    `‖J − A‖∞ ≤ n η` -/
theorem opNorm_sub_le_of_entries_cx (e : ℕ → ℕ → ℂ) (A : (Fin n → ℂ) →L[ℂ] (Fin n → ℂ)) (η : ℝ)
    (hη : 0 ≤ η) (h : ∀ i j : Fin n, ‖e i j - A (Pi.single j 1) i‖ ≤ η) :
    ‖matCLMc n e - A‖ ≤ n * η := by
  refine ContinuousLinearMap.opNorm_le_bound _ (by positivity) (fun v => ?_)
  rw [pi_norm_le_iff_of_nonneg (by positivity)]
  intro i
  rw [sub_apply, Pi.sub_apply, matCLMc_apply, clmc_apply_eq_sum A v i,
    ← Finset.sum_sub_distrib]
  calc ‖∑ j : Fin n, (e i j * v j - A (Pi.single j 1) i * v j)‖
      ≤ ∑ j : Fin n, ‖e i j * v j - A (Pi.single j 1) i * v j‖ := norm_sum_le _ _
    _ ≤ ∑ j : Fin n, η * ‖v‖ := by
        apply Finset.sum_le_sum
        intro j _
        rw [← sub_mul, norm_mul]
        exact mul_le_mul (h i j) (norm_le_pi_norm v j) (norm_nonneg _) hη
    _ = n * η * ‖v‖ := by simp [Finset.sum_const]; ring

/-- Taylor on the ball of `SysBallC` -/
theorem SysBallC.taylor {G : (Fin n → ℂ) → (Fin n → ℂ)}
    {G' : (Fin n → ℂ) → (Fin n → ℂ) →L[ℂ] (Fin n → ℂ)} {r : Fin n → ℂ} {ρ γ : ℝ}
    (H : SysBallC G G' r ρ γ) (x y : Fin n → ℂ) (hx : ‖x - r‖ ≤ ρ) (hy : ‖y - r‖ ≤ ρ) :
    ‖G y - G x - G' x (y - x)‖ ≤ γ / 2 * ‖y - x‖ ^ 2 := by
  have hxB : x ∈ Metric.closedBall r ρ := (mem_ball_iff r x ρ).2 hx
  have hyB : y ∈ Metric.closedBall r ρ := (mem_ball_iff r y ρ).2 hy
  exact cx_sys_taylor G G' _ (convex_closedBall r ρ) x y γ hxB hyB H.hF (H.hL x hxB)

/-- auxiliary form of `cx_fd_column_error`: a step `w` of norm `|δ|` with `G'(x) w = d · G'(x) e` -/
theorem cx_fd_column_error_aux (G : (Fin n → ℂ) → (Fin n → ℂ))
    (G' : (Fin n → ℂ) → (Fin n → ℂ) →L[ℂ] (Fin n → ℂ)) (r : Fin n → ℂ) (ρ γ δ : ℝ)
    (H : SysBallC G G' r (ρ + |δ|) γ) (hδ : δ ≠ 0) (x : Fin n → ℂ) (hx : ‖x - r‖ ≤ ρ)
    (i : Fin n) (w e : Fin n → ℂ) (d : ℂ) (hd0 : d ≠ 0) (hnd : ‖d‖ = |δ|) (hs : ‖w‖ = |δ|)
    (hlin : G' x w = d • G' x e) :
    ‖(G (x + w) i - G x i) / d - G' x e i‖ ≤ γ * |δ| / 2 := by
  have hx' : ‖x - r‖ ≤ ρ + |δ| := by linarith [abs_nonneg δ]
  have hy' : ‖x + w - r‖ ≤ ρ + |δ| := by
    have e : x + w - r = (x - r) + w := by abel
    rw [e]
    exact le_trans (norm_add_le _ _) (by rw [hs]; linarith)
  have hT := H.taylor x (x + w) hx' hy'
  rw [add_sub_cancel_left, hs] at hT
  have hi := le_trans (norm_le_pi_norm _ i) hT
  have e : (G (x + w) i - G x i) / d - G' x e i = (G (x + w) - G x - G' x w) i / d := by
    rw [hlin]
    simp only [Pi.sub_apply, Pi.smul_apply, smul_eq_mul]
    field_simp
  rw [e, norm_div, hnd, div_le_iff₀ (abs_pos.mpr hδ)]
  refine le_trans hi (le_of_eq ?_)
  ring

/-- **accuracy of one forward-difference column in ℂⁿ, real step**: if `G'` is `γ`-Lipschitz on
    the ball `B(r, ρ + |δ|)` and `‖x − r‖ ≤ ρ` then every entry of the column
    `(G(x + δ e_j) − G(x)) / δ` is within `γ |δ| / 2` of the entry of `G'(x) e_j`. -/
theorem cx_fd_column_error (G : (Fin n → ℂ) → (Fin n → ℂ))
    (G' : (Fin n → ℂ) → (Fin n → ℂ) →L[ℂ] (Fin n → ℂ)) (r : Fin n → ℂ) (ρ γ δ : ℝ)
    (H : SysBallC G G' r (ρ + |δ|) γ) (hδ : δ ≠ 0) (x : Fin n → ℂ) (hx : ‖x - r‖ ≤ ρ)
    (i j : Fin n) :
    ‖(G (x + Pi.single j (δ : ℂ)) i - G x i) / (δ : ℂ) - G' x (Pi.single j 1) i‖
      ≤ γ * |δ| / 2 := by
  have hd0 : (δ : ℂ) ≠ 0 := by exact_mod_cast hδ
  have hnd : ‖(δ : ℂ)‖ = |δ| := by simp
  have hs : ‖(Pi.single j (δ : ℂ) : Fin n → ℂ)‖ = |δ| := by
    rw [Pi.norm_single, hnd]
  have hlin : G' x (Pi.single j (δ : ℂ)) = (δ : ℂ) • G' x (Pi.single j 1) := by
    rw [← map_smul]
    congr 1
    funext k
    simp [Pi.single_apply]
  exact cx_fd_column_error_aux G G' r ρ γ δ H hδ x hx i _ _ _ hd0 hnd hs hlin

theorem vecC_modify {a : Array (Cx ℝ)} (ha : a.size = n) (j : Fin n) (d : ℝ) :
    vecC n (a.modify j (fun p => p + ⟨d, 0⟩)) = vecC n a + Pi.single j (d : ℂ) := by
  funext k
  have hk : (k : ℕ) < a.size := by rw [ha]; exact k.2
  by_cases h : (j : ℕ) = k
  · have hkj : k = j := Fin.ext h.symm
    subst hkj
    simp [vecC, Array.getD, hk, Array.getElem_modify, toC_add, C18.toC_ofReal]
  · have hkj : ¬ k = j := fun e => h (by rw [e])
    simp [vecC, Array.getD, hk, Array.getElem_modify, h, hkj]

/-- **`jacobian_cmplx` on a closure that denotes `G`**: with a real step `δ ≠ 0` the call returns
    at every point of length `n` a well-formed `n × n` matrix whose entries, read in ℂ, are the
    forward quotients `(G(x + δ e_j)_i − G(x)_i) / δ`. -/
theorem jacobian_cmplx_denotes (hn : 1 ≤ n) (f : Array (Cx ℝ) → Array (Cx ℝ))
    (G : (Fin n → ℂ) → (Fin n → ℂ)) (hf : Denotes n f G) (δ : ℝ) (hδ : δ ≠ 0)
    (cur : Array (Cx ℝ)) (hc : cur.size = n) :
    ∃ J jtr e, jacobian f cur (⟨δ, 0⟩ : Cx ℝ) = .ok (J, jtr) ∧ Mat.Is J n n e ∧
      ∀ i j : Fin n, toC (e i j)
        = (G (vecC n cur + Pi.single j (δ : ℂ)) i - G (vecC n cur) i) / (δ : ℂ) := by
  have hmod : ∀ j, (cur.modify j (fun p => p + (⟨δ, 0⟩ : Cx ℝ))).size = n := by
    intro j; rw [Array.size_modify, hc]
  obtain ⟨hfs, hfG⟩ := hf cur hc
  obtain ⟨J, h1, h2, h3, h4, h5⟩ := C18.jacobian_entries_cmplx f cur δ hδ
    (fun j _ => by rw [(hf _ (hmod j)).1, hfs])
  rw [hfs] at h2
  rw [hc] at h3
  have hIs : Mat.Is J n n (Mat.ent J) := Mat.WFn.is ⟨h4, h2, h3⟩
  refine ⟨J, _, Mat.ent J, h1, hIs, ?_⟩
  intro i j
  obtain ⟨hys, hyG⟩ := hf _ (hmod j)
  obtain ⟨q, hq1, hq2⟩ := h5 i j (by rw [hfs]; exact i.2) (by rw [hc]; exact j.2)
    (by rw [hys]; exact i.2)
  have hq : q = Mat.ent J i j := by
    have := hIs.entry i j i.2 j.2
    rw [hq1] at this
    exact Except.ok.inj this
  rw [← hq, hq2, ← vecC_modify hc j δ, ← hyG, ← hfG]
  have hi1 : (i : ℕ) < (f (cur.modify j (fun p => p + (⟨δ, 0⟩ : Cx ℝ)))).size := by
    rw [hys]; exact i.2
  have hi2 : (i : ℕ) < (f cur).size := by rw [hfs]; exact i.2
  simp [vecC, Array.getD, hi1, hi2]

/-- **local convergence of the model's COMPLEX system Newton iteration, FINITE-DIFFERENCE
    Jacobian** (`Newton<Vector<Cmplx>>::solve` with `jacobian_cmplx`, real step `δ ≠ 0` embedded
    as `δ + 0i`; exact arithmetic, sup norm on `ℂⁿ`, `n ≥ 1`).  As `solveSys_converges_supplied_cx`,
    with `G'` `γ`-Lipschitz on the slightly larger ball `B(r, ρ + |δ|)` (the Jacobian evaluates `G`
    at `x + δ e_j`): every entry of the computed Jacobian is within `γ|δ|/2` of `G'`
    (`cx_fd_column_error`), hence the matrix is within `ε = n γ |δ| / 2` in operator norm; if
    `β₀ ε < 1` it is nonsingular with inverse bounded by `β = β₀/(1 − β₀ ε)` (no hypothesis on the
    computed matrix is needed) and if `q = β (γρ/2 + ε) < 1` the conclusions of
    `solveSys_converges_gen_cx` hold: geometric decrease with ratio `q`, one-step estimate
    `‖x⁺ − r‖ ≤ β (γ/2 ‖x − r‖² + ε ‖x − r‖)` (quadratic up to the `O(δ)` linear term), success
    within a distance of the order of `tol`. -/
theorem solveSys_converges_fd_cx (hn : 1 ≤ n) (f : Array (Cx ℝ) → Array (Cx ℝ))
    (G : (Fin n → ℂ) → (Fin n → ℂ)) (hf : Denotes n f G)
    (G' : (Fin n → ℂ) → (Fin n → ℂ) →L[ℂ] (Fin n → ℂ)) (r : Fin n → ℂ) (ρ γ β₀ δ : ℝ)
    (H : SysBallC G G' r (ρ + |δ|) γ) (hβ : 0 ≤ β₀) (hδ : δ ≠ 0)
    (hsmall : β₀ * (n * (γ * |δ| / 2)) < 1)
    (hinv : ∀ x, ‖x - r‖ ≤ ρ → ∀ v, ‖v‖ ≤ β₀ * ‖G' x v‖)
    (hq : sysQ (pertB β₀ (n * (γ * |δ| / 2))) γ ρ (n * (γ * |δ| / 2)) < 1)
    (tol : ℝ) (m : ℕ) (guess : Array (Cx ℝ)) (hg : guess.size = n)
    (hg' : ‖vecC n guess - r‖ ≤ ρ) (tr : List (Array (Cx ℝ))) :
    ∃ out tr', solveSys f (fun x => jacobian f x (⟨δ, 0⟩ : Cx ℝ)) Vec.normInfC
        (fun s => Transc.le s tol) m guess tr = .ok (out, tr') ∧
      out.x.size = n ∧ ‖vecC n out.x - r‖ ≤ ‖vecC n guess - r‖ ∧
      (out.ok = false → ‖vecC n out.x - r‖
        ≤ sysQ (pertB β₀ (n * (γ * |δ| / 2))) γ ρ (n * (γ * |δ| / 2)) ^ m * ‖vecC n guess - r‖) ∧
      (out.ok = true → ∃ k c, k < m ∧ c.size = n ∧
        ‖vecC n c - r‖
          ≤ sysQ (pertB β₀ (n * (γ * |δ| / 2))) γ ρ (n * (γ * |δ| / 2)) ^ k * ‖vecC n guess - r‖ ∧
        ‖G (vecC n c)‖ ≤ tol ∧
        ‖vecC n out.x - r‖ ≤ pertB β₀ (n * (γ * |δ| / 2)) *
          (γ / 2 * ‖vecC n c - r‖ ^ 2 + n * (γ * |δ| / 2) * ‖vecC n c - r‖) ∧
        ‖vecC n out.x - r‖
          ≤ sysQ (pertB β₀ (n * (γ * |δ| / 2))) γ ρ (n * (γ * |δ| / 2)) * ‖vecC n c - r‖ ∧
        (1 - β₀ * γ * ρ / 2) * ‖vecC n c - r‖ ≤ β₀ * tol ∧
        (1 - β₀ * γ * ρ / 2) * ‖vecC n out.x - r‖
          ≤ sysQ (pertB β₀ (n * (γ * |δ| / 2))) γ ρ (n * (γ * |δ| / 2)) * (β₀ * tol)) ∧
      (1 ≤ m → (‖G' r‖ + γ * ρ / 2) *
          sysQ (pertB β₀ (n * (γ * |δ| / 2))) γ ρ (n * (γ * |δ| / 2)) ^ (m - 1) *
          ‖vecC n guess - r‖ ≤ tol → out.ok = true) := by
  have hη : 0 ≤ γ * |δ| / 2 := by have := H.hγ; positivity
  refine solveSys_converges_gen_cx hn f G hf G' r ρ γ β₀ (n * (γ * |δ| / 2))
    (H.mono (by linarith [abs_nonneg δ])) hβ (by positivity) hsmall hinv hq _ ?_
    tol m guess hg hg' tr
  intro cur hc hcb
  obtain ⟨J, jtr, e, j1, j2, j3⟩ := jacobian_cmplx_denotes hn f G hf δ hδ cur hc
  refine ⟨J, jtr, e, j1, j2, opNorm_sub_le_of_entries_cx _ _ _ hη (fun i j => ?_)⟩
  rw [j3 i j]
  exact cx_fd_column_error G G' r ρ γ δ H hδ (vecC n cur) hcb i j

end ConvC

end ModelC

/-! ### the hypotheses are satisfiable: a 2-dimensional complex system -/
section ExamplesC

/-- `G(z, w) = (z² + w, z + w² − (1 + i))`, simple root `(i, 1)` -/
noncomputable def exWG : (Fin 2 → ℂ) → (Fin 2 → ℂ) :=
  fun v => ![v 0 ^ 2 + v 1, v 0 + v 1 ^ 2 - (1 + Complex.I)]

/-- the root `(i, 1)` -/
noncomputable def exWr : Fin 2 → ℂ := ![Complex.I, 1]

/-- its Jacobian matrix `[[2z, 1], [1, 2w]]` -/
noncomputable def exWGJ (x : Fin 2 → ℂ) : ℕ → ℕ → ℂ := fun i j =>
  if i = 0 then (if j = 0 then 2 * x 0 else 1) else (if j = 0 then 1 else 2 * x 1)

noncomputable def exWG' (x : Fin 2 → ℂ) : (Fin 2 → ℂ) →L[ℂ] (Fin 2 → ℂ) := matCLMc 2 (exWGJ x)

theorem exWG'_apply (x v : Fin 2 → ℂ) :
    exWG' x v = ![2 * x 0 * v 0 + v 1, v 0 + 2 * x 1 * v 1] := by
  funext i
  fin_cases i <;> simp [exWG', matCLMc_apply, Fin.sum_univ_two, exWGJ]

theorem exWG_hasFDerivAt (x : Fin 2 → ℂ) : HasFDerivAt exWG (exWG' x) x := by
  rw [hasFDerivAt_pi']
  intro i
  have p0 : HasFDerivAt (fun v : Fin 2 → ℂ => v 0)
      (ContinuousLinearMap.proj (R := ℂ) (φ := fun _ : Fin 2 => ℂ) 0) x :=
    (ContinuousLinearMap.proj (R := ℂ) (φ := fun _ : Fin 2 => ℂ) 0).hasFDerivAt
  have p1 : HasFDerivAt (fun v : Fin 2 → ℂ => v 1)
      (ContinuousLinearMap.proj (R := ℂ) (φ := fun _ : Fin 2 => ℂ) 1) x :=
    (ContinuousLinearMap.proj (R := ℂ) (φ := fun _ : Fin 2 => ℂ) 1).hasFDerivAt
  fin_cases i
  · have h := (p0.pow 2).add p1
    have e : (fun v : Fin 2 → ℂ => exWG v (0 : Fin 2)) = fun v => v 0 ^ 2 + v 1 := by
      funext v; simp [exWG]
    simp only [Fin.zero_eta]
    rw [e]
    refine h.congr_fderiv ?_
    ext v
    simp [exWG'_apply]
  · have h := (p0.add (p1.pow 2)).sub_const (1 + Complex.I)
    have e : (fun v : Fin 2 → ℂ => exWG v (1 : Fin 2))
        = fun v => v 0 + v 1 ^ 2 - (1 + Complex.I) := by
      funext v; simp [exWG]
    simp only [Fin.mk_one]
    rw [e]
    refine h.congr_fderiv ?_
    ext v
    simp [exWG'_apply]

theorem exWG'_lipschitz (x z : Fin 2 → ℂ) : ‖exWG' z - exWG' x‖ ≤ 2 * ‖z - x‖ := by
  refine ContinuousLinearMap.opNorm_le_bound _ (by positivity) (fun v => ?_)
  rw [pi_norm_le_iff_of_nonneg (by positivity)]
  intro i
  have hz := norm_le_pi_norm (z - x) i
  have hv := norm_le_pi_norm v i
  have key : (exWG' z - exWG' x) v i = 2 * (z - x) i * v i := by
    rw [sub_apply, exWG'_apply, exWG'_apply]
    fin_cases i <;> simp <;> ring
  rw [key, norm_mul, norm_mul]
  have h2 : ‖(2 : ℂ)‖ = 2 := by simp
  rw [h2]
  have := mul_le_mul hz hv (norm_nonneg _) (norm_nonneg _)
  nlinarith

/-- at the root `(i, 1)` the Jacobian `[[2i, 1], [1, 2]]` (determinant `4i − 1`, not real) has
    `‖·⁻¹‖∞ = 3/√17 ≤ 3/4` -/
theorem exWG'_root_bddBelow (v : Fin 2 → ℂ) : ‖v‖ ≤ 3 / 4 * ‖exWG' exWr v‖ := by
  rw [pi_norm_le_iff_of_nonneg (by positivity)]
  obtain ⟨u, hu⟩ : ∃ u, u = exWG' exWr v := ⟨_, rfl⟩
  rw [← hu]
  have h0 := norm_le_pi_norm u 0
  have h1 := norm_le_pi_norm u 1
  have e0 : u 0 = 2 * Complex.I * v 0 + v 1 := by rw [hu, exWG'_apply]; simp [exWr]
  have e1 : u 1 = v 0 + 2 * v 1 := by rw [hu, exWG'_apply]; simp [exWr]
  have hk : (4 : ℝ) ≤ ‖(4 * Complex.I - 1 : ℂ)‖ := by
    have := Complex.abs_im_le_norm (4 * Complex.I - 1 : ℂ)
    simpa using this
  have h2 : ‖(2 : ℂ)‖ = 2 := by simp
  intro i
  fin_cases i
  · have e : (4 * Complex.I - 1) * v 0 = 2 * u 0 - u 1 := by rw [e0, e1]; ring
    have hn : ‖(4 * Complex.I - 1 : ℂ)‖ * ‖v 0‖ ≤ 3 * ‖u‖ := by
      rw [← norm_mul, e]
      calc ‖2 * u 0 - u 1‖ ≤ ‖2 * u 0‖ + ‖u 1‖ := norm_sub_le _ _
        _ = 2 * ‖u 0‖ + ‖u 1‖ := by rw [norm_mul, h2]
        _ ≤ 3 * ‖u‖ := by linarith
    show ‖v 0‖ ≤ 3 / 4 * ‖u‖
    nlinarith [norm_nonneg (v 0), norm_nonneg u]
  · have e : (4 * Complex.I - 1) * v 1 = 2 * Complex.I * u 1 - u 0 := by rw [e0, e1]; ring
    have hn : ‖(4 * Complex.I - 1 : ℂ)‖ * ‖v 1‖ ≤ 3 * ‖u‖ := by
      rw [← norm_mul, e]
      calc ‖2 * Complex.I * u 1 - u 0‖ ≤ ‖2 * Complex.I * u 1‖ + ‖u 0‖ := norm_sub_le _ _
        _ = 2 * ‖u 1‖ + ‖u 0‖ := by rw [norm_mul, norm_mul, h2, Complex.norm_I, mul_one]
        _ ≤ 3 * ‖u‖ := by linarith
    show ‖v 1‖ ≤ 3 / 4 * ‖u‖
    nlinarith [norm_nonneg (v 1), norm_nonneg u]

/-- on the ball of radius `1/8 + 1/1000` around `(i, 1)`: `‖G'(x)⁻¹‖∞ ≤ 1` (perturbation lemma:
    `(3/4) / (1 − (3/4)·2·(1/8 + 1/1000)) ≤ 1`) -/
theorem exWG'_bddBelow (x : Fin 2 → ℂ) (hx : ‖x - exWr‖ ≤ 1 / 8 + 1 / 1000) (v : Fin 2 → ℂ) :
    ‖v‖ ≤ 1 * ‖exWG' x v‖ := by
  have h := bddBelow_perturb_cx (exWG' exWr) (exWG' x) (3 / 4) (63 / 250) (by norm_num)
    exWG'_root_bddBelow (le_trans (exWG'_lipschitz _ x) (by linarith)) (by norm_num) v
  have hn := norm_nonneg (exWG' x v)
  norm_num at h
  linarith

theorem exWG_sysBall (ρ : ℝ) : SysBallC exWG exWG' exWr ρ 2 where
  hroot := by
    funext i
    fin_cases i
    · simp [exWG, exWr]
    · simp [exWG, exWr]; ring
  hγ := by norm_num
  hF := fun z _ => (exWG_hasFDerivAt z).hasFDerivWithinAt
  hL := fun x _ z _ => exWG'_lipschitz x z

/-- the user closure of `G`, written with the model's complex operations -/
def exWf (x : Array (Cx ℝ)) : Array (Cx ℝ) :=
  #[x.getD 0 0 * x.getD 0 0 + x.getD 1 0, x.getD 0 0 + x.getD 1 0 * x.getD 1 0 - ⟨1, 1⟩]

theorem exWf_denotes : Denotes 2 exWf exWG := by
  intro x _
  refine ⟨rfl, ?_⟩
  funext i
  fin_cases i
  · simp [vecC, exWf, exWG, toC_add, toC_mul, pow_two]
  · simp [vecC, exWf, exWG, toC_add, toC_mul, toC_sub, pow_two]
    apply Complex.ext <;> simp [toC]

/-- the user-supplied Jacobian routine of `G` -/
def exWJac : Array (Cx ℝ) → Res (Mat (Cx ℝ) × List (Array (Cx ℝ))) :=
  fun a => .ok (⟨#[⟨2, 0⟩ * a.getD 0 0, ⟨1, 0⟩, ⟨1, 0⟩, ⟨2, 0⟩ * a.getD 1 0], 2, 2⟩, [])

theorem exWJac_spec (cur : Array (Cx ℝ)) : ∃ J jtr e, exWJac cur = .ok (J, jtr) ∧ Mat.Is J 2 2 e ∧
    ∀ i j : Fin 2, toC (e i j) = exWG' (vecC 2 cur) (Pi.single j 1) i := by
  refine ⟨_, _, _, rfl, Mat.WFn.is ⟨rfl, rfl, rfl⟩, ?_⟩
  have h2 : toC (⟨2, 0⟩ : Cx ℝ) = 2 := by apply Complex.ext <;> simp [toC]
  have h1 : toC (⟨1, 0⟩ : Cx ℝ) = 1 := by apply Complex.ext <;> simp [toC]
  intro i j
  rw [exWG'_apply]
  fin_cases i <;> fin_cases j <;> simp [Mat.ent, vecC, toC_mul, h1, h2]

/-- the guess `(1/10 + i, 1 − i/10)` -/
noncomputable def exWGuess : Array (Cx ℝ) := #[⟨1 / 10, 1⟩, ⟨1, -1 / 10⟩]

theorem exWGuess_mem : ‖vecC 2 exWGuess - exWr‖ ≤ 1 / 8 := by
  rw [pi_norm_le_iff_of_nonneg (by norm_num)]
  intro i
  refine le_trans (Complex.norm_le_abs_re_add_abs_im _) ?_
  fin_cases i
  · simp [vecC, exWGuess, exWr, toC]
    norm_num
  · simp [vecC, exWGuess, exWr, toC]
    rw [abs_of_neg (by norm_num : (-1 / 10 : ℝ) < 0)]
    norm_num

/-- **non-vacuity, supplied Jacobian**: `G(z, w) = (z² + w, z + w² − (1 + i))` near its simple
    NON-REAL root `(i, 1)`: `ρ = 1/8`, `γ = 2`, `β = 1`, `q = 1/8`.  From the guess
    `(1/10 + i, 1 − i/10)` the model's complex `solve_jacobian` returns for every `tol` and every
    budget, stays within `1/8` of the root, a failure has error `≤ (1/8)^m / 8`, and a reported
    success is within `tol / 7` of the root. -/
example (tol : ℝ) (m : ℕ) :
    ∃ out tr', solveSys exWf exWJac Vec.normInfC (fun s => Transc.le s tol) m exWGuess []
        = .ok (out, tr') ∧
      ‖vecC 2 out.x - exWr‖ ≤ 1 / 8 ∧
      (out.ok = false → ‖vecC 2 out.x - exWr‖ ≤ (1 / 8) ^ m * (1 / 8)) ∧
      (out.ok = true → ‖vecC 2 out.x - exWr‖ ≤ 1 / 7 * tol) := by
  obtain ⟨out, tr', e, _, o2, o3, o4, _⟩ := solveSys_converges_supplied_cx (n := 2) (by norm_num)
    exWf exWG exWf_denotes exWG' exWr (1 / 8) 2 1 (exWG_sysBall _) (by norm_num)
    (fun x hx => exWG'_bddBelow x (by linarith)) (by norm_num)
    exWJac (fun cur _ _ => exWJac_spec cur) tol m exWGuess rfl exWGuess_mem []
  have hq : (1 : ℝ) * 2 * (1 / 8) / 2 = 1 / 8 := by norm_num
  rw [hq] at o3 o4
  refine ⟨out, tr', e, le_trans o2 exWGuess_mem, fun ho => le_trans (o3 ho) ?_, fun ho => ?_⟩
  · exact mul_le_mul_of_nonneg_left exWGuess_mem (by positivity)
  · obtain ⟨k, c, _, _, _, _, _, _, _, c7⟩ := o4 ho
    linarith

/-- **non-vacuity, `jacobian_cmplx`**: the same system with the real step `δ = 1/1000`
    (`ε = 1/500`, `β = 500/499`, `q = 127/998`): the model's complex `solve` returns from the guess
    `(1/10 + i, 1 − i/10)` for every `tol` and budget, stays within `1/8` of the root, a failure
    has error `≤ (127/998)^m / 8`, a reported success is within `(8/7)(127/998) tol`. -/
example (tol : ℝ) (m : ℕ) :
    ∃ out tr', solveSys exWf (fun x => jacobian exWf x (⟨1 / 1000, 0⟩ : Cx ℝ)) Vec.normInfC
        (fun s => Transc.le s tol) m exWGuess [] = .ok (out, tr') ∧
      ‖vecC 2 out.x - exWr‖ ≤ 1 / 8 ∧
      (out.ok = false → ‖vecC 2 out.x - exWr‖ ≤ (127 / 998) ^ m * (1 / 8)) ∧
      (out.ok = true → ‖vecC 2 out.x - exWr‖ ≤ 8 / 7 * (127 / 998 * tol)) := by
  have hδ : |(1 / 1000 : ℝ)| = 1 / 1000 := abs_of_pos (by norm_num)
  have hε : ((2 : ℕ) : ℝ) * (2 * |(1 / 1000 : ℝ)| / 2) = 1 / 500 := by rw [hδ]; norm_num
  have hB : pertB 1 (1 / 500) = 500 / 499 := by rw [pertB]; norm_num
  have hQ : sysQ (500 / 499) 2 (1 / 8) (1 / 500) = 127 / 998 := by rw [sysQ]; norm_num
  obtain ⟨out, tr', e, _, o2, o3, o4, _⟩ := solveSys_converges_fd_cx (n := 2) (by norm_num) exWf
    exWG exWf_denotes exWG' exWr (1 / 8) 2 1 (1 / 1000) (exWG_sysBall _) (by norm_num)
    (by norm_num) (by rw [hε]; norm_num)
    (fun x hx => exWG'_bddBelow x (by linarith)) (by rw [hε, hB, hQ]; norm_num)
    tol m exWGuess rfl exWGuess_mem []
  rw [hε, hB, hQ] at o3 o4
  refine ⟨out, tr', e, le_trans o2 exWGuess_mem, fun ho => le_trans (o3 ho) ?_, fun ho => ?_⟩
  · exact mul_le_mul_of_nonneg_left exWGuess_mem (by positivity)
  · obtain ⟨k, c, _, _, _, _, _, _, _, c7⟩ := o4 ho
    linarith

end ExamplesC

end Ohsl.Props.C17
