/-
  Property C13 — complex arithmetic is exact field arithmetic; operator variants and the
  ordering agree.  Theorems about the model `Ohsl.Cx` (Ohsl/Model/Cx.lean).

  Classes (DESIGN §2.2): (S) any `K`, arbitrary operations; (E) exact field.
  NOT proved here: the "few ulps over f64" half (class F) — see DESIGN §6 C13.
-/
import Ohsl.Model.Cx
import Ohsl.Lemmas.Alg
import Mathlib.Algebra.Ring.MinimalAxioms

set_option linter.unusedSectionVars false
set_option linter.unusedVariables false

namespace Ohsl.Props.C13
open Ohsl Ohsl.Cx

/-! ### (S) compound-assignment forms return exactly the term of the binary forms -/
section Structural
variable {K : Type} [Add K] [Sub K] [Mul K] [Neg K] [Zero K] [One K] [BEq K] [ScalarExt K]

theorem addAssign_eq (a b : Cx K) : addAssign a b = a + b := rfl
theorem subAssign_eq (a b : Cx K) : subAssign a b = a - b := rfl
/-- `*=` needs one law only: commutativity of `+` (true of IEEE addition on NaN-free data). -/
theorem mulAssign_eq (hc : ∀ x y : K, x + y = y + x) (a b : Cx K) : mulAssign a b = a * b := by
  show (⟨_, _⟩ : Cx K) = ⟨_, _⟩
  congr 1
  exact hc _ _
theorem divAssign_eq (a b : Cx K) : divAssign a b = Cx.div a b := rfl
theorem addAssignR_eq (a : Cx K) (r : K) : addAssignR a r = addR a r := rfl
theorem subAssignR_eq (a : Cx K) (r : K) : subAssignR a r = subR a r := rfl
theorem mulAssignR_eq (a : Cx K) (r : K) : mulAssignR a r = mulR a r := rfl
theorem divAssignR_eq (a : Cx K) (r : K) : divAssignR a r = divR a r := rfl

/-- the eight compound / mixed forms at once (seven of them hold by `rfl`: the model's assignment forms are the
    same terms as the binary forms, as in the Rust source) -/
theorem assign_eq_binary (hc : ∀ x y : K, x + y = y + x) (a b : Cx K) (r : K) :
    addAssign a b = a + b ∧ subAssign a b = a - b ∧ mulAssign a b = a * b ∧ divAssign a b = Cx.div a b ∧
    addAssignR a r = addR a r ∧ subAssignR a r = subR a r ∧ mulAssignR a r = mulR a r ∧
    divAssignR a r = divR a r :=
  ⟨rfl, rfl, mulAssign_eq hc a b, rfl, rfl, rfl, rfl, rfl⟩
end Structural

/-! ### (E) exact field arithmetic -/
section Field
variable {K : Type} [Field K] [LinearOrder K]
attribute [local instance] Alg.scalarExt

@[ext] theorem ext' {a b : Cx K} (h1 : a.re = b.re) (h2 : a.im = b.im) : a = b := by
  cases a; cases b; simp_all

@[simp] theorem add_re (a b : Cx K) : (a + b).re = a.re + b.re := rfl
@[simp] theorem add_im (a b : Cx K) : (a + b).im = a.im + b.im := rfl
@[simp] theorem sub_re (a b : Cx K) : (a - b).re = a.re - b.re := rfl
@[simp] theorem sub_im (a b : Cx K) : (a - b).im = a.im - b.im := rfl
@[simp] theorem mul_re (a b : Cx K) : (a * b).re = a.re * b.re - a.im * b.im := rfl
@[simp] theorem mul_im (a b : Cx K) : (a * b).im = a.re * b.im + a.im * b.re := rfl
@[simp] theorem neg_re (a : Cx K) : (-a).re = -a.re := rfl
@[simp] theorem neg_im (a : Cx K) : (-a).im = -a.im := rfl
@[simp] theorem zero_re : (0 : Cx K).re = 0 := rfl
@[simp] theorem zero_im : (0 : Cx K).im = 0 := rfl
@[simp] theorem one_re : (1 : Cx K).re = 1 := rfl
@[simp] theorem one_im : (1 : Cx K).im = 0 := rfl

/-- The model's `+ * - 0 1` make `Cx K` a commutative ring: every ring identity holds. -/
def cx_ring : CommRing (Cx K) :=
  CommRing.ofMinimalAxioms
    (by intro a b c; ext <;> simp <;> ring)
    (by intro a; ext <;> simp)
    (by intro a; ext <;> simp)
    (by intro a b c; ext <;> simp <;> ring)
    (by intro a b; ext <;> simp <;> ring)
    (by intro a; ext <;> simp)
    (by intro a b c; ext <;> simp <;> ring)

/-- binary `-` is addition of the negation -/
theorem cx_sub_eq (a b : Cx K) : a - b = a + -b := by ext <;> simp <;> ring

/-- zero and one are identities -/
theorem cx_identities (a : Cx K) : a + 0 = a ∧ 0 + a = a ∧ a * 1 = a ∧ 1 * a = a := by
  refine ⟨?_, ?_, ?_, ?_⟩ <;> ext <;> simp

/-- division is the exact inverse of multiplication whenever the divisor is non-zero … -/
theorem cx_div_mul (z w : Cx K) (hw : absSqr w ≠ 0) :
    ∃ q, Cx.div z w = .ok q ∧ q * w = z := by
  have hw' : w.re * w.re + w.im * w.im ≠ 0 := hw
  refine ⟨⟨(z.re * w.re + z.im * w.im) / (w.re * w.re + w.im * w.im),
           (z.im * w.re - z.re * w.im) / (w.re * w.re + w.im * w.im)⟩, ?_, ?_⟩
  · simp [Cx.div, hw', bind, Except.bind, pure, Except.pure]
  · have h2 : w.re ^ 2 + w.im ^ 2 ≠ 0 := by simpa [sq] using hw'
    ext
    · simp only [mul_re]; field_simp; ring
    · simp only [mul_im]; field_simp; ring

/-- … and is rejected (the exact type's division-by-zero panic) when the divisor is zero. -/
theorem cx_div_rejects (z w : Cx K) (hw : absSqr w = 0) : Cx.div z w = .error .arith := by
  have hw' : w.re * w.re + w.im * w.im = 0 := hw
  simp [Cx.div, hw', bind, Except.bind]

/-- over an ordered field a complex number with zero squared modulus is zero -/
theorem absSqr_eq_zero [IsStrictOrderedRing K] (w : Cx K) : absSqr w = 0 ↔ w = 0 := by
  constructor
  · intro h
    have h' : w.re * w.re + w.im * w.im = 0 := h
    have h1 : w.re = 0 := by nlinarith [mul_self_nonneg w.re, mul_self_nonneg w.im]
    have h2 : w.im = 0 := by nlinarith [mul_self_nonneg w.re, mul_self_nonneg w.im]
    ext <;> simp [h1, h2]
  · rintro rfl; simp [absSqr]

/-- |z|² = Re (z · conj z), and the imaginary part of that product vanishes -/
theorem absSqr_spec (z : Cx K) : absSqr z = (z * conj z).re ∧ (z * conj z).im = 0 := by
  constructor
  · simp [absSqr, conj]
  · simp [conj]; ring

theorem conj_conj (z : Cx K) : conj (conj z) = z := by ext <;> simp [conj]
theorem conj_add (a b : Cx K) : conj (a + b) = conj a + conj b := by ext <;> simp [conj]; ring
theorem conj_mul (a b : Cx K) : conj (a * b) = conj a * conj b := by ext <;> simp [conj] <;> ring

/-- mixed complex/real forms equal the forms with the real embedded as `r + 0i` -/
theorem mixed_real_forms (z : Cx K) (r : K) :
    addR z r = z + ⟨r, 0⟩ ∧ subR z r = z - ⟨r, 0⟩ ∧ mulR z r = z * ⟨r, 0⟩ ∧
    divR z r = Cx.div z ⟨r, 0⟩ := by
  refine ⟨?_, ?_, ?_, ?_⟩
  · ext <;> simp [addR]
  · ext <;> simp [subR]
  · ext <;> simp [mulR]
  · by_cases hr : r = 0
    · simp [divR, Cx.div, hr, bind, Except.bind]
    · have h2 : r * r ≠ 0 := mul_ne_zero hr hr
      simp [divR, Cx.div, hr, h2, bind, Except.bind, pure, Except.pure]
      constructor <;> field_simp

/-! ### equality and the lexicographic ordering -/

theorem beq_iff (a b : Cx K) : (a == b) = true ↔ a = b := by
  show (Cx.beq a b) = true ↔ a = b
  simp only [Cx.beq, Bool.and_eq_true, beq_iff_eq]
  constructor
  · rintro ⟨h1, h2⟩; exact ext' h1 h2
  · rintro rfl; exact ⟨rfl, rfl⟩

/-- the component comparison never answers `None` (3) on a linear order … -/
private theorem c_total (x y : K) :
    (if ScalarExt.lt x y then 0 else if x == y then 1 else if ScalarExt.lt y x then 2 else 3 : Nat) =
      if x < y then 0 else if x = y then 1 else 2 := by
  simp only [Alg.lt_eq, decide_eq_true_eq, beq_iff_eq]
  rcases lt_trichotomy x y with h | h | h
  · simp [h]
  · simp [h]
  · simp [h, not_lt_of_gt h, (ne_of_gt h)]

theorem cmp_eq (a b : Cx K) : Cx.cmp a b =
    if a.re ≠ b.re then (if a.re < b.re then 0 else 2) else
      (if a.im < b.im then 0 else if a.im = b.im then 1 else 2) := by
  unfold Cx.cmp
  simp only [c_total, bne_iff_ne, ne_eq, ite_not]
  by_cases h : a.re = b.re
  · simp [h]
  · simp [h]

/-- exactly one of `<`, `=`, `>`: the comparison is never undefined, `=` coincides with `==` -/
theorem cmp_total (a b : Cx K) :
    Cx.cmp a b ≠ 3 ∧ (Cx.cmp a b = 1 ↔ a = b) ∧ (Cx.cmp a b = 0 ↔ Cx.lt a b = true) := by
  rw [cmp_eq]
  refine ⟨?_, ?_, ?_⟩
  · split_ifs <;> simp
  · constructor
    · intro h
      split_ifs at h with h1 h2 h3 h4 <;> simp_all
      exact ext' (by tauto) h4
    · rintro rfl; simp
  · unfold Cx.lt
    simp only [Alg.lt_eq, bne_iff_ne, ne_eq, ite_not, decide_eq_true_eq]
    by_cases h : a.re = b.re
    · simp [h]; split_ifs <;> simp_all
    · simp [h]

/-- antisymmetry: swapping the operands swaps Less and Greater -/
theorem cmp_swap (a b : Cx K) : Cx.cmp b a = 2 - Cx.cmp a b := by
  rw [cmp_eq, cmp_eq]
  rcases lt_trichotomy a.re b.re with h | h | h
  · simp [ne_of_lt h, ne_of_gt h, h, not_lt_of_gt h]
  · rcases lt_trichotomy a.im b.im with g | g | g
    · simp [h, g, not_lt_of_gt g, ne_of_gt g]
    · simp [h, g]
    · simp [h, g, not_lt_of_gt g, ne_of_gt g, ne_of_lt g]
  · simp [ne_of_lt h, ne_of_gt h, h, not_lt_of_gt h]

/-- transitivity of `<` -/
theorem cmp_trans (a b c : Cx K) (h1 : Cx.cmp a b = 0) (h2 : Cx.cmp b c = 0) : Cx.cmp a c = 0 := by
  rw [cmp_eq] at *
  rcases lt_trichotomy a.re b.re with h | h | h <;> rcases lt_trichotomy b.re c.re with g | g | g
  all_goals first
    | (simp [ne_of_lt h, ne_of_gt h, h, not_lt_of_gt h] at h1; done)
    | (simp [ne_of_lt g, ne_of_gt g, g, not_lt_of_gt g] at h2; done)
    | skip
  · have := lt_trans h g; simp [ne_of_lt this, this]
  · have : a.re < c.re := g ▸ h; simp [ne_of_lt this, this]
  · have : a.re < c.re := h ▸ g; simp [ne_of_lt this, this]
  · simp only [h, g, ne_eq, not_true_eq_false, ite_false, ↓reduceIte] at *
    have e1 : a.im < b.im := by by_contra hh; simp [hh] at h1; split_ifs at h1
    have e2 : b.im < c.im := by by_contra hh; simp [hh] at h2; split_ifs at h2
    simp [lt_trans e1 e2]

end Field

/-! ### non-vacuity: the hypotheses are met by concrete non-trivial values over ℚ -/
section Examples
attribute [local instance] Alg.scalarExt
example : absSqr (⟨3, -4⟩ : Cx ℚ) ≠ 0 := by norm_num [absSqr]
example : Cx.div (⟨1, 2⟩ : Cx ℚ) ⟨3, -4⟩ = .ok ⟨-1/5, 2/5⟩ := by
  norm_num [Cx.div, bind, Except.bind, pure, Except.pure]
example : Cx.cmp (⟨1, 2⟩ : Cx ℚ) ⟨1, 3⟩ = 0 ∧ Cx.cmp (⟨1, 3⟩ : Cx ℚ) ⟨2, 0⟩ = 0 := by
  constructor <;> (rw [cmp_eq]; norm_num)
example : ∀ x y : ℚ, x + y = y + x := add_comm
end Examples

end Ohsl.Props.C13
