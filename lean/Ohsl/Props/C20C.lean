/-
  Property C20 (part C) — the `var` argument of the quadrature functions
  `Mesh1.trapezium`, `Mesh2.trapWith` (`Mesh2.trapezium`, `Mesh2.squareTrapezium`).

  These functions read `row[var]` with a raw slice access (`aget`), like the raw index operators
  that property C20 places outside its claim: there is no entry guard on `var`.  The theorems below
  document the model's (= the code's) behaviour exactly, so that the coverage table of C20B.lean has
  a row for this guard.  Class (S): any scalar type, arbitrary operations.

  For a mesh that satisfies the shape invariant of the other mesh theorems (`C19.WF1`, `C19.RowSized1`
  resp. `C19.WF2`, `C19.Sized2`: one row of `nvars` entries per node) and `var ≥ nvars`:

  1-D, by the number `n` of nodes
    n = 0   `.error .arith`  (`n - 1` underflows; C20.rejects_mesh_empty)
    n = 1   `.ok 0`          no cell, nothing is read            (`trapezium_var_no_cell`)
    n ≥ 2   `.error .range`  the first cell reads `vars[0][var]` (`trapezium_var_rejects`)
  2-D, by the grid `nx × ny`
    nx = 0            `.error .arith`  (C20.rejects_mesh_empty)
    nx = 1            `.ok 0`          the x loop is empty, `ny` is not even looked at
    nx ≥ 2, ny = 0    `.error .arith`  (`ny - 1` underflows in the first x cell; C20.rejects_mesh_empty)
    nx ≥ 2, ny = 1    `.ok 0`          every y loop is empty     (`trapezium2_var_no_cell`)
    nx ≥ 2, ny ≥ 2    `.error .range`  the first cell reads `vars[0][var]` (`trapezium2_var_rejects`)
  `trapezium_var_classes` / `trapezium2_var_classes` state the whole case table in one equation.
  The `.ok 0` cases hold WHATEVER `var` is (no read happens): the value `0` is the initial sum.

  Row for the table of C20B.lean (Model/Mesh.lean):
  | `Mesh1.trapezium` `Mesh2.trapWith` `trapezium` `squareTrapezium`: var ≥ nvars, raw `row[var]` |
  | range — only when a cell is integrated (≥ 2 nodes resp. ≥ 2 × 2 grid); else `.ok 0` / arith   |
  | C20.trapezium_var_rejects, C20.trapezium_var_no_cell, C20.trapezium2_var_rejects,             |
  | C20.trapezium2_var_no_cell (C; storage invariant)                                             |
-/
import Ohsl.Props.C20B
set_option linter.unusedSectionVars false
set_option linter.unusedVariables false
set_option linter.unusedSimpArgs false
namespace Ohsl.Props.C20
open Ohsl
variable {K : Type} [Add K] [Sub K] [Mul K] [Neg K] [Div K] [Zero K] [One K] [BEq K] [ScalarExt K]
  [Transc K]

/-- a loop whose iterations all hand the state back unchanged returns the state -/
theorem loop_const {σ : Type} (lo hi : Nat) (s : σ) (f : σ → Nat → Res σ)
    (hf : ∀ i, lo ≤ i → i < hi → f s i = .ok s) : Mat.forM' lo hi s f = .ok s := by
  by_cases hle : lo ≤ hi
  · obtain ⟨s', h1, h2⟩ := Mat.forM'_inv (fun _ t => t = s) lo hi s f hle rfl
      (fun i t h1 h2 hp => ⟨s, by rw [hp]; exact hf i h1 h2, rfl⟩)
    rw [h1, h2]
  · exact Mat.forM'_empty lo hi s f (by omega)

/-! ## 1-D -/

/-- **1-D, at least one cell**: on a mesh with `≥ 2` nodes and one row of `nvars` entries per node,
    `trapezium(var)` with `var ≥ nvars` is rejected, class `range` (the raw read `vars[0][var]` of the
    first cell is out of bounds) -/
theorem trapezium_var_rejects (m : Mesh1 K K) (h : C19.WF1 m) (hs : C19.RowSized1 m) (var : Nat)
    (hn : 2 ≤ m.nodes.size) (hv : m.nvars ≤ var) : Mesh1.trapezium m var = .error .range := by
  unfold Mesh1.trapezium
  rw [C19.usub_one_ok (by omega)]
  show Mat.forM' 0 (m.nodes.size - 1) (0 : K) _ = _
  apply Mat.forM'_first_error 0 (m.nodes.size - 1) _ _ _ (by omega)
  have h0 : 0 < m.vars.size := by rw [h]; omega
  have hr : m.vars[0].size ≤ var := by rw [hs 0 h0]; exact hv
  simp only [Mat.aget_ok (show 0 < m.nodes.size by omega),
    Mat.aget_ok (show 0 + 1 < m.nodes.size by omega), Mat.aget_ok h0, Mat.aget_err hr, bind,
    Except.bind]

/-- **1-D, no cell**: with exactly one node nothing is read and the call returns the initial sum `0`,
    WHATEVER `var` is (no invariant needed).  (With no node at all `n - 1` underflows:
    `rejects_mesh_empty`.) -/
theorem trapezium_var_no_cell (m : Mesh1 K K) (var : Nat) (hn : m.nodes.size = 1) :
    Mesh1.trapezium m var = .ok 0 := by
  unfold Mesh1.trapezium
  rw [C19.usub_one_ok (by omega)]
  show Mat.forM' 0 (m.nodes.size - 1) (0 : K) _ = _
  exact Mat.forM'_empty _ _ _ _ (by omega)

/-- the whole case table of `trapezium(var)` for an unknown variable -/
theorem trapezium_var_classes (m : Mesh1 K K) (h : C19.WF1 m) (hs : C19.RowSized1 m) (var : Nat)
    (hv : m.nvars ≤ var) :
    Mesh1.trapezium m var =
      if m.nodes.size = 0 then .error .arith else if m.nodes.size = 1 then .ok 0
      else .error .range := by
  by_cases h0 : m.nodes.size = 0
  · rw [if_pos h0]; exact ((rejects_mesh_empty m default 0 var id).1 h0).2
  · rw [if_neg h0]
    by_cases h1 : m.nodes.size = 1
    · rw [if_pos h1]; exact trapezium_var_no_cell m var h1
    · rw [if_neg h1]; exact trapezium_var_rejects m h hs var (by omega) hv

/-! ## 2-D -/

/-- **2-D, at least one cell**: on an `nx × ny` grid with `nx, ny ≥ 2` and `nx·ny` rows of `nvars`
    entries, the cell loop with `var ≥ nvars` is rejected, class `range` (first cell, raw read
    `vars[0][var]`) — `trapezium` and `square_trapezium` alike -/
theorem trapezium2_var_rejects (m : Mesh2 K K) (h : C19.WF2 m) (hs : C19.Sized2 m) (var : Nat)
    (g : K → K) (hx : 2 ≤ m.nx) (hy : 2 ≤ m.ny) (hv : m.nvars ≤ var) :
    Mesh2.trapWith g m var = .error .range ∧ Mesh2.trapezium m var = .error .range ∧
    Mesh2.squareTrapezium m var = .error .range := by
  obtain ⟨hvs, hxn, hyn⟩ := h
  have key : ∀ g : K → K, Mesh2.trapWith g m var = .error .range := by
    intro g
    unfold Mesh2.trapWith
    rw [C19.usub_one_ok (by omega)]
    show Mat.forM' 0 (m.nx - 1) (0 : K) _ = _
    apply Mat.forM'_first_error 0 (m.nx - 1) _ _ _ (by omega)
    simp only [Mat.aget_ok (show 0 < m.xnodes.size by omega),
      Mat.aget_ok (show 0 + 1 < m.xnodes.size by omega), C19.usub_one_ok (show 1 ≤ m.ny by omega),
      bind, Except.bind]
    apply Mat.forM'_first_error 0 (m.ny - 1) _ _ _ (by omega)
    have hpos : 0 < m.nx * m.ny := Nat.mul_pos (by omega) (by omega)
    have h0 : 0 * m.ny + 0 < m.vars.size := by rw [hvs]; omega
    have hr : m.vars[0 * m.ny + 0].size ≤ var := by rw [hs _ h0]; exact hv
    simp only [Mat.aget_ok (show 0 < m.ynodes.size by omega),
      Mat.aget_ok (show 0 + 1 < m.ynodes.size by omega), Mat.aget_ok h0, Mat.aget_err hr, bind,
      Except.bind]
  exact ⟨key g, key _, key _⟩

/-- **2-D, no cell**: on a `1 × k` grid (any `k`, even 0: the x loop is empty and `ny` is never looked
    at) and on a `k × 1` grid with `k ≥ 2` x-nodes stored, no node vector is read and the result is the
    initial sum `0`, WHATEVER `var` is -/
theorem trapezium2_var_no_cell (m : Mesh2 K K) (var : Nat) (g : K → K)
    (hc : m.nx = 1 ∨ (2 ≤ m.nx ∧ m.xnodes.size = m.nx ∧ m.ny = 1)) :
    Mesh2.trapWith g m var = .ok 0 ∧ Mesh2.trapezium m var = .ok 0 ∧
    Mesh2.squareTrapezium m var = .ok 0 := by
  have key : ∀ g : K → K, Mesh2.trapWith g m var = .ok 0 := by
    intro g
    unfold Mesh2.trapWith
    rcases hc with h1 | ⟨hx, hxn, hy⟩
    · rw [C19.usub_one_ok (by omega)]
      show Mat.forM' 0 (m.nx - 1) (0 : K) _ = _
      exact Mat.forM'_empty _ _ _ _ (by omega)
    · rw [C19.usub_one_ok (by omega)]
      show Mat.forM' 0 (m.nx - 1) (0 : K) _ = _
      apply loop_const
      intro i _ hi
      simp only [Mat.aget_ok (show i < m.xnodes.size by omega),
        Mat.aget_ok (show i + 1 < m.xnodes.size by omega), C19.usub_one_ok (show 1 ≤ m.ny by omega),
        bind, Except.bind]
      exact Mat.forM'_empty _ _ _ _ (by omega)
  exact ⟨key g, key _, key _⟩

/-- the whole case table of the 2-D cell loop for an unknown variable -/
theorem trapezium2_var_classes (m : Mesh2 K K) (h : C19.WF2 m) (hs : C19.Sized2 m) (var : Nat)
    (g : K → K) (hv : m.nvars ≤ var) :
    Mesh2.trapWith g m var =
      if m.nx = 0 then .error .arith else if m.nx = 1 then .ok 0
      else if m.ny = 0 then .error .arith else if m.ny = 1 then .ok 0 else .error .range := by
  by_cases h0 : m.nx = 0
  · rw [if_pos h0]; exact ((rejects_mesh_empty (default : Mesh1 K K) m 0 var g).2 (Or.inl h0)).1
  · rw [if_neg h0]
    by_cases h1 : m.nx = 1
    · rw [if_pos h1]; exact (trapezium2_var_no_cell m var g (Or.inl h1)).1
    · rw [if_neg h1]
      by_cases h2 : m.ny = 0
      · rw [if_pos h2]
        exact ((rejects_mesh_empty (default : Mesh1 K K) m 0 var g).2
          (Or.inr ⟨by omega, by rw [h.2.1]; omega, h2⟩)).1
      · rw [if_neg h2]
        by_cases h3 : m.ny = 1
        · rw [if_pos h3]
          exact (trapezium2_var_no_cell m var g (Or.inr ⟨by omega, h.2.1, h3⟩)).1
        · rw [if_neg h3]
          exact (trapezium2_var_rejects m h hs var g (by omega) (by omega) hv).1

/-! ## the hypotheses are satisfiable (and both halves occur) -/

section Examples
/-- the f64-only operations at `Rat`, for the examples only (no theorem depends on the values) -/
local instance transcRat : Transc Rat :=
  { sqrt := id, sin := id, cos := id, tan := id, exp := id, ln := id, sinh := id, cosh := id,
    fabs := fun x => if x < 0 then -x else x, atan2 := fun y _ => y, powf := fun x _ => x * x,
    fmax := max, ofNat := fun n => n, le := fun a b => decide (a ≤ b), half := 1 / 2, piHalf := 0,
    eps := 0, snap := 0 }

/-- two nodes, three variables, `var = 3`: rejected -/
example : Mesh1.trapezium (Mesh1.new #[(0 : Rat), 1] 3 : Mesh1 Rat Rat) 3 = .error .range :=
  trapezium_var_rejects _ (C19.new_wf _ _) (C19.new_rowSized1 _ _) 3 (by simp [Mesh1.new])
    (by simp [Mesh1.new])

/-- one node, three variables, `var = 3`: nothing is read, the result is `0` -/
example : Mesh1.trapezium (Mesh1.new #[(0 : Rat)] 3 : Mesh1 Rat Rat) 3 = .ok 0 :=
  trapezium_var_no_cell _ 3 (by simp [Mesh1.new])

/-- a 2 × 2 grid, `var = nvars`: rejected -/
example : Mesh2.trapezium (Mesh2.new #[(0 : Rat), 1] #[(0 : Rat), 1] 3 : Mesh2 Rat Rat) 3
    = .error .range :=
  (trapezium2_var_rejects _ (C19.new_wf2 _ _ _) (C19.new_sized2 _ _ _) 3 id (by simp [Mesh2.new])
    (by simp [Mesh2.new]) (by simp [Mesh2.new])).2.1

/-- a 2 × 1 grid, `var = nvars`: no cell, the result is `0` -/
example : Mesh2.squareTrapezium (Mesh2.new #[(0 : Rat), 1] #[(0 : Rat)] 3 : Mesh2 Rat Rat) 3
    = .ok 0 :=
  (trapezium2_var_no_cell _ 3 id (Or.inr ⟨by simp [Mesh2.new], by simp [Mesh2.new],
    by simp [Mesh2.new]⟩)).2.2

end Examples

end Ohsl.Props.C20
