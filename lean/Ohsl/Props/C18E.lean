/-
  Property C18 (continued) — ENTRIES and CALL SEQUENCE of the finite-difference Jacobian
  (model: `Ohsl.Jac.jacobian`, Ohsl/Model/Newton.lean).

  Class (S) — every user function `f` with constant output size, any element type whose division
  by `delta` does not panic, arbitrary arithmetic:
  * `jacobian_entries` : the call succeeds; the trace of evaluation points is exactly
      `[point, x⁽¹⁾, …, x⁽ⁿ⁾]` with `x⁽ʲ⁺¹⁾ = evalPt point delta j`, i.e. (`evalPt_get`) `point`
      with coordinate j replaced by `point[j] + delta` and EVERY other coordinate untouched (the
      loop puts the saved coordinate back after the perturbation — repair D15; it used to compute
      `(point[i] + delta) - delta`, which in floating point is not `point[i]` in general); and
      entry (i, j) of the result is the quotient `((f x⁽ʲ⁺¹⁾)[i] - (f point)[i]) / delta` as
      computed.
  * `restore_exact`, `jacobian_restore_exact` : the working copy is always `point`, so every
      evaluation point is exactly `point + δ e_j` (no algebraic law needed any more);
  Class (E):
  * `jacobian_affine` : over a linearly ordered field with `delta ≠ 0` the Jacobian of the affine
      map `x ↦ M x + c` is exactly `M` (for every shape m × n).
-/
import Ohsl.Props.C18
import Ohsl.Lemmas.Alg
import Mathlib.Algebra.BigOperators.Group.Finset.Basic
import Mathlib.Algebra.BigOperators.Group.Finset.Piecewise
set_option linter.unusedSectionVars false
set_option linter.unusedVariables false
set_option linter.unusedSimpArgs false
namespace Ohsl.Props.C18
open Ohsl Ohsl.Mat Ohsl.Jac

/-! ### the loop states, described recursively -/
section States
variable {E : Type} [Add E] [Sub E]

/-- the loop's working copy of the point after `j` iterations: each iteration perturbs coordinate
    `j` and then puts the SAVED coordinate back (repair D15), so the working copy is `point` itself
    at every stage (`delta` and the iteration count are kept as arguments for the callers) -/
def stateAt (point : Array E) (delta : E) (j : Nat) : Array E := point

/-- the point at which `f` is evaluated in iteration `j` (`x⁽ʲ⁺¹⁾`) -/
def evalPt (point : Array E) (delta : E) (j : Nat) : Array E :=
  (stateAt point delta j).modify j (fun p => p + delta)

@[simp] theorem stateAt_size (point : Array E) (delta : E) (j : Nat) :
    (stateAt point delta j).size = point.size := rfl

@[simp] theorem evalPt_size (point : Array E) (delta : E) (j : Nat) :
    (evalPt point delta j).size = point.size := by simp [evalPt]

/-- closed form of the working copy: every coordinate holds the original `p` (exact restore) -/
theorem stateAt_get (point : Array E) (delta : E) (j i : Nat) (h : i < (stateAt point delta j).size)
    (h' : i < point.size) :
    (stateAt point delta j)[i] = point[i] := rfl

/-- closed form of the evaluation points: `x⁽ʲ⁺¹⁾` is `point` with coordinate `j` replaced by
    `point[j] + δ`, all other coordinates (earlier and later) untouched -/
theorem evalPt_get (point : Array E) (delta : E) (j i : Nat) (h : i < (evalPt point delta j).size)
    (h' : i < point.size) :
    (evalPt point delta j)[i] =
      if i = j then point[i] + delta else point[i] := by
  have hi : i < (stateAt point delta j).size := by simpa using h'
  simp only [evalPt, Array.getElem_modify, stateAt]
  by_cases h1 : j = i
  · subst h1; simp
  · have h2 : ¬ i = j := fun e => h1 e.symm
    simp [h1, h2]

theorem modify_eq_set {α : Type} (a : Array α) (k : Nat) (g : α → α) (h : k < a.size) :
    a.modify k g = a.setIfInBounds k (g a[k]) := by
  apply Array.ext_getElem?
  intro i
  simp only [Array.getElem?_modify, Array.getElem?_setIfInBounds]
  by_cases e : k = i
  · subst e; simp [h]
  · simp [e]

end States

section S
variable {E : Type} [Add E] [Sub E] [Mul E] [Neg E] [Zero E] [One E] [BEq E] [ScalarExt E]

/-- `vector / scalar`, componentwise -/
theorem sdiv_spec (v : Array E) (delta : E) (hdiv : ∀ a : E, ∃ q, divM a delta = .ok q) :
    ∃ w, Vec.sdiv v delta = .ok w ∧ w.size = v.size ∧
      ∀ i (h : i < v.size) (h' : i < w.size), divM v[i] delta = .ok w[i] := by
  unfold Vec.sdiv
  have hl : ∃ l, v.toList.mapM (fun x => divM x delta) = .ok l ∧ l.length = v.toList.length ∧
      ∀ i (h : i < v.toList.length) (h' : i < l.length), divM v.toList[i] delta = .ok l[i] := by
    generalize v.toList = l
    induction l with
    | nil => exact ⟨[], rfl, rfl, fun i h => absurd h (by simp)⟩
    | cons a l ih =>
      obtain ⟨q, hq⟩ := hdiv a
      obtain ⟨l', hl', hlen, hent⟩ := ih
      refine ⟨q :: l', by simp [List.mapM_cons, hq, hl', bind, Except.bind, pure, Except.pure],
        by simp [hlen], ?_⟩
      intro i h h'
      cases i with
      | zero => simpa using hq
      | succ i => simpa using hent i (by simpa using h) (by simpa using h')
  obtain ⟨l, hl1, hl2, hl3⟩ := hl
  refine ⟨l.toArray, ?_, by simpa using hl2, ?_⟩
  · rw [Array.mapM_eq_mapM_toList, hl1]
    rfl
  · intro i h h'
    have := hl3 i (by simpa using h) (by simpa using h')
    simpa using this

/-- **entries and call sequence**: for a map of constant output size `m` the call succeeds with a
    well-formed `m × n` matrix; `f` is called at `point` and then at `x⁽¹⁾, …, x⁽ⁿ⁾`
    (`evalPt point delta j`, see `evalPt_get`), in this order; and entry `(i, j)` is the computed
    quotient `((f x⁽ʲ⁺¹⁾)[i] - (f point)[i]) / delta`. -/
theorem jacobian_entries (f : Array E → Array E) (point : Array E) (delta : E) (m : Nat)
    (hf : ∀ x : Array E, x.size = point.size → (f x).size = m)
    (hdiv : ∀ a : E, ∃ q, divM a delta = .ok q) :
    ∃ J, jacobian f point delta
        = .ok (J, point :: (List.range point.size).map (evalPt point delta)) ∧
      J.rows = m ∧ J.cols = point.size ∧ J.WF ∧
      ∀ i j (hi : i < m) (hj : j < point.size)
        (h1 : i < (f (evalPt point delta j)).size) (h0 : i < (f point).size),
        ∃ q, divM ((f (evalPt point delta j))[i] - (f point)[i]) delta = .ok q ∧
          J.get i j = .ok q := by
  unfold jacobian
  simp only [hf point rfl]
  obtain ⟨r, hr, hP⟩ := forM'_inv
    (fun k (s : Mat E × Array E × List (Array E)) =>
      s.2.1 = stateAt point delta k ∧
      s.2.2 = point :: (List.range k).map (evalPt point delta) ∧
      ∃ e, Is s.1 m point.size e ∧
        ∀ i j, i < m → j < k →
          ∀ (h1 : i < (f (evalPt point delta j)).size) (h0 : i < (f point).size),
            divM ((f (evalPt point delta j))[i] - (f point)[i]) delta = .ok (e i j))
    0 point.size (Mat.new m point.size (0 : E), point, [point])
    (fun (x : Mat E × Array E × List (Array E)) i => do
      let xi ← aget x.2.1 i
      let state ← aset x.2.1 i (xi + delta)
      let fnew := f state
      let state' ← aset state i xi
      let diff ← Vec.sub fnew (f point)
      let col ← Vec.sdiv diff delta
      let jac ← Mat.setCol x.1 i col
      pure (jac, state', x.2.2 ++ [state]))
    (Nat.zero_le _)
    ⟨rfl, rfl, _, Is.of_new m point.size (0 : E), fun i j _ hj => absurd hj (by omega)⟩
    (by
      rintro k ⟨jac, state, tr⟩ _ hk ⟨hs, ht, e, hI, hE⟩
      simp only at hs ht hI hE
      subst state ht
      have hk' : k < (stateAt point delta k).size := by simpa using hk
      -- the perturbed point is `evalPt k`, the restored one `stateAt (k+1)`
      have hev : (stateAt point delta k).setIfInBounds k ((stateAt point delta k)[k] + delta)
          = evalPt point delta k := by
        rw [evalPt, modify_eq_set _ _ _ hk']
      have hk2 : k < (evalPt point delta k).size := by simpa using hk
      have hres : (evalPt point delta k).setIfInBounds k (stateAt point delta k)[k]
          = stateAt point delta (k + 1) := by
        apply Array.ext_getElem?
        intro i
        simp only [Array.getElem?_setIfInBounds, evalPt, Array.getElem?_modify, Array.getElem_modify,
          Array.size_modify, stateAt]
        by_cases e : k = i
        · subst e; simp [hk]
        · simp [e]
      have hfn : (f (evalPt point delta k)).size = m := hf _ (by simp)
      have hf0 : (f point).size = m := hf point rfl
      have hd1 : Vec.sub (f (evalPt point delta k)) (f point)
          = .ok (Array.zipWith (· - ·) (f (evalPt point delta k)) (f point)) := by
        simp [Vec.sub, hfn, hf0]
      have hd2 : (Array.zipWith (· - ·) (f (evalPt point delta k)) (f point)).size = m := by
        simp [hfn, hf0]
      obtain ⟨col, hc1, hc2, hc3⟩ := sdiv_spec
        (Array.zipWith (· - ·) (f (evalPt point delta k)) (f point)) delta hdiv
      obtain ⟨jac', hj1, hj2⟩ := setCol_spec hI (col := k) col (by rw [hc2, hd2]) hk
      refine ⟨(jac', stateAt point delta (k + 1),
        (point :: (List.range k).map (evalPt point delta)) ++ [evalPt point delta k]), ?_, ?_⟩
      · simp only [aget_ok hk', aset_ok _ hk', hev, aget_ok hk2, aset_ok _ hk2, hres, hd1, hc1, hj1,
          bind, Except.bind, pure, Except.pure]
      · refine ⟨rfl, by simp [List.range_succ], _, hj2, ?_⟩
        intro i j hi hj h1 h0
        by_cases hjk : j = k
        · subst hjk
          have hic : i < col.size := by rw [hc2, hd2]; exact hi
          have := hc3 i (by rw [hd2]; exact hi) hic
          simp only [Array.getElem_zipWith] at this
          rw [this]
          simp [hic]
        · simp only [hjk, if_false]
          exact hE i j hi (by omega) h1 h0)
  obtain ⟨jac, state, tr⟩ := r
  obtain ⟨_, ht, e, hI, hE⟩ := hP
  simp only at ht hI hE
  subst ht
  refine ⟨jac, ?_, hI.rows, hI.cols, hI.wf, ?_⟩
  · have hr' := hr
    simp only [bind, Except.bind, pure, Except.pure] at hr' ⊢
    rw [hr']
  · intro i j hi hj h1 h0
    exact ⟨e i j, hE i j hi hj _ _, hI.entry i j hi hj⟩

end S

/-! ### exact arithmetic -/
section Exact

/-- the restore step is exact (the saved coordinate is put back; no algebraic law is needed any
    more): the working copy is always `point` … -/
theorem restore_exact {G : Type} [Add G] [Sub G] (point : Array G) (delta : G) (j : Nat) :
    stateAt point delta j = point := rfl

/-- … and the `j`-th perturbed point is exactly `point + δ e_j` -/
theorem evalPt_exact {G : Type} [Add G] [Sub G] (point : Array G) (delta : G) (j : Nat) :
    evalPt point delta j = point.modify j (fun p => p + delta) := by
  rw [evalPt, restore_exact]

/-- **exact restore**: for every element type (any `divM` that does not fail on `delta`; no field
    law is needed any more, the saved coordinate is put back) the Jacobian call
    evaluates `f` at `point` and at `point + δ e_j`, `j = 0, …, n-1`, in this order, and entry
    `(i, j)` is the computed quotient of `(f (point + δ e_j))[i] - (f point)[i]` by `δ`. -/
theorem jacobian_restore_exact {K : Type} [Add K] [Sub K] [Mul K] [Neg K] [Zero K] [One K] [BEq K]
    [ScalarExt K]
    (f : Array K → Array K) (point : Array K) (delta : K) (m : Nat)
    (hf : ∀ x : Array K, x.size = point.size → (f x).size = m)
    (hdiv : ∀ a : K, ∃ q, divM a delta = .ok q) :
    ∃ J, jacobian f point delta
        = .ok (J, point :: (List.range point.size).map
            (fun j => point.modify j (fun p => p + delta))) ∧
      J.rows = m ∧ J.cols = point.size ∧ J.WF ∧
      ∀ i j (hi : i < m) (hj : j < point.size)
        (h1 : i < (f (point.modify j (fun p => p + delta))).size) (h0 : i < (f point).size),
        ∃ q, divM ((f (point.modify j (fun p => p + delta)))[i] - (f point)[i]) delta = .ok q ∧
          J.get i j = .ok q := by
  obtain ⟨J, h1, h2, h3, h4, h5⟩ := jacobian_entries f point delta m hf hdiv
  have e : evalPt point delta = fun j => point.modify j (fun p => p + delta) :=
    funext (evalPt_exact point delta)
  rw [e] at h1 h5
  exact ⟨J, h1, h2, h3, h4, h5⟩

/-- the affine map `x ↦ M x + c` from `Kⁿ` to `Kᵐ` on arrays (coordinates beyond the size of the
    argument read as 0) -/
def affineMap {K : Type} [Field K] (M : Nat → Nat → K) (c : Nat → K) (n m : Nat)
    (x : Array K) : Array K :=
  Array.ofFn (n := m) (fun i => (∑ j ∈ Finset.range n, M i.val j * x.getD j 0) + c i.val)

section Affine
variable {K : Type} [Field K] [LinearOrder K]
attribute [local instance] Ohsl.Alg.scalarExt

/-- **the finite-difference Jacobian of an affine map is its matrix, exactly**: for every shape
    `m × n`, every point and every `delta ≠ 0` the call succeeds, evaluates the map `n + 1` times
    and returns the well-formed `m × n` matrix whose entry `(i, j)` is `M i j`. -/
theorem jacobian_affine (M : Nat → Nat → K) (c : Nat → K) (m : Nat) (point : Array K) (delta : K)
    (hd : delta ≠ 0) :
    ∃ J tr, jacobian (affineMap M c point.size m) point delta = .ok (J, tr) ∧
      tr.length = point.size + 1 ∧ Mat.Is J m point.size M := by
  have hdiv : ∀ a : K, ∃ q, divM a delta = .ok q := fun a => ⟨a / delta, Alg.divM_ne hd⟩
  obtain ⟨J, h1, h2, h3, h4, h5⟩ := jacobian_restore_exact (affineMap M c point.size m) point delta m
    (fun x _ => by simp [affineMap]) hdiv
  refine ⟨J, _, h1, by simp, ⟨h4, h2, h3, ?_⟩⟩
  intro i j hi hj
  obtain ⟨q, hq1, hq2⟩ := h5 i j hi hj (by simp [affineMap]; exact hi) (by simp [affineMap]; exact hi)
  rw [hq2]
  rw [Alg.divM_ne hd] at hq1
  have hq : q = ((affineMap M c point.size m (point.modify j (fun p => p + delta)))[i]'(by
      simp [affineMap]; exact hi) - (affineMap M c point.size m point)[i]'(by
      simp [affineMap]; exact hi)) / delta := (Except.ok.inj hq1).symm
  rw [hq]
  congr 1
  rw [div_eq_iff hd]
  simp only [affineMap, Array.getElem_ofFn]
  have hsum : (∑ t ∈ Finset.range point.size, M i t * (point.modify j (fun p => p + delta)).getD t 0)
      - ∑ t ∈ Finset.range point.size, M i t * point.getD t 0 = M i j * delta := by
    rw [← Finset.sum_sub_distrib]
    have : ∀ t ∈ Finset.range point.size,
        M i t * (point.modify j (fun p => p + delta)).getD t 0 - M i t * point.getD t 0
          = if t = j then M i j * delta else 0 := by
      intro t ht
      have ht' : t < point.size := Finset.mem_range.mp ht
      simp only [Array.getD_eq_getD_getElem?, Array.getElem?_modify]
      by_cases e : j = t
      · subst e; simp [ht']; ring
      · have e' : ¬ t = j := fun h => e h.symm
        simp [e, e']
    rw [Finset.sum_congr rfl this, Finset.sum_ite_eq' (Finset.range point.size) j (fun _ => M i j * delta)]
    simp [hj]
  rw [← hsum]; ring

end Affine
end Exact

end Ohsl.Props.C18
