/-
  Property C17 (continued), class (R) — CONVERGENCE of the COMPLEX scalar Newton iteration
  (`Newton<Cmplx>::solve`, model `Ohsl.Newton.solveCx`, Ohsl/Model/Newton.lean) from inside the basin
  of a simple root, in exact arithmetic: `K = ℝ` with the instances of `Ohsl/Lemmas/RealTransc.lean`,
  the model's complex numbers read in Mathlib's ℂ through `toC`.  Complex analogue of the real
  theorems of Ohsl/Props/C18R.lean (`newton_scalar_model_step`, `newton_scalar_model_converges`).

  The model (read off `solveCx`): per iteration `deriv = (f(x+δ) − f(x−δ)) / (2δ)` with the REAL step
  `δ` embedded as `⟨δ, 0⟩` (`Complex / f64`), `dx = f(x) / deriv` (`Complex / Complex`),
  `x⁺ = x − dx`, and the run stops with `Ok(x⁺)` — the UPDATED point — when `dx.abs() <= tol`, i.e.
  when the modulus of the step `‖x − x⁺‖` is at most `tol` (the test is on the step, not on `‖f‖`).

  The user closure `f : Cx ℝ → Cx ℝ` denotes `F : ℂ → ℂ`: hypothesis `∀ z, toC (f z) = F (toC z)`.

  Analysis in ℂ (no model), `F` complex differentiable with derivative `F'` on a convex set, `F'`
  `M₂`-Lipschitz there (no second derivative is needed; `‖F''‖ ≤ M₂` implies it):
  * `cx_taylor_lip`        : `‖F y − F x − F' x (y − x)‖ ≤ M₂ ‖y − x‖² / 2` (mean value inequality);
  * `cx_centraldiff_error` : `‖(F(x+δ) − F(x−δ))/(2δ) − F' x‖ ≤ M₂ |δ| / 2`, `δ` real, `δ ≠ 0`;
  * `cx_newton_step_general` : a Newton step with ANY derivative estimate `d`, `‖d − F' x‖ ≤ ε < m`;
  * `newton_cx_step`       : the step with the central quotient:
      `‖x⁺ − r‖ ≤ C (‖x − r‖² + |δ| ‖x − r‖)`, `C = M₂ / (2m − M₂|δ|)` — the constant of the real case.
  Model:
  * `toC_cxDx`, `toC_cxStep`, `toC_cxIter`, `cxTest_iff` : the model's correction / update / iterates
      / stopping test over ℝ are `newtonDxC`, `newtonStepC`, its iterates, `‖dx‖ ≤ tol` in ℂ;
  * `newton_cx_model_step_general` : one step of the MODEL, `F` differentiable on any convex set
      containing `x`, `x ± δ`, `r`;  `newton_cx_model_step` : the same inside the disc of
      `NewtonBallC`, with the contraction `‖x⁺ − r‖ ≤ q ‖x − r‖`;
  * `solveCx_real_char`    : what `solveCx` returns, in terms of the iterates in ℂ;
  * `newton_cx_converges`, `newton_cx_tendsto` : ball invariance, the one-step estimate at every
      step, `‖x_k − r‖ ≤ q^k ‖x₀ − r‖`, `q = C (ρ + |δ|) < 1` (hypotheses: `NewtonBallC`), `x_k → r`;
  * `newton_cx_model_converges` : the value returned (success or failure) is never farther from the
      root than the guess; success ⇒ `(1 − q) ‖x − r‖ ≤ q · tol`; failure ⇒ `‖x − r‖ ≤ qⁿ ‖x₀ − r‖`;
      success is guaranteed once `(1 + q) q^(n−1) ‖x₀ − r‖ ≤ tol`;
  * `newton_cx_model_success_within_tol` : `q ≤ 1/2` ⇒ a reported success is within `tol`.
  Example: `F z = z² + 1`, root `i`, `δ = 1/100`, `ρ = 1/10`, `m = 9/5`, `M₂ = 2` (`exNewtonBallC`),
  with the model closure `z ↦ z * z + 1` on `Cx ℝ`.
  NOT proved: `O(δ²)` accuracy of the central quotient for holomorphic `F` (the `O(δ)` bound used
  here only needs `F'` Lipschitz); rounding (class F).
-/
import Ohsl.Props.C17C
import Ohsl.Props.C14I
import Ohsl.Lemmas.RealTransc
import Mathlib.Analysis.Calculus.MeanValue
import Mathlib.Analysis.Calculus.Deriv.Pow
import Mathlib.Analysis.Calculus.Deriv.Comp
import Mathlib.Analysis.SpecificLimits.Basic
import Mathlib.Analysis.Normed.Module.Convex
import Mathlib.Tactic.Ring
import Mathlib.Tactic.FieldSimp
import Mathlib.Tactic.Linarith
set_option linter.unusedSectionVars false
set_option linter.unusedVariables false
set_option linter.unusedSimpArgs false
namespace Ohsl.Props.C17
open Ohsl Ohsl.Newton Ohsl.RealI Ohsl.Props.C14 Set

/-! ### analysis in ℂ: Taylor with a Lipschitz derivative, the central quotient, one Newton step -/
section AnalysisC

/-- Taylor with first-order remainder on the unit interval, values in ℂ: if `‖G' u − G' 0‖ ≤ B u`
    on `[0, 1]` then `‖G 1 − G 0 − G' 0‖ ≤ B / 2` (mean value inequality) -/
theorem cx_taylor_unit (G G' : ℝ → ℂ) (B : ℝ)
    (h1 : ∀ u ∈ Icc (0 : ℝ) 1, HasDerivAt G (G' u) u)
    (hB : ∀ u ∈ Icc (0 : ℝ) 1, ‖G' u - G' 0‖ ≤ B * u) :
    ‖G 1 - G 0 - G' 0‖ ≤ B / 2 := by
  have hder : ∀ u ∈ Icc (0 : ℝ) 1,
      HasDerivAt (fun u : ℝ => G u - G 0 - u • G' 0) (G' u - G' 0) u := by
    intro u hu
    have := ((h1 u hu).sub_const (G 0)).sub ((hasDerivAt_id u).smul_const (G' 0))
    exact this.congr_deriv (by simp)
  have key := image_norm_le_of_norm_deriv_right_le_deriv_boundary
    (f := fun u : ℝ => G u - G 0 - u • G' 0) (f' := fun u => G' u - G' 0) (a := 0) (b := 1)
    (B := fun u => B * u ^ 2 / 2) (B' := fun u => B * u)
    (fun u hu => (hder u hu).continuousAt.continuousWithinAt)
    (fun u hu => (hder u ⟨hu.1, hu.2.le⟩).hasDerivWithinAt)
    (by simp)
    (fun u => by
      have := ((hasDerivAt_pow 2 u).const_mul B).div_const 2
      exact this.congr_deriv (by push_cast; ring))
    (fun u hu => hB u ⟨hu.1, hu.2.le⟩)
    (x := 1) ⟨zero_le_one, le_refl _⟩
  simpa using key

/-- **Taylor, first order with a Lipschitz derivative, in ℂ**: `F` complex differentiable with
    derivative `F'` on a convex set `s`, `‖F' z − F' x‖ ≤ M ‖z − x‖` for `z ∈ s`; then for
    `x, y ∈ s`: `‖F y − F x − F' x (y − x)‖ ≤ M ‖y − x‖² / 2`. -/
theorem cx_taylor_lip (F F' : ℂ → ℂ) (s : Set ℂ) (hs : Convex ℝ s) (x y : ℂ) (M : ℝ)
    (hx : x ∈ s) (hy : y ∈ s)
    (h1 : ∀ z ∈ s, HasDerivAt F (F' z) z)
    (hL : ∀ z ∈ s, ‖F' z - F' x‖ ≤ M * ‖z - x‖) :
    ‖F y - F x - F' x * (y - x)‖ ≤ M * ‖y - x‖ ^ 2 / 2 := by
  have hmem : ∀ u ∈ Icc (0 : ℝ) 1, x + u • (y - x) ∈ s := fun u hu =>
    hs.add_smul_sub_mem hx hy hu
  have hin : ∀ u : ℝ, HasDerivAt (fun u : ℝ => x + u • (y - x)) (y - x) u := fun u =>
    (((hasDerivAt_id u).smul_const (y - x)).const_add x).congr_deriv (by simp)
  have key := cx_taylor_unit (fun u : ℝ => F (x + u • (y - x)))
    (fun u : ℝ => F' (x + u • (y - x)) * (y - x)) (M * ‖y - x‖ ^ 2)
    (fun u hu => by
      have := HasDerivAt.scomp u (h1 _ (hmem u hu)) (hin u)
      exact this.congr_deriv (by simp [mul_comm]))
    (fun u hu => by
      have e0 : x + (0 : ℝ) • (y - x) = x := by simp
      rw [e0, ← sub_mul, norm_mul]
      have h := hL _ (hmem u hu)
      have e1 : x + u • (y - x) - x = u • (y - x) := by ring
      rw [e1, norm_smul, Real.norm_eq_abs, abs_of_nonneg hu.1] at h
      calc ‖F' (x + u • (y - x)) - F' x‖ * ‖y - x‖ ≤ M * (u * ‖y - x‖) * ‖y - x‖ :=
            mul_le_mul_of_nonneg_right h (norm_nonneg _)
        _ = M * ‖y - x‖ ^ 2 * u := by ring)
  have e1 : x + (1 : ℝ) • (y - x) = y := by simp
  have e0 : x + (0 : ℝ) • (y - x) = x := by simp
  simp only [e1, e0] at key
  exact key

/-- the model's derivative estimate, correction and update, read in ℂ: central quotient with a
    REAL step `δ` -/
noncomputable def cdiffC (F : ℂ → ℂ) (δ : ℝ) (z : ℂ) : ℂ := (F (z + δ) - F (z - δ)) / (2 * (δ : ℂ))
noncomputable def newtonDxC (F : ℂ → ℂ) (δ : ℝ) (z : ℂ) : ℂ := F z / cdiffC F δ z
noncomputable def newtonStepC (F : ℂ → ℂ) (δ : ℝ) (z : ℂ) : ℂ := z - newtonDxC F δ z

/-- **accuracy of the central difference quotient with a real step, in ℂ**: if `F` is complex
    differentiable on a convex set containing `x`, `x ± δ`, with `F'` `M₂`-Lipschitz there, then
    `‖(F(x+δ) − F(x−δ))/(2δ) − F' x‖ ≤ M₂ |δ| / 2`. -/
theorem cx_centraldiff_error (F F' : ℂ → ℂ) (s : Set ℂ) (hs : Convex ℝ s) (x : ℂ) (δ M₂ : ℝ)
    (hδ : δ ≠ 0) (hx : x ∈ s) (hxp : x + δ ∈ s) (hxm : x - δ ∈ s)
    (h1 : ∀ z ∈ s, HasDerivAt F (F' z) z)
    (hL : ∀ z ∈ s, ∀ w ∈ s, ‖F' z - F' w‖ ≤ M₂ * ‖z - w‖) :
    ‖cdiffC F δ x - F' x‖ ≤ M₂ * |δ| / 2 := by
  have hp := cx_taylor_lip F F' s hs x (x + δ) M₂ hx hxp h1 (fun z hz => hL z hz x hx)
  have hn := cx_taylor_lip F F' s hs x (x - δ) M₂ hx hxm h1 (fun z hz => hL z hz x hx)
  have ep : x + (δ : ℂ) - x = δ := by ring
  have en : x - (δ : ℂ) - x = -δ := by ring
  rw [ep] at hp
  rw [en, norm_neg] at hn
  have hnδ : ‖(δ : ℂ)‖ = |δ| := by simp
  rw [hnδ] at hp hn
  have hδC : (δ : ℂ) ≠ 0 := by exact_mod_cast hδ
  have e : cdiffC F δ x - F' x
      = ((F (x + δ) - F x - F' x * δ) - (F (x - δ) - F x - F' x * (-δ))) / (2 * (δ : ℂ)) := by
    rw [cdiffC]
    field_simp
    ring
  have h2δ : ‖(2 * (δ : ℂ))‖ = 2 * |δ| := by simp
  have hpos : 0 < 2 * |δ| := by have := abs_pos.mpr hδ; linarith
  rw [e, norm_div, h2δ, div_le_iff₀ hpos]
  calc ‖(F (x + δ) - F x - F' x * δ) - (F (x - δ) - F x - F' x * (-δ))‖
      ≤ ‖F (x + δ) - F x - F' x * δ‖ + ‖F (x - δ) - F x - F' x * (-δ)‖ := norm_sub_le _ _
    _ ≤ M₂ * |δ| ^ 2 / 2 + M₂ * |δ| ^ 2 / 2 := add_le_add hp hn
    _ = M₂ * |δ| / 2 * (2 * |δ|) := by ring

/-- **one Newton step in ℂ with an inexact derivative**: `F` complex differentiable on a convex set
    containing `x` and a root `r`, `F'` `M₂`-Lipschitz there, `‖F' x‖ ≥ m`, and ANY estimate `d`
    with `‖d − F' x‖ ≤ ε < m`.  Then `d ≠ 0` and
    `‖x − F x / d − r‖ ≤ (M₂/2 · ‖x − r‖² + ε ‖x − r‖) / (m − ε)`. -/
theorem cx_newton_step_general (F F' : ℂ → ℂ) (s : Set ℂ) (hs : Convex ℝ s) (x r d : ℂ)
    (ε m M₂ : ℝ) (hx : x ∈ s) (hrs : r ∈ s)
    (h1 : ∀ z ∈ s, HasDerivAt F (F' z) z)
    (hL : ∀ z ∈ s, ∀ w ∈ s, ‖F' z - F' w‖ ≤ M₂ * ‖z - w‖)
    (hr : F r = 0) (hm : m ≤ ‖F' x‖) (hd : ‖d - F' x‖ ≤ ε) (hε : ε < m) :
    d ≠ 0 ∧ ‖x - F x / d - r‖ ≤ (M₂ / 2 * ‖x - r‖ ^ 2 + ε * ‖x - r‖) / (m - ε) := by
  have hT := cx_taylor_lip F F' s hs x r M₂ hx hrs h1 (fun z hz => hL z hz x hx)
  rw [hr] at hT
  have hdl : m - ε ≤ ‖d‖ := by
    have := norm_sub_norm_le (F' x) d
    rw [norm_sub_rev] at this
    linarith
  have hpos : 0 < m - ε := by linarith
  have hd0 : d ≠ 0 := norm_pos_iff.mp (lt_of_lt_of_le hpos hdl)
  refine ⟨hd0, ?_⟩
  have hN : x - F x / d - r = ((d - F' x) * (x - r) + (0 - F x - F' x * (r - x))) / d := by
    field_simp
    ring
  rw [hN, norm_div]
  have hnum : ‖(d - F' x) * (x - r) + (0 - F x - F' x * (r - x))‖
      ≤ M₂ / 2 * ‖x - r‖ ^ 2 + ε * ‖x - r‖ := by
    calc ‖(d - F' x) * (x - r) + (0 - F x - F' x * (r - x))‖
        ≤ ‖(d - F' x) * (x - r)‖ + ‖0 - F x - F' x * (r - x)‖ := norm_add_le _ _
      _ ≤ ε * ‖x - r‖ + M₂ * ‖r - x‖ ^ 2 / 2 := by
          rw [norm_mul]
          exact add_le_add (mul_le_mul_of_nonneg_right hd (norm_nonneg _)) hT
      _ = M₂ / 2 * ‖x - r‖ ^ 2 + ε * ‖x - r‖ := by
          rw [norm_sub_rev r x]; ring
  exact div_le_div₀ (le_trans (norm_nonneg _) hnum) hnum hpos hdl

/-- rewriting the constant: with `ε = M₂|δ|/2` the bound is `C (e² + |δ| e)`,
    `C = M₂ / (2m − M₂|δ|)` -/
theorem cx_newton_const_eq (M₂ m δ e : ℝ) (h : M₂ * |δ| / 2 < m) :
    (M₂ / 2 * e ^ 2 + M₂ * |δ| / 2 * e) / (m - M₂ * |δ| / 2)
      = M₂ / (2 * m - M₂ * |δ|) * (e ^ 2 + |δ| * e) := by
  have h1 : m - M₂ * |δ| / 2 ≠ 0 := by linarith
  have h2 : 2 * m - M₂ * |δ| ≠ 0 := by linarith
  have h3 : 2 * m - M₂ * |δ| = 2 * (m - M₂ * |δ| / 2) := by ring
  rw [h3]
  field_simp

/-- **one step of the complex iteration in ℂ** (central quotient with the real step `δ`): `F`
    complex differentiable on a convex set `s` containing `x`, `x ± δ` and a root `r`, `F'`
    `M₂`-Lipschitz on `s`, `‖F' x‖ ≥ m`, `δ ≠ 0`, `M₂|δ|/2 < m`.  Then the derivative estimate is
    non-zero and `‖x⁺ − r‖ ≤ C (‖x − r‖² + |δ| ‖x − r‖)`, `C = M₂ / (2m − M₂|δ|)`: quadratic
    convergence up to a linear term of size `O(δ)` — the estimate and the constant of the real
    case (`C18.newton_scalar_model_step`). -/
theorem newton_cx_step (F F' : ℂ → ℂ) (s : Set ℂ) (hs : Convex ℝ s) (x r : ℂ) (δ m M₂ : ℝ)
    (h1 : ∀ z ∈ s, HasDerivAt F (F' z) z)
    (hL : ∀ z ∈ s, ∀ w ∈ s, ‖F' z - F' w‖ ≤ M₂ * ‖z - w‖)
    (hx : x ∈ s) (hxp : x + δ ∈ s) (hxm : x - δ ∈ s) (hrs : r ∈ s) (hr : F r = 0)
    (hm : m ≤ ‖F' x‖) (hδ : δ ≠ 0) (hsmall : M₂ * |δ| / 2 < m) :
    cdiffC F δ x ≠ 0 ∧
    ‖newtonStepC F δ x - r‖ ≤ M₂ / (2 * m - M₂ * |δ|) * (‖x - r‖ ^ 2 + |δ| * ‖x - r‖) := by
  have hd := cx_centraldiff_error F F' s hs x δ M₂ hδ hx hxp hxm h1 hL
  obtain ⟨g1, g2⟩ := cx_newton_step_general F F' s hs x r _ _ m M₂ hx hrs h1 hL hr hm hd hsmall
  rw [cx_newton_const_eq M₂ m δ _ hsmall] at g2
  exact ⟨g1, g2⟩

end AnalysisC

/-! ### the model's complex step, iterates and stopping test, read in ℂ -/
section Bridge

theorem toC_real (d : ℝ) : toC (⟨d, 0⟩ : Cx ℝ) = (d : ℂ) := rfl

theorem toC_divRT_real (z : Cx ℝ) (t : ℝ) : toC (Cx.divRT z t) = toC z / (t : ℂ) := by
  apply Complex.ext <;> simp [toC, Cx.divRT, Complex.div_ofReal_re, Complex.div_ofReal_im]

/-- the model's correction `dx = f c / ((f (c + δ) − f (c − δ)) / (2δ))` is `newtonDxC` in ℂ
    (both model divisions are total over ℝ: `x / 0 = 0`, as in Mathlib's ℂ) -/
theorem toC_cxDx (f : Cx ℝ → Cx ℝ) (F : ℂ → ℂ) (hf : ∀ z, toC (f z) = F (toC z)) (δ : ℝ)
    (c : Cx ℝ) : toC (cxDx f δ c) = newtonDxC F δ (toC c) := by
  rw [cxDx, divT_eq, toC_divRT_real, toC_sub, hf, hf, hf, toC_add, toC_sub, toC_real, newtonDxC,
    cdiffC]
  push_cast
  ring_nf

/-- the model's update is `newtonStepC` in ℂ -/
theorem toC_cxStep (f : Cx ℝ → Cx ℝ) (F : ℂ → ℂ) (hf : ∀ z, toC (f z) = F (toC z)) (δ : ℝ)
    (c : Cx ℝ) : toC (cxStep f δ c) = newtonStepC F δ (toC c) := by
  rw [cxStep, toC_sub, toC_cxDx f F hf, newtonStepC]

/-- the model's iterates are the iterates of `newtonStepC` in ℂ -/
theorem toC_cxIter (f : Cx ℝ → Cx ℝ) (F : ℂ → ℂ) (hf : ∀ z, toC (f z) = F (toC z)) (δ : ℝ)
    (x₀ : Cx ℝ) : ∀ k, toC (cxIter f δ x₀ k) = (newtonStepC F δ)^[k] (toC x₀)
  | 0 => rfl
  | k + 1 => by
    rw [cxIter_succ, toC_cxStep f F hf, toC_cxIter f F hf δ x₀ k, Function.iterate_succ_apply']

/-- the model's stopping test `dx.abs() <= tol` is `‖dx‖ ≤ tol` in ℂ -/
theorem cxTest_iff (f : Cx ℝ → Cx ℝ) (F : ℂ → ℂ) (hf : ∀ z, toC (f z) = F (toC z)) (tol δ : ℝ)
    (c : Cx ℝ) :
    Transc.le (Cx.abs (cxDx f δ c)) tol = true ↔ ‖newtonDxC F δ (toC c)‖ ≤ tol := by
  rw [abs_eq, toC_cxDx f F hf]
  simp [Transc.le]

/-- **the result of the model's complex loop over ℝ, in ℂ**: for every closure `f` denoting `F`, on
    success the result is the iterate `x_{k+1}` for the first `k < maxIter` with
    `‖x_k − x_{k+1}‖ = ‖dx_k‖ ≤ tol`; on failure it is `x_maxIter` and no step met the test. -/
theorem solveCx_real_char (f : Cx ℝ → Cx ℝ) (F : ℂ → ℂ) (hf : ∀ z, toC (f z) = F (toC z))
    (tol δ : ℝ) (n : ℕ) (x₀ : Cx ℝ) (tr : List (Cx ℝ)) :
    ((solveCx f tol δ n x₀ tr).1.ok = true → ∃ k, k < n ∧
        toC (solveCx f tol δ n x₀ tr).1.x = (newtonStepC F δ)^[k + 1] (toC x₀) ∧
        ‖newtonDxC F δ ((newtonStepC F δ)^[k] (toC x₀))‖ ≤ tol ∧
        ∀ j, j < k → tol < ‖newtonDxC F δ ((newtonStepC F δ)^[j] (toC x₀))‖) ∧
    ((solveCx f tol δ n x₀ tr).1.ok = false →
        toC (solveCx f tol δ n x₀ tr).1.x = (newtonStepC F δ)^[n] (toC x₀) ∧
        ∀ j, j < n → tol < ‖newtonDxC F δ ((newtonStepC F δ)^[j] (toC x₀))‖) := by
  have hneg : ∀ j, Transc.le (Cx.abs (cxDx f δ (cxIter f δ x₀ j))) tol = false →
      tol < ‖newtonDxC F δ ((newtonStepC F δ)^[j] (toC x₀))‖ := by
    intro j h
    rw [← toC_cxIter f F hf]
    by_contra hc
    rw [(cxTest_iff f F hf tol δ _).2 (not_lt.mp hc)] at h
    cases h
  constructor
  · intro hok
    obtain ⟨k, hk, e1, ⟨_, e2⟩, e3, _⟩ := cx_success_char_strong f tol δ n x₀ tr hok
    refine ⟨k, hk, ?_, ?_, fun j hj => hneg j (e3 j hj)⟩
    · rw [e1, toC_cxIter f F hf]
    · have := (cxTest_iff f F hf tol δ (cxIter f δ x₀ k)).1 e2
      rwa [toC_cxIter f F hf] at this
  · intro hok
    obtain ⟨e1, e3, _⟩ := cx_failure_carries_last f tol δ n x₀ tr hok
    exact ⟨by rw [e1, toC_cxIter f F hf], fun j hj => hneg j (e3 j hj)⟩

end Bridge

/-! ### iteration: a disc around a simple root is invariant, the error decreases geometrically -/
section Converge

/-- hypotheses of the convergence theorems: `F` is complex differentiable on the closed disc of
    radius `ρ + |δ|` around a root `r` with `F'` `M₂`-Lipschitz there (e.g. `‖F''‖ ≤ M₂`),
    `‖F'‖ ≥ m` on the disc of radius `ρ`, `δ ≠ 0`, `M₂|δ|/2 < m`, and the contraction factor
    `q = M₂/(2m − M₂|δ|) · (ρ + |δ|)` is `< 1`.  (`C18.NewtonBall` with moduli.) -/
structure NewtonBallC (F F' : ℂ → ℂ) (r : ℂ) (δ ρ m M₂ : ℝ) : Prop where
  hδ : δ ≠ 0
  h1 : ∀ z ∈ Metric.closedBall r (ρ + |δ|), HasDerivAt F (F' z) z
  hL : ∀ z ∈ Metric.closedBall r (ρ + |δ|), ∀ w ∈ Metric.closedBall r (ρ + |δ|),
    ‖F' z - F' w‖ ≤ M₂ * ‖z - w‖
  hm : ∀ z ∈ Metric.closedBall r ρ, m ≤ ‖F' z‖
  hr : F r = 0
  hsmall : M₂ * |δ| / 2 < m
  hq : M₂ / (2 * m - M₂ * |δ|) * (ρ + |δ|) < 1

/-- the contraction factor -/
noncomputable def newtonQC (δ ρ m M₂ : ℝ) : ℝ := M₂ / (2 * m - M₂ * |δ|) * (ρ + |δ|)

theorem NewtonBallC.M_nonneg {F F' : ℂ → ℂ} {r : ℂ} {δ ρ m M₂ : ℝ}
    (H : NewtonBallC F F' r δ ρ m M₂) (hρ : 0 ≤ ρ) : 0 ≤ M₂ := by
  have hδ0 := abs_pos.mpr H.hδ
  have hr : r ∈ Metric.closedBall r (ρ + |δ|) := by
    rw [mem_closedBall_iff_norm]; simp; linarith
  have hr' : r + (|δ| : ℝ) ∈ Metric.closedBall r (ρ + |δ|) := by
    rw [mem_closedBall_iff_norm]; simp; linarith
  have := H.hL _ hr' _ hr
  have e : ‖r + ((|δ| : ℝ) : ℂ) - r‖ = |δ| := by simp
  rw [e] at this
  by_contra hneg
  have : M₂ * |δ| < 0 := mul_neg_of_neg_of_pos (not_le.mp hneg) hδ0
  linarith [norm_nonneg (F' (r + ((|δ| : ℝ) : ℂ)) - F' r)]

theorem NewtonBallC.C_nonneg {F F' : ℂ → ℂ} {r : ℂ} {δ ρ m M₂ : ℝ}
    (H : NewtonBallC F F' r δ ρ m M₂) (hρ : 0 ≤ ρ) : 0 ≤ M₂ / (2 * m - M₂ * |δ|) :=
  div_nonneg (H.M_nonneg hρ) (by linarith [H.hsmall])

theorem NewtonBallC.q_nonneg {F F' : ℂ → ℂ} {r : ℂ} {δ ρ m M₂ : ℝ}
    (H : NewtonBallC F F' r δ ρ m M₂) (hρ : 0 ≤ ρ) : 0 ≤ newtonQC δ ρ m M₂ :=
  mul_nonneg (H.C_nonneg hρ) (by linarith [abs_nonneg δ])

/-- one step inside the disc: the estimate of `newton_cx_step` and contraction by `q` -/
theorem NewtonBallC.step {F F' : ℂ → ℂ} {r : ℂ} {δ ρ m M₂ : ℝ}
    (H : NewtonBallC F F' r δ ρ m M₂) (x : ℂ) (hx : ‖x - r‖ ≤ ρ) :
    cdiffC F δ x ≠ 0 ∧
    ‖newtonStepC F δ x - r‖ ≤ M₂ / (2 * m - M₂ * |δ|) * (‖x - r‖ ^ 2 + |δ| * ‖x - r‖) ∧
    ‖newtonStepC F δ x - r‖ ≤ newtonQC δ ρ m M₂ * ‖x - r‖ := by
  have hρ : 0 ≤ ρ := le_trans (norm_nonneg _) hx
  have hδ0 := abs_nonneg δ
  have hnδ : ‖(δ : ℂ)‖ = |δ| := by simp
  have mem : ∀ y : ℂ, ‖y - r‖ ≤ ρ + |δ| → y ∈ Metric.closedBall r (ρ + |δ|) := fun y hy =>
    mem_closedBall_iff_norm.mpr hy
  have hp : ‖x + (δ : ℂ) - r‖ ≤ ρ + |δ| := by
    have e : x + (δ : ℂ) - r = (x - r) + δ := by ring
    rw [e]
    exact le_trans (norm_add_le _ _) (by rw [hnδ]; linarith)
  have hn : ‖x - (δ : ℂ) - r‖ ≤ ρ + |δ| := by
    have e : x - (δ : ℂ) - r = (x - r) - δ := by ring
    rw [e]
    exact le_trans (norm_sub_le _ _) (by rw [hnδ]; linarith)
  obtain ⟨g1, g2⟩ := newton_cx_step F F' (Metric.closedBall r (ρ + |δ|)) (convex_closedBall _ _)
    x r δ m M₂ H.h1 H.hL (mem x (by linarith)) (mem _ hp) (mem _ hn)
    (mem r (by simp; linarith)) H.hr (H.hm x (mem_closedBall_iff_norm.mpr hx)) H.hδ H.hsmall
  refine ⟨g1, g2, le_trans g2 ?_⟩
  have hC := H.C_nonneg hρ
  have : ‖x - r‖ ^ 2 + |δ| * ‖x - r‖ ≤ (ρ + |δ|) * ‖x - r‖ := by
    nlinarith [norm_nonneg (x - r)]
  calc M₂ / (2 * m - M₂ * |δ|) * (‖x - r‖ ^ 2 + |δ| * ‖x - r‖)
      ≤ M₂ / (2 * m - M₂ * |δ|) * ((ρ + |δ|) * ‖x - r‖) := mul_le_mul_of_nonneg_left this hC
    _ = newtonQC δ ρ m M₂ * ‖x - r‖ := by rw [newtonQC]; ring

/-- the model's derivative estimate `(f(x+δ) − f(x−δ)) / (2δ)` (`Complex / f64`) is `cdiffC` in ℂ -/
theorem toC_cxDeriv (f : Cx ℝ → Cx ℝ) (F : ℂ → ℂ) (hf : ∀ z, toC (f z) = F (toC z)) (δ : ℝ)
    (x : Cx ℝ) :
    toC (Cx.divRT (f (x + ⟨δ, 0⟩) - f (x - ⟨δ, 0⟩)) ((1 + 1) * δ)) = cdiffC F δ (toC x) := by
  rw [toC_divRT_real, toC_sub, hf, hf, toC_add, toC_sub, toC_real, cdiffC]
  push_cast
  ring_nf

/-- **one step of the MODEL, general form** (no disc, no contraction hypothesis): for a closure
    `f` denoting `F`, complex differentiable on a convex set `s` containing `x`, `x ± δ` and a root
    `r`, with `F'` `M₂`-Lipschitz on `s`, `‖F' x‖ ≥ m`, `δ ≠ 0`, `M₂|δ|/2 < m`: the model's derivative
    estimate is non-zero and its update satisfies
    `‖x⁺ − r‖ ≤ C (‖x − r‖² + |δ| ‖x − r‖)`, `C = M₂ / (2m − M₂|δ|)`. -/
theorem newton_cx_model_step_general (f : Cx ℝ → Cx ℝ) (F F' : ℂ → ℂ)
    (hf : ∀ z, toC (f z) = F (toC z)) (s : Set ℂ) (hs : Convex ℝ s) (x : Cx ℝ) (r : ℂ)
    (δ m M₂ : ℝ)
    (h1 : ∀ z ∈ s, HasDerivAt F (F' z) z)
    (hL : ∀ z ∈ s, ∀ w ∈ s, ‖F' z - F' w‖ ≤ M₂ * ‖z - w‖)
    (hx : toC x ∈ s) (hxp : toC x + δ ∈ s) (hxm : toC x - δ ∈ s) (hrs : r ∈ s) (hr : F r = 0)
    (hm : m ≤ ‖F' (toC x)‖) (hδ : δ ≠ 0) (hsmall : M₂ * |δ| / 2 < m) :
    toC (Cx.divRT (f (x + ⟨δ, 0⟩) - f (x - ⟨δ, 0⟩)) ((1 + 1) * δ)) ≠ 0 ∧
    ‖toC (cxStep f δ x) - r‖
      ≤ M₂ / (2 * m - M₂ * |δ|) * (‖toC x - r‖ ^ 2 + |δ| * ‖toC x - r‖) := by
  rw [toC_cxDeriv f F hf, toC_cxStep f F hf]
  exact newton_cx_step F F' s hs (toC x) r δ m M₂ h1 hL hx hxp hxm hrs hr hm hδ hsmall

/-- **one step of the MODEL near a simple root** (`Newton<Cmplx>::solve`, exact arithmetic): for a
    closure `f` denoting `F` and a point `x` with `‖x − r‖ ≤ ρ`, the model's derivative estimate
    is non-zero and the model's update `x⁺ = cxStep f δ x` satisfies
    `‖x⁺ − r‖ ≤ C (‖x − r‖² + |δ| ‖x − r‖)`, `C = M₂ / (2m − M₂|δ|)`, and `‖x⁺ − r‖ ≤ q ‖x − r‖`. -/
theorem newton_cx_model_step (f : Cx ℝ → Cx ℝ) (F F' : ℂ → ℂ) (hf : ∀ z, toC (f z) = F (toC z))
    (r : ℂ) (δ ρ m M₂ : ℝ) (H : NewtonBallC F F' r δ ρ m M₂) (x : Cx ℝ)
    (hx : ‖toC x - r‖ ≤ ρ) :
    toC (Cx.divRT (f (x + ⟨δ, 0⟩) - f (x - ⟨δ, 0⟩)) ((1 + 1) * δ)) ≠ 0 ∧
    ‖toC (cxStep f δ x) - r‖
      ≤ M₂ / (2 * m - M₂ * |δ|) * (‖toC x - r‖ ^ 2 + |δ| * ‖toC x - r‖) ∧
    ‖toC (cxStep f δ x) - r‖ ≤ newtonQC δ ρ m M₂ * ‖toC x - r‖ := by
  obtain ⟨g1, g2, g3⟩ := H.step (toC x) hx
  rw [toC_cxStep f F hf]
  refine ⟨?_, g2, g3⟩
  rw [toC_cxDeriv f F hf]
  exact g1

/-- **convergence of the complex iteration** (exact arithmetic, in ℂ): from any guess `x₀` with
    `‖x₀ − r‖ ≤ ρ`, every iterate stays in the disc, the derivative estimate never vanishes, the
    one-step estimate holds at every step, and `‖x_k − r‖ ≤ q^k ‖x₀ − r‖`, `q = C (ρ + |δ|) < 1`. -/
theorem newton_cx_converges (F F' : ℂ → ℂ) (r : ℂ) (δ ρ m M₂ : ℝ)
    (H : NewtonBallC F F' r δ ρ m M₂) (x₀ : ℂ) (hx₀ : ‖x₀ - r‖ ≤ ρ) (k : ℕ) :
    ‖(newtonStepC F δ)^[k] x₀ - r‖ ≤ newtonQC δ ρ m M₂ ^ k * ‖x₀ - r‖ ∧
    ‖(newtonStepC F δ)^[k] x₀ - r‖ ≤ ρ ∧
    cdiffC F δ ((newtonStepC F δ)^[k] x₀) ≠ 0 ∧
    ‖(newtonStepC F δ)^[k + 1] x₀ - r‖ ≤ M₂ / (2 * m - M₂ * |δ|) *
      (‖(newtonStepC F δ)^[k] x₀ - r‖ ^ 2 + |δ| * ‖(newtonStepC F δ)^[k] x₀ - r‖) ∧
    ‖(newtonStepC F δ)^[k + 1] x₀ - r‖ ≤ newtonQC δ ρ m M₂ * ‖(newtonStepC F δ)^[k] x₀ - r‖ := by
  have hρ : 0 ≤ ρ := le_trans (norm_nonneg _) hx₀
  have hq0 := H.q_nonneg hρ
  have hq1 : newtonQC δ ρ m M₂ < 1 := H.hq
  have main : ∀ k, ‖(newtonStepC F δ)^[k] x₀ - r‖ ≤ newtonQC δ ρ m M₂ ^ k * ‖x₀ - r‖ ∧
      ‖(newtonStepC F δ)^[k] x₀ - r‖ ≤ ρ := by
    intro k
    induction k with
    | zero => simpa using hx₀
    | succ k ih =>
      obtain ⟨i1, i2⟩ := ih
      obtain ⟨_, _, s3⟩ := H.step _ i2
      rw [Function.iterate_succ_apply']
      constructor
      · calc _ ≤ newtonQC δ ρ m M₂ * ‖(newtonStepC F δ)^[k] x₀ - r‖ := s3
          _ ≤ newtonQC δ ρ m M₂ * (newtonQC δ ρ m M₂ ^ k * ‖x₀ - r‖) :=
              mul_le_mul_of_nonneg_left i1 hq0
          _ = newtonQC δ ρ m M₂ ^ (k + 1) * ‖x₀ - r‖ := by ring
      · calc _ ≤ newtonQC δ ρ m M₂ * ‖(newtonStepC F δ)^[k] x₀ - r‖ := s3
          _ ≤ 1 * ‖(newtonStepC F δ)^[k] x₀ - r‖ :=
              mul_le_mul_of_nonneg_right hq1.le (norm_nonneg _)
          _ ≤ ρ := by rw [one_mul]; exact i2
  obtain ⟨m1, m2⟩ := main k
  obtain ⟨s1, s2, s3⟩ := H.step _ m2
  rw [Function.iterate_succ_apply']
  exact ⟨m1, m2, s1, s2, s3⟩

/-- the iterates converge to the root -/
theorem newton_cx_tendsto (F F' : ℂ → ℂ) (r : ℂ) (δ ρ m M₂ : ℝ)
    (H : NewtonBallC F F' r δ ρ m M₂) (x₀ : ℂ) (hx₀ : ‖x₀ - r‖ ≤ ρ) :
    Filter.Tendsto (fun k => (newtonStepC F δ)^[k] x₀) Filter.atTop (nhds r) := by
  have hρ : 0 ≤ ρ := le_trans (norm_nonneg _) hx₀
  rw [tendsto_iff_dist_tendsto_zero]
  have lim : Filter.Tendsto (fun k : ℕ => newtonQC δ ρ m M₂ ^ k * ‖x₀ - r‖) Filter.atTop (nhds 0) := by
    have := (tendsto_pow_atTop_nhds_zero_of_lt_one (H.q_nonneg hρ) H.hq).mul_const ‖x₀ - r‖
    simpa using this
  refine squeeze_zero (fun k => dist_nonneg) (fun k => ?_) lim
  rw [dist_eq_norm]
  exact (newton_cx_converges F F' r δ ρ m M₂ H x₀ hx₀ k).1

/-- the model's iterates (read in ℂ) converge to the root -/
theorem newton_cx_model_tendsto (f : Cx ℝ → Cx ℝ) (F F' : ℂ → ℂ)
    (hf : ∀ z, toC (f z) = F (toC z)) (r : ℂ) (δ ρ m M₂ : ℝ)
    (H : NewtonBallC F F' r δ ρ m M₂) (x₀ : Cx ℝ) (hx₀ : ‖toC x₀ - r‖ ≤ ρ) :
    Filter.Tendsto (fun k => toC (cxIter f δ x₀ k)) Filter.atTop (nhds r) := by
  simp only [toC_cxIter f F hf]
  exact newton_cx_tendsto F F' r δ ρ m M₂ H (toC x₀) hx₀

/-- **the model's complex `solve` near a simple root** (exact arithmetic, any `tol`, any budget `n`,
    any closure `f` denoting `F`): the returned point is never farther from the root than the
    guess; a reported success is within `q/(1−q) · tol` of the root (`≤ tol` when `q ≤ 1/2`) — the
    stopping test `dx.abs() <= tol` bounds the modulus of the last STEP `‖x_k − x_{k+1}‖`, which
    certifies `(1 − q) ‖x_{k+1} − r‖ ≤ q · tol` for the returned `x_{k+1}`; a reported failure has
    error `≤ qⁿ ‖x₀ − r‖`; and success IS reported as soon as `(1+q) q^(n−1) ‖x₀ − r‖ ≤ tol`. -/
theorem newton_cx_model_converges (f : Cx ℝ → Cx ℝ) (F F' : ℂ → ℂ)
    (hf : ∀ z, toC (f z) = F (toC z)) (r : ℂ) (δ ρ m M₂ : ℝ)
    (H : NewtonBallC F F' r δ ρ m M₂) (x₀ : Cx ℝ) (hx₀ : ‖toC x₀ - r‖ ≤ ρ)
    (tol : ℝ) (n : ℕ) (tr : List (Cx ℝ)) :
    ‖toC (solveCx f tol δ n x₀ tr).1.x - r‖ ≤ ‖toC x₀ - r‖ ∧
    ((solveCx f tol δ n x₀ tr).1.ok = true →
      (1 - newtonQC δ ρ m M₂) * ‖toC (solveCx f tol δ n x₀ tr).1.x - r‖
        ≤ newtonQC δ ρ m M₂ * tol) ∧
    ((solveCx f tol δ n x₀ tr).1.ok = false →
      ‖toC (solveCx f tol δ n x₀ tr).1.x - r‖ ≤ newtonQC δ ρ m M₂ ^ n * ‖toC x₀ - r‖) ∧
    (1 ≤ n → (1 + newtonQC δ ρ m M₂) * newtonQC δ ρ m M₂ ^ (n - 1) * ‖toC x₀ - r‖ ≤ tol →
      (solveCx f tol δ n x₀ tr).1.ok = true) := by
  have hρ : 0 ≤ ρ := le_trans (norm_nonneg _) hx₀
  have hq0 := H.q_nonneg hρ
  have hq1 : newtonQC δ ρ m M₂ < 1 := H.hq
  have hconv := newton_cx_converges F F' r δ ρ m M₂ H (toC x₀) hx₀
  have hpow : ∀ k, newtonQC δ ρ m M₂ ^ k * ‖toC x₀ - r‖ ≤ ‖toC x₀ - r‖ := fun k => by
    have := pow_le_one₀ hq0 hq1.le (n := k)
    nlinarith [norm_nonneg (toC x₀ - r)]
  obtain ⟨c1, c2⟩ := solveCx_real_char f F hf tol δ n x₀ tr
  have hdx : ∀ k, newtonDxC F δ ((newtonStepC F δ)^[k] (toC x₀))
      = (newtonStepC F δ)^[k] (toC x₀) - (newtonStepC F δ)^[k + 1] (toC x₀) := by
    intro k
    rw [Function.iterate_succ_apply', newtonStepC]
    ring
  refine ⟨?_, ?_, ?_, ?_⟩
  · cases hok : (solveCx f tol δ n x₀ tr).1.ok with
    | true =>
      obtain ⟨k, _, e1, _, _⟩ := c1 hok
      rw [e1]
      exact le_trans (hconv (k + 1)).1 (hpow _)
    | false =>
      obtain ⟨e1, _⟩ := c2 hok
      rw [e1]
      exact le_trans (hconv n).1 (hpow _)
  · intro hok
    obtain ⟨k, _, e1, e2, _⟩ := c1 hok
    rw [e1]
    obtain ⟨_, _, _, _, s5⟩ := hconv k
    rw [hdx k] at e2
    have tri : ‖(newtonStepC F δ)^[k] (toC x₀) - r‖
        ≤ ‖(newtonStepC F δ)^[k] (toC x₀) - (newtonStepC F δ)^[k + 1] (toC x₀)‖
          + ‖(newtonStepC F δ)^[k + 1] (toC x₀) - r‖ := by
      have := norm_add_le ((newtonStepC F δ)^[k] (toC x₀) - (newtonStepC F δ)^[k + 1] (toC x₀))
        ((newtonStepC F δ)^[k + 1] (toC x₀) - r)
      simpa using this
    nlinarith [norm_nonneg ((newtonStepC F δ)^[k + 1] (toC x₀) - r)]
  · intro hok
    obtain ⟨e1, _⟩ := c2 hok
    rw [e1]
    exact (hconv n).1
  · intro hn htol
    by_contra hne
    have hok : (solveCx f tol δ n x₀ tr).1.ok = false := by
      simpa using hne
    obtain ⟨_, e3⟩ := c2 hok
    have hlt := e3 (n - 1) (by omega)
    rw [hdx (n - 1)] at hlt
    obtain ⟨s1, _, _, _, s5⟩ := hconv (n - 1)
    have tri : ‖(newtonStepC F δ)^[n - 1] (toC x₀) - (newtonStepC F δ)^[n - 1 + 1] (toC x₀)‖
        ≤ ‖(newtonStepC F δ)^[n - 1] (toC x₀) - r‖
          + ‖(newtonStepC F δ)^[n - 1 + 1] (toC x₀) - r‖ := by
      have := norm_sub_le_norm_sub_add_norm_sub ((newtonStepC F δ)^[n - 1] (toC x₀)) r
        ((newtonStepC F δ)^[n - 1 + 1] (toC x₀))
      rwa [norm_sub_rev r _] at this
    have b1 : ‖(newtonStepC F δ)^[n - 1] (toC x₀) - (newtonStepC F δ)^[n - 1 + 1] (toC x₀)‖
        ≤ (1 + newtonQC δ ρ m M₂) * ‖(newtonStepC F δ)^[n - 1] (toC x₀) - r‖ := by linarith
    have b2 : (1 + newtonQC δ ρ m M₂) * ‖(newtonStepC F δ)^[n - 1] (toC x₀) - r‖
        ≤ (1 + newtonQC δ ρ m M₂) * (newtonQC δ ρ m M₂ ^ (n - 1) * ‖toC x₀ - r‖) :=
      mul_le_mul_of_nonneg_left s1 (by linarith)
    have b3 : (1 + newtonQC δ ρ m M₂) * (newtonQC δ ρ m M₂ ^ (n - 1) * ‖toC x₀ - r‖)
        = (1 + newtonQC δ ρ m M₂) * newtonQC δ ρ m M₂ ^ (n - 1) * ‖toC x₀ - r‖ := by ring
    linarith

/-- with `q ≤ 1/2` a reported success is within `tol` of the root -/
theorem newton_cx_model_success_within_tol (f : Cx ℝ → Cx ℝ) (F F' : ℂ → ℂ)
    (hf : ∀ z, toC (f z) = F (toC z)) (r : ℂ) (δ ρ m M₂ : ℝ)
    (H : NewtonBallC F F' r δ ρ m M₂) (hhalf : newtonQC δ ρ m M₂ ≤ 1 / 2)
    (x₀ : Cx ℝ) (hx₀ : ‖toC x₀ - r‖ ≤ ρ) (tol : ℝ) (n : ℕ) (tr : List (Cx ℝ))
    (hok : (solveCx f tol δ n x₀ tr).1.ok = true) :
    ‖toC (solveCx f tol δ n x₀ tr).1.x - r‖ ≤ tol := by
  obtain ⟨_, h2, _, _⟩ := newton_cx_model_converges f F F' hf r δ ρ m M₂ H x₀ hx₀ tol n tr
  have h := h2 hok
  obtain ⟨k, _, _, e2, _⟩ := (solveCx_real_char f F hf tol δ n x₀ tr).1 hok
  have htol : 0 ≤ tol := le_trans (norm_nonneg _) e2
  nlinarith [norm_nonneg (toC (solveCx f tol δ n x₀ tr).1.x - r)]

end Converge

/-! ### the hypotheses are satisfiable: `z² + 1` near `i` -/
section ExamplesC

/-- `F z = z² + 1`, root `i`, `δ = 1/100`, disc radius `ρ = 1/10`, `m = 9/5`, `M₂ = 2`
    (`q = 2/(18/5 − 1/50) · 11/100 ≈ 0.061`) -/
theorem exNewtonBallC :
    NewtonBallC (fun z : ℂ => z ^ 2 + 1) (fun z => 2 * z) Complex.I (1 / 100) (1 / 10) (9 / 5) 2 := by
  have hδ : |(1 / 100 : ℝ)| = 1 / 100 := abs_of_pos (by norm_num)
  refine ⟨by norm_num, fun z _ => ?_, fun z _ w _ => ?_, fun z hz => ?_, ?_, ?_, ?_⟩
  · exact ((hasDerivAt_pow 2 z).add_const 1).congr_deriv (by simp)
  · rw [← mul_sub, norm_mul]; simp
  · rw [mem_closedBall_iff_norm] at hz
    have h1 : ‖Complex.I‖ ≤ ‖z‖ + ‖Complex.I - z‖ := by
      have := norm_add_le z (Complex.I - z)
      simpa using this
    rw [norm_sub_rev] at h1
    rw [Complex.norm_I] at h1
    rw [norm_mul]
    have : ‖(2 : ℂ)‖ = 2 := by simp
    rw [this]
    linarith
  · simp [sq]
  · rw [hδ]; norm_num
  · rw [hδ]; norm_num

/-- the model closure `z ↦ z * z + 1` on `Cx ℝ` denotes `z ↦ z² + 1` -/
theorem exClosure (z : Cx ℝ) : toC (z * z + 1) = (fun w : ℂ => w ^ 2 + 1) (toC z) := by
  rw [toC_add, toC_mul, toC_one]; ring

/-- the guess `1/20 + (21/20) i` is within `1/10` of `i` (distance `√2/20`) -/
theorem exGuessC : ‖toC (⟨1 / 20, 21 / 20⟩ : Cx ℝ) - Complex.I‖ ≤ 1 / 10 := by
  have e : toC (⟨1 / 20, 21 / 20⟩ : Cx ℝ) - Complex.I = ⟨1 / 20, 1 / 20⟩ := by
    apply Complex.ext
    · simp [toC]
    · simp [toC]; norm_num
  rw [e, Complex.norm_def, Complex.normSq_mk]
  exact Real.sqrt_le_iff.mpr ⟨by norm_num, by norm_num⟩

/-- from the guess `1/20 + (21/20) i` the model's iterates converge to `i` … -/
example : Filter.Tendsto
    (fun k => toC (cxIter (fun z : Cx ℝ => z * z + 1) (1 / 100) ⟨1 / 20, 21 / 20⟩ k))
    Filter.atTop (nhds Complex.I) :=
  newton_cx_model_tendsto _ _ _ exClosure _ _ _ _ _ exNewtonBallC _ exGuessC

/-- … whenever the model's `solve` reports success from that guess, the result is within `tol`
    of `i` … -/
example (tol : ℝ) (n : ℕ)
    (hok : (solveCx (fun z : Cx ℝ => z * z + 1) tol (1 / 100) n ⟨1 / 20, 21 / 20⟩ []).1.ok = true) :
    ‖toC (solveCx (fun z : Cx ℝ => z * z + 1) tol (1 / 100) n ⟨1 / 20, 21 / 20⟩ []).1.x
      - Complex.I‖ ≤ tol := by
  have hδ : |(1 / 100 : ℝ)| = 1 / 100 := abs_of_pos (by norm_num)
  exact newton_cx_model_success_within_tol _ _ _ exClosure _ _ _ _ _ exNewtonBallC
    (by rw [newtonQC, hδ]; norm_num) _ exGuessC tol n [] hok

/-- … and with `tol = 10⁻⁶` a budget of 6 iterations is enough for success to be reported
    (`q ≤ 1/16`, `(1 + q) q⁵ ρ ≤ 10⁻⁶`) -/
example : (solveCx (fun z : Cx ℝ => z * z + 1) (1 / 10 ^ 6) (1 / 100) 6 ⟨1 / 20, 21 / 20⟩ []).1.ok
    = true := by
  have hδ : |(1 / 100 : ℝ)| = 1 / 100 := abs_of_pos (by norm_num)
  obtain ⟨_, _, _, h4⟩ := newton_cx_model_converges _ _ _ exClosure _ _ _ _ _ exNewtonBallC _
    exGuessC (1 / 10 ^ 6) 6 []
  refine h4 (by norm_num) ?_
  have hq : newtonQC (1 / 100) (1 / 10) (9 / 5) 2 = 11 / 179 := by
    rw [newtonQC, hδ]; norm_num
  rw [hq]
  have := exGuessC
  have h0 := norm_nonneg (toC (⟨1 / 20, 21 / 20⟩ : Cx ℝ) - Complex.I)
  have hc : (0 : ℝ) ≤ (1 + 11 / 179) * (11 / 179) ^ (6 - 1) := by positivity
  calc (1 + 11 / 179 : ℝ) * (11 / 179) ^ (6 - 1) * ‖toC (⟨1 / 20, 21 / 20⟩ : Cx ℝ) - Complex.I‖
      ≤ (1 + 11 / 179) * (11 / 179) ^ (6 - 1) * (1 / 10) := mul_le_mul_of_nonneg_left this hc
    _ ≤ 1 / 10 ^ 6 := by norm_num

end ExamplesC

end Ohsl.Props.C17
