/-
  Property C10 (continued) — the iterative path of the root finder (degree ≥ 4): Laguerre's step and
  forward deflation in EXACT complex arithmetic (model: Ohsl/Model/Roots.lean, interpreted over ℝ
  and transported to Mathlib's ℂ by `toC`, as in C10Q).  `cpoly a m = Σ_{i≤m} a[i] X^i : ℂ[X]`.

  1. `horner_spec`: the evaluation loop of `laguerStep` returns `b = P(x)`, `d = P′(x)`,
     `f = P″(x)/2`, and `err = Σ_{k≤m} |P_k(x)| |x|^k ≥ 0` (`P_k = divX^[k] P`, the partial Horner
     polynomials); `norm_eval_le_hornerErr` (`|P(x)| ≤ err`), `hornerErr_le`
     (`err ≤ (m+1) Σ |a_i||x|^i`).
  2. `laguerStep_formula` (+ `laguerStep_some`, `laguerStep_none_iff`, `toC_mdx`): the step stops iff
     `|P(x)| ≤ 2⁻⁵² err` or `dx = 0`; otherwise the new iterate is `x − dx·φ`,
     `dx = laguerDx P m iter x = m / (G ± √((m−1)(mH − G²)))`, sign maximising the modulus of the
     denominator, fallback `(1+|x|) e^{i·iter}` when both denominators vanish, `φ = stepFrac iter`
     (`stepFrac_range`: `φ ∈ (0,1]`, `φ = 1` unless `10 ∣ iter`).  The non-finiteness test never
     fires over ℝ.  `laguerDx_multiple_root`, `laguer_one_step_multiple_root(_frac)`: on
     `c (X − r)^m` one step that does not stop lands exactly on `r`.
  3. `laguerStep_at_root`, `laguer_at_root`, `laguer_at_root_steps`, `polish_at_roots`: an exact
     zero is returned unchanged, without any update; polishing never moves exact zeros.
  4. `deflate_spec`, `deflate_spec_root`: `deflate` is synthetic division,
     `p = (X − r) q + p(r)`, `q = p /ₘ (X − r)`.
  5. `polySolve_exact_roots`, `polySolve_exact_roots_multiset` (conditional on `ExactStages`: every
     stage of the deflation loop uses an exact zero of the current deflated polynomial):
     `p = lead · ∏ (X − z_k)`, refined or not.
  6. non-vacuity: `laguer_multiple_root_from_zero`, `exactStages_multiple_root`,
     `polySolve_multiple_root` (for `p = c (X − r)^n` the hypothesis holds and the model returns `r`
     exactly `n` times), concrete `(X − 1)⁴`.
  NOT proved (and false in general): that Laguerre's iteration reaches an exact zero; convergence,
  accuracy, rounding (class F).
-/
import Ohsl.Props.C10Q
import Mathlib.Algebra.Polynomial.Derivative
import Mathlib.Algebra.Polynomial.Inductions
import Mathlib.Algebra.Polynomial.Div
import Mathlib.Algebra.Polynomial.Roots
import Mathlib.Tactic.IntervalCases
set_option linter.unusedSectionVars false
set_option linter.unusedVariables false
namespace Ohsl.Props.C10
open Ohsl Ohsl.Roots Ohsl.Cx Ohsl.RealI Ohsl.Props.C14 Polynomial

/-! ## 0. the polynomial denoted by a coefficient array -/

/-- coefficient `i` of the work array, in ℂ (zero beyond the end) -/
noncomputable def cf (a : Array (Cx ℝ)) (i : ℕ) : ℂ := toC (a[i]?.getD 0)

/-- the polynomial `Σ_{i ≤ m} a[i] X^i` of degree (at most) `m` -/
noncomputable def cpoly (a : Array (Cx ℝ)) (m : ℕ) : ℂ[X] :=
  ∑ i ∈ Finset.range (m + 1), C (cf a i) * X ^ i

theorem cpoly_succ (a : Array (Cx ℝ)) (m : ℕ) :
    cpoly a (m + 1) = cpoly a m + C (cf a (m + 1)) * X ^ (m + 1) := by
  unfold cpoly; rw [Finset.sum_range_succ]

theorem cpoly_zero (a : Array (Cx ℝ)) : cpoly a 0 = C (cf a 0) := by
  simp [cpoly]

theorem coeff_cpoly (a : Array (Cx ℝ)) (m k : ℕ) :
    (cpoly a m).coeff k = if k ≤ m then cf a k else 0 := by
  unfold cpoly
  rw [Polynomial.finsetSum_coeff]
  simp only [coeff_C_mul_X_pow]
  rw [Finset.sum_ite_eq]
  simp

/-! ## 1. the Horner loop of `laguerStep` -/

/-- the loop body of `laguerEval` -/
noncomputable def evalStep (a : Array (Cx ℝ)) (x : Cx ℝ) (st : Cx ℝ × Cx ℝ × Cx ℝ × ℝ) (j : ℕ) :
    Cx ℝ × Cx ℝ × Cx ℝ × ℝ :=
  (x * st.1 + (a[j]?.getD 0), x * st.2.1 + st.1, x * st.2.2.1 + st.2.1,
    Cx.abs (x * st.1 + (a[j]?.getD 0)) + Cx.abs x * st.2.2.2)

theorem laguerEval_eq (a : Array (Cx ℝ)) (m : ℕ) (x : Cx ℝ) :
    laguerEval a m x =
      (List.range m).reverse.foldl (evalStep a x) (a[m]?.getD 0, 0, 0, Cx.abs (a[m]?.getD 0)) := rfl

theorem coeff_iterate_divX (p : ℂ[X]) (k i : ℕ) : (divX^[k] p).coeff i = p.coeff (i + k) := by
  induction k generalizing i with
  | zero => simp
  | succ k ih => rw [Function.iterate_succ_apply', coeff_divX, ih]; congr 1; omega

/-- lower part `Σ_{i<n} a[i] X^i` -/
noncomputable def lowPart (a : Array (Cx ℝ)) (n : ℕ) : ℂ[X] :=
  ∑ i ∈ Finset.range n, C (cf a i) * X ^ i

theorem coeff_lowPart (a : Array (Cx ℝ)) (n k : ℕ) :
    (lowPart a n).coeff k = if k < n then cf a k else 0 := by
  unfold lowPart
  rw [Polynomial.finsetSum_coeff]
  simp only [coeff_C_mul_X_pow]
  rw [Finset.sum_ite_eq]
  simp

theorem iterate_divX_high (a : Array (Cx ℝ)) (Q : ℂ[X]) (n : ℕ) :
    divX^[n] (Q * X ^ n + lowPart a n) = Q := by
  ext i
  rw [coeff_iterate_divX, coeff_add, coeff_mul_X_pow, coeff_lowPart]
  simp

/-- the state `(b, d, f, err)` represents the polynomial `Q` at `x` -/
def Repr3 (Q : ℂ[X]) (x : Cx ℝ) (st : Cx ℝ × Cx ℝ × Cx ℝ × ℝ) : Prop :=
  toC st.1 = Q.eval (toC x) ∧ toC st.2.1 = (derivative Q).eval (toC x) ∧
  toC st.2.2.1 = (derivative (derivative Q)).eval (toC x) / 2

theorem evalFold (a : Array (Cx ℝ)) (x : Cx ℝ) (n : ℕ) :
    ∀ (Q : ℂ[X]) (st : Cx ℝ × Cx ℝ × Cx ℝ × ℝ), Repr3 Q x st →
      let r := (List.range n).reverse.foldl (evalStep a x) st
      let P := Q * X ^ n + lowPart a n
      Repr3 P x r ∧
      r.2.2.2 = (∑ k ∈ Finset.range n, ‖(divX^[k] P).eval (toC x)‖ * ‖toC x‖ ^ k)
        + ‖toC x‖ ^ n * st.2.2.2 := by
  induction n with
  | zero =>
    intro Q st h
    simpa [lowPart] using h
  | succ n ih =>
    intro Q st h
    obtain ⟨h1, h2, h3⟩ := h
    rw [List.range_succ, List.reverse_append, List.reverse_singleton, List.singleton_append,
      List.foldl_cons]
    have hP : (X * Q + C (cf a n)) * X ^ n + lowPart a n = Q * X ^ (n + 1) + lowPart a (n + 1) := by
      rw [lowPart, lowPart, Finset.sum_range_succ]; ring
    have hrep : Repr3 (X * Q + C (cf a n)) x (evalStep a x st n) := by
      refine ⟨?_, ?_, ?_⟩
      · simp only [evalStep, toC_add, toC_mul, h1, eval_add, eval_mul, eval_X, eval_C, cf]
      · simp only [evalStep, toC_add, toC_mul, h1, h2, derivative_add, derivative_mul, derivative_X,
          derivative_C, eval_add, eval_mul, eval_X, eval_one, eval_zero]
        ring
      · simp only [evalStep, toC_add, toC_mul, h2, h3, derivative_add, derivative_mul, derivative_X,
          derivative_C, derivative_one, derivative_zero, eval_add, eval_mul, eval_X, eval_one,
          eval_zero]
        ring
    have := ih (X * Q + C (cf a n)) (evalStep a x st n) hrep
    simp only [hP] at this
    refine ⟨this.1, ?_⟩
    rw [this.2, Finset.sum_range_succ]
    have hQ : divX^[n] (Q * X ^ (n + 1) + lowPart a (n + 1)) = X * Q + C (cf a n) := by
      rw [← hP]; exact iterate_divX_high a _ n
    have he : (evalStep a x st n).2.2.2 =
        ‖(X * Q + C (cf a n)).eval (toC x)‖ + ‖toC x‖ * st.2.2.2 := by
      simp only [evalStep, C14.abs_eq, toC_add, toC_mul, h1, eval_add, eval_mul, eval_X, eval_C, cf]
    rw [hQ, he]; ring

/-- **Horner loop of `laguerStep`.**  With `P = Σ_{i ≤ m} a[i] X^i`, the loop returns
    `b = P(x)`, `d = P′(x)`, `f = P″(x)/2`, and the error accumulator is
    `err = Σ_{k ≤ m} |P_k(x)| |x|^k ≥ 0`, where `P_k = divX^[k] P = Σ_{i ≥ k} a[i] X^{i-k}` are the
    partial Horner polynomials (`P_0 = P`).  `laguerStep` multiplies it by `eps = 2⁻⁵²`. -/
theorem horner_spec (a : Array (Cx ℝ)) (m : ℕ) (x : Cx ℝ) :
    toC (laguerEval a m x).1 = (cpoly a m).eval (toC x) ∧
    toC (laguerEval a m x).2.1 = (derivative (cpoly a m)).eval (toC x) ∧
    toC (laguerEval a m x).2.2.1 = (derivative^[2] (cpoly a m)).eval (toC x) / 2 ∧
    (laguerEval a m x).2.2.2 =
      ∑ k ∈ Finset.range (m + 1), ‖(divX^[k] (cpoly a m)).eval (toC x)‖ * ‖toC x‖ ^ k ∧
    0 ≤ (laguerEval a m x).2.2.2 := by
  have h0 : Repr3 (C (cf a m)) x (a[m]?.getD 0, 0, 0, Cx.abs (a[m]?.getD 0)) := by
    refine ⟨?_, ?_, ?_⟩ <;> simp [cf, toC_zero]
  have hP : C (cf a m) * X ^ m + lowPart a m = cpoly a m := by
    rw [cpoly, Finset.sum_range_succ, lowPart]; ring
  have := evalFold a x m _ _ h0
  simp only [hP] at this
  rw [← laguerEval_eq] at this
  obtain ⟨⟨h1, h2, h3⟩, h4⟩ := this
  have h5 : (laguerEval a m x).2.2.2 =
      ∑ k ∈ Finset.range (m + 1), ‖(divX^[k] (cpoly a m)).eval (toC x)‖ * ‖toC x‖ ^ k := by
    rw [h4, Finset.sum_range_succ]
    congr 1
    have : divX^[m] (cpoly a m) = C (cf a m) := by rw [← hP]; exact iterate_divX_high a _ m
    rw [this, C14.abs_eq, mul_comm]; simp [cf]
  refine ⟨h1, h2, h3, h5, ?_⟩
  rw [h5]
  exact Finset.sum_nonneg (fun k _ => mul_nonneg (norm_nonneg _) (pow_nonneg (norm_nonneg _) _))

/-! ## 2. Laguerre's step in closed form -/

theorem lt_iff (a b : ℝ) : (ScalarExt.lt a b = true) ↔ a < b := by
  show decide (a < b) = true ↔ _
  simp
theorem le_iff (a b : ℝ) : (Transc.le a b = true) ↔ a ≤ b := by
  show decide (a ≤ b) = true ↔ _
  simp
theorem beq_iff (p q : Cx ℝ) : (p == q) = true ↔ toC p = toC q := by
  rw [toC_inj]
  cases p with
  | mk x y =>
    cases q with
    | mk u v =>
      show ((x == u) && (y == v)) = true ↔ (⟨x, y⟩ : Cx ℝ) = ⟨u, v⟩
      simp
theorem ofNat_eq (n : ℕ) : (Transc.ofNat n : ℝ) = (n : ℝ) := rfl
theorem isFinite_real (t : ℝ) : isFinite t = true := by
  show ((t - t) == (0 : ℝ)) = true
  simp

/-- the model's Laguerre correction `dx` (everything between the first and the second stopping test
    of `laguerStep`) -/
noncomputable def mdx (a : Array (Cx ℝ)) (m iter : ℕ) (x : Cx ℝ) : Cx ℝ :=
  let r := laguerEval a m x
  let g := divT r.2.1 r.1
  let g2 := g * g
  let h := g2 - nmul 2 (divT r.2.2.1 r.1)
  let sq := csqrt (mulR (mulR h (Transc.ofNat m) - g2) (Transc.ofNat (m - 1)))
  let gp := g + sq
  let gm := g - sq
  let abp := Cx.abs gp
  let abm := Cx.abs gm
  let gp := if ScalarExt.lt abp abm then gm else gp
  if ScalarExt.lt 0 (Transc.fmax abp abm) then divT ⟨Transc.ofNat m, 0⟩ gp
  else polar (1 + Cx.abs x) (Transc.ofNat iter)

/-- the two moduli `|g ± sq|` whose finiteness the model tests (repair D13: over `f64` they are non-finite when `g²`
    overflowed; over ℝ the test never fires) -/
noncomputable def mab (a : Array (Cx ℝ)) (m : ℕ) (x : Cx ℝ) : ℝ × ℝ :=
  let r := laguerEval a m x
  let g := divT r.2.1 r.1
  let g2 := g * g
  let h := g2 - nmul 2 (divT r.2.2.1 r.1)
  let sq := csqrt (mulR (mulR h (Transc.ofNat m) - g2) (Transc.ofNat (m - 1)))
  (Cx.abs (g + sq), Cx.abs (g - sq))

/-- `laguerStep`, with the evaluation loop and the correction named -/
theorem laguerStep_eq (a : Array (Cx ℝ)) (m iter : ℕ) (x : Cx ℝ) :
    laguerStep a m iter x =
      if Transc.le (Cx.abs (laguerEval a m x).1) ((laguerEval a m x).2.2.2 * Transc.eps) then none
      else if !(isFinite (mab a m x).1 && isFinite (mab a m x).2) then none
      else if x == x - mdx a m iter x then none
      else if !(isFinite (x - mdx a m iter x).re && isFinite (x - mdx a m iter x).im) then none
      else if iter % 10 != 0 then some (x - mdx a m iter x)
      else some (x - mulR (mdx a m iter x) ((frac (K := ℝ))[iter / 10]?.getD 0)) := rfl

/-- **Laguerre's correction**, as the model computes it, for the polynomial `P` of degree `m` at `x`:
    `dx = m / (G ± √((m−1)(m H − G²)))` with `G = P′/P`, `H = G² − P″/P`, the sign chosen to maximise
    the modulus of the denominator (`+` on a tie); the square root is the principal one
    (`z ^ (1/2)`); when both denominators vanish the fallback `(1 + |x|) e^{i·iter}` is used. -/
noncomputable def laguerDx (P : ℂ[X]) (m iter : ℕ) (x : ℂ) : ℂ :=
  let G := (derivative P).eval x / P.eval x
  let H := G ^ 2 - (derivative^[2] P).eval x / P.eval x
  let S := (((m - 1 : ℕ) : ℂ) * ((m : ℂ) * H - G ^ 2)) ^ (1 / 2 : ℂ)
  if 0 < max ‖G + S‖ ‖G - S‖ then (m : ℂ) / (if ‖G + S‖ < ‖G - S‖ then G - S else G + S)
  else ((1 + ‖x‖ : ℝ) : ℂ) * Complex.exp (((iter : ℝ) : ℂ) * Complex.I)

/-- the cycle-breaking factor: 1 except every tenth iteration, where it is `frac[iter/10]` -/
noncomputable def stepFrac (iter : ℕ) : ℝ :=
  if iter % 10 ≠ 0 then 1 else (frac (K := ℝ))[iter / 10]?.getD 0

/-- during `laguer` (`iter = 1 … 79`) the cycle-breaking factor lies in `(0, 1]` -/
theorem stepFrac_range (iter : ℕ) (h1 : 1 ≤ iter) (h2 : iter ≤ 79) :
    0 < stepFrac iter ∧ stepFrac iter ≤ 1 := by
  unfold stepFrac
  by_cases hi : iter % 10 = 0
  · obtain ⟨q, rfl⟩ : ∃ q, iter = 10 * q := ⟨iter / 10, by omega⟩
    have hq1 : 1 ≤ q := by omega
    have hq2 : q ≤ 7 := by omega
    rw [if_neg (by simp [hi])]
    interval_cases q <;> (simp [frac]; norm_num)
  · simp [hi]

theorem toC_mdx (a : Array (Cx ℝ)) (m iter : ℕ) (x : Cx ℝ) :
    toC (mdx a m iter x) = laguerDx (cpoly a m) m iter (toC x) := by
  obtain ⟨hb, hd, hf, -, -⟩ := horner_spec a m x
  have hG : toC (divT (laguerEval a m x).2.1 (laguerEval a m x).1) =
      (derivative (cpoly a m)).eval (toC x) / (cpoly a m).eval (toC x) := by
    rw [divT_eq, hb, hd]
  unfold mdx laguerDx
  simp only [lt_iff]
  simp only [apply_ite toC, C14.abs_eq, toC_add, toC_sub, toC_mul, toC_mulR, toC_nmul, csqrt_spec,
    divT_eq, hb, hd, hf]
  have hS : (((derivative (cpoly a m)).eval (toC x) / (cpoly a m).eval (toC x)
        * ((derivative (cpoly a m)).eval (toC x) / (cpoly a m).eval (toC x))
        - ((2 : ℕ) : ℂ) * ((derivative^[2] (cpoly a m)).eval (toC x) / 2 / (cpoly a m).eval (toC x)))
        * ((Transc.ofNat m : ℝ) : ℂ)
        - (derivative (cpoly a m)).eval (toC x) / (cpoly a m).eval (toC x)
        * ((derivative (cpoly a m)).eval (toC x) / (cpoly a m).eval (toC x)))
        * ((Transc.ofNat (m - 1) : ℝ) : ℂ) =
      ((m - 1 : ℕ) : ℂ) * ((m : ℂ) * (((derivative (cpoly a m)).eval (toC x) / (cpoly a m).eval (toC x)) ^ 2
        - (derivative^[2] (cpoly a m)).eval (toC x) / (cpoly a m).eval (toC x))
        - ((derivative (cpoly a m)).eval (toC x) / (cpoly a m).eval (toC x)) ^ 2) := by
    rw [ofNat_eq, ofNat_eq]
    push_cast; ring
  rw [hS]
  have hm : toC (⟨Transc.ofNat m, 0⟩ : Cx ℝ) = (m : ℂ) := by
    apply Complex.ext <;> simp [toC, Transc.ofNat]
  have hpol : toC (polar (1 + ‖toC x‖) (Transc.ofNat iter)) =
      ((1 + ‖toC x‖ : ℝ) : ℂ) * Complex.exp (((iter : ℝ) : ℂ) * Complex.I) := by
    rw [← toC_polar_form]; rfl
  rw [hm, hpol]
  rfl

/-- the error bound accumulated by the Horner loop: `Σ_{k ≤ m} |P_k(x)| |x|^k`, `P_k = divX^[k] P` -/
noncomputable def hornerErr (P : ℂ[X]) (m : ℕ) (x : ℂ) : ℝ :=
  ∑ k ∈ Finset.range (m + 1), ‖(divX^[k] P).eval x‖ * ‖x‖ ^ k

theorem hornerErr_nonneg (P : ℂ[X]) (m : ℕ) (x : ℂ) : 0 ≤ hornerErr P m x :=
  Finset.sum_nonneg (fun k _ => mul_nonneg (norm_nonneg _) (pow_nonneg (norm_nonneg _) _))

/-- the `k = 0` term: `|P(x)| ≤ err` -/
theorem norm_eval_le_hornerErr (P : ℂ[X]) (m : ℕ) (x : ℂ) : ‖P.eval x‖ ≤ hornerErr P m x := by
  unfold hornerErr
  rw [Finset.sum_range_succ']
  have : 0 ≤ ∑ k ∈ Finset.range m, ‖(divX^[k + 1] P).eval x‖ * ‖x‖ ^ (k + 1) :=
    Finset.sum_nonneg (fun k _ => mul_nonneg (norm_nonneg _) (pow_nonneg (norm_nonneg _) _))
  simp only [Function.iterate_zero, id_eq, pow_zero, mul_one]
  linarith

theorem shift_sum_le (g : ℕ → ℝ) (N k : ℕ) (hg : ∀ j, 0 ≤ g j) (hz : ∀ j, N ≤ j → g j = 0) :
    ∑ i ∈ Finset.range N, g (i + k) ≤ ∑ j ∈ Finset.range N, g j := by
  have e1 := Finset.sum_range_add g k N
  have e2 := Finset.sum_range_add g N k
  have hzero : ∑ i ∈ Finset.range k, g (N + i) = 0 :=
    Finset.sum_eq_zero (fun i _ => hz _ (by omega))
  have hnn : 0 ≤ ∑ j ∈ Finset.range k, g j := Finset.sum_nonneg (fun j _ => hg j)
  have : ∑ i ∈ Finset.range N, g (i + k) = ∑ i ∈ Finset.range N, g (k + i) :=
    Finset.sum_congr rfl (fun i _ => by rw [add_comm])
  rw [Nat.add_comm] at e1
  linarith

/-- each term of the accumulator is bounded by `Σ_i |a_i| |x|^i` -/
theorem hornerTerm_le (a : Array (Cx ℝ)) (m k : ℕ) (x : ℂ) :
    ‖(divX^[k] (cpoly a m)).eval x‖ * ‖x‖ ^ k ≤ ∑ i ∈ Finset.range (m + 1), ‖cf a i‖ * ‖x‖ ^ i := by
  have hdeg : (divX^[k] (cpoly a m)).natDegree < m + 1 := by
    apply Nat.lt_succ_of_le
    rw [natDegree_le_iff_coeff_eq_zero]
    intro N hN
    rw [coeff_iterate_divX, coeff_cpoly, if_neg (by omega)]
  rw [eval_eq_sum_range' hdeg]
  simp only [coeff_iterate_divX]
  calc ‖∑ i ∈ Finset.range (m + 1), (cpoly a m).coeff (i + k) * x ^ i‖ * ‖x‖ ^ k
      ≤ (∑ i ∈ Finset.range (m + 1), ‖(cpoly a m).coeff (i + k)‖ * ‖x‖ ^ i) * ‖x‖ ^ k := by
        apply mul_le_mul_of_nonneg_right _ (pow_nonneg (norm_nonneg _) _)
        refine (norm_sum_le _ _).trans (Finset.sum_le_sum (fun i _ => ?_))
        rw [norm_mul, norm_pow]
    _ = ∑ i ∈ Finset.range (m + 1), ‖(cpoly a m).coeff (i + k)‖ * ‖x‖ ^ (i + k) := by
        rw [Finset.sum_mul]
        exact Finset.sum_congr rfl (fun i _ => by ring)
    _ ≤ ∑ j ∈ Finset.range (m + 1), ‖(cpoly a m).coeff j‖ * ‖x‖ ^ j :=
        shift_sum_le (fun j => ‖(cpoly a m).coeff j‖ * ‖x‖ ^ j) (m + 1) k
          (fun j => mul_nonneg (norm_nonneg _) (pow_nonneg (norm_nonneg _) _))
          (fun j hj => by rw [coeff_cpoly, if_neg (by omega)]; simp)
    _ = ∑ i ∈ Finset.range (m + 1), ‖cf a i‖ * ‖x‖ ^ i :=
        Finset.sum_congr rfl (fun i hi => by
          rw [coeff_cpoly, if_pos (by have := Finset.mem_range.mp hi; omega)])

/-- hence `err ≤ (m+1) · Σ_i |a_i| |x|^i`: the stopping threshold `eps·err` is a (crude) multiple of
    the classical rounding-error bound of Horner's rule -/
theorem hornerErr_le (a : Array (Cx ℝ)) (m : ℕ) (x : ℂ) :
    hornerErr (cpoly a m) m x ≤ ((m : ℝ) + 1) * ∑ i ∈ Finset.range (m + 1), ‖cf a i‖ * ‖x‖ ^ i := by
  unfold hornerErr
  refine (Finset.sum_le_sum (fun k _ => hornerTerm_le a m k x)).trans ?_
  simp

theorem laguerEval_err (a : Array (Cx ℝ)) (m : ℕ) (x : Cx ℝ) :
    (laguerEval a m x).2.2.2 = hornerErr (cpoly a m) m (toC x) := (horner_spec a m x).2.2.2.1

theorem eps_eq : (Transc.eps : ℝ) = 2 ^ (-52 : ℤ) := rfl

/-- **`laguerStep` in closed form** (real interpretation, through `toC`).  With `P = Σ_{i≤m} a[i] X^i`:
    the step stops (`none`) iff `|P(x)| ≤ 2⁻⁵²·Σ_k |P_k(x)||x|^k` or the correction `dx` is exactly
    zero; otherwise the new iterate is `x − dx·φ` with `dx = laguerDx P m iter x`
    (`= m / (G ± √((m−1)(m H − G²)))`) and `φ = stepFrac iter` (`1` unless `10 ∣ iter`).
    The non-finiteness test never fires over ℝ. -/
theorem laguerStep_formula (a : Array (Cx ℝ)) (m iter : ℕ) (x : Cx ℝ) :
    (laguerStep a m iter x).map toC =
      if ‖(cpoly a m).eval (toC x)‖ ≤ hornerErr (cpoly a m) m (toC x) * 2 ^ (-52 : ℤ) then none
      else if laguerDx (cpoly a m) m iter (toC x) = 0 then none
      else some (toC x - laguerDx (cpoly a m) m iter (toC x) * ((stepFrac iter : ℝ) : ℂ)) := by
  rw [laguerStep_eq]
  simp only [le_iff, beq_iff, isFinite_real, Bool.and_self, Bool.not_true, Bool.false_eq_true,
    if_false, C14.abs_eq, (horner_spec a m x).1, laguerEval_err, eps_eq, toC_sub, toC_mdx]
  have hx : (toC x = toC x - laguerDx (cpoly a m) m iter (toC x)) ↔
      laguerDx (cpoly a m) m iter (toC x) = 0 := by
    constructor
    · intro h; linear_combination h
    · intro h; rw [h]; ring
  simp only [hx]
  split
  · rfl
  split
  · rfl
  unfold stepFrac
  by_cases hi : iter % 10 = 0
  · simp [hi, toC_sub, toC_mulR, toC_mdx]
  · simp [hi, toC_sub, toC_mdx]

/-- if the step does not stop, the new iterate is `x − dx·φ` -/
theorem laguerStep_some (a : Array (Cx ℝ)) (m iter : ℕ) (x y : Cx ℝ)
    (h : laguerStep a m iter x = some y) :
    toC y = toC x - laguerDx (cpoly a m) m iter (toC x) * ((stepFrac iter : ℝ) : ℂ) ∧
    hornerErr (cpoly a m) m (toC x) * 2 ^ (-52 : ℤ) < ‖(cpoly a m).eval (toC x)‖ ∧
    (cpoly a m).eval (toC x) ≠ 0 ∧ laguerDx (cpoly a m) m iter (toC x) ≠ 0 := by
  have hf := laguerStep_formula a m iter x
  rw [h] at hf
  simp only [Option.map_some] at hf
  split at hf
  · simp at hf
  rename_i h1
  split at hf
  · simp at hf
  rename_i h2
  have h1' := not_le.mp h1
  refine ⟨Option.some.inj hf, h1', ?_, h2⟩
  intro h0
  rw [h0, norm_zero] at h1'
  have := hornerErr_nonneg (cpoly a m) m (toC x)
  have : 0 ≤ hornerErr (cpoly a m) m (toC x) * 2 ^ (-52 : ℤ) := mul_nonneg this (by positivity)
  linarith

/-- the step stops exactly when the first test holds or the correction vanishes -/
theorem laguerStep_none_iff (a : Array (Cx ℝ)) (m iter : ℕ) (x : Cx ℝ) :
    laguerStep a m iter x = none ↔
      (‖(cpoly a m).eval (toC x)‖ ≤ hornerErr (cpoly a m) m (toC x) * 2 ^ (-52 : ℤ) ∨
        laguerDx (cpoly a m) m iter (toC x) = 0) := by
  have hf := laguerStep_formula a m iter x
  constructor
  · intro h
    rw [h] at hf
    by_contra hc
    rw [if_neg (not_or.mp hc).1, if_neg (not_or.mp hc).2] at hf
    simp at hf
  · intro h
    cases hs : laguerStep a m iter x with
    | none => rfl
    | some y =>
      obtain ⟨-, h1, -, h2⟩ := laguerStep_some a m iter x y hs
      rcases h with h | h
      · exact absurd h (not_le.mpr h1)
      · exact absurd h h2

/-! ### a polynomial whose zeros are all equal -/

theorem multRoot_evals (c r x : ℂ) (k : ℕ) :
    (C c * (X - C r) ^ (k + 1)).eval x = c * (x - r) ^ (k + 1) ∧
    (derivative (C c * (X - C r) ^ (k + 1))).eval x * (x - r) =
      ((k : ℂ) + 1) * (c * (x - r) ^ (k + 1)) ∧
    (derivative^[2] (C c * (X - C r) ^ (k + 1))).eval x * (x - r) ^ 2 =
      ((k : ℂ) + 1) * k * (c * (x - r) ^ (k + 1)) := by
  refine ⟨by simp, ?_, ?_⟩
  · simp [derivative_X_sub_C_pow]; ring
  · cases k with
    | zero => simp
    | succ j => simp [derivative_X_sub_C_pow]; ring

/-- for `P = c (X − r)^m` (`m ≥ 1`, `c ≠ 0`) Laguerre's correction from any `x` with `P(x) ≠ 0` is
    exactly `x − r`: the square root vanishes and `dx = m / G = x − r` -/
theorem laguerDx_multiple_root (c r x : ℂ) (m iter : ℕ) (hm : 1 ≤ m) (hc : c ≠ 0)
    (hx : (C c * (X - C r) ^ m).eval x ≠ 0) :
    laguerDx (C c * (X - C r) ^ m) m iter x = x - r := by
  obtain ⟨k, rfl⟩ : ∃ k, m = k + 1 := ⟨m - 1, by omega⟩
  obtain ⟨h0, h1, h2⟩ := multRoot_evals c r x k
  have hu : x - r ≠ 0 := by
    intro hu; apply hx; rw [h0, hu]; simp
  have hP : c * (x - r) ^ (k + 1) ≠ 0 := h0 ▸ hx
  have hG : (derivative (C c * (X - C r) ^ (k + 1))).eval x / (C c * (X - C r) ^ (k + 1)).eval x
      = ((k : ℂ) + 1) / (x - r) := by
    rw [h0, div_eq_div_iff hP hu, h1]
  have hH : (derivative^[2] (C c * (X - C r) ^ (k + 1))).eval x / (C c * (X - C r) ^ (k + 1)).eval x
      = ((k : ℂ) + 1) * k / (x - r) ^ 2 := by
    rw [h0, div_eq_div_iff hP (pow_ne_zero 2 hu), h2]
  have hk1 : ((k : ℂ) + 1) ≠ 0 := by exact_mod_cast Nat.succ_ne_zero k
  have hG0 : ((k : ℂ) + 1) / (x - r) ≠ 0 := div_ne_zero hk1 hu
  unfold laguerDx
  simp only [hG, hH]
  have hS : (((k + 1 - 1 : ℕ) : ℂ) * (((k + 1 : ℕ) : ℂ) * ((((k : ℂ) + 1) / (x - r)) ^ 2
      - ((k : ℂ) + 1) * k / (x - r) ^ 2) - (((k : ℂ) + 1) / (x - r)) ^ 2)) = 0 := by
    push_cast; field_simp; ring
  rw [hS, Complex.zero_cpow (by norm_num), add_zero, sub_zero, max_self, if_neg (lt_irrefl _),
    if_pos (norm_pos_iff.mpr hG0)]
  push_cast
  field_simp

/-- **One Laguerre step on a polynomial with a single (multiple) zero.**  If the coefficient array
    denotes `c (X − r)^m` (`m ≥ 1`, `c ≠ 0`) and the step from `x` does not stop, the new iterate is
    `x − (x − r)·φ`, `φ = stepFrac iter`; in particular (`φ = 1` unless `10 ∣ iter`) it is `r` exactly. -/
theorem laguer_one_step_multiple_root_frac (a : Array (Cx ℝ)) (m iter : ℕ) (x y : Cx ℝ) (c r : ℂ)
    (hm : 1 ≤ m) (hc : c ≠ 0) (hP : cpoly a m = C c * (X - C r) ^ m)
    (h : laguerStep a m iter x = some y) :
    toC y = toC x - (toC x - r) * ((stepFrac iter : ℝ) : ℂ) := by
  obtain ⟨hy, -, hx, -⟩ := laguerStep_some a m iter x y h
  rw [hy, hP, laguerDx_multiple_root c r (toC x) m iter hm hc (hP ▸ hx)]

theorem laguer_one_step_multiple_root (a : Array (Cx ℝ)) (m iter : ℕ) (x y : Cx ℝ) (c r : ℂ)
    (hm : 1 ≤ m) (hc : c ≠ 0) (hP : cpoly a m = C c * (X - C r) ^ m) (hi : iter % 10 ≠ 0)
    (h : laguerStep a m iter x = some y) : toC y = r := by
  rw [laguer_one_step_multiple_root_frac a m iter x y c r hm hc hP h]
  simp [stepFrac, hi]

/-! ## 3. an exact zero is a fixed point -/

/-- at an exact zero the first stopping test `|b| ≤ err·eps` holds (`b = 0 ≤ err·eps`) -/
theorem laguerStep_at_root (a : Array (Cx ℝ)) (m iter : ℕ) (x : Cx ℝ)
    (h : (cpoly a m).eval (toC x) = 0) : laguerStep a m iter x = none := by
  rw [laguerStep_none_iff]
  left
  rw [h, norm_zero]
  exact mul_nonneg (hornerErr_nonneg _ _ _) (by positivity)

theorem laguerLoop_some (a : Array (Cx ℝ)) (m fuel iter : ℕ) (x y : Cx ℝ)
    (h : laguerStep a m iter x = some y) :
    laguerLoop a m (fuel + 1) iter x = laguerLoop a m fuel (iter + 1) y := by
  simp [laguerLoop, h]

theorem laguerLoop_at_root (a : Array (Cx ℝ)) (m fuel iter : ℕ) (x : Cx ℝ)
    (h : (cpoly a m).eval (toC x) = 0) : laguerLoop a m fuel iter x = x := by
  cases fuel with
  | zero => rfl
  | succ f => simp [laguerLoop, laguerStep_at_root a m iter x h]

/-- **`laguer` returns an exact zero unchanged**, immediately (no update is performed) -/
theorem laguer_at_root (a : Array (Cx ℝ)) (x : Cx ℝ)
    (h : (cpoly a (a.size - 1)).eval (toC x) = 0) : laguer a x = x :=
  laguerLoop_at_root a _ _ _ x h

theorem laguer_at_root_steps (a : Array (Cx ℝ)) (x : Cx ℝ)
    (h : (cpoly a (a.size - 1)).eval (toC x) = 0) : laguerSteps a (a.size - 1) 79 1 x = 0 := by
  simp [laguerSteps, laguerStep_at_root a _ 1 x h]

/-- polishing (`refine = true`) never moves exact zeros -/
theorem polish_at_roots (coeffs : Array (Cx ℝ)) (rs : Array (Cx ℝ))
    (h : ∀ r ∈ rs, (cpoly coeffs (coeffs.size - 1)).eval (toC r) = 0) :
    rs.map (fun r => laguer coeffs r) = rs := by
  apply Array.ext (by simp)
  intro i h1 h2
  rw [Array.getElem_map]
  exact laguer_at_root coeffs _ (h _ (Array.getElem_mem h2))

/-! ## 4. forward deflation = synthetic division -/

/-- the loop body of `deflate` -/
noncomputable def deflStep (x : Cx ℝ) (st : Array (Cx ℝ) × Cx ℝ) (jj : ℕ) : Array (Cx ℝ) × Cx ℝ :=
  (st.1.setIfInBounds jj st.2, x * st.2 + st.1[jj]?.getD 0)

theorem deflate_eq (ad : Array (Cx ℝ)) (j : ℕ) (x : Cx ℝ) :
    deflate ad j x = ((List.range (j + 1)).reverse.foldl (deflStep x) (ad, ad[j + 1]?.getD 0)).1 := rfl

theorem lowPart_succ (a : Array (Cx ℝ)) (n : ℕ) :
    lowPart a (n + 1) = lowPart a n + C (cf a n) * X ^ n := by
  rw [lowPart, Finset.sum_range_succ, ← lowPart]

theorem lowPart_congr (a b : Array (Cx ℝ)) (n : ℕ) (h : ∀ i, i < n → cf a i = cf b i) :
    lowPart a n = lowPart b n := by
  unfold lowPart
  exact Finset.sum_congr rfl (fun i hi => by rw [h i (Finset.mem_range.mp hi)])

theorem deflFold (x : Cx ℝ) (n : ℕ) :
    ∀ (arr : Array (Cx ℝ)) (b : Cx ℝ), n ≤ arr.size →
      let r := (List.range n).reverse.foldl (deflStep x) (arr, b)
      r.1.size = arr.size ∧ (∀ i, n ≤ i → cf r.1 i = cf arr i) ∧
      lowPart arr n + C (toC b) * X ^ n = (X - C (toC x)) * lowPart r.1 n + C (toC r.2) := by
  induction n with
  | zero =>
    intro arr b _
    simp [lowPart]
  | succ n ih =>
    intro arr b hn
    rw [List.range_succ, List.reverse_append, List.reverse_singleton, List.singleton_append,
      List.foldl_cons]
    have hs : (deflStep x (arr, b) n).1.size = arr.size := by simp [deflStep]
    have hget : ∀ i, i ≠ n → cf (deflStep x (arr, b) n).1 i = cf arr i := by
      intro i hi
      simp only [cf, deflStep, Array.getElem?_setIfInBounds]
      rw [if_neg (Ne.symm hi)]
    have hgetn : cf (deflStep x (arr, b) n).1 n = toC b := by
      have : n < arr.size := hn
      simp [cf, deflStep, this]
    obtain ⟨h1, h2, h3⟩ := ih (deflStep x (arr, b) n).1 (deflStep x (arr, b) n).2 (by rw [hs]; omega)
    simp only [Prod.mk.eta] at h1 h2 h3
    refine ⟨h1.trans hs, fun i hi => ?_, ?_⟩
    · rw [h2 i (by omega), hget i (by omega)]
    · have hrn := (h2 n le_rfl).trans hgetn
      have hlow := lowPart_congr _ arr n (fun i hi => hget i (by omega))
      have hb2 : toC (deflStep x (arr, b) n).2 = toC x * toC b + cf arr n := by
        simp [deflStep, toC_add, toC_mul, cf]
      rw [hlow, hb2] at h3
      rw [lowPart_succ, lowPart_succ, hrn]
      simp only [map_add, map_mul] at h3
      linear_combination h3

/-- **`deflate` is synthetic division by `X − r`.**  If `ad[0..=j+1]` holds the coefficients of
    `p` (degree `j+1`), then after `deflate ad j r` the entries `0..=j` hold the coefficients of the
    quotient `q` with `p = (X − r) q + p(r)`, i.e. `q = p /ₘ (X − r)`; the array keeps its size, the
    entries above `j` are untouched and the new `ad[j]` is the old leading coefficient `ad[j+1]`. -/
theorem deflate_spec (ad : Array (Cx ℝ)) (j : ℕ) (r : Cx ℝ) (hj : j + 2 ≤ ad.size) :
    cpoly ad (j + 1) = (X - C (toC r)) * cpoly (deflate ad j r) j
      + C ((cpoly ad (j + 1)).eval (toC r)) ∧
    cpoly (deflate ad j r) j = cpoly ad (j + 1) /ₘ (X - C (toC r)) ∧
    (deflate ad j r).size = ad.size ∧
    (∀ i, j + 1 ≤ i → cf (deflate ad j r) i = cf ad i) ∧
    cf (deflate ad j r) j = cf ad (j + 1) := by
  obtain ⟨h1, h2, h3⟩ := deflFold r (j + 1) ad (ad[j + 1]?.getD 0) (by omega)
  simp only [← deflate_eq] at h1 h2
  have hp : cpoly ad (j + 1) = lowPart ad (j + 1) + C (cf ad (j + 1)) * X ^ (j + 1) := by
    rw [cpoly, Finset.sum_range_succ, lowPart]
  have hq : cpoly (deflate ad j r) j = lowPart (deflate ad j r) (j + 1) := rfl
  have h3' : cpoly ad (j + 1) = (X - C (toC r)) * cpoly (deflate ad j r) j
      + C (toC ((List.range (j + 1)).reverse.foldl (deflStep r) (ad, ad[j + 1]?.getD 0)).2) := by
    rw [hp, hq, deflate_eq]; exact h3
  have hev : (cpoly ad (j + 1)).eval (toC r)
      = toC ((List.range (j + 1)).reverse.foldl (deflStep r) (ad, ad[j + 1]?.getD 0)).2 := by
    conv_lhs => rw [h3']
    simp
  have hmain : cpoly ad (j + 1) = (X - C (toC r)) * cpoly (deflate ad j r) j
      + C ((cpoly ad (j + 1)).eval (toC r)) := by rw [hev]; exact h3'
  refine ⟨hmain, ?_, h1, h2, ?_⟩
  · refine ((div_modByMonic_unique (cpoly (deflate ad j r) j) (C ((cpoly ad (j + 1)).eval (toC r)))
      (monic_X_sub_C (toC r)) ⟨?_, ?_⟩).1).symm
    · rw [add_comm]; exact hmain.symm
    · rw [degree_X_sub_C]
      exact lt_of_le_of_lt degree_C_le (by norm_num)
  · -- compare the coefficients of `X^(j+1)`
    have := congrArg (fun p => p.coeff (j + 1)) hmain
    simp only [coeff_add, coeff_C_succ, add_zero, sub_mul, coeff_sub, coeff_X_mul, coeff_C_mul,
      coeff_cpoly, le_refl, if_true] at this
    rw [if_neg (by omega)] at this
    rw [this]; ring

/-- if `r` is an exact zero, `p = (X − r) q` -/
theorem deflate_spec_root (ad : Array (Cx ℝ)) (j : ℕ) (r : Cx ℝ) (hj : j + 2 ≤ ad.size)
    (hr : (cpoly ad (j + 1)).eval (toC r) = 0) :
    cpoly ad (j + 1) = (X - C (toC r)) * cpoly (deflate ad j r) j := by
  have := (deflate_spec ad j r hj).1
  rwa [hr, C_0, add_zero] at this

/-! ## 5. the deflation loop of `polySolve` (degree ≥ 4), conditionally on exact zeros -/

/-- the zero estimate used by stage `j` of the deflation loop on the work array `ad`: `laguer` from
    the start value `0` on the current deflated polynomial `ad[0..=j+1]`, then the snap to the real
    axis when `|Im x| ≤ 2 eps |Re x|` -/
noncomputable def stageRoot (ad : Array (Cx ℝ)) (j : ℕ) : Cx ℝ :=
  let x := laguer (ad.extract 0 (j + 2)) 0
  if Transc.le (Transc.fabs x.im) ((1 + 1) * Transc.eps * Transc.fabs x.re) then ⟨x.re, 0⟩ else x

/-- the body of the deflation loop -/
noncomputable def solveStep (st : Array (Cx ℝ) × Array (Cx ℝ)) (j : ℕ) :
    Array (Cx ℝ) × Array (Cx ℝ) :=
  (deflate st.1 j (stageRoot st.1 j), st.2.setIfInBounds j (stageRoot st.1 j))

/-- the loop as a fold of `solveStep` -/
theorem polySolve_high (coeffs : Array (Cx ℝ)) (refine : Bool) (h : 5 ≤ coeffs.size) :
    polySolve coeffs refine = .ok
      (let roots := ((List.range (coeffs.size - 1)).reverse.foldl solveStep
          (coeffs, Array.replicate (coeffs.size - 1) (0 : Cx ℝ))).2
       if refine then roots.map (fun r => laguer coeffs r) else roots) := by
  have h1 : 1 ≤ coeffs.size := by omega
  have hd0 : coeffs.size - 1 ≠ 0 := by omega
  have hd1 : coeffs.size - 1 ≠ 1 := by omega
  have hd2 : coeffs.size - 1 ≠ 2 := by omega
  have hd3 : coeffs.size - 1 ≠ 3 := by omega
  unfold polySolve usub
  simp only [h1, if_true, bind, Except.bind, hd0, hd1, hd2, hd3, if_false, pure, Except.pure]
  rfl

/-- "every Laguerre call of the deflation loop returns an exact zero of the current deflated
    polynomial": stage `n` (work array `ad`, polynomial `ad[0..=n+1]`) uses an exact zero, and so do
    the later stages `n−1, …, 0` on the deflated array -/
def ExactStages : ℕ → Array (Cx ℝ) → Prop
  | 0, _ => True
  | n + 1, ad => (cpoly ad (n + 1)).eval (toC (stageRoot ad n)) = 0 ∧
      ExactStages n (deflate ad n (stageRoot ad n))

theorem solveFold (n : ℕ) :
    ∀ (ad roots : Array (Cx ℝ)), n + 1 ≤ ad.size → n ≤ roots.size → ExactStages n ad →
      let r := (List.range n).reverse.foldl solveStep (ad, roots)
      cpoly ad n = C (cf ad n) * ∏ i ∈ Finset.range n, (X - C (cf r.2 i)) ∧
      r.2.size = roots.size ∧ (∀ i, n ≤ i → cf r.2 i = cf roots i) := by
  induction n with
  | zero =>
    intro ad roots _ _ _
    simp [cpoly_zero]
  | succ n ih =>
    intro ad roots had hroots hex
    obtain ⟨hroot, hrest⟩ := hex
    rw [List.range_succ, List.reverse_append, List.reverse_singleton, List.singleton_append,
      List.foldl_cons]
    obtain ⟨-, -, hsz, -, hlead⟩ := deflate_spec ad n (stageRoot ad n) (by omega)
    have hfac := deflate_spec_root ad n (stageRoot ad n) (by omega) hroot
    have hs2 : (solveStep (ad, roots) n).2.size = roots.size := by simp [solveStep]
    obtain ⟨h1, h2, h3⟩ := ih (solveStep (ad, roots) n).1 (solveStep (ad, roots) n).2
      (by show n + 1 ≤ (deflate ad n (stageRoot ad n)).size; rw [hsz]; omega)
      (by rw [hs2]; omega) hrest
    simp only [Prod.mk.eta] at h1 h2 h3
    have hn : cf (solveStep (ad, roots) n).2 n = toC (stageRoot ad n) := by
      have : n < roots.size := hroots
      simp [cf, solveStep, this]
    refine ⟨?_, h2.trans hs2, fun i hi => ?_⟩
    · rw [hfac, Finset.prod_range_succ, h3 n le_rfl, hn]
      have h1' : cpoly (deflate ad n (stageRoot ad n)) n =
          C (cf (deflate ad n (stageRoot ad n)) n) * _ := h1
      rw [h1', hlead]; ring
    · rw [h3 i (by omega)]
      simp only [cf, solveStep, Array.getElem?_setIfInBounds]
      rw [if_neg (by omega)]

/-- **The deflation loop, conditionally.**  For degree `n ≥ 4`: IF every Laguerre call in the
    deflation loop returns (after the snap to the real axis) an exact zero of the current deflated
    polynomial (`ExactStages`), THEN `polySolve` returns `n` values `z_0 … z_{n−1}` that are all the
    zeros of `p` with multiplicity: `p = lead · ∏ (X − z_k)`.  This holds with or without polishing
    (`refine`), since polishing does not move exact zeros (`laguer_at_root`).
    The hypothesis is precisely what neither floating-point arithmetic nor a finite number of
    Laguerre iterations can guarantee (in the real interpretation the iteration generically stops at
    an approximate zero, by the `|P(x)| ≤ eps·err` test or after 79 updates); nothing is claimed
    about the accuracy of the computed zeros or about the error propagated by deflation. -/
theorem polySolve_exact_roots (coeffs : Array (Cx ℝ)) (refine : Bool) (n : ℕ) (hn : 4 ≤ n)
    (hsize : coeffs.size = n + 1) (hex : ExactStages n coeffs) :
    ∃ rs, polySolve coeffs refine = .ok rs ∧ rs.size = n ∧
      cpoly coeffs n = C (cf coeffs n) * ∏ k ∈ Finset.range n, (X - C (cf rs k)) := by
  rw [polySolve_high coeffs refine (by omega)]
  have hn1 : coeffs.size - 1 = n := by omega
  rw [hn1]
  obtain ⟨h1, h2, -⟩ := solveFold n coeffs (Array.replicate n (0 : Cx ℝ)) (by omega) (by simp) hex
  simp only [Array.size_replicate] at h2
  generalize ((List.range n).reverse.foldl solveStep (coeffs, Array.replicate n (0 : Cx ℝ))).2 = R
    at h1 h2 ⊢
  have hpol : ∀ r ∈ R, (cpoly coeffs (coeffs.size - 1)).eval (toC r) = 0 := by
    intro r hr
    obtain ⟨i, hi, rfl⟩ := Array.mem_iff_getElem.mp hr
    rw [hn1, h1, eval_mul, eval_prod]
    have hi' : i < n := by omega
    have : ∏ j ∈ Finset.range n, eval (toC R[i]) (X - C (cf R j)) = 0 := by
      apply Finset.prod_eq_zero (Finset.mem_range.mpr hi')
      simp [cf, hi]
    rw [this, mul_zero]
  refine ⟨_, rfl, ?_, ?_⟩
  · cases refine <;> simp [h2]
  · cases refine
    · simpa using h1
    · simp only [if_true]
      rw [polish_at_roots coeffs _ hpol]
      exact h1

/-- under the same hypothesis the returned values are the multiset of zeros of `p` -/
theorem polySolve_exact_roots_multiset (coeffs : Array (Cx ℝ)) (refine : Bool) (n : ℕ) (hn : 4 ≤ n)
    (hsize : coeffs.size = n + 1) (hlead : cf coeffs n ≠ 0) (hex : ExactStages n coeffs) :
    ∃ rs, polySolve coeffs refine = .ok rs ∧
      (cpoly coeffs n).roots = (Multiset.range n).map (fun k => cf rs k) := by
  obtain ⟨rs, h1, -, h3⟩ := polySolve_exact_roots coeffs refine n hn hsize hex
  refine ⟨rs, h1, ?_⟩
  rw [h3, roots_C_mul _ hlead]
  have : ∏ k ∈ Finset.range n, (X - C (cf rs k))
      = (((Multiset.range n).map (fun k => cf rs k)).map (fun a => X - C a)).prod := by
    rw [Multiset.map_map]; rfl
  rw [this, roots_multiset_prod_X_sub_C]

/-! ## 6. non-vacuity: polynomials with a single multiple zero are solved exactly -/

theorem hornerErr_at_zero (P : ℂ[X]) (m : ℕ) : hornerErr P m 0 = ‖P.eval 0‖ := by
  unfold hornerErr
  rw [Finset.sum_range_succ']
  simp

/-- from `x = 0` the error accumulator is just `|P(0)|`, so on `c (X − r)^m` with `r ≠ 0` the step
    does not stop: the hypothesis of `laguer_one_step_multiple_root` is satisfiable -/
theorem laguerStep_from_zero_ne_none (a : Array (Cx ℝ)) (m iter : ℕ) (c r : ℂ)
    (hm : 1 ≤ m) (hc : c ≠ 0) (hr : r ≠ 0) (hP : cpoly a m = C c * (X - C r) ^ m) :
    laguerStep a m iter 0 ≠ none := by
  have hP0 : (cpoly a m).eval (toC 0) ≠ 0 := by
    rw [hP, toC_zero]; simp [hc, hr]
  intro hs
  rcases (laguerStep_none_iff a m iter 0).mp hs with h | h
  · rw [toC_zero, hornerErr_at_zero] at h
    rw [toC_zero] at hP0
    have hpos : 0 < ‖(cpoly a m).eval 0‖ := norm_pos_iff.mpr hP0
    have : (2 : ℝ) ^ (-52 : ℤ) < 1 := by norm_num
    nlinarith
  · rw [hP, laguerDx_multiple_root c r (toC 0) m iter hm hc (hP ▸ hP0), toC_zero] at h
    exact hr (by linear_combination -h)

/-- on `c (X − r)^m` (`m ≥ 1`, `c ≠ 0`), `laguer` started from `0` (as `polySolve` does) returns `r`
    exactly: immediately if `r = 0`, after one update otherwise -/
theorem laguer_multiple_root_from_zero (a : Array (Cx ℝ)) (m : ℕ) (c r : ℂ) (hsize : a.size = m + 1)
    (hm : 1 ≤ m) (hc : c ≠ 0) (hP : cpoly a m = C c * (X - C r) ^ m) : toC (laguer a 0) = r := by
  have hm1 : a.size - 1 = m := by omega
  by_cases hr : r = 0
  · rw [laguer_at_root a 0 (by rw [hm1, hP, toC_zero, hr]; simp; omega), toC_zero, hr]
  · cases hs : laguerStep a m 1 0 with
    | none => exact absurd hs (laguerStep_from_zero_ne_none a m 1 c r hm hc hr hP)
    | some y =>
      have hy : toC y = r :=
        laguer_one_step_multiple_root a m 1 0 y c r hm hc hP (by norm_num) hs
      have : laguer a 0 = y := by
        show laguerLoop a (a.size - 1) (78 + 1) 1 0 = y
        rw [hm1, laguerLoop_some a m 78 1 0 y hs]
        exact laguerLoop_at_root a m _ _ y (by rw [hP, hy]; simp; omega)
      rw [this, hy]

theorem cf_extract (ad : Array (Cx ℝ)) (n i : ℕ) (hi : i < n) : cf (ad.extract 0 n) i = cf ad i := by
  simp only [cf, Array.getElem?_extract]
  by_cases h : i < ad.size
  · simp [hi, h]
  · simp [hi, h]

theorem cpoly_extract (ad : Array (Cx ℝ)) (j : ℕ) : cpoly (ad.extract 0 (j + 2)) (j + 1) = cpoly ad (j + 1) := by
  unfold cpoly
  exact Finset.sum_congr rfl (fun i hi => by
    rw [cf_extract ad (j + 2) i (by have := Finset.mem_range.mp hi; omega)])

/-- the stage zero of `c (X − r)^(j+1)`, when the snap to the real axis does not alter `r`
    (`Im r = 0`, or `|Im r| > 2 eps |Re r|`) -/
theorem stageRoot_multiple_root (ad : Array (Cx ℝ)) (j : ℕ) (c : ℂ) (r : Cx ℝ) (hj : j + 2 ≤ ad.size)
    (hc : c ≠ 0) (hP : cpoly ad (j + 1) = C c * (X - C (toC r)) ^ (j + 1))
    (hsnap : r.im = 0 ∨ 2 * 2 ^ (-52 : ℤ) * |r.re| < |r.im|) : stageRoot ad j = r := by
  have hl : laguer (ad.extract 0 (j + 2)) 0 = r := by
    rw [← toC_inj]
    exact laguer_multiple_root_from_zero _ (j + 1) c (toC r) (by simp; omega) (by omega) hc
      (by rw [cpoly_extract, hP])
  unfold stageRoot
  rw [hl]
  simp only [le_iff]
  split
  · rename_i h
    rcases hsnap with h0 | h0
    · cases r; simp_all
    · exfalso
      have h' : |r.im| ≤ (1 + 1) * 2 ^ (-52 : ℤ) * |r.re| := h
      linarith
  · rfl

theorem exactStages_multiple_root (c : ℂ) (r : Cx ℝ) (hc : c ≠ 0)
    (hsnap : r.im = 0 ∨ 2 * 2 ^ (-52 : ℤ) * |r.re| < |r.im|) (n : ℕ) :
    ∀ ad : Array (Cx ℝ), n + 1 ≤ ad.size → cpoly ad n = C c * (X - C (toC r)) ^ n →
      ExactStages n ad := by
  induction n with
  | zero => intro _ _ _; trivial
  | succ n ih =>
    intro ad had hP
    have hroot := stageRoot_multiple_root ad n c r (by omega) hc hP hsnap
    have hzero : (cpoly ad (n + 1)).eval (toC r) = 0 := by rw [hP]; simp
    refine ⟨by rw [hroot]; exact hzero, ?_⟩
    rw [hroot]
    apply ih
    · rw [(deflate_spec ad n r (by omega)).2.2.1]; omega
    · have h := deflate_spec_root ad n r (by omega) hzero
      rw [hP, pow_succ, ← mul_assoc, mul_comm] at h
      exact (mul_left_cancel₀ (X_sub_C_ne_zero (toC r)) h).symm

/-- **Unconditional instance of `polySolve_exact_roots`.**  For `p = c (X − r)^n`, `n ≥ 4`, `c ≠ 0`,
    `r` real or with `|Im r| > 2 eps |Re r|`, the hypothesis `ExactStages` holds and (real
    interpretation) `polySolve` returns `r` exactly, `n` times. -/
theorem polySolve_multiple_root (coeffs : Array (Cx ℝ)) (refine : Bool) (n : ℕ) (c : ℂ) (r : Cx ℝ)
    (hn : 4 ≤ n) (hsize : coeffs.size = n + 1) (hc : c ≠ 0)
    (hP : cpoly coeffs n = C c * (X - C (toC r)) ^ n)
    (hsnap : r.im = 0 ∨ 2 * 2 ^ (-52 : ℤ) * |r.re| < |r.im|) :
    ∃ rs, polySolve coeffs refine = .ok rs ∧ rs.size = n ∧ ∀ k, k < n → rs[k]?.getD 0 = r := by
  have hex := exactStages_multiple_root c r hc hsnap n coeffs (by omega) hP
  obtain ⟨rs, h1, h2, h3⟩ := polySolve_exact_roots coeffs refine n hn hsize hex
  refine ⟨rs, h1, h2, fun k hk => ?_⟩
  rw [← toC_inj]
  have hev := congrArg (fun p => p.eval (cf rs k)) h3
  simp only [hP, eval_mul, eval_C, eval_pow, eval_sub, eval_X, eval_prod] at hev
  rw [Finset.prod_eq_zero (Finset.mem_range.mpr hk) (sub_self _), mul_zero] at hev
  rcases mul_eq_zero.mp hev with h | h
  · exact absurd h hc
  · exact sub_eq_zero.mp (pow_eq_zero_iff (by omega) |>.mp h)

/-! ### concrete instances -/

/-- `(X − 1)⁴ = 1 − 4X + 6X² − 4X³ + X⁴` as a coefficient array -/
noncomputable def exArr : Array (Cx ℝ) := #[⟨1, 0⟩, ⟨-4, 0⟩, ⟨6, 0⟩, ⟨-4, 0⟩, ⟨1, 0⟩]

theorem exArr_poly : cpoly exArr 4 = C 1 * (X - C (toC ⟨1, 0⟩)) ^ 4 := by
  have h1 : toC (⟨1, 0⟩ : Cx ℝ) = 1 := by apply Complex.ext <;> simp [toC]
  have h4 : toC (⟨-4, 0⟩ : Cx ℝ) = -4 := by apply Complex.ext <;> simp [toC]
  have h6 : toC (⟨6, 0⟩ : Cx ℝ) = 6 := by apply Complex.ext <;> simp [toC]
  simp only [cpoly, Finset.sum_range_succ, Finset.range_zero, Finset.sum_empty, cf, exArr]
  have c4 : (C (4 : ℂ) : ℂ[X]) = 4 := map_ofNat C 4
  have c6 : (C (6 : ℂ) : ℂ[X]) = 6 := map_ofNat C 6
  simp [h1, h4, h6, c4, c6]
  ring

/-- non-vacuity of `polySolve_exact_roots` / `polySolve_multiple_root`: degree 4, `(X − 1)⁴`;
    in the real interpretation the model returns `[1, 1, 1, 1]` -/
example : ExactStages 4 exArr ∧
    ∃ rs, polySolve exArr false = .ok rs ∧ rs.size = 4 ∧ ∀ k, k < 4 → rs[k]?.getD 0 = ⟨1, 0⟩ :=
  ⟨exactStages_multiple_root 1 ⟨1, 0⟩ one_ne_zero (Or.inl rfl) 4 exArr (by simp [exArr]) exArr_poly,
    polySolve_multiple_root exArr false 4 1 ⟨1, 0⟩ le_rfl rfl one_ne_zero exArr_poly (Or.inl rfl)⟩

/-- non-vacuity of `laguerStep_some` / `laguer_one_step_multiple_root`: a step that does not stop,
    and lands on the zero -/
example : ∃ y, laguerStep exArr 4 1 0 = some y ∧ toC y = 1 := by
  have h1 : toC (⟨1, 0⟩ : Cx ℝ) = 1 := by apply Complex.ext <;> simp [toC]
  have hP := exArr_poly
  rw [h1] at hP
  obtain ⟨y, hy⟩ := Option.ne_none_iff_exists'.mp
    (laguerStep_from_zero_ne_none exArr 4 1 1 1 (by norm_num) one_ne_zero one_ne_zero hP)
  exact ⟨y, hy, laguer_one_step_multiple_root exArr 4 1 0 y 1 1 (by norm_num) one_ne_zero hP
    (by norm_num) hy⟩

/-- non-vacuity of `deflate_spec_root`: deflating `(X − 1)⁴` by its zero `1` -/
example : cpoly exArr 4 = (X - C 1) * cpoly (deflate exArr 3 ⟨1, 0⟩) 3 := by
  have h1 : toC (⟨1, 0⟩ : Cx ℝ) = 1 := by apply Complex.ext <;> simp [toC]
  have := deflate_spec_root exArr 3 ⟨1, 0⟩ (by simp [exArr]) (by rw [exArr_poly]; simp)
  rwa [h1] at this

end Ohsl.Props.C10
