/-
  Property C16 (part S) — thread SCHEDULING of `Vector<f64>::dot_f64` (src/vector/vec_f64.rs:73-108)
  as a theorem about an explicit interleaving semantics (model of the outcome: Ohsl/Model/Dot.lean).

  What is modelled
  ----------------
  `std::thread::scope` spawns one worker per chunk `k < w` (`w = num_cpus::get()`); worker `k` owns a
  LOCAL accumulator `result` and a loop index, and runs
      `for i in 0..slice.len() { result += self_slice[i] * w_slice[i] }`
  over its own slice `start_k .. end_k`.  The machine below is the small-step interleaving semantics
  of that scope:

  * state `s : ℕ → ℕ × K`; component `s k = (pos_k, acc_k)` is the private state of worker `k`
    (`pos_k` = next ABSOLUTE index `start_k ≤ pos_k ≤ end_k` of its chunk, `acc_k` = its accumulator);
    initially `(start_k, 0)` (`Sched.init`);
  * one step of worker `k` (`Sched.step`, local effect `Sched.lstep`): if `k < w` and `pos_k < end_k`
    then `acc_k := acc_k + a[pos_k] * b[pos_k]`, `pos_k := pos_k + 1`; every other component is left
    untouched (`Sched.step_other`);
  * a SCHEDULE is ANY list of worker ids, executed left to right (`Sched.run`).  Convention chosen:
    picking a worker that is not enabled (finished, or an id `≥ w`) is a NO-OP (the step function is
    total).  `Sched.Strict` singles out the schedules in which no pick is disabled (the other
    convention: disabled picks excluded); everything proved for all schedules holds for those;
  * a schedule is COMPLETE (`Sched.Complete`) if afterwards no worker is enabled, i.e. every worker
    has run to the end of its chunk — the condition under which `scope`/`join` return.
  * the parent's reduction `for thread in threads { result += thread.join().unwrap() }` is
    `Sched.join`: the left fold from `0`, in spawn order `k = 0, …, w-1`, of the `acc_k`.

  Everything is class (S): an arbitrary type `K` with arbitrary `+`, `*`, `0` — NO associativity,
  commutativity or unit law is used, so the statements hold verbatim of IEEE `f64` arithmetic.
  The machine is generic in the chunk bounds `bnd : ℕ → ℕ × ℕ` and the summands `p : ℕ → K`; the
  instance for the dot product is `bnd = Dot.chunk a.size w`, `p = Sched.dotTerm a b`
  (`= a[j] * b[j]`, see `Sched.dotTerm_eq_getElem`: every read of an enabled step is in bounds).

  Proved
  ------
  * `Sched.step_comm`, `Sched.diamond`   steps of different workers commute (they act on different
                           components); enabledness of one is not affected by the other.
  * `Sched.run_perm`       hence the state after a schedule depends only on the multiset of picks.
  * `Sched.run_component`  projection: component `k` after ANY schedule is the `count k sched`-fold
                           iterate of worker `k`'s own (deterministic, totally ordered) local step.
  * `prefix_safe`          invariant at ANY point of ANY (possibly incomplete) schedule:
                           `start_k ≤ pos_k ≤ end_k` and `acc_k` is the left fold from `0` of the
                           first `pos_k - start_k` products of chunk `k`.
  * `schedule_independent` every complete schedule ends in the SAME state `Sched.final`:
                           `(end_k, chunkSum_k)` for `k < w` (`schedule_independent_pair`: any two
                           complete schedules end in equal states).
  * `joined_eq_dotThreaded` joining in spawn order after ANY complete schedule gives exactly the
                           value of the model `Dot.dotThreaded` — so every theorem of C16 / C16D /
                           C16F about `dotThreaded` holds for every schedule.
  * `Sched.complete_exists`, `Sched.strict_complete_length`, `Sched.complete_length_ge`,
    `Sched.dot_strict_complete_length`
                           non-vacuity: a strict complete schedule exists (workers one after the
                           other), every strict complete schedule has length exactly the vector
                           length, every complete schedule has at least that length.
  * examples               `w = 3`, length 7 over `ℤ`: three different complete schedules, same state.

  What remains an ASSUMPTION about the runtime (not proved here, and not provable in Lean)
  ---------------------------------------------------------------------------------------
  (i)   the workers share no mutable state: each closure captures the shared slices `&[f64]`
        (read-only) and owns its `result`; this is enforced by Rust's borrow checker at compile
        time (a data race would not compile in safe Rust) — checked by the compiler, not by us.
        In the machine it is the fact that `Sched.step k` changes component `k` only and reads
        only component `k` and the immutable `a`, `b`.
  (ii)  `thread.join()` returns the value computed by that very worker (its own final `result`),
        and returns only after the worker has finished (so the parent reads a COMPLETE state).
  (iii) the parent adds the joined values in spawn order `0, …, w-1` — this is the source text
        (`for thread in threads`), modelled by `Sched.join`.
  (iv)  each worker executes its own loop sequentially in program order with deterministic `f64`
        `+`, `*` (same rounding mode in every thread).
  With (i)–(iv) the scheduler can influence neither the partial sums nor the final value.
  Panics (size mismatch, `w = 0`) happen before the scope is entered and are covered by
  `dotThreaded` itself (`rejects` in C16.lean).
-/
import Ohsl.Props.C16D
set_option linter.unusedSectionVars false
set_option linter.unusedVariables false
namespace Ohsl.Props.C16
open Ohsl Ohsl.Dot

/-! ### the machine -/

/-- state of the scope: component `k` is worker `k`'s private `(pos_k, acc_k)` -/
abbrev Sched.St (K : Type) := Nat → Nat × K

/-- `n`-fold iterate, first application innermost: `iter f (n+1) a = iter f n (f a)` -/
def Sched.iter {α : Type} (f : α → α) : Nat → α → α
  | 0, a => a
  | n + 1, a => Sched.iter f n (f a)

section Structural
variable {K : Type} [Add K] [Zero K]
variable (w : Nat) (bnd : Nat → Nat × Nat) (p : Nat → K)

/-- initial state: every worker at the start of its chunk with `result = 0` -/
def Sched.init : Sched.St K := fun k => ((bnd k).1, 0)

/-- the effect of one loop iteration of worker `k` on ITS OWN pair `(pos, acc)`;
identity once the loop has terminated -/
def Sched.lstep (k : Nat) (c : Nat × K) : Nat × K :=
  if c.1 < (bnd k).2 then (c.1 + 1, c.2 + p c.1) else c

/-- worker `k` is enabled: it exists and its loop has not terminated -/
def Sched.Enabled (s : Sched.St K) (k : Nat) : Prop := k < w ∧ (s k).1 < (bnd k).2

/-- one scheduler pick: worker `k` performs one loop iteration on its own component; a pick of a
finished worker or of an id `≥ w` is a no-op -/
def Sched.step (k : Nat) (s : Sched.St K) : Sched.St K :=
  fun j => if j = k ∧ k < w then Sched.lstep bnd p k (s j) else s j

/-- run a schedule (a list of worker ids), leftmost pick first -/
def Sched.run (sched : List Nat) (s : Sched.St K) : Sched.St K :=
  sched.foldl (fun s k => Sched.step w bnd p k s) s

/-- a schedule is complete: afterwards no worker is enabled -/
def Sched.Complete (sched : List Nat) : Prop :=
  ∀ k, ¬ Sched.Enabled w bnd (Sched.run w bnd p sched (Sched.init bnd)) k

/-- every pick of the schedule is enabled at the moment it is picked (from state `s`) -/
def Sched.Strict : List Nat → Sched.St K → Prop
  | [], _ => True
  | k :: ks, s => Sched.Enabled w bnd s k ∧ Sched.Strict ks (Sched.step w bnd p k s)

/-- left fold from `0` of the first `n` summands of chunk `k`, in index order -/
def Sched.prefixSum (k n : Nat) : K :=
  ((List.range' (bnd k).1 n).map p).foldl (· + ·) 0

/-- left fold from `0` of all summands of chunk `k`, in index order -/
def Sched.chunkSum (k : Nat) : K :=
  ((List.range' (bnd k).1 ((bnd k).2 - (bnd k).1)).map p).foldl (· + ·) 0

/-- the final state: every worker `k < w` at the end of its chunk holding its chunk sum -/
def Sched.final : Sched.St K :=
  fun k => if k < w then ((bnd k).2, Sched.chunkSum bnd p k) else ((bnd k).1, 0)

/-- the parent's reduction: add the workers' results from `0` in spawn order -/
def Sched.join (s : Sched.St K) : K :=
  ((List.range w).map (fun k => (s k).2)).foldl (· + ·) 0

/-- the invariant of worker `k`'s pair `(pos, acc)` -/
def Sched.Inv (k : Nat) (c : Nat × K) : Prop :=
  (bnd k).1 ≤ c.1 ∧ c.1 ≤ (bnd k).2 ∧ c.2 = Sched.prefixSum bnd p k (c.1 - (bnd k).1)

/-! ### steps: locality and commutation -/

theorem Sched.run_nil (s : Sched.St K) : Sched.run w bnd p [] s = s := rfl

theorem Sched.run_cons (k : Nat) (ks : List Nat) (s : Sched.St K) :
    Sched.run w bnd p (k :: ks) s = Sched.run w bnd p ks (Sched.step w bnd p k s) := rfl

theorem Sched.run_append (l₁ l₂ : List Nat) (s : Sched.St K) :
    Sched.run w bnd p (l₁ ++ l₂) s = Sched.run w bnd p l₂ (Sched.run w bnd p l₁ s) := by
  simp [Sched.run, List.foldl_append]

/-- a step of worker `k` acts on component `k` by the local step -/
theorem Sched.step_self (k : Nat) (hk : k < w) (s : Sched.St K) :
    Sched.step w bnd p k s k = Sched.lstep bnd p k (s k) := by
  simp [Sched.step, hk]

/-- **locality**: a step of worker `k` does not touch any other component -/
theorem Sched.step_other (k j : Nat) (h : j ≠ k) (s : Sched.St K) :
    Sched.step w bnd p k s j = s j := by
  simp [Sched.step, h]

/-- a pick of an id `≥ w` is a no-op -/
theorem Sched.step_ge (k : Nat) (hk : w ≤ k) (s : Sched.St K) : Sched.step w bnd p k s = s := by
  funext j
  have : ¬ k < w := by omega
  simp [Sched.step, this]

/-- a pick of a worker that is not enabled is a no-op -/
theorem Sched.step_disabled (k : Nat) (s : Sched.St K) (h : ¬ Sched.Enabled w bnd s k) :
    Sched.step w bnd p k s = s := by
  funext j
  unfold Sched.step
  by_cases hj : j = k ∧ k < w
  · obtain ⟨rfl, hk⟩ := hj
    have : ¬ (s j).1 < (bnd j).2 := fun h' => h ⟨hk, h'⟩
    simp [hk, Sched.lstep, this]
  · simp [hj]

/-- an enabled pick performs `acc += p pos; pos += 1` on the worker's own pair -/
theorem Sched.step_enabled (k : Nat) (s : Sched.St K) (h : Sched.Enabled w bnd s k) :
    Sched.step w bnd p k s k = ((s k).1 + 1, (s k).2 + p (s k).1) := by
  rw [Sched.step_self w bnd p k h.1]
  simp [Sched.lstep, h.2]

/-- **commutation**: steps of different workers commute -/
theorem Sched.step_comm (j k : Nat) (h : j ≠ k) (s : Sched.St K) :
    Sched.step w bnd p j (Sched.step w bnd p k s) = Sched.step w bnd p k (Sched.step w bnd p j s) := by
  funext i
  unfold Sched.step
  by_cases hij : i = j
  · subst hij
    have : ¬ (i = k ∧ k < w) := fun h' => h h'.1
    simp [this]
  · by_cases hik : i = k
    · subst hik
      have : ¬ (i = j ∧ j < w) := fun h' => hij h'.1
      simp [this]
    · simp [hij, hik]

/-- the enabledness of worker `j` is not affected by a step of another worker `k` -/
theorem Sched.enabled_step_other (j k : Nat) (h : j ≠ k) (s : Sched.St K) :
    Sched.Enabled w bnd (Sched.step w bnd p k s) j ↔ Sched.Enabled w bnd s j := by
  simp [Sched.Enabled, Sched.step_other w bnd p k j h]

/-- **diamond**: if two different workers are both enabled, either can go first, the other is still
enabled afterwards, and both orders lead to the same state -/
theorem Sched.diamond (j k : Nat) (h : j ≠ k) (s : Sched.St K)
    (hj : Sched.Enabled w bnd s j) (hk : Sched.Enabled w bnd s k) :
    Sched.Enabled w bnd (Sched.step w bnd p k s) j ∧ Sched.Enabled w bnd (Sched.step w bnd p j s) k
    ∧ Sched.step w bnd p j (Sched.step w bnd p k s) = Sched.step w bnd p k (Sched.step w bnd p j s) :=
  ⟨(Sched.enabled_step_other w bnd p j k h s).2 hj,
   (Sched.enabled_step_other w bnd p k j (Ne.symm h) s).2 hk,
   Sched.step_comm w bnd p j k h s⟩

/-- the state after a schedule depends only on the multiset of its picks (how often each worker
was picked), not on their order: consequence of `step_comm` -/
theorem Sched.run_perm {l₁ l₂ : List Nat} (h : l₁.Perm l₂) (s : Sched.St K) :
    Sched.run w bnd p l₁ s = Sched.run w bnd p l₂ s := by
  induction h generalizing s with
  | nil => rfl
  | cons x _ ih => simp only [Sched.run_cons]; exact ih _
  | swap x y l =>
    simp only [Sched.run_cons]
    by_cases hxy : x = y
    · subst hxy; rfl
    · rw [Sched.step_comm w bnd p x y hxy]
  | trans _ _ ih₁ ih₂ => rw [ih₁, ih₂]

/-- ids `≥ w` are never touched -/
theorem Sched.run_outside (sched : List Nat) (s : Sched.St K) (k : Nat) (hk : w ≤ k) :
    Sched.run w bnd p sched s k = s k := by
  induction sched generalizing s with
  | nil => rfl
  | cons j js ih =>
    rw [Sched.run_cons, ih]
    have : ¬ (k = j ∧ j < w) := by omega
    simp [Sched.step, this]

/-- **projection**: after ANY schedule, component `k` is the result of applying worker `k`'s own
local step as often as `k` was picked — the picks of the other workers, and their position relative
to `k`'s picks, are irrelevant; `k`'s own steps are totally ordered. -/
theorem Sched.run_component (sched : List Nat) (s : Sched.St K) (k : Nat) (hk : k < w) :
    Sched.run w bnd p sched s k = Sched.iter (Sched.lstep bnd p k) (sched.count k) (s k) := by
  induction sched generalizing s with
  | nil => rfl
  | cons j js ih =>
    rw [Sched.run_cons, ih, List.count_cons]
    by_cases hjk : j = k
    · subst hjk
      simp [Sched.step_self w bnd p j hk, Sched.iter]
    · have : (j == k) = false := by simpa using hjk
      simp [this, Sched.step_other w bnd p j k (Ne.symm hjk)]

/-! ### the invariant -/

theorem Sched.prefixSum_zero (k : Nat) : Sched.prefixSum bnd p k 0 = 0 := by
  simp [Sched.prefixSum]

theorem Sched.prefixSum_succ (k n : Nat) :
    Sched.prefixSum bnd p k (n + 1) = Sched.prefixSum bnd p k n + p ((bnd k).1 + n) := by
  simp [Sched.prefixSum, List.range'_concat, List.foldl_append]

theorem Sched.prefixSum_full (k : Nat) :
    Sched.prefixSum bnd p k ((bnd k).2 - (bnd k).1) = Sched.chunkSum bnd p k := rfl

theorem Sched.init_inv (k : Nat) (hb : (bnd k).1 ≤ (bnd k).2) :
    Sched.Inv bnd p k (Sched.init bnd k) := by
  refine ⟨Nat.le_refl _, hb, ?_⟩
  simp [Sched.init, Sched.prefixSum_zero]

/-- one loop iteration preserves the invariant -/
theorem Sched.lstep_inv (k : Nat) (c : Nat × K) (h : Sched.Inv bnd p k c) :
    Sched.Inv bnd p k (Sched.lstep bnd p k c) := by
  obtain ⟨h1, h2, h3⟩ := h
  unfold Sched.lstep
  by_cases hc : c.1 < (bnd k).2
  · simp only [hc, if_true]
    refine ⟨by simp; omega, by simp; omega, ?_⟩
    have e : c.1 + 1 - (bnd k).1 = (c.1 - (bnd k).1) + 1 := by omega
    have e' : (bnd k).1 + (c.1 - (bnd k).1) = c.1 := by omega
    simp only [e, Sched.prefixSum_succ, e', ← h3]
  · simp only [hc, if_false]
    exact ⟨h1, h2, h3⟩

theorem Sched.iter_inv (k n : Nat) (c : Nat × K) (h : Sched.Inv bnd p k c) :
    Sched.Inv bnd p k (Sched.iter (Sched.lstep bnd p k) n c) := by
  induction n generalizing c with
  | zero => exact h
  | succ n ih => exact ih _ (Sched.lstep_inv bnd p k c h)

/-- position after `n` local steps -/
theorem Sched.iter_pos (k n : Nat) (c : Nat × K) (h : c.1 ≤ (bnd k).2) :
    (Sched.iter (Sched.lstep bnd p k) n c).1 = min (bnd k).2 (c.1 + n) := by
  induction n generalizing c with
  | zero => simp [Sched.iter]; omega
  | succ n ih =>
    rw [Sched.iter]
    by_cases hc : c.1 < (bnd k).2
    · rw [ih]
      · simp [Sched.lstep, hc]; omega
      · simp [Sched.lstep, hc]; omega
    · have : Sched.lstep bnd p k c = c := by simp [Sched.lstep, hc]
      rw [this, ih c h]
      omega

/-- position of worker `k` after any schedule: `min end_k (start_k + number of picks of k)` -/
theorem Sched.run_pos (sched : List Nat) (k : Nat) (hk : k < w) (hb : (bnd k).1 ≤ (bnd k).2) :
    (Sched.run w bnd p sched (Sched.init bnd) k).1 = min (bnd k).2 ((bnd k).1 + sched.count k) := by
  rw [Sched.run_component w bnd p sched _ k hk, Sched.iter_pos bnd p k _ _ hb]
  rfl

/-- **C16 prefix safety**: at ANY point of ANY schedule (complete or not), worker `k`'s index is
inside its chunk and its accumulator is the left fold from `0`, in index order, of exactly the first
`pos_k - start_k` products of its chunk.  (`bnd k = (start_k, end_k)` with `start_k ≤ end_k`.) -/
theorem prefix_safe (sched : List Nat) (k : Nat) (hk : k < w) (hb : (bnd k).1 ≤ (bnd k).2) :
    let s := Sched.run w bnd p sched (Sched.init bnd)
    (bnd k).1 ≤ (s k).1 ∧ (s k).1 ≤ (bnd k).2
      ∧ (s k).2 = ((List.range' (bnd k).1 ((s k).1 - (bnd k).1)).map p).foldl (· + ·) 0 := by
  intro s
  have := Sched.iter_inv bnd p k (sched.count k) _ (Sched.init_inv bnd p k hb)
  rw [← Sched.run_component w bnd p sched _ k hk] at this
  exact this

/-! ### schedule independence -/

/-- a schedule is complete iff every worker stands at the end of its chunk -/
theorem Sched.complete_iff (hb : ∀ k, k < w → (bnd k).1 ≤ (bnd k).2) (sched : List Nat) :
    Sched.Complete w bnd p sched
      ↔ ∀ k, k < w → (Sched.run w bnd p sched (Sched.init bnd) k).1 = (bnd k).2 := by
  constructor
  · intro hc k hk
    have h1 := (prefix_safe w bnd p sched k hk (hb k hk)).2.1
    have h2 : ¬ (Sched.run w bnd p sched (Sched.init bnd) k).1 < (bnd k).2 := fun h => hc k ⟨hk, h⟩
    omega
  · intro h k hE
    have := h k hE.1
    have := hE.2
    omega

/-- a schedule is complete iff every worker is picked at least as often as its chunk is long -/
theorem Sched.complete_iff_count (hb : ∀ k, k < w → (bnd k).1 ≤ (bnd k).2) (sched : List Nat) :
    Sched.Complete w bnd p sched ↔ ∀ k, k < w → (bnd k).2 - (bnd k).1 ≤ sched.count k := by
  rw [Sched.complete_iff w bnd p hb]
  constructor
  · intro h k hk
    have := h k hk
    rw [Sched.run_pos w bnd p sched k hk (hb k hk)] at this
    have := hb k hk
    omega
  · intro h k hk
    rw [Sched.run_pos w bnd p sched k hk (hb k hk)]
    have := h k hk
    have := hb k hk
    omega

/-- **C16 schedule independence**: EVERY complete schedule — whatever the interleaving of the
workers' steps — ends in the same state: worker `k` stands at the end of its chunk and holds the left
fold from `0`, in index order, of the products of chunk `k`.  Arbitrary `+` (no associativity, no
commutativity): holds for IEEE floats. -/
theorem schedule_independent (hb : ∀ k, k < w → (bnd k).1 ≤ (bnd k).2) (sched : List Nat)
    (hc : Sched.Complete w bnd p sched) :
    Sched.run w bnd p sched (Sched.init bnd) = Sched.final w bnd p := by
  funext k
  unfold Sched.final
  by_cases hk : k < w
  · simp only [hk, if_true]
    have hpos := (Sched.complete_iff w bnd p hb sched).1 hc k hk
    have hacc := (prefix_safe w bnd p sched k hk (hb k hk)).2.2
    rw [hpos] at hacc
    exact Prod.ext hpos hacc
  · simp only [hk, if_false]
    rw [Sched.run_outside w bnd p sched _ k (by omega)]
    rfl

/-- any two complete schedules end in the same state -/
theorem schedule_independent_pair (hb : ∀ k, k < w → (bnd k).1 ≤ (bnd k).2) (sched₁ sched₂ : List Nat)
    (h₁ : Sched.Complete w bnd p sched₁) (h₂ : Sched.Complete w bnd p sched₂) :
    Sched.run w bnd p sched₁ (Sched.init bnd) = Sched.run w bnd p sched₂ (Sched.init bnd) := by
  rw [schedule_independent w bnd p hb sched₁ h₁, schedule_independent w bnd p hb sched₂ h₂]

/-- the accumulator of worker `k` after any complete schedule -/
theorem Sched.complete_acc (hb : ∀ k, k < w → (bnd k).1 ≤ (bnd k).2) (sched : List Nat)
    (hc : Sched.Complete w bnd p sched) (k : Nat) (hk : k < w) :
    (Sched.run w bnd p sched (Sched.init bnd) k).2 = Sched.chunkSum bnd p k := by
  rw [schedule_independent w bnd p hb sched hc]
  simp [Sched.final, hk]

/-- once complete, further picks change nothing (the scope has returned; late picks are no-ops) -/
theorem Sched.complete_append (hb : ∀ k, k < w → (bnd k).1 ≤ (bnd k).2) (sched extra : List Nat)
    (hc : Sched.Complete w bnd p sched) : Sched.Complete w bnd p (sched ++ extra) := by
  rw [Sched.complete_iff_count w bnd p hb] at hc ⊢
  intro k hk
  have := hc k hk
  simp only [List.count_append]
  omega

/-! ### non-vacuity: strict complete schedules exist and have length `Σ (end_k - start_k)` -/

/-- total progress: number of loop iterations performed so far by all workers -/
def Sched.progress (s : Sched.St K) : Nat :=
  ((List.range w).map (fun k => (s k).1 - (bnd k).1)).sum

/-- total work: sum of the chunk lengths -/
def Sched.work : Nat := ((List.range w).map (fun k => (bnd k).2 - (bnd k).1)).sum

/-- raising one entry `k < w` of `f` by one raises `Σ_{i<w} f i` by one -/
theorem Sched.sum_bump (f g : Nat → Nat) (k : Nat) (hk : k < w) (hg : g k = f k + 1)
    (ho : ∀ j, j ≠ k → g j = f j) :
    ((List.range w).map g).sum = ((List.range w).map f).sum + 1 := by
  induction w with
  | zero => omega
  | succ n ih =>
    simp only [List.range_succ, List.map_append, List.sum_append, List.map_cons, List.map_nil,
      List.sum_cons, List.sum_nil, Nat.add_zero]
    by_cases hkn : k = n
    · subst hkn
      have : (List.range k).map g = (List.range k).map f := by
        apply List.map_congr_left
        intro j hj
        have := List.mem_range.mp hj
        exact ho j (by omega)
      rw [this, hg]
      omega
    · rw [ih (by omega), ho n (Ne.symm hkn)]
      omega

/-- an enabled step raises the total progress by exactly one -/
theorem Sched.progress_step (k : Nat) (s : Sched.St K) (hE : Sched.Enabled w bnd s k)
    (hs : (bnd k).1 ≤ (s k).1) :
    Sched.progress w bnd (Sched.step w bnd p k s) = Sched.progress w bnd s + 1 := by
  unfold Sched.progress
  apply Sched.sum_bump w _ _ k hE.1
  · rw [Sched.step_enabled w bnd p k s hE]
    simp only
    omega
  · intro j hj
    rw [Sched.step_other w bnd p k j hj]

/-- a step keeps every worker at or after its start -/
theorem Sched.step_ge_start (k : Nat) (s : Sched.St K) (hs : ∀ j, (bnd j).1 ≤ (s j).1) :
    ∀ j, (bnd j).1 ≤ (Sched.step w bnd p k s j).1 := by
  intro j
  unfold Sched.step Sched.lstep
  have := hs j
  split
  · split
    · simp; omega
    · exact this
  · exact this

/-- a strict schedule of length `n` performs exactly `n` loop iterations -/
theorem Sched.progress_strict (sched : List Nat) (s : Sched.St K)
    (hs : ∀ j, (bnd j).1 ≤ (s j).1) (hv : Sched.Strict w bnd p sched s) :
    Sched.progress w bnd (Sched.run w bnd p sched s) = Sched.progress w bnd s + sched.length := by
  induction sched generalizing s with
  | nil => rfl
  | cons k ks ih =>
    obtain ⟨hE, hv'⟩ := hv
    rw [Sched.run_cons, ih _ (Sched.step_ge_start w bnd p k s hs) hv',
      Sched.progress_step w bnd p k s hE (hs k), List.length_cons]
    omega

theorem Sched.sum_zero (w : Nat) : ((List.range w).map (fun _ => 0)).sum = 0 := by
  induction w with
  | zero => rfl
  | succ n ih => simp [List.range_succ, ih]

theorem Sched.progress_init : Sched.progress w bnd (Sched.init (K := K) bnd) = 0 := by
  unfold Sched.progress Sched.init
  simpa using Sched.sum_zero w

/-- **length**: a strict complete schedule has exactly `Σ_k (end_k - start_k)` picks -/
theorem Sched.strict_complete_length (hb : ∀ k, k < w → (bnd k).1 ≤ (bnd k).2) (sched : List Nat)
    (hv : Sched.Strict w bnd p sched (Sched.init bnd)) (hc : Sched.Complete w bnd p sched) :
    sched.length = Sched.work w bnd := by
  have h := Sched.progress_strict w bnd p sched (Sched.init bnd) (fun j => Nat.le_refl _) hv
  rw [Sched.progress_init, schedule_independent w bnd p hb sched hc, Nat.zero_add] at h
  rw [← h]
  unfold Sched.progress Sched.work
  congr 1
  apply List.map_congr_left
  intro k hk
  have := List.mem_range.mp hk
  simp [Sched.final, this]

/-- `Σ_{k<w} count k l ≤ length l` -/
theorem Sched.sum_count_le (l : List Nat) :
    ((List.range w).map (fun k => l.count k)).sum ≤ l.length := by
  induction l with
  | nil => simpa using Sched.sum_zero w
  | cons x xs ih =>
    by_cases hx : x < w
    · have := Sched.sum_bump w (fun k => xs.count k) (fun k => (x :: xs).count k) x hx
        (by simp) (by intro j hj; simp [Ne.symm hj])
      rw [this, List.length_cons]
      omega
    · have : (List.range w).map (fun k => (x :: xs).count k)
          = (List.range w).map (fun k => xs.count k) := by
        apply List.map_congr_left
        intro j hj
        have := List.mem_range.mp hj
        have : ¬ x = j := by omega
        simp [this]
      rw [this, List.length_cons]
      omega

/-- pointwise `≤` of summands gives `≤` of the sums -/
theorem Sched.sum_le_sum (f g : Nat → Nat) (h : ∀ k, k < w → f k ≤ g k) :
    ((List.range w).map f).sum ≤ ((List.range w).map g).sum := by
  induction w with
  | zero => simp
  | succ n ih =>
    simp only [List.range_succ, List.map_append, List.sum_append, List.map_cons, List.map_nil,
      List.sum_cons, List.sum_nil, Nat.add_zero]
    have := ih (fun k hk => h k (by omega))
    have := h n (by omega)
    omega

/-- every complete schedule (no-op picks allowed) has at least `Σ_k (end_k - start_k)` picks -/
theorem Sched.complete_length_ge (hb : ∀ k, k < w → (bnd k).1 ≤ (bnd k).2) (sched : List Nat)
    (hc : Sched.Complete w bnd p sched) : Sched.work w bnd ≤ sched.length := by
  have h := (Sched.complete_iff_count w bnd p hb sched).1 hc
  exact Nat.le_trans (Sched.sum_le_sum w _ _ h) (Sched.sum_count_le w sched)

/-- strictness of a concatenation -/
theorem Sched.strict_append (l₁ l₂ : List Nat) (s : Sched.St K) :
    Sched.Strict w bnd p (l₁ ++ l₂) s
      ↔ Sched.Strict w bnd p l₁ s ∧ Sched.Strict w bnd p l₂ (Sched.run w bnd p l₁ s) := by
  induction l₁ generalizing s with
  | nil => simp [Sched.Strict, Sched.run_nil]
  | cons k ks ih => simp [Sched.Strict, Sched.run_cons, ih, and_assoc]

/-- letting worker `k` run `n` iterations in a row is strict as long as `pos_k + n ≤ end_k` -/
theorem Sched.strict_replicate (k n : Nat) (hk : k < w) (s : Sched.St K)
    (h : (s k).1 + n ≤ (bnd k).2) : Sched.Strict w bnd p (List.replicate n k) s := by
  induction n generalizing s with
  | zero => simp [Sched.Strict]
  | succ n ih =>
    rw [List.replicate_succ]
    have hE : Sched.Enabled w bnd s k := ⟨hk, by omega⟩
    refine ⟨hE, ih _ ?_⟩
    rw [Sched.step_enabled w bnd p k s hE]
    simp only
    omega

/-- running worker `k` alone does not touch the others -/
theorem Sched.run_replicate_other (k n j : Nat) (hj : j ≠ k) (s : Sched.St K) :
    Sched.run w bnd p (List.replicate n k) s j = s j := by
  induction n generalizing s with
  | zero => rfl
  | succ n ih => rw [List.replicate_succ, Sched.run_cons, ih, Sched.step_other w bnd p k j hj]

/-- the sequential schedule over a list of workers: each runs its whole chunk, one after the other -/
def Sched.seqOver (ks : List Nat) : List Nat :=
  ks.flatMap (fun k => List.replicate ((bnd k).2 - (bnd k).1) k)

/-- the sequential schedule is strict from any state in which its workers have not started -/
theorem Sched.seqOver_strict (ks : List Nat) (hks : ∀ k, k ∈ ks → k < w) (hnd : ks.Nodup)
    (hb : ∀ k, k < w → (bnd k).1 ≤ (bnd k).2) (s : Sched.St K)
    (hs : ∀ k, k ∈ ks → (s k).1 = (bnd k).1) :
    Sched.Strict w bnd p (Sched.seqOver bnd ks) s := by
  induction ks generalizing s with
  | nil => simp [Sched.seqOver, Sched.Strict]
  | cons k ks ih =>
    have hk : k < w := hks k (by simp)
    rw [Sched.seqOver, List.flatMap_cons, Sched.strict_append]
    refine ⟨Sched.strict_replicate w bnd p k _ hk s ?_, ?_⟩
    · rw [hs k (by simp)]
      have := hb k hk
      omega
    · have hnd' := List.nodup_cons.mp hnd
      apply ih (fun j hj => hks j (by simp [hj])) hnd'.2
      intro j hj
      have hjk : j ≠ k := fun e => hnd'.1 (e ▸ hj)
      rw [Sched.run_replicate_other w bnd p k _ j hjk]
      exact hs j (by simp [hj])

/-- the sequential schedule `0…0 1…1 … (w-1)…(w-1)`: the workers run one after the other -/
def Sched.seq : List Nat := Sched.seqOver bnd (List.range w)

/-- worker `k` is picked exactly `end_k - start_k` times (at least, which is all we need) -/
theorem Sched.seq_count (k : Nat) (hk : k < w) :
    (bnd k).2 - (bnd k).1 ≤ (Sched.seq w bnd).count k := by
  have hsub : (List.replicate ((bnd k).2 - (bnd k).1) k).Sublist (Sched.seq w bnd) := by
    unfold Sched.seq Sched.seqOver
    rw [List.flatMap_def]
    apply List.sublist_flatten_of_mem
    exact List.mem_map.mpr ⟨k, List.mem_range.mpr hk, rfl⟩
  have := hsub.count_le k
  simpa using this

/-- **existence**: the sequential schedule is strict and complete — the hypotheses of
`schedule_independent` are satisfiable, and by `strict_complete_length` it has
`Σ_k (end_k - start_k)` picks -/
theorem Sched.complete_exists (hb : ∀ k, k < w → (bnd k).1 ≤ (bnd k).2) :
    Sched.Strict w bnd p (Sched.seq w bnd) (Sched.init bnd)
      ∧ Sched.Complete w bnd p (Sched.seq w bnd) := by
  constructor
  · exact Sched.seqOver_strict w bnd p _ (fun k hk => List.mem_range.mp hk) List.nodup_range hb _
      (fun k _ => rfl)
  · rw [Sched.complete_iff_count w bnd p hb]
    exact Sched.seq_count w bnd

end Structural

/-! ### the dot product: chunk bounds of `Dot.chunk`, summands `a[j] * b[j]` -/

section Structural
variable {K : Type} [Add K] [Mul K] [Zero K]

/-- the product computed by the loop body at absolute index `j` -/
def Sched.dotTerm (a b : Array K) (j : Nat) : K := a.getD j 0 * b.getD j 0

/-- every read of an enabled step is in bounds: the step of worker `k` at position `pos < end_k`
multiplies the actual elements `a[pos]`, `b[pos]` (the default of `getD` is never used) -/
theorem Sched.dotTerm_eq_getElem (w : Nat) (a b : Array K) (hw : 0 < w) (h : a.size = b.size)
    (s : Sched.St K) (k : Nat) (hE : Sched.Enabled w (chunk a.size w) s k) :
    ∃ (ha : (s k).1 < a.size) (hb : (s k).1 < b.size),
      Sched.dotTerm a b (s k).1 = a[(s k).1] * b[(s k).1] := by
  have hv := (chunk_valid a.size w k hw hE.1).2
  have h2 := hE.2
  have ha : (s k).1 < a.size := by omega
  have hb : (s k).1 < b.size := by omega
  exact ⟨ha, hb, by simp [Sched.dotTerm, Array.getD, ha, hb]⟩

/-- the chunk sum of the machine is the partial sum of the model -/
theorem Sched.chunkSum_eq_partialSum (w : Nat) (a b : Array K) (hw : 0 < w) (h : a.size = b.size)
    (k : Nat) (hk : k < w) :
    Sched.chunkSum (chunk a.size w) (Sched.dotTerm a b) k = partialSum a b (chunk a.size w k) := by
  rw [partialSum_eq_fold_indices a b h _ (chunk_valid a.size w k hw hk).2]
  rfl

/-- the chunk bounds of the model satisfy the hypothesis `start_k ≤ end_k` of the machine theorems -/
theorem Sched.chunk_le (len w : Nat) (hw : 0 < w) :
    ∀ k, k < w → (chunk len w k).1 ≤ (chunk len w k).2 :=
  fun k hk => (chunk_valid len w k hw hk).1

/-- the total work is the vector length -/
theorem Sched.work_chunk (len w : Nat) (hw : 0 < w) : Sched.work w (chunk len w) = len := by
  have h := congrArg List.length (chunks_partition len w hw)
  rw [List.length_flatMap, List.length_range] at h
  have e : Sched.work w (chunk len w)
      = ((chunks len w).map (fun a => (List.range' a.1 (a.2 - a.1)).length)).sum := by
    simp [Sched.work, chunks, List.map_map, Function.comp_def]
  rw [e, h]

/-- **C16 schedule independence of `dot_f64`**: after ANY complete schedule of the `w` workers, the
accumulator of worker `k` is the model's `partialSum` of chunk `k`, and joining in spawn order
(`result += thread.join()` for `k = 0, …, w-1`) gives exactly the value of the model `dotThreaded`.
Hence every theorem about `dotThreaded` (C16, C16D, C16F) holds for every schedule.  Class (S):
arbitrary `+`, `*` — in particular IEEE `f64`, where the value is therefore bit-identical for all
schedules. -/
theorem joined_eq_dotThreaded (w : Nat) (a b : Array K) (hw : 0 < w) (h : a.size = b.size)
    (sched : List Nat) (hc : Sched.Complete w (chunk a.size w) (Sched.dotTerm a b) sched) :
    dotThreaded w a b
      = .ok (Sched.join w (Sched.run w (chunk a.size w) (Sched.dotTerm a b) sched
              (Sched.init (chunk a.size w)))) := by
  rw [(dotThreaded_is_reassociation w a b hw h).1]
  congr 2
  unfold chunks
  rw [List.map_map]
  apply List.map_congr_left
  intro k hk
  have hk' := List.mem_range.mp hk
  rw [Sched.complete_acc w _ _ (Sched.chunk_le a.size w hw) sched hc k hk',
    Sched.chunkSum_eq_partialSum w a b hw h k hk']
  rfl

/-- the accumulators after any complete schedule are the model's partial sums -/
theorem complete_acc_eq_partialSum (w : Nat) (a b : Array K) (hw : 0 < w) (h : a.size = b.size)
    (sched : List Nat) (hc : Sched.Complete w (chunk a.size w) (Sched.dotTerm a b) sched)
    (k : Nat) (hk : k < w) :
    Sched.run w (chunk a.size w) (Sched.dotTerm a b) sched (Sched.init (chunk a.size w)) k
      = ((chunk a.size w k).2, partialSum a b (chunk a.size w k)) := by
  rw [schedule_independent w _ _ (Sched.chunk_le a.size w hw) sched hc]
  simp [Sched.final, hk, Sched.chunkSum_eq_partialSum w a b hw h k hk]

/-- the value returned by `dot_f64` is the same for any two complete schedules -/
theorem joined_schedule_independent (w : Nat) (a b : Array K) (hw : 0 < w)
    (sched₁ sched₂ : List Nat)
    (h₁ : Sched.Complete w (chunk a.size w) (Sched.dotTerm a b) sched₁)
    (h₂ : Sched.Complete w (chunk a.size w) (Sched.dotTerm a b) sched₂) :
    Sched.join w (Sched.run w (chunk a.size w) (Sched.dotTerm a b) sched₁ (Sched.init (chunk a.size w)))
      = Sched.join w (Sched.run w (chunk a.size w) (Sched.dotTerm a b) sched₂ (Sched.init (chunk a.size w))) := by
  rw [schedule_independent_pair w _ _ (Sched.chunk_le a.size w hw) sched₁ sched₂ h₁ h₂]

/-- **existence and length** for `dot_f64`: a strict complete schedule exists for every length and
every `w > 0`, and every strict complete schedule has exactly `a.size` picks (one per element);
a complete schedule with no-op picks has at least `a.size`. -/
theorem Sched.dot_strict_complete_length (w : Nat) (a b : Array K) (hw : 0 < w) :
    (∃ sched, Sched.Strict w (chunk a.size w) (Sched.dotTerm a b) sched (Sched.init (chunk a.size w))
        ∧ Sched.Complete w (chunk a.size w) (Sched.dotTerm a b) sched)
    ∧ (∀ sched, Sched.Strict w (chunk a.size w) (Sched.dotTerm a b) sched (Sched.init (chunk a.size w))
        → Sched.Complete w (chunk a.size w) (Sched.dotTerm a b) sched → sched.length = a.size)
    ∧ (∀ sched, Sched.Complete w (chunk a.size w) (Sched.dotTerm a b) sched → a.size ≤ sched.length) := by
  refine ⟨⟨_, Sched.complete_exists w _ _ (Sched.chunk_le a.size w hw)⟩, ?_, ?_⟩
  · intro sched hv hc
    rw [Sched.strict_complete_length w _ _ (Sched.chunk_le a.size w hw) sched hv hc,
      Sched.work_chunk a.size w hw]
  · intro sched hc
    have := Sched.complete_length_ge w _ _ (Sched.chunk_le a.size w hw) sched hc
    rwa [Sched.work_chunk a.size w hw] at this

end Structural

/-! ### concrete instance: 3 workers, length 7 over `ℤ`, three different complete schedules -/

section Examples

/-- snapshot of the first `w` components of a state (a list, so that equality is decidable) -/
def Sched.snapshot {K : Type} (w : Nat) (s : Sched.St K) : List (Nat × K) := (List.range w).map s

def Sched.exA : Array Int := #[1, -2, 3, 4, -5, 6, 7]
def Sched.exB : Array Int := #[7, 6, -5, 4, 3, 2, -1]

/-- run a schedule on the example data with 3 workers (chunks `[0,2) [2,4) [4,7)`) -/
def Sched.exRun (sched : List Nat) : Sched.St Int :=
  Sched.run 3 (chunk 7 3) (Sched.dotTerm Sched.exA Sched.exB) sched (Sched.init (chunk 7 3))

example : chunks 7 3 = [(0, 2), (2, 4), (4, 7)] := by decide

/-- workers one after the other -/
example : Sched.snapshot 3 (Sched.exRun [0, 0, 1, 1, 2, 2, 2]) = [(2, -5), (4, 1), (7, -10)] := by
  decide
/-- round robin, last worker first -/
example : Sched.snapshot 3 (Sched.exRun [2, 1, 0, 2, 1, 0, 2]) = [(2, -5), (4, 1), (7, -10)] := by
  decide
/-- reverse order, with no-op picks (worker 1 after it has finished, and the non-existent worker 5) -/
example : Sched.snapshot 3 (Sched.exRun [2, 2, 5, 1, 1, 1, 2, 0, 1, 0]) = [(2, -5), (4, 1), (7, -10)] := by
  decide
/-- an incomplete schedule: worker 2 has summed only the first of its three products -/
example : Sched.snapshot 3 (Sched.exRun [2, 0, 0, 1]) = [(2, -5), (3, -15), (5, -15)] := by decide
/-- the joined value is the model's `dotThreaded` -/
example : dotThreaded 3 Sched.exA Sched.exB
    = .ok (Sched.join 3 (Sched.exRun [2, 1, 0, 2, 1, 0, 2])) := by
  apply joined_eq_dotThreaded 3 Sched.exA Sched.exB (by decide) rfl
  rw [Sched.complete_iff_count _ _ _ (Sched.chunk_le _ 3 (by decide))]
  decide
example : Sched.join 3 (Sched.exRun [2, 1, 0, 2, 1, 0, 2]) = -14 := by decide

end Examples

end Ohsl.Props.C16
