/-
  Property C13 (part N) — IEEE 754 round-to-nearest-even IS an instance of the standard model.

  All class-F theorems of this project are statements about an abstract `FlModel`
  (Ohsl/Lemmas/Rounding.lean: `u ≥ 0`, `fl : ℝ → ℝ`, `|fl x - x| ≤ u |x|`).  Rounding.lean states as an
  ASSUMPTION that IEEE binary64 arithmetic without overflow / underflow is such a model with
  `u = 2⁻⁵³`.  This file reduces that assumption: the IEEE rounding function itself is defined on
  the reals (Ohsl/Lemmas/RNE.lean) and PROVED to be an instance.

  WHAT IS COVERED
    `rne p : ℝ → ℝ` is IEEE 754 `roundTiesToEven` to the binary format with a `(p+1)`-bit
    significand and an UNBOUNDED exponent range: for `x ≠ 0`, `e = ⌊log₂|x|⌋`, `ulp = 2^(e-p)`,
    `rne p x = roundHalfEven (x / ulp) · ulp` (nearest integer significand, ties to the even one),
    `rne p 0 = 0`.  `FlModel.ieee64 = FlModel.rne 52` (`fl = rne 52`, `u = 2⁻⁵³`).
    * `ieee64_is_standard_model`   the bundle: `u = 2⁻⁵³`, `|rne 52 x - x| ≤ 2⁻⁵³ |x|` for EVERY real
        `x`, monotone, sign-symmetric, idempotent, fixes all integers `|k| ≤ 2⁵³` and all powers of two;
      `rne_is_standard_model`      the same for every significand width `p + 1`;
    * `ieee64_rep_iff`             the representable numbers (`fl x = x`) are exactly the
        `k · 2^j`, `|k| < 2⁵³`, `j ∈ ℤ` — the binary64 numbers without exponent limits;
    * `ieee64_ops_correctly_rounded`  in `Fl FlModel.ieee64` each of `+ - * /` is `rne 52` of the exact
        real result, its value is representable, and the (exact) negation of the model maps
        representable numbers to representable numbers;
    * `ieee64_ties_to_even`        `2⁵³+1 ↦ 2⁵³`, `2⁵³+3 ↦ 2⁵³+4`, `-(2⁵³+1) ↦ -2⁵³`: ties really go
        to the even significand (the older instance `FlModel.binary64`, ties upwards, gives `2⁵³+2`
        for the first, and is not sign-symmetric);
    * `ieee64_eq_binary64_off_ties`  `rne 52 x = FlModel.binary64.fl x` unless `x / ulp` is exactly
        halfway between two integers;
    * `ieee64_mul_rounding`, `ieee64_dot_rounding`, `ieee64_dot_rounding_gamma`   plumbing: the
        class-F theorems `C13.mul_rounding` (complex product) and `C16.dot_rounding` (dot product)
        instantiated at `M := FlModel.ieee64`, constants written out
        (`gam 2 = 2⁻⁵² + 2⁻¹⁰⁶`, `gam (n+1) = (1+2⁻⁵³)^(n+1) - 1 ≤ (n+1) 2⁻⁵³ / (1 - (n+1) 2⁻⁵³)`);
      `ieee64_dot_rounding_head`   what idempotence buys: in `ieee64` the first addition `0 + a₀b₀`
        of the model's dot product is exact, so the constant is `gam n` instead of `gam (n+1)`.
    Every class-F theorem holds for ANY `FlModel`, hence for `FlModel.ieee64`.

  WHAT IS NOT COVERED / STILL ASSUMED
    * The exponent range is unbounded: no overflow to `±∞`, no subnormals / gradual underflow (for
      `|x| < 2⁻¹⁰²²` binary64 has FEWER significant bits than `rne 52`), no signed zero, no NaN.
    * Nothing here is a statement about Lean's `Float` or Rust's `f64`.  What remains assumed for the
      transfer of class-F theorems to the `f64` code is only: *the hardware / library operation
      returns `rne 52` of the exact real result whenever no overflow, underflow or NaN occurs.*
      This is the IEEE 754 definition of a correctly rounded operation and is required by the
      standard for `+ - × ÷ √` (and fused multiply-add); it is NOT guaranteed for libm's `powf`,
      `exp`, `sin`, … — class-F theorems that model those by one rounding (`C03.flTransc`) keep
      that as a separate assumption.
-/
import Ohsl.Props.C13F
import Ohsl.Props.C16F
import Ohsl.Lemmas.RNE
import Mathlib.Tactic.Ring
import Mathlib.Tactic.Linarith
import Mathlib.Tactic.Positivity
import Mathlib.Tactic.NormNum
set_option linter.unusedSectionVars false
set_option linter.unusedVariables false
set_option linter.unusedSimpArgs false
namespace Ohsl.Props.C13
open Ohsl Ohsl.Cx

section Rounding
open Fl

/-! ### IEEE round-to-nearest-even satisfies the standard model -/

/-- **round-to-nearest-even with a `(p+1)`-bit significand (unbounded exponent) is a standard
model** with `u = 2^(-p-1)`, and has the additional properties that `FlModel` does not assume:
monotone, sign-symmetric, idempotent, exact on integers up to `2^(p+1)` and on powers of two. -/
theorem rne_is_standard_model (p : ℕ) :
    (FlModel.rne p).u = 2 ^ (-(p : ℤ) - 1)
    ∧ (FlModel.rne p).fl = rne p
    ∧ (∀ x : ℝ, |rne p x - x| ≤ 2 ^ (-(p : ℤ) - 1) * |x|)
    ∧ Monotone (rne p)
    ∧ (∀ x : ℝ, rne p (-x) = -rne p x)
    ∧ (∀ x : ℝ, rne p (rne p x) = rne p x)
    ∧ (∀ k : ℤ, |k| ≤ 2 ^ (p + 1) → rne p (k : ℝ) = k)
    ∧ (∀ e : ℤ, rne p ((2 : ℝ) ^ e) = 2 ^ e) :=
  ⟨rfl, rfl, rne_err p, rne_monotone p, rne_neg p, rne_idempotent p, rne_int p, rne_zpow p⟩

/-- **IEEE 754 binary64 rounding (`roundTiesToEven`, 53-bit significand, exponent range unbounded)
is a standard model with `u = 2⁻⁵³`**: `FlModel.ieee64` has `fl = rne 52`, the relative error of
`rne 52` is at most `2⁻⁵³` for every real number, and `rne 52` is monotone, sign-symmetric,
idempotent, and fixes every integer of absolute value `≤ 2⁵³` and every power of two.

Not covered: overflow, subnormal numbers, signed zero, NaN; and the link to the machine: that an
`f64` operation returns `rne 52` of the exact result (true by IEEE 754 for `+ - × ÷ √` in the
absence of overflow / underflow / NaN) remains an assumption. -/
theorem ieee64_is_standard_model :
    FlModel.ieee64.u = 2 ^ (-53 : ℤ)
    ∧ FlModel.ieee64.fl = rne 52
    ∧ (∀ x : ℝ, |rne 52 x - x| ≤ 2 ^ (-53 : ℤ) * |x|)
    ∧ Monotone (rne 52)
    ∧ (∀ x : ℝ, rne 52 (-x) = -rne 52 x)
    ∧ (∀ x : ℝ, rne 52 (rne 52 x) = rne 52 x)
    ∧ (∀ k : ℤ, |k| ≤ 2 ^ 53 → rne 52 (k : ℝ) = k)
    ∧ (∀ e : ℤ, rne 52 ((2 : ℝ) ^ e) = 2 ^ e) := by
  refine ⟨FlModel.ieee64_u, rfl, fun x => ?_, rne_monotone 52, rne_neg 52, rne_idempotent 52,
    fun k hk => rne_int 52 k hk, rne_zpow 52⟩
  have h := FlModel.ieee64.fl_err x
  rwa [FlModel.ieee64_u] at h

/-- the representable numbers of `FlModel.ieee64` are exactly the numbers `k · 2^j` with an integer
significand `|k| < 2⁵³` and any integer exponent `j`: the binary64 numbers without exponent limits -/
theorem ieee64_rep_iff (x : ℝ) :
    FlModel.ieee64.Rep x ↔ ∃ k j : ℤ, |k| < 2 ^ 53 ∧ x = (k : ℝ) * 2 ^ j :=
  FlModel.rne_rep_iff 52 x

/-- in `Fl FlModel.ieee64` every arithmetic operation of the model is the correctly rounded IEEE
operation — `rne 52` of the exact real result —, its value is representable, and the exact negation of
the model keeps representable numbers representable (as IEEE negation does) -/
theorem ieee64_ops_correctly_rounded (a b : Fl FlModel.ieee64) :
    (a + b).val = rne 52 (a.val + b.val) ∧ (a - b).val = rne 52 (a.val - b.val)
    ∧ (a * b).val = rne 52 (a.val * b.val) ∧ (a / b).val = rne 52 (a.val / b.val)
    ∧ FlModel.ieee64.Rep (a + b).val ∧ FlModel.ieee64.Rep (a - b).val
    ∧ FlModel.ieee64.Rep (a * b).val ∧ FlModel.ieee64.Rep (a / b).val
    ∧ (FlModel.ieee64.Rep a.val → FlModel.ieee64.Rep (-a).val) :=
  ⟨rfl, rfl, rfl, rfl, FlModel.rne_rep_fl 52 _, FlModel.rne_rep_fl 52 _, FlModel.rne_rep_fl 52 _,
    FlModel.rne_rep_fl 52 _, fun h => FlModel.rne_rep_neg 52 h⟩

/-- **ties go to the even significand**, in both directions and symmetrically in the sign; the
ties-upward instance `FlModel.binary64` differs at the first of these numbers and is not
sign-symmetric there -/
theorem ieee64_ties_to_even :
    rne 52 (2 ^ 53 + 1) = 2 ^ 53 ∧ rne 52 (2 ^ 53 + 3) = 2 ^ 53 + 4
    ∧ rne 52 (-(2 ^ 53 + 1)) = -2 ^ 53
    ∧ FlModel.binary64.fl (2 ^ 53 + 1) = 2 ^ 53 + 2
    ∧ FlModel.binary64.fl (-(2 ^ 53 + 1)) = -2 ^ 53 :=
  ⟨rne_tie_down 52 (by norm_num), rne_tie_up 52 (by norm_num),
    by rw [rne_neg, rne_tie_down 52 (by norm_num)], roundBits_tie 52, roundBits_neg_tie 52⟩

/-- off ties the two instances coincide: `rne 52 x = FlModel.binary64.fl x` unless the significand
`x / ulp` is exactly halfway between two integers -/
theorem ieee64_eq_binary64_off_ties (x : ℝ)
    (h : Int.fract (x / 2 ^ (Int.log 2 |x| - (52 : ℕ))) ≠ 1 / 2) :
    FlModel.ieee64.fl x = FlModel.binary64.fl x :=
  rne_eq_roundBits_off_ties 52 x h

/-! ### the class-F theorems at `M := FlModel.ieee64` -/

/-- the accumulated-error constants of `ieee64`: `(1 + 2⁻⁵³)^n - 1` -/
theorem ieee64_gam (n : ℕ) : FlModel.ieee64.gam n = (1 + 2 ^ (-53 : ℤ)) ^ n - 1 := by
  rw [FlModel.gam, FlModel.ieee64_u]

/-- `gam 2 = 2⁻⁵² + 2⁻¹⁰⁶` -/
theorem ieee64_gam_two : FlModel.ieee64.gam 2 = 2 ^ (-52 : ℤ) + 2 ^ (-106 : ℤ) := by
  rw [ieee64_gam]
  have e1 : (2 : ℝ) ^ (-52 : ℤ) = 2 * 2 ^ (-53 : ℤ) := by
    rw [show (-52 : ℤ) = 1 + -53 by norm_num, zpow_add₀ two_ne_zero, zpow_one]
  have e2 : (2 : ℝ) ^ (-106 : ℤ) = 2 ^ (-53 : ℤ) * 2 ^ (-53 : ℤ) := by
    rw [← zpow_add₀ two_ne_zero]; norm_num
  rw [e1, e2]; ring

/-- **complex multiplication under IEEE round-to-nearest-even** (`C13.mul_rounding` at
`M := FlModel.ieee64`): the computed product of `z = a + ib`, `w = c + id` with correctly rounded
binary64 `×`, `+`, `-` (no overflow / underflow) satisfies the componentwise and the normwise bound
with the constant `gam 2 = 2⁻⁵² + 2⁻¹⁰⁶`. -/
theorem ieee64_mul_rounding (z w : Cx (Fl FlModel.ieee64)) :
    |(z * w).re.val - (z.re.val * w.re.val - z.im.val * w.im.val)|
      ≤ (2 ^ (-52 : ℤ) + 2 ^ (-106 : ℤ)) * (|z.re.val * w.re.val| + |z.im.val * w.im.val|) ∧
    |(z * w).im.val - (z.re.val * w.im.val + z.im.val * w.re.val)|
      ≤ (2 ^ (-52 : ℤ) + 2 ^ (-106 : ℤ)) * (|z.re.val * w.im.val| + |z.im.val * w.re.val|) ∧
    ‖val (z * w) - val z * val w‖
      ≤ √2 * (2 ^ (-52 : ℤ) + 2 ^ (-106 : ℤ)) * (‖val z‖ * ‖val w‖) := by
  have h := mul_rounding z w
  rwa [ieee64_gam_two] at h

/-- **dot product under IEEE round-to-nearest-even** (`C16.dot_rounding` at
`M := FlModel.ieee64`): `|dot - Σ aᵢbᵢ| ≤ ((1+2⁻⁵³)^(n+1) - 1) Σ|aᵢbᵢ|`. -/
theorem ieee64_dot_rounding (a b : Array (Fl FlModel.ieee64)) (h : a.size = b.size) :
    ∃ r, Vec.dot a b = .ok r
      ∧ |r.val - C16.exactDot a b|
          ≤ ((1 + 2 ^ (-53 : ℤ)) ^ (a.size + 1) - 1) * C16.absDot a b := by
  have := C16.dot_rounding a b h
  rwa [ieee64_gam] at this

/-- the classical form (`C16.dot_rounding_gamma` at `M := FlModel.ieee64`): for fewer than `2⁵³ - 1`
terms the hypothesis `(n+1) u < 1` holds and
`|dot - Σ aᵢbᵢ| ≤ γ_{n+1} Σ|aᵢbᵢ|`, `γ_k = k 2⁻⁵³ / (1 - k 2⁻⁵³)`. -/
theorem ieee64_dot_rounding_gamma (a b : Array (Fl FlModel.ieee64)) (h : a.size = b.size)
    (hn : a.size + 1 < 2 ^ 53) :
    ∃ r, Vec.dot a b = .ok r
      ∧ |r.val - C16.exactDot a b|
          ≤ ((a.size + 1 : ℕ) : ℝ) * 2 ^ (-53 : ℤ)
              / (1 - ((a.size + 1 : ℕ) : ℝ) * 2 ^ (-53 : ℤ)) * C16.absDot a b := by
  have hu : ((a.size + 1 : ℕ) : ℝ) * FlModel.ieee64.u < 1 := by
    rw [FlModel.ieee64_u]
    have h1 : ((a.size + 1 : ℕ) : ℝ) < ((2 ^ 53 : ℕ) : ℝ) := by exact_mod_cast hn
    have h2 : (0 : ℝ) < 2 ^ (-53 : ℤ) := zpow_pos two_pos _
    have h3 : ((2 ^ 53 : ℕ) : ℝ) * 2 ^ (-53 : ℤ) = 1 := by
      rw [zpow_neg]; push_cast; norm_num
    have := mul_lt_mul_of_pos_right h1 h2
    linarith
  have := C16.dot_rounding_gamma a b h hu
  rwa [FlModel.ieee64_u] at this

/-- **what idempotence buys**: in `ieee64` the first addition `0 + a₀b₀` of the model's dot product
is exact (`a₀b₀` is a rounded result, hence representable, `FlModel.rne_rep_fl`), so for `n ≥ 1` terms
the constant is `gam n = (1+2⁻⁵³)^n - 1` — one rounding per product and `n - 1` rounded additions —
instead of the `gam (n+1)` of `C16.dot_rounding`, which holds for every `FlModel` (and is attained in
`FlModel.scale`). -/
theorem ieee64_dot_rounding_head (a b : Array (Fl FlModel.ieee64)) (h : a.size = b.size)
    (hn : 0 < a.size) :
    ∃ r, Vec.dot a b = .ok r
      ∧ |r.val - C16.exactDot a b| ≤ ((1 + 2 ^ (-53 : ℤ)) ^ a.size - 1) * C16.absDot a b := by
  refine ⟨_, C16.dot_eq_fold a b h, ?_⟩
  obtain ⟨n, hn'⟩ : ∃ n, a.size = n + 1 := ⟨a.size - 1, by omega⟩
  have hl : (List.range a.size).map (fun j => a.getD j 0 * b.getD j 0)
      = (a.getD 0 0 * b.getD 0 0) :: (List.range' 1 n).map (fun j => a.getD j 0 * b.getD j 0) := by
    rw [hn', List.range_eq_range', List.range'_succ, List.map_cons]
  have h1 := Fl.foldl_sum_rounding_head_exact (a.getD 0 0 * b.getD 0 0)
    ((List.range' 1 n).map (fun j => a.getD j 0 * b.getD j 0)) (FlModel.rne_rep_fl 52 _)
  rw [← hl, List.length_map, List.length_range'] at h1
  have := Fl.rounded_terms_sum_bound (List.range a.size) (fun j => a.getD j 0 * b.getD j 0)
    (C16.term a b) n _ (fun j _ => C16.prod_err a b j) h1
  rw [sum_map_range, sum_map_range, ← hn', ieee64_gam] at this
  exact this

end Rounding

section Examples

/-- the hypothesis of `ieee64_eq_binary64_off_ties` is satisfiable (`x = 1`: significand `2⁵²`), and
`1 + 1`, `3 * 5`, `1 / 4` are computed exactly in `Fl FlModel.ieee64` -/
example : Int.fract ((1 : ℝ) / 2 ^ (Int.log 2 |(1 : ℝ)| - (52 : ℕ))) ≠ 1 / 2 := by
  have e : (1 : ℝ) / 2 ^ (Int.log 2 |(1 : ℝ)| - (52 : ℕ)) = (((2 : ℤ) ^ 52 : ℤ) : ℝ) := by
    rw [abs_one, Int.log_one_right, zero_sub, zpow_neg, one_div, inv_inv]
    norm_num
  rw [e, Int.fract_intCast]
  norm_num

example : ((⟨1⟩ : Fl FlModel.ieee64) + ⟨1⟩).val = 2 ∧ ((⟨3⟩ : Fl FlModel.ieee64) * ⟨5⟩).val = 15
    ∧ ((⟨1⟩ : Fl FlModel.ieee64) / ⟨4⟩).val = 1 / 4 := by
  refine ⟨?_, ?_, ?_⟩
  · show rne 52 (1 + 1) = 2
    have := rne_int 52 2 (by norm_num)
    norm_num at this ⊢; exact this
  · show rne 52 (3 * 5) = 15
    have := rne_int 52 15 (by norm_num)
    norm_num at this ⊢; exact this
  · show rne 52 (1 / 4) = 1 / 4
    have := rne_zpow 52 (-2)
    norm_num [zpow_neg] at this ⊢; exact this

end Examples

end Ohsl.Props.C13
