/-
  Property C08 (part F) — the rounding drift between the RECURRENCE residual `r_k` carried by the
  iterative solvers and the TRUE residual `b − A x_k`, in the standard model of floating-point
  arithmetic (`Ohsl/Lemmas/Rounding.lean`).  This is the quantitative clause of C08: "whenever CG …
  reports success, its true relative residual is at most the requested tolerance, up to the rounding
  drift of the residual recurrence (proportional to machine epsilon, the iteration count, ‖A‖ and the
  largest iterate)".

  In exact arithmetic `r_k = b − A x_k` holds exactly (`cgStep_residual`, C08.lean).  In rounded
  arithmetic the two differ, and the difference only comes from the THREE VECTOR UPDATES of an
  iteration (`q = A p`, `x += p·α`, `r −= q·α`): whatever scalars `α_i` and directions `p_i` the run
  produced (rounded dot products, norms and divisions are irrelevant), the drift obeys a one-step
  identity.  The file therefore has two layers.

  (1) ABSTRACT (any real seminormed space `E`, `A` linear with `‖A v‖ ≤ a ‖v‖`).  A run of `k`
      iterations is given by arbitrary `α_i : ℝ`, `p_i q_i x_i r_i : E` satisfying the PERTURBED
      recurrences (`DriftRun A a u εA k x r p q α`)
          ‖q_i − A p_i‖                    ≤ εA · a · ‖p_i‖                    (rounded product)
          ‖x_{i+1} − (x_i + α_i p_i)‖      ≤ u ‖x_i‖ + (2u+u²) ‖α_i p_i‖       (two roundings)
          ‖r_{i+1} − (r_i − α_i q_i)‖      ≤ u ‖r_i‖ + (2u+u²) ‖α_i q_i‖       (two roundings)
      With `d_i = (b − A x_i) − r_i` (`drift`) and `stepC u εA = (2u+u²)(2+εA) + εA`:
      * `drift_step_eq`      d_{i+1} − d_i = −A ex_i − er_i + α_i eq_i                     (algebra)
      * `drift_step`         ‖d_{i+1}‖ ≤ ‖d_i‖ + a‖ex_i‖ + ‖er_i‖ + |α_i| ‖eq_i‖
      * `update_err`, `update_err_sub`   the (2u+u²) form from two roundings fl(x ± fl(α p))
      * `DriftRun.step`      ‖d_{i+1}‖ ≤ ‖d_i‖ + u (a‖x_i‖ + ‖r_i‖) + stepC · a · ‖α_i p_i‖
      * `DriftRun.bound_sum` ‖d_k‖ ≤ ‖d_0‖ + Σ_{i<k} (u (a‖x_i‖ + ‖r_i‖) + stepC · a · ‖α_i p_i‖)
      * `DriftRun.bound`     ‖d_k‖ ≤ ‖d_0‖ + k (u (a X + R) + stepC · a · W)
                             (X, R, W bounds of ‖x_i‖, ‖r_i‖, ‖α_i p_i‖ for i < k)
      * `DriftRun.update_le_iterates`  ‖α_i p_i‖ ≤ 3 X   when `u ≤ 1/8`, ‖x_i‖, ‖x_{i+1}‖ ≤ X
      * `DriftRun.bound_iterates`      ‖d_k‖ ≤ ‖d_0‖ + k (u (a X + R) + 3 stepC · a · X)
      * `stepC_le`           stepC u εA ≤ u (5 + 2 cA)   when `εA ≤ cA u`, `u ≤ 1/8`
      * `DriftRun.bound_u`   ‖d_k‖ ≤ ‖d_0‖ + k · u · ((16 + 6 cA) a X + R)
      * `drift_init`         r_0 = fl(b − fl(A x_0)):  ‖d_0‖ ≤ u (‖b‖ + (1+εA) a ‖x_0‖) + εA a ‖x_0‖
      * `drift_init_u`       ‖d_0‖ ≤ u (‖b‖ + (1 + 2 cA) a X)
      * `success_true_residual_gen`   ‖b − A x_k‖ ≤ ‖r_k‖ + ‖d_0‖ + k (u (a X + R) + stepC a W)
      * `success_true_residual`       if `‖r_k‖ ≤ tol ‖b‖` then
            ‖b − A x_k‖ ≤ tol ‖b‖ + u (‖b‖ + (1+2cA) a X) + k · u · ((16+6cA) a X + R)
        — the C08 statement with the drift explicit: proportional to `u`, `k`, `‖A‖ ≤ a` and the
        largest iterate `X` (and the largest recurrence residual `R`).
      The same algebra covers every solver whose updates have the form `x += α p`, `r −= α q` with
      `q` a computed `A p`: CG, BiCG (`z = A p`), and BiCGSTAB (two such sub-steps per iteration:
      `(α, p̂, v)` and `(ω, ŝ, t)`, i.e. a `DriftRun` of length `2k`).  It does NOT cover QMR, whose
      update vector `s ≈ A d` is itself maintained by a recurrence (`eq_i` is not a one-product error).

  (2) MODEL (CG and BiCG done fully).  `flOps mv mvT dot norm2` is the operation record over vectors
      `Fin n → Fl M` with componentwise rounded `add/sub/smul/lsmul/sdiv` (the forms of the source:
      `v[i] * s`, `s * v[i]`), ARBITRARY `dot`, `norm2`, transposed product and ARBITRARY `Transc (Fl M)`
      instance (comparison), and a computed product `mv` about which we assume (`FlMatVec`)
          ‖val (mv v) − A (val v)‖∞ ≤ εA · a · ‖val v‖∞ ,   ‖A v‖∞ ≤ a ‖v‖∞ ;
      `flMatVec_of_componentwise` derives this from the classical componentwise bound
      `|mv v − A v| ≤ εA |A| |v|` for a matrix with absolute row sums `≤ a` (`a = ‖A‖∞`);
      `flMatVec_mvRound`: the exact product rounded once per component satisfies it with `εA = u`.
      * `loop_trace`, `cgStep_eq_next`, `solveCG_trace`, `bicgStep_eq_next`, `solveBiCG_trace` (S):
        the model's loop, on success after `k` iterations, returns the `x` of the `k`-th state of the
        un-tested state sequence (`cgStates`, `bicgStates`), `k ≤ maxIter`, and that state's
        recurrence residual passed the model's test `le (norm2 r / normb) tol`.
      * `cg_driftRun`, `bicg_driftRun` (F): the state sequence of the solver over `flOps …` satisfies
        the perturbed recurrences with `u = M.u` in the ∞-norm, for every length.
      * `cg_init_drift` (F): the initial drift bound for the model's `r_0 = b − A x_0`.
      * `cg_success_true_residual`, `bicg_success_true_residual` (F): on success, with `rk` the
        recurrence residual the model tested,
            ‖(b − A x_out) − rk‖∞ ≤ u (‖b‖ + (1+2cA) a X) + iters · u · ((16+6cA) a X + R)
        and `cg_success_true_residual_norm`, `bicg_success_true_residual_norm`: if passing the
        model's test implies `‖rk‖∞ ≤ τ` (a hypothesis on the arbitrary `norm2`, `/` and `le`) then
        `‖b − A x_out‖∞ ≤ τ + (that bound)`.
      NOT done at model level (nothing is stated falsely; the abstract layer covers the updates):
      the BiCGSTAB trace (two sub-steps per iteration and three exits); QMR (not of this form);
      the transport from `Array (Fl M)` (`arrOps`) to `Fin n → Fl M` (C08C's `VHom`/`cg_hom` are
      structural and apply once the sparse product is shown size-preserving over `Fl M`); a proof
      that the model's sparse product satisfies the componentwise hypothesis with
      `εA = gam (nnz per row + 1)` (cf. `dot_rounding`, C16F).

  The transfer to Rust `f64` rests on the assumption stated in Rounding.lean.
-/
import Ohsl.Props.C08
import Ohsl.Lemmas.Rounding
import Mathlib.Analysis.Normed.Module.Basic
import Mathlib.Algebra.Order.BigOperators.Group.Finset
import Mathlib.Tactic.Abel
import Mathlib.Tactic.Ring
import Mathlib.Tactic.Linarith
import Mathlib.Tactic.Positivity

set_option linter.unusedSectionVars false
set_option linter.unusedVariables false

namespace Ohsl.Props.C08
open Ohsl Ohsl.Krylov

/-! ### (S) the CG loop as a state sequence -/
section Structural
variable {K V : Type} [Add K] [Sub K] [Mul K] [Neg K] [Div K] [Zero K] [One K] [BEq K] [Transc K]

/-! #### a loop body of the form "compute the next state, test its residual" -/

/-- the un-tested state sequence of a loop with update `next`: state `j` is the state after `j`
iterations (iteration indices start at `1`) -/
def loopStates {σ : Type} (next : Nat → σ → σ) (s0 : σ) : Nat → σ
  | 0 => s0
  | j + 1 => next (j + 1) (loopStates next s0 j)

/-- (S) a loop whose body is `s' := next i s; if res s' ≤ tol then return (true, i, res s', x s')`,
started in state `j` of the sequence, either returns success at some index `j < k ≤ j + rem` with the
`x` of state `k`, whose `res` passed the test, or falls through with state `j + rem`. -/
theorem loop_trace {σ : Type} (f : Nat → σ → Step σ (KOut K V)) (next : Nat → σ → σ) (res : σ → K)
    (xof : σ → V) (tol : K)
    (hf : ∀ i s, f i s = if Transc.le (res (next i s)) tol
      then .done ⟨true, i, res (next i s), xof (next i s)⟩ else .cont (next i s))
    (fin : σ → KOut K V) (s0 : σ) :
    ∀ (rem j : Nat) (out : KOut K V),
      iterate f fin rem (j + 1) (loopStates next s0 j) = out →
      (∃ k, j < k ∧ k ≤ j + rem ∧ Transc.le (res (loopStates next s0 k)) tol = true ∧
          out = ⟨true, k, res (loopStates next s0 k), xof (loopStates next s0 k)⟩) ∨
        out = fin (loopStates next s0 (j + rem))
  | 0, j, out, h => Or.inr (by simpa [iterate] using h.symm)
  | rem + 1, j, out, h => by
    unfold iterate at h
    rw [hf] at h
    by_cases hc : Transc.le (res (next (j + 1) (loopStates next s0 j))) tol = true
    · rw [if_pos hc] at h
      exact Or.inl ⟨j + 1, by omega, by omega, hc, h.symm⟩
    · rw [if_neg hc] at h
      rcases loop_trace f next res xof tol hf fin s0 rem (j + 1) out h with ⟨k, h1, h2, h3, h4⟩ | h'
      · exact Or.inl ⟨k, by omega, by omega, h3, h4⟩
      · right
        rw [h']
        congr 2
        omega

/-! #### CG -/

/-- the search direction used in iteration `i` from state `s` -/
def cgP (o : VOps K V) (i : Nat) (s : CGState K V) : V :=
  cgDir o i s.r s.p (o.dot s.r s.r) s.rho1

/-- the step length `α` computed in iteration `i` from state `s` -/
def cgAlpha (o : VOps K V) (i : Nat) (s : CGState K V) : K :=
  o.dot s.r s.r / o.dot (cgP o i s) (o.A (cgP o i s))

/-- the state after iteration `i` (the stopping test ignored) -/
def cgNext (o : VOps K V) (normb : K) (i : Nat) (s : CGState K V) : CGState K V :=
  ⟨o.add s.x (o.smul (cgP o i s) (cgAlpha o i s)),
   o.sub s.r (o.smul (o.A (cgP o i s)) (cgAlpha o i s)),
   cgP o i s,
   o.dot s.r s.r,
   o.norm2 (o.sub s.r (o.smul (o.A (cgP o i s)) (cgAlpha o i s))) / normb⟩

/-- (S) `cgStep` is: compute `cgNext`, test its `resid` -/
theorem cgStep_eq_next (o : VOps K V) (normb tol : K) (i : Nat) (s : CGState K V) :
    cgStep o normb tol i s =
      if Transc.le (cgNext o normb i s).resid tol
      then .done ⟨true, i, (cgNext o normb i s).resid, (cgNext o normb i s).x⟩
      else .cont (cgNext o normb i s) := rfl

/-- the un-tested CG state sequence: state `j` is the state after `j` iterations -/
def cgStates (o : VOps K V) (normb : K) (s0 : CGState K V) : Nat → CGState K V :=
  loopStates (cgNext o normb) s0

/-- the initial state of `solveCG` -/
def cgInit (o : VOps K V) (b x : V) (normb : K) : CGState K V :=
  ⟨x, o.sub b (o.A x), o.zero, 1, o.norm2 (o.sub b (o.A x)) / normb⟩

/-- (S) the `resid` field of every state of the sequence is the tested quantity of its `r` -/
theorem cgStates_resid (o : VOps K V) (b x : V) (normb : K) (k : Nat) :
    (cgStates o normb (cgInit o b x normb) k).resid
      = o.norm2 (cgStates o normb (cgInit o b x normb) k).r / normb := by
  cases k <;> rfl

/-- (S) **`solveCG` on success**: the result is the `x` of state `k = iters ≤ maxIter` of the state
sequence, and the recurrence residual of that state passed the model's test. -/
theorem solveCG_trace (o : VOps K V) (b x : V) (maxIter : Nat) (tol : K)
    (hok : (solveCG o b x maxIter tol).ok = true) :
    (solveCG o b x maxIter tol).iters ≤ maxIter ∧
    (solveCG o b x maxIter tol).x
      = (cgStates o (guardNorm (o.norm2 b)) (cgInit o b x (guardNorm (o.norm2 b)))
          (solveCG o b x maxIter tol).iters).x ∧
    Transc.le (o.norm2 (cgStates o (guardNorm (o.norm2 b)) (cgInit o b x (guardNorm (o.norm2 b)))
          (solveCG o b x maxIter tol).iters).r / guardNorm (o.norm2 b)) tol = true := by
  rw [← cgStates_resid]
  revert hok
  unfold solveCG
  simp only
  split
  · rename_i h0
    intro _
    exact ⟨Nat.zero_le _, rfl, h0⟩
  · intro hok
    rcases loop_trace (cgStep o (guardNorm (o.norm2 b)) tol) (cgNext o (guardNorm (o.norm2 b)))
        CGState.resid CGState.x tol (cgStep_eq_next o _ tol)
        (fun s => ⟨false, maxIter, s.resid, s.x⟩)
        (cgInit o b x (guardNorm (o.norm2 b))) maxIter 0 _ rfl with ⟨k, h1, h2, h3, h4⟩ | h'
    · have h4' : iterate (cgStep o (guardNorm (o.norm2 b)) tol)
          (fun s => (⟨false, maxIter, s.resid, s.x⟩ : KOut K V)) maxIter 1
          ⟨x, o.sub b (o.A x), o.zero, 1, o.norm2 (o.sub b (o.A x)) / guardNorm (o.norm2 b)⟩
          = ⟨true, k, _, _⟩ := h4
      rw [h4']
      exact ⟨by simpa using h2, rfl, h3⟩
    · have h'' : iterate (cgStep o (guardNorm (o.norm2 b)) tol)
          (fun s => (⟨false, maxIter, s.resid, s.x⟩ : KOut K V)) maxIter 1
          ⟨x, o.sub b (o.A x), o.zero, 1, o.norm2 (o.sub b (o.A x)) / guardNorm (o.norm2 b)⟩
          = _ := h'
      rw [h''] at hok
      simp at hok

/-! #### BiCG -/

/-- the search direction `p` of BiCG iteration `i` -/
def bicgP (o : VOps K V) (i : Nat) (s : BiCGState K V) : V :=
  bicgDir o i s.z s.p (o.dot s.z s.rr) s.rho2

/-- the shadow direction `pp` of BiCG iteration `i` -/
def bicgPP (o : VOps K V) (i : Nat) (s : BiCGState K V) : V :=
  bicgDir o i s.rr s.pp (o.dot s.z s.rr) s.rho2

/-- the step length of BiCG iteration `i` -/
def bicgAlpha (o : VOps K V) (i : Nat) (s : BiCGState K V) : K :=
  o.dot s.z s.rr / o.dot (o.A (bicgP o i s)) (bicgPP o i s)

/-- the BiCG state after iteration `i` (the stopping test ignored) -/
def bicgNext (o : VOps K V) (bnrm : K) (itol : Nat) (i : Nat) (s : BiCGState K V) :
    BiCGState K V :=
  ⟨o.add s.x (o.smul (bicgP o i s) (bicgAlpha o i s)),
   o.sub s.r (o.smul (o.A (bicgP o i s)) (bicgAlpha o i s)),
   o.sub s.rr (o.smul (o.At (bicgPP o i s)) (bicgAlpha o i s)),
   o.sub s.r (o.smul (o.A (bicgP o i s)) (bicgAlpha o i s)),
   bicgP o i s,
   bicgPP o i s,
   o.dot s.z s.rr,
   bicgErr o itol (o.sub s.r (o.smul (o.A (bicgP o i s)) (bicgAlpha o i s)))
     (o.sub s.r (o.smul (o.A (bicgP o i s)) (bicgAlpha o i s))) bnrm⟩

/-- (S) `bicgStep` is: compute `bicgNext`, test its `err` -/
theorem bicgStep_eq_next (o : VOps K V) (bnrm tol : K) (itol i : Nat) (s : BiCGState K V) :
    bicgStep o bnrm tol itol i s =
      if Transc.le (bicgNext o bnrm itol i s).err tol
      then .done ⟨true, i, (bicgNext o bnrm itol i s).err, (bicgNext o bnrm itol i s).x⟩
      else .cont (bicgNext o bnrm itol i s) := rfl

/-- the un-tested BiCG state sequence -/
def bicgStates (o : VOps K V) (bnrm : K) (itol : Nat) (s0 : BiCGState K V) : Nat → BiCGState K V :=
  loopStates (bicgNext o bnrm itol) s0

/-- the initial state of `solveBiCG` -/
def bicgInit (o : VOps K V) (b x : V) (bnrm : K) (itol : Nat) : BiCGState K V :=
  ⟨x, o.sub b (o.A x), o.sub b (o.A x), o.sub b (o.A x), o.zero, o.zero, 1,
    bicgErr o itol (o.sub b (o.A x)) (o.sub b (o.A x)) bnrm⟩

/-- with the identity preconditioner both error measures are `norm2 r / bnrm` -/
theorem bicgErr_same (o : VOps K V) (itol : Nat) (r : V) (bnrm : K) :
    bicgErr o itol r r bnrm = o.norm2 r / bnrm := by
  unfold bicgErr
  split <;> rfl

/-- (S) the `err` field of every state of the sequence is the tested quantity of its `r` -/
theorem bicgStates_err (o : VOps K V) (b x : V) (bnrm : K) (itol k : Nat) :
    (bicgStates o bnrm itol (bicgInit o b x bnrm itol) k).err
      = o.norm2 (bicgStates o bnrm itol (bicgInit o b x bnrm itol) k).r / bnrm := by
  rw [← bicgErr_same o itol]
  cases k <;> rfl

/-- (S) **`solveBiCG` on success** (both `itol`): the result is the `x` of state `k = iters ≤ maxIter`
of the state sequence, and the recurrence residual of that state passed the model's test. -/
theorem solveBiCG_trace (o : VOps K V) (b x : V) (maxIter : Nat) (tol : K) (itol : Nat)
    (hok : (solveBiCG o b x maxIter tol itol).ok = true) :
    (solveBiCG o b x maxIter tol itol).iters ≤ maxIter ∧
    (solveBiCG o b x maxIter tol itol).x
      = (bicgStates o (guardNorm (o.norm2 b)) itol (bicgInit o b x (guardNorm (o.norm2 b)) itol)
          (solveBiCG o b x maxIter tol itol).iters).x ∧
    Transc.le (o.norm2 (bicgStates o (guardNorm (o.norm2 b)) itol
          (bicgInit o b x (guardNorm (o.norm2 b)) itol)
          (solveBiCG o b x maxIter tol itol).iters).r / guardNorm (o.norm2 b)) tol = true := by
  rw [← bicgStates_err]
  revert hok
  unfold solveBiCG
  simp only
  split
  · rename_i h0
    intro _
    exact ⟨Nat.zero_le _, rfl, h0⟩
  · intro hok
    rcases loop_trace (bicgStep o (guardNorm (o.norm2 b)) tol itol)
        (bicgNext o (guardNorm (o.norm2 b)) itol)
        BiCGState.err BiCGState.x tol (bicgStep_eq_next o _ tol itol)
        (fun s => ⟨false, maxIter, s.err, s.x⟩)
        (bicgInit o b x (guardNorm (o.norm2 b)) itol) maxIter 0 _ rfl with ⟨k, h1, h2, h3, h4⟩ | h'
    · have h4' : iterate (bicgStep o (guardNorm (o.norm2 b)) tol itol)
          (fun s => (⟨false, maxIter, s.err, s.x⟩ : KOut K V)) maxIter 1
          ⟨x, o.sub b (o.A x), o.sub b (o.A x), o.sub b (o.A x), o.zero, o.zero, 1,
            bicgErr o itol (o.sub b (o.A x)) (o.sub b (o.A x)) (guardNorm (o.norm2 b))⟩
          = ⟨true, k, _, _⟩ := h4
      rw [h4']
      exact ⟨by simpa using h2, rfl, h3⟩
    · have h'' : iterate (bicgStep o (guardNorm (o.norm2 b)) tol itol)
          (fun s => (⟨false, maxIter, s.err, s.x⟩ : KOut K V)) maxIter 1
          ⟨x, o.sub b (o.A x), o.sub b (o.A x), o.sub b (o.A x), o.zero, o.zero, 1,
            bicgErr o itol (o.sub b (o.A x)) (o.sub b (o.A x)) (guardNorm (o.norm2 b))⟩
          = _ := h'
      rw [h''] at hok
      simp at hok

end Structural

/-! ### (F) the drift of the residual recurrence -/
section Rounding

/-! #### abstract layer: perturbed recurrences in a real seminormed space -/
section Abstract
variable {E : Type} [SeminormedAddCommGroup E] [NormedSpace ℝ E]

/-- the drift `d = (b − A x) − r` between the true and the recurrence residual -/
def drift (A : E →ₗ[ℝ] E) (b x r : E) : E := (b - A x) - r

/-- **one step, algebra**: `d' − d = −A ex − er + α eq` with
`ex = x' − (x + α p)`, `er = r' − (r − α q)`, `eq = q − A p`. -/
theorem drift_step_eq (A : E →ₗ[ℝ] E) (b x r p q x' r' : E) (α : ℝ) :
    drift A b x' r' - drift A b x r
      = -A (x' - (x + α • p)) - (r' - (r - α • q)) + α • (q - A p) := by
  simp only [drift, map_sub, map_add, map_smul, smul_sub]
  abel

/-- **one step, norms** -/
theorem drift_step (A : E →ₗ[ℝ] E) (a : ℝ) (hA : ∀ v, ‖A v‖ ≤ a * ‖v‖) (b x r p q x' r' : E)
    (α : ℝ) :
    ‖drift A b x' r'‖ ≤ ‖drift A b x r‖ + a * ‖x' - (x + α • p)‖ + ‖r' - (r - α • q)‖
        + |α| * ‖q - A p‖ := by
  have e := drift_step_eq A b x r p q x' r' α
  have h1 : drift A b x' r'
      = drift A b x r + (-A (x' - (x + α • p)) - (r' - (r - α • q)) + α • (q - A p)) := by
    rw [← e]; abel
  have h2 := norm_add_le (drift A b x r)
    (-A (x' - (x + α • p)) - (r' - (r - α • q)) + α • (q - A p))
  have h3 := norm_add_le (-A (x' - (x + α • p)) - (r' - (r - α • q))) (α • (q - A p))
  have h4 := norm_sub_le (-A (x' - (x + α • p))) (r' - (r - α • q))
  rw [norm_neg] at h4
  have h5 : ‖α • (q - A p)‖ = |α| * ‖q - A p‖ := by rw [norm_smul, Real.norm_eq_abs]
  have h6 := hA (x' - (x + α • p))
  rw [← h1] at h2
  linarith

/-- **two roundings, addition**: `x' = fl(x + t)`, `t = fl(v)` (in norm form) gives
`‖x' − (x + v)‖ ≤ u ‖x‖ + (2u + u²) ‖v‖`. -/
theorem update_err (u : ℝ) (hu : 0 ≤ u) (x v t x' : E)
    (ht : ‖t - v‖ ≤ u * ‖v‖) (hx : ‖x' - (x + t)‖ ≤ u * ‖x + t‖) :
    ‖x' - (x + v)‖ ≤ u * ‖x‖ + (2 * u + u ^ 2) * ‖v‖ := by
  have e : x' - (x + v) = (x' - (x + t)) + (t - v) := by abel
  have h1 := norm_add_le (x' - (x + t)) (t - v)
  rw [← e] at h1
  have h2 := norm_add_le x t
  have h3 : ‖t‖ ≤ ‖t - v‖ + ‖v‖ := by simpa using norm_add_le (t - v) v
  have h4 : u * ‖x + t‖ ≤ u * (‖x‖ + ((u * ‖v‖) + ‖v‖)) :=
    mul_le_mul_of_nonneg_left (by linarith) hu
  nlinarith

/-- **two roundings, subtraction**: `r' = fl(r − t)`, `t = fl(v)` -/
theorem update_err_sub (u : ℝ) (hu : 0 ≤ u) (r v t r' : E)
    (ht : ‖t - v‖ ≤ u * ‖v‖) (hr : ‖r' - (r - t)‖ ≤ u * ‖r - t‖) :
    ‖r' - (r - v)‖ ≤ u * ‖r‖ + (2 * u + u ^ 2) * ‖v‖ := by
  have e : r' - (r - v) = (r' - (r - t)) - (t - v) := by abel
  have h1 := norm_sub_le (r' - (r - t)) (t - v)
  rw [← e] at h1
  have h2 := norm_sub_le r t
  have h3 : ‖t‖ ≤ ‖t - v‖ + ‖v‖ := by simpa using norm_add_le (t - v) v
  have h4 : u * ‖r - t‖ ≤ u * (‖r‖ + ((u * ‖v‖) + ‖v‖)) :=
    mul_le_mul_of_nonneg_left (by linarith) hu
  nlinarith

/-- the perturbed recurrences of a run of `k` iterations (see the file header) -/
structure DriftRun (A : E →ₗ[ℝ] E) (a u εA : ℝ) (k : ℕ) (x r p q : ℕ → E) (α : ℕ → ℝ) : Prop where
  a_nonneg : 0 ≤ a
  u_nonneg : 0 ≤ u
  ε_nonneg : 0 ≤ εA
  opA : ∀ v, ‖A v‖ ≤ a * ‖v‖
  hq : ∀ i, i < k → ‖q i - A (p i)‖ ≤ εA * a * ‖p i‖
  hx : ∀ i, i < k →
    ‖x (i + 1) - (x i + α i • p i)‖ ≤ u * ‖x i‖ + (2 * u + u ^ 2) * ‖α i • p i‖
  hr : ∀ i, i < k →
    ‖r (i + 1) - (r i - α i • q i)‖ ≤ u * ‖r i‖ + (2 * u + u ^ 2) * ‖α i • q i‖

/-- the per-step constant multiplying `a ‖α p‖`: `(2u+u²)(2+εA) + εA` -/
def stepC (u εA : ℝ) : ℝ := (2 * u + u ^ 2) * (2 + εA) + εA

theorem stepC_nonneg {u εA : ℝ} (hu : 0 ≤ u) (hε : 0 ≤ εA) : 0 ≤ stepC u εA := by
  unfold stepC; positivity

/-- `stepC u εA ≤ u (5 + 2 cA)` when `εA ≤ cA u` and `u ≤ 1/8` -/
theorem stepC_le {u εA cA : ℝ} (hu : 0 ≤ u) (hε : 0 ≤ εA) (hcA : 0 ≤ cA) (hεc : εA ≤ cA * u)
    (hu8 : u ≤ 1 / 8) : stepC u εA ≤ u * (5 + 2 * cA) := by
  unfold stepC
  have h1 : εA ≤ cA / 8 := by nlinarith
  have h2 : 2 * u + u ^ 2 ≤ u * (17 / 8) := by nlinarith
  have h3 : (2 * u + u ^ 2) * (2 + εA) ≤ u * (17 / 8) * (2 + cA / 8) :=
    mul_le_mul h2 (by linarith) (by linarith) (by positivity)
  have h4 : 0 ≤ u * cA := mul_nonneg hu hcA
  nlinarith

variable {A : E →ₗ[ℝ] E} {a u εA : ℝ} {k : ℕ} {x r p q : ℕ → E} {α : ℕ → ℝ}

theorem DriftRun.mono (H : DriftRun A a u εA k x r p q α) {j : ℕ} (hj : j ≤ k) :
    DriftRun A a u εA j x r p q α :=
  ⟨H.a_nonneg, H.u_nonneg, H.ε_nonneg, H.opA, fun i hi => H.hq i (by omega),
    fun i hi => H.hx i (by omega), fun i hi => H.hr i (by omega)⟩

/-- a larger product error is allowed -/
theorem DriftRun.mono_eps (H : DriftRun A a u εA k x r p q α) {ε' : ℝ} (h : εA ≤ ε') :
    DriftRun A a u ε' k x r p q α :=
  ⟨H.a_nonneg, H.u_nonneg, H.ε_nonneg.trans h, H.opA,
    fun i hi => (H.hq i hi).trans (by
      have := mul_nonneg H.a_nonneg (norm_nonneg (p i))
      nlinarith),
    H.hx, H.hr⟩

/-- **one step of a perturbed run**:
`‖d_{i+1}‖ ≤ ‖d_i‖ + u (a ‖x_i‖ + ‖r_i‖) + stepC · a · ‖α_i p_i‖` -/
theorem DriftRun.step (H : DriftRun A a u εA k x r p q α) (b : E) (i : ℕ) (hi : i < k) :
    ‖drift A b (x (i + 1)) (r (i + 1))‖
      ≤ ‖drift A b (x i) (r i)‖ + u * (a * ‖x i‖ + ‖r i‖) + stepC u εA * a * ‖α i • p i‖ := by
  have ha := H.a_nonneg
  have hu := H.u_nonneg
  have hε := H.ε_nonneg
  have hs := drift_step A a H.opA b (x i) (r i) (p i) (q i) (x (i + 1)) (r (i + 1)) (α i)
  have hx := H.hx i hi
  have hr := H.hr i hi
  have hq := H.hq i hi
  have hαp : ‖α i • p i‖ = |α i| * ‖p i‖ := by rw [norm_smul, Real.norm_eq_abs]
  have hαq : ‖α i • q i‖ = |α i| * ‖q i‖ := by rw [norm_smul, Real.norm_eq_abs]
  rw [hαp] at hx ⊢
  rw [hαq] at hr
  have hqn : ‖q i‖ ≤ εA * a * ‖p i‖ + a * ‖p i‖ := by
    have h := norm_add_le (q i - A (p i)) (A (p i))
    rw [sub_add_cancel] at h
    have := H.opA (p i)
    linarith
  have hα := abs_nonneg (α i)
  have hp := norm_nonneg (p i)
  have hc : 0 ≤ 2 * u + u ^ 2 := by positivity
  have h1 : |α i| * ‖q i‖ ≤ |α i| * (εA * a * ‖p i‖ + a * ‖p i‖) :=
    mul_le_mul_of_nonneg_left hqn hα
  have h2 : |α i| * ‖q i - A (p i)‖ ≤ |α i| * (εA * a * ‖p i‖) :=
    mul_le_mul_of_nonneg_left hq hα
  have h3 : a * ‖x (i + 1) - (x i + α i • p i)‖
      ≤ a * (u * ‖x i‖ + (2 * u + u ^ 2) * (|α i| * ‖p i‖)) :=
    mul_le_mul_of_nonneg_left hx ha
  have h4 : (2 * u + u ^ 2) * (|α i| * ‖q i‖)
      ≤ (2 * u + u ^ 2) * (|α i| * (εA * a * ‖p i‖ + a * ‖p i‖)) :=
    mul_le_mul_of_nonneg_left h1 hc
  unfold stepC
  nlinarith

/-- **accumulated drift, sum form** -/
theorem DriftRun.bound_sum (H : DriftRun A a u εA k x r p q α) (b : E) :
    ∀ j, j ≤ k → ‖drift A b (x j) (r j)‖ ≤ ‖drift A b (x 0) (r 0)‖
      + ∑ i ∈ Finset.range j, (u * (a * ‖x i‖ + ‖r i‖) + stepC u εA * a * ‖α i • p i‖)
  | 0, _ => by simp
  | j + 1, hj => by
    rw [Finset.sum_range_succ]
    have h1 := DriftRun.bound_sum H b j (by omega)
    have h2 := H.step b j (by omega)
    linarith

/-- **accumulated drift, `drift_bound`**: with `‖x_i‖ ≤ X`, `‖r_i‖ ≤ R`, `‖α_i p_i‖ ≤ W` (`i < k`)
`‖(b − A x_k) − r_k‖ ≤ ‖d_0‖ + k · (u (a X + R) + stepC u εA · a · W)` -/
theorem DriftRun.bound (H : DriftRun A a u εA k x r p q α) (b : E) (X R W : ℝ)
    (hX : ∀ i, i < k → ‖x i‖ ≤ X) (hR : ∀ i, i < k → ‖r i‖ ≤ R)
    (hW : ∀ i, i < k → ‖α i • p i‖ ≤ W) :
    ‖drift A b (x k) (r k)‖ ≤ ‖drift A b (x 0) (r 0)‖
      + k * (u * (a * X + R) + stepC u εA * a * W) := by
  have hs := H.bound_sum b k le_rfl
  have hc := stepC_nonneg H.u_nonneg H.ε_nonneg
  have hle : ∑ i ∈ Finset.range k, (u * (a * ‖x i‖ + ‖r i‖) + stepC u εA * a * ‖α i • p i‖)
      ≤ ∑ _i ∈ Finset.range k, (u * (a * X + R) + stepC u εA * a * W) := by
    apply Finset.sum_le_sum
    intro i hi
    have hi' : i < k := Finset.mem_range.mp hi
    have h1 : u * (a * ‖x i‖ + ‖r i‖) ≤ u * (a * X + R) :=
      mul_le_mul_of_nonneg_left
        (add_le_add (mul_le_mul_of_nonneg_left (hX i hi') H.a_nonneg) (hR i hi')) H.u_nonneg
    have h2 : stepC u εA * a * ‖α i • p i‖ ≤ stepC u εA * a * W :=
      mul_le_mul_of_nonneg_left (hW i hi') (mul_nonneg hc H.a_nonneg)
    linarith
  rw [Finset.sum_const, Finset.card_range, nsmul_eq_mul] at hle
  linarith

/-- the update is controlled by the iterates: `‖α_i p_i‖ ≤ 3 X` when `u ≤ 1/8` -/
theorem DriftRun.update_le_iterates (H : DriftRun A a u εA k x r p q α) (hu8 : u ≤ 1 / 8) (X : ℝ)
    (i : ℕ) (hi : i < k) (h0 : ‖x i‖ ≤ X) (h1 : ‖x (i + 1)‖ ≤ X) : ‖α i • p i‖ ≤ 3 * X := by
  have hu := H.u_nonneg
  have hx := H.hx i hi
  have hX : 0 ≤ X := (norm_nonneg _).trans h0
  have e : α i • p i = (x (i + 1) - x i) - (x (i + 1) - (x i + α i • p i)) := by abel
  have h2 := norm_sub_le (x (i + 1) - x i) (x (i + 1) - (x i + α i • p i))
  rw [← e] at h2
  have h3 := norm_sub_le (x (i + 1)) (x i)
  have hw := norm_nonneg (α i • p i)
  have h4 : 2 * u + u ^ 2 ≤ 17 / 64 := by nlinarith
  have h5 : (2 * u + u ^ 2) * ‖α i • p i‖ ≤ 17 / 64 * ‖α i • p i‖ :=
    mul_le_mul_of_nonneg_right h4 hw
  have h6 : u * ‖x i‖ ≤ 1 / 8 * X := mul_le_mul hu8 h0 (norm_nonneg _) (by norm_num)
  linarith

/-- **accumulated drift in terms of the iterates only** (`u ≤ 1/8`):
`‖d_k‖ ≤ ‖d_0‖ + k · (u (a X + R) + 3 · stepC u εA · a · X)` -/
theorem DriftRun.bound_iterates (H : DriftRun A a u εA k x r p q α) (b : E) (hu8 : u ≤ 1 / 8)
    (X R : ℝ) (hX : ∀ i, i ≤ k → ‖x i‖ ≤ X) (hR : ∀ i, i < k → ‖r i‖ ≤ R) :
    ‖drift A b (x k) (r k)‖ ≤ ‖drift A b (x 0) (r 0)‖
      + k * (u * (a * X + R) + 3 * stepC u εA * a * X) := by
  have h := H.bound b X R (3 * X) (fun i hi => hX i (by omega)) hR
    (fun i hi => H.update_le_iterates hu8 X i hi (hX i (by omega)) (hX (i + 1) (by omega)))
  have e : stepC u εA * a * (3 * X) = 3 * stepC u εA * a * X := by ring
  rw [e] at h
  exact h

/-- **`drift_bound`, explicit in `u`**: if the product error is `εA ≤ cA · u` and `u ≤ 1/8`,
`‖(b − A x_k) − r_k‖ ≤ ‖d_0‖ + k · u · ((16 + 6 cA) · a · X + R)`:
proportional to `u`, the iteration count `k`, the operator bound `a ≥ ‖A‖`, the largest iterate `X`
(and the largest recurrence residual `R`). -/
theorem DriftRun.bound_u (H : DriftRun A a u εA k x r p q α) (b : E) (hu8 : u ≤ 1 / 8)
    (cA : ℝ) (hcA : 0 ≤ cA) (hεc : εA ≤ cA * u)
    (X R : ℝ) (hX : ∀ i, i ≤ k → ‖x i‖ ≤ X) (hR : ∀ i, i < k → ‖r i‖ ≤ R) :
    ‖drift A b (x k) (r k)‖ ≤ ‖drift A b (x 0) (r 0)‖
      + k * u * ((16 + 6 * cA) * a * X + R) := by
  have h := H.bound_iterates b hu8 X R hX hR
  have hc := stepC_le H.u_nonneg H.ε_nonneg hcA hεc hu8
  have hX0 : 0 ≤ X := (norm_nonneg _).trans (hX 0 (Nat.zero_le _))
  have haX : 0 ≤ a * X := mul_nonneg H.a_nonneg hX0
  have h1 : stepC u εA * (a * X) ≤ u * (5 + 2 * cA) * (a * X) :=
    mul_le_mul_of_nonneg_right hc haX
  have hk : (0 : ℝ) ≤ k := Nat.cast_nonneg k
  have h2 : (k : ℝ) * (u * (a * X + R) + 3 * stepC u εA * a * X)
      ≤ k * (u * (a * X + R) + 3 * (u * (5 + 2 * cA) * (a * X))) :=
    mul_le_mul_of_nonneg_left (by nlinarith) hk
  calc ‖drift A b (x k) (r k)‖
      ≤ ‖drift A b (x 0) (r 0)‖ + k * (u * (a * X + R) + 3 * stepC u εA * a * X) := h
    _ ≤ ‖drift A b (x 0) (r 0)‖ + k * (u * (a * X + R) + 3 * (u * (5 + 2 * cA) * (a * X))) := by
        linarith
    _ = _ := by ring

/-- **initial drift**: `r_0 = fl(b − y)`, `y = fl(A x_0)` (in norm form) gives
`‖(b − A x_0) − r_0‖ ≤ u (‖b‖ + (1+εA) a ‖x_0‖) + εA a ‖x_0‖`. -/
theorem drift_init (A : E →ₗ[ℝ] E) (a u εA : ℝ) (ha : 0 ≤ a) (hu : 0 ≤ u) (hε : 0 ≤ εA)
    (hA : ∀ v, ‖A v‖ ≤ a * ‖v‖) (b x0 y r0 : E)
    (hy : ‖y - A x0‖ ≤ εA * a * ‖x0‖) (hr : ‖r0 - (b - y)‖ ≤ u * ‖b - y‖) :
    ‖drift A b x0 r0‖ ≤ u * (‖b‖ + (1 + εA) * a * ‖x0‖) + εA * a * ‖x0‖ := by
  have e : drift A b x0 r0 = (y - A x0) - (r0 - (b - y)) := by unfold drift; abel
  have h1 := norm_sub_le (y - A x0) (r0 - (b - y))
  rw [← e] at h1
  have h2 := norm_sub_le b y
  have h3 : ‖y‖ ≤ ‖y - A x0‖ + ‖A x0‖ := by simpa using norm_add_le (y - A x0) (A x0)
  have h4 := hA x0
  have h5 : u * ‖b - y‖ ≤ u * (‖b‖ + (εA * a * ‖x0‖ + a * ‖x0‖)) :=
    mul_le_mul_of_nonneg_left (by linarith) hu
  nlinarith

/-- the initial drift, explicit in `u` (`εA ≤ cA u`, `u ≤ 1/8`, `‖x_0‖ ≤ X`):
`‖d_0‖ ≤ u (‖b‖ + (1 + 2 cA) a X)` -/
theorem drift_init_u (A : E →ₗ[ℝ] E) (a u εA : ℝ) (ha : 0 ≤ a) (hu : 0 ≤ u) (hε : 0 ≤ εA)
    (hA : ∀ v, ‖A v‖ ≤ a * ‖v‖) (b x0 y r0 : E)
    (hy : ‖y - A x0‖ ≤ εA * a * ‖x0‖) (hr : ‖r0 - (b - y)‖ ≤ u * ‖b - y‖)
    (hu8 : u ≤ 1 / 8) (cA : ℝ) (hcA : 0 ≤ cA) (hεc : εA ≤ cA * u) (X : ℝ) (hX : ‖x0‖ ≤ X) :
    ‖drift A b x0 r0‖ ≤ u * (‖b‖ + (1 + 2 * cA) * a * X) := by
  have h := drift_init A a u εA ha hu hε hA b x0 y r0 hy hr
  have hx0 := norm_nonneg x0
  have hax : a * ‖x0‖ ≤ a * X := mul_le_mul_of_nonneg_left hX ha
  have hax0 : 0 ≤ a * ‖x0‖ := mul_nonneg ha hx0
  have h1 : εA * (a * ‖x0‖) ≤ cA * u * (a * X) :=
    mul_le_mul hεc hax hax0 (mul_nonneg hcA hu)
  have h2 : u * (εA * (a * ‖x0‖)) ≤ u * (cA * u * (a * X)) := mul_le_mul_of_nonneg_left h1 hu
  have h3 : u * (cA * u * (a * X)) ≤ 1 / 8 * (cA * u * (a * X)) :=
    mul_le_mul_of_nonneg_right hu8 (le_trans (mul_nonneg hε hax0) h1)
  have h4 : u * (a * ‖x0‖) ≤ u * (a * X) := mul_le_mul_of_nonneg_left hax hu
  have h5 : 0 ≤ cA * u * (a * X) := le_trans (mul_nonneg hε hax0) h1
  nlinarith

/-- **true residual, general form**: `‖b − A x_k‖ ≤ ‖r_k‖ + ‖d_0‖ + k (u (a X + R) + stepC a W)` -/
theorem success_true_residual_gen (H : DriftRun A a u εA k x r p q α) (b : E) (X R W : ℝ)
    (hX : ∀ i, i < k → ‖x i‖ ≤ X) (hR : ∀ i, i < k → ‖r i‖ ≤ R)
    (hW : ∀ i, i < k → ‖α i • p i‖ ≤ W) :
    ‖b - A (x k)‖ ≤ ‖r k‖ + ‖drift A b (x 0) (r 0)‖
      + k * (u * (a * X + R) + stepC u εA * a * W) := by
  have h := H.bound b X R W hX hR hW
  have e : b - A (x k) = drift A b (x k) (r k) + r k := by unfold drift; abel
  have h1 := norm_add_le (drift A b (x k) (r k)) (r k)
  rw [← e] at h1
  linarith

/-- **C08, quantitative clause (abstract form)**: a run of `k` iterations with perturbed
recurrences (`u ≤ 1/8`, product error `εA ≤ cA u`), started from `r_0 = fl(b − fl(A x_0))`, whose
iterates are bounded by `X` and recurrence residuals by `R`, and which stops because
`‖r_k‖ ≤ tol ‖b‖`, has TRUE residual
`‖b − A x_k‖ ≤ tol ‖b‖ + u (‖b‖ + (1 + 2 cA) a X) + k · u · ((16 + 6 cA) a X + R)`. -/
theorem success_true_residual (H : DriftRun A a u εA k x r p q α) (b y : E)
    (hy : ‖y - A (x 0)‖ ≤ εA * a * ‖x 0‖) (hr0 : ‖r 0 - (b - y)‖ ≤ u * ‖b - y‖)
    (hu8 : u ≤ 1 / 8) (cA : ℝ) (hcA : 0 ≤ cA) (hεc : εA ≤ cA * u)
    (X R : ℝ) (hX : ∀ i, i ≤ k → ‖x i‖ ≤ X) (hR : ∀ i, i < k → ‖r i‖ ≤ R)
    (tol : ℝ) (hstop : ‖r k‖ ≤ tol * ‖b‖) :
    ‖b - A (x k)‖ ≤ tol * ‖b‖ + u * (‖b‖ + (1 + 2 * cA) * a * X)
      + k * u * ((16 + 6 * cA) * a * X + R) := by
  have h := H.bound_u b hu8 cA hcA hεc X R hX hR
  have h0 := drift_init_u A a u εA H.a_nonneg H.u_nonneg H.ε_nonneg H.opA b (x 0) y (r 0) hy hr0
    hu8 cA hcA hεc X (hX 0 (Nat.zero_le _))
  have e : b - A (x k) = drift A b (x k) (r k) + r k := by unfold drift; abel
  have h1 := norm_add_le (drift A b (x k) (r k)) (r k)
  rw [← e] at h1
  linarith

end Abstract

/-! #### model layer: CG over componentwise rounded vectors `Fin n → Fl M` -/
section Model
variable {M : FlModel} {n : ℕ}

/-- the real values of a vector of rounded reals -/
def vval (v : Fin n → Fl M) : Fin n → ℝ := fun i => (v i).val

/-- The operation record over `Fin n → Fl M`: componentwise rounded vector operations in the forms
of the source (`v[i] * s`, `s * v[i]`, `v[i] / s`), arbitrary dot product, norm and products. -/
noncomputable def flOps (mv mvT : (Fin n → Fl M) → (Fin n → Fl M)) (dot : (Fin n → Fl M) → (Fin n → Fl M) → Fl M)
    (norm2 : (Fin n → Fl M) → Fl M) : VOps (Fl M) (Fin n → Fl M) where
  add v w := fun i => v i + w i
  sub v w := fun i => v i - w i
  smul v k := fun i => v i * k
  lsmul k v := fun i => k * v i
  sdiv v k := fun i => v i / k
  dot := dot
  norm2 := norm2
  zero := fun _ => 0
  A := mv
  At := mvT

/-- componentwise relative error gives the same relative error in the ∞-norm -/
theorem norm_sub_le_of_componentwise (u : ℝ) (hu : 0 ≤ u) (w z : Fin n → ℝ)
    (h : ∀ i, |w i - z i| ≤ u * |z i|) : ‖w - z‖ ≤ u * ‖z‖ := by
  refine (pi_norm_le_iff_of_nonneg (mul_nonneg hu (norm_nonneg z))).2 fun i => ?_
  have h1 := norm_le_pi_norm z i
  rw [Real.norm_eq_abs] at h1
  rw [Real.norm_eq_abs, Pi.sub_apply]
  exact (h i).trans (mul_le_mul_of_nonneg_left h1 hu)

theorem vval_add_err (v w : Fin n → Fl M) :
    ‖vval (fun i => v i + w i) - (vval v + vval w)‖ ≤ M.u * ‖vval v + vval w‖ :=
  norm_sub_le_of_componentwise M.u M.u_nonneg _ _ (fun i => Fl.add_err (v i) (w i))

theorem vval_sub_err (v w : Fin n → Fl M) :
    ‖vval (fun i => v i - w i) - (vval v - vval w)‖ ≤ M.u * ‖vval v - vval w‖ :=
  norm_sub_le_of_componentwise M.u M.u_nonneg _ _ (fun i => Fl.sub_err (v i) (w i))

theorem vval_smul_err (v : Fin n → Fl M) (k : Fl M) :
    ‖vval (fun i => v i * k) - k.val • vval v‖ ≤ M.u * ‖k.val • vval v‖ :=
  norm_sub_le_of_componentwise M.u M.u_nonneg _ _ (fun i => by
    have := Fl.mul_err (v i) k
    simpa [vval, mul_comm] using this)

/-- The assumption on the computed matrix–vector product `mv` (the `A` field of the record):
`A` is a real linear map with ∞-norm bound `a`, and `mv` computes it with relative error `εA`
w.r.t. `a ‖v‖∞` (implied by the componentwise bound `|mv v − A v| ≤ εA |A| |v|`, see
`flMatVec_of_componentwise`). -/
structure FlMatVec (mv : (Fin n → Fl M) → (Fin n → Fl M)) (A : (Fin n → ℝ) →ₗ[ℝ] (Fin n → ℝ))
    (a εA : ℝ) : Prop where
  a_nonneg : 0 ≤ a
  ε_nonneg : 0 ≤ εA
  opA : ∀ v, ‖A v‖ ≤ a * ‖v‖
  err : ∀ v, ‖vval (mv v) - A (vval v)‖ ≤ εA * a * ‖vval v‖

/-- the linear map of a real matrix given by its entries -/
def rowLin (Am : Fin n → Fin n → ℝ) : (Fin n → ℝ) →ₗ[ℝ] (Fin n → ℝ) where
  toFun v i := ∑ j, Am i j * v j
  map_add' v w := by
    funext i
    simp only [Pi.add_apply, mul_add, Finset.sum_add_distrib]
  map_smul' c v := by
    funext i
    simp only [Pi.smul_apply, smul_eq_mul, RingHom.id_apply, Finset.mul_sum]
    apply Finset.sum_congr rfl
    intro j _
    ring

theorem rowLin_apply (Am : Fin n → Fin n → ℝ) (v : Fin n → ℝ) (i : Fin n) :
    rowLin Am v i = ∑ j, Am i j * v j := rfl

/-- `Σ_j |A_ij| |v_j| ≤ a ‖v‖∞` when the absolute row sums are `≤ a` -/
theorem abs_row_le (Am : Fin n → Fin n → ℝ) (a : ℝ) (hrow : ∀ i, ∑ j, |Am i j| ≤ a)
    (v : Fin n → ℝ) (i : Fin n) : ∑ j, |Am i j| * |v j| ≤ a * ‖v‖ := by
  have h1 : ∑ j, |Am i j| * |v j| ≤ ∑ j, |Am i j| * ‖v‖ := by
    apply Finset.sum_le_sum
    intro j _
    have := norm_le_pi_norm v j
    rw [Real.norm_eq_abs] at this
    exact mul_le_mul_of_nonneg_left this (abs_nonneg _)
  rw [← Finset.sum_mul] at h1
  exact h1.trans (mul_le_mul_of_nonneg_right (hrow i) (norm_nonneg v))

/-- **the classical componentwise bound implies `FlMatVec`** with `a` = a bound of the absolute
row sums (`‖A‖∞`): if `|mv v − A v|_i ≤ εA (|A| |v|)_i` for all `v`, `i`. -/
theorem flMatVec_of_componentwise (mv : (Fin n → Fl M) → (Fin n → Fl M))
    (Am : Fin n → Fin n → ℝ) (a εA : ℝ) (ha : 0 ≤ a) (hε : 0 ≤ εA)
    (hrow : ∀ i, ∑ j, |Am i j| ≤ a)
    (h : ∀ v i, |(mv v i).val - ∑ j, Am i j * (v j).val| ≤ εA * ∑ j, |Am i j| * |(v j).val|) :
    FlMatVec mv (rowLin Am) a εA where
  a_nonneg := ha
  ε_nonneg := hε
  opA v := by
    refine (pi_norm_le_iff_of_nonneg (mul_nonneg ha (norm_nonneg v))).2 fun i => ?_
    rw [Real.norm_eq_abs, rowLin_apply]
    refine (Finset.abs_sum_le_sum_abs _ _).trans ?_
    simp only [abs_mul]
    exact abs_row_le Am a hrow v i
  err v := by
    refine (pi_norm_le_iff_of_nonneg
      (mul_nonneg (mul_nonneg hε ha) (norm_nonneg (vval v)))).2 fun i => ?_
    rw [Real.norm_eq_abs, Pi.sub_apply, rowLin_apply]
    refine (h v i).trans ?_
    rw [mul_assoc]
    exact mul_le_mul_of_nonneg_left (abs_row_le Am a hrow (vval v) i) hε

variable [Transc (Fl M)]
variable {mv mvT : (Fin n → Fl M) → (Fin n → Fl M)}
  {dot : (Fin n → Fl M) → (Fin n → Fl M) → Fl M} {norm2 : (Fin n → Fl M) → Fl M}
  {A : (Fin n → ℝ) →ₗ[ℝ] (Fin n → ℝ)} {a εA : ℝ}

/-- **the model's CG states satisfy the perturbed recurrences** (∞-norm, `u = M.u`), for every
length `k`, every start state `s0` and every divisor `normb`: with
`x_j, r_j` the values of the `x`, `r` fields of state `j`, `p_j`, `α_j` the direction and the step
length computed in iteration `j+1`, and `q_j` the computed product `mv p_j`. -/
theorem cg_driftRun (H : FlMatVec mv A a εA) (normb : Fl M) (s0 : CGState (Fl M) (Fin n → Fl M))
    (k : ℕ) :
    DriftRun A a M.u εA k
      (fun j => vval (cgStates (flOps mv mvT dot norm2) normb s0 j).x)
      (fun j => vval (cgStates (flOps mv mvT dot norm2) normb s0 j).r)
      (fun j => vval (cgP (flOps mv mvT dot norm2) (j + 1)
        (cgStates (flOps mv mvT dot norm2) normb s0 j)))
      (fun j => vval (mv (cgP (flOps mv mvT dot norm2) (j + 1)
        (cgStates (flOps mv mvT dot norm2) normb s0 j))))
      (fun j => (cgAlpha (flOps mv mvT dot norm2) (j + 1)
        (cgStates (flOps mv mvT dot norm2) normb s0 j)).val) where
  a_nonneg := H.a_nonneg
  u_nonneg := M.u_nonneg
  ε_nonneg := H.ε_nonneg
  opA := H.opA
  hq i _ := H.err _
  hx i _ := by
    exact update_err M.u M.u_nonneg _ _ _ _ (vval_smul_err _ _) (vval_add_err _ _)
  hr i _ := by
    exact update_err_sub M.u M.u_nonneg _ _ _ _ (vval_smul_err _ _) (vval_sub_err _ _)

/-- **initial drift of the model's CG**: `r_0 = b − mv x_0` componentwise rounded -/
theorem cg_init_drift (H : FlMatVec mv A a εA) (b x0 : Fin n → Fl M) (normb : Fl M) :
    ‖drift A (vval b) (vval (cgInit (flOps mv mvT dot norm2) b x0 normb).x)
        (vval (cgInit (flOps mv mvT dot norm2) b x0 normb).r)‖
      ≤ M.u * (‖vval b‖ + (1 + εA) * a * ‖vval x0‖) + εA * a * ‖vval x0‖ :=
  drift_init A a M.u εA H.a_nonneg M.u_nonneg H.ε_nonneg H.opA (vval b) (vval x0) (vval (mv x0)) _
    (H.err x0) (vval_sub_err b (mv x0))

/-- **C08 quantitative clause for the model's CG** (standard model, ∞-norm).  Let
`out = solveCG (flOps mv mvT dot norm2) b x0 maxIter tol` report success, `st j` be the computed
states, `X` bound the iterates `‖x_j‖∞` (`j ≤ iters`), `R` the recurrence residuals `‖r_j‖∞`
(`j < iters`), `M.u ≤ 1/8` and the product error be `εA ≤ cA · u`.  Then the recurrence residual
`rk` of the exit state passed the model's test, and the TRUE residual of the returned `x` differs
from it by at most
`u (‖b‖ + (1 + 2 cA) a X) + iters · u · ((16 + 6 cA) a X + R)`. -/
theorem cg_success_true_residual (H : FlMatVec mv A a εA) (b x0 : Fin n → Fl M) (maxIter : ℕ)
    (tol : Fl M) (hu8 : M.u ≤ 1 / 8) (cA : ℝ) (hcA : 0 ≤ cA) (hεc : εA ≤ cA * M.u) (X R : ℝ)
    (hok : (solveCG (flOps mv mvT dot norm2) b x0 maxIter tol).ok = true)
    (hX : ∀ j, j ≤ (solveCG (flOps mv mvT dot norm2) b x0 maxIter tol).iters →
      ‖vval (cgStates (flOps mv mvT dot norm2) (guardNorm (norm2 b))
        (cgInit (flOps mv mvT dot norm2) b x0 (guardNorm (norm2 b))) j).x‖ ≤ X)
    (hR : ∀ j, j < (solveCG (flOps mv mvT dot norm2) b x0 maxIter tol).iters →
      ‖vval (cgStates (flOps mv mvT dot norm2) (guardNorm (norm2 b))
        (cgInit (flOps mv mvT dot norm2) b x0 (guardNorm (norm2 b))) j).r‖ ≤ R) :
    ∃ rk : Fin n → Fl M,
      rk = (cgStates (flOps mv mvT dot norm2) (guardNorm (norm2 b))
        (cgInit (flOps mv mvT dot norm2) b x0 (guardNorm (norm2 b)))
        (solveCG (flOps mv mvT dot norm2) b x0 maxIter tol).iters).r ∧
      (solveCG (flOps mv mvT dot norm2) b x0 maxIter tol).iters ≤ maxIter ∧
      Transc.le (norm2 rk / guardNorm (norm2 b)) tol = true ∧
      ‖(vval b - A (vval (solveCG (flOps mv mvT dot norm2) b x0 maxIter tol).x)) - vval rk‖
        ≤ M.u * (‖vval b‖ + (1 + 2 * cA) * a * X)
          + (solveCG (flOps mv mvT dot norm2) b x0 maxIter tol).iters * M.u
              * ((16 + 6 * cA) * a * X + R) := by
  obtain ⟨h1, h2, h3⟩ := solveCG_trace (flOps mv mvT dot norm2) b x0 maxIter tol hok
  refine ⟨_, rfl, h1, h3, ?_⟩
  rw [h2]
  set k := (solveCG (flOps mv mvT dot norm2) b x0 maxIter tol).iters
  have D := cg_driftRun (mvT := mvT) (dot := dot) (norm2 := norm2) H (guardNorm (norm2 b))
    (cgInit (flOps mv mvT dot norm2) b x0 (guardNorm (norm2 b))) k
  have hb := D.bound_u (vval b) hu8 cA hcA hεc X R hX hR
  have h0 := drift_init_u A a M.u εA H.a_nonneg M.u_nonneg H.ε_nonneg H.opA (vval b) (vval x0)
    (vval (mv x0)) (vval (fun i => b i - mv x0 i)) (H.err x0) (vval_sub_err b (mv x0))
    hu8 cA hcA hεc X (hX 0 (Nat.zero_le _))
  have hb' : ‖drift A (vval b)
      (vval (cgStates (flOps mv mvT dot norm2) (guardNorm (norm2 b))
        (cgInit (flOps mv mvT dot norm2) b x0 (guardNorm (norm2 b))) k).x)
      (vval (cgStates (flOps mv mvT dot norm2) (guardNorm (norm2 b))
        (cgInit (flOps mv mvT dot norm2) b x0 (guardNorm (norm2 b))) k).r)‖
      ≤ ‖drift A (vval b) (vval x0) (vval (fun i => b i - mv x0 i))‖
        + k * M.u * ((16 + 6 * cA) * a * X + R) := hb
  unfold drift at hb' h0
  refine le_trans hb' ?_
  linarith

/-- the same with the norm of the recurrence residual: if passing the model's stopping test
(arbitrary `norm2`, rounded `/`, arbitrary comparison) implies `‖r‖∞ ≤ τ`, then on success
`‖b − A x_out‖∞ ≤ τ + u (‖b‖ + (1 + 2 cA) a X) + iters · u · ((16 + 6 cA) a X + R)`. -/
theorem cg_success_true_residual_norm (H : FlMatVec mv A a εA) (b x0 : Fin n → Fl M)
    (maxIter : ℕ) (tol : Fl M) (hu8 : M.u ≤ 1 / 8) (cA : ℝ) (hcA : 0 ≤ cA) (hεc : εA ≤ cA * M.u)
    (X R τ : ℝ)
    (htest : ∀ r : Fin n → Fl M, Transc.le (norm2 r / guardNorm (norm2 b)) tol = true →
      ‖vval r‖ ≤ τ)
    (hok : (solveCG (flOps mv mvT dot norm2) b x0 maxIter tol).ok = true)
    (hX : ∀ j, j ≤ (solveCG (flOps mv mvT dot norm2) b x0 maxIter tol).iters →
      ‖vval (cgStates (flOps mv mvT dot norm2) (guardNorm (norm2 b))
        (cgInit (flOps mv mvT dot norm2) b x0 (guardNorm (norm2 b))) j).x‖ ≤ X)
    (hR : ∀ j, j < (solveCG (flOps mv mvT dot norm2) b x0 maxIter tol).iters →
      ‖vval (cgStates (flOps mv mvT dot norm2) (guardNorm (norm2 b))
        (cgInit (flOps mv mvT dot norm2) b x0 (guardNorm (norm2 b))) j).r‖ ≤ R) :
    ‖vval b - A (vval (solveCG (flOps mv mvT dot norm2) b x0 maxIter tol).x)‖
      ≤ τ + M.u * (‖vval b‖ + (1 + 2 * cA) * a * X)
          + (solveCG (flOps mv mvT dot norm2) b x0 maxIter tol).iters * M.u
              * ((16 + 6 * cA) * a * X + R) := by
  obtain ⟨rk, _, _, ht, hd⟩ :=
    cg_success_true_residual H b x0 maxIter tol hu8 cA hcA hεc X R hok hX hR
  have h1 := htest rk ht
  have h2 := norm_add_le
    ((vval b - A (vval (solveCG (flOps mv mvT dot norm2) b x0 maxIter tol).x)) - vval rk) (vval rk)
  rw [sub_add_cancel] at h2
  linarith

/-! ##### BiCG: the same updates `x += p·α`, `r −= (A p)·α` -/

/-- **the model's BiCG states satisfy the perturbed recurrences** (∞-norm, `u = M.u`) -/
theorem bicg_driftRun (H : FlMatVec mv A a εA) (bnrm : Fl M) (itol : ℕ)
    (s0 : BiCGState (Fl M) (Fin n → Fl M)) (k : ℕ) :
    DriftRun A a M.u εA k
      (fun j => vval (bicgStates (flOps mv mvT dot norm2) bnrm itol s0 j).x)
      (fun j => vval (bicgStates (flOps mv mvT dot norm2) bnrm itol s0 j).r)
      (fun j => vval (bicgP (flOps mv mvT dot norm2) (j + 1)
        (bicgStates (flOps mv mvT dot norm2) bnrm itol s0 j)))
      (fun j => vval (mv (bicgP (flOps mv mvT dot norm2) (j + 1)
        (bicgStates (flOps mv mvT dot norm2) bnrm itol s0 j))))
      (fun j => (bicgAlpha (flOps mv mvT dot norm2) (j + 1)
        (bicgStates (flOps mv mvT dot norm2) bnrm itol s0 j)).val) where
  a_nonneg := H.a_nonneg
  u_nonneg := M.u_nonneg
  ε_nonneg := H.ε_nonneg
  opA := H.opA
  hq i _ := H.err _
  hx i _ := by
    exact update_err M.u M.u_nonneg _ _ _ _ (vval_smul_err _ _) (vval_add_err _ _)
  hr i _ := by
    exact update_err_sub M.u M.u_nonneg _ _ _ _ (vval_smul_err _ _) (vval_sub_err _ _)

/-- **C08 quantitative clause for the model's BiCG** (`itol` 1 and 2; standard model, ∞-norm):
the statement of `cg_success_true_residual` for `solveBiCG`. -/
theorem bicg_success_true_residual (H : FlMatVec mv A a εA) (b x0 : Fin n → Fl M) (maxIter : ℕ)
    (tol : Fl M) (itol : ℕ) (hu8 : M.u ≤ 1 / 8) (cA : ℝ) (hcA : 0 ≤ cA) (hεc : εA ≤ cA * M.u)
    (X R : ℝ)
    (hok : (solveBiCG (flOps mv mvT dot norm2) b x0 maxIter tol itol).ok = true)
    (hX : ∀ j, j ≤ (solveBiCG (flOps mv mvT dot norm2) b x0 maxIter tol itol).iters →
      ‖vval (bicgStates (flOps mv mvT dot norm2) (guardNorm (norm2 b)) itol
        (bicgInit (flOps mv mvT dot norm2) b x0 (guardNorm (norm2 b)) itol) j).x‖ ≤ X)
    (hR : ∀ j, j < (solveBiCG (flOps mv mvT dot norm2) b x0 maxIter tol itol).iters →
      ‖vval (bicgStates (flOps mv mvT dot norm2) (guardNorm (norm2 b)) itol
        (bicgInit (flOps mv mvT dot norm2) b x0 (guardNorm (norm2 b)) itol) j).r‖ ≤ R) :
    ∃ rk : Fin n → Fl M,
      rk = (bicgStates (flOps mv mvT dot norm2) (guardNorm (norm2 b)) itol
        (bicgInit (flOps mv mvT dot norm2) b x0 (guardNorm (norm2 b)) itol)
        (solveBiCG (flOps mv mvT dot norm2) b x0 maxIter tol itol).iters).r ∧
      (solveBiCG (flOps mv mvT dot norm2) b x0 maxIter tol itol).iters ≤ maxIter ∧
      Transc.le (norm2 rk / guardNorm (norm2 b)) tol = true ∧
      ‖(vval b - A (vval (solveBiCG (flOps mv mvT dot norm2) b x0 maxIter tol itol).x)) - vval rk‖
        ≤ M.u * (‖vval b‖ + (1 + 2 * cA) * a * X)
          + (solveBiCG (flOps mv mvT dot norm2) b x0 maxIter tol itol).iters * M.u
              * ((16 + 6 * cA) * a * X + R) := by
  obtain ⟨h1, h2, h3⟩ := solveBiCG_trace (flOps mv mvT dot norm2) b x0 maxIter tol itol hok
  refine ⟨_, rfl, h1, h3, ?_⟩
  rw [h2]
  set k := (solveBiCG (flOps mv mvT dot norm2) b x0 maxIter tol itol).iters
  have D := bicg_driftRun (mvT := mvT) (dot := dot) (norm2 := norm2) H (guardNorm (norm2 b)) itol
    (bicgInit (flOps mv mvT dot norm2) b x0 (guardNorm (norm2 b)) itol) k
  have hb := D.bound_u (vval b) hu8 cA hcA hεc X R hX hR
  have h0 := drift_init_u A a M.u εA H.a_nonneg M.u_nonneg H.ε_nonneg H.opA (vval b) (vval x0)
    (vval (mv x0)) (vval (fun i => b i - mv x0 i)) (H.err x0) (vval_sub_err b (mv x0))
    hu8 cA hcA hεc X (hX 0 (Nat.zero_le _))
  have hb' : ‖drift A (vval b)
      (vval (bicgStates (flOps mv mvT dot norm2) (guardNorm (norm2 b)) itol
        (bicgInit (flOps mv mvT dot norm2) b x0 (guardNorm (norm2 b)) itol) k).x)
      (vval (bicgStates (flOps mv mvT dot norm2) (guardNorm (norm2 b)) itol
        (bicgInit (flOps mv mvT dot norm2) b x0 (guardNorm (norm2 b)) itol) k).r)‖
      ≤ ‖drift A (vval b) (vval x0) (vval (fun i => b i - mv x0 i))‖
        + k * M.u * ((16 + 6 * cA) * a * X + R) := hb
  unfold drift at hb' h0
  refine le_trans hb' ?_
  linarith

/-- the BiCG statement with the norm of the recurrence residual (cf.
`cg_success_true_residual_norm`) -/
theorem bicg_success_true_residual_norm (H : FlMatVec mv A a εA) (b x0 : Fin n → Fl M)
    (maxIter : ℕ) (tol : Fl M) (itol : ℕ) (hu8 : M.u ≤ 1 / 8) (cA : ℝ) (hcA : 0 ≤ cA)
    (hεc : εA ≤ cA * M.u) (X R τ : ℝ)
    (htest : ∀ r : Fin n → Fl M, Transc.le (norm2 r / guardNorm (norm2 b)) tol = true →
      ‖vval r‖ ≤ τ)
    (hok : (solveBiCG (flOps mv mvT dot norm2) b x0 maxIter tol itol).ok = true)
    (hX : ∀ j, j ≤ (solveBiCG (flOps mv mvT dot norm2) b x0 maxIter tol itol).iters →
      ‖vval (bicgStates (flOps mv mvT dot norm2) (guardNorm (norm2 b)) itol
        (bicgInit (flOps mv mvT dot norm2) b x0 (guardNorm (norm2 b)) itol) j).x‖ ≤ X)
    (hR : ∀ j, j < (solveBiCG (flOps mv mvT dot norm2) b x0 maxIter tol itol).iters →
      ‖vval (bicgStates (flOps mv mvT dot norm2) (guardNorm (norm2 b)) itol
        (bicgInit (flOps mv mvT dot norm2) b x0 (guardNorm (norm2 b)) itol) j).r‖ ≤ R) :
    ‖vval b - A (vval (solveBiCG (flOps mv mvT dot norm2) b x0 maxIter tol itol).x)‖
      ≤ τ + M.u * (‖vval b‖ + (1 + 2 * cA) * a * X)
          + (solveBiCG (flOps mv mvT dot norm2) b x0 maxIter tol itol).iters * M.u
              * ((16 + 6 * cA) * a * X + R) := by
  obtain ⟨rk, _, _, ht, hd⟩ :=
    bicg_success_true_residual H b x0 maxIter tol itol hu8 cA hcA hεc X R hok hX hR
  have h1 := htest rk ht
  have h2 := norm_add_le
    ((vval b - A (vval (solveBiCG (flOps mv mvT dot norm2) b x0 maxIter tol itol).x)) - vval rk)
    (vval rk)
  rw [sub_add_cancel] at h2
  linarith

/-! ##### a product that satisfies `FlMatVec` in every model -/

/-- `‖A v‖∞ ≤ a ‖v‖∞` for a matrix with absolute row sums `≤ a` -/
theorem rowLin_norm_le (Am : Fin n → Fin n → ℝ) (a : ℝ) (ha : 0 ≤ a)
    (hrow : ∀ i, ∑ j, |Am i j| ≤ a) (v : Fin n → ℝ) : ‖rowLin Am v‖ ≤ a * ‖v‖ := by
  refine (pi_norm_le_iff_of_nonneg (mul_nonneg ha (norm_nonneg v))).2 fun i => ?_
  rw [Real.norm_eq_abs, rowLin_apply]
  refine (Finset.abs_sum_le_sum_abs _ _).trans ?_
  simp only [abs_mul]
  exact abs_row_le Am a hrow v i

/-- the exact product of the values, each component rounded once -/
noncomputable def mvRound (Am : Fin n → Fin n → ℝ) (v : Fin n → Fl M) : Fin n → Fl M :=
  fun i => ⟨M.fl (∑ j, Am i j * (v j).val)⟩

/-- `mvRound` satisfies the product assumption with `εA = u` (so `cA = 1`), in every model -/
theorem flMatVec_mvRound (Am : Fin n → Fin n → ℝ) (a : ℝ) (ha : 0 ≤ a)
    (hrow : ∀ i, ∑ j, |Am i j| ≤ a) :
    FlMatVec (M := M) (mvRound Am) (rowLin Am) a M.u where
  a_nonneg := ha
  ε_nonneg := M.u_nonneg
  opA := rowLin_norm_le Am a ha hrow
  err v := by
    have h1 : ‖vval (mvRound (M := M) Am v) - rowLin Am (vval v)‖ ≤ M.u * ‖rowLin Am (vval v)‖ :=
      norm_sub_le_of_componentwise M.u M.u_nonneg _ _ (fun i => M.fl_err _)
    have h2 := rowLin_norm_le Am a ha hrow (vval v)
    rw [mul_assoc]
    exact h1.trans (mul_le_mul_of_nonneg_left h2 M.u_nonneg)

end Model
end Rounding

/-! ### non-vacuity -/
section Examples

/-- **`u = 0` gives zero drift**: an exact run (`q = A p`, exact updates, `r_0 = b − A x_0`) is a
`DriftRun` with `u = εA = 0`, all hypotheses of `success_true_residual` are satisfiable, and its
conclusion is the exact-arithmetic statement `‖b − A x_k‖ ≤ tol ‖b‖`. -/
example {E : Type} [SeminormedAddCommGroup E] [NormedSpace ℝ E] (A : E →ₗ[ℝ] E) (a : ℝ)
    (ha : 0 ≤ a) (hA : ∀ v, ‖A v‖ ≤ a * ‖v‖) (b : E) (x r p : ℕ → E) (α : ℕ → ℝ) (k : ℕ)
    (hx : ∀ i, x (i + 1) = x i + α i • p i) (hr : ∀ i, r (i + 1) = r i - α i • A (p i))
    (h0 : r 0 = b - A (x 0)) (tol : ℝ) (hstop : ‖r k‖ ≤ tol * ‖b‖) :
    ‖b - A (x k)‖ ≤ tol * ‖b‖ := by
  have H : DriftRun A a 0 0 k x r p (fun i => A (p i)) α :=
    ⟨ha, le_rfl, le_rfl, hA, fun i _ => by simp, fun i _ => by simp [hx], fun i _ => by simp [hr]⟩
  have h := success_true_residual H b (A (x 0)) (by simp) (by simp [h0]) (by norm_num) 0 le_rfl
    (by simp) (∑ i ∈ Finset.range (k + 1), ‖x i‖) (∑ i ∈ Finset.range k, ‖r i‖)
    (fun i hi => Finset.single_le_sum (f := fun i => ‖x i‖) (fun _ _ => norm_nonneg _)
      (Finset.mem_range.mpr (by omega)))
    (fun i hi => Finset.single_le_sum (f := fun i => ‖r i‖) (fun _ _ => norm_nonneg _)
      (Finset.mem_range.mpr hi))
    tol hstop
  simpa using h

/-- the general statement is not about `u = 0` only: in EVERY model `M` with `u ≤ 1/8` (e.g.
`FlModel.binary64`, `FlModel.scale`) the hypotheses of `cg_success_true_residual` are satisfiable —
`mvRound Am` satisfies `FlMatVec` with `εA = u`, `cA = 1`, and bounds `X`, `R` of the finitely many
computed iterates exist — so a successful model run has drift `≤ u (‖b‖ + 3 a X) + iters·u·(22 a X + R)`. -/
example {M : FlModel} {n : ℕ} [Transc (Fl M)] (hu8 : M.u ≤ 1 / 8) (Am : Fin n → Fin n → ℝ) (a : ℝ)
    (ha : 0 ≤ a) (hrow : ∀ i, ∑ j, |Am i j| ≤ a) (mvT : (Fin n → Fl M) → (Fin n → Fl M))
    (dot : (Fin n → Fl M) → (Fin n → Fl M) → Fl M) (norm2 : (Fin n → Fl M) → Fl M)
    (b x0 : Fin n → Fl M) (maxIter : ℕ) (tol : Fl M)
    (hok : (solveCG (flOps (mvRound Am) mvT dot norm2) b x0 maxIter tol).ok = true) :
    ∃ X R : ℝ, ∃ rk : Fin n → Fl M,
      Transc.le (norm2 rk / guardNorm (norm2 b)) tol = true ∧
      ‖(vval b - rowLin Am (vval (solveCG (flOps (mvRound Am) mvT dot norm2) b x0 maxIter tol).x))
          - vval rk‖
        ≤ M.u * (‖vval b‖ + 3 * a * X)
          + (solveCG (flOps (mvRound Am) mvT dot norm2) b x0 maxIter tol).iters * M.u
              * (22 * a * X + R) := by
  have hit := cg_iter_bound (flOps (mvRound Am) mvT dot norm2) b x0 maxIter tol
  refine ⟨∑ j ∈ Finset.range (maxIter + 1), ‖vval (cgStates (flOps (mvRound Am) mvT dot norm2)
      (guardNorm (norm2 b)) (cgInit (flOps (mvRound Am) mvT dot norm2) b x0 (guardNorm (norm2 b))) j).x‖,
    ∑ j ∈ Finset.range (maxIter + 1), ‖vval (cgStates (flOps (mvRound Am) mvT dot norm2)
      (guardNorm (norm2 b)) (cgInit (flOps (mvRound Am) mvT dot norm2) b x0 (guardNorm (norm2 b))) j).r‖,
    ?_⟩
  obtain ⟨rk, _, _, ht, hd⟩ := cg_success_true_residual (flMatVec_mvRound Am a ha hrow) b x0 maxIter
    tol hu8 1 zero_le_one (by simp)
    (∑ j ∈ Finset.range (maxIter + 1), ‖vval (cgStates (flOps (mvRound Am) mvT dot norm2)
      (guardNorm (norm2 b)) (cgInit (flOps (mvRound Am) mvT dot norm2) b x0 (guardNorm (norm2 b))) j).x‖)
    (∑ j ∈ Finset.range (maxIter + 1), ‖vval (cgStates (flOps (mvRound Am) mvT dot norm2)
      (guardNorm (norm2 b)) (cgInit (flOps (mvRound Am) mvT dot norm2) b x0 (guardNorm (norm2 b))) j).r‖)
    hok
    (fun j hj => Finset.single_le_sum (f := fun j => ‖vval (cgStates (flOps (mvRound Am) mvT dot norm2)
      (guardNorm (norm2 b)) (cgInit (flOps (mvRound Am) mvT dot norm2) b x0 (guardNorm (norm2 b))) j).x‖)
      (fun _ _ => norm_nonneg _) (Finset.mem_range.mpr (by omega)))
    (fun j hj => Finset.single_le_sum (f := fun j => ‖vval (cgStates (flOps (mvRound Am) mvT dot norm2)
      (guardNorm (norm2 b)) (cgInit (flOps (mvRound Am) mvT dot norm2) b x0 (guardNorm (norm2 b))) j).r‖)
      (fun _ _ => norm_nonneg _) (Finset.mem_range.mpr (by omega)))
  refine ⟨rk, ht, ?_⟩
  have e1 : (1 + 2 * (1 : ℝ)) = 3 := by norm_num
  have e2 : (16 + 6 * (1 : ℝ)) = 22 := by norm_num
  rw [e1, e2] at hd
  exact hd

/-- **exact model (`u = 0`) recovers the exact theorem** at the model level: over
`Fl FlModel.exact` the recurrence residual tested by a successful `solveCG` IS the true residual of
the returned `x` (cf. `cg_success_sound`). -/
example {n : ℕ} [Transc (Fl FlModel.exact)] (Am : Fin n → Fin n → ℝ) (a : ℝ)
    (ha : 0 ≤ a) (hrow : ∀ i, ∑ j, |Am i j| ≤ a)
    (mvT : (Fin n → Fl FlModel.exact) → (Fin n → Fl FlModel.exact))
    (dot : (Fin n → Fl FlModel.exact) → (Fin n → Fl FlModel.exact) → Fl FlModel.exact)
    (norm2 : (Fin n → Fl FlModel.exact) → Fl FlModel.exact)
    (b x0 : Fin n → Fl FlModel.exact) (maxIter : ℕ) (tol : Fl FlModel.exact)
    (hok : (solveCG (flOps (mvRound Am) mvT dot norm2) b x0 maxIter tol).ok = true) :
    ∃ rk : Fin n → Fl FlModel.exact,
      Transc.le (norm2 rk / guardNorm (norm2 b)) tol = true ∧
      vval b - rowLin Am (vval (solveCG (flOps (mvRound Am) mvT dot norm2) b x0 maxIter tol).x)
        = vval rk := by
  have hit := cg_iter_bound (flOps (mvRound Am) mvT dot norm2) b x0 maxIter tol
  have hu0 : FlModel.exact.u = 0 := rfl
  obtain ⟨rk, _, _, ht, hd⟩ := cg_success_true_residual (flMatVec_mvRound Am a ha hrow) b x0 maxIter
    tol (by rw [hu0]; norm_num) 1 zero_le_one (by simp)
    (∑ j ∈ Finset.range (maxIter + 1), ‖vval (cgStates (flOps (mvRound Am) mvT dot norm2)
      (guardNorm (norm2 b)) (cgInit (flOps (mvRound Am) mvT dot norm2) b x0 (guardNorm (norm2 b))) j).x‖)
    (∑ j ∈ Finset.range (maxIter + 1), ‖vval (cgStates (flOps (mvRound Am) mvT dot norm2)
      (guardNorm (norm2 b)) (cgInit (flOps (mvRound Am) mvT dot norm2) b x0 (guardNorm (norm2 b))) j).r‖)
    hok
    (fun j hj => Finset.single_le_sum (f := fun j => ‖vval (cgStates (flOps (mvRound Am) mvT dot norm2)
      (guardNorm (norm2 b)) (cgInit (flOps (mvRound Am) mvT dot norm2) b x0 (guardNorm (norm2 b))) j).x‖)
      (fun _ _ => norm_nonneg _) (Finset.mem_range.mpr (by omega)))
    (fun j hj => Finset.single_le_sum (f := fun j => ‖vval (cgStates (flOps (mvRound Am) mvT dot norm2)
      (guardNorm (norm2 b)) (cgInit (flOps (mvRound Am) mvT dot norm2) b x0 (guardNorm (norm2 b))) j).r‖)
      (fun _ _ => norm_nonneg _) (Finset.mem_range.mpr (by omega)))
  refine ⟨rk, ht, ?_⟩
  rw [hu0] at hd
  simp only [zero_mul, mul_zero, add_zero] at hd
  exact sub_eq_zero.mp (norm_le_zero_iff.mp hd)

end Examples

end Ohsl.Props.C08
