/-
  Property C19 (part F) — rounding-error statements for the 1-D mesh operations in the "rounded
  reals" interpretation `Fl M` of the model (Ohsl/Lemmas/Rounding.lean): the SAME definitions
  `Mesh1.trapezium`, `Mesh1.interpolate` instantiated at real numbers whose `+ - * /` round with
  relative error `≤ u` (standard model, no overflow / underflow).  The transfer to the Rust `f64`
  code rests on the ASSUMPTION stated in Rounding.lean; it is not proved here.

  `nodeXF m k`, `val1F m k var` are the total accessors (`C19M.nodeX`, `val1` are tied to a field),
  `M.gam k = (1+u)^k − 1`, `kap M j = (1+u)^j/(1−u) − 1` (`u < 1`; one rounded DIVISOR).  The
  theorems hold for every instance `T : Transc (Fl M)` with `half = 1/2` (`hhalf`), an exact `abs`
  (`hfabs`) and a positive `snap`; `C03.flTransc M` is such an instance (Examples).

  * `trapezium_rounding`  (F) `n = nodes.size ≥ 1`: the call succeeds and
        `|computed − Σ_k cell_k| ≤ gam (n+3) · Σ_k |cell_k|`,  `cell_k = ½ (x_{k+1} − x_k)(f_k + f_{k+1})`
      (`cell_rounding`: four roundings per cell; `n − 1` rounded additions);
      `trapezium_rounding_gamma`: the same with `γ_{n+3}`.
  * `lerp_rounding`       (F) the formula `l + ((r − l)/(xr − xl))·(x − xl)`, `xl ≤ x ≤ xr`, `xl < xr`:
        `|computed − exact| ≤ kap 5 · (|l| + |r|)`   (six roundings, one in the divisor).
  * `interp_between_rounding` (F) sorted nodes, `x` in cell `k` with
        `snap ≤ (1−u)(x − x_k)`, `snap ≤ (1−u)(x_{k+1} − x)` (the snapping tests are made on ROUNDED
        differences; this bounds the spacing of cell `k` below by `2·snap/(1−u)`): only cell `k`
        matches and every component is within `kap 5 · (|l| + |r|)` of the exact linear interpolant.
  * `interp_at_inner_node_fl` (F) at `x = x_k`, `k` not the last node, `snap ≤ (1−u)(x_{k+1} − x_k)`,
        stored values representable: the result is EXACTLY the stored vector.
  * `interp_at_last_node_rounding` (F) at the last node the result is within `kap 5 · (|l| + |r|)`
        of the stored vector (and in general not equal to it: `((r−l)/fl d)·fl d` is rounded).
-/
import Ohsl.Props.C19M
import Ohsl.Props.C03F
import Ohsl.Props.C15F
import Ohsl.Lemmas.Rounding
import Mathlib.Tactic.Ring
import Mathlib.Tactic.Linarith
import Mathlib.Tactic.Positivity
import Mathlib.Tactic.FieldSimp
set_option linter.unusedSectionVars false
set_option linter.unusedVariables false
set_option linter.unusedSimpArgs false
namespace Ohsl.Props.C19
open Ohsl

/-! ### the 1-D mesh over the rounded reals: accessors -/

section Rounding
variable {M : FlModel}
open Fl Ohsl.Props.C15

/-- coordinate of node `k` (total accessor) -/
def nodeXF (m : Mesh1 (Fl M) (Fl M)) (k : Nat) : Fl M := m.nodes.getD k 0
/-- value of variable `var` at node `k` (total accessor) -/
def val1F (m : Mesh1 (Fl M) (Fl M)) (k var : Nat) : Fl M := (m.vars.getD k #[]).getD var 0
/-- every stored node vector has `nvars` entries -/
def Sized1F (m : Mesh1 (Fl M) (Fl M)) : Prop :=
  ∀ k (hk : k < m.vars.size), m.vars[k].size = m.nvars

theorem aget_nodeXF (m : Mesh1 (Fl M) (Fl M)) {k : Nat} (hk : k < m.nodes.size) :
    aget m.nodes k = .ok (nodeXF m k) := by
  rw [Mat.aget_ok hk]; simp [nodeXF, hk]

theorem aget_val1F (m : Mesh1 (Fl M) (Fl M)) (hs : Sized1F m) {k var : Nat}
    (hk : k < m.vars.size) (hv : var < m.nvars) :
    aget m.vars[k] var = .ok (val1F m k var) := by
  have hvar : var < m.vars[k].size := by rw [hs _ hk]; exact hv
  rw [Mat.aget_ok hvar]; simp [val1F, hk, hvar]

variable [T : Transc (Fl M)]

/-! ### trapezium rule -/

/-- the contribution of cell `k` as the code computes it: `0.5 * (x_{k+1} - x_k) * (f_k + f_{k+1})`
(parsed `(0.5 * dx) * (fa + fb)`: four roundings) -/
def cellF (m : Mesh1 (Fl M) (Fl M)) (var k : Nat) : Fl M :=
  Transc.half * (nodeXF m (k + 1) - nodeXF m k) * (val1F m k var + val1F m (k + 1) var)

/-- the exact contribution of cell `k` -/
noncomputable def cellX (m : Mesh1 (Fl M) (Fl M)) (var k : Nat) : ℝ :=
  1 / 2 * ((nodeXF m (k + 1)).val - (nodeXF m k).val)
    * ((val1F m k var).val + (val1F m (k + 1) var).val)

/-- (structural) the trapezium rule is the left fold from `0` of the computed cell contributions -/
theorem trapezium_eq_fold (m : Mesh1 (Fl M) (Fl M)) (h : WF1 m) (hs : Sized1F m)
    (hn : 1 ≤ m.nodes.size) {var : Nat} (hv : var < m.nvars) :
    Mesh1.trapezium m var
      = .ok (((List.range (m.nodes.size - 1)).map (cellF m var)).foldl (· + ·) 0) := by
  unfold Mesh1.trapezium
  rw [usub_one_ok hn]
  simp only [bind, Except.bind]
  apply C03.forM'_eq_foldl_add
  intro s k hk
  have hk0 : k < m.nodes.size := by omega
  have hk1 : k + 1 < m.nodes.size := by omega
  have hv0 : k < m.vars.size := by rw [h]; exact hk0
  have hv1 : k + 1 < m.vars.size := by rw [h]; exact hk1
  simp only [aget_nodeXF m hk0, aget_nodeXF m hk1, Mat.aget_ok hv0, Mat.aget_ok hv1,
    aget_val1F m hs hv0 hv, aget_val1F m hs hv1 hv, bind, Except.bind, pure, Except.pure, cellF]

/-- one cell: relative error `gam 4` (`0.5` exact, `hhalf`) -/
theorem cell_rounding (hhalf : (Transc.half : Fl M).val = 1 / 2) (m : Mesh1 (Fl M) (Fl M))
    (var k : Nat) : |(cellF m var k).val - cellX m var k| ≤ M.gam 4 * |cellX m var k| := by
  have hv : (cellF m var k).val
      = M.fl (M.fl (1 / 2 * M.fl ((nodeXF m (k + 1)).val - (nodeXF m k).val))
          * M.fl ((val1F m k var).val + (val1F m (k + 1) var).val)) := by
    simp only [cellF, Fl.mul_val, Fl.sub_val, Fl.add_val, hhalf]
  rw [hv]
  have h1 : |M.fl ((nodeXF m (k + 1)).val - (nodeXF m k).val)
      - ((nodeXF m (k + 1)).val - (nodeXF m k).val)|
      ≤ M.gam 1 * |(nodeXF m (k + 1)).val - (nodeXF m k).val| := by
    rw [M.gam_one]; exact M.fl_err _
  have h2 : |M.fl ((val1F m k var).val + (val1F m (k + 1) var).val)
      - ((val1F m k var).val + (val1F m (k + 1) var).val)|
      ≤ M.gam 1 * |(val1F m k var).val + (val1F m (k + 1) var).val| := by
    rw [M.gam_one]; exact M.fl_err _
  have h3 := rel_mul_const (1 / 2) h1
  rw [mul_comm _ (1 / 2 : ℝ), mul_comm _ (1 / 2 : ℝ)] at h3
  have h4 := fl_rel_gam h3
  exact fl_rel_gam (rel_mul h4 h2)

/-- **1-D trapezium rule**, `n = nodes.size ≥ 1` nodes: the call succeeds and
`|computed − Σ_k cell_k| ≤ gam (n + 3) · Σ_k |cell_k|`, `cell_k = ½ (x_{k+1} − x_k)(f_k + f_{k+1})`
(four roundings per cell, `n − 1` rounded additions). -/
theorem trapezium_rounding (hhalf : (Transc.half : Fl M).val = 1 / 2) (m : Mesh1 (Fl M) (Fl M))
    (h : WF1 m) (hs : Sized1F m) (hn : 1 ≤ m.nodes.size) {var : Nat} (hv : var < m.nvars) :
    ∃ r, Mesh1.trapezium m var = .ok r ∧
      |r.val - ∑ k ∈ Finset.range (m.nodes.size - 1), cellX m var k|
        ≤ M.gam (m.nodes.size + 3) * ∑ k ∈ Finset.range (m.nodes.size - 1), |cellX m var k| := by
  refine ⟨_, trapezium_eq_fold m h hs hn hv, ?_⟩
  have h1 := foldl_sum_rounding ((List.range (m.nodes.size - 1)).map (cellF m var))
  rw [List.length_map, List.length_range] at h1
  have h2 := perturbed_sum_bound (List.range (m.nodes.size - 1)) (cellF m var) (cellX m var)
    (M.gam 4) (M.gam (m.nodes.size - 1)) _ (M.gam_nonneg _) (M.gam_nonneg _)
    (fun k _ => cell_rounding hhalf m var k) h1
  rw [sum_map_range, sum_map_range] at h2
  have e : M.gam (m.nodes.size - 1) * (1 + M.gam 4) + M.gam 4 = M.gam (m.nodes.size + 3) := by
    rw [← M.gam_add 4 (m.nodes.size - 1)]
    congr 1; omega
  rwa [e] at h2

/-- the classical constant `γ_{n+3}` for `trapezium_rounding` -/
theorem trapezium_rounding_gamma (hhalf : (Transc.half : Fl M).val = 1 / 2)
    (m : Mesh1 (Fl M) (Fl M)) (h : WF1 m) (hs : Sized1F m) (hn : 1 ≤ m.nodes.size) {var : Nat}
    (hv : var < m.nvars) (hu : ((m.nodes.size + 3 : ℕ) : ℝ) * M.u < 1) :
    ∃ r, Mesh1.trapezium m var = .ok r ∧
      |r.val - ∑ k ∈ Finset.range (m.nodes.size - 1), cellX m var k|
        ≤ ((m.nodes.size + 3 : ℕ) : ℝ) * M.u / (1 - ((m.nodes.size + 3 : ℕ) : ℝ) * M.u)
            * ∑ k ∈ Finset.range (m.nodes.size - 1), |cellX m var k| := by
  obtain ⟨r, hr, hr'⟩ := trapezium_rounding hhalf m h hs hn hv
  exact ⟨r, hr, hr'.trans (mul_le_mul_of_nonneg_right (M.gam_le_gamma _ hu)
    (Finset.sum_nonneg (fun _ _ => abs_nonneg _)))⟩

end Rounding

/-! ### linear interpolation -/

section Rounding
variable {M : FlModel}
open Fl Ohsl.Props.C15

/-- the constants of a computation with `j` roundings in numerators and one rounded divisor:
`(1+u)^j / (1−u) − 1`  (`= (j+1) u + O(u²)`) -/
noncomputable def kap (M' : FlModel) (j : ℕ) : ℝ := (1 + M'.u) ^ j / (1 - M'.u) - 1

theorem kap_nonneg (hu : M.u < 1) (j : ℕ) : 0 ≤ kap M j := by
  have h1 : 1 ≤ (1 + M.u) ^ j := one_le_pow₀ M.one_le_one_add_u
  have h2 : 0 < 1 - M.u := by linarith
  have hu0 := M.u_nonneg
  have : 1 ≤ (1 + M.u) ^ j / (1 - M.u) := by
    rw [le_div_iff₀ h2]; linarith
  unfold kap; linarith

theorem kap_succ (j : ℕ) : kap M j * (1 + M.u) + M.u = kap M (j + 1) := by
  unfold kap; rw [pow_succ]; ring

theorem kap_succ' (j : ℕ) : (1 + kap M j) * (1 + M.u) - 1 = kap M (j + 1) := by
  unfold kap; rw [pow_succ]; ring

/-- a quotient whose divisor is rounded once (`u < 1`, divisor non-zero) -/
theorem rel_div {y₁ Y₁ y₂ Y₂ g : ℝ} (hu : M.u < 1) (hY : Y₂ ≠ 0) (hg : 0 ≤ g)
    (h₁ : |y₁ - Y₁| ≤ g * |Y₁|) (h₂ : |y₂ - Y₂| ≤ M.u * |Y₂|) :
    |y₁ / y₂ - Y₁ / Y₂| ≤ ((1 + g) / (1 - M.u) - 1) * |Y₁ / Y₂| := by
  have hu0 := M.u_nonneg
  have h1u : 0 < 1 - M.u := by linarith
  have hY2 : 0 < |Y₂| := abs_pos.mpr hY
  have hy2 : (1 - M.u) * |Y₂| ≤ |y₂| := by
    have : |Y₂| ≤ |y₂ - Y₂| + |y₂| := by
      have := abs_sub_abs_le_abs_sub Y₂ y₂
      rw [abs_sub_comm] at this; linarith
    linarith
  have hy2pos : 0 < |y₂| := lt_of_lt_of_le (mul_pos h1u hY2) hy2
  have hy2ne : y₂ ≠ 0 := abs_pos.mp hy2pos
  have e : y₁ / y₂ - Y₁ / Y₂ = ((y₁ - Y₁) * Y₂ - Y₁ * (y₂ - Y₂)) / (y₂ * Y₂) := by
    field_simp; ring
  have hnum : |(y₁ - Y₁) * Y₂ - Y₁ * (y₂ - Y₂)| ≤ (g + M.u) * (|Y₁| * |Y₂|) := by
    refine (abs_sub _ _).trans ?_
    rw [abs_mul, abs_mul]
    have p1 := mul_le_mul_of_nonneg_right h₁ (abs_nonneg Y₂)
    have p2 := mul_le_mul_of_nonneg_left h₂ (abs_nonneg Y₁)
    nlinarith
  have hc : (1 + g) / (1 - M.u) - 1 = (g + M.u) / (1 - M.u) := by
    field_simp; ring
  rw [e, abs_div, abs_mul, hc, abs_div, div_le_iff₀ (mul_pos hy2pos hY2)]
  refine hnum.trans ?_
  have hY1 := abs_nonneg Y₁
  have hgu : 0 ≤ g + M.u := by linarith
  -- (g+u) |Y1| |Y2| ≤ (g+u)/(1-u) * (|Y1|/|Y2|) * (|y2| |Y2|)
  have : (g + M.u) / (1 - M.u) * (|Y₁| / |Y₂|) * (|y₂| * |Y₂|)
      = (g + M.u) * |Y₁| * (|y₂| / (1 - M.u)) := by
    field_simp
  rw [this]
  have h3 : |Y₂| ≤ |y₂| / (1 - M.u) := by
    rw [le_div_iff₀ h1u]; linarith
  have := mul_le_mul_of_nonneg_left h3 (mul_nonneg hgu hY1)
  linarith

/-- product of two approximations with arbitrary relative errors -/
theorem rel_mul' {y₁ Y₁ y₂ Y₂ g₁ g₂ : ℝ} (hg₁ : 0 ≤ g₁) (hg₂ : 0 ≤ g₂)
    (h₁ : |y₁ - Y₁| ≤ g₁ * |Y₁|) (h₂ : |y₂ - Y₂| ≤ g₂ * |Y₂|) :
    |y₁ * y₂ - Y₁ * Y₂| ≤ ((1 + g₁) * (1 + g₂) - 1) * |Y₁ * Y₂| := by
  have e : y₁ * y₂ - Y₁ * Y₂ = (y₁ - Y₁) * (y₂ - Y₂) + (y₁ - Y₁) * Y₂ + Y₁ * (y₂ - Y₂) := by ring
  have a1 := abs_nonneg Y₁
  have a2 := abs_nonneg Y₂
  rw [e, abs_mul]
  refine (abs_add_le _ _).trans ?_
  refine (add_le_add (abs_add_le _ _) (le_refl _)).trans ?_
  rw [abs_mul, abs_mul, abs_mul]
  have p1 : |y₁ - Y₁| * |y₂ - Y₂| ≤ (g₁ * |Y₁|) * (g₂ * |Y₂|) :=
    mul_le_mul h₁ h₂ (abs_nonneg _) (by positivity)
  have p2 : |y₁ - Y₁| * |Y₂| ≤ (g₁ * |Y₁|) * |Y₂| := mul_le_mul_of_nonneg_right h₁ a2
  have p3 : |Y₁| * |y₂ - Y₂| ≤ |Y₁| * (g₂ * |Y₂|) := mul_le_mul_of_nonneg_left h₂ a1
  nlinarith

/-- a convex combination and its increment are bounded by the end values -/
theorem convex_bounds (L R θ : ℝ) (h0 : 0 ≤ θ) (h1 : θ ≤ 1) :
    |L + (R - L) * θ| ≤ |L| + |R| ∧ |(R - L) * θ| ≤ |L| + |R| := by
  have hL := abs_nonneg L
  have hR := abs_nonneg R
  constructor
  · have e : L + (R - L) * θ = (1 - θ) * L + θ * R := by ring
    rw [e]
    refine (abs_add_le _ _).trans ?_
    rw [abs_mul, abs_mul, abs_of_nonneg h0, abs_of_nonneg (by linarith : 0 ≤ 1 - θ)]
    nlinarith
  · rw [abs_mul, abs_of_nonneg h0]
    have : |R - L| ≤ |L| + |R| := by
      have := abs_sub R L; linarith
    nlinarith [abs_nonneg (R - L)]

/-- **the interpolation formula** `L + ((R − L) / (xr − xl)) · (x − xl)` evaluated in rounded
arithmetic, for `xl < xr`, `xl ≤ x ≤ xr`, `u < 1`: six roundings, one of them in the divisor;
`|computed − exact| ≤ ((1+u)⁵/(1−u) − 1) · (|L| + |R|)`   (`= 6u + O(u²)`). -/
theorem lerp_rounding (hu : M.u < 1) (L R xl xr x : ℝ) (hlt : xl < xr) (hx1 : xl ≤ x)
    (hx2 : x ≤ xr) :
    |M.fl (L + M.fl (M.fl (M.fl (R - L) / M.fl (xr - xl)) * M.fl (x - xl)))
        - (L + (R - L) / (xr - xl) * (x - xl))|
      ≤ kap M 5 * (|L| + |R|) := by
  have hu0 := M.u_nonneg
  have hd : xr - xl ≠ 0 := (sub_pos.mpr hlt).ne'
  have h1 : |M.fl (R - L) - (R - L)| ≤ M.u * |R - L| := M.fl_err _
  have h2 : |M.fl (xr - xl) - (xr - xl)| ≤ M.u * |xr - xl| := M.fl_err _
  have h3 := rel_div hu hd hu0 h1 h2
  have ek1 : (1 + M.u) / (1 - M.u) - 1 = kap M 1 := by unfold kap; rw [pow_one]
  rw [ek1] at h3
  have h4 := fl_rel (M := M) h3
  rw [kap_succ] at h4
  have h5 : |M.fl (x - xl) - (x - xl)| ≤ M.u * |x - xl| := M.fl_err _
  have h6 := rel_mul' (kap_nonneg hu 2) hu0 h4 h5
  rw [kap_succ'] at h6
  have h7 := fl_rel (M := M) h6
  rw [kap_succ] at h7
  have h8 := fl_add_rel (M := M) (A := L) h7
  -- bounds on the exact quantities
  have hθ0 : 0 ≤ (x - xl) / (xr - xl) := div_nonneg (by linarith) (by linarith)
  have hθ1 : (x - xl) / (xr - xl) ≤ 1 := (div_le_one (sub_pos.mpr hlt)).mpr (by linarith)
  have eT : (R - L) / (xr - xl) * (x - xl) = (R - L) * ((x - xl) / (xr - xl)) := by ring
  obtain ⟨b1, b2⟩ := convex_bounds L R _ hθ0 hθ1
  rw [← eT] at b1 b2
  refine h8.trans ?_
  have hk4 := kap_nonneg hu 4
  have e5 : M.u + (1 + M.u) * kap M 4 = kap M 5 := by rw [← kap_succ 4]; ring
  rw [← e5]
  have := mul_le_mul_of_nonneg_left b1 hu0
  have := mul_le_mul_of_nonneg_left b2 (by positivity : 0 ≤ (1 + M.u) * kap M 4)
  linarith

variable [T : Transc (Fl M)]
open Transc

/-- stored vector of node `k` (total accessor) -/
def nodeVF (m : Mesh1 (Fl M) (Fl M)) (k : Nat) : Array (Fl M) := m.vars.getD k #[]

/-- the vector a matching cell writes, in the model's operation order:
`left + ((right − left) / (xr − xl)) · (x − xl)` -/
noncomputable def lerpF (L R : Array (Fl M)) (xl xr x : Fl M) : Array (Fl M) :=
  Array.zipWith (· + ·) L (((Array.zipWith (· - ·) R L).map (· / (xr - xl))).map (· * (x - xl)))

/-- the condition under which cell `c` overwrites the result — the two snapping tests are made on
the ROUNDED differences `fl(x_c − x)`, `fl(x_{c+1} − x)` -/
def hitF (m : Mesh1 (Fl M) (Fl M)) (x : Fl M) (c : Nat) : Prop :=
  ((nodeXF m c).val < x.val ∧ x.val < (nodeXF m (c + 1)).val)
    ∨ |M.fl ((nodeXF m c).val - x.val)| < (snap : Fl M).val
    ∨ |M.fl ((nodeXF m (c + 1)).val - x.val)| < (snap : Fl M).val

/-- loop body of `get_interpolated_vars` -/
noncomputable def interpBodyF (m : Mesh1 (Fl M) (Fl M)) (x : Fl M) :
    Array (Fl M) → Nat → Res (Array (Fl M)) := fun result node => do
  let xl ← aget m.nodes node
  let xr ← aget m.nodes (node + 1)
  if (ScalarExt.lt xl x && ScalarExt.lt x xr) || ScalarExt.lt (fabs (xl - x)) snap
      || ScalarExt.lt (fabs (xr - x)) snap then do
    let dx := x - xl
    let left ← Mesh1.getNodesVars m node
    let right ← Mesh1.getNodesVars m (node + 1)
    let diff ← Vec.sub right left
    let deriv := diff.map (· / (xr - xl))
    Vec.add left (deriv.map (· * dx))
  else pure result

theorem interpolateF_eq (m : Mesh1 (Fl M) (Fl M)) (x : Fl M) :
    Mesh1.interpolate m x = (do
      let n1 ← usub m.nodes.size 1
      Mat.forM' 0 n1 (Array.replicate m.nvars (0 : Fl M)) (interpBodyF m x)) := rfl

theorem nodeVF_eq (m : Mesh1 (Fl M) (Fl M)) {k : Nat} (hk : k < m.vars.size) :
    nodeVF m k = m.vars[k] := by
  simp [nodeVF, hk]

theorem nodeVF_size (m : Mesh1 (Fl M) (Fl M)) (hs : Sized1F m) {k : Nat} (hk : k < m.vars.size) :
    (nodeVF m k).size = m.nvars := by rw [nodeVF_eq m hk]; exact hs k hk

theorem nodeVF_getD (m : Mesh1 (Fl M) (Fl M)) (k v : Nat) : (nodeVF m k).getD v 0 = val1F m k v :=
  rfl

theorem hitF_iff (m : Mesh1 (Fl M) (Fl M)) (hfabs : ∀ a : Fl M, (fabs a).val = |a.val|)
    (x : Fl M) (c : Nat) :
    (((ScalarExt.lt (nodeXF m c) x && ScalarExt.lt x (nodeXF m (c + 1)))
      || ScalarExt.lt (fabs (nodeXF m c - x)) snap
      || ScalarExt.lt (fabs (nodeXF m (c + 1) - x)) snap) = true) ↔ hitF m x c := by
  simp [hitF, ScalarExt.lt, hfabs, or_assoc]

theorem interpBodyF_hit (m : Mesh1 (Fl M) (Fl M)) (h : WF1 m) (hs : Sized1F m)
    (hfabs : ∀ a : Fl M, (fabs a).val = |a.val|) (x : Fl M) (r : Array (Fl M)) {c : Nat}
    (hc : c + 1 < m.nodes.size) (hh : hitF m x c) :
    interpBodyF m x r c =
      .ok (lerpF (nodeVF m c) (nodeVF m (c + 1)) (nodeXF m c) (nodeXF m (c + 1)) x) := by
  have hc0 : c < m.nodes.size := by omega
  have hv0 : c < m.vars.size := by rw [h]; omega
  have hv1 : c + 1 < m.vars.size := by rw [h]; omega
  have hn0 : ¬ c ≥ m.nodes.size := by omega
  have hn1 : ¬ c + 1 ≥ m.nodes.size := by omega
  unfold interpBodyF
  simp only [aget_nodeXF m hc0, aget_nodeXF m hc, bind, Except.bind]
  rw [if_pos ((hitF_iff m hfabs x c).mpr hh)]
  have e0 : Mesh1.getNodesVars m c = .ok (nodeVF m c) := by
    simp only [Mesh1.getNodesVars, hn0, if_false]; rw [Mat.aget_ok hv0, nodeVF_eq m hv0]
  have e1 : Mesh1.getNodesVars m (c + 1) = .ok (nodeVF m (c + 1)) := by
    simp only [Mesh1.getNodesVars, hn1, if_false]; rw [Mat.aget_ok hv1, nodeVF_eq m hv1]
  have s0 := nodeVF_size m hs hv0
  have s1 := nodeVF_size m hs hv1
  rw [e0, e1]
  simp [Vec.sub, Vec.add, s0, s1, lerpF]

theorem interpBodyF_miss (m : Mesh1 (Fl M) (Fl M)) (hfabs : ∀ a : Fl M, (fabs a).val = |a.val|)
    (x : Fl M) (r : Array (Fl M)) {c : Nat} (hc : c + 1 < m.nodes.size) (hh : ¬ hitF m x c) :
    interpBodyF m x r c = .ok r := by
  have hc0 : c < m.nodes.size := by omega
  unfold interpBodyF
  simp only [aget_nodeXF m hc0, aget_nodeXF m hc, bind, Except.bind]
  rw [if_neg (fun hb => hh ((hitF_iff m hfabs x c).mp hb))]
  rfl

theorem lerpF_size (L R : Array (Fl M)) (xl xr x : Fl M) (hsz : L.size = R.size) :
    (lerpF L R xl xr x).size = L.size := by simp [lerpF, hsz]

theorem lerpF_getD (L R : Array (Fl M)) (xl xr x : Fl M) (hsz : L.size = R.size) {v : Nat}
    (hv : v < L.size) :
    (lerpF L R xl xr x)[v]?
      = some (L.getD v 0 + (R.getD v 0 - L.getD v 0) / (xr - xl) * (x - xl)) := by
  have hv' : v < R.size := by omega
  simp [lerpF, hv, hv']

/-- **interpolation strictly inside a cell, in rounded arithmetic** (`u < 1`).
Hypotheses on the data: the nodes are sorted, and `x` lies in cell `k` at a distance from both ends
that survives the rounding of the snapping tests: `snap ≤ (1−u)(x − x_k)`,
`snap ≤ (1−u)(x_{k+1} − x)` (so the node spacing of that cell is at least `2·snap/(1−u)`).
Then only cell `k` matches, the call succeeds and every component of the result is within
`((1+u)⁵/(1−u) − 1) · (|l| + |r|)` of the exact linear interpolant
`l + (r − l)/(x_{k+1} − x_k) · (x − x_k)` of the stored values `l`, `r` of its two neighbours. -/
theorem interp_between_rounding (m : Mesh1 (Fl M) (Fl M)) (h : WF1 m) (hs : Sized1F m)
    (hfabs : ∀ a : Fl M, (fabs a).val = |a.val|) (hu : M.u < 1)
    (hsnap : 0 < (snap : Fl M).val)
    (hmono : ∀ a b, a ≤ b → b < m.nodes.size → (nodeXF m a).val ≤ (nodeXF m b).val)
    {k : Nat} (hk : k + 1 < m.nodes.size) (x : Fl M)
    (hx1 : (snap : Fl M).val ≤ (1 - M.u) * (x.val - (nodeXF m k).val))
    (hx2 : (snap : Fl M).val ≤ (1 - M.u) * ((nodeXF m (k + 1)).val - x.val)) :
    ∃ r, Mesh1.interpolate m x = .ok r ∧ r.size = m.nvars ∧
      ∀ v, v < m.nvars → ∃ y, r[v]? = some y ∧
        |y.val - ((val1F m k v).val + ((val1F m (k + 1) v).val - (val1F m k v).val)
            / ((nodeXF m (k + 1)).val - (nodeXF m k).val) * (x.val - (nodeXF m k).val))|
          ≤ kap M 5 * (|(val1F m k v).val| + |(val1F m (k + 1) v).val|) := by
  have h1u : 0 < 1 - M.u := by linarith
  -- `x` is strictly inside the cell
  have hxl : (nodeXF m k).val < x.val := by
    by_contra hc
    have : x.val - (nodeXF m k).val ≤ 0 := by linarith [not_lt.mp hc]
    nlinarith
  have hxr : x.val < (nodeXF m (k + 1)).val := by
    by_contra hc
    have : (nodeXF m (k + 1)).val - x.val ≤ 0 := by linarith [not_lt.mp hc]
    nlinarith
  -- a node at or left of `x_k` / at or right of `x_{k+1}` fails the snapping test
  have hfarL : ∀ z : ℝ, z ≤ (nodeXF m k).val → ¬ |M.fl (z - x.val)| < (snap : Fl M).val := by
    intro z hz hlt
    have h1 := abs_fl_ge (M := M) (z - x.val)
    have h2 : |z - x.val| = x.val - z := by rw [abs_of_nonpos (by linarith)]; ring
    rw [h2] at h1
    have : (1 - M.u) * (x.val - (nodeXF m k).val) ≤ (1 - M.u) * (x.val - z) :=
      mul_le_mul_of_nonneg_left (by linarith) h1u.le
    linarith
  have hfarR : ∀ z : ℝ, (nodeXF m (k + 1)).val ≤ z → ¬ |M.fl (z - x.val)| < (snap : Fl M).val := by
    intro z hz hlt
    have h1 := abs_fl_ge (M := M) (z - x.val)
    have h2 : |z - x.val| = z - x.val := abs_of_nonneg (by linarith)
    rw [h2] at h1
    have : (1 - M.u) * ((nodeXF m (k + 1)).val - x.val) ≤ (1 - M.u) * (z - x.val) :=
      mul_le_mul_of_nonneg_left (by linarith) h1u.le
    linarith
  rw [interpolateF_eq, usub_one_ok (by omega)]
  obtain ⟨r, hr, hP1, hP2⟩ := Mat.forM'_inv
    (fun c (r : Array (Fl M)) => (c ≤ k → r = Array.replicate m.nvars (0 : Fl M)) ∧
      (k < c → r = lerpF (nodeVF m k) (nodeVF m (k + 1)) (nodeXF m k) (nodeXF m (k + 1)) x))
    0 (m.nodes.size - 1) (Array.replicate m.nvars (0 : Fl M)) (interpBodyF m x)
    (Nat.zero_le _) ⟨fun _ => rfl, fun hc => by omega⟩ (by
      intro c r _ hc ⟨p1, p2⟩
      have hc1 : c + 1 < m.nodes.size := by omega
      rcases Nat.lt_trichotomy c k with hck | hck | hck
      · -- cells to the left of `x`
        have m1 := hmono (c + 1) k (by omega) (by omega)
        have m0 := hmono c k (by omega) (by omega)
        have hmiss : ¬ hitF m x c := by
          rintro (⟨_, q⟩ | q | q)
          · linarith
          · exact hfarL _ m0 q
          · exact hfarL _ m1 q
        exact ⟨r, interpBodyF_miss m hfabs x r hc1 hmiss,
          fun _ => p1 (by omega), fun hh => by omega⟩
      · subst hck
        have hhit : hitF m x c := Or.inl ⟨hxl, hxr⟩
        exact ⟨_, interpBodyF_hit m h hs hfabs x r hc1 hhit, fun hh => by omega, fun _ => rfl⟩
      · -- cells to the right of `x`
        have m0 := hmono (k + 1) c (by omega) (by omega)
        have m1 := hmono (k + 1) (c + 1) (by omega) (by omega)
        have hmiss : ¬ hitF m x c := by
          rintro (⟨q, _⟩ | q | q)
          · linarith
          · exact hfarR _ m0 q
          · exact hfarR _ m1 q
        exact ⟨r, interpBodyF_miss m hfabs x r hc1 hmiss,
          fun hh => by omega, fun _ => p2 hck⟩)
  have hv0 : k < m.vars.size := by rw [h]; omega
  have hv1 : k + 1 < m.vars.size := by rw [h]; omega
  have s0 := nodeVF_size m hs hv0
  have s1 := nodeVF_size m hs hv1
  refine ⟨r, hr, ?_, ?_⟩
  · rw [hP2 (by omega), lerpF_size _ _ _ _ _ (by rw [s0, s1]), s0]
  · intro v hv
    refine ⟨_, by rw [hP2 (by omega), lerpF_getD _ _ _ _ _ (by rw [s0, s1]) (by rw [s0]; exact hv)],
      ?_⟩
    simp only [nodeVF_getD, Fl.add_val, Fl.mul_val, Fl.div_val, Fl.sub_val]
    exact lerp_rounding hu _ _ _ _ _ (by linarith) hxl.le hxr.le

/-- every iteration of the interpolation loop succeeds -/
theorem interpBodyF_ok (m : Mesh1 (Fl M) (Fl M)) (h : WF1 m) (hs : Sized1F m)
    (hfabs : ∀ a : Fl M, (fabs a).val = |a.val|) (x : Fl M) (r : Array (Fl M)) {c : Nat}
    (hc : c + 1 < m.nodes.size) : ∃ r', interpBodyF m x r c = .ok r' := by
  by_cases hh : hitF m x c
  · exact ⟨_, interpBodyF_hit m h hs hfabs x r hc hh⟩
  · exact ⟨_, interpBodyF_miss m hfabs x r hc hh⟩

/-- at the left end of the cell the computed formula returns the left vector when its entries are
representable: `l + q · fl(xl − xl) = fl(l + 0) = l` -/
theorem lerpF_left (L R : Array (Fl M)) (xl xr : Fl M) (hsz : L.size = R.size)
    (hrep : ∀ v, v < L.size → M.Rep (L.getD v 0).val) : lerpF L R xl xr xl = L := by
  apply Array.ext
  · simp [lerpF, hsz]
  · intro i h1 h2
    have hL : L[i] = L.getD i 0 := by simp [Array.getD, h2]
    have := hrep i h2
    rw [← hL] at this
    ext
    simp only [lerpF, Array.getElem_zipWith, Array.getElem_map, Fl.add_val, Fl.mul_val,
      Fl.sub_val, sub_self, M.fl_zero, mul_zero, add_zero]
    exact this

/-- **interpolation at an inner node is EXACT in rounded arithmetic** (`u < 1`): at `x = x_k`,
`k` not the last node, cell `k` is the last one that matches (its successors fail the snapping
test as soon as `snap ≤ (1−u)(x_{k+1} − x_k)`), and it writes `l + q · fl(x_k − x_k) = l` — the
stored vector, provided its entries are representable (every `f64` is). -/
theorem interp_at_inner_node_fl (m : Mesh1 (Fl M) (Fl M)) (h : WF1 m) (hs : Sized1F m)
    (hfabs : ∀ a : Fl M, (fabs a).val = |a.val|) (hu : M.u < 1)
    (hsnap : 0 < (snap : Fl M).val)
    (hmono : ∀ a b, a ≤ b → b < m.nodes.size → (nodeXF m a).val ≤ (nodeXF m b).val)
    {k : Nat} (hk : k + 1 < m.nodes.size)
    (hgap : (snap : Fl M).val ≤ (1 - M.u) * ((nodeXF m (k + 1)).val - (nodeXF m k).val))
    (hrep : ∀ v, v < m.nvars → M.Rep (val1F m k v).val) :
    Mesh1.interpolate m (nodeXF m k) = .ok (nodeVF m k) ∧
      Mesh1.interpolate m (nodeXF m k) = Mesh1.getNodesVars m k := by
  have h1u : 0 < 1 - M.u := by linarith
  have hv0 : k < m.vars.size := by rw [h]; omega
  have hv1 : k + 1 < m.vars.size := by rw [h]; omega
  have s0 := nodeVF_size m hs hv0
  have s1 := nodeVF_size m hs hv1
  have hget : Mesh1.getNodesVars m k = .ok (nodeVF m k) := by
    have : ¬ k ≥ m.nodes.size := by omega
    simp only [Mesh1.getNodesVars, this, if_false]; rw [Mat.aget_ok hv0, nodeVF_eq m hv0]
  have hlt : (nodeXF m k).val < (nodeXF m (k + 1)).val := by
    by_contra hc
    have : (nodeXF m (k + 1)).val - (nodeXF m k).val ≤ 0 := by linarith [not_lt.mp hc]
    nlinarith
  have hfarR : ∀ z : ℝ, (nodeXF m (k + 1)).val ≤ z →
      ¬ |M.fl (z - (nodeXF m k).val)| < (snap : Fl M).val := by
    intro z hz hlt'
    have h1 := abs_fl_ge (M := M) (z - (nodeXF m k).val)
    have h2 : |z - (nodeXF m k).val| = z - (nodeXF m k).val := abs_of_nonneg (by linarith)
    rw [h2] at h1
    have : (1 - M.u) * ((nodeXF m (k + 1)).val - (nodeXF m k).val)
        ≤ (1 - M.u) * (z - (nodeXF m k).val) :=
      mul_le_mul_of_nonneg_left (by linarith) h1u.le
    linarith
  have main : Mesh1.interpolate m (nodeXF m k) = .ok (nodeVF m k) := by
    rw [interpolateF_eq, usub_one_ok (by omega)]
    obtain ⟨r, hr, hP⟩ := Mat.forM'_inv
      (fun c (r : Array (Fl M)) => k < c → r = nodeVF m k)
      0 (m.nodes.size - 1) (Array.replicate m.nvars (0 : Fl M)) (interpBodyF m (nodeXF m k))
      (Nat.zero_le _) (fun hc => by omega) (by
        intro c r _ hc p
        have hc1 : c + 1 < m.nodes.size := by omega
        rcases Nat.lt_trichotomy c k with hck | hck | hck
        · obtain ⟨r', hr'⟩ := interpBodyF_ok m h hs hfabs (nodeXF m k) r hc1
          exact ⟨r', hr', fun hh => by omega⟩
        · subst hck
          have hhit : hitF m (nodeXF m c) c :=
            Or.inr (Or.inl (by rw [sub_self, M.fl_zero, abs_zero]; exact hsnap))
          refine ⟨_, interpBodyF_hit m h hs hfabs _ r hc1 hhit, fun _ => ?_⟩
          exact lerpF_left _ _ _ _ (by rw [s0, s1]) (fun v hv => by
            rw [nodeVF_getD]; exact hrep v (by rw [← s0]; exact hv))
        · have m0 := hmono (k + 1) c (by omega) (by omega)
          have m1 := hmono (k + 1) (c + 1) (by omega) (by omega)
          have hmiss : ¬ hitF m (nodeXF m k) c := by
            rintro (⟨q, _⟩ | q | q)
            · linarith
            · exact hfarR _ m0 q
            · exact hfarR _ m1 q
          exact ⟨r, interpBodyF_miss m hfabs _ r hc1 hmiss, fun _ => p hck⟩)
    rw [← hP (by omega)]
    exact hr
  exact ⟨main, by rw [main, hget]⟩

/-- **interpolation at the LAST node** (`x = x_{n−1}`, `n ≥ 2`, `x_{n−2} < x_{n−1}`, `u < 1`): the
last cell matches (snapping test on `fl(x_{n−1} − x_{n−1}) = 0`) and writes
`l + ((r − l)/fl(d)) · fl(d)` — NOT exactly the stored `r`, but within
`((1+u)⁵/(1−u) − 1) · (|l| + |r|)` of it, whatever the other cells do. -/
theorem interp_at_last_node_rounding (m : Mesh1 (Fl M) (Fl M)) (h : WF1 m) (hs : Sized1F m)
    (hfabs : ∀ a : Fl M, (fabs a).val = |a.val|) (hu : M.u < 1)
    (hsnap : 0 < (snap : Fl M).val) (hn : 2 ≤ m.nodes.size)
    (hlt : (nodeXF m (m.nodes.size - 2)).val < (nodeXF m (m.nodes.size - 1)).val) :
    ∃ r, Mesh1.interpolate m (nodeXF m (m.nodes.size - 1)) = .ok r ∧ r.size = m.nvars ∧
      ∀ v, v < m.nvars → ∃ y, r[v]? = some y ∧
        |y.val - (val1F m (m.nodes.size - 1) v).val|
          ≤ kap M 5 * (|(val1F m (m.nodes.size - 2) v).val|
              + |(val1F m (m.nodes.size - 1) v).val|) := by
  obtain ⟨k, hk⟩ : ∃ k, m.nodes.size = k + 2 := ⟨m.nodes.size - 2, by omega⟩
  have e1 : m.nodes.size - 1 = k + 1 := by omega
  have e2 : m.nodes.size - 2 = k := by omega
  rw [e1, e2] at hlt ⊢
  have hv0 : k < m.vars.size := by rw [h]; omega
  have hv1 : k + 1 < m.vars.size := by rw [h]; omega
  have s0 := nodeVF_size m hs hv0
  have s1 := nodeVF_size m hs hv1
  rw [interpolateF_eq, usub_one_ok (by omega), e1]
  obtain ⟨r, hr, hP⟩ := Mat.forM'_inv
    (fun c (r : Array (Fl M)) => k < c →
      r = lerpF (nodeVF m k) (nodeVF m (k + 1)) (nodeXF m k) (nodeXF m (k + 1)) (nodeXF m (k + 1)))
    0 (k + 1) (Array.replicate m.nvars (0 : Fl M)) (interpBodyF m (nodeXF m (k + 1)))
    (Nat.zero_le _) (fun hc => by omega) (by
      intro c r _ hc p
      have hc1 : c + 1 < m.nodes.size := by omega
      by_cases hck : c = k
      · subst hck
        have hhit : hitF m (nodeXF m (c + 1)) c :=
          Or.inr (Or.inr (by rw [sub_self, M.fl_zero, abs_zero]; exact hsnap))
        exact ⟨_, interpBodyF_hit m h hs hfabs _ r hc1 hhit, fun _ => rfl⟩
      · obtain ⟨r', hr'⟩ := interpBodyF_ok m h hs hfabs (nodeXF m (k + 1)) r hc1
        exact ⟨r', hr', fun hh => by omega⟩)
  refine ⟨r, hr, ?_, ?_⟩
  · rw [hP (by omega), lerpF_size _ _ _ _ _ (by rw [s0, s1]), s0]
  · intro v hv
    refine ⟨_, by rw [hP (by omega), lerpF_getD _ _ _ _ _ (by rw [s0, s1]) (by rw [s0]; exact hv)],
      ?_⟩
    simp only [nodeVF_getD, Fl.add_val, Fl.mul_val, Fl.div_val, Fl.sub_val]
    have := lerp_rounding hu (val1F m k v).val (val1F m (k + 1) v).val (nodeXF m k).val
      (nodeXF m (k + 1)).val (nodeXF m (k + 1)).val hlt hlt.le (le_refl _)
    have hd : (nodeXF m (k + 1)).val - (nodeXF m k).val ≠ 0 := (sub_pos.mpr hlt).ne'
    have e : (val1F m k v).val + ((val1F m (k + 1) v).val - (val1F m k v).val)
        / ((nodeXF m (k + 1)).val - (nodeXF m k).val) * ((nodeXF m (k + 1)).val - (nodeXF m k).val)
        = (val1F m (k + 1) v).val := by
      rw [div_mul_cancel₀ _ hd]; ring
    rwa [e] at this

end Rounding

/-! ### non-vacuity -/

section Examples
open Fl Ohsl.Props.C15
attribute [local instance] C03.flTransc

/-- the three-node mesh `x = 0, 1, 3` carrying one variable with values `5, 7, 2` -/
def exMesh (M : FlModel) : Mesh1 (Fl M) (Fl M) := ⟨1, #[⟨0⟩, ⟨1⟩, ⟨3⟩], #[#[⟨5⟩], #[⟨7⟩], #[⟨2⟩]]⟩

theorem exMesh_wf (M : FlModel) : WF1 (exMesh M) := rfl

theorem exMesh_sized (M : FlModel) : Sized1F (exMesh M) := by
  intro k hk
  have hk' : k < 3 := by simpa [exMesh] using hk
  rcases (by omega : k = 0 ∨ k = 1 ∨ k = 2) with rfl | rfl | rfl <;> rfl

/-- `trapezium_rounding` with the instance `flTransc` (`half = 1/2` by `rfl`) in an ARBITRARY
model: the exact value is `½·1·12 + ½·2·9 = 15`, the computed one is within `gam 6 · 15` -/
example (M : FlModel) : ∃ r, Mesh1.trapezium (exMesh M) 0 = .ok r ∧
    |r.val - 15| ≤ M.gam 6 * 15 := by
  obtain ⟨r, hr, hb⟩ := trapezium_rounding (M := M) rfl (exMesh M) (exMesh_wf M) (exMesh_sized M)
    (by simp [exMesh]) (var := 0) (by simp [exMesh])
  refine ⟨r, hr, ?_⟩
  have e1 : ∑ k ∈ Finset.range ((exMesh M).nodes.size - 1), cellX (exMesh M) 0 k = 15 := by
    show ∑ k ∈ Finset.range 2, cellX (exMesh M) 0 k = 15
    simp [Finset.sum_range_succ, cellX, nodeXF, val1F, exMesh, Array.getD]
    norm_num
  have e2 : ∑ k ∈ Finset.range ((exMesh M).nodes.size - 1), |cellX (exMesh M) 0 k| = 15 := by
    show ∑ k ∈ Finset.range 2, |cellX (exMesh M) 0 k| = 15
    simp [Finset.sum_range_succ, cellX, nodeXF, val1F, exMesh, Array.getD]
    norm_num
  rw [e1, e2] at hb
  exact hb

/-- exact arithmetic: the bound collapses to equality with the sum of the cells -/
example : ∃ r, Mesh1.trapezium (exMesh FlModel.exact) 0 = .ok r ∧ r.val = 15 := by
  obtain ⟨r, hr, hb⟩ := trapezium_rounding (M := FlModel.exact) rfl (exMesh _) (exMesh_wf _)
    (exMesh_sized _) (by simp [exMesh]) (var := 0) (by simp [exMesh])
  refine ⟨r, hr, ?_⟩
  have hg : FlModel.exact.gam ((exMesh FlModel.exact).nodes.size + 3) = 0 := by
    simp [FlModel.gam, FlModel.exact]
  have e1 : ∑ k ∈ Finset.range ((exMesh FlModel.exact).nodes.size - 1),
      cellX (exMesh FlModel.exact) 0 k = 15 := by
    show ∑ k ∈ Finset.range 2, cellX (exMesh FlModel.exact) 0 k = 15
    simp [Finset.sum_range_succ, cellX, nodeXF, val1F, exMesh, Array.getD]
    norm_num
  rw [hg, zero_mul, e1] at hb
  exact sub_eq_zero.mp (abs_nonpos_iff.mp hb)

/-- `flTransc`: the snapping window `fl(10⁻⁷)` is positive (`u < 1`) and at most `(1+u)·10⁻⁷` -/
theorem flTransc_snap (M : FlModel) (hu : M.u < 1) :
    0 < (Transc.snap : Fl M).val ∧ (Transc.snap : Fl M).val ≤ (1 + M.u) * (1 / 10 ^ 7) := by
  have hs : (Transc.snap : Fl M).val = M.fl (1 / 10 ^ 7) := rfl
  rw [hs]
  constructor
  · have h1 := fl_nonneg (M := M) hu.le (by positivity : (0 : ℝ) ≤ 1 / 10 ^ 7)
    have h2 := abs_fl_ge (M := M) (1 / 10 ^ 7)
    rw [abs_of_pos (by positivity : (0 : ℝ) < 1 / 10 ^ 7), abs_of_nonneg h1] at h2
    have : 0 < (1 - M.u) * (1 / 10 ^ 7) := mul_pos (by linarith) (by positivity)
    linarith
  · have := M.abs_fl_le (1 / 10 ^ 7)
    rw [abs_of_pos (by positivity : (0 : ℝ) < 1 / 10 ^ 7)] at this
    exact (le_abs_self _).trans this

theorem exMesh_mono (M : FlModel) : ∀ a b, a ≤ b → b < (exMesh M).nodes.size →
    (nodeXF (exMesh M) a).val ≤ (nodeXF (exMesh M) b).val := by
  intro a b hab hb
  have hb' : b < 3 := by simpa [exMesh] using hb
  rcases (by omega : (a = 0 ∧ b = 0) ∨ (a = 0 ∧ b = 1) ∨ (a = 0 ∧ b = 2) ∨ (a = 1 ∧ b = 1)
      ∨ (a = 1 ∧ b = 2) ∨ (a = 2 ∧ b = 2)) with
    ⟨rfl, rfl⟩ | ⟨rfl, rfl⟩ | ⟨rfl, rfl⟩ | ⟨rfl, rfl⟩ | ⟨rfl, rfl⟩ | ⟨rfl, rfl⟩ <;>
    simp [nodeXF, exMesh, Array.getD]

/-- the hypotheses of `interp_between_rounding` are satisfiable in every model with `u ≤ 1/2`
(instance `flTransc`: `snap = fl(10⁻⁷)`): interpolating the mesh above at `x = 2` (cell `1`,
neighbours `7` and `2`, exact interpolant `4.5`) -/
example (M : FlModel) (hu : M.u ≤ 1 / 2) :
    ∃ r, Mesh1.interpolate (exMesh M) ⟨2⟩ = .ok r ∧ r.size = 1 ∧
      ∃ y, r[0]? = some y ∧ |y.val - 9 / 2| ≤ kap M 5 * 9 := by
  have hu1 : M.u < 1 := by linarith
  have hu0 := M.u_nonneg
  obtain ⟨hs0, hs1⟩ := flTransc_snap M hu1
  obtain ⟨r, hr, hsz, hb⟩ := interp_between_rounding (exMesh M) (exMesh_wf M) (exMesh_sized M)
    (fun _ => rfl) hu1 hs0 (exMesh_mono M) (k := 1) (by simp [exMesh]) ⟨2⟩
    (by
      have : (nodeXF (exMesh M) 1).val = 1 := by simp [nodeXF, exMesh, Array.getD]
      rw [this]
      nlinarith)
    (by
      have : (nodeXF (exMesh M) (1 + 1)).val = 3 := by simp [nodeXF, exMesh, Array.getD]
      rw [this]
      nlinarith)
  refine ⟨r, hr, hsz, ?_⟩
  obtain ⟨y, hy, hyb⟩ := hb 0 (by simp [exMesh])
  refine ⟨y, hy, ?_⟩
  have e1 : (val1F (exMesh M) 1 0).val = 7 := by simp [val1F, exMesh, Array.getD]
  have e2 : (val1F (exMesh M) (1 + 1) 0).val = 2 := by simp [val1F, exMesh, Array.getD]
  have e3 : (nodeXF (exMesh M) 1).val = 1 := by simp [nodeXF, exMesh, Array.getD]
  have e4 : (nodeXF (exMesh M) (1 + 1)).val = 3 := by simp [nodeXF, exMesh, Array.getD]
  rw [e1, e2, e3, e4] at hyb
  norm_num at hyb ⊢
  exact hyb

/-- the hypotheses of `interp_at_inner_node_fl` are satisfiable in every model with `u ≤ 1/2`
in which the stored value `7` is representable: interpolating at the node `x = 1` returns exactly
the stored vector `[7]` -/
example (M : FlModel) (hu : M.u ≤ 1 / 2) (h7 : M.Rep 7) :
    Mesh1.interpolate (exMesh M) ⟨1⟩ = .ok #[⟨7⟩] := by
  have hu1 : M.u < 1 := by linarith
  have hu0 := M.u_nonneg
  obtain ⟨hs0, hs1⟩ := flTransc_snap M hu1
  have e3 : (nodeXF (exMesh M) 1).val = 1 := by simp [nodeXF, exMesh, Array.getD]
  have e4 : (nodeXF (exMesh M) (1 + 1)).val = 3 := by simp [nodeXF, exMesh, Array.getD]
  have := (interp_at_inner_node_fl (exMesh M) (exMesh_wf M) (exMesh_sized M)
    (fun _ => rfl) hu1 hs0 (exMesh_mono M) (k := 1) (by simp [exMesh])
    (by rw [e3, e4]; nlinarith)
    (by
      intro v hv
      have : v = 0 := by simpa [exMesh] using hv
      subst this
      have : (val1F (exMesh M) 1 0).val = 7 := by simp [val1F, exMesh, Array.getD]
      rw [this]; exact h7)).1
  exact this

/-- … and such models exist: the binary64-significand format -/
example : FlModel.binary64.u ≤ 1 / 2 ∧ FlModel.binary64.Rep 7 := by
  constructor
  · rw [FlModel.binary64_u]
    have : (2 : ℝ) ^ (-53 : ℤ) ≤ 2 ^ (-1 : ℤ) :=
      zpow_le_zpow_right₀ (by norm_num) (by norm_num)
    simpa using this
  · have : (FlModel.roundBits 52).Rep ((7 : ℤ) : ℝ) := FlModel.roundBits_rep_int 52 7 (by norm_num)
    simpa [FlModel.binary64] using this

end Examples

end Ohsl.Props.C19
