/-
  Property C07 — sparse products (model: Ohsl/Model/Sparse.lean).
  Proved here, class (S): `multiply` / `transpose_multiply` reject vectors whose length differs from
  the number of columns / rows.  The identification with the dense product, the adjoint identity and
  linearity are proved in C07S; the explicit transpose and the entry / dense forms of the transposed
  product in C07T; rounding in C07F.
-/
import Ohsl.Model.Sparse
set_option linter.unusedSectionVars false
namespace Ohsl.Props.C07
open Ohsl Ohsl.Sp
variable {K : Type} [Add K] [Sub K] [Mul K] [Neg K] [Zero K] [One K] [BEq K] [ScalarExt K]

theorem multiply_rejects (s : Sp K) (x : Array K) (h : s.cols ≠ x.size) : multiply s x = .error .size := by
  simp [multiply, h]

theorem transposeMultiply_rejects (s : Sp K) (x : Array K) (h : s.rows ≠ x.size) :
    transposeMultiply s x = .error .size := by simp [transposeMultiply, h]

/-- the product of the empty (0-column) matrix is the zero vector of length `rows` -/
theorem multiply_no_columns (s : Sp K) (x : Array K) (hc : s.cols = 0) (hx : x.size = 0) :
    multiply s x = .ok (Array.replicate s.rows 0) := by
  simp [multiply, hc, hx, Mat.forM', List.range', pure, Except.pure]

end Ohsl.Props.C07
