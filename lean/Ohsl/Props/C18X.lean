/-
  Property C18 (continued) — the exact-arithmetic theorems about the finite-difference Jacobian
  (`Ohsl.Jac.jacobian`, Ohsl/Model/Newton.lean) for EVERY exact element type, complex scalars
  included (`Matrix::<Cmplx>::jacobian_cmplx` is `Jac.jacobian` at element type `Cx f64`, with the
  real step embedded as `⟨delta, 0⟩`).

  C18J (section Field) / C18E (section Affine) state these for a linearly ordered field `K` with
  the interpretation `Alg.scalarExt`.  The proofs never use the order: they use only
  `Alg.DivLaw K` (`divM a b = if b = 0 then error else ok (a / b)`).

  Generic theorems (`…_gen`): `K` any field, ANY `ScalarExt K` satisfying `Alg.DivLaw`:
  * `jacobian_entries_gen`              `delta ≠ 0` only: entry `(i, j)` is the field quotient
                                        `((f (point + δ e_j))[i] − (f point)[i]) / δ`
  * `jacobian_entries_const_gen`        the same for a map of constant output size
  * `jacobian_rejects_size_change_gen`  a size change in column `j`: `.error .size`
  * `jacobian_delta_zero_rejects_gen`   `delta = 0`, `n > 0`, `f point` non-empty: `.error .arith`
  * `jacobian_ok_iff_gen`               the call returns IFF `f` keeps the length of `f point` at
                                        every `point + δ e_j` and (`delta ≠ 0` or nothing to divide)
  * `jacobian_affine_fun_gen`           ANY `f` that is affine on the vectors of length `n`,
                                        `(f x)_i = Σ_j M i j · x_j + c i`: the call returns the
                                        matrix `M` exactly, for every shape and every `delta ≠ 0`
  * `jacobian_affine_gen`               … for `C18.affineMap M c n m`
  The theorems of C18J / C18E are the instance `Alg.divLaw` (examples at the end of section Gen).

  Complex theorems (`…_cx`): `Jac.jacobian` at element type `Cx ℝ` with the model's own instances
  (`Cx.add`, `Cx.sub`, …, `Cx.instScalarExt`: `divM = Cx.div`); quotients and affine maps are read
  in Mathlib's ℂ through `toC : Cx ℝ → ℂ`.  `jacobian_cmplx` is the case `delta = ⟨d, 0⟩`, `d`
  real (`jacobian_entries_cmplx`, `jacobian_affine_cmplx`).
-/
import Ohsl.Props.C18J
import Ohsl.Lemmas.CxField
import Ohsl.Lemmas.SolveSound
import Mathlib.Algebra.BigOperators.Fin
import Mathlib.Tactic.IntervalCases
set_option linter.unusedSectionVars false
set_option linter.unusedVariables false
set_option linter.unusedSimpArgs false
namespace Ohsl.Props.C18
open Ohsl Ohsl.Mat Ohsl.Jac

/-! ### generic in the division law -/
section Gen
variable {K : Type} [Field K] [BEq K] [ScalarExt K] [Alg.DivLaw K]

theorem hdiv_of_ne_gen {delta : K} (hd : delta ≠ 0) : ∀ a : K, ∃ q, divM a delta = .ok q :=
  fun a => ⟨a / delta, Alg.divM_law_ne hd⟩

/-- **entries over any exact field, `delta ≠ 0` only**: if `f` returns vectors of the length `m`
    of `f point` at the `n` perturbed points `point + δ e_j`, the call returns a well-formed
    `m × n` matrix, `f` was called at `point, point + δ e_0, …, point + δ e_{n-1}` in this order,
    and entry `(i, j)` is the field quotient `((f (point + δ e_j))[i] − (f point)[i]) / δ`. -/
theorem jacobian_entries_gen (f : Array K → Array K) (point : Array K) (delta : K)
    (hd : delta ≠ 0)
    (hgood : ∀ j, j < point.size →
      (f (point.modify j (fun p => p + delta))).size = (f point).size) :
    ∃ J, jacobian f point delta
        = .ok (J, point :: (List.range point.size).map
            (fun j => point.modify j (fun p => p + delta))) ∧
      J.rows = (f point).size ∧ J.cols = point.size ∧ J.WF ∧
      ∀ i j (hi : i < (f point).size) (hj : j < point.size)
        (h1 : i < (f (point.modify j (fun p => p + delta))).size),
        J.get i j = .ok (((f (point.modify j (fun p => p + delta)))[i] - (f point)[i]) / delta) := by
  have e : evalPt point delta = fun j => point.modify j (fun p => p + delta) :=
    funext (evalPt_exact point delta)
  obtain ⟨J, h1, h2, h3, h4, h5⟩ := jacobian_entries_local f point delta
    (by rw [e]; exact hgood) (fun _ => hdiv_of_ne_gen hd)
  rw [e] at h1 h5
  refine ⟨J, h1, h2, h3, h4, ?_⟩
  intro i j hi hj h1'
  obtain ⟨q, hq1, hq2⟩ := h5 i j hi hj h1' hi
  rw [Alg.divM_law_ne hd] at hq1
  cases hq1
  exact hq2

/-- the same for a map of constant output size `m` -/
theorem jacobian_entries_const_gen (f : Array K → Array K) (point : Array K) (delta : K) (m : Nat)
    (hd : delta ≠ 0) (hf : ∀ x : Array K, x.size = point.size → (f x).size = m) :
    ∃ J, jacobian f point delta
        = .ok (J, point :: (List.range point.size).map
            (fun j => point.modify j (fun p => p + delta))) ∧
      J.rows = m ∧ J.cols = point.size ∧ J.WF ∧
      ∀ i j (hi : i < m) (hj : j < point.size)
        (h1 : i < (f (point.modify j (fun p => p + delta))).size) (h0 : i < (f point).size),
        J.get i j = .ok (((f (point.modify j (fun p => p + delta)))[i] - (f point)[i]) / delta) := by
  have hm : (f point).size = m := hf point rfl
  obtain ⟨J, h1, h2, h3, h4, h5⟩ := jacobian_entries_gen f point delta hd
    (fun j _ => by rw [hf _ (by simp), hm])
  exact ⟨J, h1, by rw [h2, hm], h3, h4, fun i j hi hj h1' h0 => h5 i j (by rw [hm]; exact hi) hj h1'⟩

/-- **a size change in column `j`, any exact field**: `delta ≠ 0`, the right length at
    `point + δ e_i` for `i < j`, a different length at `point + δ e_j` (`j < n`): `.error .size` -/
theorem jacobian_rejects_size_change_gen (f : Array K → Array K) (point : Array K) (delta : K)
    (hd : delta ≠ 0) (j : Nat) (hj : j < point.size)
    (hgood : ∀ i, i < j → (f (point.modify i (fun p => p + delta))).size = (f point).size)
    (hbad : (f (point.modify j (fun p => p + delta))).size ≠ (f point).size) :
    jacobian f point delta = .error .size := by
  have e : evalPt point delta = fun j => point.modify j (fun p => p + delta) :=
    funext (evalPt_exact point delta)
  exact jacobian_rejects_size_change_at f point delta j hj (fun _ => hdiv_of_ne_gen hd)
    (by rw [e]; exact hgood) (by rw [e]; exact hbad)

/-- dividing a non-empty vector by an exact zero panics -/
theorem sdiv_zero_error_gen (v : Array K) (hv : 0 < v.size) :
    Vec.sdiv v (0 : K) = .error .arith := by
  unfold Vec.sdiv
  rw [Array.mapM_eq_mapM_toList]
  obtain ⟨l, rfl⟩ : ∃ l, v = l.toArray := ⟨v.toList, by simp⟩
  cases l with
  | nil => simp at hv
  | cons a l =>
    simp only [List.mapM_cons, Alg.divM_law_zero, bind, Except.bind]
    rfl

/-- adding an exact zero does not move the point -/
theorem modify_add_zero_gen (x : Array K) (j : Nat) : x.modify j (fun p => p + (0 : K)) = x := by
  apply Array.ext
  · simp
  · intro i h1 h2
    simp only [Array.getElem_modify]
    split <;> simp

/-- **`delta = 0` is rejected, any exact field**: with an exact zero step, a non-empty point
    (`n > 0`) and a non-empty `f point` the call ends in the arithmetic panic of the division by
    `delta` in column 0, `.error .arith` — for EVERY `f`. -/
theorem jacobian_delta_zero_rejects_gen (f : Array K → Array K) (point : Array K)
    (hn : 0 < point.size) (hm : 0 < (f point).size) :
    jacobian f point (0 : K) = .error .arith := by
  have hev : evalPt point (0 : K) 0 = point := by
    rw [evalPt_exact, modify_add_zero_gen]
  have hbody : jacBody f point (0 : K) (jacInit f point) 0 = .error .arith := by
    show jacBody f point (0 : K) (_, stateAt point 0 0, _) 0 = _
    rw [jacBody_unfold f point 0 _ _ 0 hn, hev]
    simp only [Vec.sub, ne_eq, not_true_eq_false, if_false, bind, Except.bind]
    rw [sdiv_zero_error_gen _ (by simpa using hm)]
  rw [jacobian_eq, forM'_first_error 0 point.size _ _ .arith hn hbody]
  rfl

/-- with an empty point there is no column: the call returns the `m × 0` matrix after the single
    evaluation `f point`, whatever `delta` (also `delta = 0`) -/
theorem jacobian_empty_point_gen (f : Array K → Array K) (point : Array K) (delta : K)
    (hn : point.size = 0) :
    jacobian f point delta = .ok (Mat.new (f point).size point.size 0, [point]) := by
  rw [jacobian_eq, forM'_empty 0 point.size _ _ (by omega)]
  rfl

/-- **when the call returns, any exact field**: `jacobian f point delta` returns a value IF AND
    ONLY IF `f` returns a vector of the length of `f point` at every perturbed point
    `point + δ e_j` (`j < n`) and either `delta ≠ 0` or there is nothing to divide (`n = 0`, or
    `f point` is empty).  Otherwise it panics. -/
theorem jacobian_ok_iff_gen (f : Array K → Array K) (point : Array K) (delta : K) :
    (∃ J tr, jacobian f point delta = .ok (J, tr)) ↔
      (∀ j, j < point.size → (f (point.modify j (fun p => p + delta))).size = (f point).size) ∧
      (delta ≠ 0 ∨ point.size = 0 ∨ (f point).size = 0) := by
  have e : evalPt point delta = fun j => point.modify j (fun p => p + delta) :=
    funext (evalPt_exact point delta)
  constructor
  · rintro ⟨J, tr, h⟩
    obtain ⟨_, hs⟩ := jacobian_ok_calls f point delta J tr h
    rw [e] at hs
    refine ⟨hs, ?_⟩
    by_contra hc
    simp only [not_or, not_not] at hc
    obtain ⟨h0, hn, hm⟩ := hc
    subst h0
    rw [jacobian_delta_zero_rejects_gen f point (by omega) (by omega)] at h
    cases h
  · rintro ⟨hs, hc⟩
    by_cases hn : point.size = 0
    · exact ⟨_, _, jacobian_empty_point_gen f point delta hn⟩
    · have hdiv : 0 < (f point).size → ∀ a : K, ∃ q, divM a delta = .ok q := by
        intro hm
        rcases hc with hd | h0 | hm0
        · exact hdiv_of_ne_gen hd
        · exact absurd h0 hn
        · omega
      obtain ⟨J, h1, _⟩ := jacobian_entries_local f point delta (by rw [e]; exact hs) hdiv
      exact ⟨J, _, h1⟩

/-- **the finite-difference Jacobian of an affine map is its matrix, exactly — any exact field,
    any `f` that is affine on the vectors of the length of `point`**:
    `(f x)_i = Σ_{j<n} M i j · x_j + c i` for `i < m = |f x|`.  For every shape `m × n`, every
    point and every `delta ≠ 0` the call succeeds, evaluates the map `n + 1` times (at `point` and
    at the `point + δ e_j`) and returns the well-formed `m × n` matrix whose entry `(i, j)` is
    `M i j`. -/
theorem jacobian_affine_fun_gen (M : Nat → Nat → K) (c : Nat → K) (m : Nat)
    (f : Array K → Array K) (point : Array K) (delta : K) (hd : delta ≠ 0)
    (hf : ∀ x : Array K, x.size = point.size → (f x).size = m ∧
      ∀ i, i < m → (f x).getD i 0 = (∑ j ∈ Finset.range point.size, M i j * x.getD j 0) + c i) :
    ∃ J tr, jacobian f point delta = .ok (J, tr) ∧
      tr = point :: (List.range point.size).map (fun j => point.modify j (fun p => p + delta)) ∧
      tr.length = point.size + 1 ∧ Mat.Is J m point.size M := by
  have hm : (f point).size = m := (hf point rfl).1
  obtain ⟨J, h1, h2, h3, h4, h5⟩ := jacobian_entries_gen f point delta hd
    (fun j _ => by rw [(hf _ (by simp)).1, hm])
  refine ⟨J, _, h1, rfl, by simp, ⟨h4, by rw [h2, hm], h3, ?_⟩⟩
  intro i j hi hj
  have hsz : (f (point.modify j (fun p => p + delta))).size = m := (hf _ (by simp)).1
  have hi0 : i < (f point).size := by rw [hm]; exact hi
  have hi1 : i < (f (point.modify j (fun p => p + delta))).size := by rw [hsz]; exact hi
  rw [h5 i j hi0 hj hi1]
  congr 1
  rw [div_eq_iff hd]
  have e1 : (f (point.modify j (fun p => p + delta)))[i]
      = (∑ t ∈ Finset.range point.size, M i t * (point.modify j (fun p => p + delta)).getD t 0)
        + c i := by
    rw [← (hf _ (by simp)).2 i hi]
    simp [Array.getD, hi1]
  have e0 : (f point)[i] = (∑ t ∈ Finset.range point.size, M i t * point.getD t 0) + c i := by
    rw [← (hf point rfl).2 i hi]
    simp [Array.getD, hi0]
  rw [e1, e0]
  have hsum : (∑ t ∈ Finset.range point.size, M i t * (point.modify j (fun p => p + delta)).getD t 0)
      - ∑ t ∈ Finset.range point.size, M i t * point.getD t 0 = M i j * delta := by
    rw [← Finset.sum_sub_distrib]
    have : ∀ t ∈ Finset.range point.size,
        M i t * (point.modify j (fun p => p + delta)).getD t 0 - M i t * point.getD t 0
          = if t = j then M i j * delta else 0 := by
      intro t ht
      have ht' : t < point.size := Finset.mem_range.mp ht
      simp only [Array.getD_eq_getD_getElem?, Array.getElem?_modify]
      by_cases e : j = t
      · subst e; simp [ht']; ring
      · have e' : ¬ t = j := fun h => e h.symm
        simp [e, e']
    rw [Finset.sum_congr rfl this, Finset.sum_ite_eq' (Finset.range point.size) j (fun _ => M i j * delta)]
    simp [hj]
  rw [← hsum]; ring

/-- **… for the affine map `C18.affineMap M c n m`** (`x ↦ M x + c`, `Kⁿ → Kᵐ`) -/
theorem jacobian_affine_gen (M : Nat → Nat → K) (c : Nat → K) (m : Nat) (point : Array K)
    (delta : K) (hd : delta ≠ 0) :
    ∃ J tr, jacobian (affineMap M c point.size m) point delta = .ok (J, tr) ∧
      tr.length = point.size + 1 ∧ Mat.Is J m point.size M := by
  obtain ⟨J, tr, h1, _, h3, h4⟩ := jacobian_affine_fun_gen M c m (affineMap M c point.size m)
    point delta hd (fun x _ => ⟨by simp [affineMap], fun i hi => by simp [affineMap, Array.getD, hi]⟩)
  exact ⟨J, tr, h1, h3, h4⟩

end Gen

/-! ### the instance of C18J / C18E: a linearly ordered field with `Alg.scalarExt` -/
section Ordered
variable {K : Type} [Field K] [LinearOrder K]
attribute [local instance] Ohsl.Alg.scalarExt

/-- `jacobian_ok_iff_field` of C18J is the instance `Alg.divLaw` of `jacobian_ok_iff_gen` -/
example (f : Array K → Array K) (point : Array K) (delta : K) :
    (∃ J tr, jacobian f point delta = .ok (J, tr)) ↔
      (∀ j, j < point.size → (f (point.modify j (fun p => p + delta))).size = (f point).size) ∧
      (delta ≠ 0 ∨ point.size = 0 ∨ (f point).size = 0) :=
  jacobian_ok_iff_gen f point delta

/-- `jacobian_affine` of C18E is the instance `Alg.divLaw` of `jacobian_affine_gen` -/
example (M : Nat → Nat → K) (c : Nat → K) (m : Nat) (point : Array K) (delta : K)
    (hd : delta ≠ 0) :
    ∃ J tr, jacobian (affineMap M c point.size m) point delta = .ok (J, tr) ∧
      tr.length = point.size + 1 ∧ Mat.Is J m point.size M :=
  jacobian_affine_gen M c m point delta hd

end Ordered

/-! ### complex scalars: the model's `Cx ℝ` with its own instances (`jacobian_cmplx`) -/
section Complex
open Ohsl.RealI Ohsl.CxField Ohsl.Props.C13 Ohsl.Props.C14

/-- the real step of `jacobian_cmplx`, embedded: `toC ⟨d, 0⟩ = d` -/
theorem toC_ofReal (d : ℝ) : toC (⟨d, 0⟩ : Cx ℝ) = (d : ℂ) := rfl

theorem ofReal_ne_zero {d : ℝ} (hd : d ≠ 0) : (⟨d, 0⟩ : Cx ℝ) ≠ 0 := by
  intro h
  have := congrArg Cx.re h
  exact hd this

/-- **entries of the complex finite-difference Jacobian, `delta ≠ 0` only** (`delta` any complex
    step): if `f` returns vectors of the length `m` of `f point` at the `n` perturbed points, the
    call returns a well-formed `m × n` matrix, `f` was called at `point, point + δ e_0, …` in this
    order, and entry `(i, j)`, read in ℂ, is the quotient
    `(toC (f (point + δ e_j))[i] − toC (f point)[i]) / toC δ`. -/
theorem jacobian_entries_cx (f : Array (Cx ℝ) → Array (Cx ℝ)) (point : Array (Cx ℝ))
    (delta : Cx ℝ) (hd : delta ≠ 0)
    (hgood : ∀ j, j < point.size →
      (f (point.modify j (fun p => p + delta))).size = (f point).size) :
    ∃ J, jacobian f point delta
        = .ok (J, point :: (List.range point.size).map
            (fun j => point.modify j (fun p => p + delta))) ∧
      J.rows = (f point).size ∧ J.cols = point.size ∧ J.WF ∧
      ∀ i j (hi : i < (f point).size) (hj : j < point.size)
        (h1 : i < (f (point.modify j (fun p => p + delta))).size),
        ∃ q, J.get i j = .ok q ∧
          toC q = (toC (f (point.modify j (fun p => p + delta)))[i] - toC (f point)[i])
            / toC delta := by
  obtain ⟨J, h1, h2, h3, h4, h5⟩ :=
    @jacobian_entries_gen (Cx ℝ) CxField.field _ _ _ f point delta hd hgood
  refine ⟨J, h1, h2, h3, h4, ?_⟩
  intro i j hi hj h1'
  refine ⟨_, h5 i j hi hj h1', ?_⟩
  exact (toC_div_field _ _).trans (congrArg (· / toC delta) (toC_sub _ _))

/-- **`jacobian_cmplx`**: the step is the real `d ≠ 0`, embedded as `d + 0i`; entry `(i, j)` read
    in ℂ is `(toC (f (point + d e_j))[i] − toC (f point)[i]) / d`. -/
theorem jacobian_entries_cmplx (f : Array (Cx ℝ) → Array (Cx ℝ)) (point : Array (Cx ℝ))
    (d : ℝ) (hd : d ≠ 0)
    (hgood : ∀ j, j < point.size →
      (f (point.modify j (fun p => p + ⟨d, 0⟩))).size = (f point).size) :
    ∃ J, jacobian f point (⟨d, 0⟩ : Cx ℝ)
        = .ok (J, point :: (List.range point.size).map
            (fun j => point.modify j (fun p => p + ⟨d, 0⟩))) ∧
      J.rows = (f point).size ∧ J.cols = point.size ∧ J.WF ∧
      ∀ i j (hi : i < (f point).size) (hj : j < point.size)
        (h1 : i < (f (point.modify j (fun p => p + ⟨d, 0⟩))).size),
        ∃ q, J.get i j = .ok q ∧
          toC q = (toC (f (point.modify j (fun p => p + ⟨d, 0⟩)))[i] - toC (f point)[i])
            / (d : ℂ) :=
  jacobian_entries_cx f point ⟨d, 0⟩ (ofReal_ne_zero hd) hgood

/-- a size change in column `j` of the complex Jacobian: `.error .size` -/
theorem jacobian_rejects_size_change_cx (f : Array (Cx ℝ) → Array (Cx ℝ))
    (point : Array (Cx ℝ)) (delta : Cx ℝ) (hd : delta ≠ 0) (j : Nat) (hj : j < point.size)
    (hgood : ∀ i, i < j → (f (point.modify i (fun p => p + delta))).size = (f point).size)
    (hbad : (f (point.modify j (fun p => p + delta))).size ≠ (f point).size) :
    jacobian f point delta = .error .size :=
  @jacobian_rejects_size_change_gen (Cx ℝ) CxField.field _ _ _ f point delta hd j hj hgood hbad

/-- **a zero step is rejected by the complex Jacobian**: `n > 0`, `f point` non-empty:
    `.error .arith` (the complex division `Cx.div` fails on an exact zero divisor), for every `f` -/
theorem jacobian_delta_zero_rejects_cx (f : Array (Cx ℝ) → Array (Cx ℝ)) (point : Array (Cx ℝ))
    (hn : 0 < point.size) (hm : 0 < (f point).size) :
    jacobian f point (0 : Cx ℝ) = .error .arith :=
  @jacobian_delta_zero_rejects_gen (Cx ℝ) CxField.field _ _ _ f point hn hm

/-- `jacobian_cmplx` with the real step `0.0` -/
theorem jacobian_delta_zero_rejects_cmplx (f : Array (Cx ℝ) → Array (Cx ℝ))
    (point : Array (Cx ℝ)) (hn : 0 < point.size) (hm : 0 < (f point).size) :
    jacobian f point (⟨0, 0⟩ : Cx ℝ) = .error .arith :=
  jacobian_delta_zero_rejects_cx f point hn hm

/-- **when the complex Jacobian call returns**: IF AND ONLY IF `f` keeps the length of `f point`
    at every perturbed point and (`delta ≠ 0`, or `n = 0`, or `f point` is empty). -/
theorem jacobian_ok_iff_cx (f : Array (Cx ℝ) → Array (Cx ℝ)) (point : Array (Cx ℝ))
    (delta : Cx ℝ) :
    (∃ J tr, jacobian f point delta = .ok (J, tr)) ↔
      (∀ j, j < point.size → (f (point.modify j (fun p => p + delta))).size = (f point).size) ∧
      (delta ≠ 0 ∨ point.size = 0 ∨ (f point).size = 0) :=
  @jacobian_ok_iff_gen (Cx ℝ) CxField.field _ _ _ f point delta

/-- `f : ℂⁿ → ℂᵐ` on arrays over `Cx ℝ` is the affine map `x ↦ M x + c`, read in ℂ: on every
    vector of length `n` it returns a vector of length `m` with
    `toC (f x)_i = Σ_{j<n} toC (M i j) · toC x_j + toC (c i)` -/
def AffineC (M : Nat → Nat → Cx ℝ) (c : Nat → Cx ℝ) (n m : Nat)
    (f : Array (Cx ℝ) → Array (Cx ℝ)) : Prop :=
  ∀ x : Array (Cx ℝ), x.size = n → (f x).size = m ∧
    ∀ i, i < m → toC ((f x).getD i 0)
      = (∑ j ∈ Finset.range n, toC (M i j) * toC (x.getD j 0)) + toC (c i)

/-- the affine condition in ℂ is the affine condition in the field `Cx ℝ` -/
theorem affineC_field {M : Nat → Nat → Cx ℝ} {c : Nat → Cx ℝ} {n m : Nat}
    {f : Array (Cx ℝ) → Array (Cx ℝ)} (hf : AffineC M c n m f) :
    ∀ x : Array (Cx ℝ), x.size = n → (f x).size = m ∧
      ∀ i, i < m → (f x).getD i 0
        = @HAdd.hAdd _ _ _ _ (@Finset.sum _ _ CxField.field.toAddCommMonoid (Finset.range n)
            (fun j => M i j * x.getD j 0)) (c i) := by
  let _ := CxField.field
  have e : ∀ g : Nat → Cx ℝ, toC (∑ j ∈ Finset.range n, g j) = ∑ j ∈ Finset.range n, toC (g j) :=
    fun g => map_sum CxField.toCHom g _
  intro x hx
  refine ⟨(hf x hx).1, fun i hi => ?_⟩
  apply toC_injective
  rw [(hf x hx).2 i hi, toC_add, e]
  simp only [toC_mul]

/-- **the finite-difference Jacobian of a complex affine map is its matrix, exactly**: if `f`,
    read in ℂ, is `x ↦ M x + c` on the vectors of length `n = |point|` (`AffineC`), then for
    every shape `m × n`, every point and every complex step `delta ≠ 0` the call succeeds after
    `n + 1` evaluations and returns the well-formed `m × n` matrix with entries `M i j` — so its
    `toC`-image is the matrix `toC (M i j)` of the map, with no truncation error. -/
theorem jacobian_affine_cx (M : Nat → Nat → Cx ℝ) (c : Nat → Cx ℝ) (m : Nat)
    (f : Array (Cx ℝ) → Array (Cx ℝ)) (point : Array (Cx ℝ)) (delta : Cx ℝ) (hd : delta ≠ 0)
    (hf : AffineC M c point.size m f) :
    ∃ J tr, jacobian f point delta = .ok (J, tr) ∧
      tr = point :: (List.range point.size).map (fun j => point.modify j (fun p => p + delta)) ∧
      tr.length = point.size + 1 ∧ Mat.Is J m point.size M ∧
      ∀ i j, i < m → j < point.size → ∃ q, J.get i j = .ok q ∧ toC q = toC (M i j) := by
  obtain ⟨J, tr, h1, h2, h3, h4⟩ :=
    @jacobian_affine_fun_gen (Cx ℝ) CxField.field _ _ _ M c m f point delta hd (affineC_field hf)
  exact ⟨J, tr, h1, h2, h3, h4, fun i j hi hj => ⟨M i j, h4.entry i j hi hj, rfl⟩⟩

/-- **`jacobian_cmplx` on a complex affine map**: real step `d ≠ 0` -/
theorem jacobian_affine_cmplx (M : Nat → Nat → Cx ℝ) (c : Nat → Cx ℝ) (m : Nat)
    (f : Array (Cx ℝ) → Array (Cx ℝ)) (point : Array (Cx ℝ)) (d : ℝ) (hd : d ≠ 0)
    (hf : AffineC M c point.size m f) :
    ∃ J tr, jacobian f point (⟨d, 0⟩ : Cx ℝ) = .ok (J, tr) ∧
      tr.length = point.size + 1 ∧ Mat.Is J m point.size M := by
  obtain ⟨J, tr, h1, _, h3, h4, _⟩ := jacobian_affine_cx M c m f point ⟨d, 0⟩ (ofReal_ne_zero hd) hf
  exact ⟨J, tr, h1, h3, h4⟩

end Complex

/-! ### examples -/
section Examples
open Ohsl.RealI Ohsl.CxField Ohsl.Props.C13 Ohsl.Props.C14

/-- the complex matrix `[[i, 1], [2 + i, -i], [0, 3]]` (3 × 2) -/
def exMX : Mat (Cx ℝ) := ⟨#[⟨0, 1⟩, ⟨1, 0⟩, ⟨2, 1⟩, ⟨0, -1⟩, ⟨0, 0⟩, ⟨3, 0⟩], 3, 2⟩

/-- the complex affine map `ℂ² → ℂ³`, `(x, y) ↦ (i x + y + 1, (2 + i) x − i y, 3 y + i)`, written
    with the model's complex operations -/
def exFX (x : Array (Cx ℝ)) : Array (Cx ℝ) :=
  #[⟨0, 1⟩ * x.getD 0 0 + x.getD 1 0 + ⟨1, 0⟩,
    ⟨2, 1⟩ * x.getD 0 0 - ⟨0, 1⟩ * x.getD 1 0,
    ⟨3, 0⟩ * x.getD 1 0 + ⟨0, 1⟩]

theorem exFX_affine : AffineC (Mat.ent exMX) (fun i => (#[⟨1, 0⟩, 0, ⟨0, 1⟩] : Array (Cx ℝ)).getD i 0)
    2 3 exFX := by
  intro x _
  refine ⟨rfl, fun i hi => ?_⟩
  interval_cases i <;>
    simp [exFX, exMX, Mat.ent, Finset.sum_range_succ, toC_add, toC_sub, toC_mul, toC, Complex.ext_iff,
      sub_eq_add_neg]

/-- **a complex affine map's Jacobian**: `jacobian_cmplx` of `exFX` at the point `(1 + i, 2 − 3i)`
    with the real step `1/8` returns, after 3 evaluations, the 3 × 2 matrix of the map itself:
    e.g. entry `(1, 0)` is `2 + i` and entry `(1, 1)` is `−i`, exactly -/
example : ∃ J tr, jacobian exFX #[⟨1, 1⟩, ⟨2, -3⟩] (⟨1 / 8, 0⟩ : Cx ℝ) = .ok (J, tr) ∧
    tr.length = 3 ∧ Mat.Is J 3 2 (Mat.ent exMX) ∧
    J.get 1 0 = .ok ⟨2, 1⟩ ∧ J.get 1 1 = .ok ⟨0, -1⟩ := by
  obtain ⟨J, tr, h1, h2, h3⟩ := jacobian_affine_cmplx (Mat.ent exMX) _ 3 exFX
    #[⟨1, 1⟩, ⟨2, -3⟩] (1 / 8) (by norm_num) exFX_affine
  refine ⟨J, tr, h1, h2, h3, ?_, ?_⟩
  · rw [h3.entry 1 0 (by norm_num) (by norm_num)]; simp [Mat.ent, exMX]
  · rw [h3.entry 1 1 (by norm_num) (by norm_num)]; simp [Mat.ent, exMX]

/-- the step may be any non-zero complex number: with `δ = i` the result is the same matrix -/
example : ∃ J tr, jacobian exFX #[⟨1, 1⟩, ⟨2, -3⟩] (⟨0, 1⟩ : Cx ℝ) = .ok (J, tr) ∧
    Mat.Is J 3 2 (Mat.ent exMX) := by
  obtain ⟨J, tr, h1, _, _, h4, _⟩ := jacobian_affine_cx (Mat.ent exMX) _ 3 exFX
    #[⟨1, 1⟩, ⟨2, -3⟩] ⟨0, 1⟩ (by intro h; have := congrArg Cx.im h; simp at this) exFX_affine
  exact ⟨J, tr, h1, h4⟩

/-- a zero step is the arithmetic panic -/
example : jacobian exFX #[⟨1, 1⟩, ⟨2, -3⟩] (⟨0, 0⟩ : Cx ℝ) = .error .arith :=
  jacobian_delta_zero_rejects_cmplx exFX _ (by decide) (by decide)

end Examples

end Ohsl.Props.C18
