/-
  Property C18 (continued), class (R) — ACCURACY of the finite-difference Jacobian for smooth maps
  and of the finite-difference Newton step, in exact real arithmetic (`K = ℝ` with the instances of
  `Ohsl/Lemmas/RealTransc.lean`).  Model: `Ohsl.Jac.jacobian`, `Ohsl.Newton.solveScalar`
  (Ohsl/Model/Newton.lean).

  Analysis (no model):
  * `taylor2`            : `|g b - g a - g' a (b - a)| ≤ M (b - a)²/2` when `|g''| ≤ M` on `[[a, b]]`;
  * `diffquot_error`     : `|(g(t+δ) - g t)/δ - g' t| ≤ M₂ |δ| / 2`, `δ ≠ 0` of either sign;
  * `centraldiff_error`  : the same bound for `(g(t+δ) - g(t-δ)) / (2δ)` (only `|g''| ≤ M₂` used).
  Jacobian:
  * `jacobian_entries_real` : the restore is exact (saved coordinate put back), `jacobian_entries` applies
      with the only hypothesis `δ ≠ 0`: entry `(i,j)` is `(F_i(x + δ e_j) - F_i(x)) / δ`;
  * `jacobian_accuracy`     : `|J i j - ∂F_i/∂x_j (x)| ≤ M₂ |δ| / 2` for EVERY shape `m × n`;
  * `jacobian_accuracy_fin`, `jacobian_accuracy_fderiv` : the same for the array form of a map
      `(Fin n → ℝ) → (Fin m → ℝ)`; with a Fréchet derivative `F'` the entry is compared with
      `F' e_j i`;
  * `jacobian_quadratic_exact_error` : for coordinatewise quadratic maps the error is exactly
      `δ/2 · ∂²F_i/∂x_j²` (the bound is sharp).
  Newton (scalar) — NOTE: the model `Newton.solveScalar` (and src/newton.rs:64-65) estimates the
  derivative by the CENTRAL quotient `(f(x+δ) - f(x-δ)) / (2δ)`, not by the forward quotient; both
  are covered:
  * `newton_step_general`  : one Newton step with ANY derivative estimate `d`, `|d - f' x| ≤ ε < m`;
  * `newton_scalar_fd_step` (`…_simple`) : forward quotient `d = (f(x+δ) - f x)/δ`;
  * `newton_scalar_model_step` (`…_simple`) : the model's central quotient:
      `|x⁺ - r| ≤ C (|x - r|² + |δ| |x - r|)`, `C = M₂ / (2m - M₂|δ|)` (`C = M₂/m` when `M₂|δ| ≤ m`);
  * `solveScalar_real_char`: the result of the model's loop over ℝ in terms of the iterates;
  * `newton_scalar_fd_converges`, `newton_scalar_fd_tendsto` : from a guess with `|x₀ - r| ≤ ρ` and
      `q = C (ρ + |δ|) < 1` (hypotheses bundled in `NewtonBall`) the iterates stay in the ball, the
      one-step estimate holds at every step, `|x_k - r| ≤ q^k |x₀ - r|`, and `x_k → r`;
  * `newton_scalar_model_converges`, `newton_scalar_model_success_within_tol` : what
      `solveScalar` returns near a simple root (success ⇒ within `q/(1-q)·tol`, `≤ tol` if `q ≤ 1/2`;
      failure ⇒ error `≤ qⁿ|x₀ - r|`; success guaranteed once `(1+q) q^(n-1) |x₀ - r| ≤ tol`).
  In exact real arithmetic the decrease is geometric all the way to the root (the `O(δ)` term only
  makes the asymptotic rate linear, `≈ C|δ|`, instead of quadratic); the floor caused by rounding
  is a class-F matter and is not modelled here.  NOT proved: `O(δ²)` accuracy of the central
  quotient under a `C³` hypothesis; convergence of the SYSTEM iteration (`Jac.solveSys`).
  All theorems are in `section Real` (class R).
-/
import Ohsl.Props.C18E
import Ohsl.Lemmas.RealTransc
import Mathlib.Analysis.Calculus.MeanValue
import Mathlib.Analysis.Calculus.Deriv.Pow
import Mathlib.Analysis.Calculus.Deriv.Prod
import Mathlib.Analysis.SpecificLimits.Basic
set_option linter.unusedSectionVars false
set_option linter.unusedVariables false
set_option linter.unusedSimpArgs false
namespace Ohsl.Props.C18
open Ohsl Ohsl.Mat Ohsl.Jac Set

section Real

/-! ### second-order Taylor estimate and difference quotients -/
section Analysis

/-- Taylor with second-order remainder on the unit interval (mean value inequality twice) -/
theorem taylor2_unit (G G' G'' : ℝ → ℝ) (B : ℝ)
    (h1 : ∀ u ∈ Icc (0 : ℝ) 1, HasDerivAt G (G' u) u)
    (h2 : ∀ u ∈ Icc (0 : ℝ) 1, HasDerivAt G' (G'' u) u)
    (hB : ∀ u ∈ Icc (0 : ℝ) 1, |G'' u| ≤ B) :
    |G 1 - G 0 - G' 0| ≤ B / 2 := by
  have h0 : (0 : ℝ) ∈ Icc (0 : ℝ) 1 := ⟨le_refl _, zero_le_one⟩
  have hA : ∀ u ∈ Icc (0 : ℝ) 1, ‖G' u - G' 0‖ ≤ B * u := by
    intro u hu
    have := Convex.norm_image_sub_le_of_norm_hasDerivWithin_le (f := G') (f' := G'')
      (s := Icc (0 : ℝ) 1) (C := B) (fun x hx => (h2 x hx).hasDerivWithinAt)
      (fun x hx => by simpa using hB x hx) (convex_Icc _ _) h0 hu
    simpa [abs_of_nonneg hu.1] using this
  have hder : ∀ u ∈ Icc (0 : ℝ) 1,
      HasDerivAt (fun u => G u - G 0 - G' 0 * u) (G' u - G' 0) u := by
    intro u hu
    have := ((h1 u hu).sub_const (G 0)).sub ((hasDerivAt_id u).const_mul (G' 0))
    exact this.congr_deriv (by ring)
  have key := image_norm_le_of_norm_deriv_right_le_deriv_boundary
    (f := fun u => G u - G 0 - G' 0 * u) (f' := fun u => G' u - G' 0) (a := 0) (b := 1)
    (B := fun u => B * u ^ 2 / 2) (B' := fun u => B * u)
    (fun u hu => (hder u hu).continuousAt.continuousWithinAt)
    (fun u hu => (hder u ⟨hu.1, hu.2.le⟩).hasDerivWithinAt)
    (by simp)
    (fun u => by
      have := ((hasDerivAt_pow 2 u).const_mul B).div_const 2
      exact this.congr_deriv (by push_cast; ring))
    (fun u hu => hA u ⟨hu.1, hu.2.le⟩)
    (x := 1) ⟨zero_le_one, le_refl _⟩
  simpa using key

/-- **Taylor, second order**: if `g` is twice differentiable on the segment `[[a, b]]` (either
    order) with `|g''| ≤ M` there, then `|g b - g a - g' a (b - a)| ≤ M (b - a)² / 2`. -/
theorem taylor2 (g g' g'' : ℝ → ℝ) (a b M : ℝ)
    (h1 : ∀ s ∈ uIcc a b, HasDerivAt g (g' s) s)
    (h2 : ∀ s ∈ uIcc a b, HasDerivAt g' (g'' s) s)
    (hM : ∀ s ∈ uIcc a b, |g'' s| ≤ M) :
    |g b - g a - g' a * (b - a)| ≤ M * (b - a) ^ 2 / 2 := by
  have hmem : ∀ u ∈ Icc (0 : ℝ) 1, a + u * (b - a) ∈ uIcc a b := by
    intro u hu
    rw [mem_uIcc]
    rcases le_total a b with h | h
    · left; constructor <;> nlinarith [hu.1, hu.2]
    · right; constructor <;> nlinarith [hu.1, hu.2]
  have hin : ∀ u : ℝ, HasDerivAt (fun u => a + u * (b - a)) (b - a) u := fun u =>
    (((hasDerivAt_id u).mul_const (b - a)).const_add a).congr_deriv (by ring)
  have key := taylor2_unit (fun u => g (a + u * (b - a))) (fun u => g' (a + u * (b - a)) * (b - a))
    (fun u => g'' (a + u * (b - a)) * (b - a) * (b - a)) (M * (b - a) ^ 2)
    (fun u hu => (h1 _ (hmem u hu)).comp u (hin u))
    (fun u hu => ((h2 _ (hmem u hu)).comp u (hin u)).mul_const (b - a))
    (fun u hu => by
      rw [mul_assoc, abs_mul, ← pow_two, abs_of_nonneg (sq_nonneg (b - a))]
      exact mul_le_mul_of_nonneg_right (hM _ (hmem u hu)) (sq_nonneg _))
  have e1 : a + 1 * (b - a) = b := by ring
  have e0 : a + 0 * (b - a) = a := by ring
  simp only [e1, e0] at key
  exact key

/-- **accuracy of the forward difference quotient**: for `g` twice differentiable on the segment
    between `t` and `t + δ` (`δ ≠ 0`, either sign) with `|g''| ≤ M₂` there,
    `|(g(t+δ) - g(t))/δ - g'(t)| ≤ M₂ |δ| / 2`. -/
theorem diffquot_error (g g' g'' : ℝ → ℝ) (t δ M₂ : ℝ) (hδ : δ ≠ 0)
    (h1 : ∀ s ∈ uIcc t (t + δ), HasDerivAt g (g' s) s)
    (h2 : ∀ s ∈ uIcc t (t + δ), HasDerivAt g' (g'' s) s)
    (hM : ∀ s ∈ uIcc t (t + δ), |g'' s| ≤ M₂) :
    |(g (t + δ) - g t) / δ - g' t| ≤ M₂ * |δ| / 2 := by
  have h := taylor2 g g' g'' t (t + δ) M₂ h1 h2 hM
  have e : t + δ - t = δ := by ring
  rw [e] at h
  have hq : (g (t + δ) - g t) / δ - g' t = (g (t + δ) - g t - g' t * δ) / δ := by
    field_simp
  rw [hq, abs_div, div_le_iff₀ (abs_pos.mpr hδ)]
  calc |g (t + δ) - g t - g' t * δ| ≤ M₂ * δ ^ 2 / 2 := h
    _ = M₂ * |δ| / 2 * |δ| := by rw [← sq_abs]; ring

/-- the central difference quotient `(g(t+δ) - g(t-δ)) / (2δ)` (the derivative estimate of the
    scalar Newton iteration) obeys the same first-order bound under the same `C²` hypothesis -/
theorem centraldiff_error (g g' g'' : ℝ → ℝ) (t δ M₂ : ℝ) (hδ : δ ≠ 0)
    (h1 : ∀ s ∈ uIcc (t - δ) (t + δ), HasDerivAt g (g' s) s)
    (h2 : ∀ s ∈ uIcc (t - δ) (t + δ), HasDerivAt g' (g'' s) s)
    (hM : ∀ s ∈ uIcc (t - δ) (t + δ), |g'' s| ≤ M₂) :
    |(g (t + δ) - g (t - δ)) / ((1 + 1) * δ) - g' t| ≤ M₂ * |δ| / 2 := by
  have ht : t ∈ uIcc (t - δ) (t + δ) := by
    rw [mem_uIcc]
    rcases le_total 0 δ with h | h
    · left; constructor <;> linarith
    · right; constructor <;> linarith
  have sp : uIcc t (t + δ) ⊆ uIcc (t - δ) (t + δ) :=
    ordConnected_uIcc.uIcc_subset ht right_mem_uIcc
  have sm : uIcc t (t + -δ) ⊆ uIcc (t - δ) (t + δ) := by
    have : t + -δ = t - δ := by ring
    rw [this]
    exact ordConnected_uIcc.uIcc_subset ht left_mem_uIcc
  have hp := diffquot_error g g' g'' t δ M₂ hδ (fun s hs => h1 s (sp hs)) (fun s hs => h2 s (sp hs))
    (fun s hs => hM s (sp hs))
  have hn := diffquot_error g g' g'' t (-δ) M₂ (neg_ne_zero.mpr hδ) (fun s hs => h1 s (sm hs))
    (fun s hs => h2 s (sm hs)) (fun s hs => hM s (sm hs))
  rw [abs_neg] at hn
  have e : (g (t + δ) - g (t - δ)) / ((1 + 1) * δ) - g' t
      = (((g (t + δ) - g t) / δ - g' t) + ((g (t + -δ) - g t) / -δ - g' t)) / 2 := by
    have : t + -δ = t - δ := by ring
    rw [this]
    field_simp
    ring
  rw [e, abs_div, abs_of_pos (by norm_num : (0 : ℝ) < 2)]
  have := abs_add_le ((g (t + δ) - g t) / δ - g' t) ((g (t + -δ) - g t) / -δ - g' t)
  linarith

end Analysis

/-! ### the finite-difference Jacobian over ℝ -/
section Jacobian

/-- the partial function `t ↦ F_i(x + t e_j)` of a map given on arrays (entries beyond the size of
    the result read as 0) -/
noncomputable def partialFn (F : Array ℝ → Array ℝ) (x : Array ℝ) (i j : ℕ) (t : ℝ) : ℝ :=
  (F (x.modify j (fun p => p + t))).getD i 0

theorem modify_add_zero (x : Array ℝ) (j : ℕ) : x.modify j (fun p => p + (0 : ℝ)) = x := by
  apply Array.ext
  · simp
  · intro k h1 h2
    simp only [Array.getElem_modify]
    split <;> simp

theorem getD_of_lt (a : Array ℝ) (i : ℕ) (h : i < a.size) : a.getD i 0 = a[i] := by
  simp [Array.getD, h]

/-- **entries over ℝ**: the restore is exact (the saved `x_j` is put back), so for `δ ≠ 0` and a map of
    constant output size `m` the call succeeds, evaluates `F` at `x` and at `x + δ e_j`
    (`j = 0, …, n-1`, in this order) and returns the well-formed `m × n` matrix whose entry `(i,j)`
    is the difference quotient `(F_i(x + δ e_j) - F_i(x)) / δ` — for every shape. -/
theorem jacobian_entries_real (F : Array ℝ → Array ℝ) (x : Array ℝ) (δ : ℝ) (m : ℕ)
    (hF : ∀ y : Array ℝ, y.size = x.size → (F y).size = m) (hδ : δ ≠ 0) :
    ∃ J, jacobian F x δ
        = .ok (J, x :: (List.range x.size).map (fun j => x.modify j (fun p => p + δ))) ∧
      Mat.Is J m x.size (fun i j => (partialFn F x i j δ - partialFn F x i j 0) / δ) := by
  have hdiv : ∀ a : ℝ, ∃ q, divM a δ = .ok q := fun a => ⟨a / δ, Alg.divM_ne hδ⟩
  obtain ⟨J, h1, h2, h3, h4, h5⟩ := jacobian_restore_exact F x δ m hF hdiv
  refine ⟨J, h1, ⟨h4, h2, h3, ?_⟩⟩
  intro i j hi hj
  have s1 : i < (F (x.modify j (fun p => p + δ))).size := by rw [hF _ (by simp)]; exact hi
  have s0 : i < (F x).size := by rw [hF x rfl]; exact hi
  obtain ⟨q, hq1, hq2⟩ := h5 i j hi hj s1 s0
  rw [hq2]
  have hq : divM ((F (x.modify j (fun p => p + δ)))[i] - (F x)[i]) δ
      = .ok (((F (x.modify j (fun p => p + δ)))[i] - (F x)[i]) / δ) := Alg.divM_ne hδ
  rw [hq] at hq1
  rw [← Except.ok.inj hq1]
  simp only [partialFn, modify_add_zero, getD_of_lt _ _ s1, getD_of_lt _ _ s0]

/-- **accuracy `O(δ)` for smooth maps**, every shape `m × n`: if for each `i < m`, `j < n` the
    partial function `t ↦ F_i(x + t e_j)` is twice differentiable on the segment between `0` and `δ`
    with second derivative bounded by `M₂` there, the model's Jacobian satisfies
    `|J i j - ∂F_i/∂x_j (x)| ≤ M₂ |δ| / 2`, where `∂F_i/∂x_j (x)` is the derivative at `0` of the
    partial function. -/
theorem jacobian_accuracy (F : Array ℝ → Array ℝ) (x : Array ℝ) (δ M₂ : ℝ) (m : ℕ)
    (hF : ∀ y : Array ℝ, y.size = x.size → (F y).size = m) (hδ : δ ≠ 0)
    (hsm : ∀ i j, i < m → j < x.size → ∃ g' g'' : ℝ → ℝ,
      (∀ t ∈ uIcc 0 δ, HasDerivAt (partialFn F x i j) (g' t) t) ∧
      (∀ t ∈ uIcc 0 δ, HasDerivAt g' (g'' t) t) ∧ ∀ t ∈ uIcc 0 δ, |g'' t| ≤ M₂) :
    ∃ J tr e, jacobian F x δ = .ok (J, tr) ∧ tr.length = x.size + 1 ∧ Mat.Is J m x.size e ∧
      ∀ i j, i < m → j < x.size → |e i j - deriv (partialFn F x i j) 0| ≤ M₂ * |δ| / 2 := by
  obtain ⟨J, h1, h2⟩ := jacobian_entries_real F x δ m hF hδ
  refine ⟨J, _, _, h1, by simp, h2, ?_⟩
  intro i j hi hj
  obtain ⟨g', g'', d1, d2, d3⟩ := hsm i j hi hj
  have z : (0 : ℝ) + δ = δ := zero_add δ
  have := diffquot_error (partialFn F x i j) g' g'' 0 δ M₂ hδ (by rwa [z]) (by rwa [z]) (by rwa [z])
  rw [z] at this
  rw [(d1 0 left_mem_uIcc).deriv]
  exact this

/-- array form of a map `ℝⁿ → ℝᵐ` (coordinates beyond the size of the argument read as 0) -/
noncomputable def arrayForm {n m : ℕ} (Ff : (Fin n → ℝ) → (Fin m → ℝ)) (a : Array ℝ) : Array ℝ :=
  Array.ofFn (fun i => Ff (fun j => a.getD j 0) i)

/-- bridge: the partial functions of the array form are `t ↦ F_i(x + t e_j)` -/
theorem partialFn_arrayForm {n m : ℕ} (Ff : (Fin n → ℝ) → (Fin m → ℝ)) (x : Fin n → ℝ)
    (i : Fin m) (j : Fin n) (t : ℝ) :
    partialFn (arrayForm Ff) (Array.ofFn x) i j t = Ff (Function.update x j (x j + t)) i := by
  have hsz : (i : ℕ) < (arrayForm Ff ((Array.ofFn x).modify j (fun p => p + t))).size := by
    simp [arrayForm]
  rw [partialFn, getD_of_lt _ _ hsz]
  simp only [arrayForm, Array.getElem_ofFn]
  congr 1
  funext k
  simp only [Array.getD_eq_getD_getElem?, Array.getElem?_modify, Function.update_apply]
  by_cases e : (j : ℕ) = k
  · have e' : k = j := Fin.ext e.symm
    subst e'
    simp
  · have e' : ¬ k = j := fun h => e (by rw [h])
    simp [e, e']

/-- `x + t e_j` written with `Function.update` -/
theorem update_eq_add_single {n : ℕ} (x : Fin n → ℝ) (j : Fin n) (t : ℝ) :
    Function.update x j (x j + t) = x + t • Pi.single j (1 : ℝ) := by
  funext k
  by_cases e : k = j
  · subst e; simp
  · simp [e]

/-- **accuracy, functions on `Fin n → ℝ`**: for `F : ℝⁿ → ℝᵐ` whose partial functions
    `t ↦ F_i(x + t e_j)` are twice differentiable on the segment between `0` and `δ` with
    `|∂²F_i/∂x_j²| ≤ M₂` there, the model's Jacobian of the array form of `F` at `x` is an `m × n`
    matrix within `M₂ |δ| / 2` of the partial derivatives, entrywise — every `m`, `n`. -/
theorem jacobian_accuracy_fin {n m : ℕ} (Ff : (Fin n → ℝ) → (Fin m → ℝ)) (x : Fin n → ℝ)
    (δ M₂ : ℝ) (hδ : δ ≠ 0)
    (hsm : ∀ (i : Fin m) (j : Fin n), ∃ g' g'' : ℝ → ℝ,
      (∀ t ∈ uIcc 0 δ, HasDerivAt (fun s => Ff (Function.update x j (x j + s)) i) (g' t) t) ∧
      (∀ t ∈ uIcc 0 δ, HasDerivAt g' (g'' t) t) ∧ ∀ t ∈ uIcc 0 δ, |g'' t| ≤ M₂) :
    ∃ J tr e, jacobian (arrayForm Ff) (Array.ofFn x) δ = .ok (J, tr) ∧ tr.length = n + 1 ∧
      Mat.Is J m n e ∧
      ∀ (i : Fin m) (j : Fin n),
        |e i j - deriv (fun s => Ff (Function.update x j (x j + s)) i) 0| ≤ M₂ * |δ| / 2 := by
  have hfun : ∀ (i : Fin m) (j : Fin n), partialFn (arrayForm Ff) (Array.ofFn x) i j
      = fun s => Ff (Function.update x j (x j + s)) i :=
    fun i j => funext (partialFn_arrayForm Ff x i j)
  obtain ⟨J, tr, e, h1, h2, h3, h4⟩ := jacobian_accuracy (arrayForm Ff) (Array.ofFn x) δ M₂ m
    (fun y _ => by simp [arrayForm]) hδ (by
      intro i j hi hj
      have hj' : j < n := by simpa using hj
      obtain ⟨g', g'', d1, d2, d3⟩ := hsm ⟨i, hi⟩ ⟨j, hj'⟩
      refine ⟨g', g'', ?_, d2, d3⟩
      have := hfun ⟨i, hi⟩ ⟨j, hj'⟩
      simp only at this
      rw [this]
      exact d1)
  have hsz : (Array.ofFn x).size = n := by simp
  rw [hsz] at h2 h3
  refine ⟨J, tr, e, h1, h2, h3, ?_⟩
  intro i j
  have := h4 i j i.isLt (by rw [hsz]; exact j.isLt)
  rw [hfun i j] at this
  exact this

/-- if `F` is moreover Fréchet differentiable at `x` with derivative `F'`, the partial derivative is
    the Jacobian-matrix entry `(F' e_j)_i` -/
theorem deriv_partial_eq_fderiv {n m : ℕ} (Ff : (Fin n → ℝ) → (Fin m → ℝ)) (x : Fin n → ℝ)
    (F' : (Fin n → ℝ) →L[ℝ] (Fin m → ℝ)) (hF' : HasFDerivAt Ff F' x) (i : Fin m) (j : Fin n) :
    deriv (fun s => Ff (Function.update x j (x j + s)) i) 0 = F' (Pi.single j 1) i := by
  have hγ : HasDerivAt (fun s : ℝ => Function.update x j (x j + s)) (Pi.single j (1 : ℝ)) 0 := by
    rw [hasDerivAt_pi]
    intro k
    by_cases e : k = j
    · subst e
      simp only [Function.update_self, Pi.single_eq_same]
      exact ((hasDerivAt_id (0 : ℝ)).const_add (x k))
    · simp only [Function.update_of_ne e, Pi.single_eq_of_ne e]
      exact hasDerivAt_const _ _
  have h0 : (fun s : ℝ => Function.update x j (x j + s)) 0 = x := by simp
  have hc := hF'.comp_hasDerivAt_of_eq (0 : ℝ) hγ h0.symm
  exact ((hasDerivAt_pi.mp hc) i).deriv

/-- **accuracy against the Fréchet derivative** -/
theorem jacobian_accuracy_fderiv {n m : ℕ} (Ff : (Fin n → ℝ) → (Fin m → ℝ)) (x : Fin n → ℝ)
    (δ M₂ : ℝ) (hδ : δ ≠ 0)
    (F' : (Fin n → ℝ) →L[ℝ] (Fin m → ℝ)) (hF' : HasFDerivAt Ff F' x)
    (hsm : ∀ (i : Fin m) (j : Fin n), ∃ g' g'' : ℝ → ℝ,
      (∀ t ∈ uIcc 0 δ, HasDerivAt (fun s => Ff (Function.update x j (x j + s)) i) (g' t) t) ∧
      (∀ t ∈ uIcc 0 δ, HasDerivAt g' (g'' t) t) ∧ ∀ t ∈ uIcc 0 δ, |g'' t| ≤ M₂) :
    ∃ J tr e, jacobian (arrayForm Ff) (Array.ofFn x) δ = .ok (J, tr) ∧ tr.length = n + 1 ∧
      Mat.Is J m n e ∧
      ∀ (i : Fin m) (j : Fin n), |e i j - F' (Pi.single j 1) i| ≤ M₂ * |δ| / 2 := by
  obtain ⟨J, tr, e, h1, h2, h3, h4⟩ := jacobian_accuracy_fin Ff x δ M₂ hδ hsm
  refine ⟨J, tr, e, h1, h2, h3, fun i j => ?_⟩
  rw [← deriv_partial_eq_fderiv Ff x F' hF' i j]
  exact h4 i j

/-- **sharpness**: if every partial function is a quadratic polynomial
    `t ↦ a + b t + c t²` (so `∂F_i/∂x_j (x) = b` and `∂²F_i/∂x_j² = 2c`), the error of entry `(i,j)`
    is exactly `δ/2 · ∂²F_i/∂x_j²`. -/
theorem jacobian_quadratic_exact_error (F : Array ℝ → Array ℝ) (x : Array ℝ) (δ : ℝ) (m : ℕ)
    (hF : ∀ y : Array ℝ, y.size = x.size → (F y).size = m) (hδ : δ ≠ 0)
    (a b c : ℕ → ℕ → ℝ)
    (hq : ∀ i j, i < m → j < x.size → ∀ t, partialFn F x i j t = a i j + b i j * t + c i j * t ^ 2) :
    ∃ J tr e, jacobian F x δ = .ok (J, tr) ∧ Mat.Is J m x.size e ∧
      ∀ i j, i < m → j < x.size →
        deriv (partialFn F x i j) 0 = b i j ∧
        (∀ t, deriv (deriv (partialFn F x i j)) t = 2 * c i j) ∧
        e i j - deriv (partialFn F x i j) 0 = δ / 2 * deriv (deriv (partialFn F x i j)) 0 := by
  obtain ⟨J, h1, h2⟩ := jacobian_entries_real F x δ m hF hδ
  refine ⟨J, _, _, h1, h2, ?_⟩
  intro i j hi hj
  have hfun : partialFn F x i j = fun t => a i j + b i j * t + c i j * t ^ 2 :=
    funext (hq i j hi hj)
  have hd1 : ∀ t, HasDerivAt (fun t => a i j + b i j * t + c i j * t ^ 2)
      (b i j + 2 * c i j * t) t := by
    intro t
    have := (((hasDerivAt_id t).const_mul (b i j)).const_add (a i j)).add
      ((hasDerivAt_pow 2 t).const_mul (c i j))
    exact this.congr_deriv (by push_cast; ring)
  have hd1' : deriv (fun t => a i j + b i j * t + c i j * t ^ 2) = fun t => b i j + 2 * c i j * t :=
    funext fun t => (hd1 t).deriv
  have hd2 : ∀ t, HasDerivAt (fun t => b i j + 2 * c i j * t) (2 * c i j) t := by
    intro t
    have := ((hasDerivAt_id t).const_mul (2 * c i j)).const_add (b i j)
    exact this.congr_deriv (by ring)
  rw [hfun, hd1']
  refine ⟨by simp, fun t => (hd2 t).deriv, ?_⟩
  rw [(hd2 0).deriv]
  field_simp
  ring

end Jacobian

/-! ### the scalar Newton step with a finite-difference derivative -/
section Newton
open Ohsl.Newton

/-- **one Newton step with an inexact derivative**: `f` twice differentiable on the segment between
    `x` and a root `r` with `|f''| ≤ M₂` there, `|f' x| ≥ m`, and ANY derivative estimate `d` with
    `|d - f' x| ≤ ε < m`.  Then `d ≠ 0` and
    `|x - f x / d - r| ≤ (M₂/2 · |x - r|² + ε · |x - r|) / (m - ε)`. -/
theorem newton_step_general (f f' f'' : ℝ → ℝ) (x r d ε m M₂ : ℝ)
    (h1 : ∀ s ∈ uIcc x r, HasDerivAt f (f' s) s)
    (h2 : ∀ s ∈ uIcc x r, HasDerivAt f' (f'' s) s)
    (hM : ∀ s ∈ uIcc x r, |f'' s| ≤ M₂)
    (hr : f r = 0) (hm : m ≤ |f' x|) (hd : |d - f' x| ≤ ε) (hε : ε < m) :
    d ≠ 0 ∧ |x - f x / d - r| ≤ (M₂ / 2 * |x - r| ^ 2 + ε * |x - r|) / (m - ε) := by
  have hT := taylor2 f f' f'' x r M₂ h1 h2 hM
  rw [hr] at hT
  have hdl : m - ε ≤ |d| := by
    have := abs_sub_abs_le_abs_sub (f' x) d
    rw [abs_sub_comm] at this
    linarith
  have hpos : 0 < m - ε := by linarith
  have hd0 : d ≠ 0 := abs_pos.mp (lt_of_lt_of_le hpos hdl)
  refine ⟨hd0, ?_⟩
  have hN : x - f x / d - r = ((d - f' x) * (x - r) + (0 - f x - f' x * (r - x))) / d := by
    field_simp
    ring
  rw [hN, abs_div]
  have hnum : |(d - f' x) * (x - r) + (0 - f x - f' x * (r - x))|
      ≤ M₂ / 2 * |x - r| ^ 2 + ε * |x - r| := by
    calc |(d - f' x) * (x - r) + (0 - f x - f' x * (r - x))|
        ≤ |(d - f' x) * (x - r)| + |0 - f x - f' x * (r - x)| := abs_add_le _ _
      _ ≤ ε * |x - r| + M₂ * (r - x) ^ 2 / 2 := by
          rw [abs_mul]
          exact add_le_add (mul_le_mul_of_nonneg_right hd (abs_nonneg _)) hT
      _ = M₂ / 2 * |x - r| ^ 2 + ε * |x - r| := by
          rw [← sq_abs (r - x), abs_sub_comm r x]; ring
  exact div_le_div₀ (le_trans (abs_nonneg _) hnum) hnum hpos hdl

/-- rewriting the constant: with `ε = M₂|δ|/2` the bound is `C (e² + |δ| e)`,
    `C = M₂ / (2m - M₂|δ|)` -/
theorem newton_const_eq (M₂ m δ e : ℝ) (h : M₂ * |δ| / 2 < m) :
    (M₂ / 2 * e ^ 2 + M₂ * |δ| / 2 * e) / (m - M₂ * |δ| / 2)
      = M₂ / (2 * m - M₂ * |δ|) * (e ^ 2 + |δ| * e) := by
  have h1 : m - M₂ * |δ| / 2 ≠ 0 := by linarith
  have h2 : 2 * m - M₂ * |δ| ≠ 0 := by linarith
  have h3 : 2 * m - M₂ * |δ| = 2 * (m - M₂ * |δ| / 2) := by ring
  rw [h3]
  field_simp

/-- **one finite-difference Newton step, forward quotient** `d = (f(x+δ) - f(x))/δ`: let `f` be
    twice differentiable on an interval `I` containing `x`, `x + δ` and a root `r`, with `|f''| ≤ M₂`
    on `I`, `|f' x| ≥ m`, `δ ≠ 0` and `M₂|δ|/2 < m`.  Then the quotient is non-zero and
    `|x⁺ - r| ≤ C (|x - r|² + |δ| |x - r|)` with `C = M₂ / (2m - M₂|δ|)`: quadratic convergence up to
    a linear term of size `O(δ)`.  (The model's `solveScalar` uses the CENTRAL quotient, see
    `newton_scalar_model_step`.) -/
theorem newton_scalar_fd_step (f f' f'' : ℝ → ℝ) (I : Set ℝ) (hI : I.OrdConnected)
    (x r δ m M₂ : ℝ)
    (h1 : ∀ s ∈ I, HasDerivAt f (f' s) s) (h2 : ∀ s ∈ I, HasDerivAt f' (f'' s) s)
    (hM : ∀ s ∈ I, |f'' s| ≤ M₂)
    (hx : x ∈ I) (hxδ : x + δ ∈ I) (hrI : r ∈ I) (hr : f r = 0) (hm : m ≤ |f' x|)
    (hδ : δ ≠ 0) (hsmall : M₂ * |δ| / 2 < m) :
    (f (x + δ) - f x) / δ ≠ 0 ∧
    |x - f x / ((f (x + δ) - f x) / δ) - r|
      ≤ M₂ / (2 * m - M₂ * |δ|) * (|x - r| ^ 2 + |δ| * |x - r|) := by
  have s1 : uIcc x (x + δ) ⊆ I := hI.uIcc_subset hx hxδ
  have s2 : uIcc x r ⊆ I := hI.uIcc_subset hx hrI
  have hd := diffquot_error f f' f'' x δ M₂ hδ (fun s hs => h1 s (s1 hs)) (fun s hs => h2 s (s1 hs))
    (fun s hs => hM s (s1 hs))
  obtain ⟨g1, g2⟩ := newton_step_general f f' f'' x r _ _ m M₂ (fun s hs => h1 s (s2 hs))
    (fun s hs => h2 s (s2 hs)) (fun s hs => hM s (s2 hs)) hr hm hd hsmall
  rw [newton_const_eq M₂ m δ _ hsmall] at g2
  exact ⟨g1, g2⟩

/-- the model's derivative estimate, update and step (`Newton<f64>::solve`, src/newton.rs:64-67) -/
noncomputable def cdiff (f : ℝ → ℝ) (δ x : ℝ) : ℝ := (f (x + δ) - f (x - δ)) / ((1 + 1) * δ)
noncomputable def newtonDx (f : ℝ → ℝ) (δ x : ℝ) : ℝ := f x / cdiff f δ x
noncomputable def newtonStep (f : ℝ → ℝ) (δ x : ℝ) : ℝ := x - newtonDx f δ x

/-- **one step of the model** (central quotient `(f(x+δ) - f(x-δ))/(2δ)`): same estimate, `I` must
    contain `x - δ` as well. -/
theorem newton_scalar_model_step (f f' f'' : ℝ → ℝ) (I : Set ℝ) (hI : I.OrdConnected)
    (x r δ m M₂ : ℝ)
    (h1 : ∀ s ∈ I, HasDerivAt f (f' s) s) (h2 : ∀ s ∈ I, HasDerivAt f' (f'' s) s)
    (hM : ∀ s ∈ I, |f'' s| ≤ M₂)
    (hx : x ∈ I) (hxp : x + δ ∈ I) (hxm : x - δ ∈ I) (hrI : r ∈ I) (hr : f r = 0)
    (hm : m ≤ |f' x|) (hδ : δ ≠ 0) (hsmall : M₂ * |δ| / 2 < m) :
    cdiff f δ x ≠ 0 ∧
    |newtonStep f δ x - r| ≤ M₂ / (2 * m - M₂ * |δ|) * (|x - r| ^ 2 + |δ| * |x - r|) := by
  have s1 : uIcc (x - δ) (x + δ) ⊆ I := hI.uIcc_subset hxm hxp
  have s2 : uIcc x r ⊆ I := hI.uIcc_subset hx hrI
  have hd := centraldiff_error f f' f'' x δ M₂ hδ (fun s hs => h1 s (s1 hs))
    (fun s hs => h2 s (s1 hs)) (fun s hs => hM s (s1 hs))
  obtain ⟨g1, g2⟩ := newton_step_general f f' f'' x r _ _ m M₂ (fun s hs => h1 s (s2 hs))
    (fun s hs => h2 s (s2 hs)) (fun s hs => hM s (s2 hs)) hr hm hd hsmall
  rw [newton_const_eq M₂ m δ _ hsmall] at g2
  exact ⟨g1, g2⟩

/-- the constant is at most `M₂/m` once `M₂|δ| ≤ m` -/
theorem newton_const_le (M₂ m δ : ℝ) (hM : 0 ≤ M₂) (hm : 0 < m) (h : M₂ * |δ| ≤ m) :
    M₂ / (2 * m - M₂ * |δ|) ≤ M₂ / m :=
  div_le_div_of_nonneg_left hM hm (by linarith)

/-- forward quotient, simple constant: if `M₂|δ| ≤ m` then `C = M₂/m` works -/
theorem newton_scalar_fd_step_simple (f f' f'' : ℝ → ℝ) (I : Set ℝ) (hI : I.OrdConnected)
    (x r δ m M₂ : ℝ)
    (h1 : ∀ s ∈ I, HasDerivAt f (f' s) s) (h2 : ∀ s ∈ I, HasDerivAt f' (f'' s) s)
    (hM : ∀ s ∈ I, |f'' s| ≤ M₂)
    (hx : x ∈ I) (hxδ : x + δ ∈ I) (hrI : r ∈ I) (hr : f r = 0) (hm : m ≤ |f' x|)
    (hδ : δ ≠ 0) (hm0 : 0 < m) (hsmall : M₂ * |δ| ≤ m) :
    (f (x + δ) - f x) / δ ≠ 0 ∧
    |x - f x / ((f (x + δ) - f x) / δ) - r| ≤ M₂ / m * (|x - r| ^ 2 + |δ| * |x - r|) := by
  have hM0 : 0 ≤ M₂ := le_trans (abs_nonneg _) (hM r hrI)
  obtain ⟨g1, g2⟩ := newton_scalar_fd_step f f' f'' I hI x r δ m M₂ h1 h2 hM hx hxδ hrI hr hm hδ
    (by linarith)
  exact ⟨g1, le_trans g2 (mul_le_mul_of_nonneg_right (newton_const_le M₂ m δ hM0 hm0 hsmall)
    (by positivity))⟩

/-- the model's step, simple constant: if `M₂|δ| ≤ m` then `C = M₂/m` works -/
theorem newton_scalar_model_step_simple (f f' f'' : ℝ → ℝ) (I : Set ℝ) (hI : I.OrdConnected)
    (x r δ m M₂ : ℝ)
    (h1 : ∀ s ∈ I, HasDerivAt f (f' s) s) (h2 : ∀ s ∈ I, HasDerivAt f' (f'' s) s)
    (hM : ∀ s ∈ I, |f'' s| ≤ M₂)
    (hx : x ∈ I) (hxp : x + δ ∈ I) (hxm : x - δ ∈ I) (hrI : r ∈ I) (hr : f r = 0)
    (hm : m ≤ |f' x|) (hδ : δ ≠ 0) (hm0 : 0 < m) (hsmall : M₂ * |δ| ≤ m) :
    cdiff f δ x ≠ 0 ∧
    |newtonStep f δ x - r| ≤ M₂ / m * (|x - r| ^ 2 + |δ| * |x - r|) := by
  have hM0 : 0 ≤ M₂ := le_trans (abs_nonneg _) (hM r hrI)
  obtain ⟨g1, g2⟩ := newton_scalar_model_step f f' f'' I hI x r δ m M₂ h1 h2 hM hx hxp hxm hrI hr
    hm hδ (by linarith)
  exact ⟨g1, le_trans g2 (mul_le_mul_of_nonneg_right (newton_const_le M₂ m δ hM0 hm0 hsmall)
    (by positivity))⟩

/-! #### the model's loop over ℝ -/

theorem solveScalar_stop (f : ℝ → ℝ) (tol δ : ℝ) (n : ℕ) (cur : ℝ) (tr : List ℝ)
    (h : |newtonDx f δ cur| ≤ tol) :
    solveScalar f tol δ (n + 1) cur tr
      = (⟨true, newtonStep f δ cur⟩, tr ++ [cur + δ, cur - δ, cur]) := by
  rw [solveScalar]
  have : Transc.le (Transc.fabs (f cur / ((f (cur + δ) - f (cur - δ)) / ((1 + 1) * δ)))) tol = true := by
    simpa [Transc.le, Transc.fabs, newtonDx, cdiff] using h
  simp only [this, if_true, newtonStep, newtonDx, cdiff]

theorem solveScalar_cont (f : ℝ → ℝ) (tol δ : ℝ) (n : ℕ) (cur : ℝ) (tr : List ℝ)
    (h : ¬ |newtonDx f δ cur| ≤ tol) :
    solveScalar f tol δ (n + 1) cur tr
      = solveScalar f tol δ n (newtonStep f δ cur) (tr ++ [cur + δ, cur - δ, cur]) := by
  rw [solveScalar]
  have : ¬ Transc.le (Transc.fabs (f cur / ((f (cur + δ) - f (cur - δ)) / ((1 + 1) * δ)))) tol = true := by
    simpa [Transc.le, Transc.fabs, newtonDx, cdiff] using h
  simp only [this, Bool.false_eq_true, if_false, newtonStep, newtonDx, cdiff]

/-- **the result of the model's loop over ℝ**, for every `f`: on success the result is the iterate
    `x_{k+1}` for the first `k < maxIter` with `|x_k - x_{k+1}| ≤ tol`; on failure it is `x_maxIter`
    and no step met the test (`x_k = newtonStep^[k] x₀`, `x_k - x_{k+1} = newtonDx x_k`). -/
theorem solveScalar_real_char (f : ℝ → ℝ) (tol δ : ℝ) : ∀ (n : ℕ) (x₀ : ℝ) (tr : List ℝ),
    ((solveScalar f tol δ n x₀ tr).1.ok = true → ∃ k, k < n ∧
        (solveScalar f tol δ n x₀ tr).1.x = (newtonStep f δ)^[k + 1] x₀ ∧
        |newtonDx f δ ((newtonStep f δ)^[k] x₀)| ≤ tol ∧
        ∀ j, j < k → tol < |newtonDx f δ ((newtonStep f δ)^[j] x₀)|) ∧
    ((solveScalar f tol δ n x₀ tr).1.ok = false →
        (solveScalar f tol δ n x₀ tr).1.x = (newtonStep f δ)^[n] x₀ ∧
        ∀ j, j < n → tol < |newtonDx f δ ((newtonStep f δ)^[j] x₀)|)
  | 0, x₀, tr => by
    simp [solveScalar]
  | n + 1, x₀, tr => by
    by_cases h : |newtonDx f δ x₀| ≤ tol
    · rw [solveScalar_stop f tol δ n x₀ tr h]
      refine ⟨fun _ => ⟨0, Nat.succ_pos n, rfl, h, fun j hj => absurd hj (Nat.not_lt_zero j)⟩,
        fun hc => by simp at hc⟩
    · rw [solveScalar_cont f tol δ n x₀ tr h]
      obtain ⟨ih1, ih2⟩ := solveScalar_real_char f tol δ n (newtonStep f δ x₀)
        (tr ++ [x₀ + δ, x₀ - δ, x₀])
      refine ⟨fun hok => ?_, fun hok => ?_⟩
      · obtain ⟨k, hk, e1, e2, e3⟩ := ih1 hok
        refine ⟨k + 1, Nat.succ_lt_succ hk, ?_, ?_, ?_⟩
        · rw [e1]; simp only [Function.iterate_succ_apply]
        · simpa only [Function.iterate_succ_apply] using e2
        · intro j hj
          cases j with
          | zero => simpa using lt_of_not_ge h
          | succ j =>
            have := e3 j (Nat.lt_of_succ_lt_succ hj)
            simpa only [Function.iterate_succ_apply] using this
      · obtain ⟨e1, e3⟩ := ih2 hok
        refine ⟨?_, ?_⟩
        · rw [e1]; simp only [Function.iterate_succ_apply]
        · intro j hj
          cases j with
          | zero => simpa using lt_of_not_ge h
          | succ j =>
            have := e3 j (Nat.lt_of_succ_lt_succ hj)
            simpa only [Function.iterate_succ_apply] using this

/-! #### iteration: a ball around a simple root is invariant and the error decreases geometrically -/

/-- hypotheses of the convergence theorems: `f` is `C²` on the ball of radius `ρ + |δ|` around a
    root `r` with `|f''| ≤ M₂` there, `|f'| ≥ m` on the ball of radius `ρ`, `δ ≠ 0`,
    `M₂|δ|/2 < m`, and the contraction factor `q = M₂/(2m - M₂|δ|) · (ρ + |δ|)` is `< 1`. -/
structure NewtonBall (f f' f'' : ℝ → ℝ) (r δ ρ m M₂ : ℝ) : Prop where
  hδ : δ ≠ 0
  h1 : ∀ s ∈ Icc (r - (ρ + |δ|)) (r + (ρ + |δ|)), HasDerivAt f (f' s) s
  h2 : ∀ s ∈ Icc (r - (ρ + |δ|)) (r + (ρ + |δ|)), HasDerivAt f' (f'' s) s
  hM : ∀ s ∈ Icc (r - (ρ + |δ|)) (r + (ρ + |δ|)), |f'' s| ≤ M₂
  hm : ∀ s ∈ Icc (r - ρ) (r + ρ), m ≤ |f' s|
  hr : f r = 0
  hsmall : M₂ * |δ| / 2 < m
  hq : M₂ / (2 * m - M₂ * |δ|) * (ρ + |δ|) < 1

/-- the contraction factor -/
noncomputable def newtonQ (δ ρ m M₂ : ℝ) : ℝ := M₂ / (2 * m - M₂ * |δ|) * (ρ + |δ|)

theorem NewtonBall.C_nonneg {f f' f'' : ℝ → ℝ} {r δ ρ m M₂ : ℝ} (H : NewtonBall f f' f'' r δ ρ m M₂)
    (hρ : 0 ≤ ρ) : 0 ≤ M₂ / (2 * m - M₂ * |δ|) := by
  have hr : r ∈ Icc (r - (ρ + |δ|)) (r + (ρ + |δ|)) := by
    constructor <;> linarith [abs_nonneg δ]
  have hM : 0 ≤ M₂ := le_trans (abs_nonneg _) (H.hM r hr)
  exact div_nonneg hM (by linarith [H.hsmall])

/-- one step inside the ball: the estimate of `newton_scalar_model_step` and contraction by `q` -/
theorem NewtonBall.step {f f' f'' : ℝ → ℝ} {r δ ρ m M₂ : ℝ} (H : NewtonBall f f' f'' r δ ρ m M₂)
    (x : ℝ) (hx : |x - r| ≤ ρ) :
    cdiff f δ x ≠ 0 ∧
    |newtonStep f δ x - r| ≤ M₂ / (2 * m - M₂ * |δ|) * (|x - r| ^ 2 + |δ| * |x - r|) ∧
    |newtonStep f δ x - r| ≤ newtonQ δ ρ m M₂ * |x - r| := by
  have hρ : 0 ≤ ρ := le_trans (abs_nonneg _) hx
  have hδ0 := abs_nonneg δ
  obtain ⟨hx1, hx2⟩ := abs_le.mp hx
  obtain ⟨hd1, hd2⟩ := abs_le.mp (le_refl |δ|)
  have mem : ∀ y, |y - r| ≤ ρ + |δ| → y ∈ Icc (r - (ρ + |δ|)) (r + (ρ + |δ|)) := by
    intro y hy
    obtain ⟨a, b⟩ := abs_le.mp hy
    constructor <;> linarith
  obtain ⟨g1, g2⟩ := newton_scalar_model_step f f' f'' (Icc (r - (ρ + |δ|)) (r + (ρ + |δ|)))
    ordConnected_Icc x r δ m M₂ H.h1 H.h2 H.hM
    (mem x (by linarith))
    (mem (x + δ) (by rw [abs_le]; constructor <;> linarith))
    (mem (x - δ) (by rw [abs_le]; constructor <;> linarith))
    (mem r (by simp; linarith)) H.hr
    (H.hm x (by constructor <;> linarith)) H.hδ H.hsmall
  refine ⟨g1, g2, le_trans g2 ?_⟩
  have hC := H.C_nonneg hρ
  have : |x - r| ^ 2 + |δ| * |x - r| ≤ (ρ + |δ|) * |x - r| := by
    nlinarith [abs_nonneg (x - r)]
  calc M₂ / (2 * m - M₂ * |δ|) * (|x - r| ^ 2 + |δ| * |x - r|)
      ≤ M₂ / (2 * m - M₂ * |δ|) * ((ρ + |δ|) * |x - r|) := mul_le_mul_of_nonneg_left this hC
    _ = newtonQ δ ρ m M₂ * |x - r| := by rw [newtonQ]; ring

theorem NewtonBall.q_nonneg {f f' f'' : ℝ → ℝ} {r δ ρ m M₂ : ℝ} (H : NewtonBall f f' f'' r δ ρ m M₂)
    (hρ : 0 ≤ ρ) : 0 ≤ newtonQ δ ρ m M₂ :=
  mul_nonneg (H.C_nonneg hρ) (by linarith [abs_nonneg δ])

/-- **convergence of the finite-difference Newton iteration of the model** (exact real arithmetic):
    from any guess `x₀` with `|x₀ - r| ≤ ρ`, every iterate `x_k = newtonStep^[k] x₀` stays in the
    ball, the derivative estimate never vanishes, the one-step estimate
    `|x_{k+1} - r| ≤ C (|x_k - r|² + |δ| |x_k - r|)` holds at every step, and
    `|x_k - r| ≤ q^k |x₀ - r|` with `q = C (ρ + |δ|) < 1`. -/
theorem newton_scalar_fd_converges (f f' f'' : ℝ → ℝ) (r δ ρ m M₂ : ℝ)
    (H : NewtonBall f f' f'' r δ ρ m M₂) (x₀ : ℝ) (hx₀ : |x₀ - r| ≤ ρ) (k : ℕ) :
    |(newtonStep f δ)^[k] x₀ - r| ≤ newtonQ δ ρ m M₂ ^ k * |x₀ - r| ∧
    |(newtonStep f δ)^[k] x₀ - r| ≤ ρ ∧
    cdiff f δ ((newtonStep f δ)^[k] x₀) ≠ 0 ∧
    |(newtonStep f δ)^[k + 1] x₀ - r| ≤ M₂ / (2 * m - M₂ * |δ|) *
      (|(newtonStep f δ)^[k] x₀ - r| ^ 2 + |δ| * |(newtonStep f δ)^[k] x₀ - r|) ∧
    |(newtonStep f δ)^[k + 1] x₀ - r| ≤ newtonQ δ ρ m M₂ * |(newtonStep f δ)^[k] x₀ - r| := by
  have hρ : 0 ≤ ρ := le_trans (abs_nonneg _) hx₀
  have hq0 := H.q_nonneg hρ
  have hq1 : newtonQ δ ρ m M₂ < 1 := H.hq
  have main : ∀ k, |(newtonStep f δ)^[k] x₀ - r| ≤ newtonQ δ ρ m M₂ ^ k * |x₀ - r| ∧
      |(newtonStep f δ)^[k] x₀ - r| ≤ ρ := by
    intro k
    induction k with
    | zero => simpa using hx₀
    | succ k ih =>
      obtain ⟨i1, i2⟩ := ih
      obtain ⟨_, _, s3⟩ := H.step _ i2
      rw [Function.iterate_succ_apply']
      constructor
      · calc _ ≤ newtonQ δ ρ m M₂ * |(newtonStep f δ)^[k] x₀ - r| := s3
          _ ≤ newtonQ δ ρ m M₂ * (newtonQ δ ρ m M₂ ^ k * |x₀ - r|) :=
              mul_le_mul_of_nonneg_left i1 hq0
          _ = newtonQ δ ρ m M₂ ^ (k + 1) * |x₀ - r| := by ring
      · calc _ ≤ newtonQ δ ρ m M₂ * |(newtonStep f δ)^[k] x₀ - r| := s3
          _ ≤ 1 * |(newtonStep f δ)^[k] x₀ - r| :=
              mul_le_mul_of_nonneg_right hq1.le (abs_nonneg _)
          _ ≤ ρ := by rw [one_mul]; exact i2
  obtain ⟨m1, m2⟩ := main k
  obtain ⟨s1, s2, s3⟩ := H.step _ m2
  rw [Function.iterate_succ_apply']
  exact ⟨m1, m2, s1, s2, s3⟩

/-- the iterates converge to the root -/
theorem newton_scalar_fd_tendsto (f f' f'' : ℝ → ℝ) (r δ ρ m M₂ : ℝ)
    (H : NewtonBall f f' f'' r δ ρ m M₂) (x₀ : ℝ) (hx₀ : |x₀ - r| ≤ ρ) :
    Filter.Tendsto (fun k => (newtonStep f δ)^[k] x₀) Filter.atTop (nhds r) := by
  have hρ : 0 ≤ ρ := le_trans (abs_nonneg _) hx₀
  rw [tendsto_iff_dist_tendsto_zero]
  have lim : Filter.Tendsto (fun k : ℕ => newtonQ δ ρ m M₂ ^ k * |x₀ - r|) Filter.atTop (nhds 0) := by
    have := (tendsto_pow_atTop_nhds_zero_of_lt_one (H.q_nonneg hρ) H.hq).mul_const |x₀ - r|
    simpa using this
  refine squeeze_zero (fun k => dist_nonneg) (fun k => ?_) lim
  rw [Real.dist_eq]
  exact (newton_scalar_fd_converges f f' f'' r δ ρ m M₂ H x₀ hx₀ k).1

/-- **the model's `solve` near a simple root** (exact real arithmetic, any `tol`, any budget `n`):
    the returned point is never farther from the root than the guess; a reported success is within
    `q/(1-q) · tol` of the root (`≤ tol` when `q ≤ 1/2`); a reported failure has error
    `≤ qⁿ |x₀ - r|`; and success IS reported as soon as `(1+q) q^(n-1) |x₀ - r| ≤ tol`. -/
theorem newton_scalar_model_converges (f f' f'' : ℝ → ℝ) (r δ ρ m M₂ : ℝ)
    (H : NewtonBall f f' f'' r δ ρ m M₂) (x₀ : ℝ) (hx₀ : |x₀ - r| ≤ ρ)
    (tol : ℝ) (n : ℕ) (tr : List ℝ) :
    |(solveScalar f tol δ n x₀ tr).1.x - r| ≤ |x₀ - r| ∧
    ((solveScalar f tol δ n x₀ tr).1.ok = true →
      (1 - newtonQ δ ρ m M₂) * |(solveScalar f tol δ n x₀ tr).1.x - r| ≤ newtonQ δ ρ m M₂ * tol) ∧
    ((solveScalar f tol δ n x₀ tr).1.ok = false →
      |(solveScalar f tol δ n x₀ tr).1.x - r| ≤ newtonQ δ ρ m M₂ ^ n * |x₀ - r|) ∧
    (1 ≤ n → (1 + newtonQ δ ρ m M₂) * newtonQ δ ρ m M₂ ^ (n - 1) * |x₀ - r| ≤ tol →
      (solveScalar f tol δ n x₀ tr).1.ok = true) := by
  have hρ : 0 ≤ ρ := le_trans (abs_nonneg _) hx₀
  have hq0 := H.q_nonneg hρ
  have hq1 : newtonQ δ ρ m M₂ < 1 := H.hq
  have hconv := newton_scalar_fd_converges f f' f'' r δ ρ m M₂ H x₀ hx₀
  have hpow : ∀ k, newtonQ δ ρ m M₂ ^ k * |x₀ - r| ≤ |x₀ - r| := fun k => by
    have := pow_le_one₀ hq0 hq1.le (n := k)
    nlinarith [abs_nonneg (x₀ - r)]
  obtain ⟨c1, c2⟩ := solveScalar_real_char f tol δ n x₀ tr
  have hdx : ∀ k, newtonDx f δ ((newtonStep f δ)^[k] x₀)
      = (newtonStep f δ)^[k] x₀ - (newtonStep f δ)^[k + 1] x₀ := by
    intro k
    rw [Function.iterate_succ_apply', newtonStep]
    ring
  refine ⟨?_, ?_, ?_, ?_⟩
  · cases hok : (solveScalar f tol δ n x₀ tr).1.ok with
    | true =>
      obtain ⟨k, _, e1, _, _⟩ := c1 hok
      rw [e1]
      exact le_trans (hconv (k + 1)).1 (hpow _)
    | false =>
      obtain ⟨e1, _⟩ := c2 hok
      rw [e1]
      exact le_trans (hconv n).1 (hpow _)
  · intro hok
    obtain ⟨k, _, e1, e2, _⟩ := c1 hok
    rw [e1]
    obtain ⟨_, _, _, _, s5⟩ := hconv k
    rw [hdx k] at e2
    have tri : |(newtonStep f δ)^[k] x₀ - r|
        ≤ |(newtonStep f δ)^[k] x₀ - (newtonStep f δ)^[k + 1] x₀|
          + |(newtonStep f δ)^[k + 1] x₀ - r| := by
      have := abs_add_le ((newtonStep f δ)^[k] x₀ - (newtonStep f δ)^[k + 1] x₀)
        ((newtonStep f δ)^[k + 1] x₀ - r)
      simpa using this
    nlinarith [abs_nonneg ((newtonStep f δ)^[k + 1] x₀ - r)]
  · intro hok
    obtain ⟨e1, _⟩ := c2 hok
    rw [e1]
    exact (hconv n).1
  · intro hn htol
    by_contra hne
    have hok : (solveScalar f tol δ n x₀ tr).1.ok = false := by
      simpa using hne
    obtain ⟨_, e3⟩ := c2 hok
    have hlt := e3 (n - 1) (by omega)
    rw [hdx (n - 1)] at hlt
    obtain ⟨s1, _, _, _, s5⟩ := hconv (n - 1)
    have tri : |(newtonStep f δ)^[n - 1] x₀ - (newtonStep f δ)^[n - 1 + 1] x₀|
        ≤ |(newtonStep f δ)^[n - 1] x₀ - r| + |(newtonStep f δ)^[n - 1 + 1] x₀ - r| := by
      have := abs_sub_le ((newtonStep f δ)^[n - 1] x₀) r ((newtonStep f δ)^[n - 1 + 1] x₀)
      rwa [abs_sub_comm r _] at this
    have b1 : |(newtonStep f δ)^[n - 1] x₀ - (newtonStep f δ)^[n - 1 + 1] x₀|
        ≤ (1 + newtonQ δ ρ m M₂) * |(newtonStep f δ)^[n - 1] x₀ - r| := by linarith
    have b2 : (1 + newtonQ δ ρ m M₂) * |(newtonStep f δ)^[n - 1] x₀ - r|
        ≤ (1 + newtonQ δ ρ m M₂) * (newtonQ δ ρ m M₂ ^ (n - 1) * |x₀ - r|) :=
      mul_le_mul_of_nonneg_left s1 (by linarith)
    have b3 : (1 + newtonQ δ ρ m M₂) * (newtonQ δ ρ m M₂ ^ (n - 1) * |x₀ - r|)
        = (1 + newtonQ δ ρ m M₂) * newtonQ δ ρ m M₂ ^ (n - 1) * |x₀ - r| := by ring
    linarith

/-- with `q ≤ 1/2` (the classical "half the radius" condition) a reported success is within `tol`
    of the root -/
theorem newton_scalar_model_success_within_tol (f f' f'' : ℝ → ℝ) (r δ ρ m M₂ : ℝ)
    (H : NewtonBall f f' f'' r δ ρ m M₂) (hhalf : newtonQ δ ρ m M₂ ≤ 1 / 2)
    (x₀ : ℝ) (hx₀ : |x₀ - r| ≤ ρ) (tol : ℝ) (n : ℕ) (tr : List ℝ)
    (hok : (solveScalar f tol δ n x₀ tr).1.ok = true) :
    |(solveScalar f tol δ n x₀ tr).1.x - r| ≤ tol := by
  obtain ⟨_, h2, _, _⟩ := newton_scalar_model_converges f f' f'' r δ ρ m M₂ H x₀ hx₀ tol n tr
  have h := h2 hok
  obtain ⟨k, _, _, e2, _⟩ := (solveScalar_real_char f tol δ n x₀ tr).1 hok
  have htol : 0 ≤ tol := le_trans (abs_nonneg _) e2
  nlinarith [abs_nonneg ((solveScalar f tol δ n x₀ tr).1.x - r)]

end Newton
end Real

/-! ### the hypotheses are satisfiable -/
section Examples
open Ohsl.Newton

/-- `F(x, y) = (x², x y)` -/
noncomputable def exF : (Fin 2 → ℝ) → (Fin 2 → ℝ) := fun v => ![v 0 ^ 2, v 0 * v 1]

/-- the Jacobian of `(x², x y)` at any point, any `δ ≠ 0`: all four entries within `|δ|` of the
    partial derivatives (`M₂ = 2`) -/
example (x : Fin 2 → ℝ) (δ : ℝ) (hδ : δ ≠ 0) :
    ∃ J tr e, jacobian (arrayForm exF) (Array.ofFn x) δ = .ok (J, tr) ∧ tr.length = 2 + 1 ∧
      Mat.Is J 2 2 e ∧
      ∀ i j : Fin 2,
        |e i j - deriv (fun s => exF (Function.update x j (x j + s)) i) 0| ≤ 2 * |δ| / 2 := by
  apply jacobian_accuracy_fin exF x δ 2 hδ
  intro i j
  fin_cases i <;> fin_cases j
  · refine ⟨fun t => 2 * (x 0 + t), fun _ => 2, fun t _ => ?_, fun t _ => ?_, fun t _ => by simp⟩
    · have e : (fun s => exF (Function.update x (0 : Fin 2) (x 0 + s)) (0 : Fin 2))
          = fun s => (x 0 + s) ^ 2 := by funext s; simp [exF]
      simp only [Fin.zero_eta]
      rw [e]
      exact (((hasDerivAt_id' t).const_add (x 0)).pow 2).congr_deriv (by simp)
    · exact (((hasDerivAt_id' t).const_add (x 0)).const_mul 2).congr_deriv (by ring)
  · refine ⟨fun _ => 0, fun _ => 0, fun t _ => ?_, fun t _ => hasDerivAt_const _ _,
      fun t _ => by simp⟩
    have e : (fun s => exF (Function.update x (1 : Fin 2) (x 1 + s)) (0 : Fin 2))
        = fun s => x 0 ^ 2 := by funext s; simp [exF]
    simp only [Fin.zero_eta, Fin.mk_one]
    rw [e]
    exact hasDerivAt_const _ _
  · refine ⟨fun _ => x 1, fun _ => 0, fun t _ => ?_, fun t _ => hasDerivAt_const _ _,
      fun t _ => by simp⟩
    have e : (fun s => exF (Function.update x (0 : Fin 2) (x 0 + s)) (1 : Fin 2))
        = fun s => (x 0 + s) * x 1 := by funext s; simp [exF]
    simp only [Fin.zero_eta, Fin.mk_one]
    rw [e]
    exact (((hasDerivAt_id' t).const_add (x 0)).mul_const (x 1)).congr_deriv (by ring)
  · refine ⟨fun _ => x 0, fun _ => 0, fun t _ => ?_, fun t _ => hasDerivAt_const _ _,
      fun t _ => by simp⟩
    have e : (fun s => exF (Function.update x (1 : Fin 2) (x 1 + s)) (1 : Fin 2))
        = fun s => x 0 * (x 1 + s) := by funext s; simp [exF]
    simp only [Fin.mk_one]
    rw [e]
    exact (((hasDerivAt_id' t).const_add (x 1)).const_mul (x 0)).congr_deriv (by ring)

theorem sqrt_two_bounds : (14 / 10 : ℝ) ≤ √2 ∧ √2 ≤ 15 / 10 :=
  ⟨(Real.le_sqrt' (by norm_num)).mpr (by norm_num),
   Real.sqrt_le_iff.mpr ⟨by norm_num, by norm_num⟩⟩

/-- `f(x) = x² - 2`, root `√2`, `δ = 1/100`, ball radius `ρ = 1/10`, `m = 2`, `M₂ = 2`
    (`q = 2/(4 - 1/50) · 11/100 ≈ 0.055`) -/
theorem exNewtonBall :
    NewtonBall (fun x : ℝ => x ^ 2 - 2) (fun x => 2 * x) (fun _ => 2) (√2) (1 / 100) (1 / 10) 2 2 := by
  obtain ⟨lo, hi⟩ := sqrt_two_bounds
  have hδ : |(1 / 100 : ℝ)| = 1 / 100 := abs_of_pos (by norm_num)
  refine ⟨by norm_num, fun s _ => ?_, fun s _ => ?_, fun s _ => by simp, fun s hs => ?_, ?_, ?_, ?_⟩
  · exact ((hasDerivAt_pow 2 s).sub_const 2).congr_deriv (by simp)
  · exact ((hasDerivAt_id' s).const_mul 2).congr_deriv (by ring)
  · have : 0 < 2 * s := by linarith [hs.1]
    rw [abs_of_pos this]
    linarith [hs.1]
  · simp
  · rw [hδ]; norm_num
  · rw [hδ]; norm_num

/-- the iterates of the model's step from the guess `3/2` converge to `√2` … -/
example : Filter.Tendsto (fun k => (newtonStep (fun x : ℝ => x ^ 2 - 2) (1 / 100))^[k] (3 / 2))
    Filter.atTop (nhds √2) := by
  obtain ⟨lo, hi⟩ := sqrt_two_bounds
  exact newton_scalar_fd_tendsto _ _ _ _ _ _ _ _ exNewtonBall (3 / 2)
    (by rw [abs_le]; constructor <;> linarith)

/-- … and whenever the model's `solve` reports success from that guess, the result is within `tol`
    of `√2` -/
example (tol : ℝ) (n : ℕ)
    (hok : (solveScalar (fun x : ℝ => x ^ 2 - 2) tol (1 / 100) n (3 / 2) []).1.ok = true) :
    |(solveScalar (fun x : ℝ => x ^ 2 - 2) tol (1 / 100) n (3 / 2) []).1.x - √2| ≤ tol := by
  obtain ⟨lo, hi⟩ := sqrt_two_bounds
  have hδ : |(1 / 100 : ℝ)| = 1 / 100 := abs_of_pos (by norm_num)
  exact newton_scalar_model_success_within_tol _ _ _ _ _ _ _ _ exNewtonBall
    (by rw [newtonQ, hδ]; norm_num) (3 / 2) (by rw [abs_le]; constructor <;> linarith) tol n [] hok

end Examples

end Ohsl.Props.C18
