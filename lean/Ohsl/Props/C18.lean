/-
  Property C18 — finite-difference Jacobian (model: `Ohsl.Jac.jacobian`, Ohsl/Model/Newton.lean).
  Proved here, class (S) — every user function `f`, any scalar type, arbitrary arithmetic:
  for a point of size n and a map with constant output size m the result is an m × n matrix for
  EVERY m and n (m < n and m > n included; this is the statement the original `set_col` range
  check broke), `f` is evaluated exactly n + 1 times, and a map whose output size changes is
  rejected.  The only hypothesis is that the element type's division by `delta` does not panic
  (always true of f64 / Complex<f64>; true of exact types when delta ≠ 0).
  NOT proved: accuracy O(delta) for smooth maps (class F / analysis).
-/
import Ohsl.Lemmas.MatSpec
import Ohsl.Model.Newton
set_option linter.unusedSectionVars false
set_option linter.unusedSimpArgs false
namespace Ohsl.Props.C18
open Ohsl Ohsl.Mat Ohsl.Jac
variable {E : Type} [Add E] [Sub E] [Mul E] [Neg E] [Zero E] [One E] [BEq E] [ScalarExt E]

theorem mapM_divM_ok (v : Array E) (delta : E) (hdiv : ∀ a : E, ∃ q, divM a delta = .ok q) :
    ∃ w, Vec.sdiv v delta = .ok w ∧ w.size = v.size := by
  unfold Vec.sdiv
  have hl : ∃ l, v.toList.mapM (fun x => divM x delta) = .ok l ∧ l.length = v.toList.length := by
    generalize v.toList = l
    induction l with
    | nil => exact ⟨[], rfl, rfl⟩
    | cons a l ih =>
      obtain ⟨q, hq⟩ := hdiv a
      obtain ⟨l', hl', hlen⟩ := ih
      exact ⟨q :: l', by simp [List.mapM_cons, hq, hl', bind, Except.bind, pure, Except.pure], by simp [hlen]⟩
  obtain ⟨l, hl1, hl2⟩ := hl
  refine ⟨l.toArray, ?_, by simpa using hl2⟩
  rw [Array.mapM_eq_mapM_toList, hl1]
  rfl

/-- **shape**: m × n for every m, n; n + 1 evaluations -/
theorem jacobian_shape (f : Array E → Array E) (point : Array E) (delta : E) (m : Nat)
    (hf : ∀ x : Array E, x.size = point.size → (f x).size = m)
    (hdiv : ∀ a : E, ∃ q, divM a delta = .ok q) :
    ∃ J tr, jacobian f point delta = .ok (J, tr) ∧ J.rows = m ∧ J.cols = point.size ∧ J.WF ∧
      tr.length = point.size + 1 := by
  unfold jacobian
  simp only [hf point rfl]
  obtain ⟨r, hr, hP⟩ := forM'_inv
    (fun k (s : Mat E × Array E × List (Array E)) =>
      (∃ e, Is s.1 m point.size e) ∧ s.2.1.size = point.size ∧ s.2.2.length = k + 1)
    0 point.size (Mat.new m point.size (0 : E), point, [point])
    (fun (x : Mat E × Array E × List (Array E)) i => do
      let xi ← aget x.2.1 i
      let state ← aset x.2.1 i (xi + delta)
      let fnew := f state
      let state' ← aset state i xi
      let diff ← Vec.sub fnew (f point)
      let col ← Vec.sdiv diff delta
      let jac ← Mat.setCol x.1 i col
      pure (jac, state', x.2.2 ++ [state]))
    (Nat.zero_le _)
    ⟨⟨_, Is.of_new m point.size (0 : E)⟩, rfl, rfl⟩
    (by
      rintro k ⟨jac, state, tr⟩ _ hk ⟨⟨e, hI⟩, hs, ht⟩
      simp only at hs ht hI
      have hk' : k < state.size := by omega
      have hsz1 : (state.setIfInBounds k (state[k] + delta)).size = point.size := by simp [hs]
      have hk2 : k < (state.setIfInBounds k (state[k] + delta)).size := by simp; exact hk'
      have hfn : (f (state.setIfInBounds k (state[k] + delta))).size = m := hf _ hsz1
      have hf0 : (f point).size = m := hf point rfl
      have hd1 : Vec.sub (f (state.setIfInBounds k (state[k] + delta))) (f point)
          = .ok (Array.zipWith (· - ·) (f (state.setIfInBounds k (state[k] + delta))) (f point)) := by
        simp [Vec.sub, hfn, hf0]
      have hd2 : (Array.zipWith (· - ·) (f (state.setIfInBounds k (state[k] + delta))) (f point)).size = m := by
        simp [hfn, hf0]
      obtain ⟨col, hc1, hc2⟩ := mapM_divM_ok _ delta hdiv
      obtain ⟨jac', hj1, hj2⟩ := setCol_spec hI (col := k) col (by rw [hc2, hd2]) hk
      refine ⟨(jac', (state.setIfInBounds k (state[k] + delta)).setIfInBounds k
          state[k], tr ++ [state.setIfInBounds k (state[k] + delta)]), ?_, ?_⟩
      · simp only [aget_ok hk', aset_ok _ hk', aget_ok hk2, aset_ok _ hk2, hd1, hc1, hj1, bind, Except.bind, pure, Except.pure]
      · exact ⟨⟨_, hj2⟩, by simp [hs], by simp [ht]⟩)
  obtain ⟨jac, state, tr⟩ := r
  obtain ⟨⟨e, hI⟩, _, ht⟩ := hP
  refine ⟨jac, tr, ?_, hI.rows, hI.cols, hI.wf, ht⟩
  have hr' := hr
  simp only [bind, Except.bind, pure, Except.pure] at hr' ⊢
  rw [hr']

/-- a map whose output has a different size at the first perturbed point is rejected -/
theorem jacobian_rejects_size_change (f : Array E → Array E) (point : Array E) (delta : E)
    (hn : 0 < point.size)
    (hbad : (f (point.setIfInBounds 0 (point[0] + delta))).size ≠ (f point).size) :
    jacobian f point delta = .error .size := by
  unfold jacobian
  simp only
  have h0 : aget point 0 = .ok point[0] := aget_ok hn
  have hk2 : 0 < (point.setIfInBounds 0 (point[0] + delta)).size := by simpa using hn
  rw [forM'_first_error 0 point.size _ _ .size hn]
  · rfl
  · simp only [h0, aset_ok _ hn, aget_ok hk2, aset_ok _ hk2, bind, Except.bind, Vec.sub]
    rw [if_pos hbad]

end Ohsl.Props.C18
