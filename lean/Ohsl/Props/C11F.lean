/-
  Property C11 (part F) — rounding-error bounds for the polynomial operations of the model
  (`Ohsl/Model/Poly.lean`) in the "rounded reals" interpretation `Fl M` (Ohsl/Lemmas/Rounding.lean):
  the SAME definitions `Poly.eval`, `Poly.add`, `Poly.sub`, `Poly.smul`, `Poly.mul`,
  `Poly.derivative` instantiated at real numbers whose `+ - *` round with relative error `≤ u`
  (standard model of floating-point arithmetic, no overflow / underflow).

  The transfer to the Rust `f64` code rests on the ASSUMPTION stated in Rounding.lean (IEEE binary64
  without overflow/underflow satisfies `FlModel` with `u = 2⁻⁵³`); it is not proved here.

  Notation: `coef p i = (p[i]).val` (the real value of coefficient `i`, `0` beyond the end),
  `n = p.size - 1` the degree, `M.gam k = (1+u)^k - 1`.

  * `eval_backward`      (F) Horner: the computed value is the EXACT value of `Σ aᵢ(1+θᵢ) xⁱ`,
                         `|θᵢ| ≤ gam (2i+1)` (`i < n`), `|θₙ| ≤ gam (2n)` (list form `horner_backward`).
  * `eval_rounding`      (F) `|eval − Σ aᵢ xⁱ| ≤ gam (2n) · Σ |aᵢ| |x|ⁱ`; `eval_rounding_gamma` with
                         `γ_{2n}`; `eval_degree_zero` (no operation); `exactEval_eq_toPoly`.
  * `add_rounding`, `sub_rounding` (F) the model computes `(0 + aᵢ) ± bᵢ`:
                         `|cᵢ − (aᵢ ± bᵢ)| ≤ gam 2 · |aᵢ| + u · |bᵢ|` (attained, see Examples);
                         `add_rounding_sym`; `add_rounding_rep`, `sub_rounding_rep`: `≤ u · |aᵢ ± bᵢ|`
                         when the coefficients are representable (`fl a = a`).
  * `smul_rounding`      (F) `|cᵢ − aᵢ t| ≤ u · |aᵢ t|`.
  * `mul_rounding`       (F) `|c_k − Σ_{i+j=k} aᵢbⱼ| ≤ gam (m+1) · Σ_{i+j=k} |aᵢbⱼ|`, `m = nterms` the
                         number of products accumulated (`nterms_le : m ≤ min (min sizes) (k+1)`);
                         `mul_rounding_min`, `mul_rounding_low`; `exactConv_eq_toPoly`.
  * `derivative_rounding`(F) `|dᵢ − (i+1) a_{i+1}| ≤ gam (i+1) · |(i+1) a_{i+1}|`
                         (`derivative_rounding_rep`: `gam i` for representable coefficients).
  * `derivativeAt_one_rounding` (F) `derivative_at(x, 1)`: constant `gam (2(n−1) + n)`.
  Structural (S): `eval_eq_foldr`, `addRep_eq_foldl`, `add_coeff`, `sub_coeff`, `mul_getD` (every
  product coefficient is a left fold from `0` of its products, no algebraic law used).
-/
import Ohsl.Props.C11P
import Ohsl.Lemmas.Rounding
import Mathlib.Algebra.BigOperators.Intervals
import Mathlib.Algebra.Order.BigOperators.Group.Finset
import Mathlib.Algebra.BigOperators.Ring.Finset
import Mathlib.Algebra.BigOperators.NatAntidiagonal
import Mathlib.Order.Interval.Finset.Nat
set_option linter.unusedSectionVars false
set_option linter.unusedVariables false
namespace Ohsl.Props.C11
open Ohsl Ohsl.Poly Ohsl.PolyAlg

/-! ### structural: the operations as folds / case distinctions (any `K`, no algebraic law) -/

section Structural
variable {K : Type} [Add K] [Sub K] [Mul K] [Neg K] [Zero K]

/-- (S) `eval` of a non-empty coefficient list is the right fold from the leading coefficient -/
theorem eval_eq_foldr (l : List K) (lead x : K) :
    Poly.eval (l ++ [lead]).toArray x = .ok (l.foldr (fun c acc => acc * x + c) lead) := by
  unfold Poly.eval
  simp only [List.back?_toArray, List.getLast?_append, List.getLast?_singleton,
    List.pop_toArray, List.dropLast_concat, List.foldr_toArray]
  simp only [Option.some_or]

/-- (S) repeated addition is the left fold from `0` over `n` copies -/
theorem addRep_eq_foldl (c : K) (n : Nat) :
    addRep c n = (List.replicate n c).foldl (· + ·) 0 := by
  induction n with
  | zero => rfl
  | succ n ih => rw [List.replicate_succ', List.foldl_append, ← ih]; rfl

/-- (S) coefficient `i` of `add p q` (both non-empty): the model's `s = 0; s += a; s += b` -/
theorem add_coeff (p q : Array K) (hp : p.size ≠ 0) (hq : q.size ≠ 0) (i : Nat) :
    (add p q)[i]?.getD 0 =
      if i < p.size then
        (if i < q.size then (0 + p[i]?.getD 0) + q[i]?.getD 0 else 0 + p[i]?.getD 0)
      else (if i < q.size then 0 + q[i]?.getD 0 else 0) := by
  simp only [add, hp, hq, if_false, Array.getElem?_ofFn]
  by_cases h1 : i < p.size <;> by_cases h2 : i < q.size <;> simp [h1, h2]

/-- (S) coefficient `i` of `sub p q` (both non-empty): `s = 0; s += a; s -= b` -/
theorem sub_coeff (p q : Array K) (hp : p.size ≠ 0) (hq : q.size ≠ 0) (i : Nat) :
    (sub p q)[i]?.getD 0 =
      if i < p.size then
        (if i < q.size then (0 + p[i]?.getD 0) - q[i]?.getD 0 else 0 + p[i]?.getD 0)
      else (if i < q.size then 0 - q[i]?.getD 0 else 0) := by
  simp only [sub, hp, hq, if_false, Array.getElem?_ofFn]
  by_cases h1 : i < p.size <;> by_cases h2 : i < q.size <;> simp [h1, h2]

/-- the indices `i < m` that contribute to coefficient `k` of a product of sizes `m`, `n`
(`i + j = k` with `j < n`), in the order in which the model adds them -/
def convIdx (m n k : Nat) : List Nat :=
  (List.range m).filter (fun i => decide (i ≤ k ∧ k - i < n))

/-- number of products accumulated into coefficient `k` -/
def nterms (m n k : Nat) : Nat := (convIdx m n k).length

/-- the products accumulated into coefficient `k` by the first `m` outer iterations -/
def convTerms (p q : Array K) (m k : Nat) : List K :=
  (convIdx m q.size k).map (fun i => p[i]?.getD 0 * q[k - i]?.getD 0)

/-- inner loop of `mul` (no algebraic law): slot `m` receives at most one product -/
theorem inner_fold_gen (a : K) (q : Array K) (i n : Nat) (acc : Array K) :
    let r := (List.range n).foldl (fun acc j =>
      acc.modify (i + j) (fun c => c + a * (q[j]?.getD 0))) acc
    r.size = acc.size ∧ ∀ m, m < acc.size →
      r[m]?.getD 0 = if i ≤ m ∧ m - i < n then acc[m]?.getD 0 + a * (q[m - i]?.getD 0)
        else acc[m]?.getD 0 := by
  induction n with
  | zero => simp
  | succ n ih =>
    intro r
    obtain ⟨ih1, ih2⟩ := ih
    have hr : r = ((List.range n).foldl (fun acc j =>
        acc.modify (i + j) (fun c => c + a * (q[j]?.getD 0))) acc).modify (i + n)
          (fun c => c + a * (q[n]?.getD 0)) := by
      simp [r, List.range_succ, List.foldl_append]
    refine ⟨by rw [hr, Array.size_modify]; exact ih1, ?_⟩
    intro m hm
    have hm' : m < ((List.range n).foldl (fun acc j =>
        acc.modify (i + j) (fun c => c + a * (q[j]?.getD 0))) acc).size := by
      rw [ih1]; exact hm
    have ih2' := ih2 m hm
    rw [hr, Array.getElem?_modify]
    by_cases h : i + n = m
    · subst h
      have hc : ¬ (i ≤ i + n ∧ i + n - i < n) := by omega
      rw [if_neg hc] at ih2'
      have hc' : i ≤ i + n ∧ i + n - i < n + 1 := by omega
      rw [if_pos rfl, if_pos hc', Nat.add_sub_cancel_left, ← ih2']
      simp [Array.getElem?_eq_getElem hm']
    · rw [if_neg h, ih2']
      by_cases hc : i ≤ m ∧ m - i < n
      · rw [if_pos hc, if_pos (by omega)]
      · rw [if_neg hc, if_neg (by omega)]

theorem convIdx_succ (m n k : Nat) :
    convIdx (m + 1) n k = convIdx m n k ++ (if m ≤ k ∧ k - m < n then [m] else []) := by
  unfold convIdx
  rw [List.range_succ, List.filter_append]
  congr 1
  by_cases h : m ≤ k ∧ k - m < n <;> simp [h]

/-- outer loop of `mul`: slot `k` is the left fold of its products, in index order -/
theorem outer_fold_gen (p q : Array K) (n : Nat) (acc : Array K) :
    let r := (List.range n).foldl (fun acc i =>
      (List.range q.size).foldl (fun acc j =>
        acc.modify (i + j) (fun c => c + (p[i]?.getD 0) * (q[j]?.getD 0))) acc) acc
    r.size = acc.size ∧ ∀ k, k < acc.size →
      r[k]?.getD 0 = (convTerms p q n k).foldl (· + ·) (acc[k]?.getD 0) := by
  induction n with
  | zero => simp [convTerms, convIdx]
  | succ n ih =>
    intro r
    obtain ⟨ih1, ih2⟩ := ih
    obtain ⟨s1, s2⟩ := inner_fold_gen (p[n]?.getD 0) q n q.size ((List.range n).foldl (fun acc i =>
      (List.range q.size).foldl (fun acc j =>
        acc.modify (i + j) (fun c => c + (p[i]?.getD 0) * (q[j]?.getD 0))) acc) acc)
    have hr : r = (List.range q.size).foldl (fun acc j =>
        acc.modify (n + j) (fun c => c + (p[n]?.getD 0) * (q[j]?.getD 0)))
        ((List.range n).foldl (fun acc i =>
          (List.range q.size).foldl (fun acc j =>
          acc.modify (i + j) (fun c => c + (p[i]?.getD 0) * (q[j]?.getD 0))) acc) acc) := by
      simp [r, List.range_succ, List.foldl_append]
    refine ⟨by rw [hr, s1]; exact ih1, ?_⟩
    intro k hk
    rw [hr, s2 k (by rw [ih1]; exact hk), ih2 k hk]
    unfold convTerms
    rw [convIdx_succ, List.map_append, List.foldl_append]
    by_cases hc : n ≤ k ∧ k - n < q.size
    · rw [if_pos hc, if_pos hc]; rfl
    · rw [if_neg hc, if_neg hc]; rfl

/-- (S) every coefficient of the model product is the left fold from `0` of the products
`p[i] * q[k-i]` in increasing `i` (all `p`, `q`, `k`, including the empty operands and `k` beyond
the end, where both sides are `0`) -/
theorem mul_getD (p q : Array K) (k : Nat) :
    (mul p q)[k]?.getD 0 = (convTerms p q p.size k).foldl (· + ·) 0 := by
  by_cases hp : p.size = 0
  · simp [mul, hp, convTerms, convIdx]
  by_cases hq : q.size = 0
  · simp [mul, hp, hq, convTerms, convIdx]
  obtain ⟨s1, s2⟩ := outer_fold_gen p q p.size (Array.replicate (p.size + q.size - 1) (0 : K))
  have hm : mul p q = (List.range p.size).foldl (fun acc i =>
      (List.range q.size).foldl (fun acc j =>
        acc.modify (i + j) (fun c => c + (p[i]?.getD 0) * (q[j]?.getD 0))) acc)
      (Array.replicate (p.size + q.size - 1) (0 : K)) := by
    simp [mul, hp, hq]
  by_cases h : k < p.size + q.size - 1
  · rw [hm, s2 k (by simpa using h)]
    simp [h]
  · have hs : (mul p q).size = p.size + q.size - 1 := by rw [hm, s1]; simp
    have h1 : (mul p q)[k]? = none := by simp [hs]; omega
    have h2 : convIdx p.size q.size k = [] := by
      unfold convIdx
      rw [List.filter_eq_nil_iff]
      intro i hi
      have := List.mem_range.mp hi
      simp only [decide_eq_true_eq]
      omega
    simp [h1, convTerms, h2]

theorem convIdx_nodup (m n k : Nat) : (convIdx m n k).Nodup :=
  List.Nodup.filter _ List.nodup_range

theorem convIdx_toFinset (m n k : Nat) :
    (convIdx m n k).toFinset = (Finset.range (k + 1)).filter (fun i => i < m ∧ k - i < n) := by
  ext i
  simp only [convIdx, List.toFinset_filter, List.toFinset_range, Finset.mem_filter,
    Finset.mem_range, decide_eq_true_eq]
  omega

/-- at most `min (sizes)` and at most `k + 1` products go into coefficient `k` -/
theorem nterms_le (m n k : Nat) : nterms m n k ≤ min (min m n) (k + 1) := by
  have h1 : nterms m n k ≤ m := by
    unfold nterms convIdx
    exact (List.length_filter_le _ _).trans (by simp)
  have h2 : nterms m n k ≤ (Finset.Ico (k + 1 - n) (k + 1)).card := by
    unfold nterms
    rw [← List.toFinset_card_of_nodup (convIdx_nodup m n k), convIdx_toFinset]
    apply Finset.card_le_card
    intro i hi
    simp only [Finset.mem_filter, Finset.mem_range, Finset.mem_Ico] at hi ⊢
    omega
  rw [Nat.card_Ico] at h2
  omega

end Structural

/-! ### the rounded-reals interpretation -/

section Rounding
variable {M : FlModel}
open Fl

/-- the real value of coefficient `i` (`0` beyond the end) -/
def coef (p : Array (Fl M)) (i : Nat) : ℝ := (p[i]?.getD 0).val

theorem coef_of_le (p : Array (Fl M)) (i : Nat) (h : p.size ≤ i) : coef p i = 0 := by
  simp [coef, Array.getElem?_eq_none h]

theorem coef_ne_zero_lt (p : Array (Fl M)) (i : Nat) (h : coef p i ≠ 0) : i < p.size := by
  by_contra hc
  exact h (coef_of_le p i (by omega))

/-- the coefficients as an array of reals: `toPoly (p.map Fl.val)` is the exact real polynomial -/
theorem coef_eq_map (p : Array (Fl M)) (i : Nat) : (p.map Fl.val)[i]?.getD 0 = coef p i := by
  rw [Array.getElem?_map, coef]
  cases p[i]? <;> rfl

/-! #### accumulation of relative errors -/

/-- one more rounding: `(1+θ)(1+δ) = 1+θ'` with `|θ'| ≤ gam (k+1)` -/
theorem one_add_theta_step (θ δ : ℝ) (k : ℕ) (hθ : |θ| ≤ M.gam k) (hδ : |δ| ≤ M.u) :
    |(1 + θ) * (1 + δ) - 1| ≤ M.gam (k + 1) := by
  have e : (1 + θ) * (1 + δ) - 1 = θ * (1 + δ) + δ := by ring
  have h1 : |1 + δ| ≤ 1 + M.u := (abs_add_le _ _).trans (by simpa using hδ)
  rw [e, M.gam_succ]
  calc |θ * (1 + δ) + δ| ≤ |θ * (1 + δ)| + |δ| := abs_add_le _ _
    _ = |θ| * |1 + δ| + |δ| := by rw [abs_mul]
    _ ≤ M.gam k * (1 + M.u) + M.u := by
        have := mul_le_mul hθ h1 (abs_nonneg _) (M.gam_nonneg _)
        linarith
    _ = _ := by ring

/-- two more roundings -/
theorem one_add_theta_step2 (θ δ₁ δ₂ : ℝ) (k : ℕ) (hθ : |θ| ≤ M.gam k) (h₁ : |δ₁| ≤ M.u)
    (h₂ : |δ₂| ≤ M.u) : |(1 + θ) * (1 + δ₁) * (1 + δ₂) - 1| ≤ M.gam (k + 2) := by
  have h := one_add_theta_step θ δ₁ k hθ h₁
  have h' := one_add_theta_step ((1 + θ) * (1 + δ₁) - 1) δ₂ (k + 1) h h₂
  have e : 1 + ((1 + θ) * (1 + δ₁) - 1) = (1 + θ) * (1 + δ₁) := by ring
  rwa [e] at h'

/-! #### 1./2. Horner evaluation -/

/-- the exact value `Σ aᵢ xⁱ` of the polynomial with the given coefficients at the given point -/
def exactEval (p : Array (Fl M)) (x : Fl M) : ℝ :=
  ∑ i ∈ Finset.range p.size, coef p i * x.val ^ i
/-- `p̃(|x|) = Σ |aᵢ| |x|ⁱ` -/
def absEval (p : Array (Fl M)) (x : Fl M) : ℝ :=
  ∑ i ∈ Finset.range p.size, |coef p i| * |x.val| ^ i

theorem absEval_nonneg (p : Array (Fl M)) (x : Fl M) : 0 ≤ absEval p x :=
  Finset.sum_nonneg (fun _ _ => by positivity)

/-- `exactEval` is evaluation of the Mathlib polynomial denoted by the real coefficients
(cf. `eval_spec` in C11P) -/
theorem exactEval_eq_toPoly (p : Array (Fl M)) (x : Fl M) :
    exactEval p x = (toPoly (p.map Fl.val)).eval x.val := by
  unfold exactEval toPoly
  rw [Polynomial.eval_finsetSum, Array.size_map]
  apply Finset.sum_congr rfl
  intro i _
  rw [coef_eq_map]
  simp

/-- Horner's rule on a coefficient list (lowest degree first, leading coefficient separate):
backward error, coefficient `i < n` is perturbed by `2i+1` roundings, the leading one by `2n`. -/
theorem horner_backward (l : List (Fl M)) (lead x : Fl M) :
    ∃ θ : ℕ → ℝ, (∀ i, i < l.length → |θ i| ≤ M.gam (2 * i + 1)) ∧
      |θ l.length| ≤ M.gam (2 * l.length) ∧
      (l.foldr (fun c acc => acc * x + c) lead).val
        = ∑ i ∈ Finset.range (l.length + 1),
            ((l ++ [lead])[i]?.getD 0).val * (1 + θ i) * x.val ^ i := by
  induction l with
  | nil => exact ⟨fun _ => 0, by simp, by simp, by simp⟩
  | cons c l ih =>
    obtain ⟨θ, h1, h2, h3⟩ := ih
    set H := l.foldr (fun c acc => acc * x + c) lead with hH
    obtain ⟨δm, hm, em⟩ := M.exists_delta (H.val * x.val)
    obtain ⟨δa, ha, ea⟩ := M.exists_delta ((H * x).val + c.val)
    refine ⟨fun i => match i with
      | 0 => δa
      | j + 1 => (1 + θ j) * (1 + δm) * (1 + δa) - 1, ?_, ?_, ?_⟩
    · intro i hi
      cases i with
      | zero => simpa using ha
      | succ j =>
        have hj : j < l.length := by simpa using hi
        have := one_add_theta_step2 (θ j) δm δa (2 * j + 1) (h1 j hj) hm ha
        have e : 2 * (j + 1) + 1 = 2 * j + 1 + 2 := by ring
        rw [e]; exact this
    · have := one_add_theta_step2 (θ l.length) δm δa (2 * l.length) h2 hm ha
      have e : 2 * (c :: l).length = 2 * l.length + 2 := by simp; ring
      rw [e]; exact this
    · have hv : ((c :: l).foldr (fun c acc => acc * x + c) lead).val
          = (H.val * x.val * (1 + δm) + c.val) * (1 + δa) := by
        show (H * x + c).val = _
        rw [Fl.add_val, ea, Fl.mul_val, em]
      rw [hv, List.length_cons, Finset.sum_range_succ']
      simp only [List.cons_append, List.getElem?_cons_succ, List.getElem?_cons_zero,
        Option.getD_some, pow_zero, mul_one]
      have hs : ∑ i ∈ Finset.range (l.length + 1),
            ((l ++ [lead])[i]?.getD 0).val * (1 + ((1 + θ i) * (1 + δm) * (1 + δa) - 1))
              * x.val ^ (i + 1)
          = H.val * (x.val * (1 + δm) * (1 + δa)) := by
        rw [h3, Finset.sum_mul]
        apply Finset.sum_congr rfl
        intro i _
        ring
      rw [hs]
      ring

/-- **2. backward error of Horner's rule**: the computed value is the EXACT value at `x` of the
polynomial with coefficients `aᵢ (1 + θᵢ)`, `|θᵢ| ≤ gam (2i+1)` for `i < n` and `|θₙ| ≤ gam (2n)`
(`n = p.size - 1`; degree 0: `θ₀ = 0`). -/
theorem eval_backward (p : Array (Fl M)) (x : Fl M) (h : p ≠ #[]) :
    ∃ r, Poly.eval p x = .ok r ∧ ∃ θ : ℕ → ℝ,
      (∀ i, i < p.size → |θ i| ≤ M.gam (min (2 * i + 1) (2 * (p.size - 1)))) ∧
      r.val = ∑ i ∈ Finset.range p.size, coef p i * (1 + θ i) * x.val ^ i := by
  obtain ⟨l⟩ := p
  have hl : l ≠ [] := by intro e; subst e; exact h rfl
  obtain ⟨l', a, rfl⟩ : ∃ l' a, l = l' ++ [a] :=
    ⟨l.dropLast, l.getLast hl, (List.dropLast_append_getLast hl).symm⟩
  obtain ⟨θ, h1, h2, h3⟩ := horner_backward l' a x
  refine ⟨_, eval_eq_foldr l' a x, θ, ?_, ?_⟩
  · intro i hi
    have hi' : i < l'.length + 1 := by simpa using hi
    have hsz : (l' ++ [a]).toArray.size - 1 = l'.length := by simp
    rw [hsz]
    by_cases hlt : i < l'.length
    · rw [min_eq_left (by omega)]; exact h1 i hlt
    · have : i = l'.length := by omega
      subst this
      rw [min_eq_right (by omega)]; exact h2
  · rw [h3]
    have hsz : (l' ++ [a]).toArray.size = l'.length + 1 := by simp
    rw [hsz]
    apply Finset.sum_congr rfl
    intro i _
    simp [coef]

/-- **1. the classical forward bound for Horner's rule**:
`|computed − Σ aᵢ xⁱ| ≤ gam (2n) · Σ |aᵢ| |x|ⁱ`, `n = p.size − 1` the degree. -/
theorem eval_rounding (p : Array (Fl M)) (x : Fl M) (h : p ≠ #[]) :
    ∃ r, Poly.eval p x = .ok r ∧
      |r.val - exactEval p x| ≤ M.gam (2 * (p.size - 1)) * absEval p x := by
  obtain ⟨r, hr, θ, hθ, hv⟩ := eval_backward p x h
  refine ⟨r, hr, ?_⟩
  have e : r.val - exactEval p x = ∑ i ∈ Finset.range p.size, coef p i * θ i * x.val ^ i := by
    rw [hv, exactEval, ← Finset.sum_sub_distrib]
    apply Finset.sum_congr rfl
    intro i _
    ring
  rw [e, absEval, Finset.mul_sum]
  refine (Finset.abs_sum_le_sum_abs _ _).trans (Finset.sum_le_sum ?_)
  intro i hi
  have hi' := Finset.mem_range.mp hi
  have h1 : |θ i| ≤ M.gam (2 * (p.size - 1)) :=
    (hθ i hi').trans (M.gam_mono (min_le_right _ _))
  rw [abs_mul, abs_mul, abs_pow]
  have h2 : 0 ≤ |coef p i| * |x.val| ^ i := by positivity
  have := mul_le_mul_of_nonneg_right h1 h2
  nlinarith [this]

/-- degree 0: no operation, the value is the coefficient itself -/
theorem eval_degree_zero (a x : Fl M) : Poly.eval #[a] x = .ok a := by
  simp [Poly.eval]

/-- the classical constant `γ_{2n} = 2n u / (1 − 2n u)` -/
theorem eval_rounding_gamma (p : Array (Fl M)) (x : Fl M) (h : p ≠ #[])
    (hu : ((2 * (p.size - 1) : ℕ) : ℝ) * M.u < 1) :
    ∃ r, Poly.eval p x = .ok r ∧
      |r.val - exactEval p x|
        ≤ ((2 * (p.size - 1) : ℕ) : ℝ) * M.u / (1 - ((2 * (p.size - 1) : ℕ) : ℝ) * M.u)
            * absEval p x := by
  obtain ⟨r, hr, hr'⟩ := eval_rounding p x h
  exact ⟨r, hr, hr'.trans (mul_le_mul_of_nonneg_right (M.gam_le_gamma _ hu) (absEval_nonneg p x))⟩

/-! #### 3. addition, subtraction, scalar multiple -/

theorem zero_add_err (a : Fl M) : |((0 : Fl M) + a).val - a.val| ≤ M.u * |a.val| := by
  have := Fl.add_err (0 : Fl M) a
  simpa only [Fl.zero_val, zero_add] using this

theorem zero_add_of_rep (a : Fl M) (h : M.Rep a.val) : (0 : Fl M) + a = a := by
  ext
  show M.fl (0 + a.val) = a.val
  rw [zero_add]; exact h

/-- `s = 0; s += a; s += b`: `a` is rounded twice, `b` once -/
theorem add3_err (a b : Fl M) :
    |((0 + a) + b).val - (a.val + b.val)| ≤ M.gam 2 * |a.val| + M.u * |b.val| := by
  obtain ⟨δ₁, h₁, e₁⟩ := M.exists_delta (0 + a.val)
  obtain ⟨δ₂, h₂, e₂⟩ := M.exists_delta (((0 : Fl M) + a).val + b.val)
  have hv : ((0 + a) + b).val = (a.val * (1 + δ₁) + b.val) * (1 + δ₂) := by
    rw [Fl.add_val, e₂, Fl.add_val, Fl.zero_val, e₁, zero_add]
  have hθ := one_add_theta_step (M := M) δ₁ δ₂ 1 (by simpa using h₁) h₂
  have e : (a.val * (1 + δ₁) + b.val) * (1 + δ₂) - (a.val + b.val)
      = a.val * ((1 + δ₁) * (1 + δ₂) - 1) + b.val * δ₂ := by ring
  rw [hv, e]
  refine (abs_add_le _ _).trans ?_
  rw [abs_mul, abs_mul]
  have t1 := mul_le_mul_of_nonneg_left hθ (abs_nonneg a.val)
  have t2 := mul_le_mul_of_nonneg_left h₂ (abs_nonneg b.val)
  linarith

/-- `s = 0; s += a; s -= b` -/
theorem sub3_err (a b : Fl M) :
    |((0 + a) - b).val - (a.val - b.val)| ≤ M.gam 2 * |a.val| + M.u * |b.val| := by
  obtain ⟨δ₁, h₁, e₁⟩ := M.exists_delta (0 + a.val)
  obtain ⟨δ₂, h₂, e₂⟩ := M.exists_delta (((0 : Fl M) + a).val - b.val)
  have hv : ((0 + a) - b).val = (a.val * (1 + δ₁) - b.val) * (1 + δ₂) := by
    rw [Fl.sub_val, e₂, Fl.add_val, Fl.zero_val, e₁, zero_add]
  have hθ := one_add_theta_step (M := M) δ₁ δ₂ 1 (by simpa using h₁) h₂
  have e : (a.val * (1 + δ₁) - b.val) * (1 + δ₂) - (a.val - b.val)
      = a.val * ((1 + δ₁) * (1 + δ₂) - 1) + -(b.val * δ₂) := by ring
  rw [hv, e]
  refine (abs_add_le _ _).trans ?_
  rw [abs_neg, abs_mul, abs_mul]
  have t1 := mul_le_mul_of_nonneg_left hθ (abs_nonneg a.val)
  have t2 := mul_le_mul_of_nonneg_left h₂ (abs_nonneg b.val)
  linarith

/-- **3a. addition**: coefficient `i` of `add p q` against `aᵢ + bᵢ`.  The model computes
`(0 + aᵢ) + bᵢ`, so `aᵢ` is rounded twice and `bᵢ` once (all `p`, `q`, `i`; the empty polynomial
acts as zero and then there is no rounding at all). -/
theorem add_rounding (p q : Array (Fl M)) (i : Nat) :
    |coef (add p q) i - (coef p i + coef q i)| ≤ M.gam 2 * |coef p i| + M.u * |coef q i| := by
  have hg := M.gam_nonneg 2
  have hu := M.u_nonneg
  have hgu : M.u ≤ M.gam 2 := by simpa using M.gam_mono (show 1 ≤ 2 by norm_num)
  by_cases hp : p.size = 0
  · have hp0 : coef p i = 0 := coef_of_le p i (by omega)
    have : add p q = q := by simp [add, hp]
    rw [this, hp0]; simp; positivity
  by_cases hq : q.size = 0
  · have hq0 : coef q i = 0 := coef_of_le q i (by omega)
    have : add p q = p := by simp [add, hp, hq]
    rw [this, hq0]; simp; positivity
  have hc : coef (add p q) i = ((add p q)[i]?.getD 0).val := rfl
  rw [hc, add_coeff p q hp hq i]
  by_cases h1 : i < p.size <;> by_cases h2 : i < q.size
  · simp only [h1, h2, if_true]; exact add3_err _ _
  · have hq0 : coef q i = 0 := coef_of_le q i (by omega)
    simp only [h1, h2, if_true, if_false, hq0, add_zero, abs_zero, mul_zero]
    refine (zero_add_err _).trans ?_
    exact mul_le_mul_of_nonneg_right hgu (abs_nonneg _)
  · have hp0 : coef p i = 0 := coef_of_le p i (by omega)
    simp only [h1, h2, if_true, if_false, hp0, zero_add, abs_zero, mul_zero]
    exact zero_add_err _
  · have hp0 : coef p i = 0 := coef_of_le p i (by omega)
    have hq0 : coef q i = 0 := coef_of_le q i (by omega)
    simp [h1, h2, hp0, hq0]

/-- the symmetric form -/
theorem add_rounding_sym (p q : Array (Fl M)) (i : Nat) :
    |coef (add p q) i - (coef p i + coef q i)| ≤ M.gam 2 * (|coef p i| + |coef q i|) := by
  have hgu : M.u ≤ M.gam 2 := by simpa using M.gam_mono (show 1 ≤ 2 by norm_num)
  have := mul_le_mul_of_nonneg_right hgu (abs_nonneg (coef q i))
  have := add_rounding p q i
  linarith

/-- **3a'. addition of representable coefficients** (`fl a = a`, as for every IEEE number): then
`0 + aᵢ` is exact and the coefficient has relative error `≤ u` (one rounding). -/
theorem add_rounding_rep (p q : Array (Fl M)) (i : Nat)
    (hpr : M.Rep (coef p i)) (hqr : M.Rep (coef q i)) :
    |coef (add p q) i - (coef p i + coef q i)| ≤ M.u * |coef p i + coef q i| := by
  have hu := M.u_nonneg
  by_cases hp : p.size = 0
  · have hp0 : coef p i = 0 := coef_of_le p i (by omega)
    have : add p q = q := by simp [add, hp]
    rw [this, hp0]; simp; positivity
  by_cases hq : q.size = 0
  · have hq0 : coef q i = 0 := coef_of_le q i (by omega)
    have : add p q = p := by simp [add, hp, hq]
    rw [this, hq0]; simp; positivity
  have hc : coef (add p q) i = ((add p q)[i]?.getD 0).val := rfl
  rw [hc, add_coeff p q hp hq i]
  by_cases h1 : i < p.size <;> by_cases h2 : i < q.size
  · simp only [h1, h2, if_true]
    rw [zero_add_of_rep _ hpr]
    exact Fl.add_err _ _
  · have hq0 : coef q i = 0 := coef_of_le q i (by omega)
    simp only [h1, h2, if_true, if_false, hq0, add_zero]
    rw [zero_add_of_rep _ hpr]
    have : (p[i]?.getD 0).val = coef p i := rfl
    rw [this, sub_self, abs_zero]; positivity
  · have hp0 : coef p i = 0 := coef_of_le p i (by omega)
    simp only [h1, h2, if_true, if_false, hp0, zero_add]
    rw [zero_add_of_rep _ hqr]
    have : (q[i]?.getD 0).val = coef q i := rfl
    rw [this, sub_self, abs_zero]; positivity
  · have hp0 : coef p i = 0 := coef_of_le p i (by omega)
    have hq0 : coef q i = 0 := coef_of_le q i (by omega)
    simp [h1, h2, hp0, hq0]

theorem coef_neg (q : Array (Fl M)) (i : Nat) : coef (neg q) i = - coef q i := by
  unfold coef neg
  rw [Array.getElem?_map]
  cases q[i]? <;> simp

/-- **3b. subtraction**: coefficient `i` of `sub p q` against `aᵢ − bᵢ`; the model computes
`(0 + aᵢ) − bᵢ` (`sub #[] q = neg q` and `sub p #[] = p` are exact). -/
theorem sub_rounding (p q : Array (Fl M)) (i : Nat) :
    |coef (sub p q) i - (coef p i - coef q i)| ≤ M.gam 2 * |coef p i| + M.u * |coef q i| := by
  have hg := M.gam_nonneg 2
  have hu := M.u_nonneg
  have hgu : M.u ≤ M.gam 2 := by simpa using M.gam_mono (show 1 ≤ 2 by norm_num)
  by_cases hp : p.size = 0
  · have hp0 : coef p i = 0 := coef_of_le p i (by omega)
    have : sub p q = neg q := by simp [sub, hp]
    rw [this, hp0, coef_neg]; simp; positivity
  by_cases hq : q.size = 0
  · have hq0 : coef q i = 0 := coef_of_le q i (by omega)
    have : sub p q = p := by simp [sub, hp, hq]
    rw [this, hq0]; simp; positivity
  have hc : coef (sub p q) i = ((sub p q)[i]?.getD 0).val := rfl
  rw [hc, sub_coeff p q hp hq i]
  by_cases h1 : i < p.size <;> by_cases h2 : i < q.size
  · simp only [h1, h2, if_true]; exact sub3_err _ _
  · have hq0 : coef q i = 0 := coef_of_le q i (by omega)
    simp only [h1, h2, if_true, if_false, hq0, sub_zero, abs_zero, mul_zero, add_zero]
    refine (zero_add_err _).trans ?_
    exact mul_le_mul_of_nonneg_right hgu (abs_nonneg _)
  · have hp0 : coef p i = 0 := coef_of_le p i (by omega)
    simp only [h1, h2, if_true, if_false, hp0, zero_sub, abs_zero, mul_zero, zero_add]
    have := Fl.sub_err (0 : Fl M) (q[i]?.getD 0)
    simp only [Fl.zero_val, zero_sub, abs_neg] at this
    exact this
  · have hp0 : coef p i = 0 := coef_of_le p i (by omega)
    have hq0 : coef q i = 0 := coef_of_le q i (by omega)
    simp [h1, h2, hp0, hq0]

/-- **3b'. subtraction of representable coefficients**: one rounding, relative error `≤ u` -/
theorem sub_rounding_rep (p q : Array (Fl M)) (i : Nat) (hpr : M.Rep (coef p i)) :
    |coef (sub p q) i - (coef p i - coef q i)| ≤ M.u * |coef p i - coef q i| := by
  have hu := M.u_nonneg
  by_cases hp : p.size = 0
  · have hp0 : coef p i = 0 := coef_of_le p i (by omega)
    have : sub p q = neg q := by simp [sub, hp]
    rw [this, hp0, coef_neg]; simp; positivity
  by_cases hq : q.size = 0
  · have hq0 : coef q i = 0 := coef_of_le q i (by omega)
    have : sub p q = p := by simp [sub, hp, hq]
    rw [this, hq0]; simp; positivity
  have hc : coef (sub p q) i = ((sub p q)[i]?.getD 0).val := rfl
  rw [hc, sub_coeff p q hp hq i]
  by_cases h1 : i < p.size <;> by_cases h2 : i < q.size
  · simp only [h1, h2, if_true]
    rw [zero_add_of_rep _ hpr]
    exact Fl.sub_err _ _
  · have hq0 : coef q i = 0 := coef_of_le q i (by omega)
    simp only [h1, h2, if_true, if_false, hq0, sub_zero]
    rw [zero_add_of_rep _ hpr]
    have : (p[i]?.getD 0).val = coef p i := rfl
    rw [this, sub_self, abs_zero]; positivity
  · have hp0 : coef p i = 0 := coef_of_le p i (by omega)
    simp only [h1, h2, if_true, if_false, hp0]
    exact Fl.sub_err (0 : Fl M) (q[i]?.getD 0)
  · have hp0 : coef p i = 0 := coef_of_le p i (by omega)
    have hq0 : coef q i = 0 := coef_of_le q i (by omega)
    simp [h1, h2, hp0, hq0]

/-- **3c. scalar multiple**: every coefficient is one rounded product, relative error `≤ u` -/
theorem smul_rounding (p : Array (Fl M)) (t : Fl M) (i : Nat) :
    |coef (smul p t) i - coef p i * t.val| ≤ M.u * |coef p i * t.val| := by
  unfold coef smul
  rw [Array.getElem?_map]
  cases p[i]? with
  | none => simp
  | some a => exact Fl.mul_err a t

/-! #### 4. multiplication -/

/-- the exact convolution `Σ_{i+j=k} aᵢ bⱼ` -/
def exactConv (p q : Array (Fl M)) (k : Nat) : ℝ :=
  ∑ i ∈ Finset.range (k + 1), coef p i * coef q (k - i)
/-- `Σ_{i+j=k} |aᵢ bⱼ|` -/
def absConv (p q : Array (Fl M)) (k : Nat) : ℝ :=
  ∑ i ∈ Finset.range (k + 1), |coef p i * coef q (k - i)|

theorem absConv_nonneg (p q : Array (Fl M)) (k : Nat) : 0 ≤ absConv p q k :=
  Finset.sum_nonneg (fun _ _ => abs_nonneg _)

/-- `exactConv` is coefficient `k` of the product of the Mathlib polynomials denoted by the real
coefficients (cf. `mul_spec` in C11P) -/
theorem exactConv_eq_toPoly (p q : Array (Fl M)) (k : Nat) :
    exactConv p q k = (toPoly (p.map Fl.val) * toPoly (q.map Fl.val)).coeff k := by
  rw [Polynomial.coeff_mul,
    Finset.Nat.sum_antidiagonal_eq_sum_range_succ
      (fun i j => (toPoly (p.map Fl.val)).coeff i * (toPoly (q.map Fl.val)).coeff j) k]
  unfold exactConv
  apply Finset.sum_congr rfl
  intro i _
  rw [coeff_toPoly, coeff_toPoly, coef_eq_map, coef_eq_map]

/-- a sum over the contributing indices is the sum over `i ≤ k` when the other terms vanish -/
theorem sum_convIdx (m n k : Nat) (g : ℕ → ℝ)
    (hg : ∀ i, g i ≠ 0 → i < m ∧ k - i < n) :
    ((convIdx m n k).map g).sum = ∑ i ∈ Finset.range (k + 1), g i := by
  rw [← List.sum_toFinset g (convIdx_nodup m n k), convIdx_toFinset, Finset.sum_filter_of_ne]
  intro i _ hne
  exact hg i hne

/-- **4. multiplication**: coefficient `k` of `mul p q` against the exact convolution.  The model
adds the `m = nterms p.size q.size k` products `aᵢ b_{k-i}` (each rounded once) to `0` in increasing
`i`: `m` rounded additions, constant `gam (m + 1)` (all `p`, `q`, `k`). -/
theorem mul_rounding (p q : Array (Fl M)) (k : Nat) :
    |coef (mul p q) k - exactConv p q k|
      ≤ M.gam (nterms p.size q.size k + 1) * absConv p q k := by
  have hc : coef (mul p q) k = ((mul p q)[k]?.getD 0).val := rfl
  rw [hc, mul_getD]
  have hT : convTerms p q p.size k
      = (convIdx p.size q.size k).map (fun i => p[i]?.getD 0 * q[k - i]?.getD 0) := rfl
  rw [hT]
  have h1 := foldl_sum_rounding
    ((convIdx p.size q.size k).map (fun i => p[i]?.getD 0 * q[k - i]?.getD 0))
  rw [List.length_map] at h1
  have h2 := rounded_terms_sum_bound (convIdx p.size q.size k)
    (fun i => p[i]?.getD 0 * q[k - i]?.getD 0) (fun i => coef p i * coef q (k - i))
    (convIdx p.size q.size k).length _ (fun i _ => Fl.mul_err _ _) h1
  have hz : ∀ i, coef p i * coef q (k - i) ≠ 0 → i < p.size ∧ k - i < q.size := by
    intro i hne
    exact ⟨coef_ne_zero_lt p i (left_ne_zero_of_mul hne),
      coef_ne_zero_lt q (k - i) (right_ne_zero_of_mul hne)⟩
  rw [sum_convIdx _ _ _ _ hz,
    sum_convIdx _ _ _ (fun i => |coef p i * coef q (k - i)|)
      (fun i hne => hz i (abs_ne_zero.mp hne))] at h2
  exact h2

/-- the same with the uniform constant `min(sizes) + 1` -/
theorem mul_rounding_min (p q : Array (Fl M)) (k : Nat) :
    |coef (mul p q) k - exactConv p q k|
      ≤ M.gam (min p.size q.size + 1) * absConv p q k := by
  refine (mul_rounding p q k).trans (mul_le_mul_of_nonneg_right (M.gam_mono ?_) (absConv_nonneg p q k))
  have := nterms_le p.size q.size k
  omega

/-- … and with `k + 2` (low-order coefficients: coefficient `0` is one product, `gam 2`) -/
theorem mul_rounding_low (p q : Array (Fl M)) (k : Nat) :
    |coef (mul p q) k - exactConv p q k| ≤ M.gam (k + 2) * absConv p q k := by
  refine (mul_rounding p q k).trans (mul_le_mul_of_nonneg_right (M.gam_mono ?_) (absConv_nonneg p q k))
  have := nterms_le p.size q.size k
  omega

/-! #### 5. derivative -/

/-- repeated addition `0 + c + … + c` (`n` summands): `n` rounded additions -/
theorem addRep_rounding (c : Fl M) (n : Nat) :
    |(addRep c n).val - n * c.val| ≤ M.gam n * |n * c.val| := by
  have h := foldl_sum_rounding (List.replicate n c)
  have e1 : rsum (List.replicate n c) = n * c.val := by
    simp [rsum, List.map_replicate, List.sum_replicate]
  have e2 : asum (List.replicate n c) = |n * c.val| := by
    simp [asum, List.map_replicate, List.sum_replicate, abs_mul]
  rw [e1, e2, List.length_replicate, ← addRep_eq_foldl] at h
  exact h

/-- … `n − 1` when `c` is representable (the first addition `0 + c` is then exact) -/
theorem addRep_rounding_rep (c : Fl M) (n : Nat) (hc : M.Rep c.val) :
    |(addRep c (n + 1)).val - (n + 1) * c.val| ≤ M.gam n * |(n + 1) * c.val| := by
  have h := foldl_sum_rounding_head_exact c (List.replicate n c) hc
  have e1 : rsum (c :: List.replicate n c) = (n + 1) * c.val := by
    simp [rsum, List.map_replicate, List.sum_replicate]; ring
  have e2 : asum (c :: List.replicate n c) = |(n + 1) * c.val| := by
    have : (0 : ℝ) ≤ n + 1 := by positivity
    simp [asum, List.map_replicate, List.sum_replicate, abs_mul, abs_of_nonneg this]; ring
  rw [e1, e2, List.length_replicate, ← List.replicate_succ, ← addRep_eq_foldl] at h
  exact h

/-- **5. derivative**: coefficient `i` of the model derivative (`i + 1` copies of `a_{i+1}` added to
`0`) has relative error `≤ gam (i+1)` w.r.t. `(i+1) · a_{i+1}`. -/
theorem derivative_rounding (p : Array (Fl M)) (h : p ≠ #[]) :
    ∃ d, Poly.derivative p = .ok d ∧ d.size = p.size - 1 ∧
      ∀ i, |coef d i - (i + 1) * coef p (i + 1)| ≤ M.gam (i + 1) * |(i + 1) * coef p (i + 1)| := by
  have hs : p.size ≠ 0 := fun e => h (Array.eq_empty_of_size_eq_zero e)
  refine ⟨Array.ofFn (n := p.size - 1) (fun i => addRep (p[i.val + 1]?.getD 0) (i.val + 1)),
    by simp [Poly.derivative, hs], by simp, ?_⟩
  intro i
  unfold coef
  rw [Array.getElem?_ofFn]
  by_cases hi : i < p.size - 1
  · simp only [hi, dite_true, Option.getD_some]
    have := addRep_rounding (p[i + 1]?.getD 0) (i + 1)
    simpa using this
  · have : p[i + 1]? = none := by simp; omega
    simp [hi, this]

/-- … `gam i` when the coefficients are representable -/
theorem derivative_rounding_rep (p : Array (Fl M)) (h : p ≠ #[])
    (hrep : ∀ i, M.Rep (coef p i)) :
    ∃ d, Poly.derivative p = .ok d ∧ d.size = p.size - 1 ∧
      ∀ i, |coef d i - (i + 1) * coef p (i + 1)| ≤ M.gam i * |(i + 1) * coef p (i + 1)| := by
  have hs : p.size ≠ 0 := fun e => h (Array.eq_empty_of_size_eq_zero e)
  refine ⟨Array.ofFn (n := p.size - 1) (fun i => addRep (p[i.val + 1]?.getD 0) (i.val + 1)),
    by simp [Poly.derivative, hs], by simp, ?_⟩
  intro i
  unfold coef
  rw [Array.getElem?_ofFn]
  by_cases hi : i < p.size - 1
  · simp only [hi, dite_true, Option.getD_some]
    exact addRep_rounding_rep (p[i + 1]?.getD 0) i (hrep (i + 1))
  · have : p[i + 1]? = none := by simp; omega
    simp [hi, this]

/-! #### `derivative_at(x, 1)`: differentiate, then Horner -/

/-- the exact derivative value `Σ (i+1) a_{i+1} xⁱ` -/
def exactDeriv (p : Array (Fl M)) (x : Fl M) : ℝ :=
  ∑ i ∈ Finset.range (p.size - 1), ((i : ℝ) + 1) * coef p (i + 1) * x.val ^ i
/-- `Σ |(i+1) a_{i+1}| |x|ⁱ` -/
def absDeriv (p : Array (Fl M)) (x : Fl M) : ℝ :=
  ∑ i ∈ Finset.range (p.size - 1), |((i : ℝ) + 1) * coef p (i + 1)| * |x.val| ^ i

/-- **first derivative at a point** (`derivativeAt p x 1`, degree `n = p.size − 1 ≥ 1`): the
coefficient errors `gam n` of `derivative_rounding` composed with the Horner bound `gam (2(n−1))`
of `eval_rounding` for the degree `n − 1` derivative: constant `gam (2(n−1) + n)`. -/
theorem derivativeAt_one_rounding (p : Array (Fl M)) (x : Fl M) (h : 2 ≤ p.size) :
    ∃ r, Poly.derivativeAt p x 1 = .ok r ∧
      |r.val - exactDeriv p x| ≤ M.gam (2 * (p.size - 2) + (p.size - 1)) * absDeriv p x := by
  have hne : p ≠ #[] := by intro e; subst e; simp at h
  obtain ⟨d, hd, hsz, hc⟩ := derivative_rounding p hne
  have hdne : d ≠ #[] := by intro e; subst e; simp at hsz; omega
  obtain ⟨r, hr, hb⟩ := eval_rounding d x hdne
  have hdsz : ¬ d.size = 0 := by intro e; exact hdne (Array.eq_empty_of_size_eq_zero e)
  refine ⟨r, by simp only [Poly.derivativeAt, Poly.derivativeN, bind, Except.bind, hd, hr, hdsz, if_false], ?_⟩
  have hsz2 : d.size - 1 = p.size - 2 := by omega
  rw [hsz2] at hb
  set n := p.size - 1 with hn
  have hgn := M.gam_nonneg n
  have hterm : ∀ i, i < n →
      |coef d i - ((i : ℝ) + 1) * coef p (i + 1)| ≤ M.gam n * |((i : ℝ) + 1) * coef p (i + 1)| := by
    intro i hi
    exact (hc i).trans (mul_le_mul_of_nonneg_right (M.gam_mono (by omega)) (abs_nonneg _))
  have hA : |exactEval d x - exactDeriv p x| ≤ M.gam n * absDeriv p x := by
    unfold exactEval exactDeriv absDeriv
    rw [hsz, ← hn, ← Finset.sum_sub_distrib, Finset.mul_sum]
    refine (Finset.abs_sum_le_sum_abs _ _).trans (Finset.sum_le_sum ?_)
    intro i hi
    have e : coef d i * x.val ^ i - ((i : ℝ) + 1) * coef p (i + 1) * x.val ^ i
        = (coef d i - ((i : ℝ) + 1) * coef p (i + 1)) * x.val ^ i := by ring
    rw [e, abs_mul, abs_pow, ← mul_assoc]
    exact mul_le_mul_of_nonneg_right (hterm i (Finset.mem_range.mp hi)) (by positivity)
  have hB : absEval d x ≤ (1 + M.gam n) * absDeriv p x := by
    unfold absEval absDeriv
    rw [hsz, ← hn, Finset.mul_sum]
    refine Finset.sum_le_sum ?_
    intro i hi
    have h1 := hterm i (Finset.mem_range.mp hi)
    have h2 : |coef d i| ≤ |coef d i - ((i : ℝ) + 1) * coef p (i + 1)|
        + |((i : ℝ) + 1) * coef p (i + 1)| := by
      simpa using abs_add_le (coef d i - ((i : ℝ) + 1) * coef p (i + 1))
        (((i : ℝ) + 1) * coef p (i + 1))
    rw [← mul_assoc]
    exact mul_le_mul_of_nonneg_right (by linarith) (by positivity)
  have e : r.val - exactDeriv p x = (r.val - exactEval d x) + (exactEval d x - exactDeriv p x) := by
    ring
  rw [e, add_comm (2 * (p.size - 2)) n, M.gam_add]
  refine (abs_add_le _ _).trans ?_
  have := mul_le_mul_of_nonneg_left hB (M.gam_nonneg (2 * (p.size - 2)))
  nlinarith

end Rounding

/-! ### non-vacuity and sharpness -/

section Examples
open Fl

/-- exact arithmetic is a model; there `eval_rounding` collapses to equality with `Σ aᵢ xⁱ` -/
example (p : Array (Fl FlModel.exact)) (x : Fl FlModel.exact) (h : p ≠ #[]) :
    ∃ r, Poly.eval p x = .ok r ∧ r.val = exactEval p x := by
  obtain ⟨r, hr, hr'⟩ := eval_rounding p x h
  refine ⟨r, hr, ?_⟩
  have hg : FlModel.exact.gam (2 * (p.size - 1)) = 0 := by simp [FlModel.gam, FlModel.exact]
  rw [hg, zero_mul] at hr'
  exact sub_eq_zero.mp (abs_nonpos_iff.mp hr')

/-- a model that really rounds (`fl x = (1 + 2⁻⁵³) x`): the constant `gam (2n)` of `eval_rounding`
is attained for the degree-2 polynomial `a x²` (coefficients `[0, 0, a]`): the computed value is
`(1+u)⁴ a t²`, the error `((1+u)⁴ − 1) |a| |t|² = gam 4 · p̃(|t|)`. -/
example (a t : ℝ) :
    let M := FlModel.scale (2 ^ (-53 : ℤ)) (by positivity)
    let p : Array (Fl M) := #[0, 0, ⟨a⟩]
    let x : Fl M := ⟨t⟩
    ∃ r, Poly.eval p x = .ok r ∧ |r.val - exactEval p x| = M.gam (2 * (p.size - 1)) * absEval p x := by
  intro M p x
  have he : Poly.eval p x
      = .ok (([0, 0] : List (Fl M)).foldr (fun c acc => acc * x + c) ⟨a⟩) :=
    eval_eq_foldr ([0, 0] : List (Fl M)) (⟨a⟩ : Fl M) x
  refine ⟨_, he, ?_⟩
  have hg := M.gam_nonneg 4
  have hg4 : M.gam 4 = (1 + M.u) ^ 4 - 1 := rfl
  have hv : (([0, 0] : List (Fl M)).foldr (fun c acc => acc * x + c) ⟨a⟩).val
      = (1 + M.u) * ((1 + M.u) * ((1 + M.u) * ((1 + M.u) * (a * t) + 0) * t) + 0) := rfl
  have e1 : exactEval p x = a * t ^ 2 := by
    simp [exactEval, coef, Finset.sum_range_succ, p, x]
  have e2 : absEval p x = |a| * |t| ^ 2 := by
    simp [absEval, coef, Finset.sum_range_succ, p, x]
  rw [hv, e1, e2]
  have : (1 + M.u) * ((1 + M.u) * ((1 + M.u) * ((1 + M.u) * (a * t) + 0) * t) + 0) - a * t ^ 2
      = M.gam 4 * (a * t ^ 2) := by rw [hg4]; ring
  rw [this, abs_mul, abs_of_nonneg hg, abs_mul, abs_pow]
  rfl

/-- in the same model the constants of `add_rounding` (`gam 2` on `a`, `u` on `b`) are attained for
non-negative constants: `(0 + a) + b = (1+u)((1+u) a + b)`. -/
example (a b : ℝ) (ha : 0 ≤ a) (hb : 0 ≤ b) :
    let M := FlModel.scale (2 ^ (-53 : ℤ)) (by positivity)
    let p : Array (Fl M) := #[⟨a⟩]
    let q : Array (Fl M) := #[⟨b⟩]
    |coef (add p q) 0 - (coef p 0 + coef q 0)| = M.gam 2 * |coef p 0| + M.u * |coef q 0| := by
  intro M p q
  have hg := M.gam_nonneg 2
  have hu := M.u_nonneg
  have hg2 : M.gam 2 = (1 + M.u) ^ 2 - 1 := rfl
  have hv : coef (add p q) 0 = (1 + M.u) * ((1 + M.u) * (0 + a) + b) := rfl
  have e1 : coef p 0 = a := rfl
  have e2 : coef q 0 = b := rfl
  rw [hv, e1, e2, abs_of_nonneg ha, abs_of_nonneg hb]
  have : (1 + M.u) * ((1 + M.u) * (0 + a) + b) - (a + b) = M.gam 2 * a + M.u * b := by
    rw [hg2]; ring
  rw [this, abs_of_nonneg (by positivity)]

/-- … and the constant `gam (i+1)` of `derivative_rounding`: the derivative of `b + a x + c x²` has
the coefficient `(0 + c) + c = (1+u)((1+u) c + c)` at index 1; the error of the abstract model is
`(gam 2 + u) |c|`, below the bound `gam 2 · |2 c|`. -/
example (a b c : ℝ) :
    let M := FlModel.scale (2 ^ (-53 : ℤ)) (by positivity)
    let p : Array (Fl M) := #[⟨b⟩, ⟨a⟩, ⟨c⟩]
    ∃ d, Poly.derivative p = .ok d ∧ d.size = 2 ∧
      |coef d 0 - 1 * coef p 1| = M.gam 1 * |1 * coef p 1| ∧
      |coef d 1 - 2 * coef p 2| ≤ M.gam 2 * |2 * coef p 2| := by
  intro M p
  obtain ⟨d, hd, hs, hc⟩ := derivative_rounding p (by simp [p])
  refine ⟨d, hd, hs, ?_, ?_⟩
  · have hd' : Poly.derivative p = .ok #[(0 : Fl M) + ⟨a⟩, ((0 : Fl M) + ⟨c⟩) + ⟨c⟩] := rfl
    have : d = #[(0 : Fl M) + ⟨a⟩, ((0 : Fl M) + ⟨c⟩) + ⟨c⟩] := by
      rw [hd] at hd'; exact Except.ok.inj hd'
    subst this
    have hv : coef (#[(0 : Fl M) + ⟨a⟩, ((0 : Fl M) + ⟨c⟩) + ⟨c⟩]) 0 = (1 + M.u) * (0 + a) := rfl
    have e1 : coef p 1 = a := rfl
    rw [hv, e1, M.gam_one]
    have : (1 + M.u) * (0 + a) - 1 * a = M.u * a := by ring
    rw [this, abs_mul, abs_of_nonneg M.u_nonneg, one_mul]
  · have := hc 1
    norm_num at this
    have e : ((1 : ℝ) + 1) = 2 := by norm_num
    simpa [e] using this

/-- the multiplication bound on `(1 + x)²` in exact arithmetic: coefficient 1 is the exact
convolution `1·1 + 1·1` (two terms, `nterms 2 2 1 = 2`) -/
example : nterms 2 2 1 = 2 ∧ nterms 2 2 0 = 1 ∧ nterms 2 2 2 = 1 ∧ nterms 2 2 3 = 0 := by decide

end Examples

end Ohsl.Props.C11
