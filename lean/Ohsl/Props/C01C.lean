/-
  Property C01 (continued) — completeness of the dense direct solvers: a nonsingular system is
  never refused, and a returned value certifies nonsingularity.
  Model: Ohsl/Model/Solve.lean; helper lemmas: Ohsl/Lemmas/SolveComplete.lean (which builds on
  Ohsl/Lemmas/SolveSound.lean and Ohsl/Lemmas/LUDet.lean).

  Class (E): `K` a linearly ordered field, `/` fails on an exact zero divisor
  (`Ohsl.Alg.scalarExt`).  `A` is a well-formed `n × n` matrix with entries `a i j`, `n ≥ 1`
  (an order-0 system is always rejected, `solveBasic_order0`), `b.size = n`; "nonsingular" is
  `Matrix.det (Matrix.of fun (i j : Fin n) => a i j) ≠ 0`.

  * `solveBasic_complete`     nonsingular ⇒ `solve_basic` returns a value
  * `solveLU_complete`        nonsingular ⇒ `solve_lu` returns a value
  * `solveBasic_nonsingular`  `solve_basic` returned a value ⇒ nonsingular (no order law needed)
  * `solveLU_nonsingular`     `solve_lu` returned a value ⇒ nonsingular
  * `solveBasic_ok_iff`, `solveLU_ok_iff`   a value is returned IF AND ONLY IF nonsingular
  * `solveBasic_singular_rejects`, `solveLU_singular_rejects`   singular ⇒ an error, for every `b`
  * `solvers_ok_iff`          one solver returns a value iff the other one does
  * `solve_correct`           nonsingular ⇒ both solvers return the same vector, it solves
                              `A x = b` exactly and it is the only solution

  `IsStrictOrderedRing K` (the order is compatible with the field operations) is needed for the
  completeness direction: both pivot searches compare magnitudes `mag x = if x < 0 then -x else x`
  with `<`, and only under compatibility does "no magnitude exceeds 0" mean "the column is zero".

  Note on the pivot search of `solve_basic`: `max_abs_in_column` starts from the current row, so
  on an all-zero pivot sub-column it returns that row.  For a nonsingular matrix this never happens:
  the current matrix has echelon shape in the columns already processed and a determinant equal
  to `± det A ≠ 0`, hence its pivot sub-column is not zero (`Mat.det_zero_of_good_zero_col`), and
  the search then returns a row on or below the diagonal with a non-zero entry
  (`Mat.maxAbsInColumn_total`).
-/
import Ohsl.Props.C01S
import Ohsl.Lemmas.SolveComplete
import Mathlib.Algebra.Order.Field.Rat
import Mathlib.Tactic.NormNum
set_option linter.unusedSectionVars false
set_option linter.unusedVariables false
set_option linter.unusedSimpArgs false
namespace Ohsl.Props.C01
open Ohsl Ohsl.Mat

section Exact
variable {K : Type} [Field K] [LinearOrder K]
attribute [local instance] Ohsl.Alg.scalarExt

/-- the determinant of the matrix described by `a` is the determinant of the canonical entry
    function of the buffer -/
theorem det_ent_eq {n : Nat} {A : Mat K} {a : Nat → Nat → K} (hA : Mat.Is A n n a) :
    Matrix.det (Mat.toMat n (Mat.ent A)) =
      Matrix.det (Matrix.of fun (i j : Fin n) => a i.val j.val) := by
  rw [Mat.toMat_congr (fun r c hr hc => hA.ent_eq hr hc)]
  rfl

/-- **A value returned by `solve_basic` certifies nonsingularity** (no pivot or order
    hypothesis): all divisors were non-zero, the returned vector is the only solution, so the
    matrix has a trivial kernel and `det A ≠ 0`. -/
theorem solveBasic_nonsingular {n : Nat} (hn : 1 ≤ n) {A : Mat K} {a : Nat → Nat → K}
    (hA : Mat.Is A n n a) {b x : Array K} (hb : b.size = n)
    (h : Mat.solveBasic A b = .ok x) :
    Matrix.det (Matrix.of fun (i j : Fin n) => a i.val j.val) ≠ 0 := by
  rw [← det_ent_eq hA]
  exact Mat.solveBasic_ok_det hn hA.wfn hb h

variable [IsStrictOrderedRing K]

/-- **Completeness of `solve_basic`** (Gaussian elimination with partial pivoting, then back
    substitution): a nonsingular `n × n` system (`n ≥ 1`) with a right-hand side of length `n` is
    never refused. -/
theorem solveBasic_complete {n : Nat} (hn : 1 ≤ n) {A : Mat K} {a : Nat → Nat → K}
    (hA : Mat.Is A n n a) {b : Array K} (hb : b.size = n)
    (hdet : Matrix.det (Matrix.of fun (i j : Fin n) => a i.val j.val) ≠ 0) :
    ∃ x, Mat.solveBasic A b = .ok x := by
  rw [← det_ent_eq hA] at hdet
  exact Mat.solveBasic_complete_ent hn hA.wfn hb hdet

/-- **Completeness of `solve_lu`** (in-place LU with recorded row permutation, `P b`, forward
    and back substitution): a nonsingular system is never refused. -/
theorem solveLU_complete {n : Nat} (hn : 1 ≤ n) {A : Mat K} {a : Nat → Nat → K}
    (hA : Mat.Is A n n a) {b : Array K} (hb : b.size = n)
    (hdet : Matrix.det (Matrix.of fun (i j : Fin n) => a i.val j.val) ≠ 0) :
    ∃ x, Mat.solveLU A b = .ok x := by
  rw [← det_ent_eq hA] at hdet
  exact Mat.solveLU_complete_ent hn hA.wfn hb hdet

/-- **A value returned by `solve_lu` certifies nonsingularity**: the factorisation itself never
    fails (a zero pivot column is skipped), but then the back substitution divides by the zero
    diagonal entry of `U`; since every division succeeded, `det U = ± det A ≠ 0`. -/
theorem solveLU_nonsingular {n : Nat} (hn : 1 ≤ n) {A : Mat K} {a : Nat → Nat → K}
    (hA : Mat.Is A n n a) {b x : Array K} (hb : b.size = n)
    (h : Mat.solveLU A b = .ok x) :
    Matrix.det (Matrix.of fun (i j : Fin n) => a i.val j.val) ≠ 0 := by
  rw [← det_ent_eq hA]
  exact Mat.solveLU_ok_det hn hA.wfn hb h

/-- `solve_basic` returns a value **if and only if** the matrix is nonsingular (for a square
    well-formed matrix of order `n ≥ 1` and a right-hand side of matching length; whatever `b`) -/
theorem solveBasic_ok_iff {n : Nat} (hn : 1 ≤ n) {A : Mat K} {a : Nat → Nat → K}
    (hA : Mat.Is A n n a) {b : Array K} (hb : b.size = n) :
    (∃ x, Mat.solveBasic A b = .ok x) ↔
      Matrix.det (Matrix.of fun (i j : Fin n) => a i.val j.val) ≠ 0 :=
  ⟨fun ⟨_, h⟩ => solveBasic_nonsingular hn hA hb h, solveBasic_complete hn hA hb⟩

/-- `solve_lu` returns a value **if and only if** the matrix is nonsingular -/
theorem solveLU_ok_iff {n : Nat} (hn : 1 ≤ n) {A : Mat K} {a : Nat → Nat → K}
    (hA : Mat.Is A n n a) {b : Array K} (hb : b.size = n) :
    (∃ x, Mat.solveLU A b = .ok x) ↔
      Matrix.det (Matrix.of fun (i j : Fin n) => a i.val j.val) ≠ 0 :=
  ⟨fun ⟨_, h⟩ => solveLU_nonsingular hn hA hb h, solveLU_complete hn hA hb⟩

/-- a singular system is refused by `solve_basic` whatever the right-hand side (also when the
    system happens to be consistent): the call ends in an error, never in a value -/
theorem solveBasic_singular_rejects {n : Nat} (hn : 1 ≤ n) {A : Mat K} {a : Nat → Nat → K}
    (hA : Mat.Is A n n a) {b : Array K} (hb : b.size = n)
    (hdet : Matrix.det (Matrix.of fun (i j : Fin n) => a i.val j.val) = 0) :
    ∃ e, Mat.solveBasic A b = .error e := by
  cases h : Mat.solveBasic A b with
  | error e => exact ⟨e, rfl⟩
  | ok x => exact absurd hdet (solveBasic_nonsingular hn hA hb h)

/-- a singular system is refused by `solve_lu` whatever the right-hand side -/
theorem solveLU_singular_rejects {n : Nat} (hn : 1 ≤ n) {A : Mat K} {a : Nat → Nat → K}
    (hA : Mat.Is A n n a) {b : Array K} (hb : b.size = n)
    (hdet : Matrix.det (Matrix.of fun (i j : Fin n) => a i.val j.val) = 0) :
    ∃ e, Mat.solveLU A b = .error e := by
  cases h : Mat.solveLU A b with
  | error e => exact ⟨e, rfl⟩
  | ok x => exact absurd hdet (solveLU_nonsingular hn hA hb h)

/-- the two direct solvers accept exactly the same systems (right-hand sides may even differ) -/
theorem solvers_ok_iff {n : Nat} (hn : 1 ≤ n) {A : Mat K} {a : Nat → Nat → K}
    (hA : Mat.Is A n n a) {b b' : Array K} (hb : b.size = n) (hb' : b'.size = n) :
    (∃ x, Mat.solveBasic A b = .ok x) ↔ (∃ x, Mat.solveLU A b' = .ok x) :=
  (solveBasic_ok_iff hn hA hb).trans (solveLU_ok_iff hn hA hb').symm

/-- **Correctness of the dense direct solvers**: for a nonsingular system both `solve_basic` and
    `solve_lu` return a value, the SAME vector `x`; it has length `n`, satisfies every equation
    `Σ_j a i j · x_j = b_i` exactly, and every exact solution of the system coincides with it. -/
theorem solve_correct {n : Nat} (hn : 1 ≤ n) {A : Mat K} {a : Nat → Nat → K}
    (hA : Mat.Is A n n a) {b : Array K} (hb : b.size = n)
    (hdet : Matrix.det (Matrix.of fun (i j : Fin n) => a i.val j.val) ≠ 0) :
    ∃ x, Mat.solveBasic A b = .ok x ∧ Mat.solveLU A b = .ok x ∧ x.size = n ∧
      (∀ i, i < n → ∑ j ∈ Finset.range n, a i j * (x[j]?.getD 0) = b[i]?.getD 0) ∧
      (∀ z : Nat → K, (∀ i, i < n → ∑ j ∈ Finset.range n, a i j * z j = b[i]?.getD 0) →
        ∀ j, j < n → z j = x[j]?.getD 0) := by
  obtain ⟨x, hx⟩ := solveBasic_complete hn hA hb hdet
  obtain ⟨x', hx'⟩ := solveLU_complete hn hA hb hdet
  have heq : x = x' := solvers_agree hn hA hb hx hx'
  subst heq
  obtain ⟨hs, hsol⟩ := solveBasic_sound hn hA hb hx
  exact ⟨x, hx, hx', hs, hsol, fun z hz => solveBasic_unique hn hA hb hx z hz⟩

end Exact

section Examples
attribute [local instance] Ohsl.Alg.scalarExt

/-- the hypotheses of the completeness theorems are satisfiable: a 3×3 rational matrix whose
    first pivot is zero (a row exchange is needed) has determinant −2 -/
example : ∃ (A : Mat ℚ) (b : Array ℚ), Mat.Is A 3 3 (Mat.ent A) ∧ b.size = 3 ∧
    Matrix.det (Matrix.of fun (i j : Fin 3) => Mat.ent A i.val j.val) ≠ 0 := by
  refine ⟨⟨#[0, 1, 2, 1, 0, 3, 4, -3, 8], 3, 3⟩, #[8, 10, 22],
    Mat.WFn.is ⟨rfl, rfl, rfl⟩, rfl, ?_⟩
  rw [Matrix.det_fin_three]
  simp [Mat.ent]
  norm_num

/-- … and `solve_correct` then applies to it -/
example : ∃ x : Array ℚ,
    Mat.solveBasic (K := ℚ) ⟨#[0, 1, 2, 1, 0, 3, 4, -3, 8], 3, 3⟩ #[8, 10, 22] = .ok x ∧
    Mat.solveLU (K := ℚ) ⟨#[0, 1, 2, 1, 0, 3, 4, -3, 8], 3, 3⟩ #[8, 10, 22] = .ok x := by
  have hA : Mat.Is (K := ℚ) ⟨#[0, 1, 2, 1, 0, 3, 4, -3, 8], 3, 3⟩ 3 3
      (Mat.ent ⟨#[0, 1, 2, 1, 0, 3, 4, -3, 8], 3, 3⟩) := Mat.WFn.is ⟨rfl, rfl, rfl⟩
  obtain ⟨x, h1, h2, _⟩ := solve_correct (by decide) hA (b := #[8, 10, 22]) rfl (by
    rw [Matrix.det_fin_three]
    simp [Mat.ent]
    norm_num)
  exact ⟨x, h1, h2⟩

/-- the singular matrix [[1,2],[2,4]] is refused by both solvers even for the consistent
    right-hand side (3, 6) -/
example : (∃ e, Mat.solveBasic (K := ℚ) ⟨#[1, 2, 2, 4], 2, 2⟩ #[3, 6] = .error e) ∧
    (∃ e, Mat.solveLU (K := ℚ) ⟨#[1, 2, 2, 4], 2, 2⟩ #[3, 6] = .error e) := by
  have hA : Mat.Is (K := ℚ) ⟨#[1, 2, 2, 4], 2, 2⟩ 2 2 (Mat.ent ⟨#[1, 2, 2, 4], 2, 2⟩) :=
    Mat.WFn.is ⟨rfl, rfl, rfl⟩
  have hdet : Matrix.det (Matrix.of fun (i j : Fin 2) =>
      Mat.ent (K := ℚ) ⟨#[1, 2, 2, 4], 2, 2⟩ i.val j.val) = 0 := by
    rw [Matrix.det_fin_two]
    simp [Mat.ent]
    norm_num
  exact ⟨solveBasic_singular_rejects (by decide) hA rfl hdet,
    solveLU_singular_rejects (by decide) hA rfl hdet⟩

end Examples
end Ohsl.Props.C01
