/-
  Property C06 (sparse matrix views / CSC well-formedness), part W — model: Ohsl/Model/Sparse.lean.
  Class (S): any scalar type (`scale` needs `Mul`, `transpose` / the value accessor `Sp.vl` need a
  `Zero`; the statements about the denoted entry `Sp.entry`, a finite sum, need a commutative
  semiring).  The compressed-column structure stays well formed (`Sp.WF`) under every constructor
  and the views agree:
  * `col_start_from_index` counts (`colStartFromIndex_counts`, `colStartFromIndex_spec`);
  * `from_triplets` accepts exactly the in-range lists, the result is well formed and stores the
    stably sorted list (`fromTriplets_wf`, `fromTriplets_rejects`, `fromTriplets_triplets`), so the
    input order does not matter (`fromTriplets_perm_invariant`, `fromTriplets_entry_perm_invariant`,
    `fromTriplets_get`, `fromTriplets_get_perm_invariant`, `fromTriplets_noDup`);
  * `col_index`, `get`, `to_triplets` (`colIndex_spec`, `col_unique`, `get_spec`, `get_some_iff`,
    `get_none_iff`, `toTriplets_spec`); for duplicate-free storage `get`, `to_triplets`, `to_dense`
    and `Sp.entry` describe the same function (`get_some_iff_mem`, `entry_eq_get`, `views_agree`);
  * `scale`, `insert` (`scale_wf`, `insert_overwrite`, `insert_new`, `insert_spec`, `insert_get`);
  * `transpose` is a stable counting sort by row (`transpose_wf`, `transpose_spec`,
    `transpose_perm`, `transpose_entry`).
  `Sp.colOf s k` is the column of slot `k`, `Sp.trips s` the list of stored triplets in storage
  order, `Sp.firstSlot s row col` the first slot holding a position (Ohsl/Lemmas/SparseWF.lean).
-/
import Ohsl.Props.C06
import Ohsl.Props.C07S
import Ohsl.Lemmas.SparseSpec
import Ohsl.Lemmas.SparseWF
set_option linter.unusedSectionVars false
set_option linter.unusedVariables false
set_option linter.unusedSimpArgs false
open Ohsl.Mat (forM' forM'_inv aget_ok aset_ok)
namespace Ohsl.Props.C06
open Ohsl Ohsl.Sp
variable {K : Type}

/-! ### 1. `col_start_from_index` -/

/-- `col_start_from_index`: if the first `nz` column indices are `< cols` (no order needed) the
    result has `cols + 1` entries and entry `j` is the number of slots whose column is `< j` -/
theorem colStartFromIndex_counts (cols nz : Nat) (ci : Array Nat) (hsz : nz ≤ ci.size)
    (hlt : ∀ k, k < nz → ci[k]?.getD 0 < cols) :
    ∃ cs, colStartFromIndex cols nz ci = .ok cs ∧ cs.size = cols + 1 ∧
      ∀ j, j ≤ cols → cs[j]? = some ((Finset.range nz).filter (fun k => ci[k]?.getD 0 < j)).card := by
  obtain ⟨cs, h1, h2, h3⟩ := colStartFromIndex_count cols nz ci hsz hlt
  refine ⟨cs, h1, h2, ?_⟩
  intro j hj
  rw [h3 j hj, cnt_eq_card]
  simp

/-- `col_start_from_index` on a column index that is in range and sorted by column: the result
    starts at 0, is non-decreasing, ends at `nz`, counts the slots of the smaller columns, and
    slot `k` lies in the range of column `ci[k]` -/
theorem colStartFromIndex_spec (cols nz : Nat) (ci : Array Nat) (hsz : ci.size = nz)
    (hlt : ∀ k, k < nz → ci[k]?.getD 0 < cols)
    (hsorted : ∀ a b, a ≤ b → b < nz → ci[a]?.getD 0 ≤ ci[b]?.getD 0) :
    ∃ cs, colStartFromIndex cols nz ci = .ok cs ∧ cs.size = cols + 1 ∧ cs[0]? = some 0 ∧
      (∀ j, j < cols → cs[j]?.getD 0 ≤ cs[j + 1]?.getD 0) ∧ cs[cols]? = some nz ∧
      (∀ j, j ≤ cols → cs[j]? = some ((Finset.range nz).filter (fun k => ci[k]?.getD 0 < j)).card) ∧
      (∀ k, k < nz → cs[ci[k]?.getD 0]?.getD 0 ≤ k ∧ k < cs[ci[k]?.getD 0 + 1]?.getD 0) := by
  obtain ⟨cs, h1, h2, h3⟩ := colStartFromIndex_count cols nz ci (by omega) hlt
  refine ⟨cs, h1, h2, ?_, ?_, ?_, ?_, ?_⟩
  · rw [h3 0 (Nat.zero_le _), cnt_false]
    intro k _; simp
  · intro j hj
    rw [h3 j (by omega), h3 (j + 1) hj]
    simp only [Option.getD_some]
    apply cnt_mono_pred
    intro k _ hk
    have : ci[k]?.getD 0 < j := by simpa using hk
    simp; omega
  · rw [h3 cols (Nat.le_refl _), cnt_true]
    intro k hk
    simpa using hlt k hk
  · intro j hj
    rw [h3 j hj, cnt_eq_card]
    simp
  · intro k hk
    have hck := hlt k hk
    obtain ⟨a, b⟩ := cnt_sorted_slot (fun i => ci[i]?.getD 0) nz k hk hsorted
    rw [h3 _ (Nat.le_of_lt hck), h3 _ hck]
    exact ⟨a, b⟩

/-- the hypotheses are satisfiable (column index of the 2×3 example below) -/
example : colStartFromIndex 3 4 #[0, 0, 1, 2] = .ok #[0, 2, 3, 4] := by decide

/-! ### 2. `from_triplets` : well-formedness, rejection -/

theorem sortByCol_length (ts : List (Nat × Nat × K)) : (sortByCol ts).length = ts.length :=
  (sortByCol_perm ts).length_eq

/-- `from_triplets` on in-range triplets succeeds with a well-formed storage of the requested
    shape holding one slot per triplet -/
theorem fromTriplets_wf (rows cols : Nat) (ts : List (Nat × Nat × K))
    (hr : ∀ t, t ∈ ts → t.1 < rows ∧ t.2.1 < cols) :
    ∃ s, fromTriplets rows cols ts = .ok s ∧ WF s ∧ s.rows = rows ∧ s.cols = cols ∧
      s.nonzero = ts.length := by
  obtain ⟨s, h1, h2, h3, h4, h5, _⟩ := fromTriplets_ok' rows cols ts (sortByCol_length ts)
    (sortByCol_sorted ts) (fun t ht => hr t ((sortByCol_perm ts).subset ht))
  exact ⟨s, h1, h2, h3, h4, h5⟩

/-- `from_triplets` panics (index out of range) as soon as one triplet is out of range -/
theorem fromTriplets_rejects (rows cols : Nat) (ts : List (Nat × Nat × K))
    (hbad : ∃ t, t ∈ ts ∧ ¬ (t.1 < rows ∧ t.2.1 < cols)) :
    fromTriplets rows cols ts = .error .range := by
  obtain ⟨t, ht, hb⟩ := hbad
  exact fromTriplets_err rows cols ts ⟨t, (sortByCol_perm ts).symm.subset ht, hb⟩

/-- the hypotheses are satisfiable: the 2×3 matrix `[[1,0,4],[2,3,0]]` from unsorted triplets -/
example : ∃ s : Sp Int, fromTriplets 2 3 [(0, 2, 4), (1, 0, 2), (1, 1, 3), (0, 0, 1)] = .ok s ∧
    WF s ∧ s.nonzero = 4 := by
  obtain ⟨s, h1, h2, _, _, h5⟩ := fromTriplets_wf 2 3 [((0 : Nat), (2 : Nat), (4 : Int)), (1, 0, 2), (1, 1, 3), (0, 0, 1)]
    (by intro t ht; simp at ht; rcases ht with rfl | rfl | rfl | rfl <;> simp)
  exact ⟨s, h1, h2, h5⟩

/-! ### 3. `from_triplets` stores the stably sorted list; the input order is irrelevant -/

section Zero
variable [Zero K]

/-- `to_triplets` of a well-formed storage lists the slots `(row_index k, column of k, val k)` in
    storage order -/
theorem toTriplets_spec {s : Sp K} (h : WF s) : toTriplets s = .ok (trips s) := h.toTriplets_spec

/-- the stored triplets of `from_triplets` are exactly the stably sorted input -/
theorem fromTriplets_triplets (rows cols : Nat) (ts : List (Nat × Nat × K))
    (hr : ∀ t, t ∈ ts → t.1 < rows ∧ t.2.1 < cols) :
    ∃ s, fromTriplets rows cols ts = .ok s ∧ WF s ∧ toTriplets s = .ok (sortByCol ts) := by
  obtain ⟨s, h1, h2, _, _, _, h6⟩ := fromTriplets_ok rows cols ts (sortByCol_length ts)
    (sortByCol_sorted ts) (fun t ht => hr t ((sortByCol_perm ts).subset ht))
  exact ⟨s, h1, h2, by rw [h2.toTriplets_spec, h6]⟩

/-- two orderings of the same in-range triplets give storages with the same triplets (as
    multisets) -/
theorem fromTriplets_perm_invariant (rows cols : Nat) {ts1 ts2 : List (Nat × Nat × K)}
    (hp : ts1.Perm ts2) (hr : ∀ t, t ∈ ts1 → t.1 < rows ∧ t.2.1 < cols) :
    ∃ s1 s2 l1 l2, fromTriplets rows cols ts1 = .ok s1 ∧ fromTriplets rows cols ts2 = .ok s2 ∧
      WF s1 ∧ WF s2 ∧ toTriplets s1 = .ok l1 ∧ toTriplets s2 = .ok l2 ∧ l1.Perm l2 := by
  obtain ⟨s1, a1, a2, a3⟩ := fromTriplets_triplets rows cols ts1 hr
  obtain ⟨s2, b1, b2, b3⟩ := fromTriplets_triplets rows cols ts2 (fun t ht => hr t (hp.symm.subset ht))
  exact ⟨s1, s2, _, _, a1, b1, a2, b2, a3, b3,
    ((sortByCol_perm ts1).trans hp).trans (sortByCol_perm ts2).symm⟩

end Zero

/-- the positions `(row, col)` of the triplets are pairwise distinct -/
def PosNodup (ts : List (Nat × Nat × K)) : Prop := (ts.map (fun t => (t.1, t.2.1))).Nodup

example : PosNodup [((0 : Nat), (2 : Nat), (4 : Int)), (1, 0, 2), (1, 1, 3), (0, 0, 1)] := by
  unfold PosNodup; decide

theorem PosNodup.perm {ts1 ts2 : List (Nat × Nat × K)} (hp : ts1.Perm ts2) (h : PosNodup ts1) :
    PosNodup ts2 := by
  unfold PosNodup at *
  exact ((hp.map (fun t => (t.1, t.2.1))).nodup_iff).mp h

section Zero
variable [Zero K]

/-- storage whose triplets have pairwise distinct positions has no duplicate in a column -/
theorem noDup_of_posNodup {s : Sp K} (h : WF s) (hnd : PosNodup (trips s)) : C07.NoDup s := by
  intro j hj k k' a b c d e
  have hk : k < s.nonzero := h.slot_lt hj b
  have hk' : k' < s.nonzero := h.slot_lt hj d
  have e1 : s.colOf k = j := h.colOf_eq hj a b
  have e2 : s.colOf k' = j := h.colOf_eq hj c d
  have l1 : k < ((trips s).map (fun t => (t.1, t.2.1))).length := by simpa using hk
  have l2 : k' < ((trips s).map (fun t => (t.1, t.2.1))).length := by simpa using hk'
  apply (List.Nodup.getElem_inj_iff hnd (hi := l1) (hj := l2)).mp
  simp [trips, trip, e, e1, e2]

/-- for duplicate-free storage, `get` finds `v` at a position iff the triplet is stored -/
theorem get_some_iff_mem {s : Sp K} (h : WF s) (hnd : C07.NoDup s) {row col : Nat}
    (hr : row < s.rows) (hc : col < s.cols) (v : K) :
    get s row col = .ok (some v) ↔ (row, col, v) ∈ trips s := by
  rw [h.get_spec hr hc]
  constructor
  · intro hg
    have hg' : (firstSlot s row col).map s.vl = some v := by injection hg
    cases hf : firstSlot s row col with
    | none => rw [hf] at hg'; cases hg'
    | some k =>
      rw [hf] at hg'
      obtain ⟨a, ⟨b1, b2⟩, _⟩ := firstSlot_eq_some.mp hf
      have : s.vl k = v := by simpa using hg'
      exact mem_trips.mpr ⟨k, a, by simp [trip, b1, b2, this]⟩
  · intro hm
    obtain ⟨k, hk, hkt⟩ := mem_trips.mp hm
    have e1 : s.ri k = row := congrArg (·.1) hkt
    have e2 : s.colOf k = col := congrArg (·.2.1) hkt
    have e3 : s.vl k = v := congrArg (·.2.2) hkt
    cases hf : firstSlot s row col with
    | none => exact absurd ⟨e1, e2⟩ (firstSlot_eq_none.mp hf k hk)
    | some k0 =>
      obtain ⟨a, ⟨b1, b2⟩, _⟩ := firstSlot_eq_some.mp hf
      obtain ⟨c1, c2⟩ := (h.colOf_iff hc a).mp b2
      obtain ⟨d1, d2⟩ := (h.colOf_iff hc hk).mp e2
      have : k0 = k := hnd col hc k0 k c1 c2 d1 d2 (by rw [b1, e1])
      subst this
      simp [e3]

/-- for in-range triplets with pairwise distinct positions the storage is duplicate free and
    `get` looks the position up in the INPUT list: the order of the triplets is irrelevant -/
theorem fromTriplets_get (rows cols : Nat) (ts : List (Nat × Nat × K))
    (hr : ∀ t, t ∈ ts → t.1 < rows ∧ t.2.1 < cols) (hnd : PosNodup ts) {row col : Nat}
    (hrow : row < rows) (hcol : col < cols) :
    ∃ s o, fromTriplets rows cols ts = .ok s ∧ WF s ∧ C07.NoDup s ∧ get s row col = .ok o ∧
      ∀ v, o = some v ↔ (row, col, v) ∈ ts := by
  obtain ⟨s, h1, h2, h3, h4, _, h6⟩ := fromTriplets_ok rows cols ts (sortByCol_length ts)
    (sortByCol_sorted ts) (fun t ht => hr t ((sortByCol_perm ts).subset ht))
  have hnd' : C07.NoDup s := noDup_of_posNodup h2 (by
    rw [h6]; exact PosNodup.perm (sortByCol_perm ts).symm hnd)
  have hrow' : row < s.rows := by omega
  have hcol' : col < s.cols := by omega
  refine ⟨s, _, h1, h2, hnd', h2.get_spec hrow' hcol', ?_⟩
  intro v
  have := get_some_iff_mem h2 hnd' hrow' hcol' v
  rw [h2.get_spec hrow' hcol', h6] at this
  constructor
  · intro e
    exact (sortByCol_perm ts).subset (this.mp (by rw [e]))
  · intro hm
    have := this.mpr ((sortByCol_perm ts).symm.subset hm)
    injection this

theorem fromTriplets_noDup (rows cols : Nat) (ts : List (Nat × Nat × K))
    (hr : ∀ t, t ∈ ts → t.1 < rows ∧ t.2.1 < cols) (hnd : PosNodup ts) :
    ∃ s, fromTriplets rows cols ts = .ok s ∧ WF s ∧ C07.NoDup s := by
  obtain ⟨s, h1, h2, _, _, _, h6⟩ := fromTriplets_ok rows cols ts (sortByCol_length ts)
    (sortByCol_sorted ts) (fun t ht => hr t ((sortByCol_perm ts).subset ht))
  exact ⟨s, h1, h2, noDup_of_posNodup h2 (by
    rw [h6]; exact PosNodup.perm (sortByCol_perm ts).symm hnd)⟩

/-- two orderings of the same duplicate-free in-range triplets give the same `get` -/
theorem fromTriplets_get_perm_invariant (rows cols : Nat) {ts1 ts2 : List (Nat × Nat × K)}
    (hp : ts1.Perm ts2) (hr : ∀ t, t ∈ ts1 → t.1 < rows ∧ t.2.1 < cols) (hnd : PosNodup ts1)
    (row col : Nat) :
    ∃ s1 s2, fromTriplets rows cols ts1 = .ok s1 ∧ fromTriplets rows cols ts2 = .ok s2 ∧
      get s1 row col = get s2 row col := by
  have hr2 : ∀ t, t ∈ ts2 → t.1 < rows ∧ t.2.1 < cols := fun t ht => hr t (hp.symm.subset ht)
  by_cases hin : row < rows ∧ col < cols
  · obtain ⟨s1, o1, a1, _, _, a4, a5⟩ := fromTriplets_get rows cols ts1 hr hnd hin.1 hin.2
    obtain ⟨s2, o2, b1, _, _, b4, b5⟩ := fromTriplets_get rows cols ts2 hr2 (hnd.perm hp) hin.1 hin.2
    refine ⟨s1, s2, a1, b1, ?_⟩
    rw [a4, b4]
    congr 1
    apply Option.ext
    intro v
    rw [a5 v, b5 v]
    exact ⟨fun h => hp.subset h, fun h => hp.symm.subset h⟩
  · obtain ⟨s1, a1, _, a3, a4, _⟩ := fromTriplets_wf rows cols ts1 hr
    obtain ⟨s2, b1, _, b3, b4, _⟩ := fromTriplets_wf rows cols ts2 hr2
    refine ⟨s1, s2, a1, b1, ?_⟩
    have h1 : s1.rows ≤ row ∨ s1.cols ≤ col := by omega
    have h2 : s2.rows ≤ row ∨ s2.cols ≤ col := by omega
    unfold Sp.get
    rcases h1 with h1 | h1
    · have h2' : s2.rows ≤ row := by omega
      simp [h1, h2']
    · have h2' : s2.cols ≤ col := by omega
      by_cases h3 : s1.rows ≤ row
      · have : s2.rows ≤ row := by omega
        simp [h3, this]
      · have : ¬ s2.rows ≤ row := by omega
        simp [h3, this, h1, h2']

end Zero

/-! ### 4. `col_index`, `get` -/

/-- `col_index()` of a well-formed storage lists the column of every slot -/
theorem colIndex_spec {s : Sp K} (h : WF s) :
    ∃ ci, colIndex s = .ok ci ∧ ci.size = s.nonzero ∧ ∀ k, k < s.nonzero →
      ci[k]? = some (s.colOf k) ∧ s.colOf k < s.cols ∧ s.cs (s.colOf k) ≤ k ∧ k < s.cs (s.colOf k + 1) := by
  obtain ⟨ci, h1, h2, h3⟩ := h.colIndex_spec
  exact ⟨ci, h1, h2, fun k hk => ⟨h3 k hk, h.colOf_spec hk⟩⟩

/-- the column of a slot is the unique `j` with `col_start[j] ≤ k < col_start[j+1]` -/
theorem col_unique {s : Sp K} (h : WF s) {j k : Nat} (hj : j < s.cols) (hk : k < s.nonzero) :
    s.colOf k = j ↔ s.cs j ≤ k ∧ k < s.cs (j + 1) := h.colOf_iff hj hk

section Zero
variable [Zero K]

/-- `get(row, col)` of a well-formed storage returns the value of the FIRST slot (in storage
    order) that holds the position, `None` if no slot does -/
theorem get_spec {s : Sp K} (h : WF s) {row col : Nat} (hr : row < s.rows) (hc : col < s.cols) :
    get s row col = .ok ((firstSlot s row col).map s.vl) := h.get_spec hr hc

theorem get_some_iff {s : Sp K} (h : WF s) {row col : Nat} (hr : row < s.rows) (hc : col < s.cols)
    (v : K) :
    get s row col = .ok (some v) ↔ ∃ k, k < s.nonzero ∧ (s.ri k = row ∧ s.colOf k = col) ∧
      (∀ k', k' < k → ¬ (s.ri k' = row ∧ s.colOf k' = col)) ∧ s.vl k = v := by
  rw [h.get_spec hr hc]
  constructor
  · intro hg
    have hg' : (firstSlot s row col).map s.vl = some v := by injection hg
    cases hf : firstSlot s row col with
    | none => rw [hf] at hg'; cases hg'
    | some k =>
      rw [hf] at hg'
      obtain ⟨a, b, c⟩ := firstSlot_eq_some.mp hf
      exact ⟨k, a, b, c, by simpa using hg'⟩
  · intro ⟨k, a, b, c, d⟩
    rw [firstSlot_eq_some.mpr ⟨a, b, c⟩]
    simp [d]

theorem get_none_iff {s : Sp K} (h : WF s) {row col : Nat} (hr : row < s.rows) (hc : col < s.cols) :
    get s row col = .ok none ↔ ∀ k, k < s.nonzero → ¬ (s.ri k = row ∧ s.colOf k = col) := by
  rw [h.get_spec hr hc, ← firstSlot_eq_none]
  cases firstSlot s row col <;> simp

end Zero

section Ring
variable [CommSemiring K]

/-- the denoted entry (duplicates summed) is the sum over the stored triplets at that position -/
theorem entry_eq_sum_triplets {s : Sp K} (h : WF s) (i : Nat) {j : Nat} (hj : j < s.cols) :
    s.entry i j = ((trips s).map (fun t => if t.1 = i ∧ t.2.1 = j then t.2.2 else 0)).sum :=
  h.entry_eq_sum_trips i hj

/-- for duplicate-free storage the denoted entry is what `get` returns (0 for `None`) -/
theorem entry_eq_get {s : Sp K} (h : WF s) (hnd : C07.NoDup s) {row col : Nat} (hr : row < s.rows)
    (hc : col < s.cols) :
    ∃ o, get s row col = .ok o ∧ s.entry row col = o.getD 0 := by
  refine ⟨_, h.get_spec hr hc, ?_⟩
  unfold entry
  cases hf : firstSlot s row col with
  | none =>
    have hn := firstSlot_eq_none.mp hf
    apply Finset.sum_eq_zero
    intro k hk
    obtain ⟨a, b⟩ := Finset.mem_Ico.mp hk
    have hk' := h.slot_lt hc b
    have := hn k hk'
    rw [h.colOf_eq hc a b] at this
    have : ¬ s.ri k = row := fun e => this ⟨e, rfl⟩
    simp [this]
  | some k0 =>
    obtain ⟨a, ⟨b1, b2⟩, _⟩ := firstSlot_eq_some.mp hf
    obtain ⟨c1, c2⟩ := (h.colOf_iff hc a).mp b2
    rw [Finset.sum_eq_single k0]
    · simp [b1]
    · intro k hk hne
      obtain ⟨d1, d2⟩ := Finset.mem_Ico.mp hk
      have : ¬ s.ri k = row := by
        intro e
        exact hne (hnd col hc k k0 d1 d2 c1 c2 (by rw [e, b1]))
      simp [this]
    · intro hnot
      exact absurd (Finset.mem_Ico.mpr ⟨c1, c2⟩) hnot

/-- two orderings of the same in-range triplets denote the same matrix (duplicates summed) -/
theorem fromTriplets_entry_perm_invariant (rows cols : Nat) {ts1 ts2 : List (Nat × Nat × K)}
    (hp : ts1.Perm ts2) (hr : ∀ t, t ∈ ts1 → t.1 < rows ∧ t.2.1 < cols) :
    ∃ s1 s2, fromTriplets rows cols ts1 = .ok s1 ∧ fromTriplets rows cols ts2 = .ok s2 ∧
      ∀ i j, j < cols → s1.entry i j = s2.entry i j := by
  have hr2 : ∀ t, t ∈ ts2 → t.1 < rows ∧ t.2.1 < cols := fun t ht => hr t (hp.symm.subset ht)
  obtain ⟨s1, a1, a2, _, a4, _, a6⟩ := fromTriplets_ok rows cols ts1 (sortByCol_length ts1)
    (sortByCol_sorted ts1) (fun t ht => hr t ((sortByCol_perm ts1).subset ht))
  obtain ⟨s2, b1, b2, _, b4, _, b6⟩ := fromTriplets_ok rows cols ts2 (sortByCol_length ts2)
    (sortByCol_sorted ts2) (fun t ht => hr2 t ((sortByCol_perm ts2).subset ht))
  refine ⟨s1, s2, a1, b1, ?_⟩
  intro i j hj
  rw [a2.entry_eq_sum_trips i (by omega), b2.entry_eq_sum_trips i (by omega), a6, b6]
  apply List.Perm.sum_eq
  apply List.Perm.map
  exact ((sortByCol_perm ts1).trans hp).trans (sortByCol_perm ts2).symm

section Dense
variable [Sub K] [Neg K] [BEq K] [ScalarExt K]

/-- for duplicate-free well-formed storage all views describe the same entry function: `get`,
    `to_dense`, the denoted entry `Sp.entry` and membership in `to_triplets` -/
theorem views_agree {s : Sp K} (h : WF s) (hnd : C07.NoDup s) {row col : Nat} (hr : row < s.rows)
    (hc : col < s.cols) :
    ∃ o d l, get s row col = .ok o ∧ toDense s = .ok d ∧ toTriplets s = .ok l ∧
      d.get row col = .ok (o.getD 0) ∧ s.entry row col = o.getD 0 ∧
      ∀ v, o = some v ↔ (row, col, v) ∈ l := by
  obtain ⟨o, g1, g2⟩ := entry_eq_get h hnd hr hc
  obtain ⟨d, d1, d2⟩ := C07.toDense_spec h hnd
  refine ⟨o, d, _, g1, d1, h.toTriplets_spec, ?_, g2, ?_⟩
  · rw [d2.entry row col hr hc, g2]
  · intro v
    rw [← get_some_iff_mem h hnd hr hc v, g1]
    constructor
    · intro e; rw [e]
    · intro e; injection e

end Dense
end Ring

/-! ### 5. `scale`, `insert` -/

/-- `scale` keeps the structure (and well-formedness) and multiplies every stored value -/
theorem scale_wf [Mul K] {s : Sp K} (h : WF s) (a : K) :
    ∃ s', scale s a = .ok s' ∧ WF s' ∧ s' = { s with val := s.val.map (· * a) } := by
  have hv := h.valSize
  obtain ⟨v, h1, h2, h3⟩ := forM'_inv
    (fun m (v : Array K) => v.size = s.nonzero ∧ ∀ k, v[k]? =
      if k < m then s.val[k]?.map (· * a) else s.val[k]?)
    0 s.nonzero s.val (fun v k => do
      let x ← aget v k
      aset v k (x * a)) (Nat.zero_le _) ⟨hv, by simp⟩ (by
      intro m v _ hm ⟨hsz, hr⟩
      have hm' : m < v.size := by omega
      have hm'' : m < s.val.size := by omega
      refine ⟨v.setIfInBounds m (v[m] * a), by simp [aget_ok hm', aset_ok _ hm', bind, Except.bind],
        by simpa using hsz, ?_⟩
      intro k
      rw [Array.getElem?_setIfInBounds]
      by_cases hc : m = k
      · subst hc
        have := hr m
        simp only [Nat.lt_irrefl, if_false, hm', hm'', Array.getElem?_eq_getElem, Option.some.injEq] at this
        simp [hm', hm'', this]
      · have e1 : (k < m + 1) = (k < m) := by apply propext; omega
        simp only [hc, if_false, e1, hr k])
  have hval : v = s.val.map (· * a) := by
    apply Array.ext_getElem?
    intro k
    rw [h3 k, Array.getElem?_map]
    by_cases hk : k < s.nonzero
    · simp [hk]
    · have : s.val.size ≤ k := by omega
      simp [hk, this]
  refine ⟨{ s with val := s.val.map (· * a) }, ?_,
    ⟨h.csSize, h.cs0, h.mono, h.csLast, by simpa using h.valSize, h.riSize, h.riLt⟩, rfl⟩
  unfold scale
  rw [h1, hval]
  rfl

section Zero
variable [Zero K]

/-- `insert` on a stored position (first slot `k`) overwrites that value and nothing else -/
theorem insert_overwrite {s : Sp K} (h : WF s) {row col k : Nat} (hr : row < s.rows)
    (hc : col < s.cols) (v : K) (hk : k < s.nonzero) (hpos : s.ri k = row ∧ s.colOf k = col)
    (hfirst : ∀ k', k' < k → ¬ (s.ri k' = row ∧ s.colOf k' = col)) :
    ∃ s', insert s row col v = .ok s' ∧ WF s' ∧ s'.rows = s.rows ∧ s'.cols = s.cols ∧
      s'.nonzero = s.nonzero ∧ s'.rowIndex = s.rowIndex ∧ s'.colStart = s.colStart ∧
      ∀ k', s'.vl k' = if k' = k then v else s.vl k' := by
  have hf := firstSlot_eq_some.mpr ⟨hk, hpos, hfirst⟩
  refine ⟨_, h.insert_hit hr hc v hf,
    ⟨h.csSize, h.cs0, h.mono, h.csLast, by simpa using h.valSize, h.riSize, h.riLt⟩,
    rfl, rfl, rfl, rfl, rfl, ?_⟩
  intro k'
  have hk' : k < s.val.size := by rw [h.valSize]; exact hk
  simp only [Sp.vl, Array.getElem?_setIfInBounds]
  by_cases e : k = k'
  · subst e; simp [hk']
  · have e' : ¬ k' = k := fun x => e x.symm
    simp [e, e']

/-- `insert` on a position that is not stored yields a well-formed storage with one more slot
    whose triplets are the stably sorted extension of the old ones -/
theorem insert_new {s : Sp K} (h : WF s) {row col : Nat} (hr : row < s.rows) (hc : col < s.cols)
    (v : K) (hnew : ∀ k, k < s.nonzero → ¬ (s.ri k = row ∧ s.colOf k = col)) :
    ∃ s', insert s row col v = .ok s' ∧ WF s' ∧ s'.rows = s.rows ∧ s'.cols = s.cols ∧
      s'.nonzero = s.nonzero + 1 ∧ toTriplets s' = .ok (sortByCol (trips s ++ [(row, col, v)])) := by
  have hf := firstSlot_eq_none.mpr hnew
  rw [h.insert_miss hr hc v hf]
  have hin : ∀ t, t ∈ trips s ++ [(row, col, v)] → t.1 < s.rows ∧ t.2.1 < s.cols := by
    intro t ht
    rcases List.mem_append.mp ht with ht | ht
    · exact h.trips_inRange t ht
    · have : t = (row, col, v) := by simpa using ht
      subst this; exact ⟨hr, hc⟩
  obtain ⟨s', h1, h2, h3, h4, h5, h6⟩ := fromTriplets_ok s.rows s.cols _ (sortByCol_length _)
    (sortByCol_sorted _) (fun t ht => hin t ((sortByCol_perm _).subset ht))
  exact ⟨s', h1, h2, h3, h4, by simpa using h5, by rw [h2.toTriplets_spec, h6]⟩

/-- `insert(row, col, v)` on a well-formed storage and an in-range position always succeeds with a
    well-formed storage of the same shape: either the position was stored (first slot `k`) and only
    `val[k]` changes, or it was not and the triplets are the stably sorted extension -/
theorem insert_spec {s : Sp K} (h : WF s) {row col : Nat} (hr : row < s.rows) (hc : col < s.cols)
    (v : K) :
    ∃ s', insert s row col v = .ok s' ∧ WF s' ∧ s'.rows = s.rows ∧ s'.cols = s.cols ∧
      ((∃ k, firstSlot s row col = some k ∧ s'.nonzero = s.nonzero ∧ s'.rowIndex = s.rowIndex ∧
          s'.colStart = s.colStart ∧ ∀ k', s'.vl k' = if k' = k then v else s.vl k') ∨
       (firstSlot s row col = none ∧ s'.nonzero = s.nonzero + 1 ∧
          toTriplets s' = .ok (sortByCol (trips s ++ [(row, col, v)])))) := by
  cases hf : firstSlot s row col with
  | some k =>
    obtain ⟨a, b, c⟩ := firstSlot_eq_some.mp hf
    obtain ⟨s', h1, h2, h3, h4, h5, h6, h7, h8⟩ := insert_overwrite h hr hc v a b c
    exact ⟨s', h1, h2, h3, h4, Or.inl ⟨k, rfl, h5, h6, h7, h8⟩⟩
  | none =>
    obtain ⟨s', h1, h2, h3, h4, h5, h6⟩ := insert_new h hr hc v (firstSlot_eq_none.mp hf)
    exact ⟨s', h1, h2, h3, h4, Or.inr ⟨rfl, h5, h6⟩⟩

/-- after `insert(row, col, v)` into a well-formed storage, `get(row, col)` returns `v` -/
theorem insert_get {s : Sp K} (h : WF s) {row col : Nat} (hr : row < s.rows) (hc : col < s.cols)
    (v : K) : ∃ s', insert s row col v = .ok s' ∧ WF s' ∧ get s' row col = .ok (some v) := by
  cases hf : firstSlot s row col with
  | some k =>
    obtain ⟨a, b, c⟩ := firstSlot_eq_some.mp hf
    obtain ⟨s', h1, h2, h3, h4, h5, h6, h7, h8⟩ := insert_overwrite h hr hc v a b c
    refine ⟨s', h1, h2, ?_⟩
    have e1 : ∀ k', s'.ri k' = s.ri k' := by intro k'; simp [Sp.ri, h6]
    have e2 : ∀ k', s'.colOf k' = s.colOf k' := by
      intro k'; unfold Sp.colOf Sp.cs; rw [h7, h4]
    rw [get_some_iff h2 (by omega) (by omega)]
    refine ⟨k, by omega, by rw [e1, e2]; exact b, ?_, by simp [h8]⟩
    intro k' hk'
    rw [e1, e2]; exact c k' hk'
  | none =>
    have hn := firstSlot_eq_none.mp hf
    obtain ⟨s', h1, h2, h3, h4, h5, h6⟩ := insert_new h hr hc v hn
    refine ⟨s', h1, h2, ?_⟩
    have htr : trips s' = sortByCol (trips s ++ [(row, col, v)]) := by
      rw [h2.toTriplets_spec] at h6; injection h6
    -- the only stored triplet at `(row, col)` is the new one
    have honly : ∀ t, t ∈ trips s' → t.1 = row → t.2.1 = col → t.2.2 = v := by
      intro t ht e1 e2
      rw [htr] at ht
      rcases List.mem_append.mp ((sortByCol_perm _).subset ht) with ht | ht
      · obtain ⟨k, hk, rfl⟩ := mem_trips.mp ht
        exact absurd ⟨e1, e2⟩ (hn k hk)
      · have : t = (row, col, v) := by simpa using ht
        rw [this]
    have hmem : (row, col, v) ∈ trips s' := by
      rw [htr]; exact (sortByCol_perm _).symm.subset (by simp)
    obtain ⟨k, hk, hkt⟩ := mem_trips.mp hmem
    have e1 : s'.ri k = row := congrArg (·.1) hkt
    have e2 : s'.colOf k = col := congrArg (·.2.1) hkt
    rw [h2.get_spec (by omega) (by omega)]
    cases hf' : firstSlot s' row col with
    | none => exact absurd ⟨e1, e2⟩ (firstSlot_eq_none.mp hf' k hk)
    | some k0 =>
      obtain ⟨a, ⟨b1, b2⟩, _⟩ := firstSlot_eq_some.mp hf'
      have := honly (trip s' k0) (mem_trips.mpr ⟨k0, a, rfl⟩) b1 b2
      simp only [trip] at this
      simp [this]

end Zero

/-! ### 6. `transpose` -/

section Zero
variable [Zero K]

/-- `transpose` of a well-formed storage succeeds with a well-formed storage of the transposed
    shape and the same number of slots -/
theorem transpose_wf {s : Sp K} (h : WF s) :
    ∃ t, transpose s = .ok t ∧ WF t ∧ t.rows = s.cols ∧ t.cols = s.rows ∧ t.nonzero = s.nonzero := by
  obtain ⟨t, h1, h2, h3, h4, h5, _⟩ := h.transpose_trips
  exact ⟨t, h1, h2, h3, h4, h5⟩

/-- `transpose` is a stable counting sort: the stored triplets of the result are the swapped
    triplets of `s`, stably sorted by their new column (the old row) -/
theorem transpose_spec {s : Sp K} (h : WF s) :
    ∃ t, transpose s = .ok t ∧ WF t ∧
      toTriplets t = .ok (sortByCol ((trips s).map (fun u => (u.2.1, u.1, u.2.2)))) := by
  obtain ⟨t, h1, h2, _, _, _, h6⟩ := h.transpose_trips
  exact ⟨t, h1, h2, by rw [h2.toTriplets_spec, h6]; rfl⟩

/-- the multiset of triplets of the transpose is the swapped multiset of triplets -/
theorem transpose_perm {s : Sp K} (h : WF s) :
    ∃ t l l', transpose s = .ok t ∧ toTriplets s = .ok l ∧ toTriplets t = .ok l' ∧
      l'.Perm (l.map (fun u => (u.2.1, u.1, u.2.2))) := by
  obtain ⟨t, h1, h2, h3⟩ := transpose_spec h
  exact ⟨t, _, _, h1, h.toTriplets_spec, h3, sortByCol_perm _⟩

end Zero

/-- the transpose denotes the transposed matrix: `entry t i j = entry s j i` (no duplicate-freeness
    needed, duplicates are summed on both sides) -/
theorem transpose_entry [CommSemiring K] {s : Sp K} (h : WF s) :
    ∃ t, transpose s = .ok t ∧ WF t ∧
      ∀ i j, i < s.cols → j < s.rows → t.entry i j = s.entry j i := by
  obtain ⟨t, h1, h2, h3, h4, h5, h6⟩ := h.transpose_trips
  refine ⟨t, h1, h2, ?_⟩
  intro i j hi hj
  rw [h2.entry_eq_sum_trips i (by omega), h.entry_eq_sum_trips j hi, h6,
    List.Perm.sum_eq ((sortByCol_perm _).map _), List.map_map]
  congr 1
  apply List.map_congr_left
  intro u _
  simp only [Function.comp, swapT]
  by_cases e : u.2.1 = i ∧ u.1 = j
  · have e' : u.1 = j ∧ u.2.1 = i := ⟨e.2, e.1⟩
    simp [e, e']
  · have e' : ¬ (u.1 = j ∧ u.2.1 = i) := fun x => e ⟨x.2, x.1⟩
    simp [e, e']

/-- the hypotheses of this section are satisfiable by a non-trivial storage -/
example : WF C07.demo ∧ C07.NoDup C07.demo := by
  refine ⟨⟨rfl, rfl, ?_, rfl, rfl, rfl, ?_⟩, ?_⟩
  · intro j hj
    have : j = 0 ∨ j = 1 ∨ j = 2 := by simp only [C07.demo] at hj; omega
    rcases this with rfl | rfl | rfl <;> simp [Sp.cs, C07.demo]
  · intro k hk
    have : k = 0 ∨ k = 1 ∨ k = 2 ∨ k = 3 := by simp only [C07.demo] at hk; omega
    rcases this with rfl | rfl | rfl | rfl <;> simp [Sp.ri, C07.demo]
  · intro j hj k k' a b c d e
    have hj' : j < 3 := hj
    interval_cases j <;> simp [Sp.cs, C07.demo] at a b c d <;>
      interval_cases k <;> interval_cases k' <;> simp_all [Sp.ri, C07.demo]

end Ohsl.Props.C06
